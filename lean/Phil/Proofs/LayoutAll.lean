/-
  ONE layout grammar for whole documents (C02 / C15): nesting + continuations + switched-off regions +
  attributes.

  `DocItem` is a definition (with `!`, dotted name, Layout3 gaps — backslash and quoted continuation
  lines —, attribute items `[!].name = words` behind it) or a scope (with `!`, dotted header name,
  header attribute items, body = list of items, to any depth); Layout3 filler (`Pre3`: filler lines
  and `#phil __OFF__ … #phil __ON__` regions) stands wherever the parser's main loop reads filler
  (in front of every item, every attribute item of a definition, every `}` and at the end), and the
  document may be cut by `#phil __END__` (`DocEnd`).

  Vocabulary reused: `Gap`, `Pre3`, `OffRegion`, `DocEnd`, `DefLayout3`, `relineG`, `endLineG`
  (Layout3); `bangText_l2`, `goodPathName_l2`, `nestIn`, `EofHead_l2` (Layout2); `attrLead`, `attrValOf`,
  `Obj.addAttr(s)` (LayoutAttrs); `AttrIt.swf`, `sattrsOf`, `hdrText_ls`, `scope_hdr_turn_ls`
  (LayoutAttrsScope).  New lemmas carry the suffix `_all`.
-/
import Phil.Proofs.Layout3
import Phil.Proofs.LayoutAttrsScope
set_option linter.unusedSimpArgs false
set_option linter.unusedVariables false
namespace Phil

/-! ### what may follow a value: every head of the other grammars is a `StopHead` -/

theorem StopHead_of_SafeHead_all {X : Str} (h : SafeHead_l2 X) : StopHead X where
  ends := fun sp L l0 hsp hl => EndsValue_head_l2 sp X L l0 hsp h hl
  noq := by
    intro c hc
    cases X with
    | nil => simp [firstNonSpace] at hc
    | cons x t =>
      obtain ⟨hx1, hx2, _, _⟩ := h x t rfl
      simp only [firstNonSpace, hx1, Bool.false_eq_true, ↓reduceIte, Option.some.injEq] at hc
      subst hc
      exact hx2

theorem StopHead_close_all (t : Str) : StopHead ('}' :: t) := StopHead_of_SafeHead_all (SafeHead_close_l2 t)

/-- `cAA_term3` with the terminator "nothing" allowed in front of `}` too -/
theorem cAA_term_all (t : Terminator) (ht : t.wf = true) (ls : List FillLine)
    (hls : ls.all FillLine.wf = true) (ind X : Str) (hind : inlineB ind = true) (hX : StopHead X)
    (heof : t.isEof = true → ls = [] ∧ EofHead_l2 X) (L : Nat)
    (fuel : Nat) (last : Word) (acc : List Word) (l0 : Nat)
    (hf : (t.text ++ (linesStr ls ++ (ind ++ X))).length + 1 ≤ fuel) (hl : last.line = some l0)
    (hle : l0 ≤ L) (hbs : isUnq last "\\" = false) :
    ∃ ci4, collectAssignedAux fuel ⟨t.text ++ (linesStr ls ++ (ind ++ X)), L⟩ last false acc
        = .ok (acc.reverse, ci4) ∧
      nextWord structSettings ci4
        = nextWordAux structSettings false (ind ++ X) (L + nlCount t.text + ls.length) := by
  cases t with
  | nl tb =>
    exact cAA_term3 (.nl tb) ht ls hls ind X hind hX (by intro h; cases h) L fuel last acc l0 hf hl hle hbs
  | semi sb =>
    exact cAA_term3 (.semi sb) ht ls hls ind X hind hX (by intro h; cases h) L fuel last acc l0 hf hl hle hbs
  | comment sb cmt =>
    exact cAA_term3 (.comment sb cmt) ht ls hls ind X hind hX (by intro h; cases h) L fuel last acc l0 hf
      hl hle hbs
  | eof =>
    obtain ⟨rfl, hX'⟩ := heof rfl
    rcases hX' with rfl | ⟨r, rfl⟩
    · exact cAA_term3 .eof ht [] hls ind [] hind hX (fun _ => ⟨rfl, rfl⟩) L fuel last acc l0 hf hl hle hbs
    · obtain ⟨f, rfl⟩ : ∃ f, fuel = f + 1 := ⟨fuel - 1, by omega⟩
      refine ⟨⟨ind ++ '}' :: r, L⟩, ?_, ?_⟩
      · simp only [Terminator.text, linesStr, List.nil_append]
        exact cAA_close_l2 f _ _ last _ acc (nextWord_value_close_l2 ind r L (inlineB_space hind)) rfl rfl
      · simp only [Terminator.text, nlCount_nil, List.length_nil, Nat.add_zero]
        rfl

/-- `collectAssigned_layout3` with the next construct being anything in front of which a value ends
    (a name, `!name`, `.attr`, `}`, a `#phil` directive, the end of the text) -/
theorem collectAssigned_layout_all (ws : List Word) (gaps : List Gap) (t : Terminator)
    (ls : List FillLine) (ind X : Str) (l : Nat) (lead : Word)
    (hne : ws ≠ []) (hgood : ∀ w ∈ ws, goodWord w = true)
    (hgaps : gapsOK3 true true gaps ws = true) (ht : t.wf = true) (hls : ls.all FillLine.wf = true)
    (hind : inlineB ind = true) (hX : StopHead X) (heof : t.isEof = true → ls = [] ∧ EofHead_l2 X)
    (hlead : lead.line = some l) (hbs : isUnq lead "\\" = false) :
    ∃ ci4, collectAssigned ⟨wordsLay3 gaps ws ++ (t.text ++ (linesStr ls ++ (ind ++ X))), l⟩ lead
        = .ok (relineG l gaps ws, ci4) ∧
      nextWord structSettings ci4
        = nextWordAux structSettings false (ind ++ X) (endLineG l gaps ws + nlCount t.text + ls.length) := by
  have hgt : GoodTail (t.text ++ (linesStr ls ++ (ind ++ X))) :=
    term_tail_l2 t ht ind hind _ (by
      intro h
      obtain ⟨rfl, hX'⟩ := heof h
      rcases hX' with rfl | ⟨r, rfl⟩
      · left; simp [linesStr]
      · right; exact ⟨r, by simp [linesStr]⟩)
  obtain ⟨ci4, h1, h2⟩ := cAA_layWords3 (t.text ++ (linesStr ls ++ (ind ++ X)))
    (fun ci4 => nextWord structSettings ci4
        = nextWordAux structSettings false (ind ++ X) (endLineG l gaps ws + nlCount t.text + ls.length))
    hgt ws gaps true _ l l true lead [] hgaps hgood (Nat.le_refl _) hlead (Nat.le_refl _) (fun _ => rfl) hbs
    (fun fuel' last' acc' l0' hf' hl' hle' hbs' =>
      cAA_term_all t ht ls hls ind X hind hX heof (endLineG l gaps ws) fuel' last' acc' l0' hf' hl' hle' hbs')
  refine ⟨ci4, ?_, h2⟩
  unfold collectAssigned
  simp only []
  rw [h1]
  have : (relineG l gaps ws).isEmpty = false := by
    cases ws with
    | nil => exact absurd rfl hne
    | cons w ws =>
      obtain ⟨g, gs, rfl, _, _⟩ := gapsOK3_cons_right hgaps
      simp [relineG]
  simp [this]

/-! ### one turn of `collect_objects`: a definition, an attribute item (Layout3 gaps) -/

/-- the text of `head sp1 = g1 w1 … term` -/
def entryText_all (head : Str) (ws : List Word) (L : DefLayout3) : Str :=
  head ++ (L.sp1 ++ '=' :: (wordsLay3 L.gaps ws ++ L.term.text))

/-- **One turn of `collect_objects` for a definition** with or without `!`, possibly dotted name,
    value under the Layout3 gaps (compare `defn_turn_l2`).  After the definition come filler lines
    `ls`, blanks `ind'` and the next construct `X`. -/
theorem defn_turn_all (nm : Str) (ws : List Word) (L : DefLayout3) (b : Bool) (ind : Str)
    (ls : List FillLine) (ind' X : Str) (hit : ItemName nm) (hne : ws ≠ [])
    (hgood : ∀ w ∈ ws, goodWord w = true) (hind : inlineB ind = true)
    (hsp1 : inlineB L.sp1 = true) (hgaps : gapsOK3 true true L.gaps ws = true) (hterm : L.term.wf = true)
    (hls : ls.all FillLine.wf = true) (hind' : inlineB ind' = true) (hX : StopHead X)
    (heof : L.term.isEof = true → ls = [] ∧ EofHead_l2 X)
    (fuel : Nat) (st : PState) (stop : Option Word) (prevLine : Nat) (acc : List Obj)
    (pending : Option Obj) (l0 : Nat)
    (hci : nextWord structSettings st.ci
      = nextWordAux structSettings false
          (ind ++ (bangText_l2 b ++ (entryText_all nm ws L ++ (linesStr ls ++ (ind' ++ X))))) l0) :
    ∃ ci4, collectObjects (fuel + 1) st stop prevLine acc pending
        = collectObjects fuel { ci := ci4, nextId := st.nextId + 1 } stop l0 (flush acc pending)
            (some (.defn { name := nm, id := some st.nextId, disabled := b, line := some l0 }
              (relineG l0 L.gaps ws))) ∧
      nextWord structSettings ci4
        = nextWordAux structSettings false (ind' ++ X)
            (endLineG l0 L.gaps ws + nlCount L.term.text + ls.length) := by
  obtain ⟨c, w, e, hs, hall⟩ := hit.chars
  have hpd := hit.defName
  obtain ⟨_, _, _, _, _, _, _, h8, _⟩ := idCont_facts (idStart_cont hs)
  have h1 : nextWord structSettings st.ci
      = .ok (some ({ value := bangText_l2 b ++ nm, quote := none, line := some l0 },
          ⟨L.sp1 ++ '=' :: (wordsLay3 L.gaps ws ++ (L.term.text ++ (linesStr ls ++ (ind' ++ X)))), l0⟩)) := by
    rw [hci, nextWordAux_skip structSettings _ _ (inlineB_space hind), inlineB_nl hind, Nat.add_zero]
    have := nextWordAux_bang_name_gen_l2 b nm
      (L.sp1 ++ '=' :: (wordsLay3 L.gaps ws ++ (L.term.text ++ (linesStr ls ++ (ind' ++ X))))) l0 hit
      (stopsAt_space_append _ _ _ (inlineB_space hsp1) (by rfl))
    simpa [entryText_all] using this
  have h2 := nextWord_struct_eq L.sp1 (wordsLay3 L.gaps ws ++ (L.term.text ++ (linesStr ls ++ (ind' ++ X))))
    l0 (inlineB_space hsp1)
  rw [inlineB_nl hsp1, Nat.add_zero] at h2
  obtain ⟨ci4, h3, h4⟩ := collectAssigned_layout_all ws L.gaps L.term ls ind' X l0
    { value := nm, quote := none, line := some l0 }
    hne hgood hgaps hterm hls hind' hX heof rfl (by rw [isUnq_backslash, e]; simp [h8])
  refine ⟨ci4, ?_, h4⟩
  cases b with
  | false =>
    exact collectObjects_defn_step fuel st stop prevLine acc pending _ _ _ _ ci4 _ h1 rfl hpd h2 rfl rfl h3
  | true =>
    exact collectObjects_bang_defn_step_l2 fuel st stop prevLine acc pending _ _ _ _ ci4 _ nm h1 rfl rfl
      hpd h2 rfl rfl h3

/-- an attribute assignment of a definition the theorems are stated for: a known attribute name, a
    non-empty value of good words, and — unless commented out by `!` — a value the converter accepts -/
def goodAttr3 (n : String) (ws : List Word) (b : Bool) : Bool :=
  defAttrNames.contains n && !ws.isEmpty && ws.all goodWord && (b || (attrValOf n ws).isSome)

theorem defAttrValue_relineG_all (n : String) (ws : List Word) (gaps : List Gap) (l : Nat) (v : AttrVal)
    (hlen : gaps.length = ws.length) (h : attrValOf n ws = some v) :
    defAttrValue n (relineG l gaps ws) = .ok v := by
  apply toOption_some_la
  rw [← defAttrValue_erase_la, relineG_erase ws gaps l hlen]
  exact h

/-- **One turn of `collect_objects` for an attribute assignment** `[!].n = words` (Layout3 gaps) while
    a definition is active (compare `attr_turn_la`) -/
theorem attr_turn_all (n : String) (ws : List Word) (L : DefLayout3) (b : Bool) (ind : Str)
    (ls : List FillLine) (ind' X : Str) (hga : goodAttr3 n ws b = true) (hind : inlineB ind = true)
    (hsp1 : inlineB L.sp1 = true) (hgaps : gapsOK3 true true L.gaps ws = true) (hterm : L.term.wf = true)
    (hls : ls.all FillLine.wf = true) (hind' : inlineB ind' = true) (hX : StopHead X)
    (heof : L.term.isEof = true → ls = [] ∧ EofHead_l2 X)
    (fuel : Nat) (st : PState) (stop : Option Word) (prevLine : Nat) (acc : List Obj) (d : Obj) (l0 : Nat)
    (hci : nextWord structSettings st.ci
      = nextWordAux structSettings false
          (ind ++ (bangText_l2 b ++ (entryText_all (attrLead n) ws L ++ (linesStr ls ++ (ind' ++ X))))) l0) :
    ∃ ci4, collectObjects (fuel + 1) st stop prevLine acc (some d)
        = collectObjects fuel { ci := ci4, nextId := st.nextId } stop l0 acc (applyAttr (some d) n ws b) ∧
      nextWord structSettings ci4
        = nextWordAux structSettings false (ind' ++ X)
            (endLineG l0 L.gaps ws + nlCount L.term.text + ls.length) := by
  simp only [goodAttr3, Bool.and_eq_true, Bool.not_eq_true', List.isEmpty_eq_false_iff,
    List.all_eq_true, Bool.or_eq_true] at hga
  obtain ⟨⟨⟨hn, hne⟩, hgood⟩, hval⟩ := hga
  have h1 : nextWord structSettings st.ci
      = .ok (some ({ value := bangText_l2 b ++ attrLead n, quote := none, line := some l0 },
          ⟨L.sp1 ++ '=' :: (wordsLay3 L.gaps ws ++ (L.term.text ++ (linesStr ls ++ (ind' ++ X)))), l0⟩)) := by
    rw [hci, nextWordAux_skip structSettings _ _ (inlineB_space hind), inlineB_nl hind, Nat.add_zero]
    have := nextWordAux_bang_attr_la b n
      (L.sp1 ++ '=' :: (wordsLay3 L.gaps ws ++ (L.term.text ++ (linesStr ls ++ (ind' ++ X))))) l0 hn
      (stopsAt_space_append _ _ _ (inlineB_space hsp1) (by rfl))
    simpa [entryText_all] using this
  have h2 := nextWord_struct_eq L.sp1 (wordsLay3 L.gaps ws ++ (L.term.text ++ (linesStr ls ++ (ind' ++ X))))
    l0 (inlineB_space hsp1)
  rw [inlineB_nl hsp1, Nat.add_zero] at h2
  obtain ⟨ci4, h3, h4⟩ := collectAssigned_layout_all ws L.gaps L.term ls ind' X l0
    { value := attrLead n, quote := none, line := some l0 }
    hne hgood hgaps hterm hls hind' hX heof rfl (by rw [isUnq_backslash]; simp [attrLead])
  refine ⟨ci4, ?_, h4⟩
  have hv : b = false → defAttrValue n (relineG l0 L.gaps ws) = .ok ((attrValOf n ws).getD .none) := by
    intro hb
    rcases hval with hval | hval
    · rw [hb] at hval; cases hval
    · obtain ⟨v, hv⟩ := Option.isSome_iff_exists.mp hval
      rw [hv]
      exact defAttrValue_relineG_all n ws L.gaps l0 v (gapsOK3_length ws L.gaps true true hgaps) hv
  rw [collectObjects_attr_step_la fuel st stop prevLine acc d _ _ _ _ ci4 (relineG l0 L.gaps ws) n b
    ((attrValOf n ws).getD .none) h1 rfl rfl hn h2 rfl rfl h3 hv]
  cases b <;> rfl

/-! ### switched-off regions inside a scope body: the `#phil` turns for any stop token -/

/-- `collectObjects_off_step` for any stop token -/
theorem collectObjects_off_step_all (fuel : Nat) (st : PState) (stop : Option Word) (prevLine : Nat)
    (acc : List Obj) (pending : Option Obj) (lead w : Word) (ci1 ci2 ci3 : CI) (k : Nat)
    (h1 : nextWord structSettings st.ci = .ok (some (lead, ci1)))
    (hlq : lead.quote = none) (hlv : lead.value = philWord) (hll : lead.line ≠ some prevLine)
    (h2 : nextWord structSettings ci1 = .ok (some (w, ci2)))
    (hwq : w.quote = none) (hwv : w.value = "__OFF__".toList)
    (h3 : scanForStart philWord offFollowups (ci2.rest.length + 1) ci2.rest ci2.line = (k + 1, ci3)) :
    collectObjects (fuel + 1) st stop prevLine acc pending
      = collectObjects fuel { st with ci := ci3 } stop prevLine acc pending := by
  have e1 := tryPopUnquoted_of_next h1 hlq
  have e3 := popUnquoted_of_next h2 hwq
  have hlv' : lead.value = ['#', 'p', 'h', 'i', 'l'] := hlv
  have hwv' : w.value = ['_', '_', 'O', 'F', 'F', '_', '_'] := hwv
  have h3' : scanForStart ['#', 'p', 'h', 'i', 'l'] [['_', '_', 'E', 'N', 'D', '_', '_'], ['_', '_', 'O', 'N', '_', '_']]
      (ci2.rest.length + 1) ci2.rest ci2.line = (k + 1, ci3) := h3
  cases stop <;> simp [collectObjects, e1, e3, hlv', hll, hwv', h3']

/-- `#phil __END__` inside a scope body: the brace that opened the body has no partner -/
theorem collectObjects_cut_in_scope_all (fuel : Nat) (st : PState) (sw : Word) (prevLine : Nat)
    (acc : List Obj) (pending : Option Obj) (lead w : Word) (ci1 ci2 : CI)
    (h1 : nextWord structSettings st.ci = .ok (some (lead, ci1)))
    (hlq : lead.quote = none) (hlv : lead.value = philWord) (hll : lead.line ≠ some prevLine)
    (h2 : nextWord structSettings ci1 = .ok (some (w, ci2)))
    (hwq : w.quote = none) (hwv : w.value = "__END__".toList) :
    collectObjects (fuel + 1) st (some sw) prevLine acc pending
      = .error (.runtime "no_matching_brace" sw.line) := by
  have e1 := tryPopUnquoted_of_next h1 hlq
  have e3 := popUnquoted_of_next h2 hwq
  have hlv' : lead.value = ['#', 'p', 'h', 'i', 'l'] := hlv
  have hwv' : w.value = ['_', '_', 'E', 'N', 'D', '_', '_'] := hwv
  simp [collectObjects, e1, e3, hlv', hll, hwv']

/-- `collectObjects_segs` for any stop token -/
theorem collectObjects_segs_all (lines : List FillLine) (ind X : Str) (hlines : lines.all FillLine.wf = true)
    (stop : Option Word) (prevLine : Nat) (acc : List Obj) (pending : Option Obj) :
    ∀ (segs : List (List FillLine × OffRegion)), segs.all segWf = true →
      ∀ (fuel : Nat) (st : PState) (L : Nat),
        (segs ≠ [] → prevLine < L + (hLines3 segs lines).length) →
        nextWord structSettings st.ci
          = nextWordAux structSettings false (hInd3 segs ind ++ hRest3 segs lines ind X)
              (L + (hLines3 segs lines).length) →
        ∃ st', collectObjects (fuel + segs.length) st stop prevLine acc pending
            = collectObjects fuel st' stop prevLine acc pending ∧ st'.nextId = st.nextId ∧
          nextWord structSettings st'.ci
            = nextWordAux structSettings false (ind ++ X) (L + segsNl segs + lines.length) := by
  intro segs
  induction segs with
  | nil =>
    intro _ fuel st L _ hci
    exact ⟨st, rfl, rfl, by simpa [hInd3, hRest3, hLines3, segsNl] using hci⟩
  | cons x more ih =>
    obtain ⟨ls, r⟩ := x
    intro hs fuel st L hprev hci
    simp only [List.all_cons, Bool.and_eq_true, segWf] at hs
    obtain ⟨⟨hls, hr⟩, hmore⟩ := hs
    obtain ⟨hri, hb1, hb1n, _, hrest, _⟩ := r.wf_facts hr
    have hprev' : prevLine < L + ls.length := hprev (by simp)
    simp only [hInd3, hRest3, hLines3] at hci
    generalize hT : segsStr more ++ (linesStr lines ++ (ind ++ X)) = T at hci
    have hstop : stopsAt structSettings (r.afterOff ++ T) = true := by
      unfold OffRegion.afterOff
      cases hrr : r.rest with
      | nil => rfl
      | cons c t => rw [hrr] at hrest; exact hrest
    obtain ⟨hw1, hw2⟩ := nextWord_directive r.ind r.b1 "__OFF__".toList (r.afterOff ++ T) '_'
      "_OFF__".toList rfl hri hb1 hb1n (by decide) (by rfl) (by rfl) hstop (L + ls.length)
    have e : r.fromPhil ++ T = philWord ++ (r.b1 ++ ("__OFF__".toList ++ (r.afterOff ++ T))) := by
      simp [OffRegion.fromPhil]
    rw [e, hw1] at hci
    have hscan := scanOff_region r hr T (L + ls.length)
    have hstep := collectObjects_off_step_all (fuel + more.length) st stop prevLine acc pending _ _ _ _
      ⟨T, L + ls.length + r.nl⟩ 0 hci rfl rfl
      (by intro e'; simp only [Option.some.injEq] at e'; omega) hw2 rfl rfl hscan
    have hnext : nextWord structSettings (⟨T, L + ls.length + r.nl⟩ : CI)
        = nextWordAux structSettings false (hInd3 more ind ++ hRest3 more lines ind X)
            (L + ls.length + r.nl + (hLines3 more lines).length) := by
      unfold nextWord
      simp only []
      rw [← hT, pre3_split, struct_skip_lines _ (hLines3_wf hmore hlines)]
    obtain ⟨st', h1, h2, h3⟩ := ih hmore fuel { st with ci := ⟨T, L + ls.length + r.nl⟩ }
      (L + ls.length + r.nl) (by intro _; omega) hnext
    refine ⟨st', ?_, h2, ?_⟩
    · rw [List.length_cons, ← Nat.add_assoc, hstep, h1]
    · rw [h3]; simp only [segsNl]; congr 1; omega

/-! ### positions: "as good as at the start of a filler" -/

/-- the structure tokenizer in state `ci` reads what it would read at the start of the filler `p`
    (which starts on line `l`) followed by the text `X`: it stands (as good as) in front of the first
    `#phil` directive of `p`, or in front of `X` -/
def AtPre (ci : CI) (p : Pre3) (X : Str) (l : Nat) : Prop :=
  nextWord structSettings ci
    = nextWordAux structSettings false (hInd3 p.segs p.ind ++ hRest3 p.segs p.lines p.ind X)
        (l + (hLines3 p.segs p.lines).length)

/-- no `#phil` directive at the start of `p` (nor, if `c`, directly behind `p`) stands on line
    `prevLine` — the parser ignores a `#phil` on the line of the previous name -/
def FreshPre (prevLine : Nat) (p : Pre3) (c : Bool) (l : Nat) : Prop :=
  (p.segs ≠ [] ∨ c = true) → prevLine < l + (hLines3 p.segs p.lines).length

theorem pre3_text_split_all (p : Pre3) (X : Str) :
    p.text ++ X = linesStr (hLines3 p.segs p.lines) ++ (hInd3 p.segs p.ind ++ hRest3 p.segs p.lines p.ind X) := by
  rw [← pre3_split]
  simp [Pre3.text]

theorem atPre_text_all (p : Pre3) (X : Str) (l : Nat) (hp : p.wf = true) : AtPre ⟨p.text ++ X, l⟩ p X l := by
  obtain ⟨h1, h2, _⟩ := Pre3.wf_facts hp
  unfold AtPre nextWord
  simp only []
  rw [pre3_text_split_all, struct_skip_lines _ (hLines3_wf h1 h2)]

/-- **the switched-off regions of a filler are skipped**, one turn each, for any stop token -/
theorem skipPre_all (p : Pre3) (X : Str) (hp : p.wf = true) (fuel : Nat) (st : PState) (stop : Option Word)
    (prevLine : Nat) (acc : List Obj) (pending : Option Obj) (l : Nat)
    (hfresh : FreshPre prevLine p false l) (hat : AtPre st.ci p X l) :
    ∃ st', collectObjects (fuel + p.segs.length) st stop prevLine acc pending
        = collectObjects fuel st' stop prevLine acc pending ∧ st'.nextId = st.nextId ∧
      nextWord structSettings st'.ci = nextWordAux structSettings false (p.ind ++ X) (l + p.nl) := by
  obtain ⟨h1, h2, _⟩ := Pre3.wf_facts hp
  obtain ⟨st', e1, e2, e3⟩ := collectObjects_segs_all p.lines p.ind X h2 stop prevLine acc pending p.segs h1
    fuel st l (fun hne => hfresh (Or.inl hne)) hat
  refine ⟨st', e1, e2, ?_⟩
  rw [e3, Pre3.nl, Nat.add_assoc]

theorem lineFree_fresh_all {p : Pre3} {c : Bool} (h : p.lineFree c = true) {pl L : Nat} (hle : pl ≤ L) :
    FreshPre pl p c L := by
  intro hd
  unfold Pre3.lineFree at h
  cases hs : p.segs with
  | nil =>
    rw [hs] at h hd
    simp only [Bool.or_eq_true, Bool.not_eq_true', List.isEmpty_eq_false_iff] at h
    rcases hd with hd | hd
    · exact absurd rfl hd
    · rcases h with h | h
      · rw [hd] at h; cases h
      · have : 1 ≤ p.lines.length := by
          cases hl : p.lines with
          | nil => exact absurd hl h
          | cons _ _ => simp
        simp only [hLines3]; omega
  | cons x more =>
    obtain ⟨ls, r⟩ := x
    rw [hs] at h
    simp only [Bool.not_eq_true', List.isEmpty_eq_false_iff] at h
    have : 1 ≤ ls.length := by
      cases hl : ls with
      | nil => exact absurd hl h
      | cons _ _ => simp
    simp only [hLines3]; omega

/-- after an entry (definition or attribute item) whose name stood on line `l0`, the filler `next`
    is fresh: a newline terminator moves to a new line, `;` is followed by a line-free filler, the
    terminator "nothing" by no directive at all -/
theorem entry_fresh_all (t : Terminator) (ht : t.wf = true) (next : Pre3) (last cut : Bool)
    (hok : termOK3 t next last cut = true) (l0 e : Nat) (hle : l0 ≤ e) :
    FreshPre l0 next (last && cut) (e + nlCount t.text) := by
  cases t with
  | nl tb =>
    have := term_nl_pos ht (Or.inl ⟨tb, rfl⟩)
    intro _; omega
  | comment sb cm =>
    have := term_nl_pos ht (Or.inr ⟨sb, cm, rfl⟩)
    intro _; omega
  | semi sb =>
    simp only [termOK3] at hok
    exact lineFree_fresh_all hok (by omega)
  | eof =>
    simp only [termOK3, Bool.and_eq_true, List.isEmpty_iff, Bool.not_eq_true'] at hok
    obtain ⟨⟨⟨_, hsg⟩, _⟩, hcut⟩ := hok
    intro hd
    rcases hd with hd | hd
    · exact absurd hsg hd
    · rw [hcut] at hd; simp at hd

theorem termOK3_eof_all {t : Terminator} {next : Pre3} {last cut : Bool} (hok : termOK3 t next last cut = true)
    (he : t.isEof = true) : last = true ∧ cut = false ∧ next.segs = [] ∧ next.lines = [] := by
  cases t with
  | eof =>
    simp only [termOK3, Bool.and_eq_true, List.isEmpty_iff, Bool.not_eq_true'] at hok
    exact ⟨hok.1.1.1, hok.2, hok.1.1.2, hok.1.2⟩
  | nl _ => cases he
  | semi _ => cases he
  | comment _ _ => cases he

/-- the hypothesis the entry turns need about the terminator "nothing" -/
theorem eof_next_all {t : Terminator} {next : Pre3} {last cut : Bool} {X : Str}
    (hok : termOK3 t next last cut = true) (hX : last = true → cut = false → EofHead_l2 X)
    (he : t.isEof = true) :
    hLines3 next.segs next.lines = [] ∧ EofHead_l2 (hRest3 next.segs next.lines next.ind X) := by
  obtain ⟨h1, h2, h3, h4⟩ := termOK3_eof_all hok he
  rw [h3, h4]
  exact ⟨rfl, hX h1 h2⟩

/-! ### the grammar -/

/-- an attribute item behind a definition: `pre [!].n sp1 = g1 w1 … term` (Layout3 filler and gaps) -/
structure AttrIt3 where
  n : String
  ws : List Word
  L : DefLayout3
  b : Bool := false
  deriving Repr, DecidableEq

/-- **One item of a document.**
    * `defn path d L bang attrs` — the definition `d = (name, words)` spelt `[!]p1.….pk.name = words`
      under the Layout3 layout `L` (filler with switched-off regions in front, blanks around `=`,
      gaps with backslash / quoted continuation lines, terminator), followed by its attribute items;
    * `scope path nm bang pre hattrs gap kids close` — the scope `[!]p1.….pk.nm`, header attribute
      items `hattrs`, the gap in front of `{`, the body (items, to any depth), the filler in front of
      `}`.  What follows `}` belongs to the filler of the next item. -/
inductive DocItem
  | defn (path : List Str) (d : DefSpec) (L : DefLayout3) (bang : Bool) (attrs : List AttrIt3)
  | scope (path : List Str) (nm : Str) (bang : Bool) (pre : Pre3) (hattrs : List AttrIt) (gap : Pre)
      (kids : List DocItem) (close : Pre3)

/-- the filler in front of the item's name -/
def DocItem.pre : DocItem → Pre3
  | .defn _ _ L _ _ => L.pre
  | .scope _ _ _ pre _ _ _ _ => pre

def AttrIt3.body (t : AttrIt3) : Str := bangText_l2 t.b ++ entryText_all (attrLead t.n) t.ws t.L

def attrsText3 : List AttrIt3 → Str
  | [] => []
  | t :: ts => t.L.pre.text ++ (t.body ++ attrsText3 ts)

mutual
/-- the text of an item from its name (or `!`) on -/
def DocItem.body : DocItem → Str
  | .defn p d L b attrs => bangText_l2 b ++ (entryText_all (dottedName p d.1) d.2 L ++ attrsText3 attrs)
  | .scope p nm b _ hattrs gap kids close =>
    bangText_l2 b ++ (dottedName p nm ++ hdrText_ls hattrs gap (itemsText kids ++ (close.text ++ ['}'])))
/-- the text of a list of items -/
def itemsText : List DocItem → Str
  | [] => []
  | x :: xs => (x.pre.text ++ x.body) ++ itemsText xs
end

/-- **the text of a document**: the items, the filler `post` after the last one, and the end (the end
    of the text, or `#phil __END__` and an arbitrary tail) -/
def renderAll (xs : List DocItem) (post : Pre3) (e : DocEnd) : Str := itemsText xs ++ (post.text ++ e.text)

def firstAttrPre : List AttrIt3 → Pre3 → Pre3
  | [], next => next
  | t :: _, _ => t.L.pre

def afterAttrs : List AttrIt3 → Pre3 → Str → Str
  | [], _, X => X
  | t :: ts, next, X => t.body ++ ((firstAttrPre ts next).text ++ afterAttrs ts next X)

/-- the filler in front of the first item of a block (or, for the empty block, the filler after it) -/
def firstPreAll : List DocItem → Pre3 → Pre3
  | [], tp => tp
  | x :: _, _ => x.pre

/-- the text of a block, its trailing filler and the following text, from the first name on -/
def afterPreAll : List DocItem → Pre3 → Str → Str
  | [], _, X => X
  | x :: xs, tp, X => x.body ++ (itemsText xs ++ (tp.text ++ X))

/-- well-formed attribute items behind a definition; `next` is the filler that follows the last one -/
def wfAttrs3 : List AttrIt3 → Pre3 → Bool → Bool → Bool
  | [], _, _, _ => true
  | t :: ts, next, last, cut =>
    goodAttr3 t.n t.ws t.b && t.L.pre.wf && inlineB t.L.sp1 && gapsOK3 true true t.L.gaps t.ws && t.L.term.wf &&
      termOK3 t.L.term (firstAttrPre ts next) (ts.isEmpty && last) cut && wfAttrs3 ts next last cut

mutual
/-- well-formedness of an item.  `next` is the filler that follows the item, `last`: the item is the
    last one of its block, `cut`: the block is followed by `#phil __END__`.  (The terminator "nothing"
    needs `}` or the end of the text behind blanks; after `;` and after `}` a `#phil` directive must
    not follow on the same line.) -/
def DocItem.wf : DocItem → Pre3 → Bool → Bool → Bool
  | .defn p d L _ attrs, next, last, cut =>
    goodPathName_l2 p d.1 && goodDef3 d && L.pre.wf && inlineB L.sp1 && gapsOK3 true true L.gaps d.2 &&
      L.term.wf && termOK3 L.term (firstAttrPre attrs next) (attrs.isEmpty && last) cut &&
      wfAttrs3 attrs next last cut
  | .scope p nm _ pre hattrs gap kids close, next, last, cut =>
    goodPathName_l2 p nm && pre.wf && hattrs.all AttrIt.swf && gap.wf && hdrGapOK_ls hattrs gap &&
      close.wf && wfItemsAll kids close false && next.lineFree (last && cut)
/-- well-formedness of a block of items followed by the filler `tp` -/
def wfItemsAll : List DocItem → Pre3 → Bool → Bool
  | [], _, _ => true
  | x :: xs, tp, cut => x.wf (firstPreAll xs tp) xs.isEmpty cut && wfItemsAll xs tp cut
end

/-- **the decidable input class**: every item well formed, the trailing filler well formed, the end
    well formed (`#phil __END__` not on the line of the last name) -/
def wfDocAll (xs : List DocItem) (post : Pre3) (e : DocEnd) : Bool :=
  wfItemsAll xs post e.isCut && post.wf && e.wf

/-- the attribute list the items leave on the definition -/
def attrsOf3 : List AttrIt3 → Attrs
  | [] => []
  | t :: ts => (if t.b then [] else [(t.n, (attrValOf t.n t.ws).getD .none)]) ++ attrsOf3 ts

/-- the line on which the filler after the attribute items starts -/
def attrsEnd3 : Nat → List AttrIt3 → Nat
  | l, [] => l
  | l, t :: ts => attrsEnd3 (endLineG (l + t.L.pre.nl) t.L.gaps t.ws + nlCount t.L.term.text) ts

/-- turns of `collect_objects` for the attribute items (one per item and per region) -/
def attrsTurns : List AttrIt3 → Nat
  | [] => 0
  | t :: ts => t.L.pre.segs.length + 1 + attrsTurns ts

mutual
/-- ids handed out: one per definition and per scope header -/
def DocItem.count : DocItem → Nat
  | .defn _ _ _ _ _ => 1
  | .scope _ _ _ _ _ _ kids _ => 1 + countAll kids
def countAll : List DocItem → Nat
  | [] => 0
  | x :: xs => x.count + countAll xs
end

mutual
/-- turns of `collect_objects` an item needs, the nested calls included -/
def DocItem.size : DocItem → Nat
  | .defn _ _ L _ attrs => L.pre.segs.length + 1 + attrsTurns attrs
  | .scope _ _ _ pre _ _ kids close => pre.segs.length + 1 + (itemsSize kids + close.segs.length + 1)
def itemsSize : List DocItem → Nat
  | [] => 0
  | x :: xs => x.size + itemsSize xs
end

/-- turns at the level of the item itself -/
def DocItem.turns : DocItem → Nat
  | .defn _ _ L _ attrs => L.pre.segs.length + 1 + attrsTurns attrs
  | .scope _ _ _ pre _ _ _ _ => pre.segs.length + 1

mutual
/-- the line on which the filler after the item starts, when the item's filler starts on line `l` -/
def DocItem.endLn : DocItem → Nat → Nat
  | .defn _ d L _ attrs, l => attrsEnd3 (endLineG (l + L.pre.nl) L.gaps d.2 + nlCount L.term.text) attrs
  | .scope _ _ _ pre hattrs gap kids close, l =>
    itemsEndLn kids (attrsEnd (l + pre.nl) hattrs + gap.lines.length) + close.nl
def itemsEndLn : List DocItem → Nat → Nat
  | [], l => l
  | x :: xs, l => itemsEndLn xs (x.endLn l)
end

mutual
/-- **what the parser builds** for an item whose filler starts on line `l`, the next id being `i` -/
def DocItem.obj : DocItem → Nat → Nat → Obj
  | .defn p d L b attrs, l, i =>
    nestIn (some i) false p
      (.defn { name := d.1, id := some i, disabled := b, line := some (l + L.pre.nl),
               mergeNames := !p.isEmpty, attrs := attrsOf3 attrs }
        (relineG (l + L.pre.nl) L.gaps d.2))
  | .scope p nm b pre hattrs gap kids _, l, i =>
    nestIn (some i) false p
      (.scope { name := nm, id := some i, disabled := b, line := some (l + pre.nl),
                mergeNames := !p.isEmpty, attrs := sattrsOf hattrs }
        (objsAll kids (attrsEnd (l + pre.nl) hattrs + gap.lines.length) (i + 1)))
def objsAll : List DocItem → Nat → Nat → List Obj
  | [], _, _ => []
  | x :: xs, l, i => x.obj l i :: objsAll xs (x.endLn l) (i + x.count)
end

/-! ### text identities, well-formedness of parts -/

theorem attrsText_split_all (ts : List AttrIt3) (next : Pre3) (X : Str) :
    attrsText3 ts ++ (next.text ++ X) = (firstAttrPre ts next).text ++ afterAttrs ts next X := by
  induction ts with
  | nil => rfl
  | cons t ts ih => simp [attrsText3, firstAttrPre, afterAttrs, ih, List.append_assoc]

theorem itemsText_split_all (xs : List DocItem) (tp : Pre3) (X : Str) :
    itemsText xs ++ (tp.text ++ X) = (firstPreAll xs tp).text ++ afterPreAll xs tp X := by
  cases xs with
  | nil => rfl
  | cons x rest => simp [itemsText, firstPreAll, afterPreAll, List.append_assoc]

theorem firstAttrPre_wf_all {ts : List AttrIt3} {next : Pre3} {last cut : Bool}
    (h : wfAttrs3 ts next last cut = true) (hn : next.wf = true) : (firstAttrPre ts next).wf = true := by
  cases ts with
  | nil => exact hn
  | cons t ts =>
    simp only [wfAttrs3, Bool.and_eq_true] at h
    exact h.1.1.1.1.1.2

theorem DocItem.pre_wf_all (x : DocItem) (next : Pre3) (last cut : Bool) (h : x.wf next last cut = true) :
    x.pre.wf = true := by
  cases x with
  | defn p d L b attrs =>
    simp only [DocItem.wf, Bool.and_eq_true] at h
    exact h.1.1.1.1.1.2
  | scope p nm b pre hattrs gap kids close =>
    simp only [DocItem.wf, Bool.and_eq_true] at h
    exact h.1.1.1.1.1.1.2

theorem firstPreAll_wf_all {xs : List DocItem} {tp : Pre3} {cut : Bool}
    (h : wfItemsAll xs tp cut = true) (htp : tp.wf = true) : (firstPreAll xs tp).wf = true := by
  cases xs with
  | nil => exact htp
  | cons x rest =>
    simp only [wfItemsAll, Bool.and_eq_true] at h
    exact x.pre_wf_all _ _ _ h.1

theorem attr_safeHead_all (b : Bool) (n : String) (rest : Str) :
    SafeHead_l2 (bangText_l2 b ++ (attrLead n ++ rest)) := by
  cases b with
  | true => exact SafeHead_bang_l2 _
  | false =>
    intro c t e
    simp only [bangText_l2, attrLead, List.nil_append, List.cons_append, List.cons.injEq] at e
    rw [← e.1]
    exact ⟨by rfl, by rfl, by decide, by decide⟩

theorem afterAttrs_stopHead_all (ts : List AttrIt3) (next : Pre3) {X : Str} (hX : StopHead X) :
    StopHead (afterAttrs ts next X) := by
  cases ts with
  | nil => exact hX
  | cons t ts =>
    simp only [afterAttrs, AttrIt3.body, entryText_all, List.append_assoc]
    exact StopHead_of_SafeHead_all (attr_safeHead_all t.b t.n _)

theorem DocItem.body_stopHead_all (x : DocItem) (next : Pre3) (last cut : Bool)
    (h : x.wf next last cut = true) (rest : Str) : StopHead (x.body ++ rest) := by
  cases x with
  | defn p d L b attrs =>
    simp only [DocItem.wf, Bool.and_eq_true] at h
    obtain ⟨_, _, _, hit⟩ := goodPathName_facts_l2 h.1.1.1.1.1.1.1
    simp only [DocItem.body, entryText_all, List.append_assoc]
    exact StopHead_of_SafeHead_all (bang_name_safeHead_l2 b hit _)
  | scope p nm b pre hattrs gap kids close =>
    simp only [DocItem.wf, Bool.and_eq_true] at h
    obtain ⟨_, _, _, hit⟩ := goodPathName_facts_l2 h.1.1.1.1.1.1.1
    simp only [DocItem.body, List.append_assoc]
    exact StopHead_of_SafeHead_all (bang_name_safeHead_l2 b hit _)

theorem afterPreAll_stopHead_all {xs : List DocItem} {tp : Pre3} {cut : Bool}
    (h : wfItemsAll xs tp cut = true) {X : Str} (hX : StopHead X) : StopHead (afterPreAll xs tp X) := by
  cases xs with
  | nil => exact hX
  | cons x rest =>
    simp only [wfItemsAll, Bool.and_eq_true] at h
    exact x.body_stopHead_all _ _ _ h.1 _

theorem attrsEnd_ge_all (ts : List AttrIt) : ∀ l, l ≤ attrsEnd l ts := by
  induction ts with
  | nil => intro l; exact Nat.le_refl _
  | cons t ts ih =>
    intro l
    have := ih (endLine (l + t.L.pre.lines.length) t.ws + nlCount t.L.term.text)
    rw [endLine_eq] at this
    simp only [attrsEnd, endLine_eq]; omega

/-! ### the entry turns in terms of positions -/

theorem defn_entry_all (nm : Str) (ws : List Word) (L : DefLayout3) (b : Bool) (ind : Str) (next : Pre3)
    (X : Str) (hit : ItemName nm) (hne : ws ≠ []) (hgood : ∀ w ∈ ws, goodWord w = true)
    (hind : inlineB ind = true) (hsp1 : inlineB L.sp1 = true) (hgaps : gapsOK3 true true L.gaps ws = true)
    (hterm : L.term.wf = true) (hnext : next.wf = true) (hX : StopHead X)
    (heof : L.term.isEof = true →
      hLines3 next.segs next.lines = [] ∧ EofHead_l2 (hRest3 next.segs next.lines next.ind X))
    (fuel : Nat) (st : PState) (stop : Option Word) (prevLine : Nat) (acc : List Obj)
    (pending : Option Obj) (l0 : Nat)
    (hci : nextWord structSettings st.ci
      = nextWordAux structSettings false
          (ind ++ (bangText_l2 b ++ (entryText_all nm ws L ++ (next.text ++ X)))) l0) :
    ∃ ci4, collectObjects (fuel + 1) st stop prevLine acc pending
        = collectObjects fuel { ci := ci4, nextId := st.nextId + 1 } stop l0 (flush acc pending)
            (some (.defn { name := nm, id := some st.nextId, disabled := b, line := some l0 }
              (relineG l0 L.gaps ws))) ∧
      AtPre ci4 next X (endLineG l0 L.gaps ws + nlCount L.term.text) := by
  obtain ⟨h1, h2, h3⟩ := Pre3.wf_facts hnext
  rw [pre3_text_split_all] at hci
  exact defn_turn_all nm ws L b ind _ _ _ hit hne hgood hind hsp1 hgaps hterm (hLines3_wf h1 h2)
    (hInd3_wf h1 h3) (hRest3_stopHead _ _ h1 hX) heof fuel st stop prevLine acc pending l0 hci

theorem attr_entry_all (n : String) (ws : List Word) (L : DefLayout3) (b : Bool) (ind : Str) (next : Pre3)
    (X : Str) (hga : goodAttr3 n ws b = true)
    (hind : inlineB ind = true) (hsp1 : inlineB L.sp1 = true) (hgaps : gapsOK3 true true L.gaps ws = true)
    (hterm : L.term.wf = true) (hnext : next.wf = true) (hX : StopHead X)
    (heof : L.term.isEof = true →
      hLines3 next.segs next.lines = [] ∧ EofHead_l2 (hRest3 next.segs next.lines next.ind X))
    (fuel : Nat) (st : PState) (stop : Option Word) (prevLine : Nat) (acc : List Obj) (d : Obj) (l0 : Nat)
    (hci : nextWord structSettings st.ci
      = nextWordAux structSettings false
          (ind ++ (bangText_l2 b ++ (entryText_all (attrLead n) ws L ++ (next.text ++ X)))) l0) :
    ∃ ci4, collectObjects (fuel + 1) st stop prevLine acc (some d)
        = collectObjects fuel { ci := ci4, nextId := st.nextId } stop l0 acc (applyAttr (some d) n ws b) ∧
      AtPre ci4 next X (endLineG l0 L.gaps ws + nlCount L.term.text) := by
  obtain ⟨h1, h2, h3⟩ := Pre3.wf_facts hnext
  rw [pre3_text_split_all] at hci
  exact attr_turn_all n ws L b ind _ _ _ hga hind hsp1 hgaps hterm (hLines3_wf h1 h2)
    (hInd3_wf h1 h3) (hRest3_stopHead _ _ h1 hX) heof fuel st stop prevLine acc d l0 hci

/-! ### the attribute items behind a definition -/

theorem attrsRun_all : ∀ (ts : List AttrIt3) (fuel : Nat) (st : PState) (l prevLine : Nat) (acc : List Obj)
    (d : Obj) (stop : Option Word) (next : Pre3) (X : Str) (last cut : Bool),
    wfAttrs3 ts next last cut = true → next.wf = true → StopHead X →
    (last = true → cut = false → EofHead_l2 X) →
    FreshPre prevLine (firstAttrPre ts next) (ts.isEmpty && last && cut) l →
    AtPre st.ci (firstAttrPre ts next) (afterAttrs ts next X) l →
    ∃ st1 prevLine1,
      collectObjects (fuel + attrsTurns ts) st stop prevLine acc (some d)
        = collectObjects fuel st1 stop prevLine1 acc (some (d.addAttrs (attrsOf3 ts))) ∧
      st1.nextId = st.nextId ∧ AtPre st1.ci next X (attrsEnd3 l ts) ∧ l ≤ attrsEnd3 l ts ∧
      FreshPre prevLine1 next (last && cut) (attrsEnd3 l ts) := by
  intro ts
  induction ts with
  | nil =>
    intro fuel st l prevLine acc d stop next X last cut _ _ _ _ hfresh hat
    refine ⟨st, prevLine, ?_, rfl, hat, Nat.le_refl _, ?_⟩
    · simp [attrsTurns, attrsOf3, addAttrs_nil_la]
    · simpa [firstAttrPre, attrsEnd3] using hfresh
  | cons t ts ih =>
    intro fuel st l prevLine acc d stop next X last cut hwf hnext hX hEof hfresh hat
    simp only [wfAttrs3, Bool.and_eq_true] at hwf
    obtain ⟨⟨⟨⟨⟨⟨hga, hpre⟩, hsp1⟩, hgaps⟩, hterm⟩, hok⟩, hrest⟩ := hwf
    obtain ⟨_, _, hpi⟩ := Pre3.wf_facts hpre
    have hfuel : fuel + attrsTurns (t :: ts) = (fuel + attrsTurns ts + 1) + t.L.pre.segs.length := by
      simp only [attrsTurns]; omega
    obtain ⟨st', hs1, hs2, hs3⟩ := skipPre_all t.L.pre (afterAttrs (t :: ts) next X) hpre
      (fuel + attrsTurns ts + 1) st stop prevLine acc (some d) l
      (fun h => hfresh (h.elim Or.inl (fun h => by cases h))) hat
    have hfp := firstAttrPre_wf_all hrest hnext
    obtain ⟨ci4, he1, he2⟩ := attr_entry_all t.n t.ws t.L t.b t.L.pre.ind (firstAttrPre ts next)
      (afterAttrs ts next X) hga hpi hsp1 hgaps hterm hfp (afterAttrs_stopHead_all ts next hX)
      (eof_next_all hok (by
        intro h1 h2
        simp only [Bool.and_eq_true, List.isEmpty_iff] at h1
        obtain ⟨rfl, hl⟩ := h1
        exact hEof hl h2))
      (fuel + attrsTurns ts) st' stop prevLine acc d (l + t.L.pre.nl)
      (by rw [hs3]; simp [afterAttrs, AttrIt3.body, List.append_assoc])
    have hge := endLineG_ge t.ws t.L.gaps (l + t.L.pre.nl)
    have hfr := entry_fresh_all t.L.term hterm (firstAttrPre ts next) (ts.isEmpty && last) cut hok
      (l + t.L.pre.nl) (endLineG (l + t.L.pre.nl) t.L.gaps t.ws) hge
    cases hb : t.b with
    | true =>
      obtain ⟨st1, pl1, hi1, hi2, hi3, hi4, hi5⟩ := ih fuel { ci := ci4, nextId := st'.nextId }
        (endLineG (l + t.L.pre.nl) t.L.gaps t.ws + nlCount t.L.term.text) (l + t.L.pre.nl) acc d stop next X
        last cut hrest hnext hX hEof hfr he2
      refine ⟨st1, pl1, ?_, by rw [hi2]; exact hs2, hi3, ?_, hi5⟩
      · rw [hfuel, hs1, he1, hb]
        simp only [applyAttr, ↓reduceIte]
        rw [hi1]
        simp [attrsOf3, hb]
      · simp only [attrsEnd3] at hi4 ⊢; omega
    | false =>
      obtain ⟨st1, pl1, hi1, hi2, hi3, hi4, hi5⟩ := ih fuel { ci := ci4, nextId := st'.nextId }
        (endLineG (l + t.L.pre.nl) t.L.gaps t.ws + nlCount t.L.term.text) (l + t.L.pre.nl) acc
        (d.addAttr t.n ((attrValOf t.n t.ws).getD .none)) stop next X
        last cut hrest hnext hX hEof hfr he2
      refine ⟨st1, pl1, ?_, by rw [hi2]; exact hs2, hi3, ?_, hi5⟩
      · rw [hfuel, hs1, he1, hb]
        simp only [applyAttr, Bool.false_eq_true, ↓reduceIte, Option.map_some]
        rw [hi1, addAttr_eq_addAttrs_la, addAttrs_addAttrs_la]
        simp [attrsOf3, hb]
      · simp only [attrsEnd3] at hi4 ⊢; omega

/-! ### `collect_objects` over items and blocks -/

theorem wrapDotted_defn_attrs_all (p : List Str) (nm : Str) (hp : GoodPath p) (hn : goodName nm = true)
    (i : Option Nat) (b : Bool) (ln : Option Nat) (ws : List Word) (as : Attrs) :
    wrapDotted ((Obj.defn { name := dottedName p nm, id := i, disabled := b, line := ln } ws).addAttrs as)
      = nestIn i false p (.defn { name := nm, id := i, disabled := b, line := ln,
                                  mergeNames := !p.isEmpty, attrs := as } ws) := by
  rw [wrapDotted_dotted _ p nm rfl (fun n hn' => (hp.snoc hn).noDots n hn') rfl]
  rfl

theorem wrapDotted_scope_attrs_all (p : List Str) (nm : Str) (hp : GoodPath p) (hn : goodName nm = true)
    (i : Option Nat) (b : Bool) (ln : Option Nat) (os : List Obj) (as : Attrs) :
    wrapDotted (.scope { name := dottedName p nm, id := i, disabled := b, line := ln, attrs := as } os)
      = nestIn i false p (.scope { name := nm, id := i, disabled := b, line := ln,
                                   mergeNames := !p.isEmpty, attrs := as } os) := by
  rw [wrapDotted_dotted _ p nm rfl (fun n hn' => (hp.snoc hn).noDots n hn') rfl]
  rfl

/-- how a block ends: with the end of the text, with `#phil __END__` (outermost level only), or —
    inside a scope — with `}` -/
def TailAll (stop : Option Word) (cut : Bool) (X : Str) : Prop :=
  (stop = none ∧ cut = false ∧ X = []) ∨
  (stop = none ∧ cut = true ∧ ∃ b1 tail, (DocEnd.cut b1 tail).wf = true ∧ X = (DocEnd.cut b1 tail).text) ∨
  (∃ sw after, stop = some sw ∧ cut = false ∧ X = '}' :: after) ∨
  (∃ sw, stop = some sw ∧ cut = true ∧
    ∃ b1 tail, (DocEnd.cut b1 tail).wf = true ∧ X = (DocEnd.cut b1 tail).text)

/-- the result of a block: inside a scope a cut leaves the opening brace without partner -/
def blockResult (stop : Option Word) (cut : Bool) (r : List Obj × PState) : R (List Obj × PState) :=
  match stop, cut with
  | some sw, true => .error (.runtime "no_matching_brace" sw.line)
  | _, _ => .ok r

theorem TailAll.stopHead {stop : Option Word} {cut : Bool} {X : Str} (h : TailAll stop cut X) : StopHead X := by
  rcases h with ⟨_, _, rfl⟩ | ⟨_, _, b1, tail, hw, rfl⟩ | ⟨_, after, _, _, rfl⟩ | ⟨_, _, _, b1, tail, hw, rfl⟩
  · exact StopHead_of_SafeHead_all SafeHead_nil_l2
  · exact DocEnd.stopHead hw
  · exact StopHead_close_all after
  · exact DocEnd.stopHead hw

theorem TailAll.eofHead {stop : Option Word} {X : Str} (h : TailAll stop false X) : EofHead_l2 X := by
  rcases h with ⟨_, _, rfl⟩ | ⟨_, hc, _⟩ | ⟨_, after, _, _, rfl⟩ | ⟨_, _, hc, _⟩
  · exact Or.inl rfl
  · cases hc
  · exact Or.inr ⟨after, rfl⟩
  · cases hc

/-- the turns of `collect_objects` over one item (regions in front, the item, its attribute items or
    — for a scope — the recursive call): the object `x.obj l i` is added to the objects of the
    enclosing scope, `x.count` ids are used, and the tokenizer is at the filler `next` -/
def ItemTurn_all (x : DocItem) : Prop :=
  ∀ (last cut : Bool) (fuel : Nat) (st : PState) (l prevLine : Nat) (acc : List Obj)
    (pending : Option Obj) (stop : Option Word) (next : Pre3) (X : Str),
    x.wf next last cut = true → next.wf = true → StopHead X →
    (last = true → cut = false → EofHead_l2 X) →
    0 < l → x.size ≤ fuel + x.turns →
    FreshPre prevLine x.pre false l →
    AtPre st.ci x.pre (x.body ++ (next.text ++ X)) l →
    ∃ st1 acc1 pending1 prevLine1,
      collectObjects (fuel + x.turns) st stop prevLine acc pending
        = collectObjects fuel st1 stop prevLine1 acc1 pending1 ∧
      flush acc1 pending1 = flush acc pending ++ [x.obj l st.nextId] ∧
      st1.nextId = st.nextId + x.count ∧
      AtPre st1.ci next X (x.endLn l) ∧ l ≤ x.endLn l ∧
      FreshPre prevLine1 next (last && cut) (x.endLn l)

/-- `collect_objects` over a block of items up to its end -/
def BlockRun_all (xs : List DocItem) : Prop :=
  ∀ (fuel : Nat) (st : PState) (l prevLine : Nat) (acc : List Obj) (pending : Option Obj)
    (stop : Option Word) (tp : Pre3) (X : Str) (cut : Bool),
    wfItemsAll xs tp cut = true → tp.wf = true → TailAll stop cut X → 0 < l →
    itemsSize xs + tp.segs.length + 1 ≤ fuel →
    FreshPre prevLine (firstPreAll xs tp) (xs.isEmpty && cut) l →
    AtPre st.ci (firstPreAll xs tp) (afterPreAll xs tp X) l →
    ∃ st', collectObjects fuel st stop prevLine acc pending
        = blockResult stop cut (flush acc pending ++ objsAll xs l st.nextId, st') ∧
      st'.nextId = st.nextId + countAll xs ∧ l ≤ itemsEndLn xs l ∧
      (∀ after, X = '}' :: after → st'.ci = ⟨after, itemsEndLn xs l + tp.nl⟩)

theorem itemTurn_defn_all (p : List Str) (d : DefSpec) (L : DefLayout3) (b : Bool) (attrs : List AttrIt3) :
    ItemTurn_all (.defn p d L b attrs) := by
  intro last cut fuel st l prevLine acc pending stop next X hwf hnext hX hEof hl hf hfresh hat
  simp only [DocItem.wf, Bool.and_eq_true] at hwf
  obtain ⟨⟨⟨⟨⟨⟨⟨hpn, hgd⟩, hpre⟩, hsp1⟩, hgaps⟩, hterm⟩, hok⟩, hattrs⟩ := hwf
  obtain ⟨hp, hn, _, hit⟩ := goodPathName_facts_l2 hpn
  obtain ⟨_, hne, hgood⟩ := goodDef3_facts hgd
  obtain ⟨_, _, hpi⟩ := Pre3.wf_facts hpre
  have hfuel : fuel + (DocItem.defn p d L b attrs).turns = (fuel + attrsTurns attrs + 1) + L.pre.segs.length := by
    simp only [DocItem.turns]; omega
  obtain ⟨st', hs1, hs2, hs3⟩ := skipPre_all L.pre _ hpre (fuel + attrsTurns attrs + 1) st stop prevLine acc
    pending l hfresh hat
  have hfp := firstAttrPre_wf_all hattrs hnext
  obtain ⟨ci4, he1, he2⟩ := defn_entry_all (dottedName p d.1) d.2 L b L.pre.ind (firstAttrPre attrs next)
    (afterAttrs attrs next X) hit hne hgood hpi hsp1 hgaps hterm hfp (afterAttrs_stopHead_all attrs next hX)
    (eof_next_all hok (by
      intro h1 h2
      simp only [Bool.and_eq_true, List.isEmpty_iff] at h1
      obtain ⟨rfl, hl'⟩ := h1
      exact hEof hl' h2))
    (fuel + attrsTurns attrs) st' stop prevLine acc pending (l + L.pre.nl)
    (by
      rw [hs3]
      simp [DocItem.pre, DocItem.body, List.append_assoc, attrsText_split_all])
  have hge := endLineG_ge d.2 L.gaps (l + L.pre.nl)
  have hfr := entry_fresh_all L.term hterm (firstAttrPre attrs next) (attrs.isEmpty && last) cut hok
    (l + L.pre.nl) (endLineG (l + L.pre.nl) L.gaps d.2) hge
  obtain ⟨st1, pl1, hi1, hi2, hi3, hi4, hi5⟩ := attrsRun_all attrs fuel { ci := ci4, nextId := st'.nextId + 1 }
    (endLineG (l + L.pre.nl) L.gaps d.2 + nlCount L.term.text) (l + L.pre.nl) (flush acc pending)
    (.defn { name := dottedName p d.1, id := some st'.nextId, disabled := b, line := some (l + L.pre.nl) }
      (relineG (l + L.pre.nl) L.gaps d.2)) stop next X last cut hattrs hnext hX hEof hfr he2
  refine ⟨st1, flush acc pending,
    some ((Obj.defn { name := dottedName p d.1, id := some st'.nextId, disabled := b, line := some (l + L.pre.nl) }
      (relineG (l + L.pre.nl) L.gaps d.2)).addAttrs (attrsOf3 attrs)), pl1, ?_, ?_, ?_, hi3, ?_, hi5⟩
  · rw [hfuel, hs1, he1, hi1]
  · simp only [flush, adopt, DocItem.obj]
    rw [wrapDotted_defn_attrs_all p d.1 hp hn, hs2]
  · rw [hi2]; simp only [DocItem.count]; omega
  · simp only [DocItem.endLn] at hi4 ⊢; omega

theorem itemTurn_scope_all (p : List Str) (nm : Str) (b : Bool) (pre : Pre3) (hattrs : List AttrIt)
    (gap : Pre) (kids : List DocItem) (close : Pre3) (ih : BlockRun_all kids) :
    ItemTurn_all (.scope p nm b pre hattrs gap kids close) := by
  intro last cut fuel st l prevLine acc pending stop next X hwf hnext hX _ hl hf hfresh hat
  simp only [DocItem.wf, Bool.and_eq_true, List.all_eq_true] at hwf
  obtain ⟨⟨⟨⟨⟨⟨⟨hpn, hpre⟩, hts⟩, hgap⟩, hgok⟩, hclose⟩, hkids⟩, hlf⟩ := hwf
  obtain ⟨hp, hn, _, hit⟩ := goodPathName_facts_l2 hpn
  obtain ⟨_, _, hpi⟩ := Pre3.wf_facts hpre
  have hfk : itemsSize kids + close.segs.length + 1 ≤ fuel := by
    simp only [DocItem.size, DocItem.turns] at hf; omega
  have hfuel : fuel + (DocItem.scope p nm b pre hattrs gap kids close).turns = (fuel + 1) + pre.segs.length := by
    simp only [DocItem.turns]; omega
  obtain ⟨st', hs1, hs2, hs3⟩ := skipPre_all pre _ hpre (fuel + 1) st stop prevLine acc pending l hfresh hat
  -- the header
  have hhead := scope_hdr_turn_ls (dottedName p nm) b pre.ind hattrs gap
    (itemsText kids ++ (close.text ++ ('}' :: (next.text ++ X))))
    hit hpi hts hgap hgok fuel st' stop prevLine acc pending (l + pre.nl)
    (by
      rw [hs3]
      simp [DocItem.pre, DocItem.body, hdrText_append_ls, List.append_assoc])
  -- the body
  have hage := attrsEnd_ge_all hattrs (l + pre.nl)
  have hfpw := firstPreAll_wf_all hkids hclose
  obtain ⟨st'', hrun, hnid, hmono, hci'⟩ := ih fuel
    { ci := ⟨itemsText kids ++ (close.text ++ ('}' :: (next.text ++ X))),
             attrsEnd (l + pre.nl) hattrs + gap.lines.length⟩, nextId := st'.nextId + 1 }
    (attrsEnd (l + pre.nl) hattrs + gap.lines.length) 0 [] none
    (some { value := ['{'], quote := none, line := some (attrsEnd (l + pre.nl) hattrs + gap.lines.length) })
    close ('}' :: (next.text ++ X)) false hkids hclose (Or.inr (Or.inr (Or.inl ⟨_, _, rfl, rfl, rfl⟩))) (by omega) hfk
    (by intro _; omega)
    (by
      rw [itemsText_split_all]
      exact atPre_text_all _ _ _ hfpw)
  have hci'' := hci' _ rfl
  refine ⟨st'', adopt (flush acc pending)
      (.scope { name := dottedName p nm, id := some st'.nextId, disabled := b,
                line := some (l + pre.nl), attrs := sattrsOf hattrs }
        (objsAll kids (attrsEnd (l + pre.nl) hattrs + gap.lines.length) (st'.nextId + 1))),
    none, l + pre.nl, ?_, ?_, ?_, ?_, ?_, ?_⟩
  · rw [hfuel, hs1, hhead, hrun]
    simp [scopeCont, flush, blockResult]
  · simp only [flush, adopt, DocItem.obj]
    rw [wrapDotted_scope_attrs_all p nm hp hn, hs2]
  · rw [hnid, hs2]; simp only [DocItem.count]; omega
  · rw [hci'']
    exact atPre_text_all next X _ hnext
  · simp only [DocItem.endLn]; omega
  · apply lineFree_fresh_all hlf
    simp only [DocItem.endLn]; omega

theorem blockRun_nil_all : BlockRun_all [] := by
  intro fuel st l prevLine acc pending stop tp X cut _ htp htail hl hf hfresh hat
  obtain ⟨f, rfl⟩ : ∃ f, fuel = (f + 1) + tp.segs.length :=
    ⟨fuel - 1 - tp.segs.length, by simp only [itemsSize] at hf; omega⟩
  obtain ⟨_, _, hind⟩ := Pre3.wf_facts htp
  simp only [firstPreAll, afterPreAll] at hat hfresh
  obtain ⟨st1, h1, h2, h3⟩ := skipPre_all tp X htp (f + 1) st stop prevLine acc pending l
    (fun h => hfresh (h.elim Or.inl (fun h => by cases h))) hat
  rw [h1]
  rcases htail with ⟨rfl, rfl, rfl⟩ | ⟨rfl, rfl, b1, tail, he, rfl⟩ | ⟨sw, after, rfl, rfl, rfl⟩ |
    ⟨sw, rfl, rfl, b1, tail, he, rfl⟩
  · refine ⟨st1, ?_, by simp [countAll, h2], Nat.le_refl _, by intro after e; cases e⟩
    rw [collectObjects_end f st1 prevLine acc pending (by
      rw [h3, List.append_nil]
      exact nextWordAux_blank_eof structSettings _ _ (inlineB_space hind))]
    simp [objsAll, blockResult]
  · simp only [DocEnd.wf, Bool.and_eq_true, Bool.not_eq_true', List.isEmpty_eq_false_iff] at he
    obtain ⟨⟨hb1, hb1n⟩, htl⟩ := he
    obtain ⟨hw1, hw2⟩ := nextWord_directive tp.ind b1 "__END__".toList tail '_'
      "_END__".toList rfl hind hb1 hb1n (by decide) (by rfl) (by rfl) htl (l + tp.nl)
    simp only [DocEnd.text] at h3
    rw [hw1] at h3
    have hlt := hfresh (Or.inr (by simp))
    have hle := hLines3_le tp.segs tp.lines
    refine ⟨{ st1 with ci := ⟨tail, l + tp.nl⟩ }, ?_, by simp [countAll, h2], Nat.le_refl _, ?_⟩
    · rw [collectObjects_cut_step f st1 prevLine acc pending _ _ _ _ h3 rfl rfl
        (by intro e'; simp only [Option.some.injEq, Pre3.nl] at e'; omega) hw2 rfl rfl]
      simp [objsAll, blockResult]
    · intro after e
      simp [DocEnd.text, philWord] at e
  · have h1' : nextWord structSettings st1.ci
        = .ok (some ({ value := ['}'], quote := none, line := some (l + tp.nl) }, ⟨after, l + tp.nl⟩)) := by
      rw [h3]
      have := nextWord_struct_close tp.ind after (l + tp.nl) (inlineB_space hind)
      rw [inlineB_nl hind, Nat.add_zero] at this
      exact this
    refine ⟨{ st1 with ci := ⟨after, l + tp.nl⟩ }, ?_, by simp [countAll, h2], Nat.le_refl _, ?_⟩
    · rw [collectObjects_close_l2 f st1 sw _ _ prevLine acc pending h1' rfl rfl]
      simp [objsAll, blockResult]
    · intro after' e
      simp only [List.cons.injEq, true_and] at e
      subst e
      simp [itemsEndLn]
  · simp only [DocEnd.wf, Bool.and_eq_true, Bool.not_eq_true', List.isEmpty_eq_false_iff] at he
    obtain ⟨⟨hb1, hb1n⟩, htl⟩ := he
    obtain ⟨hw1, hw2⟩ := nextWord_directive tp.ind b1 "__END__".toList tail '_'
      "_END__".toList rfl hind hb1 hb1n (by decide) (by rfl) (by rfl) htl (l + tp.nl)
    simp only [DocEnd.text] at h3
    rw [hw1] at h3
    have hlt := hfresh (Or.inr (by simp))
    have hle := hLines3_le tp.segs tp.lines
    refine ⟨st1, ?_, by simp [countAll, h2], Nat.le_refl _, ?_⟩
    · rw [collectObjects_cut_in_scope_all f st1 sw prevLine acc pending _ _ _ _ h3 rfl rfl
        (by intro e'; simp only [Option.some.injEq, Pre3.nl] at e'; omega) hw2 rfl rfl]
      simp [blockResult]
    · intro after e
      simp [DocEnd.text, philWord] at e

theorem turns_le_size_all (x : DocItem) : x.turns ≤ x.size := by
  cases x <;> simp only [DocItem.turns, DocItem.size] <;> omega

theorem blockRun_cons_all (x : DocItem) (xs : List DocItem) (hx : ItemTurn_all x) (hxs : BlockRun_all xs) :
    BlockRun_all (x :: xs) := by
  intro fuel st l prevLine acc pending stop tp X cut hwf htp htail hl hf hfresh hat
  simp only [wfItemsAll, Bool.and_eq_true] at hwf
  obtain ⟨hwx, hwxs⟩ := hwf
  have hts := turns_le_size_all x
  obtain ⟨f, rfl⟩ : ∃ f, fuel = f + x.turns := ⟨fuel - x.turns, by simp only [itemsSize] at hf; omega⟩
  have hfx : x.size ≤ f + x.turns := by simp only [itemsSize] at hf; omega
  have hfxs : itemsSize xs + tp.segs.length + 1 ≤ f := by simp only [itemsSize] at hf; omega
  have hfp := firstPreAll_wf_all hwxs htp
  obtain ⟨st1, acc1, pending1, prevLine1, hstep, hflush, hnid, hnext, hmono, hfr⟩ :=
    hx xs.isEmpty cut f st l prevLine acc pending stop (firstPreAll xs tp) (afterPreAll xs tp X) hwx hfp
      (afterPreAll_stopHead_all hwxs htail.stopHead)
      (by
        intro he hc
        simp only [List.isEmpty_iff] at he
        subst he; subst hc
        exact htail.eofHead)
      hl hfx
      (fun h => hfresh (h.elim Or.inl (fun h => by cases h)))
      (by
        rw [← itemsText_split_all]
        exact hat)
  obtain ⟨st', hrun, hnid', hmono', hci'⟩ := hxs f st1 (x.endLn l) prevLine1 acc1 pending1 stop tp X cut hwxs htp
    htail (by omega) hfxs hfr hnext
  refine ⟨st', ?_, ?_, ?_, ?_⟩
  · rw [hstep, hrun, hflush, hnid]
    simp [objsAll]
  · rw [hnid', hnid]; simp only [countAll]; omega
  · simp only [itemsEndLn]; omega
  · intro after e
    rw [hci' after e]
    simp [itemsEndLn]

/-- every item is read by its turns, every block by a run -/
theorem itemTurn_all (x : DocItem) : ItemTurn_all x := by
  induction x using DocItem.rec (motive_2 := fun xs => BlockRun_all xs) with
  | defn p d L b attrs => exact itemTurn_defn_all p d L b attrs
  | scope p nm b pre hattrs gap kids close ih => exact itemTurn_scope_all p nm b pre hattrs gap kids close ih
  | nil => exact blockRun_nil_all
  | cons x xs ihx ihxs => exact blockRun_cons_all x xs ihx ihxs

theorem blockRun_all (xs : List DocItem) : BlockRun_all xs := by
  induction xs with
  | nil => exact blockRun_nil_all
  | cons x xs ih => exact blockRun_cons_all x xs (itemTurn_all x) ih

/-! ### the whole document -/

theorem pre3_text_length_all (p : Pre3) : p.segs.length ≤ p.text.length := by
  have := segsStr_length_ge p.segs
  simp only [Pre3.text, List.length_append]; omega

theorem attrsTurns_le_text_all (ts : List AttrIt3) : attrsTurns ts ≤ (attrsText3 ts).length := by
  induction ts with
  | nil => simp [attrsTurns]
  | cons t ts ih =>
    have := pre3_text_length_all t.L.pre
    simp only [attrsTurns, attrsText3, AttrIt3.body, entryText_all, List.length_append, List.length_cons]
    omega

theorem hdrText_length_all (ts : List AttrIt) (gap : Pre) (V : Str) :
    V.length + 1 ≤ (hdrText_ls ts gap V).length := by
  have h1 := hdrText_append_ls ts gap [] V
  have h2 := hdrAfter_length_ls ts gap ([] : Str)
  rw [List.nil_append] at h1
  rw [← h1]
  simp only [hdrText_ls, List.length_append] at h2 ⊢
  omega

theorem size_le_text_all (x : DocItem) : x.size ≤ (x.pre.text ++ x.body).length := by
  induction x using DocItem.rec (motive_2 := fun xs => itemsSize xs ≤ (itemsText xs).length) with
  | defn p d L b attrs =>
    have h1 := pre3_text_length_all L.pre
    have h2 := attrsTurns_le_text_all attrs
    simp only [DocItem.size, DocItem.pre, DocItem.body, entryText_all, List.length_append, List.length_cons]
    omega
  | scope p nm b pre hattrs gap kids close ih =>
    have h1 := pre3_text_length_all pre
    have h2 := pre3_text_length_all close
    have h3 := hdrText_length_all hattrs gap (itemsText kids ++ (close.text ++ ['}']))
    simp only [DocItem.size, DocItem.pre, DocItem.body, List.length_append, List.length_cons,
      List.length_nil] at h3 ⊢
    omega
  | nil => simp [itemsSize]
  | cons x xs ihx ihxs =>
    simp only [itemsSize, itemsText, List.length_append] at ihx ⊢
    omega

theorem itemsSize_le_text_all (xs : List DocItem) : itemsSize xs ≤ (itemsText xs).length := by
  induction xs with
  | nil => simp [itemsSize]
  | cons x xs ih =>
    have := size_le_text_all x
    simp only [itemsSize, itemsText, List.length_append] at this ⊢
    omega

theorem wfDocAll_facts {xs : List DocItem} {post : Pre3} {e : DocEnd} (h : wfDocAll xs post e = true) :
    wfItemsAll xs post e.isCut = true ∧ post.wf = true ∧ e.wf = true := by
  simp only [wfDocAll, Bool.and_eq_true] at h
  exact ⟨h.1.1, h.1.2, h.2⟩

theorem tailAll_docEnd_all {e : DocEnd} (h : e.wf = true) : TailAll none e.isCut e.text := by
  cases e with
  | eof => exact Or.inl ⟨rfl, rfl, rfl⟩
  | cut b1 tail => exact Or.inr (Or.inl ⟨rfl, rfl, b1, tail, h, rfl⟩)

/-- **`parse` of a whole document under the one layout grammar** -/
theorem parseObjs_renderAll (xs : List DocItem) (post : Pre3) (e : DocEnd) (h : wfDocAll xs post e = true) :
    parseObjs (renderAll xs post e) = .ok (objsAll xs 1 1) := by
  obtain ⟨hwf, hpost, he⟩ := wfDocAll_facts h
  have hlen : itemsSize xs + post.segs.length + 1 ≤ (renderAll xs post e).length + 2 := by
    have h1 := itemsSize_le_text_all xs
    have h2 := pre3_text_length_all post
    simp only [renderAll, List.length_append]; omega
  obtain ⟨st', hrun, _, _, _⟩ := blockRun_all xs _ { ci := ⟨renderAll xs post e, 1⟩, nextId := 1 } 1 0 []
    none none post e.text e.isCut hwf hpost (tailAll_docEnd_all he) (by omega) hlen (by intro _; omega)
    (by
      simp only [renderAll]
      rw [itemsText_split_all]
      exact atPre_text_all _ _ _ (firstPreAll_wf_all hwf hpost))
  unfold parseObjs
  rw [hrun]
  simp [flush, blockResult]

/-! ### the abstract tree: a function of the contents only -/

mutual
/-- the abstract tree of an item: names, dotted-chain structure, `!` flags, words without lines,
    attribute values — nothing of the layout, no ids, no lines -/
def DocItem.tree : DocItem → Obj
  | .defn p d _ b attrs =>
    nestIn none false p
      (.defn { name := d.1, disabled := b, mergeNames := !p.isEmpty, attrs := attrsOf3 attrs }
        (d.2.map Word.erase))
  | .scope p nm b _ hattrs _ kids _ =>
    nestIn none false p
      (.scope { name := nm, disabled := b, mergeNames := !p.isEmpty, attrs := sattrsOf hattrs } (docTree kids))
/-- **the abstract tree of a document** -/
def docTree : List DocItem → List Obj
  | [] => []
  | x :: xs => x.tree :: docTree xs
end

theorem objAll_erase_all (x : DocItem) : ∀ (next : Pre3) (last cut : Bool) (l i : Nat),
    x.wf next last cut = true → (x.obj l i).erase = x.tree := by
  induction x using DocItem.rec
    (motive_2 := fun xs => ∀ (tp : Pre3) (cut : Bool) (l i : Nat), wfItemsAll xs tp cut = true →
      eraseList (objsAll xs l i) = docTree xs) with
  | defn p d L b attrs =>
    intro next last cut l i hwf
    simp only [DocItem.wf, Bool.and_eq_true] at hwf
    have hlen := gapsOK3_length d.2 L.gaps true true hwf.1.1.1.2
    rw [DocItem.obj, DocItem.tree, nestIn_erase]
    simp [Obj.erase, Meta.erase, relineG_erase d.2 L.gaps _ hlen]
  | scope p nm b pre hattrs gap kids close ih =>
    intro next last cut l i hwf
    simp only [DocItem.wf, Bool.and_eq_true] at hwf
    rw [DocItem.obj, DocItem.tree, nestIn_erase, Obj.erase_scope, ih close false _ _ hwf.1.2]
    rfl
  | nil => rfl
  | cons x xs ihx ihxs =>
    rename_i tp cut l i hwf
    simp only [wfItemsAll, Bool.and_eq_true] at hwf
    rw [objsAll, docTree, eraseList_cons, ihx _ _ _ l i hwf.1, ihxs tp cut _ _ hwf.2]

theorem objsAll_erase_all (xs : List DocItem) (tp : Pre3) (cut : Bool) (l i : Nat)
    (h : wfItemsAll xs tp cut = true) : eraseList (objsAll xs l i) = docTree xs := by
  induction xs generalizing l i with
  | nil => rfl
  | cons x xs ih =>
    simp only [wfItemsAll, Bool.and_eq_true] at h
    rw [objsAll, docTree, eraseList_cons, objAll_erase_all x _ _ _ l i h.1, ih _ _ h.2]

/-! ### `!` on items -/

mutual
/-- the item without any `!` on definitions and scopes (attribute items keep theirs) -/
def DocItem.unbang : DocItem → DocItem
  | .defn p d L _ attrs => .defn p d L false attrs
  | .scope p nm _ pre hattrs gap kids close => .scope p nm false pre hattrs gap (docUnbang kids) close
def docUnbang : List DocItem → List DocItem
  | [] => []
  | x :: xs => x.unbang :: docUnbang xs
end

mutual
/-- the `!` flags of an item, one per object of its tree in document order (a scope before its items);
    the scopes built for the leading components of a dotted name are never disabled -/
def DocItem.flags : DocItem → List Bool
  | .defn p _ _ b _ => List.replicate p.length false ++ [b]
  | .scope p _ b _ _ _ kids _ => List.replicate p.length false ++ b :: docFlags kids
def docFlags : List DocItem → List Bool
  | [] => []
  | x :: xs => x.flags ++ docFlags xs
end

theorem tree_unbang_all (x : DocItem) : x.unbang.tree = x.tree.enableAll ∧ x.tree.disabledFlags = x.flags := by
  induction x using DocItem.rec
    (motive_2 := fun xs => docTree (docUnbang xs) = enableAllList (docTree xs) ∧
      disabledFlagsList (docTree xs) = docFlags xs) with
  | defn p d L b attrs =>
    constructor
    · rw [DocItem.unbang, DocItem.tree, DocItem.tree, enableAll_nestIn_l2]; rfl
    · rw [DocItem.tree, disabledFlags_nestIn_l2, DocItem.flags]; rfl
  | scope p nm b pre hattrs gap kids close ih =>
    constructor
    · rw [DocItem.unbang, DocItem.tree, DocItem.tree, enableAll_nestIn_l2, ih.1]; rfl
    · rw [DocItem.tree, disabledFlags_nestIn_l2, DocItem.flags, Obj.disabledFlags, ih.2]
  | nil => exact ⟨rfl, rfl⟩
  | cons x xs ihx ihxs =>
    constructor
    · rw [docUnbang, docTree, docTree, enableAllList, ihx.1, ihxs.1]
    · rw [docTree, disabledFlagsList, docFlags, ihx.2, ihxs.2]

theorem docTree_unbang_all (xs : List DocItem) :
    docTree (docUnbang xs) = enableAllList (docTree xs) ∧ disabledFlagsList (docTree xs) = docFlags xs := by
  induction xs with
  | nil => exact ⟨rfl, rfl⟩
  | cons x xs ih =>
    obtain ⟨h1, h2⟩ := tree_unbang_all x
    constructor
    · rw [docUnbang, docTree, docTree, enableAllList, h1, ih.1]
    · rw [docTree, disabledFlagsList, docFlags, h2, ih.2]

/-- `!` changes neither the text lengths that matter for the input class nor the class itself -/
theorem unbang_facts_all (x : DocItem) :
    x.unbang.pre = x.pre ∧ ∀ next last cut, x.unbang.wf next last cut = x.wf next last cut := by
  induction x using DocItem.rec
    (motive_2 := fun xs => (∀ tp, firstPreAll (docUnbang xs) tp = firstPreAll xs tp) ∧
      (docUnbang xs).isEmpty = xs.isEmpty ∧
      ∀ tp cut, wfItemsAll (docUnbang xs) tp cut = wfItemsAll xs tp cut) with
  | defn p d L b attrs => exact ⟨rfl, fun _ _ _ => rfl⟩
  | scope p nm b pre hattrs gap kids close ih =>
    refine ⟨rfl, ?_⟩
    intro next last cut
    simp only [DocItem.unbang, DocItem.wf, ih.2.2]
  | nil => exact ⟨fun _ => rfl, rfl, fun _ _ => rfl⟩
  | cons x xs ihx ihxs =>
    refine ⟨fun tp => ?_, rfl, fun tp cut => ?_⟩
    · simp only [docUnbang, firstPreAll, ihx.1]
    · simp only [docUnbang, wfItemsAll, ihx.2, ihxs.1, ihxs.2.1, ihxs.2.2]

theorem wfDocAll_unbang_all (xs : List DocItem) (post : Pre3) (e : DocEnd) :
    wfDocAll (docUnbang xs) post e = wfDocAll xs post e := by
  have key : ∀ (xs : List DocItem), (∀ tp, firstPreAll (docUnbang xs) tp = firstPreAll xs tp) ∧
      (docUnbang xs).isEmpty = xs.isEmpty ∧
      ∀ tp cut, wfItemsAll (docUnbang xs) tp cut = wfItemsAll xs tp cut := by
    intro xs
    induction xs with
    | nil => exact ⟨fun _ => rfl, rfl, fun _ _ => rfl⟩
    | cons x xs ih =>
      obtain ⟨h1, h2⟩ := unbang_facts_all x
      refine ⟨fun tp => ?_, rfl, fun tp cut => ?_⟩
      · simp only [docUnbang, firstPreAll, h1]
      · simp only [docUnbang, wfItemsAll, h2, ih.1, ih.2.1, ih.2.2]
  simp only [wfDocAll, (key xs).2.2]

/-- an attribute item commented out by `!` contributes nothing -/
theorem attrsOf3_drop_bang_all (ts1 ts2 : List AttrIt3) (t : AttrIt3) (ht : t.b = true) :
    attrsOf3 (ts1 ++ t :: ts2) = attrsOf3 (ts1 ++ ts2) := by
  induction ts1 with
  | nil => simp [attrsOf3, ht]
  | cons u us ih => simp only [List.cons_append, attrsOf3, ih]

theorem sattrsOf_drop_bang_all (ts1 ts2 : List AttrIt) (t : AttrIt) (ht : t.b = true) :
    sattrsOf (ts1 ++ t :: ts2) = sattrsOf (ts1 ++ ts2) := by
  induction ts1 with
  | nil => simp [sattrsOf, ht]
  | cons u us ih => simp only [List.cons_append, sattrsOf, ih]

/-! ### a document cut inside a scope body (unclosed braces at the cut) -/

/-- items followed by more of the same block: none of them is the last one -/
def wfPrefixAll : List DocItem → Pre3 → Bool
  | [], _ => true
  | x :: xs, next => x.wf (firstPreAll xs next) false false && wfPrefixAll xs next

def itemsTurns : List DocItem → Nat
  | [] => 0
  | x :: xs => x.turns + itemsTurns xs

theorem itemsTurns_le_size_all (xs : List DocItem) : itemsTurns xs ≤ itemsSize xs := by
  induction xs with
  | nil => simp [itemsTurns, itemsSize]
  | cons x xs ih =>
    have := turns_le_size_all x
    simp only [itemsTurns, itemsSize]; omega

theorem firstPreAll_wfPrefix_all {xs : List DocItem} {next : Pre3}
    (h : wfPrefixAll xs next = true) (hn : next.wf = true) : (firstPreAll xs next).wf = true := by
  cases xs with
  | nil => exact hn
  | cons x rest =>
    simp only [wfPrefixAll, Bool.and_eq_true] at h
    exact x.pre_wf_all _ _ _ h.1

theorem afterPreAll_stopHead_prefix_all {xs : List DocItem} {next : Pre3}
    (h : wfPrefixAll xs next = true) {X : Str} (hX : StopHead X) : StopHead (afterPreAll xs next X) := by
  cases xs with
  | nil => exact hX
  | cons x rest =>
    simp only [wfPrefixAll, Bool.and_eq_true] at h
    exact x.body_stopHead_all _ _ _ h.1 _

/-- the turns of `collect_objects` over the items of a block that is not yet at its end -/
theorem itemsRun_all : ∀ (xs : List DocItem) (fuel : Nat) (st : PState) (l prevLine : Nat) (acc : List Obj)
    (pending : Option Obj) (stop : Option Word) (next : Pre3) (X : Str),
    wfPrefixAll xs next = true → next.wf = true → StopHead X → 0 < l →
    itemsSize xs ≤ fuel + itemsTurns xs →
    FreshPre prevLine (firstPreAll xs next) false l →
    AtPre st.ci (firstPreAll xs next) (afterPreAll xs next X) l →
    ∃ st1 acc1 pending1 prevLine1,
      collectObjects (fuel + itemsTurns xs) st stop prevLine acc pending
        = collectObjects fuel st1 stop prevLine1 acc1 pending1 ∧
      AtPre st1.ci next X (itemsEndLn xs l) ∧ l ≤ itemsEndLn xs l ∧
      FreshPre prevLine1 next false (itemsEndLn xs l) := by
  intro xs
  induction xs with
  | nil =>
    intro fuel st l prevLine acc pending stop next X _ _ _ _ _ hfresh hat
    exact ⟨st, acc, pending, prevLine, rfl, hat, Nat.le_refl _, hfresh⟩
  | cons x xs ih =>
    intro fuel st l prevLine acc pending stop next X hwf hnext hX hl hf hfresh hat
    simp only [wfPrefixAll, Bool.and_eq_true] at hwf
    obtain ⟨hwx, hwxs⟩ := hwf
    have hts := turns_le_size_all x
    have hfuel : fuel + itemsTurns (x :: xs) = (fuel + itemsTurns xs) + x.turns := by
      simp only [itemsTurns]; omega
    obtain ⟨st1, acc1, pending1, prevLine1, hstep, _, _, hnext', hmono, hfr⟩ :=
      itemTurn_all x false false (fuel + itemsTurns xs) st l prevLine acc pending stop (firstPreAll xs next)
        (afterPreAll xs next X) hwx (firstPreAll_wfPrefix_all hwxs hnext)
        (afterPreAll_stopHead_prefix_all hwxs hX) (by intro h; cases h) hl
        (by simp only [itemsSize, itemsTurns] at hf; omega) hfresh
        (by rw [← itemsText_split_all]; exact hat)
    obtain ⟨st2, acc2, pending2, prevLine2, hrun, hat2, hmono2, hfr2⟩ :=
      ih fuel st1 (x.endLn l) prevLine1 acc1 pending1 stop next X hwxs hnext hX (by omega)
        (by simp only [itemsSize, itemsTurns] at hf; omega) hfr hnext'
    refine ⟨st2, acc2, pending2, prevLine2, by rw [hfuel, hstep, hrun], hat2, ?_, hfr2⟩
    simp only [itemsEndLn]; omega

/-- **A document cut inside a scope body.**  `here xs tp b1 tail`: the items `xs`, the filler `tp` and
    `#phil __END__` + tail; `deeper xs … inner`: the items `xs`, then the header of a scope that is
    never closed, whose body is `inner`. -/
inductive CutDoc
  | here (xs : List DocItem) (tp : Pre3) (b1 tail : Str)
  | deeper (xs : List DocItem) (p : List Str) (nm : Str) (b : Bool) (pre : Pre3) (hattrs : List AttrIt)
      (gap : Pre) (inner : CutDoc)

def CutDoc.text : CutDoc → Str
  | .here xs tp b1 tail => itemsText xs ++ (tp.text ++ (DocEnd.cut b1 tail).text)
  | .deeper xs p nm b pre hattrs gap inner =>
    itemsText xs ++ (pre.text ++ (bangText_l2 b ++ (dottedName p nm ++ hdrText_ls hattrs gap inner.text)))

def CutDoc.firstPre : CutDoc → Pre3
  | .here xs tp _ _ => firstPreAll xs tp
  | .deeper xs _ _ _ pre _ _ _ => firstPreAll xs pre

def CutDoc.after : CutDoc → Str
  | .here xs tp b1 tail => afterPreAll xs tp (DocEnd.cut b1 tail).text
  | .deeper xs p nm b pre hattrs gap inner =>
    afterPreAll xs pre (bangText_l2 b ++ (dottedName p nm ++ hdrText_ls hattrs gap inner.text))

def CutDoc.wf : CutDoc → Bool
  | .here xs tp b1 tail => wfItemsAll xs tp true && tp.wf && (DocEnd.cut b1 tail).wf
  | .deeper xs p nm _ pre hattrs gap inner =>
    wfPrefixAll xs pre && goodPathName_l2 p nm && pre.wf && hattrs.all AttrIt.swf && gap.wf &&
      hdrGapOK_ls hattrs gap && inner.wf

def CutDoc.size : CutDoc → Nat
  | .here xs tp _ _ => itemsSize xs + tp.segs.length + 1
  | .deeper xs _ _ _ pre _ _ inner => itemsSize xs + pre.segs.length + 1 + inner.size

def CutDoc.isHere : CutDoc → Bool
  | .here .. => true
  | .deeper .. => false

/-- the cut stands directly behind the first filler -/
def CutDoc.firstCut : CutDoc → Bool
  | .here xs _ _ _ => xs.isEmpty
  | .deeper .. => false

/-- the line cited by the error: the line of the innermost `{` that is open at the cut (`enc`: the
    line of the brace that encloses the whole piece); `l` is the line on which the piece starts -/
def CutDoc.errLine : CutDoc → Nat → Option Nat → Option Nat
  | .here .., _, enc => enc
  | .deeper xs _ _ _ pre hattrs gap inner, l, _ =>
    inner.errLine (attrsEnd (itemsEndLn xs l + pre.nl) hattrs + gap.lines.length)
      (some (attrsEnd (itemsEndLn xs l + pre.nl) hattrs + gap.lines.length))

theorem CutDoc.text_split_all (c : CutDoc) : c.text = c.firstPre.text ++ c.after := by
  cases c with
  | here xs tp b1 tail => exact itemsText_split_all xs tp _
  | deeper xs p nm b pre hattrs gap inner => exact itemsText_split_all xs pre _

theorem CutDoc.firstPre_wf_all (c : CutDoc) (h : c.wf = true) : c.firstPre.wf = true := by
  cases c with
  | here xs tp b1 tail =>
    simp only [CutDoc.wf, Bool.and_eq_true] at h
    exact firstPreAll_wf_all h.1.1 h.1.2
  | deeper xs p nm b pre hattrs gap inner =>
    simp only [CutDoc.wf, Bool.and_eq_true] at h
    exact firstPreAll_wfPrefix_all h.1.1.1.1.1.1 h.1.1.1.1.2

/-- `collect_objects` on a piece that is cut inside a scope body fails at the innermost open brace -/
theorem cutRun_all : ∀ (c : CutDoc) (fuel : Nat) (st : PState) (l prevLine : Nat) (acc : List Obj)
    (pending : Option Obj) (stop : Option Word) (enc : Option Nat),
    c.wf = true → 0 < l → c.size ≤ fuel → (∀ sw, stop = some sw → sw.line = enc) →
    (c.isHere = true → stop.isSome = true) →
    FreshPre prevLine c.firstPre c.firstCut l → AtPre st.ci c.firstPre c.after l →
    collectObjects fuel st stop prevLine acc pending
      = .error (.runtime "no_matching_brace" (c.errLine l enc)) := by
  intro c
  induction c with
  | here xs tp b1 tail =>
    intro fuel st l prevLine acc pending stop enc hwf hl hf henc hstop hfresh hat
    simp only [CutDoc.wf, Bool.and_eq_true] at hwf
    obtain ⟨sw, rfl⟩ : ∃ sw, stop = some sw := Option.isSome_iff_exists.mp (hstop rfl)
    obtain ⟨st', hrun, _⟩ := blockRun_all xs fuel st l prevLine acc pending (some sw) tp
      (DocEnd.cut b1 tail).text true hwf.1.1 hwf.1.2 (Or.inr (Or.inr (Or.inr ⟨sw, rfl, rfl, b1, tail, hwf.2, rfl⟩)))
      hl hf (by simpa [CutDoc.firstPre, CutDoc.firstCut] using hfresh) hat
    rw [hrun]
    simp [blockResult, CutDoc.errLine, henc sw rfl]
  | deeper xs p nm b pre hattrs gap inner ih =>
    intro fuel st l prevLine acc pending stop enc hwf hl hf _ _ hfresh hat
    simp only [CutDoc.wf, Bool.and_eq_true, List.all_eq_true] at hwf
    obtain ⟨⟨⟨⟨⟨⟨hxs, hpn⟩, hpre⟩, hts⟩, hgap⟩, hgok⟩, hin⟩ := hwf
    obtain ⟨_, _, _, hit⟩ := goodPathName_facts_l2 hpn
    obtain ⟨_, _, hpi⟩ := Pre3.wf_facts hpre
    have htl := itemsTurns_le_size_all xs
    obtain ⟨f, rfl⟩ : ∃ f, fuel = ((f + 1) + pre.segs.length) + itemsTurns xs :=
      ⟨fuel - itemsTurns xs - pre.segs.length - 1, by simp only [CutDoc.size] at hf; omega⟩
    have hfin : inner.size ≤ f := by simp only [CutDoc.size] at hf; omega
    obtain ⟨st1, acc1, pending1, prevLine1, hrun1, hat1, hmono1, hfr1⟩ :=
      itemsRun_all xs ((f + 1) + pre.segs.length) st l prevLine acc pending stop pre
        (bangText_l2 b ++ (dottedName p nm ++ hdrText_ls hattrs gap inner.text)) hxs hpre
        (StopHead_of_SafeHead_all (bang_name_safeHead_l2 b hit _)) hl
        (by simp only [CutDoc.size] at hf; omega) hfresh hat
    obtain ⟨st2, hs1, hs2, hs3⟩ := skipPre_all pre _ hpre (f + 1) st1 stop prevLine1 acc1 pending1
      (itemsEndLn xs l) hfr1 hat1
    have hhead := scope_hdr_turn_ls (dottedName p nm) b pre.ind hattrs gap inner.text
      hit hpi hts hgap hgok f st2 stop prevLine1 acc1 pending1 (itemsEndLn xs l + pre.nl) hs3
    have hage := attrsEnd_ge_all hattrs (itemsEndLn xs l + pre.nl)
    have hinner := ih f
      { ci := ⟨inner.text, attrsEnd (itemsEndLn xs l + pre.nl) hattrs + gap.lines.length⟩, nextId := st2.nextId + 1 }
      (attrsEnd (itemsEndLn xs l + pre.nl) hattrs + gap.lines.length) 0 [] none
      (some { value := ['{'], quote := none,
              line := some (attrsEnd (itemsEndLn xs l + pre.nl) hattrs + gap.lines.length) })
      (some (attrsEnd (itemsEndLn xs l + pre.nl) hattrs + gap.lines.length))
      hin (by omega) hfin (by intro sw h; cases h; rfl) (fun _ => rfl) (by intro _; omega)
      (by
        rw [CutDoc.text_split_all]
        exact atPre_text_all _ _ _ (inner.firstPre_wf_all hin))
    rw [hrun1, hs1, hhead, hinner]
    simp [scopeCont, CutDoc.errLine]

theorem cutDoc_size_le_text_all (c : CutDoc) : c.size ≤ c.text.length := by
  induction c with
  | here xs tp b1 tail =>
    have h1 := itemsSize_le_text_all xs
    have h2 := pre3_text_length_all tp
    simp only [CutDoc.size, CutDoc.text, DocEnd.text, philWord, List.length_append, String.toList]
    simp
    have e5 : "#phil".length = 5 := by decide
    omega
  | deeper xs p nm b pre hattrs gap inner ih =>
    have h1 := itemsSize_le_text_all xs
    have h2 := pre3_text_length_all pre
    have h3 := hdrText_length_all hattrs gap inner.text
    simp only [CutDoc.size, CutDoc.text, List.length_append]
    omega

/-- **`#phil __END__` inside a scope body**: `parse` fails with "no matching `}`" citing the line of
    the innermost brace that is open at the cut -/
theorem parseObjs_cut_in_scope_all (c : CutDoc) (h : c.wf = true) (hd : c.isHere = false) :
    parseObjs c.text = .error (.runtime "no_matching_brace" (c.errLine 1 none)) := by
  have hrun := cutRun_all c (c.text.length + 2) { ci := ⟨c.text, 1⟩, nextId := 1 } 1 0 [] none none none h
    (by omega) (by have := cutDoc_size_le_text_all c; omega) (by intro sw e; cases e)
    (by intro e; rw [hd] at e; cases e) (by intro _; omega)
    (by
      rw [CutDoc.text_split_all]
      exact atPre_text_all _ _ _ (c.firstPre_wf_all h))
  unfold parseObjs
  rw [hrun]

/-! ### source lines in terms of the text in front (C15) -/

mutual
/-- the object the parser builds for an item, every line computed from the text in front: `before` is
    the text in front of the item's filler -/
def DocItem.lined : DocItem → Str → Nat → Obj
  | .defn p d L b attrs, before, i =>
    nestIn (some i) false p
      (.defn { name := d.1, id := some i, disabled := b,
               line := some (1 + nlCount (before ++ L.pre.text)), mergeNames := !p.isEmpty,
               attrs := attrsOf3 attrs }
        (linedWords3 (before ++ L.pre.text ++ bangText_l2 b ++ dottedName p d.1 ++ L.sp1 ++ ['=']) L.gaps d.2))
  | .scope p nm b pre hattrs gap kids _, before, i =>
    nestIn (some i) false p
      (.scope { name := nm, id := some i, disabled := b,
                line := some (1 + nlCount (before ++ pre.text)), mergeNames := !p.isEmpty,
                attrs := sattrsOf hattrs }
        (linedAll kids (before ++ pre.text ++ bangText_l2 b ++ dottedName p nm ++ hdrText_ls hattrs gap [])
          (i + 1)))
def linedAll : List DocItem → Str → Nat → List Obj
  | [], _, _ => []
  | x :: xs, before, i => x.lined before i :: linedAll xs (before ++ (x.pre.text ++ x.body)) (i + x.count)
end

/-- the line after an entry is the line in front of it plus the newlines of its text -/
theorem entry_endLine_all (head : Str) (ws : List Word) (L : DefLayout3) (b : Bool) (l : Nat)
    (hhead : nlCount head = 0) (hpre : L.pre.wf = true) (hsp1 : inlineB L.sp1 = true)
    (hlen : L.gaps.length = ws.length) :
    endLineG (l + L.pre.nl) L.gaps ws + nlCount L.term.text
      = l + nlCount (L.pre.text ++ (bangText_l2 b ++ entryText_all head ws L)) := by
  have heq : '=' ≠ '\n' := by decide
  rw [endLineG_eq ws L.gaps _ hlen, entryText_all]
  simp only [nlCount_append, nlCount_cons_ne '=' _ heq]
  rw [hhead, inlineB_nl hsp1, nlCount_pre3 _ hpre, nlCount_bang_l2]
  omega

theorem attrsEnd3_eq_all (ts : List AttrIt3) (next : Pre3) (last cut : Bool)
    (h : wfAttrs3 ts next last cut = true) : ∀ l, attrsEnd3 l ts = l + nlCount (attrsText3 ts) := by
  induction ts with
  | nil => intro l; rfl
  | cons t ts ih =>
    intro l
    simp only [wfAttrs3, Bool.and_eq_true] at h
    obtain ⟨⟨⟨⟨⟨⟨hga, hpre⟩, hsp1⟩, hgaps⟩, _⟩, _⟩, hrest⟩ := h
    simp only [goodAttr3, Bool.and_eq_true] at hga
    have := entry_endLine_all (attrLead t.n) t.ws t.L t.b l (attrLead_nlCount_la hga.1.1.1) hpre hsp1
      (gapsOK3_length t.ws t.L.gaps true true hgaps)
    rw [attrsEnd3, this, ih hrest, attrsText3, AttrIt3.body]
    simp only [nlCount_append]
    omega

theorem sattrLead_nlCount_all {n : String} (hn : scopeAttrNames.contains n = true) : nlCount (attrLead n) = 0 := by
  have hch := scopeAttrNames_chars_ls n (by simpa using hn)
  apply nlCount_of_no_nl
  intro d hd
  rcases List.mem_cons.mp hd with rfl | hd
  · decide
  · exact ne_nl_of_not_space (idCont_not_space (hch d hd))

theorem sattr_endLine_all (t : AttrIt) (ht : t.swf = true) (l : Nat) :
    endLine (l + t.L.pre.lines.length) t.ws + nlCount t.L.term.text
      = l + nlCount (t.L.pre.text ++ t.item.body) := by
  simp only [AttrIt.swf, goodSAttr, wfDef, Bool.and_eq_true] at ht
  obtain ⟨⟨⟨⟨⟨⟨hn, _⟩, _⟩, _⟩, _⟩, ⟨⟨⟨hpre, hsp1⟩, hgaps⟩, _⟩⟩, _⟩ := ht
  have heq : '=' ≠ '\n' := by decide
  rw [endLine_eq, AItem.body, defText]
  simp only [AttrIt.item, AItem.spec, AItem.lay, AItem.bang, nlCount_append, nlCount_cons_ne '=' _ heq]
  rw [nlCount_wordsLay t.ws t.L.gaps true hgaps, sattrLead_nlCount_all hn, inlineB_nl hsp1,
    nlCount_pre _ hpre, nlCount_bang_l2]
  omega

/-- the line of `{` from the text of the header -/
theorem hdr_nl_all (gap : Pre) (hgap : gap.wf = true) (ts : List AttrIt) (hts : ∀ t ∈ ts, t.swf = true) :
    ∀ l, attrsEnd l ts + gap.lines.length = l + nlCount (hdrText_ls ts gap []) := by
  induction ts with
  | nil =>
    intro l
    simp only [attrsEnd, hdrText_ls, hdrFirstPre_ls, hdrAfter_ls, nlCount_append, nlCount_pre _ hgap]
    have : nlCount ['{'] = 0 := by decide
    omega
  | cons t ts ih =>
    intro l
    have ht := hts t (by simp)
    have e : hdrText_ls (t :: ts) gap [] = t.L.pre.text ++ (t.item.body ++ hdrText_ls ts gap []) := by
      simp [hdrText_ls, hdrFirstPre_ls, hdrAfter_ls]
    have := sattr_endLine_all t ht l
    rw [attrsEnd, this, ih (fun u hu => hts u (by simp [hu])), e]
    simp only [nlCount_append]
    omega

theorem lined_eq_all (x : DocItem) : ∀ (before : Str) (i : Nat) (next : Pre3) (last cut : Bool),
    x.wf next last cut = true →
    x.obj (1 + nlCount before) i = x.lined before i ∧
    x.endLn (1 + nlCount before) = 1 + nlCount (before ++ (x.pre.text ++ x.body)) := by
  induction x using DocItem.rec
    (motive_2 := fun xs => ∀ (before : Str) (i : Nat) (tp : Pre3) (cut : Bool), wfItemsAll xs tp cut = true →
      objsAll xs (1 + nlCount before) i = linedAll xs before i ∧
      itemsEndLn xs (1 + nlCount before) = 1 + nlCount (before ++ itemsText xs)) with
  | defn p d L b attrs =>
    intro before i next last cut hwf
    simp only [DocItem.wf, Bool.and_eq_true] at hwf
    obtain ⟨⟨⟨⟨⟨⟨⟨hpn, hgd⟩, hpre⟩, hsp1⟩, hgaps⟩, hterm⟩, hok⟩, hattrs⟩ := hwf
    obtain ⟨_, _, _, hit⟩ := goodPathName_facts_l2 hpn
    have hnm := itemName_nlCount_l2 hit
    have hl : 1 + nlCount before + L.pre.nl = 1 + nlCount (before ++ L.pre.text) := by
      rw [nlCount_append, nlCount_pre3 _ hpre]; omega
    have hb : 1 + nlCount (before ++ L.pre.text)
        = 1 + nlCount (before ++ L.pre.text ++ bangText_l2 b ++ dottedName p d.1 ++ L.sp1 ++ ['=']) := by
      rw [nlCount_append _ ['='], nlCount_append _ L.sp1, nlCount_append _ (dottedName p d.1),
        nlCount_append _ (bangText_l2 b), hnm, inlineB_nl hsp1, nlCount_eq, nlCount_bang_l2]
      omega
    constructor
    · rw [DocItem.obj, DocItem.lined, hl]
      congr 2
      rw [hb]
      exact relineG_eq_linedWords3 d.2 L.gaps _
    · have := entry_endLine_all (dottedName p d.1) d.2 L b (1 + nlCount before) hnm hpre hsp1
        (gapsOK3_length d.2 L.gaps true true hgaps)
      rw [DocItem.endLn, this, attrsEnd3_eq_all attrs next last cut hattrs, DocItem.pre, DocItem.body]
      simp only [nlCount_append]
      omega
  | scope p nm b pre hattrs gap kids close ih =>
    intro before i next last cut hwf
    simp only [DocItem.wf, Bool.and_eq_true, List.all_eq_true] at hwf
    obtain ⟨⟨⟨⟨⟨⟨⟨hpn, hpre⟩, hts⟩, hgap⟩, hgok⟩, hclose⟩, hkids⟩, _⟩ := hwf
    obtain ⟨_, _, _, hit⟩ := goodPathName_facts_l2 hpn
    have hnm := itemName_nlCount_l2 hit
    have hl : 1 + nlCount before + pre.nl = 1 + nlCount (before ++ pre.text) := by
      rw [nlCount_append, nlCount_pre3 _ hpre]; omega
    have hbody : attrsEnd (1 + nlCount before + pre.nl) hattrs + gap.lines.length
        = 1 + nlCount (before ++ pre.text ++ bangText_l2 b ++ dottedName p nm ++ hdrText_ls hattrs gap []) := by
      rw [hdr_nl_all gap hgap hattrs hts, hl]
      simp only [nlCount_append, hnm, nlCount_bang_l2]
      omega
    obtain ⟨k1, k2⟩ := ih (before ++ pre.text ++ bangText_l2 b ++ dottedName p nm ++ hdrText_ls hattrs gap [])
      (i + 1) close false hkids
    constructor
    · rw [DocItem.obj, DocItem.lined, hbody, k1, hl]
    · have e : hdrText_ls hattrs gap (itemsText kids ++ (close.text ++ ['}']))
          = hdrText_ls hattrs gap [] ++ (itemsText kids ++ (close.text ++ ['}'])) := by
        rw [hdrText_append_ls]; rfl
      rw [DocItem.endLn, hbody, k2, DocItem.pre, DocItem.body, e]
      simp only [nlCount_append, nlCount_pre3 _ hclose, nlCount_closeB_l2]
      omega
  | nil =>
    exact ⟨rfl, by simp [itemsEndLn, itemsText]⟩
  | cons x xs ihx ihxs =>
    rename_i before i tp cut hwf
    simp only [wfItemsAll, Bool.and_eq_true] at hwf
    obtain ⟨a1, a2⟩ := ihx before i _ _ _ hwf.1
    obtain ⟨b1, b2⟩ := ihxs (before ++ (x.pre.text ++ x.body)) (i + x.count) tp cut hwf.2
    constructor
    · rw [objsAll, linedAll, a1, a2, b1]
    · rw [itemsEndLn, a2, b2, itemsText]
      simp only [List.append_assoc]

theorem linedAll_eq_all (xs : List DocItem) (before : Str) (i : Nat) (tp : Pre3) (cut : Bool)
    (h : wfItemsAll xs tp cut = true) : objsAll xs (1 + nlCount before) i = linedAll xs before i := by
  induction xs generalizing before i with
  | nil => rfl
  | cons x xs ih =>
    simp only [wfItemsAll, Bool.and_eq_true] at h
    obtain ⟨a1, a2⟩ := lined_eq_all x before i _ _ _ h.1
    rw [objsAll, linedAll, a1, a2, ih _ _ h.2]

/-- the closed form of `parse` on a whole document, lines from the text -/
theorem parseObjs_renderAll_lined (xs : List DocItem) (post : Pre3) (e : DocEnd)
    (h : wfDocAll xs post e = true) : parseObjs (renderAll xs post e) = .ok (linedAll xs [] 1) := by
  rw [parseObjs_renderAll xs post e h]
  have := linedAll_eq_all xs [] 1 post e.isCut (wfDocAll_facts h).1
  rw [← this]
  rfl

/-! ### the positions of all names and words, and the lines the tree reports -/

/-- a position in the text: the text in front, and what is written there -/
abbrev Mark := Option (Str × Str)

/-- the line a position stands for: `1 +` the number of newlines in front of its first character;
    `none` for the position-less scopes built for the leading components of a dotted name -/
def Mark.line : Mark → Option Nat
  | none => none
  | some (before, _) => some (1 + nlCount before)

/-- where the words of a value stand -/
def wordMarks (before : Str) : List Gap → List Word → List Mark
  | g :: gs, w :: ws => some (before ++ g.text, w.str) :: wordMarks (before ++ (g.text ++ w.str)) gs ws
  | _, _ => []

mutual
/-- for every object of the item's tree in document order (a scope before its items, a definition
    before its words): where its first character stands (`!` included) and what is written there -/
def DocItem.marks : DocItem → Str → List Mark
  | .defn p d L b _, before =>
    p.map (fun _ => none) ++ some (before ++ L.pre.text, bangText_l2 b ++ dottedName p d.1) ::
      wordMarks (before ++ L.pre.text ++ bangText_l2 b ++ dottedName p d.1 ++ L.sp1 ++ ['=']) L.gaps d.2
  | .scope p nm b pre hattrs gap kids _, before =>
    p.map (fun _ => none) ++ some (before ++ pre.text, bangText_l2 b ++ dottedName p nm) ::
      marksAll kids (before ++ pre.text ++ bangText_l2 b ++ dottedName p nm ++ hdrText_ls hattrs gap [])
def marksAll : List DocItem → Str → List Mark
  | [], _ => []
  | x :: xs, before => x.marks before ++ marksAll xs (before ++ (x.pre.text ++ x.body))
end

mutual
/-- the source lines a tree reports, in document order: a scope, then its objects; a definition, then
    its words -/
def Obj.allLines : Obj → List (Option Nat)
  | .defn m ws => m.line :: ws.map (·.line)
  | .scope m os => m.line :: allLinesList os
def allLinesList : List Obj → List (Option Nat)
  | [] => []
  | x :: xs => x.allLines ++ allLinesList xs
end

theorem allLines_nestIn_all (id : Option Nat) (p : List Str) (y : Obj) : ∀ b,
    (nestIn id b p y).allLines = p.map (fun _ => none) ++ y.allLines := by
  induction p with
  | nil => intro b; rfl
  | cons n ns ih =>
    intro b
    rw [nestIn, Obj.allLines, allLinesList, allLinesList, ih]
    simp

theorem linedWords3_lines_all (ws : List Word) : ∀ (gaps : List Gap) (b : Str),
    (linedWords3 b gaps ws).map (·.line) = (wordMarks b gaps ws).map Mark.line := by
  induction ws with
  | nil => intro gaps b; cases gaps <;> rfl
  | cons w ws ih =>
    intro gaps b
    cases gaps with
    | nil => rfl
    | cons g gs => simp only [linedWords3, wordMarks, List.map_cons, ih gs, Mark.line]

theorem map_none_line_all (p : List Str) :
    (p.map (fun _ => (none : Mark))).map Mark.line = p.map (fun _ => (none : Option Nat)) := by
  induction p with
  | nil => rfl
  | cons n ns ih => simp [Mark.line]

theorem lined_allLines_all (x : DocItem) : ∀ (before : Str) (i : Nat),
    (x.lined before i).allLines = (x.marks before).map Mark.line := by
  induction x using DocItem.rec
    (motive_2 := fun xs => ∀ (before : Str) (i : Nat),
      allLinesList (linedAll xs before i) = (marksAll xs before).map Mark.line) with
  | defn p d L b attrs =>
    intro before i
    rw [DocItem.lined, DocItem.marks, allLines_nestIn_all, Obj.allLines, linedWords3_lines_all]
    simp [Mark.line]
  | scope p nm b pre hattrs gap kids close ih =>
    intro before i
    rw [DocItem.lined, DocItem.marks, allLines_nestIn_all, Obj.allLines, ih]
    simp [Mark.line]
  | nil => rfl
  | cons x xs ihx ihxs =>
    rename_i before i
    rw [linedAll, marksAll, allLinesList, ihx, ihxs, List.map_append]

theorem linedAll_allLines_all (xs : List DocItem) : ∀ (before : Str) (i : Nat),
    allLinesList (linedAll xs before i) = (marksAll xs before).map Mark.line := by
  induction xs with
  | nil => intro before i; rfl
  | cons x xs ih =>
    intro before i
    rw [linedAll, marksAll, allLinesList, lined_allLines_all, ih, List.map_append]

/-- every word mark is a position of that word in the text of the value -/
theorem wordMarks_prefix_all (ws : List Word) : ∀ (gaps : List Gap) (b pre written : Str),
    some (pre, written) ∈ wordMarks b gaps ws → ∃ tail, b ++ wordsLay3 gaps ws = pre ++ (written ++ tail) := by
  induction ws with
  | nil => intro gaps b pre written h; cases gaps <;> simp [wordMarks] at h
  | cons w ws ih =>
    intro gaps b pre written h
    cases gaps with
    | nil => simp [wordMarks] at h
    | cons g gs =>
      simp only [wordMarks, List.mem_cons, Option.some.injEq, Prod.mk.injEq] at h
      rcases h with ⟨rfl, rfl⟩ | h
      · exact ⟨wordsLay3 gs ws, by simp [wordsLay3]⟩
      · obtain ⟨tail, ht⟩ := ih gs _ pre written h
        exact ⟨tail, by rw [← ht]; simp [wordsLay3]⟩

theorem not_mem_map_none_all (p : List Str) (m : Str × Str) : some m ∉ p.map (fun _ => (none : Mark)) := by
  induction p with
  | nil => simp
  | cons n ns ih => simp

/-- **every mark is a position in the text**: the text in front ends exactly where the written name
    or word begins -/
theorem marks_prefix_all (x : DocItem) : ∀ (before pre written : Str),
    some (pre, written) ∈ x.marks before →
    ∃ tail, before ++ (x.pre.text ++ x.body) = pre ++ (written ++ tail) := by
  induction x using DocItem.rec
    (motive_2 := fun xs => ∀ (before pre written : Str), some (pre, written) ∈ marksAll xs before →
      ∃ tail, before ++ itemsText xs = pre ++ (written ++ tail)) with
  | defn p d L b attrs =>
    intro before pre written h
    simp only [DocItem.marks, List.mem_append, List.mem_cons, Option.some.injEq, Prod.mk.injEq] at h
    rcases h with h | ⟨rfl, rfl⟩ | h
    · exact absurd h (not_mem_map_none_all p _)
    · exact ⟨(L.sp1 ++ '=' :: (wordsLay3 L.gaps d.2 ++ L.term.text)) ++ attrsText3 attrs,
        by simp [DocItem.pre, DocItem.body, entryText_all, List.append_assoc]⟩
    · obtain ⟨tail, ht⟩ := wordMarks_prefix_all d.2 L.gaps _ pre written h
      refine ⟨tail ++ (L.term.text ++ attrsText3 attrs), ?_⟩
      have : before ++ ((DocItem.defn p d L b attrs).pre.text ++ (DocItem.defn p d L b attrs).body)
          = (before ++ L.pre.text ++ bangText_l2 b ++ dottedName p d.1 ++ L.sp1 ++ ['='] ++ wordsLay3 L.gaps d.2)
            ++ (L.term.text ++ attrsText3 attrs) := by
        simp [DocItem.pre, DocItem.body, entryText_all, List.append_assoc]
      rw [this, ht]
      simp [List.append_assoc]
  | scope p nm b pre0 hattrs gap kids close ih =>
    intro before pre written h
    simp only [DocItem.marks, List.mem_append, List.mem_cons, Option.some.injEq, Prod.mk.injEq] at h
    have e : hdrText_ls hattrs gap (itemsText kids ++ (close.text ++ ['}']))
        = hdrText_ls hattrs gap [] ++ (itemsText kids ++ (close.text ++ ['}'])) := by
      rw [hdrText_append_ls]; rfl
    rcases h with h | ⟨rfl, rfl⟩ | h
    · exact absurd h (not_mem_map_none_all p _)
    · exact ⟨hdrText_ls hattrs gap (itemsText kids ++ (close.text ++ ['}'])),
        by simp [DocItem.pre, DocItem.body, List.append_assoc]⟩
    · obtain ⟨tail, ht⟩ := ih _ pre written h
      refine ⟨tail ++ (close.text ++ ['}']), ?_⟩
      have : before ++ ((DocItem.scope p nm b pre0 hattrs gap kids close).pre.text
            ++ (DocItem.scope p nm b pre0 hattrs gap kids close).body)
          = (before ++ pre0.text ++ bangText_l2 b ++ dottedName p nm ++ hdrText_ls hattrs gap [] ++ itemsText kids)
            ++ (close.text ++ ['}']) := by
        simp [DocItem.pre, DocItem.body, e, List.append_assoc]
      rw [this, ht]
      simp [List.append_assoc]
  | nil => rename_i before pre written h; simp [marksAll] at h
  | cons x xs ihx ihxs =>
    rename_i before pre written h
    simp only [marksAll, List.mem_append] at h
    rcases h with h | h
    · obtain ⟨tail, ht⟩ := ihx before pre written h
      refine ⟨tail ++ itemsText xs, ?_⟩
      rw [itemsText, ← List.append_assoc before, ht]
      simp [List.append_assoc]
    · obtain ⟨tail, ht⟩ := ihxs _ pre written h
      exact ⟨tail, by rw [← ht, itemsText]; simp [List.append_assoc]⟩

theorem marksAll_prefix_all (xs : List DocItem) : ∀ (before pre written : Str),
    some (pre, written) ∈ marksAll xs before →
    ∃ tail, before ++ itemsText xs = pre ++ (written ++ tail) := by
  induction xs with
  | nil => intro before pre written h; simp [marksAll] at h
  | cons x xs ih =>
    intro before pre written h
    simp only [marksAll, List.mem_append] at h
    rcases h with h | h
    · obtain ⟨tail, ht⟩ := marks_prefix_all x before pre written h
      refine ⟨tail ++ itemsText xs, ?_⟩
      rw [itemsText, ← List.append_assoc before, ht]
      simp [List.append_assoc]
    · obtain ⟨tail, ht⟩ := ih _ pre written h
      exact ⟨tail, by rw [← ht, itemsText]; simp [List.append_assoc]⟩

/-! ### the line cited for a cut inside a scope body, from the text -/

theorem itemsEndLn_prefix_all (xs : List DocItem) : ∀ (before : Str) (next : Pre3),
    wfPrefixAll xs next = true →
    itemsEndLn xs (1 + nlCount before) = 1 + nlCount (before ++ itemsText xs) := by
  induction xs with
  | nil => intro before next _; simp [itemsEndLn, itemsText]
  | cons x xs ih =>
    intro before next h
    simp only [wfPrefixAll, Bool.and_eq_true] at h
    obtain ⟨_, a2⟩ := lined_eq_all x before 0 _ _ _ h.1
    rw [itemsEndLn, a2, ih _ next h.2, itemsText]
    simp only [List.append_assoc]

/-- the text up to and including the innermost `{` that is open at the cut (`encText`: the text up to
    and including the brace that encloses the whole piece) -/
def CutDoc.openText : CutDoc → Str → Str → Str
  | .here .., _, encText => encText
  | .deeper xs p nm b pre hattrs gap inner, before, _ =>
    inner.openText
      (before ++ itemsText xs ++ pre.text ++ bangText_l2 b ++ dottedName p nm ++ hdrText_ls hattrs gap [])
      (before ++ itemsText xs ++ pre.text ++ bangText_l2 b ++ dottedName p nm ++ hdrText_ls hattrs gap [])

theorem errLine_eq_all : ∀ (c : CutDoc) (before encText : Str), c.wf = true →
    c.errLine (1 + nlCount before) (some (1 + nlCount encText))
      = some (1 + nlCount (c.openText before encText)) := by
  intro c
  induction c with
  | here xs tp b1 tail => intro before encText _; rfl
  | deeper xs p nm b pre hattrs gap inner ih =>
    intro before encText hwf
    simp only [CutDoc.wf, Bool.and_eq_true, List.all_eq_true] at hwf
    obtain ⟨⟨⟨⟨⟨⟨hxs, hpn⟩, hpre⟩, hts⟩, hgap⟩, _⟩, hin⟩ := hwf
    obtain ⟨_, _, _, hit⟩ := goodPathName_facts_l2 hpn
    have hnm := itemName_nlCount_l2 hit
    have hlb : attrsEnd (itemsEndLn xs (1 + nlCount before) + pre.nl) hattrs + gap.lines.length
        = 1 + nlCount (before ++ itemsText xs ++ pre.text ++ bangText_l2 b ++ dottedName p nm
            ++ hdrText_ls hattrs gap []) := by
      rw [hdr_nl_all gap hgap hattrs hts, itemsEndLn_prefix_all xs before pre hxs]
      simp only [nlCount_append, hnm, nlCount_bang_l2, nlCount_pre3 _ hpre]
      omega
    rw [CutDoc.errLine, hlb, ih _ _ hin, CutDoc.openText]

/-- the text up to the innermost open brace is a prefix of the document -/
theorem openText_prefix_all : ∀ (c : CutDoc) (before encText : Str), c.isHere = false →
    ∃ tail, before ++ c.text = c.openText before encText ++ tail := by
  intro c
  induction c with
  | here xs tp b1 tail => intro _ _ h; cases h
  | deeper xs p nm b pre hattrs gap inner ih =>
    intro before encText _
    have e : hdrText_ls hattrs gap inner.text = hdrText_ls hattrs gap [] ++ inner.text := by
      rw [hdrText_append_ls]; rfl
    have ht : before ++ (CutDoc.deeper xs p nm b pre hattrs gap inner).text
        = (before ++ itemsText xs ++ pre.text ++ bangText_l2 b ++ dottedName p nm ++ hdrText_ls hattrs gap [])
          ++ inner.text := by
      simp [CutDoc.text, e, List.append_assoc]
    rw [ht, CutDoc.openText]
    cases hin : inner.isHere with
    | true =>
      cases inner with
      | here xs' tp' b1' tail' => exact ⟨_, rfl⟩
      | deeper => cases hin
    | false => exact ih _ _ hin

end Phil
