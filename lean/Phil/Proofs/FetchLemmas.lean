/-
  Phil.Proofs.FetchLemmas — lemmas about scope.fetch (Phil/Fetch.lean): shape of the result (C04),
  splitting of sources / last value wins (C05), consumed-definition tracking (C06), partial
  idempotence and kernel-evaluated negation witnesses (C07/C08).
-/
import Phil.Fetch
import Phil.Parse
import Phil.CmdLine
set_option linter.unusedVariables false
namespace Phil

/-! ## 0. `fetchScope` restated through named step functions -/

/-- the type of `fetchScope e fuel` (the recursive callee) -/
abbrev FetchFn := Bool → Meta → List Obj → List Obj → R (Obj × List Nat)

def idOf (ms : Obj) : List Nat := match ms.meta.id with | some i => [i] | none => []

def fetchPath (sm : Meta) (mo : Obj) : Str :=
  if sm.name.isEmpty then mo.name else sm.name ++ '.' :: mo.name

def fetchMatching (fuel : Nat) (sm : Meta) (combined : List Obj) (mo : Obj) : List Obj :=
  (getWithoutSubst (fuel + 64) (.scope { sm with tmpl := 0 } combined) (fetchPath sm mo)).filter
    (fun (o : Obj) => !o.meta.disabled)

def defnOne (e : Envs) (fuel : Nat) (diff : Bool) (mo : Obj) :
    (Option Obj × List Nat) → Obj → R (Option Obj × List Nat) := fun acc ms =>
  (fetchDefn e fuel diff mo ms).map (fun ro => (ro, acc.2 ++ idOf ms ++ srcRefs ms))

def defnFinish (diff : Bool) (mo : Obj) (mm : Meta) (out : List Obj) :
    R (Option Obj × List Nat) → R (List Obj × List Nat)
  | .error err => .error err
  | .ok (some ro, used) => .ok (out ++ [ro], used)
  | .ok (none, used) =>
    if !diff && !(mm.attrs.get "deprecated").truthy then .ok (out ++ [mo], used) else .ok (out, used)

def scopeBranch (F : FetchFn) (diff : Bool) (mm : Meta) (kids : List Obj) (matching : List Obj)
    (out : List Obj) (used : List Nat) : R (List Obj × List Nat) :=
  match matching.find? (·.isDefn) with
  | some _ => Except.error (.runtime "incompatible" none)
  | none =>
    match F diff mm kids (matching.flatMap Obj.children) with
    | .error err => .error err
    | .ok (ro, u2) =>
      if diff && ro.children.isEmpty then .ok (out, used ++ u2) else .ok (out ++ [ro], used ++ u2)

def candOf (F : FetchFn) (e : Envs) (fuel : Nat) (diff : Bool) (mo : Obj) (fromM : Bool) (ms : Obj) :
    R (Option Obj × List Nat) :=
  match mo, ms with
  | .defn _ _, _ =>
    (fetchDefn e fuel diff mo ms).map (fun ro =>
      (ro, (match ms.meta.id with | some i => (if fromM then [] else [i]) | none => []) ++
        (if fromM then [] else srcRefs ms)))
  | .scope mm kids, .scope _ skids =>
    (F diff mm kids skids).map (fun (ro, u) =>
      ((if diff && ro.children.isEmpty then none else some ro), if fromM then [] else u))
  | .scope mm _, .defn _ _ => .error (.runtime "incompatible" none)

abbrev CAcc := List (Option Obj) × List (Str × Int) × List Nat

/-- the part of a candidate step after the candidate string `cs ≠ masterStr` is known -/
def cAccept (diff fromM : Bool) (cs : Str) (c : Obj) (u : List Nat)
    (robjs : List (Option Obj)) (processed : List (Str × Int)) (used : List Nat) : R CAcc :=
  let prev : Option (Str × Int) := processed.find? (fun (p : Str × Int) => p.1 == cs)
  if (match prev with | some p => p.2 == -1 | none => false) then .ok (robjs, processed, used ++ u)
  else
    let robjs : List (Option Obj) := match prev with
      | some p => robjs.zipIdx.map (fun (xi : Option Obj × Nat) => if (xi.2 : Int) == p.2 then none else xi.1)
      | none => robjs
    let processed : List (Str × Int) := processed.filter (fun (p : Str × Int) => p.1 != cs)
    if diff && fromM then .ok (robjs, processed ++ [(cs, -1)], used ++ u)
    else .ok (robjs ++ [some c], processed ++ [(cs, (robjs.length : Int))], used ++ u)

def cstepG (F : FetchFn) (e : Envs) (fuel : Nat) (diff : Bool) (mo : Obj) (masterStr : Str) :
    CAcc → (Bool × Obj) → R CAcc := fun acc fm =>
  match candOf F e fuel diff mo fm.1 fm.2 with
  | .error err => .error err
  | .ok (none, u) =>
    if diff then .ok (acc.1, acc.2.1, acc.2.2 ++ u) else .ok (acc.1, acc.2.1, acc.2.2 ++ u)
  | .ok (some c, u) =>
    match extractFormatStr e (fuel + 64) mo c with
    | .error err => .error err
    | .ok cs =>
      if cs == masterStr then .ok (acc.1, acc.2.1, acc.2.2 ++ u)
      else cAccept diff fm.1 cs c u acc.1 acc.2.1 acc.2.2

def fromMasterOf (mkids : List Obj) (idx : Nat) (mo : Obj) : List (Bool × Obj) :=
  (mkids.zipIdx.filter (fun (p : Obj × Nat) => !p.1.meta.disabled && p.1.name == mo.name && p.2 != idx)).map
    (fun (p : Obj × Nat) => (true, p.1))

def tmplObjsOf (diff : Bool) (mo : Obj) (processed : List (Str × Int)) (self : R (Obj × List Nat)) : List Obj :=
  if diff then [] else
    if (mo.attr "optional").mandatory then [defaultInstOf mo self]
    else [withTmpl mo (if processed.isEmpty then 1 else -1)]

theorem defaultInstOf_defn (mm : Meta) (mws : List Word) (self : R (Obj × List Nat)) :
    defaultInstOf (.defn mm mws) self = withTmpl (.defn mm mws) 0 := rfl

/-- for a master definition the template object is the master's copy with the flag `0` (mandatory),
    `1` (nothing survives) or `-1` -/
theorem tmplObjsOf_defn (diff : Bool) (mm : Meta) (mws : List Word) (processed : List (Str × Int))
    (self : R (Obj × List Nat)) :
    tmplObjsOf diff (.defn mm mws) processed self =
      if diff then [] else
        [withTmpl (.defn mm mws)
          (if ((Obj.defn mm mws).attr "optional").mandatory then 0 else if processed.isEmpty then 1 else -1)] := by
  unfold tmplObjsOf
  rw [defaultInstOf_defn]
  cases diff <;> simp only [Bool.false_eq_true, if_false, if_true]
  split <;> rfl

/-- `master_object.fetch()` of a `.multiple` master scope (no sources, never in diff mode); not looked at
    for a definition -/
def selfFetchOf (F : FetchFn) (mo : Obj) : R (Obj × List Nat) :=
  match mo with
  | .scope mm kids => F false mm kids []
  | .defn _ _ => .error .outOfFuel

/-- the master key of a `.multiple` master object, through the callee `F` -/
def masterKeyG (F : FetchFn) (e : Envs) (fuel : Nat) (mo : Obj) : R Str :=
  masterKeyOf e fuel mo (selfFetchOf F mo)

theorem masterKeyG_defn (F : FetchFn) (e : Envs) (fuel : Nat) (mm : Meta) (mws : List Word) :
    masterKeyG F e fuel (.defn mm mws) = extractFormatStr e (fuel + 64) (.defn mm mws) (.defn mm mws) := rfl

theorem masterKeyG_scope (F : FetchFn) (e : Envs) (fuel : Nat) (mm : Meta) (kids : List Obj) :
    masterKeyG F e fuel (.scope mm kids) =
      match F false mm kids [] with
      | .error err => .error err
      | .ok (ro, _) => extractFormatStr e (fuel + 64) (.scope mm kids) ro := rfl

def multiBranch (F : FetchFn) (e : Envs) (fuel : Nat) (diff : Bool) (mkids : List Obj) (idx : Nat)
    (mo : Obj) (matching : List Obj) (out : List Obj) (used : List Nat) : R (List Obj × List Nat) :=
  match masterKeyG F e fuel mo with
  | .error err => .error err
  | .ok masterStr =>
    match (fromMasterOf mkids idx mo ++ matching.map (fun (o : Obj) => (false, o))).foldlM
        (cstepG F e fuel diff mo masterStr) (([] : List (Option Obj)), ([] : List (Str × Int)), used) with
    | .error err => .error err
    | .ok (robjs, processed, used) =>
      .ok (out ++ tmplObjsOf diff mo processed (selfFetchOf F mo) ++ robjs.filterMap (fun (x : Option Obj) => x), used)

def stepG (F : FetchFn) (e : Envs) (fuel : Nat) (diff : Bool) (sm : Meta) (mkids combined : List Obj) :
    (List Obj × List Nat) → (Nat × Obj) → R (List Obj × List Nat) := fun st io =>
  if !isMultiple io.2 then
    match io.2 with
    | .defn mm _ =>
      defnFinish diff io.2 mm st.1
        ((fetchMatching fuel sm combined io.2).foldlM (defnOne e fuel diff io.2) ((none : Option Obj), st.2))
    | .scope mm kids => scopeBranch F diff mm kids (fetchMatching fuel sm combined io.2) st.1 st.2
  else multiBranch F e fuel diff mkids io.1 io.2 (fetchMatching fuel sm combined io.2) st.1 st.2

def fetchFinish (sm : Meta) : R (List Obj × List Nat) → R (Obj × List Nat)
  | .error err => .error err
  | .ok (out, used) => .ok (.scope { sm with tmpl := 0 } out, used)

theorem fetchScope_zero (e : Envs) (diff : Bool) (sm : Meta) (mkids combined : List Obj) :
    fetchScope e 0 diff sm mkids combined = .error .outOfFuel := rfl

theorem fetchScope_succ (e : Envs) (fuel : Nat) (diff : Bool) (sm : Meta) (mkids combined : List Obj) :
    fetchScope e (fuel + 1) diff sm mkids combined =
      match masterActiveObjects mkids with
      | .error err => .error err
      | .ok actives =>
        fetchFinish sm (actives.foldlM (stepG (fetchScope e fuel) e fuel diff sm mkids combined)
          (([] : List Obj), ([] : List Nat))) := by
  rw [fetchScope]
  rfl

/-! ## 1. generic `foldlM` invariants over `Except` -/

theorem foldlM_inv {α β ε : Type} (Inv : β → Prop) (f : β → α → Except ε β) :
    ∀ (l : List α), (∀ b a b', a ∈ l → Inv b → f b a = .ok b' → Inv b') →
      ∀ (init r : β), Inv init → l.foldlM f init = .ok r → Inv r := by
  intro l
  induction l with
  | nil => intro _ init r hi h; simp only [List.foldlM_nil] at h; cases h; exact hi
  | cons a l ih =>
    intro hstep init r hi h
    rw [List.foldlM_cons] at h
    cases hf : f init a with
    | error err => rw [hf] at h; cases h
    | ok b' =>
      rw [hf] at h
      exact ih (fun b a' b'' ha' => hstep b a' b'' (List.mem_cons_of_mem _ ha')) b' r
        (hstep init a b' (List.mem_cons_self) hi hf) h

theorem except_map_ok {α β ε : Type} {f : α → β} {x : Except ε α} {y : β}
    (h : Except.map f x = .ok y) : ∃ a, x = .ok a ∧ f a = y := by
  cases x with
  | error err => cases h
  | ok a => exact ⟨a, rfl, by simpa [Except.map] using h⟩

/-! ## 2. `masterActiveObjects` is sound (C04.1) -/

theorem masterActive_go_sublist :
    ∀ (l : List (Nat × Obj)) (seen : List (Str × Obj)) (acc r : List (Nat × Obj)),
      masterActiveObjects.go l seen acc = .ok r →
      ∃ r', r = acc.reverse ++ r' ∧ r'.Sublist (l.filter (fun p => !p.2.meta.disabled)) := by
  intro l
  induction l with
  | nil =>
    intro seen acc r h
    simp only [masterActiveObjects.go] at h
    cases h
    exact ⟨[], by simp, by simp⟩
  | cons p rest ih =>
    intro seen acc r h
    obtain ⟨i, o⟩ := p
    simp only [masterActiveObjects.go] at h
    cases hd : o.meta.disabled with
    | true =>
      simp only [hd, if_true] at h
      obtain ⟨r', hr, hs⟩ := ih seen acc r h
      exact ⟨r', hr, by simpa [hd] using hs⟩
    | false =>
      simp only [hd] at h
      have hfil : ((i, o) :: rest).filter (fun p => !p.2.meta.disabled)
          = (i, o) :: rest.filter (fun p => !p.2.meta.disabled) := by
        simp [hd]
      rw [hfil]
      cases hfind : seen.find? (·.1 == o.name) with
      | none =>
        simp only [hfind] at h
        obtain ⟨r', hr, hs⟩ := ih _ _ r h
        refine ⟨(i, o) :: r', ?_, hs.cons_cons _⟩
        simpa using hr
      | some pm =>
        obtain ⟨nm, master⟩ := pm
        simp only [hfind] at h
        cases hm : isMultiple master with
        | true =>
          simp only [hm, if_true] at h
          obtain ⟨r', hr, hs⟩ := ih _ _ r h
          exact ⟨r', hr, hs.cons _⟩
        | false =>
          simp only [hm] at h
          cases hdf : o.isDefn with
          | true => simp [hdf] at h
          | false =>
            simp only [hdf] at h
            obtain ⟨r', hr, hs⟩ := ih _ _ r h
            refine ⟨(i, o) :: r', ?_, hs.cons_cons _⟩
            simpa using hr

/-- the indexed list `masterActiveObjects` selects from -/
def indexed (objs : List Obj) : List (Nat × Obj) := objs.zipIdx.map (fun (o, i) => (i, o))

theorem masterActive_sublist (objs : List Obj) (l : List (Nat × Obj))
    (h : masterActiveObjects objs = .ok l) :
    l.Sublist ((indexed objs).filter (fun p => !p.2.meta.disabled)) := by
  unfold masterActiveObjects at h
  obtain ⟨r', hr, hs⟩ := masterActive_go_sublist _ _ _ _ h
  simp only [List.reverse_nil, List.nil_append] at hr
  subst hr
  exact hs

theorem mem_indexed {objs : List Obj} {i : Nat} {o : Obj} : (i, o) ∈ indexed objs ↔ objs[i]? = some o := by
  unfold indexed
  rw [List.mem_map]
  constructor
  · rintro ⟨⟨o', i'⟩, hm, heq⟩
    cases heq
    exact List.mk_mem_zipIdx_iff_getElem?.mp hm
  · intro h
    exact ⟨(o, i), List.mk_mem_zipIdx_iff_getElem?.mpr h, rfl⟩

theorem zipIdx_pairwise {α : Type} : ∀ (l : List α) (k : Nat),
    (l.zipIdx k).Pairwise (fun a b => a.2 < b.2) := by
  intro l
  induction l with
  | nil => intro k; simp
  | cons a l ih =>
    intro k
    rw [List.zipIdx_cons, List.pairwise_cons]
    refine ⟨?_, ih (k + 1)⟩
    intro b hb
    have := List.le_snd_of_mem_zipIdx hb
    simp only
    omega

theorem indexed_pairwise (objs : List Obj) : (indexed objs).Pairwise (fun a b => a.1 < b.1) := by
  unfold indexed
  rw [List.pairwise_map]
  exact zipIdx_pairwise objs 0

/-- **C04.1** -/
theorem masterActive_sound (objs : List Obj) (l : List (Nat × Obj))
    (h : masterActiveObjects objs = .ok l) :
    (∀ i o, (i, o) ∈ l → objs[i]? = some o ∧ o.meta.disabled = false) ∧
    l.Pairwise (fun a b => a.1 < b.1) := by
  have hs := masterActive_sublist objs l h
  constructor
  · intro i o hm
    have := hs.subset hm
    rw [List.mem_filter] at this
    exact ⟨mem_indexed.mp this.1, by simpa using this.2⟩
  · exact ((indexed_pairwise objs).sublist (List.filter_sublist)).sublist hs

/-! ## 3. shape of a fetch result (C04.2) -/

/-- `o` carries the declaration of `mo`: same kind and the same meta data up to the template mark -/
def SameDecl (mo o : Obj) : Prop :=
  o.isDefn = mo.isDefn ∧ { o.meta with tmpl := 0 } = { mo.meta with tmpl := 0 }

theorem SameDecl.refl (mo : Obj) : SameDecl mo mo := ⟨rfl, rfl⟩

theorem SameDecl.withTmpl (mo : Obj) (t : Int) : SameDecl mo (withTmpl mo t) := by
  cases mo <;> exact ⟨rfl, rfl⟩

theorem SameDecl.name {mo o : Obj} (h : SameDecl mo o) : o.name = mo.name := by
  have := congrArg Meta.name h.2
  exact this

theorem SameDecl.attrs {mo o : Obj} (h : SameDecl mo o) : o.meta.attrs = mo.meta.attrs :=
  by have := congrArg Meta.attrs h.2; exact this

theorem SameDecl.disabled {mo o : Obj} (h : SameDecl mo o) : o.meta.disabled = mo.meta.disabled :=
  by have := congrArg Meta.disabled h.2; exact this

theorem SameDecl.id {mo o : Obj} (h : SameDecl mo o) : o.meta.id = mo.meta.id :=
  by have := congrArg Meta.id h.2; exact this

/-- the source words `fetch_value` works with: the outcome of `source.resolve_variables` recorded in
    `Meta.varRes`, or the words themselves when nothing was recorded (they must then be `$`-free) -/
def srcWordsR (smeta : Meta) (sws0 : List Word) : R (List Word) :=
  match smeta.varRes with
  | some (.err site line) => .error (.runtime site line)
  | some (.ok rws _) => .ok rws
  | none => if hasDollar sws0 then .error (.unsupported "variable in source") else .ok sws0

/-- `fetch_value` once the (resolved) source words are known -/
def fetchValueW (mm : Meta) (mws sws : List Word) : R (Option Obj) :=
  let dep := (mm.attrs.get "deprecated").truthy
  if dep && ((isPlainNone sws && isPlainNone mws) || (isPlainAuto sws && isPlainAuto mws) ||
             (!isPlainNone sws && !isPlainAuto sws && !isPlainNone mws && !isPlainAuto mws &&
              sws.map (fun (w : Word) => w.value) == mws.map (fun (w : Word) => w.value))) then
    .ok none
  else
    match mm.attrs.get "type" with
    | .conv (.choice _) =>
      (choiceFetch mws (mm.attrs.get "optional") sws false).map (fun ws => some (.defn { mm with tmpl := 0 } ws))
    | _ => .ok (some (.defn { mm with tmpl := 0 } sws))

theorem fetchValue_defn (mm : Meta) (mws : List Word) (smeta : Meta) (sws0 : List Word) :
    fetchValue (.defn mm mws) (.defn smeta sws0) =
      match srcWordsR smeta sws0 with
      | .error err => .error err
      | .ok sws => fetchValueW mm mws sws := rfl

theorem fetchValueW_shape (mm : Meta) (mws sws : List Word) (ro : Obj)
    (h : fetchValueW mm mws sws = .ok (some ro)) : ∃ ws, ro = .defn { mm with tmpl := 0 } ws := by
  simp only [fetchValueW] at h
  split at h
  · cases h
  · split at h
    · obtain ⟨ws, _, hw⟩ := except_map_ok h
      cases hw
      exact ⟨ws, rfl⟩
    · cases h
      exact ⟨sws, rfl⟩

theorem fetchValue_shape (mo ms ro : Obj) (h : fetchValue mo ms = .ok (some ro)) :
    ∃ mm mws ws, mo = .defn mm mws ∧ ro = .defn { mm with tmpl := 0 } ws := by
  cases mo with
  | scope m k => cases ms <;> cases h
  | defn mm mws =>
    cases ms with
    | scope m k => cases h
    | defn sm sws =>
      rw [fetchValue_defn] at h
      split at h
      · cases h
      · obtain ⟨ws, hw⟩ := fetchValueW_shape mm mws _ ro h
        exact ⟨mm, mws, ws, rfl, hw⟩

theorem fetchDefn_shape (e : Envs) (fuel : Nat) (diff : Bool) (mo ms ro : Obj)
    (h : fetchDefn e fuel diff mo ms = .ok (some ro)) :
    ∃ mm mws ws, mo = .defn mm mws ∧ ro = .defn { mm with tmpl := 0 } ws := by
  unfold fetchDefn at h
  split at h
  · cases h
  · rename_i r hv
    split at h
    · cases h
      exact fetchValue_shape mo ms ro hv
    · simp only at h
      split at h
      · cases h
      · cases h
      · split at h
        · cases h
        · cases h
          exact fetchValue_shape mo ms ro hv

theorem fetchDefn_sameDecl (e : Envs) (fuel : Nat) (diff : Bool) (mo ms ro : Obj)
    (h : fetchDefn e fuel diff mo ms = .ok (some ro)) : SameDecl mo ro := by
  obtain ⟨mm, mws, ws, rfl, rfl⟩ := fetchDefn_shape e fuel diff mo ms ro h
  exact ⟨rfl, rfl⟩

/-- what the shape proof needs from the recursive callee -/
def RootShape (F : FetchFn) : Prop :=
  ∀ diff mm kids src ro u, F diff mm kids src = .ok (ro, u) → ∃ out, ro = .scope { mm with tmpl := 0 } out

theorem fetchFinish_ok {sm : Meta} {x : R (List Obj × List Nat)} {ro : Obj} {u : List Nat}
    (h : fetchFinish sm x = .ok (ro, u)) : ∃ out, x = .ok (out, u) ∧ ro = .scope { sm with tmpl := 0 } out := by
  unfold fetchFinish at h
  split at h
  · cases h
  · cases h
    exact ⟨_, rfl, rfl⟩

theorem fetchScope_rootShape (e : Envs) (fuel : Nat) : RootShape (fetchScope e fuel) := by
  intro diff mm kids src ro u h
  cases fuel with
  | zero => cases h
  | succ fuel =>
    rw [fetchScope_succ] at h
    split at h
    · cases h
    · obtain ⟨out, _, hro⟩ := fetchFinish_ok h
      exact ⟨out, hro⟩

/-- what a predicate `P mo o` ("`o` is an admissible result object for the master child `mo`") must
    satisfy for the shape proofs (for a given mode `diff`) -/
structure ShapePred (F : FetchFn) (diff : Bool) (P : Obj → Obj → Prop) : Prop where
  self : diff = false → ∀ mm mws, P (.defn mm mws) (.defn mm mws)
  tmpl : diff = false → ∀ mo t, P mo (withTmpl mo t)
  defn : ∀ mm mws ws, P (.defn mm mws) (.defn { mm with tmpl := 0 } ws)
  recur : ∀ mm kids src ro u, F diff mm kids src = .ok (ro, u) → (diff && ro.children.isEmpty) = false →
    P (.scope mm kids) ro
  /-- the default instance of a mandatory `.multiple` scope: the scope's own fetch -/
  inst : diff = false → ∀ mm kids ro u, F false mm kids [] = .ok (ro, u) → P (.scope mm kids) (withTmpl ro 0)

theorem defnOne_fold_pred (F : FetchFn) (P : Obj → Obj → Prop) (e : Envs) (fuel : Nat) (diff : Bool) (hP : ShapePred F diff P) (mo : Obj) (l : List Obj)
    (used : List Nat) (r : Option Obj × List Nat)
    (h : l.foldlM (defnOne e fuel diff mo) (none, used) = .ok r) :
    ∀ ro, r.1 = some ro → P mo ro := by
  refine foldlM_inv (fun (acc : Option Obj × List Nat) => ∀ ro, acc.1 = some ro → P mo ro)
    (defnOne e fuel diff mo) l ?_ (none, used) r (by intro ro h; cases h) h
  intro b a b' _ _ hf ro hro
  unfold defnOne at hf
  obtain ⟨x, hx, hb⟩ := except_map_ok hf
  subst hb
  simp only at hro
  subst hro
  obtain ⟨mm, mws, ws, rfl, rfl⟩ := fetchDefn_shape e fuel diff mo a ro hx
  exact hP.defn mm mws ws

theorem candOf_pred (F : FetchFn) (P : Obj → Obj → Prop) (e : Envs) (fuel : Nat) (diff : Bool) (hP : ShapePred F diff P) (mo : Obj)
    (fromM : Bool) (ms c : Obj) (u : List Nat)
    (h : candOf F e fuel diff mo fromM ms = .ok (some c, u)) : P mo c := by
  unfold candOf at h
  split at h
  · obtain ⟨x, hx, hb⟩ := except_map_ok h
    cases hb
    obtain ⟨mm, mws, ws, heq, rfl⟩ := fetchDefn_shape e fuel diff _ ms c hx
    cases heq
    exact hP.defn _ _ ws
  · rename_i mm kids _ skids
    obtain ⟨⟨ro, u'⟩, hx, hb⟩ := except_map_ok h
    simp only [Prod.mk.injEq] at hb
    obtain ⟨hb1, _⟩ := hb
    split at hb1
    · cases hb1
    · rename_i hne
      cases hb1
      exact hP.recur _ _ _ _ _ hx (by simpa using hne)
  · cases h

theorem cAccept_shape (diff fromM : Bool) (cs : Str) (c : Obj) (u : List Nat)
    (robjs : List (Option Obj)) (processed : List (Str × Int)) (used : List Nat) (r : CAcc)
    (P : Obj → Prop) (hc : P c) (hr : ∀ x, some x ∈ robjs → P x)
    (h : cAccept diff fromM cs c u robjs processed used = .ok r) : ∀ x, some x ∈ r.1 → P x := by
  unfold cAccept at h
  have hmap : ∀ (p : Str × Int) x, some x ∈ robjs.zipIdx.map
      (fun (xi : Option Obj × Nat) => if (xi.2 : Int) == p.2 then none else xi.1) → P x := by
    intro p x hx
    rw [List.mem_map] at hx
    obtain ⟨⟨y, j⟩, hm, hy⟩ := hx
    simp only at hy
    split at hy
    · cases hy
    · subst hy
      exact hr x (List.fst_mem_of_mem_zipIdx hm)
  have happ : ∀ (l : List (Option Obj)), (∀ x, some x ∈ l → P x) → ∀ x, some x ∈ l ++ [some c] → P x := by
    intro l hl x hx
    simp only [List.mem_append, List.mem_singleton, Option.some.injEq] at hx
    rcases hx with hx | hx
    · exact hl x hx
    · subst hx; exact hc
  simp only at h
  cases hprev : processed.find? (fun (p : Str × Int) => p.1 == cs) with
  | none =>
    simp only [hprev, Bool.false_eq_true, if_false] at h
    split at h
    · cases h; exact hr
    · cases h; exact happ _ hr
  | some p =>
    simp only [hprev] at h
    split at h
    · cases h; exact hr
    · split at h
      · cases h; exact hmap p
      · cases h; exact happ _ (hmap p)

theorem cstepG_pred (F : FetchFn) (P : Obj → Obj → Prop) (e : Envs) (fuel : Nat) (diff : Bool) (hP : ShapePred F diff P) (mo : Obj)
    (masterStr : Str) (acc : CAcc) (fm : Bool × Obj) (r : CAcc)
    (hr : ∀ x, some x ∈ acc.1 → P mo x)
    (h : cstepG F e fuel diff mo masterStr acc fm = .ok r) : ∀ x, some x ∈ r.1 → P mo x := by
  unfold cstepG at h
  split at h
  · cases h
  · split at h <;> (cases h; exact hr)
  · rename_i c u hc
    split at h
    · cases h
    · split at h
      · cases h; exact hr
      · exact cAccept_shape _ _ _ _ _ _ _ _ _ _ (candOf_pred F P e fuel diff hP mo _ _ c u hc) hr h

theorem defaultInstOf_pred (F : FetchFn) (P : Obj → Obj → Prop) (diff : Bool) (hP : ShapePred F diff P)
    (hd : diff = false) (mo : Obj) : P mo (defaultInstOf mo (selfFetchOf F mo)) := by
  cases mo with
  | defn mm mws => exact hP.tmpl hd (.defn mm mws) 0
  | scope mm kids =>
    show P _ (defaultInstOf (.scope mm kids) (F false mm kids []))
    cases h : F false mm kids [] with
    | error err => exact hP.tmpl hd (.scope mm kids) 0
    | ok p =>
      obtain ⟨ro, u⟩ := p
      exact hP.inst hd mm kids ro u h

theorem multiBranch_pred (F : FetchFn) (P : Obj → Obj → Prop) (e : Envs) (fuel : Nat) (diff : Bool) (hP : ShapePred F diff P)
    (mkids : List Obj) (idx : Nat) (mo : Obj) (matching out : List Obj) (used : List Nat)
    (r : List Obj × List Nat)
    (h : multiBranch F e fuel diff mkids idx mo matching out used = .ok r) :
    ∃ new, r.1 = out ++ new ∧ ∀ o ∈ new, P mo o := by
  unfold multiBranch at h
  split at h
  · cases h
  · rename_i masterStr _
    split at h
    · cases h
    · rename_i robjs processed used' hfold
      cases h
      refine ⟨tmplObjsOf diff mo processed (selfFetchOf F mo) ++ robjs.filterMap (fun x => x), by simp, ?_⟩
      intro o ho
      rw [List.mem_append] at ho
      rcases ho with ho | ho
      · unfold tmplObjsOf at ho
        split at ho
        · cases ho
        · rename_i hd
          have hd' : diff = false := by simpa using hd
          split at ho
          · simp only [List.mem_singleton] at ho
            subst ho
            exact defaultInstOf_pred F P diff hP hd' mo
          · simp only [List.mem_singleton] at ho
            subst ho
            exact hP.tmpl hd' mo _
      · rw [List.mem_filterMap] at ho
        obtain ⟨x, hx, hxo⟩ := ho
        subst hxo
        exact foldlM_inv (fun (acc : CAcc) => ∀ x, some x ∈ acc.1 → P mo x)
          (cstepG F e fuel diff mo masterStr) _
          (fun b a b' _ hb hf => cstepG_pred F P e fuel diff hP mo masterStr b a b' hb hf)
          _ _ (by intro x hx; cases hx) hfold o hx

/-- one step of the master loop only appends objects carrying the declaration of the current master
    child -/
theorem stepG_pred (F : FetchFn) (P : Obj → Obj → Prop) (e : Envs) (fuel : Nat) (diff : Bool) (hP : ShapePred F diff P) (sm : Meta)
    (mkids combined : List Obj) (st : List Obj × List Nat) (io : Nat × Obj) (r : List Obj × List Nat)
    (h : stepG F e fuel diff sm mkids combined st io = .ok r) :
    ∃ new, r.1 = st.1 ++ new ∧ ∀ o ∈ new, P io.2 o := by
  unfold stepG at h
  split at h
  · split at h
    · rename_i mm mws hio
      unfold defnFinish at h
      split at h
      · cases h
      · rename_i ro used' hfold
        cases h
        refine ⟨[ro], rfl, ?_⟩
        intro o ho
        simp only [List.mem_singleton] at ho
        subst ho
        exact defnOne_fold_pred F P e fuel diff hP _ _ _ _ hfold o rfl
      · split at h
        · rename_i hcond
          cases h
          refine ⟨[io.2], rfl, ?_⟩
          intro o ho
          simp only [List.mem_singleton] at ho
          subst ho
          rw [hio]
          simp only [Bool.and_eq_true, Bool.not_eq_true'] at hcond
          exact hP.self hcond.1 mm mws
        · cases h
          exact ⟨[], by simp, by simp⟩
    · rename_i mm kids hio
      unfold scopeBranch at h
      split at h
      · cases h
      · split at h
        · cases h
        · rename_i ro u2 hrec
          split at h
          · cases h
            exact ⟨[], by simp, by simp⟩
          · rename_i hne
            cases h
            refine ⟨[_], rfl, ?_⟩
            intro o ho
            simp only [List.mem_singleton] at ho
            subst ho
            rw [hio]
            exact hP.recur _ _ _ _ _ hrec (by simpa using hne)
  · exact multiBranch_pred F P e fuel diff hP mkids io.1 io.2 _ st.1 st.2 r h

theorem sameDecl_shapePred (F : FetchFn) (hF : RootShape F) (diff : Bool) : ShapePred F diff SameDecl where
  self := fun _ mm mws => SameDecl.refl _
  tmpl := fun _ => SameDecl.withTmpl
  defn := fun _ _ _ => ⟨rfl, rfl⟩
  recur := by
    intro mm kids src ro u h _
    obtain ⟨out, rfl⟩ := hF _ _ _ _ _ _ h
    exact ⟨rfl, rfl⟩
  inst := by
    intro _ mm kids ro u h
    obtain ⟨out, rfl⟩ := hF _ _ _ _ _ _ h
    exact ⟨rfl, rfl⟩

/-- one step of the master loop only appends objects carrying the declaration of the current master
    child -/
theorem stepG_shape (F : FetchFn) (hF : RootShape F) (e : Envs) (fuel : Nat) (diff : Bool) (sm : Meta)
    (mkids combined : List Obj) (st : List Obj × List Nat) (io : Nat × Obj) (r : List Obj × List Nat)
    (h : stepG F e fuel diff sm mkids combined st io = .ok r) :
    ∃ new, r.1 = st.1 ++ new ∧ ∀ o ∈ new, SameDecl io.2 o :=
  stepG_pred F SameDecl e fuel diff (sameDecl_shapePred F hF diff) sm mkids combined st io r h

/-- a copy of an active master child -/
def FromMaster (mkids : List Obj) (o : Obj) : Prop :=
  ∃ (i : Nat) (mo : Obj), mkids[i]? = some mo ∧ mo.meta.disabled = false ∧ SameDecl mo o

/-- **C04.2** -/
theorem fetch_shape (e : Envs) (fuel : Nat) (diff : Bool) (sm : Meta) (mkids combined : List Obj)
    (ro : Obj) (used : List Nat)
    (h : fetchScope e fuel diff sm mkids combined = .ok (ro, used)) :
    ∃ out, ro = .scope { sm with tmpl := 0 } out ∧ ∀ o ∈ out, FromMaster mkids o := by
  cases fuel with
  | zero => cases h
  | succ fuel =>
    rw [fetchScope_succ] at h
    split at h
    · cases h
    · rename_i actives hact
      obtain ⟨out, hfold, hro⟩ := fetchFinish_ok h
      refine ⟨out, hro, ?_⟩
      have hsound := (masterActive_sound mkids actives hact).1
      exact foldlM_inv (fun (st : List Obj × List Nat) => ∀ o ∈ st.1, FromMaster mkids o)
        (stepG (fetchScope e fuel) e fuel diff sm mkids combined) actives
        (by
          intro b a b' ha hb hf o ho
          obtain ⟨new, hnew, hall⟩ := stepG_shape _ (fetchScope_rootShape e fuel) e fuel diff sm mkids
            combined b a b' hf
          rw [hnew, List.mem_append] at ho
          rcases ho with ho | ho
          · exact hb o ho
          · obtain ⟨hget, hdis⟩ := hsound a.1 a.2 ha
            exact ⟨a.1, a.2, hget, hdis, hall o ho⟩)
        _ _ (by intro o ho; cases ho) hfold

/-- generic form of `fetch_shape` for any admissible predicate -/
theorem fetch_shape_pred (e : Envs) (fuel : Nat) (P : Obj → Obj → Prop)
    (diff : Bool) (hP : ShapePred (fetchScope e fuel) diff P) (sm : Meta) (mkids combined : List Obj)
    (ro : Obj) (used : List Nat)
    (h : fetchScope e (fuel + 1) diff sm mkids combined = .ok (ro, used)) :
    ∃ out, ro = .scope { sm with tmpl := 0 } out ∧
      ∀ o ∈ out, ∃ (i : Nat) (mo : Obj), mkids[i]? = some mo ∧ mo.meta.disabled = false ∧ P mo o := by
  rw [fetchScope_succ] at h
  split at h
  · cases h
  · rename_i actives hact
    obtain ⟨out, hfold, hro⟩ := fetchFinish_ok h
    refine ⟨out, hro, ?_⟩
    have hsound := (masterActive_sound mkids actives hact).1
    exact foldlM_inv (fun (st : List Obj × List Nat) => ∀ o ∈ st.1,
        ∃ (i : Nat) (mo : Obj), mkids[i]? = some mo ∧ mo.meta.disabled = false ∧ P mo o)
      (stepG (fetchScope e fuel) e fuel diff sm mkids combined) actives
      (by
        intro b a b' ha hb hf o ho
        obtain ⟨new, hnew, hall⟩ := stepG_pred _ P e fuel diff hP sm mkids combined b a b' hf
        rw [hnew, List.mem_append] at ho
        rcases ho with ho | ho
        · exact hb o ho
        · obtain ⟨hget, hdis⟩ := hsound a.1 a.2 ha
          exact ⟨a.1, a.2, hget, hdis, hall o ho⟩)
      _ _ (by intro o ho; cases ho) hfold

/-! ### the deep version: conformance at every depth -/

mutual
/-- `ConfObj mo o`: the result object `o` conforms to the master object `mo` at every depth: it is a
    copy of `mo` (up to the template mark), or `mo`'s definition with other words, or `mo`'s scope
    whose children conform to `mo`'s children -/
inductive ConfObj : Obj → Obj → Prop
  | copy (mo : Obj) (t : Int) : ConfObj mo (withTmpl mo t)
  | defn (mm : Meta) (mws ws : List Word) : ConfObj (.defn mm mws) (.defn { mm with tmpl := 0 } ws)
  | scope (mm : Meta) (kids out : List Obj) :
      ConfList kids out → ConfObj (.scope mm kids) (.scope { mm with tmpl := 0 } out)
/-- every object of the result list conforms to some enabled master child -/
inductive ConfList : List Obj → List Obj → Prop
  | nil (mkids : List Obj) : ConfList mkids []
  | cons (mkids : List Obj) (o : Obj) (out : List Obj) (i : Nat) (mo : Obj) :
      mkids[i]? = some mo → mo.meta.disabled = false → ConfObj mo o → ConfList mkids out →
      ConfList mkids (o :: out)
end

theorem withTmpl_self (mo : Obj) : withTmpl mo mo.meta.tmpl = mo := by
  cases mo <;> rfl

theorem ConfList.of_forall (mkids : List Obj) : ∀ (out : List Obj),
    (∀ o ∈ out, ∃ (i : Nat) (mo : Obj), mkids[i]? = some mo ∧ mo.meta.disabled = false ∧ ConfObj mo o) →
    ConfList mkids out := by
  intro out
  induction out with
  | nil => intro _; exact .nil mkids
  | cons o out ih =>
    intro h
    obtain ⟨i, mo, hget, hdis, hc⟩ := h o List.mem_cons_self
    exact .cons mkids o out i mo hget hdis hc (ih (fun o' ho' => h o' (List.mem_cons_of_mem _ ho')))

theorem ConfList.forall {mkids out : List Obj} (h : ConfList mkids out) :
    ∀ o ∈ out, ∃ (i : Nat) (mo : Obj), mkids[i]? = some mo ∧ mo.meta.disabled = false ∧ ConfObj mo o := by
  intro o ho
  induction out with
  | nil => cases ho
  | cons a out ih =>
    cases h with
    | cons _ _ _ i mo hget hdis hc htail =>
      rw [List.mem_cons] at ho
      rcases ho with ho | ho
      · subst ho; exact ⟨i, mo, hget, hdis, hc⟩
      · exact ih htail ho

theorem ConfObj.sameDecl {mo o : Obj} (h : ConfObj mo o) : SameDecl mo o := by
  cases h with
  | copy _ t => exact SameDecl.withTmpl mo t
  | defn mm mws ws => exact ⟨rfl, rfl⟩
  | scope mm kids out _ => exact ⟨rfl, rfl⟩

/-- **C04.2, deep form.**  A fetch result conforms to the master scope at every depth. -/
theorem fetch_conforms (e : Envs) : ∀ (fuel : Nat) (diff : Bool) (sm : Meta) (mkids combined : List Obj)
    (ro : Obj) (used : List Nat), fetchScope e fuel diff sm mkids combined = .ok (ro, used) →
    ConfObj (.scope sm mkids) ro := by
  intro fuel
  induction fuel with
  | zero => intro diff sm mkids combined ro used h; cases h
  | succ fuel ih =>
    intro diff sm mkids combined ro used h
    have hP : ShapePred (fetchScope e fuel) diff ConfObj :=
      { self := fun _ mm mws => by
          exact ConfObj.copy (.defn mm mws) mm.tmpl
        tmpl := fun _ => ConfObj.copy
        defn := ConfObj.defn
        recur := fun mm kids src ro u h _ => ih diff mm kids src ro u h
        inst := fun _ mm kids ro u h => by
          have hc := ih false mm kids [] ro u h
          obtain ⟨out, rfl⟩ := fetchScope_rootShape e fuel _ _ _ _ _ _ h
          exact hc }
    obtain ⟨out, rfl, hall⟩ := fetch_shape_pred e fuel ConfObj diff hP sm mkids combined ro used h
    exact .scope sm mkids out (ConfList.of_forall mkids out hall)

/-! ## 4. splitting sources (C05.5) -/

theorem fetchRoot_flatten (e : Envs) (diff : Bool) (master : List Obj) (ss ss' : List (List Obj))
    (h : ss.flatten = ss'.flatten) : fetchRoot e diff master ss = fetchRoot e diff master ss' := by
  unfold fetchRoot
  rw [h]

theorem split_law (e : Envs) (diff : Bool) (master s1 s2 : List Obj) :
    fetchRoot e diff master [s1 ++ s2] = fetchRoot e diff master [s1, s2] :=
  fetchRoot_flatten e diff master _ _ (by simp)

/-! ## 5. consumed ids are ids of active source definitions, or were consulted while resolving the
    variables of one (C06.7) -/

/-- `x` occurs in `l`, at any depth, enabled and below enabled scopes only -/
inductive ActiveIn (x : Obj) : List Obj → Prop
  | here {l : List Obj} : x ∈ l → x.meta.disabled = false → ActiveIn x l
  | deeper {l : List Obj} {m : Meta} {kids : List Obj} :
      Obj.scope m kids ∈ l → m.disabled = false → ActiveIn x kids → ActiveIn x l

theorem ActiveIn.enabled {x : Obj} {l : List Obj} (h : ActiveIn x l) : x.meta.disabled = false := by
  induction h with
  | here _ hd => exact hd
  | deeper _ _ _ ih => exact ih

theorem ActiveIn.mono {x : Obj} {l l' : List Obj} (hsub : ∀ y ∈ l, y ∈ l') (h : ActiveIn x l) :
    ActiveIn x l' := by
  cases h with
  | here hm hd => exact .here (hsub _ hm) hd
  | deeper hm hd hk => exact .deeper (hsub _ hm) hd hk

theorem ActiveIn.trans {d : Obj} {m : Meta} {kids l : List Obj} (h : ActiveIn (.scope m kids) l)
    (hd : ActiveIn d kids) : ActiveIn d l := by
  induction h with
  | here hm hdis => exact .deeper hm hdis hd
  | deeper hm hdis _ ih => exact .deeper hm hdis ih

theorem ActiveIn.children {d x : Obj} {l : List Obj} (h : ActiveIn x l) (hd : ActiveIn d x.children) :
    ActiveIn d l := by
  cases x with
  | defn m ws => cases hd with
    | here hm _ => cases hm
    | deeper hm _ _ => cases hm
  | scope m kids => exact h.trans hd

theorem getWithoutSubst_activeIn : ∀ (fuel : Nat) (o : Obj) (path : Str) (x : Obj),
    x ∈ getWithoutSubst fuel o path → x.meta.disabled = false → ActiveIn x [o] := by
  intro fuel
  induction fuel with
  | zero => intro o path x hx; simp [getWithoutSubst] at hx
  | succ fuel ih =>
    intro o path x hx hxd
    unfold getWithoutSubst at hx
    cases hod : o.meta.disabled with
    | true => simp [hod] at hx
    | false =>
      simp only [hod, Bool.false_eq_true, if_false] at hx
      have hflat : ∀ (kids : List Obj) (m : Meta) (p : Str), o = .scope m kids →
          x ∈ (kids.filter (fun k => !k.meta.disabled)).flatMap (fun k => getWithoutSubst fuel k p) →
          ActiveIn x [o] := by
        intro kids m p ho hx
        rw [List.mem_flatMap] at hx
        obtain ⟨k, hk, hxk⟩ := hx
        rw [List.mem_filter] at hk
        have h1 : ActiveIn x [k] := ih k p x hxk hxd
        have h2 : ActiveIn x kids := h1.mono (by intro y hy; simp at hy; subst hy; exact hk.1)
        subst ho
        exact .deeper (List.mem_singleton.mpr rfl) hod h2
      cases o with
      | defn m ws =>
        simp only at hx
        split at hx
        · simp only [List.mem_singleton] at hx
          subst hx
          exact .here (List.mem_singleton.mpr rfl) hxd
        · cases hx
      | scope m kids =>
        simp only at hx
        split at hx
        · split at hx
          · exact .deeper (List.mem_singleton.mpr rfl) hod (.here hx hxd)
          · exact hflat kids m _ rfl hx
        · split at hx
          · simp only [List.mem_singleton] at hx
            subst hx
            exact .here (List.mem_singleton.mpr rfl) hxd
          · split at hx
            · exact hflat kids m _ rfl hx
            · cases hx

theorem str_ne_append_cons (a b : Str) (c : Char) : (a == a ++ c :: b) = false := by
  rw [beq_eq_false_iff_ne]
  intro h
  have := congrArg List.length h
  simp at this

theorem getWithoutSubst_scope (fuel : Nat) (m : Meta) (kids : List Obj) (path : Str) :
    getWithoutSubst (fuel + 1) (.scope m kids) path =
      if m.disabled then [] else
      if m.name.isEmpty then
        (if path.isEmpty then kids
         else (kids.filter (fun k => !k.meta.disabled)).flatMap (fun k => getWithoutSubst fuel k path))
      else if m.name == path then [.scope m kids]
      else if startsWith (m.name ++ ['.']) path then
        (kids.filter (fun k => !k.meta.disabled)).flatMap
          (fun k => getWithoutSubst fuel k (path.drop (m.name.length + 1)))
      else [] := rfl

theorem getWithoutSubst_defn (fuel : Nat) (m : Meta) (ws : List Word) (path : Str) :
    getWithoutSubst (fuel + 1) (.defn m ws) path =
      if m.disabled then [] else if m.name == path then [.defn m ws] else [] := rfl

theorem fetchPath_ne (sm : Meta) (mo : Obj) (hn : sm.name.isEmpty = false) :
    (sm.name == fetchPath sm mo) = false := by
  unfold fetchPath
  simp only [hn, Bool.false_eq_true, if_false]
  exact str_ne_append_cons _ _ _

theorem fetchMatching_activeIn (fuel : Nat) (sm : Meta) (combined : List Obj) (mo x : Obj)
    (hx : x ∈ fetchMatching fuel sm combined mo) : ActiveIn x combined := by
  unfold fetchMatching at hx
  rw [List.mem_filter] at hx
  obtain ⟨hx, hxd⟩ := hx
  have hxd : x.meta.disabled = false := by simpa using hxd
  have hflat : ∀ (p : Str),
      x ∈ (combined.filter (fun k => !k.meta.disabled)).flatMap (fun k => getWithoutSubst (fuel + 63) k p) →
      ActiveIn x combined := by
    intro p hx
    rw [List.mem_flatMap] at hx
    obtain ⟨k, hk, hxk⟩ := hx
    rw [List.mem_filter] at hk
    exact (getWithoutSubst_activeIn _ k p x hxk hxd).mono
      (by intro y hy; simp at hy; subst hy; exact hk.1)
  rw [show fuel + 64 = (fuel + 63) + 1 from rfl, getWithoutSubst_scope] at hx
  split at hx
  · cases hx
  · split at hx
    · split at hx
      · exact .here hx hxd
      · exact hflat _ hx
    · rename_i hn
      have hn : sm.name.isEmpty = false := by simpa using hn
      rw [fetchPath_ne sm mo hn] at hx
      simp only [Bool.false_eq_true, if_false] at hx
      split at hx
      · exact hflat _ hx
      · cases hx

/-- `i` is the id of an enabled definition occurring in `l` below enabled scopes -/
def DefnIdActive (i : Nat) (l : List Obj) : Prop :=
  ∃ d, ActiveIn d l ∧ d.isDefn = true ∧ d.meta.id = some i

/-- `i` was consulted while resolving the variables of an enabled definition occurring in `l` below
    enabled scopes (`srcRefs d` = the `refs` of `d.meta.varRes`) -/
def RefIdActive (i : Nat) (l : List Obj) : Prop :=
  ∃ d, ActiveIn d l ∧ d.isDefn = true ∧ i ∈ srcRefs d

/-- `i` is marked on account of the definition `d`: it is `d`'s own id, or the id of a definition
    consulted while resolving the variables of `d` -/
def MarkedBy (i : Nat) (d : Obj) : Prop := d.meta.id = some i ∨ i ∈ srcRefs d

/-- `i` is marked on account of an enabled definition occurring in `l` below enabled scopes -/
def UsedIdActive (i : Nat) (l : List Obj) : Prop :=
  ∃ d, ActiveIn d l ∧ d.isDefn = true ∧ MarkedBy i d

theorem usedIdActive_iff (i : Nat) (l : List Obj) :
    UsedIdActive i l ↔ DefnIdActive i l ∨ RefIdActive i l := by
  constructor
  · rintro ⟨d, ha, hd, hi | hi⟩
    · exact .inl ⟨d, ha, hd, hi⟩
    · exact .inr ⟨d, ha, hd, hi⟩
  · rintro (⟨d, ha, hd, hi⟩ | ⟨d, ha, hd, hi⟩)
    · exact ⟨d, ha, hd, .inl hi⟩
    · exact ⟨d, ha, hd, .inr hi⟩

/-- definitions without a recorded variable resolution contribute their own id only -/
theorem srcRefs_of_varRes_none (d : Obj) (h : d.meta.varRes = none) : srcRefs d = [] := by
  unfold srcRefs; rw [h]

def UsedOK (F : FetchFn) : Prop :=
  ∀ diff mm kids src ro u, F diff mm kids src = .ok (ro, u) → ∀ i ∈ u, UsedIdActive i src

theorem fetchValue_src_defn (mo ms : Obj) (r : Option Obj) (h : fetchValue mo ms = .ok r) :
    mo.isDefn = true ∧ ms.isDefn = true := by
  cases mo with
  | scope m k => cases ms <;> cases h
  | defn mm mws =>
    cases ms with
    | scope m k => cases h
    | defn sm sws => exact ⟨rfl, rfl⟩

theorem fetchDefn_src_defn (e : Envs) (fuel : Nat) (diff : Bool) (mo ms : Obj) (r : Option Obj)
    (h : fetchDefn e fuel diff mo ms = .ok r) : mo.isDefn = true ∧ ms.isDefn = true := by
  unfold fetchDefn at h
  split at h
  · cases h
  · rename_i r' hv
    exact fetchValue_src_defn mo ms r' hv

theorem mem_idOf {ms : Obj} {i : Nat} (h : i ∈ idOf ms) : ms.meta.id = some i := by
  unfold idOf at h
  split at h
  · simp only [List.mem_singleton] at h
    subst h
    assumption
  · cases h

theorem defnOne_fold_used (e : Envs) (fuel : Nat) (diff : Bool) (mo : Obj) (l : List Obj)
    (P : Nat → Prop) (hl : ∀ ms ∈ l, ms.isDefn = true → ∀ i, MarkedBy i ms → P i)
    (init r : Option Obj × List Nat) (hu : ∀ i ∈ init.2, P i)
    (h : l.foldlM (defnOne e fuel diff mo) init = .ok r) : ∀ i ∈ r.2, P i := by
  refine foldlM_inv (fun (acc : Option Obj × List Nat) => ∀ i ∈ acc.2, P i)
    (defnOne e fuel diff mo) l ?_ init r hu h
  intro b a b' ha hb hf i hi
  unfold defnOne at hf
  obtain ⟨x, hx, hb'⟩ := except_map_ok hf
  subst hb'
  simp only [List.mem_append] at hi
  rcases hi with (hi | hi) | hi
  · exact hb i hi
  · exact hl a ha (fetchDefn_src_defn e fuel diff mo a x hx).2 i (.inl (mem_idOf hi))
  · exact hl a ha (fetchDefn_src_defn e fuel diff mo a x hx).2 i (.inr hi)

theorem candOf_used (F : FetchFn) (hF : UsedOK F) (e : Envs) (fuel : Nat) (diff : Bool) (mo : Obj)
    (fromM : Bool) (ms : Obj) (c : Option Obj) (u : List Nat) (combined : List Obj)
    (hms : fromM = false → ActiveIn ms combined)
    (h : candOf F e fuel diff mo fromM ms = .ok (c, u)) : ∀ i ∈ u, UsedIdActive i combined := by
  cases fromM with
  | true =>
    unfold candOf at h
    split at h
    · obtain ⟨x, hx, hb⟩ := except_map_ok h
      cases hb
      intro i hi
      rw [List.mem_append] at hi
      rcases hi with hi | hi
      · split at hi <;> simp at hi
      · simp at hi
    · obtain ⟨⟨ro, u'⟩, hx, hb⟩ := except_map_ok h
      cases hb
      intro i hi
      simp at hi
    · cases h
  | false =>
    have hact := hms rfl
    unfold candOf at h
    split at h
    · obtain ⟨x, hx, hb⟩ := except_map_ok h
      cases hb
      intro i hi
      rw [List.mem_append] at hi
      rcases hi with hi | hi
      · split at hi
        · rename_i j hj
          simp only [Bool.false_eq_true, if_false, List.mem_singleton] at hi
          subst hi
          exact ⟨ms, hact, (fetchDefn_src_defn e fuel diff _ ms _ hx).2, .inl hj⟩
        · cases hi
      · simp only [Bool.false_eq_true, if_false] at hi
        exact ⟨ms, hact, (fetchDefn_src_defn e fuel diff _ ms _ hx).2, .inr hi⟩
    · obtain ⟨⟨ro, u'⟩, hx, hb⟩ := except_map_ok h
      cases hb
      intro i hi
      simp only [Bool.false_eq_true, if_false] at hi
      obtain ⟨d, hd, hdd, hdi⟩ := hF _ _ _ _ _ _ hx i hi
      exact ⟨d, hact.trans hd, hdd, hdi⟩
    · cases h

theorem cAccept_used (diff fromM : Bool) (cs : Str) (c : Obj) (u : List Nat)
    (robjs : List (Option Obj)) (processed : List (Str × Int)) (used : List Nat) (r : CAcc)
    (h : cAccept diff fromM cs c u robjs processed used = .ok r) : r.2.2 = used ++ u := by
  unfold cAccept at h
  simp only at h
  cases hprev : processed.find? (fun (p : Str × Int) => p.1 == cs) with
  | none =>
    simp only [hprev, Bool.false_eq_true, if_false] at h
    split at h <;> (cases h; rfl)
  | some p =>
    simp only [hprev] at h
    split at h
    · cases h; rfl
    · split at h <;> (cases h; rfl)

theorem cstepG_used (F : FetchFn) (hF : UsedOK F) (e : Envs) (fuel : Nat) (diff : Bool) (mo : Obj)
    (masterStr : Str) (acc : CAcc) (fm : Bool × Obj) (r : CAcc) (combined : List Obj)
    (hfm : fm.1 = false → ActiveIn fm.2 combined)
    (hr : ∀ i ∈ acc.2.2, UsedIdActive i combined)
    (h : cstepG F e fuel diff mo masterStr acc fm = .ok r) : ∀ i ∈ r.2.2, UsedIdActive i combined := by
  have happ : ∀ u, (∀ i ∈ u, UsedIdActive i combined) → ∀ i ∈ acc.2.2 ++ u, UsedIdActive i combined := by
    intro u hu i hi
    rw [List.mem_append] at hi
    rcases hi with hi | hi
    · exact hr i hi
    · exact hu i hi
  unfold cstepG at h
  split at h
  · cases h
  · rename_i u hc
    have hu := candOf_used F hF e fuel diff mo _ _ _ u combined hfm hc
    split at h <;> (cases h; exact happ u hu)
  · rename_i c u hc
    have hu := candOf_used F hF e fuel diff mo _ _ _ u combined hfm hc
    split at h
    · cases h
    · split at h
      · cases h; exact happ u hu
      · rw [cAccept_used _ _ _ _ _ _ _ _ _ h]
        exact happ u hu

theorem stepG_used (F : FetchFn) (hF : UsedOK F) (e : Envs) (fuel : Nat) (diff : Bool) (sm : Meta)
    (mkids combined : List Obj) (st : List Obj × List Nat) (io : Nat × Obj) (r : List Obj × List Nat)
    (hst : ∀ i ∈ st.2, UsedIdActive i combined)
    (h : stepG F e fuel diff sm mkids combined st io = .ok r) : ∀ i ∈ r.2, UsedIdActive i combined := by
  have hmatch := fetchMatching_activeIn fuel sm combined io.2
  unfold stepG at h
  split at h
  · split at h
    · rename_i mm mws hio
      have key : ∀ r', (fetchMatching fuel sm combined io.2).foldlM (defnOne e fuel diff io.2) (none, st.2) = .ok r' →
          ∀ i ∈ r'.2, UsedIdActive i combined := by
        intro r' hfold
        exact defnOne_fold_used e fuel diff io.2 _ (fun i => UsedIdActive i combined)
          (fun ms hms hd i hi => ⟨ms, hmatch ms hms, hd, hi⟩) _ r' hst hfold
      unfold defnFinish at h
      split at h
      · cases h
      · rename_i ro used' hfold
        cases h
        exact key _ hfold
      · rename_i used' hfold
        split at h <;> (cases h; exact key _ hfold)
    · rename_i mm kids hio
      unfold scopeBranch at h
      split at h
      · cases h
      · split at h
        · cases h
        · rename_i ro u2 hrec
          have hu2 : ∀ i ∈ st.2 ++ u2, UsedIdActive i combined := by
            intro i hi
            rw [List.mem_append] at hi
            rcases hi with hi | hi
            · exact hst i hi
            · obtain ⟨d, hd, hdd, hdi⟩ := hF _ _ _ _ _ _ hrec i hi
              refine ⟨d, ?_, hdd, hdi⟩
              cases hd with
              | here hm hdis =>
                rw [List.mem_flatMap] at hm
                obtain ⟨ms, hms, hdm⟩ := hm
                exact (hmatch ms hms).children (.here hdm hdis)
              | deeper hm hdis hk =>
                rw [List.mem_flatMap] at hm
                obtain ⟨ms, hms, hdm⟩ := hm
                exact (hmatch ms hms).children (.deeper hdm hdis hk)
          split at h <;> (cases h; exact hu2)
  · unfold multiBranch at h
    split at h
    · cases h
    · rename_i masterStr _
      split at h
      · cases h
      · rename_i robjs processed used' hfold
        cases h
        refine foldlM_inv (fun (acc : CAcc) => ∀ i ∈ acc.2.2, UsedIdActive i combined)
          (cstepG F e fuel diff io.2 masterStr) _ ?_ _ _ hst hfold
        intro b a b' ha hb hf
        refine cstepG_used F hF e fuel diff io.2 masterStr b a b' combined ?_ hb hf
        intro ha1
        rw [List.mem_append] at ha
        rcases ha with ha | ha
        · unfold fromMasterOf at ha
          rw [List.mem_map] at ha
          obtain ⟨p, _, hp⟩ := ha
          rw [← hp] at ha1
          cases ha1
        · rw [List.mem_map] at ha
          obtain ⟨o, ho, hp⟩ := ha
          rw [← hp]
          exact hmatch o ho

theorem fetchScope_usedOK (e : Envs) : ∀ (fuel : Nat), UsedOK (fetchScope e fuel) := by
  intro fuel
  induction fuel with
  | zero => intro diff mm kids src ro u h; cases h
  | succ fuel ih =>
    intro diff sm mkids combined ro u h
    rw [fetchScope_succ] at h
    split at h
    · cases h
    · rename_i actives hact
      obtain ⟨out, hfold, hro⟩ := fetchFinish_ok h
      exact foldlM_inv (fun (st : List Obj × List Nat) => ∀ i ∈ st.2, UsedIdActive i combined)
        (stepG (fetchScope e fuel) e fuel diff sm mkids combined) actives
        (fun b a b' _ hb hf => stepG_used _ ih e fuel diff sm mkids combined b a b' hb hf)
        _ _ (by intro i hi; cases hi) hfold

/-- **C06.7** every consumed id is marked on account of an enabled source definition `d` (reached
    through enabled scopes only): it is the id of `d`, or one of the ids consulted while the
    variables of `d` were resolved (`srcRefs d`) -/
theorem used_are_source_ids (e : Envs) (fuel : Nat) (diff : Bool) (sm : Meta) (mkids combined : List Obj)
    (ro : Obj) (used : List Nat) (h : fetchScope e fuel diff sm mkids combined = .ok (ro, used)) :
    ∀ i ∈ used, UsedIdActive i combined :=
  fetchScope_usedOK e fuel diff sm mkids combined ro used h

/-! ## 6. negation witnesses, checked by kernel evaluation (C07/C08.9) -/

/-- the error of a result, if any (decidable equality is available on `Option Err`) -/
def errOf {α : Type} : R α → Option Err
  | .error e => some e
  | .ok _ => none

theorem eq_error_of_errOf {α : Type} {r : R α} {e : Err} (h : errOf r = some e) : r = .error e := by
  cases r with
  | error e' => simp only [errOf, Option.some.injEq] at h; rw [h]
  | ok a => cases h

/-- an environment that answers nothing (`eval`/`"%.10g"` are not needed for bool/str values) -/
def envNone : Envs := { eval := fun _ => none, fmt := fun _ => none }

/-- an environment that knows the integers 1 and 2 -/
def env12 : Envs :=
  { eval := fun s => match s with
      | ['1'] => some (.num (.int 1)) | ['2'] => some (.num (.int 2)) | _ => none,
    fmt := fun n => match n with | .int 1 => some ['1'] | .int 2 => some ['2'] | _ => none }

/-- number of non-template children called `name` -/
def countInst (name : Str) (o : Obj) : Nat :=
  (o.children.filter (fun k => k.name == name && k.meta.tmpl == 0)).length

/-- `s .multiple=True { d = yes .type=bool .multiple=True }` as `parseObjs` returns it -/
def w1Master : List Obj :=
  [.scope { name := ['s'], id := some 1, line := some 1, attrs := [("multiple", .bool true)] }
    [.defn { name := ['d'], id := some 2, line := some 4,
             attrs := [("type", .conv .bool), ("multiple", .bool true)] }
       [{ value := ['y', 'e', 's'], line := some 4 }]]]

/-- `s { d = no }` as `parseObjs` returns it -/
def w1Source : List Obj :=
  [.scope { name := ['s'], id := some 1, line := some 1 }
    [.defn { name := ['d'], id := some 2, line := some 2 } [{ value := ['n', 'o'], line := some 2 }]]]

/-- fetch, fetch again from the children of the result, and compare the numbers of `s` instances -/
def refetchCounts (e : Envs) (master source : List Obj) : Option (Nat × Nat) :=
  match fetchRoot e false master [source] with
  | .ok (r1, _) =>
    (match fetchRoot e false master [r1.children] with
     | .ok (r2, _) => some (countInst ['s'] r1, countInst ['s'] r2)
     | .error _ => none)
  | .error _ => none

/-- since the master key of a `.multiple` scope is rendered from the scope's own fetch (fix of D9), the
    non-canonical default `yes` no longer makes the second fetch duplicate the instance (former
    finding D8: the counts were `(1, 2)`) -/
theorem refetch_stable_nested : refetchCounts envNone w1Master w1Source = some (1, 1) := by
  decide +kernel

def w1MasterText : String := "s\n.multiple=True\n{\n  d = yes\n  .type=bool\n  .multiple=True\n}\n"
def w1SourceText : String := "s {\n d = no\n}\n"

/-- the same witness stated on the parser's output for the texts -/
def refetchCountsText (e : Envs) (mt st : String) : Option (Nat × Nat) :=
  match parseObjs mt.toList, parseObjs st.toList with
  | .ok m, .ok s => refetchCounts e m s
  | _, _ => none

theorem refetch_stable_nested_text :
    refetchCountsText envNone w1MasterText w1SourceText = some (1, 1) := by
  decide +kernel

/-- `s .multiple=True { d = 1 .multiple=True .type=int ; d = 2 }` as `parseObjs` returns it -/
def w2Master : List Obj :=
  [.scope { name := ['s'], id := some 1, line := some 1, attrs := [("multiple", .bool true)] }
    [.defn { name := ['d'], id := some 2, line := some 4,
             attrs := [("multiple", .bool true), ("type", .conv (.int {}))] }
       [{ value := ['1'], line := some 4 }],
     .defn { name := ['d'], id := some 3, line := some 7 } [{ value := ['2'], line := some 7 }]]]

/-- compact observable form of an object tree: for every object (depth first) its dotted path (a
    disabled object's name is preceded by `!`), its template mark and the values of its words (none
    for a scope) -/
def obsObj : Nat → Str → Obj → List (Str × Int × List Str)
  | 0, _, _ => []
  | _ + 1, pre, .defn m ws =>
    [(pre ++ (if m.disabled then '!' :: m.name else m.name), m.tmpl, ws.map (fun (w : Word) => w.value))]
  | f + 1, pre, .scope m kids =>
    (pre ++ (if m.disabled then '!' :: m.name else m.name), m.tmpl, []) ::
      kids.flatMap (obsObj f (pre ++ m.name ++ ['.']))

/-- the observable form of the children of a fetch result; `none` when the fetch fails -/
def obsFetch (e : Envs) (diff : Bool) (master : List Obj) (sources : List (List Obj)) :
    Option (List (Str × Int × List Str)) :=
  match fetchRoot e diff master sources with
  | .ok (r, _) => some (r.children.flatMap (obsObj 8 []))
  | .error _ => none

/-- the same on the parser's output for texts -/
def obsFetchText (e : Envs) (diff : Bool) (mt : String) (sts : List String) :
    Option (List (Str × Int × List Str)) :=
  match parseObjs mt.toList, sts.mapM (fun (s : String) => parseObjs s.toList) with
  | .ok m, .ok ss => obsFetch e diff m ss
  | _, _ => none

/-- former finding D9: the bare fetch of this master raised TypeError (`.stray "TypeError"
    "value_as_str"` in the model) because the raw extraction of the master block let the further
    occurrence `d = 2` overwrite the list of `d`.  The master key is now rendered from the scope's own
    fetch: the fetch succeeds with the template copy of `s` (both occurrences of `d` inside). -/
theorem nested_multiple_further_occurrence_fetches :
    obsFetch env12 false w2Master [] =
      some [(['s'], 1, []), (['s', '.', 'd'], 0, [['1']]), (['s', '.', 'd'], 0, [['2']])] := by
  decide +kernel

def w2MasterText : String :=
  "s\n.multiple=True\n{\n  d = 1\n  .multiple=True\n  .type=int\n  d = 2\n}\n"

theorem nested_multiple_further_occurrence_fetches_text :
    obsFetchText env12 false w2MasterText [] =
      some [(['s'], 1, []), (['s', '.', 'd'], 0, [['1']]), (['s', '.', 'd'], 0, [['2']])] := by
  decide +kernel

/-! ## 7. last value wins (C05.6) -/

def Obj.words : Obj → List Word
  | .defn _ ws => ws
  | .scope _ _ => []

/-- the words a source definition contributes: the resolved words recorded by
    `resolve_variables` (`Meta.varRes = some (.ok rws refs)`), else its own words -/
def Obj.srcWords (o : Obj) : List Word :=
  match o.meta.varRes with
  | some (.ok rws _) => rws
  | _ => o.words

/-- a source object whose variable resolution succeeds in the model: a successful resolution is
    recorded, or nothing is recorded and the words contain no live `$` -/
def SrcOK (o : Obj) : Prop :=
  (∃ rws refs, o.meta.varRes = some (.ok rws refs)) ∨ (o.meta.varRes = none ∧ hasDollar o.words = false)

theorem srcWords_of_varRes_none (o : Obj) (h : o.meta.varRes = none) : o.srcWords = o.words := by
  unfold Obj.srcWords; rw [h]

theorem SrcOK.of_none {o : Obj} (h : o.meta.varRes = none) (hd : hasDollar o.words = false) : SrcOK o :=
  .inr ⟨h, hd⟩

theorem srcWordsR_ok (sm : Meta) (sws : List Word) (h : SrcOK (.defn sm sws)) :
    srcWordsR sm sws = .ok (Obj.defn sm sws).srcWords := by
  unfold srcWordsR Obj.srcWords
  rcases h with ⟨rws, refs, h⟩ | ⟨h, hd⟩
  · simp only [Obj.meta] at h ⊢; rw [h]
  · simp only [Obj.meta, Obj.words] at h hd ⊢; rw [h]; simp only [hd, Bool.false_eq_true, if_false]

/-- the ids marked when the source definition `ms` is fetched: its own id and the ids consulted while
    resolving its variables -/
def marksOf (ms : Obj) : List Nat := idOf ms ++ srcRefs ms

theorem marksOf_of_varRes_none (ms : Obj) (h : ms.meta.varRes = none) : marksOf ms = idOf ms := by
  unfold marksOf; rw [srcRefs_of_varRes_none ms h, List.append_nil]

/-- the enabled objects of `l` called `n` -/
def activeNamed (n : Str) (l : List Obj) : List Obj :=
  l.filter (fun d => !d.meta.disabled && d.name == n)

/-- the master definition `mo` with the words of the last element of `l`; `mo` itself if `l = []` -/
def lastWins (mo : Obj) (l : List Obj) : Obj :=
  match l.getLast? with
  | some d => .defn { mo.meta with tmpl := 0 } d.srcWords
  | none => mo

/-- a plain master definition: not `.multiple`, not `.deprecated`, not a choice -/
structure PlainMeta (mm : Meta) : Prop where
  notMultiple : (mm.attrs.get "multiple").truthy = false
  notDeprecated : (mm.attrs.get "deprecated").truthy = false
  notChoice : ∀ b, mm.attrs.get "type" ≠ .conv (.choice b)

theorem fetchValueW_plain (mm : Meta) (mws sws : List Word) (hp : PlainMeta mm) :
    fetchValueW mm mws sws = .ok (some (.defn { mm with tmpl := 0 } sws)) := by
  simp only [fetchValueW, hp.notDeprecated, Bool.false_and, Bool.false_eq_true, if_false]
  split
  · rename_i b hb
    exact absurd hb (hp.notChoice b)
  · rfl

theorem fetchValue_plain (mm : Meta) (mws : List Word) (sm : Meta) (sws : List Word)
    (hp : PlainMeta mm) (hok : SrcOK (.defn sm sws)) :
    fetchValue (.defn mm mws) (.defn sm sws) =
      .ok (some (.defn { mm with tmpl := 0 } (Obj.defn sm sws).srcWords)) := by
  rw [fetchValue_defn, srcWordsR_ok sm sws hok]
  exact fetchValueW_plain mm mws _ hp

theorem fetchDefn_nodiff (e : Envs) (fuel : Nat) (mo ms : Obj) :
    fetchDefn e fuel false mo ms = fetchValue mo ms := by
  unfold fetchDefn
  cases fetchValue mo ms <;> rfl

/-- the value carried out of the loop over the matching sources -/
def lastVal (mm : Meta) (l : List Obj) (init : Option Obj) : Option Obj :=
  match l.getLast? with
  | some d => some (.defn { mm with tmpl := 0 } d.srcWords)
  | none => init

theorem lastVal_cons (mm : Meta) (d : Obj) (l : List Obj) (init : Option Obj) :
    lastVal mm (d :: l) init = lastVal mm l (some (.defn { mm with tmpl := 0 } d.srcWords)) := by
  unfold lastVal
  rw [List.getLast?_cons]
  cases l.getLast? <;> rfl

theorem defnOne_fold_plain (e : Envs) (fuel : Nat) (mm : Meta) (mws : List Word) (hp : PlainMeta mm) :
    ∀ (l : List Obj) (init : Option Obj) (used : List Nat),
      (∀ o ∈ l, o.isDefn = true ∧ SrcOK o) →
      l.foldlM (defnOne e fuel false (.defn mm mws)) (init, used) =
        .ok (lastVal mm l init, used ++ l.flatMap marksOf) := by
  intro l
  induction l with
  | nil => intro init used _; simp [lastVal]; rfl
  | cons d l ih =>
    intro init used hl
    have hd := hl d List.mem_cons_self
    cases d with
    | scope m k => cases hd.1
    | defn sm sws =>
      rw [List.foldlM_cons]
      have h1 : defnOne e fuel false (.defn mm mws) (init, used) (.defn sm sws) =
          .ok (some (.defn { mm with tmpl := 0 } (Obj.defn sm sws).srcWords),
               used ++ marksOf (.defn sm sws)) := by
        unfold defnOne marksOf
        rw [fetchDefn_nodiff, fetchValue_plain mm mws sm sws hp hd.2, List.append_assoc]
        rfl
      rw [h1]
      show l.foldlM _ _ = _
      rw [ih _ _ (fun o ho => hl o (List.mem_cons_of_mem _ ho)), lastVal_cons]
      simp

theorem flatMap_getWithoutSubst_defns (n : Nat) (p : Str) :
    ∀ (l : List Obj), (∀ o ∈ l, o.isDefn = true) →
      (l.filter (fun k => !k.meta.disabled)).flatMap (fun k => getWithoutSubst (n + 1) k p) =
        activeNamed p l := by
  intro l
  induction l with
  | nil => intro _; rfl
  | cons d l ih =>
    intro hl
    have ih' := ih (fun o ho => hl o (List.mem_cons_of_mem _ ho))
    cases d with
    | scope m k => cases hl _ List.mem_cons_self
    | defn m ws =>
      unfold activeNamed at ih' ⊢
      have hm : (Obj.defn m ws).meta.disabled = m.disabled := rfl
      have hnm : (Obj.defn m ws).name = m.name := rfl
      cases hd : m.disabled with
      | true =>
        simp only [List.filter_cons, hm, hd, Bool.not_true, Bool.false_and, Bool.false_eq_true, if_false]
        exact ih'
      | false =>
        cases hn : m.name == p with
        | true =>
          simp only [List.filter_cons, hm, hnm, hd, hn, Bool.not_false, Bool.true_and, if_true,
            List.flatMap_cons, getWithoutSubst_defn, Bool.false_eq_true, if_false, ih',
            List.cons_append, List.nil_append]
        | false =>
          simp only [List.filter_cons, hm, hnm, hd, hn, Bool.not_false, Bool.true_and, if_true,
            List.flatMap_cons, getWithoutSubst_defn, Bool.false_eq_true, if_false, ih',
            List.nil_append]

theorem fetchMatching_flat (fuel : Nat) (sm : Meta) (combined : List Obj) (mo : Obj)
    (hsm : sm.name = []) (hsd : sm.disabled = false) (hname : mo.name ≠ [])
    (hdef : ∀ o ∈ combined, o.isDefn = true) :
    fetchMatching fuel sm combined mo = activeNamed mo.name combined := by
  have hne : mo.name.isEmpty = false := by
    cases h : mo.name with
    | nil => exact absurd h hname
    | cons => rfl
  unfold fetchMatching fetchPath
  rw [show fuel + 64 = (fuel + 63) + 1 from rfl, getWithoutSubst_scope]
  simp only [hsm, hsd, List.isEmpty_nil, if_true, hne, Bool.false_eq_true, if_false]
  rw [show fuel + 63 = (fuel + 62) + 1 from rfl, flatMap_getWithoutSubst_defns _ _ _ hdef]
  unfold activeNamed
  rw [List.filter_filter]
  congr 1
  funext d
  cases d.meta.disabled <;> simp

/-- **C05.6 (one master child).**  At root level, in non-diff mode, with definition-only sources whose
    variable resolution succeeds (`SrcOK`), the step of the master loop for a plain master
    definition appends the master definition carrying the (resolved) words of the last enabled
    source definition of that name (the master definition itself if there is none), and marks all
    those source definitions as used together with the ids consulted for them (`marksOf`). -/
theorem last_wins_step (F : FetchFn) (e : Envs) (fuel : Nat) (sm : Meta) (mkids combined : List Obj)
    (st : List Obj × List Nat) (idx : Nat) (mm : Meta) (mws : List Word)
    (hsm : sm.name = []) (hsd : sm.disabled = false) (hname : mm.name ≠ []) (hp : PlainMeta mm)
    (hdef : ∀ o ∈ combined, o.isDefn = true) (hsrc : ∀ o ∈ combined, SrcOK o) :
    stepG F e fuel false sm mkids combined st (idx, .defn mm mws) =
      .ok (st.1 ++ [lastWins (.defn mm mws) (activeNamed mm.name combined)],
           st.2 ++ (activeNamed mm.name combined).flatMap marksOf) := by
  have hmult : isMultiple (.defn mm mws) = false := hp.notMultiple
  unfold stepG
  simp only [hmult, Bool.not_false, if_true]
  rw [fetchMatching_flat fuel sm combined (.defn mm mws) hsm hsd hname hdef]
  rw [defnOne_fold_plain e fuel mm mws hp _ _ _ (by
    intro o ho
    have := (List.mem_filter.mp ho).1
    exact ⟨hdef o this, hsrc o this⟩)]
  show defnFinish false (.defn mm mws) mm st.1 (.ok (lastVal mm (activeNamed mm.name combined) none, _)) = _
  unfold defnFinish lastVal lastWins
  cases (activeNamed mm.name combined).getLast? with
  | none => simp [hp.notDeprecated]; rfl
  | some d => rfl

/-! ## 8. the result is a sequence of blocks, one per active master child, in master order (C04.3) -/

/-- pointwise relation between two lists of the same length -/
inductive Forall2 {α β : Type} (Q : α → β → Prop) : List α → List β → Prop
  | nil : Forall2 Q [] []
  | cons {a : α} {b : β} {l : List α} {bs : List β} : Q a b → Forall2 Q l bs → Forall2 Q (a :: l) (b :: bs)

theorem Forall2.imp {α β : Type} {Q Q' : α → β → Prop} (himp : ∀ a b, Q a b → Q' a b)
    {l : List α} {bs : List β} (h : Forall2 Q l bs) : Forall2 Q' l bs := by
  induction h with
  | nil => exact .nil
  | cons hq _ ih => exact .cons (himp _ _ hq) ih

theorem Forall2.map {α β α' β' : Type} {Q : α → β → Prop} (f : α → α') (g : β → β')
    {l : List α} {bs : List β} (h : Forall2 Q l bs) (Q' : α' → β' → Prop)
    (himp : ∀ a b, Q a b → Q' (f a) (g b)) : Forall2 Q' (l.map f) (bs.map g) := by
  induction h with
  | nil => exact .nil
  | cons hq _ ih => exact .cons (himp _ _ hq) ih

theorem Forall2.length_eq {α β : Type} {Q : α → β → Prop} {l : List α} {bs : List β}
    (h : Forall2 Q l bs) : l.length = bs.length := by
  induction h with
  | nil => rfl
  | cons _ _ ih => simp [ih]

theorem foldlM_blocks {α β γ : Type} (f : (List γ × β) → α → R (List γ × β)) (Q : α → List γ → Prop) :
    ∀ (l : List α),
      (∀ st a st', a ∈ l → f st a = .ok st' → ∃ new, st'.1 = st.1 ++ new ∧ Q a new) →
      ∀ (init r : List γ × β), l.foldlM f init = .ok r →
        ∃ blocks, r.1 = init.1 ++ blocks.flatten ∧ Forall2 Q l blocks := by
  intro l
  induction l with
  | nil =>
    intro _ init r h
    simp only [List.foldlM_nil] at h
    cases h
    exact ⟨[], by simp, .nil⟩
  | cons a l ih =>
    intro hstep init r h
    rw [List.foldlM_cons] at h
    cases hf : f init a with
    | error err => rw [hf] at h; cases h
    | ok st' =>
      rw [hf] at h
      obtain ⟨new, hnew, hq⟩ := hstep init a st' List.mem_cons_self hf
      obtain ⟨blocks, hb, hall⟩ := ih (fun st a' st'' ha' => hstep st a' st'' (List.mem_cons_of_mem _ ha')) st' r h
      refine ⟨new :: blocks, ?_, .cons hq hall⟩
      rw [hb, hnew]
      simp

theorem forall₂_mem_split {α β : Type} {Q : α → β → Prop} {l : List α} {bs : List β}
    (h : Forall2 Q l bs) {a : α} (ha : a ∈ l) :
    ∃ bs1 b bs2, bs = bs1 ++ b :: bs2 ∧ Q a b := by
  induction h with
  | nil => cases ha
  | @cons a' b' l' bs' hq _ ih =>
    rw [List.mem_cons] at ha
    rcases ha with ha | ha
    · subst ha
      exact ⟨[], b', bs', rfl, hq⟩
    · obtain ⟨bs1, b, bs2, hbs, hqb⟩ := ih ha
      exact ⟨b' :: bs1, b, bs2, by rw [hbs]; rfl, hqb⟩

/-- **C04.3 (block form).**  The children of a fetch result are the concatenation of one block per
    active master child, in the order of `masterActiveObjects`; every object of a block carries the
    declaration of its master child. -/
theorem fetch_blocks (e : Envs) (fuel : Nat) (diff : Bool) (sm : Meta) (mkids combined : List Obj)
    (rm : Meta) (out : List Obj) (used : List Nat)
    (h : fetchScope e fuel diff sm mkids combined = .ok (.scope rm out, used)) :
    ∃ actives blocks, masterActiveObjects mkids = .ok actives ∧ out = blocks.flatten ∧
      Forall2 (fun (io : Nat × Obj) (block : List Obj) => ∀ o ∈ block, SameDecl io.2 o)
        actives blocks := by
  cases fuel with
  | zero => cases h
  | succ fuel =>
    rw [fetchScope_succ] at h
    split at h
    · cases h
    · rename_i actives hact
      obtain ⟨out', hfold, hro⟩ := fetchFinish_ok h
      cases hro
      obtain ⟨blocks, hb, hall⟩ := foldlM_blocks
        (stepG (fetchScope e fuel) e fuel diff sm mkids combined)
        (fun (io : Nat × Obj) (block : List Obj) => ∀ o ∈ block, SameDecl io.2 o) actives
        (fun st a st' _ hf => stepG_shape _ (fetchScope_rootShape e fuel) e fuel diff sm mkids combined st a st' hf)
        _ _ hfold
      exact ⟨actives, blocks, hact, by simpa using hb, hall⟩

/-- remove consecutive duplicates -/
def dedupAdj : List Str → List Str
  | [] => []
  | [a] => [a]
  | a :: b :: rest => if a == b then dedupAdj (b :: rest) else a :: dedupAdj (b :: rest)

theorem dedupAdj_cons (a : Str) (l : List Str) :
    dedupAdj (a :: l) = if l.head? = some a then dedupAdj l else a :: dedupAdj l := by
  cases l with
  | nil => simp [dedupAdj]
  | cons b rest =>
    simp only [dedupAdj, List.head?_cons, Option.some.injEq]
    by_cases hab : a = b
    · subst hab; simp
    · have : (a == b) = false := by simpa using hab
      simp [this, Ne.symm hab]

theorem dedupAdj_block (n : Str) : ∀ (b : List Str), (∀ x ∈ b, x = n) → ∀ (X : List Str),
    dedupAdj (b ++ X) = dedupAdj X ∨ dedupAdj (b ++ X) = n :: dedupAdj X := by
  intro b
  induction b with
  | nil => intro _ X; left; rfl
  | cons a b ih =>
    intro hb X
    have ha : a = n := hb a List.mem_cons_self
    subst ha
    have ih' := ih (fun x hx => hb x (List.mem_cons_of_mem _ hx)) X
    rw [List.cons_append, dedupAdj_cons]
    split
    · exact ih'
    · rename_i hhead
      rcases ih' with h' | h'
      · right; rw [h']
      · -- then `b ++ X` would start with `a`
        exfalso
        apply hhead
        cases hbx : b ++ X with
        | nil => rw [hbx] at h'; simp [dedupAdj] at h'
        | cons c rest =>
          rw [hbx, dedupAdj_cons] at h'
          simp only [List.head?_cons, Option.some.injEq]
          cases b with
          | nil =>
            simp only [List.nil_append] at hbx
            subst hbx
            split at h'
            · rename_i hr
              -- dedupAdj rest = a :: dedupAdj (c :: rest), impossible by length
              exfalso
              have hlen := congrArg List.length h'
              rw [dedupAdj_cons, if_pos hr] at hlen
              simp at hlen
            · simp only [List.cons.injEq] at h'
              exact h'.1
          | cons b0 b' =>
            simp only [List.cons_append, List.cons.injEq] at hbx
            rw [← hbx.1]
            exact hb b0 (by simp)

theorem dedupAdj_blocks_sublist : ∀ (ns : List Str) (blocks : List (List Str)),
    Forall2 (fun n (b : List Str) => ∀ x ∈ b, x = n) ns blocks →
    (dedupAdj blocks.flatten).Sublist ns := by
  intro ns blocks h
  induction h with
  | nil => simp [dedupAdj]
  | @cons n b ns' bs' hq _ ih =>
    rw [List.flatten_cons]
    rcases dedupAdj_block n b hq bs'.flatten with h' | h'
    · rw [h']; exact ih.cons _
    · rw [h']; exact ih.cons_cons _

/-- **C04.3** the names of the result's children, consecutive duplicates removed, form a sublist of
    the names of the active master children in master order -/
theorem fetch_order (e : Envs) (fuel : Nat) (diff : Bool) (sm : Meta) (mkids combined : List Obj)
    (rm : Meta) (out : List Obj) (used : List Nat)
    (h : fetchScope e fuel diff sm mkids combined = .ok (.scope rm out, used)) :
    ∃ actives, masterActiveObjects mkids = .ok actives ∧
      (dedupAdj (out.map Obj.name)).Sublist (actives.map (fun io => io.2.name)) := by
  obtain ⟨actives, blocks, hact, hout, hall⟩ := fetch_blocks e fuel diff sm mkids combined rm out used h
  refine ⟨actives, hact, ?_⟩
  subst hout
  rw [List.map_flatten]
  apply dedupAdj_blocks_sublist
  refine hall.map (fun io => io.2.name) (List.map Obj.name) _ ?_
  intro io block hb x hx
  rw [List.mem_map] at hx
  obtain ⟨o, ho, hox⟩ := hx
  rw [← hox]
  exact (hb o ho).name

/-! ## 9. last value wins at the level of `fetchScope`; flat masters; partial idempotence (C05.6, C07.8) -/

/-- **C05.6** (any master).  Under the hypotheses of `last_wins_step`, the result of a non-diff root-level
    fetch contains, for every active plain master definition, the master definition with the words
    of the last enabled source definition of that name (or the master definition itself). -/
theorem last_wins (e : Envs) (fuel : Nat) (sm : Meta) (mkids combined : List Obj)
    (rm : Meta) (out : List Obj) (used : List Nat)
    (hsm : sm.name = []) (hsd : sm.disabled = false)
    (hdef : ∀ o ∈ combined, o.isDefn = true) (hsrc : ∀ o ∈ combined, SrcOK o)
    (h : fetchScope e fuel false sm mkids combined = .ok (.scope rm out, used))
    (actives : List (Nat × Obj)) (hact : masterActiveObjects mkids = .ok actives)
    (idx : Nat) (mm : Meta) (mws : List Word) (hmem : (idx, Obj.defn mm mws) ∈ actives)
    (hname : mm.name ≠ []) (hp : PlainMeta mm) :
    ∃ pre post, out = pre ++ lastWins (.defn mm mws) (activeNamed mm.name combined) :: post := by
  cases fuel with
  | zero => cases h
  | succ fuel =>
    rw [fetchScope_succ, hact] at h
    obtain ⟨out', hfold, hro⟩ := fetchFinish_ok h
    cases hro
    obtain ⟨blocks, hb, hall⟩ := foldlM_blocks
      (stepG (fetchScope e fuel) e fuel false sm mkids combined)
      (fun (io : Nat × Obj) (block : List Obj) => ∀ mm mws, io.2 = .defn mm mws → PlainMeta mm →
        mm.name ≠ [] → block = [lastWins io.2 (activeNamed mm.name combined)]) actives
      (by
        intro st a st' _ hf
        obtain ⟨new, hnew, _⟩ := stepG_shape _ (fetchScope_rootShape e fuel) e fuel false sm mkids
          combined st a st' hf
        refine ⟨new, hnew, ?_⟩
        intro mm mws ha hp hname
        obtain ⟨i, o⟩ := a
        simp only at ha
        subst ha
        rw [last_wins_step _ e fuel sm mkids combined st i mm mws hsm hsd hname hp hdef hsrc] at hf
        cases hf
        simp only at hnew
        exact (List.append_cancel_left hnew).symm)
      _ _ hfold
    obtain ⟨bs1, b, bs2, hbs, hq⟩ := forall₂_mem_split hall hmem
    have hbeq := hq mm mws rfl hp hname
    refine ⟨bs1.flatten, bs2.flatten, ?_⟩
    have : out = blocks.flatten := by simpa using hb
    rw [this, hbs, hbeq]
    simp

theorem foldlM_explicit {α β γ : Type} (f : (List γ × List β) → α → R (List γ × List β))
    (g : α → List γ) (u : α → List β) :
    ∀ (l : List α), (∀ st a, a ∈ l → f st a = .ok (st.1 ++ g a, st.2 ++ u a)) →
      ∀ (init : List γ × List β), l.foldlM f init = .ok (init.1 ++ l.flatMap g, init.2 ++ l.flatMap u) := by
  intro l
  induction l with
  | nil => intro _ init; simp; rfl
  | cons a l ih =>
    intro hstep init
    rw [List.foldlM_cons, hstep init a List.mem_cons_self]
    show l.foldlM f _ = _
    rw [ih (fun st a' ha' => hstep st a' (List.mem_cons_of_mem _ ha'))]
    simp

/-- a flat master: enabled plain definitions with non-empty, pairwise distinct names -/
structure FlatMaster (mkids : List Obj) : Prop where
  plain : ∀ mo ∈ mkids, ∃ mm mws, mo = .defn mm mws ∧ PlainMeta mm ∧ mm.name ≠ [] ∧ mm.disabled = false
  distinct : (mkids.map Obj.name).Pairwise (· ≠ ·)

theorem masterActive_go_all :
    ∀ (l : List (Nat × Obj)) (seen : List (Str × Obj)) (acc : List (Nat × Obj)),
      (∀ p ∈ l, p.2.meta.disabled = false) → (l.map (fun p => p.2.name)).Pairwise (· ≠ ·) →
      (∀ p ∈ l, ∀ q ∈ seen, q.1 ≠ p.2.name) →
      masterActiveObjects.go l seen acc = .ok (acc.reverse ++ l) := by
  intro l
  induction l with
  | nil => intro seen acc _ _ _; simp [masterActiveObjects.go]
  | cons p rest ih =>
    intro seen acc hen hpw hseen
    obtain ⟨i, o⟩ := p
    have hd : o.meta.disabled = false := hen (i, o) List.mem_cons_self
    have hfind : seen.find? (·.1 == o.name) = none := by
      rw [List.find?_eq_none]
      intro q hq
      have := hseen (i, o) List.mem_cons_self q hq
      simpa using this
    rw [List.map_cons, List.pairwise_cons] at hpw
    simp only [masterActiveObjects.go, hd, Bool.false_eq_true, if_false, hfind]
    rw [ih _ _ (fun p hp => hen p (List.mem_cons_of_mem _ hp)) hpw.2]
    · simp
    · intro p hp q hq
      rw [List.mem_append] at hq
      rcases hq with hq | hq
      · exact hseen p (List.mem_cons_of_mem _ hp) q hq
      · simp only [List.mem_singleton] at hq
        subst hq
        exact hpw.1 _ (List.mem_map.mpr ⟨p, hp, rfl⟩)

theorem flatMap_snd_singleton {α : Type} (g : Obj → α) (l : List (Nat × Obj)) :
    l.flatMap (fun io => [g io.2]) = (l.map (fun p => p.2)).map g := by
  induction l with
  | nil => rfl
  | cons a l ih => simp [List.flatMap_cons, ih]

theorem flatMap_snd {α : Type} (u : Obj → List α) (l : List (Nat × Obj)) :
    l.flatMap (fun io => u io.2) = (l.map (fun p => p.2)).flatMap u := by
  induction l with
  | nil => rfl
  | cons a l ih => simp [List.flatMap_cons, ih]

theorem map_snd_comp {α : Type} (g : Obj → α) (l : List (Nat × Obj)) :
    l.map (fun p => g p.2) = (l.map (fun p => p.2)).map g := by
  rw [List.map_map]; rfl

theorem indexed_map_snd (objs : List Obj) : (indexed objs).map (fun p => p.2) = objs := by
  unfold indexed
  rw [List.map_map]
  exact List.zipIdx_map_fst 0 objs

theorem masterActive_flat (mkids : List Obj) (hf : FlatMaster mkids) :
    masterActiveObjects mkids = .ok (indexed mkids) := by
  have hsnd := indexed_map_snd mkids
  show masterActiveObjects.go (indexed mkids) [] [] = _
  rw [masterActive_go_all (indexed mkids) [] []]
  · simp
  · intro p hp
    have : p.2 ∈ mkids := by rw [← hsnd]; exact List.mem_map.mpr ⟨p, hp, rfl⟩
    obtain ⟨mm, mws, hmo, _, _, hd⟩ := hf.plain _ this
    rw [hmo]; exact hd
  · rw [map_snd_comp Obj.name, hsnd]; exact hf.distinct
  · intro p _ q hq; cases hq

/-- the children of the result of a flat fetch -/
def flatResult (mkids combined : List Obj) : List Obj :=
  mkids.map (fun mo => lastWins mo (activeNamed mo.name combined))

def flatUsed (mkids combined : List Obj) : List Nat :=
  mkids.flatMap (fun mo => (activeNamed mo.name combined).flatMap marksOf)

/-- **flat masters: complete description of the result** (in particular the fetch cannot fail) -/
theorem fetch_flat (e : Envs) (fuel : Nat) (sm : Meta) (mkids combined : List Obj)
    (hf : FlatMaster mkids) (hsm : sm.name = []) (hsd : sm.disabled = false)
    (hdef : ∀ o ∈ combined, o.isDefn = true) (hsrc : ∀ o ∈ combined, SrcOK o) :
    fetchScope e (fuel + 1) false sm mkids combined =
      .ok (.scope { sm with tmpl := 0 } (flatResult mkids combined), flatUsed mkids combined) := by
  rw [fetchScope_succ, masterActive_flat mkids hf]
  simp only
  rw [foldlM_explicit _ (fun io => [lastWins io.2 (activeNamed io.2.name combined)])
    (fun io => (activeNamed io.2.name combined).flatMap marksOf)]
  · unfold fetchFinish flatResult flatUsed
    simp only [List.nil_append]
    rw [flatMap_snd_singleton (fun mo => lastWins mo (activeNamed mo.name combined)),
      flatMap_snd (fun mo => (activeNamed mo.name combined).flatMap marksOf), indexed_map_snd]
  · intro st a ha
    have : a.2 ∈ mkids := by rw [← indexed_map_snd mkids]; exact List.mem_map.mpr ⟨a, ha, rfl⟩
    obtain ⟨mm, mws, hmo, hp, hname, _⟩ := hf.plain _ this
    obtain ⟨i, o⟩ := a
    simp only at hmo
    subst hmo
    exact last_wins_step _ e fuel sm mkids combined st i mm mws hsm hsd hname hp hdef hsrc

theorem lastWins_name (mo : Obj) (l : List Obj) : (lastWins mo l).name = mo.name := by
  unfold lastWins; cases l.getLast? <;> rfl

theorem lastWins_disabled (mo : Obj) (l : List Obj) :
    (lastWins mo l).meta.disabled = mo.meta.disabled := by
  unfold lastWins; cases l.getLast? <;> rfl

theorem lastWins_isDefn (mo : Obj) (l : List Obj) (h : mo.isDefn = true) : (lastWins mo l).isDefn = true := by
  unfold lastWins; cases l.getLast? <;> first | rfl | exact h

theorem activeNamed_map_none (f : Obj → Obj) (hname : ∀ o, (f o).name = o.name) (n : Str) :
    ∀ (l : List Obj), (∀ o ∈ l, o.name ≠ n) → activeNamed n (l.map f) = [] := by
  intro l hl
  unfold activeNamed
  rw [List.filter_eq_nil_iff]
  intro x hx
  rw [List.mem_map] at hx
  obtain ⟨o, ho, hox⟩ := hx
  have : (x.name == n) = false := by
    rw [← hox, hname]
    simpa using hl o ho
  simp [this]

theorem activeNamed_map_distinct (f : Obj → Obj) (hname : ∀ o, (f o).name = o.name)
    (hdis : ∀ o, (f o).meta.disabled = o.meta.disabled) :
    ∀ (l : List Obj), (l.map Obj.name).Pairwise (· ≠ ·) → (∀ o ∈ l, o.meta.disabled = false) →
      ∀ mo ∈ l, activeNamed mo.name (l.map f) = [f mo] := by
  intro l
  induction l with
  | nil => intro _ _ mo hmo; cases hmo
  | cons a l ih =>
    intro hpw hen mo hmo
    rw [List.map_cons, List.pairwise_cons] at hpw
    have hpw1 : ∀ o ∈ l, a.name ≠ o.name := fun o ho => hpw.1 _ (List.mem_map.mpr ⟨o, ho, rfl⟩)
    rw [List.mem_cons] at hmo
    rcases hmo with hmo | hmo
    · subst hmo
      have htail := activeNamed_map_none f hname mo.name l (fun o ho => (hpw1 o ho).symm)
      unfold activeNamed at htail ⊢
      rw [List.map_cons, List.filter_cons, htail]
      simp [hname, hdis, hen mo List.mem_cons_self]
    · have hne : (a.name == mo.name) = false := by simpa using hpw1 mo hmo
      have := ih hpw.2 (fun o ho => hen o (List.mem_cons_of_mem _ ho)) mo hmo
      unfold activeNamed at this ⊢
      rw [List.map_cons, List.filter_cons, this]
      simp [hname, hne]

theorem meta_tmpl0 (mm : Meta) (h : mm.tmpl = 0) : { mm with tmpl := 0 } = mm := by
  cases mm; simp only at h; subst h; rfl

/-- master definitions fit for re-fetching in the model: not template-marked, no recorded variable
    resolution (the result objects carry the master's meta data and are the sources of the second
    fetch), variable-free default -/
def RefetchOK (mkids : List Obj) : Prop :=
  ∀ mo ∈ mkids, mo.meta.tmpl = 0 ∧ mo.meta.varRes = none ∧ hasDollar mo.words = false

theorem lastWins_varRes (mo : Obj) (l : List Obj) : (lastWins mo l).meta.varRes = mo.meta.varRes := by
  unfold lastWins; cases l.getLast? <;> rfl

theorem lastWins_words_noDollar (mo : Obj) (l : List Obj) (hmo : hasDollar mo.words = false)
    (hl : ∀ o ∈ l, hasDollar o.srcWords = false) : hasDollar (lastWins mo l).words = false := by
  unfold lastWins
  cases hg : l.getLast? with
  | none => exact hmo
  | some d => exact hl d (List.mem_of_getLast? hg)

theorem lastWins_srcOK (mo : Obj) (l : List Obj) (hv : mo.meta.varRes = none)
    (hmo : hasDollar mo.words = false) (hl : ∀ o ∈ l, hasDollar o.srcWords = false) :
    SrcOK (lastWins mo l) :=
  .inr ⟨by rw [lastWins_varRes, hv], lastWins_words_noDollar mo l hmo hl⟩

theorem lastWins_idem (mm : Meta) (mws : List Word) (l : List Obj) (ht : mm.tmpl = 0)
    (hv : mm.varRes = none) :
    lastWins (.defn mm mws) [lastWins (.defn mm mws) l] = lastWins (.defn mm mws) l := by
  have hsw : (lastWins (.defn mm mws) l).srcWords = (lastWins (.defn mm mws) l).words :=
    srcWords_of_varRes_none _ (by rw [lastWins_varRes]; exact hv)
  have h1 : lastWins (.defn mm mws) [lastWins (.defn mm mws) l] =
      .defn { mm with tmpl := 0 } (lastWins (.defn mm mws) l).words := by
    rw [← hsw]; rfl
  rw [h1]
  unfold lastWins
  cases l.getLast? with
  | none => simp only [Obj.words]; rw [meta_tmpl0 mm ht]
  | some d => rfl

theorem flatResult_idem (mkids combined : List Obj) (hf : FlatMaster mkids) (hr : RefetchOK mkids) :
    flatResult mkids (flatResult mkids combined) = flatResult mkids combined := by
  unfold flatResult
  apply List.map_congr_left
  intro mo hmo
  have hen : ∀ o ∈ mkids, o.meta.disabled = false := by
    intro o ho
    obtain ⟨mm, mws, rfl, _, _, hd⟩ := hf.plain o ho
    exact hd
  rw [activeNamed_map_distinct (fun mo => lastWins mo (activeNamed mo.name combined))
    (fun o => lastWins_name o _) (fun o => lastWins_disabled o _) mkids hf.distinct hen mo hmo]
  obtain ⟨mm, mws, rfl, _, _, _⟩ := hf.plain mo hmo
  exact lastWins_idem mm mws _ (hr _ hmo).1 (hr _ hmo).2.1

/-- **C07.8** -/
theorem fetch_flat_idempotent_partial (e : Envs) (fuel : Nat) (mkids combined : List Obj)
    (hf : FlatMaster mkids) (hr : RefetchOK mkids)
    (hdef : ∀ o ∈ combined, o.isDefn = true) (hsrc : ∀ o ∈ combined, SrcOK o)
    (hdol : ∀ o ∈ combined, hasDollar o.srcWords = false)
    (rm : Meta) (out : List Obj) (used : List Nat)
    (h : fetchScope e (fuel + 1) false { name := [] } mkids combined = .ok (.scope rm out, used)) :
    ∃ used', fetchScope e (fuel + 1) false { name := [] } mkids out = .ok (.scope rm out, used') := by
  rw [fetch_flat e fuel _ mkids combined hf rfl rfl hdef hsrc] at h
  cases h
  refine ⟨flatUsed mkids (flatResult mkids combined), ?_⟩
  rw [fetch_flat e fuel _ mkids _ hf rfl rfl, flatResult_idem mkids combined hf hr]
  · intro o ho
    unfold flatResult at ho
    rw [List.mem_map] at ho
    obtain ⟨mo, hmo, rfl⟩ := ho
    obtain ⟨mm, mws, rfl, _⟩ := hf.plain mo hmo
    exact lastWins_isDefn _ _ rfl
  · intro o ho
    unfold flatResult at ho
    rw [List.mem_map] at ho
    obtain ⟨mo, hmo, rfl⟩ := ho
    exact lastWins_srcOK mo _ (hr mo hmo).2.1 (hr mo hmo).2.2
      (fun d hd => hdol d (List.mem_filter.mp hd).1)

/-! ## 10. disabled source objects are ignored (C04.4) -/

mutual
/-- remove every disabled object below `o` -/
def stripObj : Obj → Obj
  | .defn m ws => .defn m ws
  | .scope m kids => .scope m (stripList kids)
/-- remove every disabled object of the list, at every depth -/
def stripList : List Obj → List Obj
  | [] => []
  | o :: os => if o.meta.disabled then stripList os else stripObj o :: stripList os
end

abbrev stripDisabled : List Obj → List Obj := stripList

theorem stripObj_meta (o : Obj) : (stripObj o).meta = o.meta := by
  cases o <;> simp [stripObj, Obj.meta]

theorem stripObj_isDefn (o : Obj) : (stripObj o).isDefn = o.isDefn := by
  cases o <;> simp [stripObj, Obj.isDefn]

theorem stripObj_children (o : Obj) : (stripObj o).children = stripList o.children := by
  cases o <;> simp [stripObj, stripList, Obj.children]

theorem stripObj_defn_eq (o : Obj) (h : o.isDefn = true) : stripObj o = o := by
  cases o with
  | defn m ws => simp [stripObj]
  | scope m k => cases h

def enabledB (o : Obj) : Bool := !o.meta.disabled

theorem stripList_eq : ∀ (l : List Obj), stripList l = (l.filter enabledB).map stripObj := by
  intro l
  induction l with
  | nil => simp [stripList]
  | cons o os ih =>
    rw [stripList, ih, List.filter_cons]
    cases hd : o.meta.disabled <;> simp [enabledB, hd]

theorem stripList_append (a b : List Obj) : stripList (a ++ b) = stripList a ++ stripList b := by
  simp [stripList_eq]

theorem stripList_flatMap {α : Type} (f : α → List Obj) : ∀ (l : List α),
    stripList (l.flatMap f) = l.flatMap (fun x => stripList (f x)) := by
  intro l
  induction l with
  | nil => simp [stripList]
  | cons a l ih => simp [List.flatMap_cons, stripList_append, ih]

theorem filter_enabled_stripList (l : List Obj) : (stripList l).filter enabledB = stripList l := by
  rw [stripList_eq, List.filter_eq_self]
  intro x hx
  rw [List.mem_map] at hx
  obtain ⟨o, ho, rfl⟩ := hx
  have := (List.mem_filter.mp ho).2
  simpa [enabledB, stripObj_meta] using this

theorem stripList_filter_enabled (l : List Obj) : stripList (l.filter enabledB) = stripList l := by
  rw [stripList_eq, stripList_eq, List.filter_filter]
  simp

theorem stripList_of_enabled (l : List Obj) (h : ∀ o ∈ l, o.meta.disabled = false) :
    stripList l = l.map stripObj := by
  rw [stripList_eq, List.filter_eq_self.mpr]
  intro o ho
  simp [enabledB, h o ho]

theorem enabledB_eq : (fun (k : Obj) => !k.meta.disabled) = enabledB := rfl

theorem getWithoutSubst_strip : ∀ (fuel : Nat) (o : Obj) (path : Str),
    getWithoutSubst fuel (stripObj o) path = stripList (getWithoutSubst fuel o path) := by
  intro fuel
  induction fuel with
  | zero => intro o path; simp [getWithoutSubst, stripList]
  | succ fuel ih =>
    intro o path
    cases o with
    | defn m ws =>
      rw [stripObj, getWithoutSubst_defn]
      cases hd : m.disabled with
      | true => simp [stripList]
      | false =>
        simp only [Bool.false_eq_true, if_false]
        split
        · rw [stripList, stripList]; simp [Obj.meta, hd, stripObj]
        · simp [stripList]
    | scope m kids =>
      have hflat : ∀ p, ((stripList kids).filter enabledB).flatMap (fun k => getWithoutSubst fuel k p) =
          stripList ((kids.filter enabledB).flatMap (fun k => getWithoutSubst fuel k p)) := by
        intro p
        rw [filter_enabled_stripList, stripList_flatMap, stripList_eq, List.flatMap_map]
        congr 1
        funext k
        exact ih k p
      rw [stripObj, getWithoutSubst_scope, getWithoutSubst_scope, enabledB_eq]
      cases hd : m.disabled with
      | true => simp [stripList]
      | false =>
        simp only [Bool.false_eq_true, if_false]
        split
        · split
          · rfl
          · exact hflat _
        · split
          · rw [stripList, stripList]; simp [Obj.meta, hd, stripObj]
          · split
            · exact hflat _
            · simp [stripList]

theorem fetchMatching_enabled (fuel : Nat) (sm : Meta) (combined : List Obj) (mo x : Obj)
    (hx : x ∈ fetchMatching fuel sm combined mo) : x.meta.disabled = false := by
  unfold fetchMatching at hx
  simpa using (List.mem_filter.mp hx).2

theorem fetchMatching_strip (fuel : Nat) (sm : Meta) (combined : List Obj) (mo : Obj) :
    fetchMatching fuel sm (stripList combined) mo = (fetchMatching fuel sm combined mo).map stripObj := by
  rw [← stripList_of_enabled _ (fun o ho => fetchMatching_enabled fuel sm combined mo o ho)]
  unfold fetchMatching
  rw [enabledB_eq, ← stripObj.eq_2, getWithoutSubst_strip, filter_enabled_stripList,
    stripList_filter_enabled]

theorem fetchDefn_strip (e : Envs) (fuel : Nat) (diff : Bool) (mo ms : Obj) :
    fetchDefn e fuel diff mo (stripObj ms) = fetchDefn e fuel diff mo ms := by
  cases ms with
  | defn m ws => rw [stripObj]
  | scope m k => rw [stripObj]; cases mo <;> rfl

theorem idOf_strip (ms : Obj) : idOf (stripObj ms) = idOf ms := by
  unfold idOf; rw [stripObj_meta]

theorem srcRefs_strip (ms : Obj) : srcRefs (stripObj ms) = srcRefs ms := by
  unfold srcRefs; rw [stripObj_meta]

def StripInv (F : FetchFn) : Prop :=
  ∀ diff mm kids src, F diff mm kids (stripList src) = F diff mm kids src

theorem defnOne_strip (e : Envs) (fuel : Nat) (diff : Bool) (mo : Obj) (acc : Option Obj × List Nat)
    (ms : Obj) : defnOne e fuel diff mo acc (stripObj ms) = defnOne e fuel diff mo acc ms := by
  unfold defnOne; rw [fetchDefn_strip, idOf_strip, srcRefs_strip]

theorem candOf_strip (F : FetchFn) (hF : StripInv F) (e : Envs) (fuel : Nat) (diff : Bool) (mo : Obj)
    (fromM : Bool) (ms : Obj) :
    candOf F e fuel diff mo fromM (stripObj ms) = candOf F e fuel diff mo fromM ms := by
  cases mo with
  | defn mm mws =>
    unfold candOf
    simp only [fetchDefn_strip, stripObj_meta, srcRefs_strip]
  | scope mm kids =>
    cases ms with
    | defn m ws => rw [stripObj]
    | scope m skids =>
      rw [stripObj]
      unfold candOf
      simp only [hF diff mm kids skids]

theorem cstepG_strip (F : FetchFn) (hF : StripInv F) (e : Envs) (fuel : Nat) (diff : Bool) (mo : Obj)
    (masterStr : Str) (acc : CAcc) (b : Bool) (ms : Obj) :
    cstepG F e fuel diff mo masterStr acc (b, stripObj ms) = cstepG F e fuel diff mo masterStr acc (b, ms) := by
  unfold cstepG
  simp only [candOf_strip F hF]

theorem scopeBranch_strip (F : FetchFn) (hF : StripInv F) (diff : Bool) (mm : Meta) (kids M out : List Obj)
    (used : List Nat) :
    scopeBranch F diff mm kids (M.map stripObj) out used = scopeBranch F diff mm kids M out used := by
  unfold scopeBranch
  have h1 : (M.map stripObj).flatMap Obj.children = stripList (M.flatMap Obj.children) := by
    rw [stripList_flatMap, List.flatMap_map]
    congr 1
    funext o
    exact stripObj_children o
  have h2 : (M.map stripObj).find? (·.isDefn) = (M.find? (·.isDefn)).map stripObj := by
    rw [List.find?_map]
    congr 2
    funext o
    exact stripObj_isDefn o
  rw [h1, h2, hF]
  cases M.find? (·.isDefn) <;> rfl

theorem multiBranch_strip (F : FetchFn) (hF : StripInv F) (e : Envs) (fuel : Nat) (diff : Bool)
    (mkids : List Obj) (idx : Nat) (mo : Obj) (M out : List Obj) (used : List Nat) :
    multiBranch F e fuel diff mkids idx mo (M.map stripObj) out used =
      multiBranch F e fuel diff mkids idx mo M out used := by
  unfold multiBranch
  have key : ∀ masterStr init,
      (fromMasterOf mkids idx mo ++ (M.map stripObj).map (fun (o : Obj) => (false, o))).foldlM
        (cstepG F e fuel diff mo masterStr) init =
      (fromMasterOf mkids idx mo ++ M.map (fun (o : Obj) => (false, o))).foldlM
        (cstepG F e fuel diff mo masterStr) init := by
    intro masterStr init
    rw [List.foldlM_append, List.foldlM_append, List.map_map]
    congr 1
    funext acc0
    rw [List.foldlM_map, List.foldlM_map]
    congr 1
    funext acc ms
    exact cstepG_strip F hF e fuel diff mo masterStr acc false ms
  cases masterKeyG F e fuel mo with
  | error err => rfl
  | ok masterStr =>
    simp only [key]

theorem stepG_strip (F : FetchFn) (hF : StripInv F) (e : Envs) (fuel : Nat) (diff : Bool) (sm : Meta)
    (mkids combined : List Obj) (st : List Obj × List Nat) (io : Nat × Obj) :
    stepG F e fuel diff sm mkids (stripList combined) st io = stepG F e fuel diff sm mkids combined st io := by
  unfold stepG
  rw [fetchMatching_strip]
  split
  · split
    · rw [List.foldlM_map]
      congr 2
      funext acc ms
      exact defnOne_strip e fuel diff _ acc ms
    · exact scopeBranch_strip F hF diff _ _ _ _ _
  · exact multiBranch_strip F hF e fuel diff mkids _ _ _ _ _

theorem fetchScope_stripInv (e : Envs) : ∀ (fuel : Nat), StripInv (fetchScope e fuel) := by
  intro fuel
  induction fuel with
  | zero => intro diff mm kids src; rfl
  | succ fuel ih =>
    intro diff sm mkids combined
    rw [fetchScope_succ, fetchScope_succ]
    cases masterActiveObjects mkids with
    | error err => rfl
    | ok actives =>
      simp only
      congr 2
      funext st io
      exact stepG_strip _ ih e fuel diff sm mkids combined st io

/-- **C04.4** disabled source objects, at any depth, have no influence on the result of a fetch nor
    on the set of consumed definitions -/
theorem fetch_ignores_disabled (e : Envs) (fuel : Nat) (diff : Bool) (sm : Meta) (mkids combined : List Obj) :
    fetchScope e fuel diff sm mkids (stripDisabled combined) = fetchScope e fuel diff sm mkids combined :=
  fetchScope_stripInv e fuel diff sm mkids combined

/-! ## 11. diff mode drops empty scopes (C08) -/

/-- in diff mode the step for a non-multiple master scope whose recursive result is empty appends
    nothing (the consumed ids are still recorded) -/
theorem diff_drops_empty_scopes (e : Envs) (fuel : Nat) (sm : Meta) (mkids combined : List Obj)
    (st : List Obj × List Nat) (idx : Nat) (mm : Meta) (kids : List Obj) (ro : Obj) (u2 : List Nat)
    (hmult : isMultiple (.scope mm kids) = false)
    (hnd : (fetchMatching fuel sm combined (.scope mm kids)).find? (·.isDefn) = none)
    (hrec : fetchScope e fuel true mm kids
      ((fetchMatching fuel sm combined (.scope mm kids)).flatMap Obj.children) = .ok (ro, u2))
    (hempty : ro.children = []) :
    stepG (fetchScope e fuel) e fuel true sm mkids combined st (idx, .scope mm kids) =
      .ok (st.1, st.2 ++ u2) := by
  unfold stepG
  simp only [hmult, Bool.not_false, if_true]
  unfold scopeBranch
  simp only [hnd, hrec, hempty, List.isEmpty_nil, Bool.and_self, if_true]

/-- … and appends the recursive result otherwise -/
theorem diff_keeps_nonempty_scopes (e : Envs) (fuel : Nat) (sm : Meta) (mkids combined : List Obj)
    (st : List Obj × List Nat) (idx : Nat) (mm : Meta) (kids : List Obj) (ro : Obj) (u2 : List Nat)
    (hmult : isMultiple (.scope mm kids) = false)
    (hnd : (fetchMatching fuel sm combined (.scope mm kids)).find? (·.isDefn) = none)
    (hrec : fetchScope e fuel true mm kids
      ((fetchMatching fuel sm combined (.scope mm kids)).flatMap Obj.children) = .ok (ro, u2))
    (hne : ro.children ≠ []) :
    stepG (fetchScope e fuel) e fuel true sm mkids combined st (idx, .scope mm kids) =
      .ok (st.1 ++ [ro], st.2 ++ u2) := by
  have : ro.children.isEmpty = false := by
    cases h : ro.children with
    | nil => exact absurd h hne
    | cons => rfl
  unfold stepG
  simp only [hmult, Bool.not_false, if_true]
  unfold scopeBranch
  simp only [hnd, hrec, this, Bool.and_false, Bool.false_eq_true, if_false]

/-- no scope without children occurs in `o`, at any depth -/
inductive NoEmptyScope : Obj → Prop
  | defn (m : Meta) (ws : List Word) : NoEmptyScope (.defn m ws)
  | scope (m : Meta) (kids : List Obj) : kids ≠ [] → (∀ k ∈ kids, NoEmptyScope k) →
      NoEmptyScope (.scope m kids)

/-- **C08** a diff result contains no empty scope and no template, at any depth: every child of the
    result is a definition or a scope with at least one child (recursively) -/
theorem diff_no_empty_scopes (e : Envs) : ∀ (fuel : Nat) (sm : Meta) (mkids combined : List Obj)
    (ro : Obj) (used : List Nat), fetchScope e fuel true sm mkids combined = .ok (ro, used) →
    ∀ k ∈ ro.children, NoEmptyScope k := by
  intro fuel
  induction fuel with
  | zero => intro sm mkids combined ro used h; cases h
  | succ fuel ih =>
    intro sm mkids combined ro used h
    have hP : ShapePred (fetchScope e fuel) true (fun _ o => NoEmptyScope o) :=
      { self := fun h => by cases h
        tmpl := fun h => by cases h
        defn := fun mm _ ws => NoEmptyScope.defn _ ws
        recur := by
          intro mm kids src ro u h hne
          obtain ⟨out, rfl⟩ := fetchScope_rootShape e fuel _ _ _ _ _ _ h
          refine NoEmptyScope.scope _ out ?_ (ih mm kids src _ u h)
          intro hout
          subst hout
          simp [Obj.children] at hne
        inst := fun h => by cases h }
    obtain ⟨out, rfl, hall⟩ := fetch_shape_pred e fuel _ true hP sm mkids combined ro used h
    intro k hk
    obtain ⟨_, _, _, _, hk'⟩ := hall k hk
    exact hk'

/-! ## 12. tracking is transparent (C06) -/

/-- the result object of `fetchRoot` is a function of the inputs alone: whether the caller looks at
    the list of consumed ids or not cannot change it (both come out of the same call) -/
theorem tracking_transparent (e : Envs) (diff : Bool) (master : List Obj) (ss : List (List Obj)) :
    (fetchRoot e diff master ss).map (·.1) =
      (fetchScope e ((master.foldl (fun a k => Nat.max a (depthObj 1000 k)) 0) + 3) diff
        { name := [], id := some 0 } master ss.flatten).map (·.1) := rfl

/-! ### consumed ids occur in `all_definitions` -/

theorem mem_allDefsList_of_mem {x : Str × Meta × List Word} :
    ∀ (l : List Obj) (p : Str) (o : Obj), o ∈ l → o.meta.disabled = false →
      x ∈ allDefsObj o p → x ∈ allDefsObj.allDefsList l p := by
  intro l
  induction l with
  | nil => intro p o ho; cases ho
  | cons a l ih =>
    intro p o ho hd hx
    rw [allDefsObj.allDefsList, List.mem_append]
    rw [List.mem_cons] at ho
    rcases ho with ho | ho
    · subst ho
      left
      simp only [hd, Bool.false_eq_true, if_false]
      exact hx
    · right
      exact ih p o ho hd hx

theorem activeIn_allDefs {m : Meta} {ws : List Word} {l : List Obj} (h : ActiveIn (.defn m ws) l)
    (hinc : (m.name == "include".toList) = false) :
    ∀ p, ∃ path, (path, m, ws) ∈ allDefsObj.allDefsList l p := by
  induction h with
  | here hm hd =>
    intro p
    refine ⟨p ++ m.name, mem_allDefsList_of_mem _ p _ hm hd ?_⟩
    rw [allDefsObj, hinc]
    simp
  | @deeper l' m' kids hm hd _ ih =>
    intro p
    obtain ⟨path, hp⟩ := ih (p ++ m'.name ++ ['.'])
    refine ⟨path, mem_allDefsList_of_mem _ p _ hm hd ?_⟩
    rw [allDefsObj]
    exact hp

/-- a consumed id is the id of an entry of `all_definitions` of the sources (or of an enabled
    definition called `include`, which `all_definitions` skips) -/
theorem defnIdActive_allDefinitions {i : Nat} {l : List Obj} (h : DefnIdActive i l) :
    (∃ d ∈ allDefinitions l, d.2.1.id = some i) ∨
    (∃ m ws, ActiveIn (.defn m ws) l ∧ m.name = "include".toList ∧ m.id = some i) := by
  obtain ⟨d, hd, hdef, hid⟩ := h
  cases d with
  | scope m k => cases hdef
  | defn m ws =>
    cases hinc : m.name == "include".toList with
    | true => right; exact ⟨m, ws, hd, by simpa using hinc, hid⟩
    | false =>
      left
      obtain ⟨path, hp⟩ := activeIn_allDefs hd hinc []
      exact ⟨(path, m, ws), hp, hid⟩

/-- a consumed id is the id of an entry of `all_definitions` of the sources, or of an enabled
    definition called `include`, or was consulted while the variables of an enabled source
    definition were resolved -/
theorem usedIdActive_allDefinitions {i : Nat} {l : List Obj} (h : UsedIdActive i l) :
    (∃ d ∈ allDefinitions l, d.2.1.id = some i) ∨
    (∃ m ws, ActiveIn (.defn m ws) l ∧ m.name = "include".toList ∧ m.id = some i) ∨
    RefIdActive i l := by
  rcases (usedIdActive_iff i l).mp h with h | h
  · rcases defnIdActive_allDefinitions h with h | h
    · exact .inl h
    · exact .inr (.inl h)
  · exact .inr (.inr h)

/-- without recorded variable resolutions (`varRes = none` on every active source definition) the
    marks are exactly ids of active source definitions, as before -/
theorem usedIdActive_of_no_varRes {i : Nat} {l : List Obj}
    (hno : ∀ d, ActiveIn d l → d.isDefn = true → d.meta.varRes = none) (h : UsedIdActive i l) :
    DefnIdActive i l := by
  obtain ⟨d, ha, hd, hi | hi⟩ := h
  · exact ⟨d, ha, hd, hi⟩
  · rw [srcRefs_of_varRes_none d (hno d ha hd)] at hi; cases hi

end Phil
