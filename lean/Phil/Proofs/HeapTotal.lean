/-
  Totality of `deepcopy` (Phil/Heap.lean): `visitFuel` is enough fuel for `visit` on every heap without
  dangling reference.

  Measure of a traversal state (todo, seen):
      todo.length + Σ_{i not yet seen} (succs(h[i]).length + 1) + 1.
  Popping an already seen id lowers it by 1; entering a new object `x` replaces one stack entry by
  `succs(x).length` entries and removes `succs(x).length + 1` from the sum (net −2).  At the start
  (todo = [x], seen = []) the measure is `visitFuel h`.
-/
import Phil.Proofs.HeapLemmas
import Phil.Proofs.HeapBuild
namespace Phil.Heap

/-- Σ over the cells of `rest` (ids `b, b+1, …`) not in `S` of `succs.length + 1` -/
def costFrom (S : List Nat) : Nat → List Node → Nat
  | _, [] => 0
  | b, n :: rest => (if b ∈ S then 0 else n.succs.length + 1) + costFrom S (b + 1) rest

theorem costFrom_nil : ∀ (b : Nat) (h : List Node),
    costFrom [] b h = (h.map fun n => n.succs.length).sum + h.length
  | _, [] => rfl
  | b, n :: rest => by
    simp only [costFrom, List.not_mem_nil, if_false, List.map_cons, List.sum_cons, List.length_cons]
    rw [costFrom_nil (b + 1) rest]; omega

/-- a bigger memo never costs more -/
theorem costFrom_mono (S : List Nat) (x : Nat) : ∀ (b : Nat) (h : List Node),
    costFrom (S ++ [x]) b h ≤ costFrom S b h
  | _, [] => Nat.le_refl _
  | b, n :: rest => by
    simp only [costFrom]
    have ih := costFrom_mono S x (b + 1) rest
    by_cases hb : b ∈ S
    · have : b ∈ S ++ [x] := List.mem_append_left _ hb
      rw [if_pos hb, if_pos this]; omega
    · by_cases hb' : b ∈ S ++ [x]
      · rw [if_pos hb', if_neg hb]; omega
      · rw [if_neg hb', if_neg hb]; omega

/-- entering the unseen object `x` removes its own share from the cost -/
theorem costFrom_enter (S : List Nat) (x : Nat) (n : Node) (hx : x ∉ S) : ∀ (b : Nat) (h : List Node),
    b ≤ x → h[x - b]? = some n → costFrom (S ++ [x]) b h + (n.succs.length + 1) ≤ costFrom S b h
  | _, [], _, hg => by simp at hg
  | b, m :: rest, hb, hg => by
    simp only [costFrom]
    by_cases hxb : x = b
    · subst hxb
      rw [Nat.sub_self] at hg
      simp only [List.getElem?_cons_zero, Option.some.injEq] at hg
      subst hg
      have h1 : x ∈ S ++ [x] := by simp
      rw [if_pos h1, if_neg hx]
      have := costFrom_mono S x (x + 1) rest
      omega
    · have hlt : b + 1 ≤ x := by omega
      have hidx : x - b = (x - (b + 1)) + 1 := by omega
      rw [hidx, List.getElem?_cons_succ] at hg
      have ih := costFrom_enter S x n hx (b + 1) rest hlt hg
      by_cases hbS : b ∈ S
      · have : b ∈ S ++ [x] := List.mem_append_left _ hbS
        rw [if_pos hbS, if_pos this]; omega
      · have : b ∉ S ++ [x] := by
          intro hm
          rcases List.mem_append.mp hm with hm | hm
          · exact hbS hm
          · simp only [List.mem_singleton] at hm; exact hxb hm.symm
        rw [if_neg hbS, if_neg this]; omega

/-- **Fuel adequacy of `visit`.**  On a heap without dangling reference, from any traversal state whose
    stack holds ids of the heap, `visit` ends with a memo as soon as the fuel covers the measure. -/
theorem visit_total : ∀ (f : Nat) (h : Heap) (todo : List Nat) (seen : List (Nat × Node)),
    Closed h → (∀ y ∈ todo, y < h.length) →
    todo.length + costFrom (seen.map (·.1)) 0 h + 1 ≤ f → ∃ comp, visit f h todo seen = some comp
  | 0, _, _, _, _, _, hf => by omega
  | f + 1, h, [], seen, _, _, _ => ⟨seen, by simp [visit]⟩
  | f + 1, h, x :: todo, seen, hc, ht, hf => by
    simp only [visit]
    by_cases hx : x ∈ seen.map (·.1)
    · rw [if_pos hx]
      refine visit_total f h todo seen hc (fun y hy => ht y (List.mem_cons_of_mem _ hy)) ?_
      simp only [List.length_cons] at hf; omega
    · rw [if_neg hx]
      have hxl : x < h.length := ht x (by simp)
      have hg : h[x]? = some h[x] := List.getElem?_eq_getElem hxl
      rw [hg]
      simp only
      refine visit_total f h (h[x].succs ++ todo) (seen ++ [(x, h[x])]) hc ?_ ?_
      · intro y hy
        rcases List.mem_append.mp hy with hy | hy
        · exact hc x _ hg y hy
        · exact ht y (List.mem_cons_of_mem _ hy)
      · have := costFrom_enter (seen.map (·.1)) x h[x] hx 0 h (Nat.zero_le _) (by simp)
        simp only [List.length_cons, List.length_append, List.map_append, List.map_cons, List.map_nil] at hf ⊢
        omega

/-- `visitFuel` is enough for the traversal `deepcopy` starts -/
theorem visit_visitFuel (h : Heap) (x : Nat) (hc : Closed h) (hx : x < h.length) :
    ∃ comp, visit (visitFuel h) h [x] [] = some comp := by
  refine visit_total (visitFuel h) h [x] [] hc (fun y hy => by simp at hy; omega) ?_
  simp only [List.map_nil, List.length_cons, List.length_nil]
  rw [costFrom_nil]
  unfold visitFuel; omega

/-- **`deepcopy` is total** on heaps without dangling reference (the decidable checker `closedB`), for every
    object of the heap. -/
theorem deepcopy_total (h : Heap) (x : Nat) (hc : closedB h = true) (hx : x < h.length) :
    ∃ c, deepcopy h x = some c := by
  obtain ⟨comp, hv⟩ := visit_visitFuel h x (closedB_sound hc) hx
  unfold deepcopy
  rw [hv]
  exact ⟨_, rfl⟩

/-! ### every built heap is well-formed

  The cells `cells o p b` at offset `b` of a heap form a tree relative to the id range `[b, b + size o)`:
  children have greater ids inside the range and point back; every non-root has a parent with a smaller id
  inside the range, a scope that lists it; child lists have no duplicate. -/

/-- what is required of the cell `n` of object `i` relative to the id range `[b, e)`, whose roots are
    `roots` (parent `rp`) -/
structure CellOK (H : Heap) (b e : Nat) (roots : List Nat) (rp : Option Nat) (i : Nat) (n : Node) : Prop where
  nodup : n.kids.Nodup
  kids : ∀ k ∈ n.kids, i < k ∧ k < e ∧ ∃ nk, H[k]? = some nk ∧ nk.parent = some i
  par : (i ∈ roots ∧ n.parent = rp) ∨
    (∃ q nq, n.parent = some q ∧ b ≤ q ∧ q < i ∧ H[q]? = some nq ∧ nq.isScope = true ∧ i ∈ nq.kids)

def RangeOK (H : Heap) (b e : Nat) (roots : List Nat) (rp : Option Nat) : Prop :=
  ∀ i n, b ≤ i → i < e → H[i]? = some n → CellOK H b e roots rp i n

theorem CellOK.widen {H : Heap} {b e : Nat} {roots : List Nat} {rp : Option Nat} {i : Nat} {n : Node}
    (c : CellOK H b e roots rp i n) {b' e' : Nat} {roots' : List Nat} (hb : b' ≤ b) (he : e ≤ e')
    (hr : ∀ r ∈ roots, r ∈ roots') : CellOK H b' e' roots' rp i n := by
  refine ⟨c.nodup, ?_, ?_⟩
  · intro k hk
    obtain ⟨a, b1, c1⟩ := c.kids k hk
    exact ⟨a, by omega, c1⟩
  · rcases c.par with ⟨h1, h2⟩ | ⟨q, nq, h1, h2, h3, h4⟩
    · exact Or.inl ⟨hr i h1, h2⟩
    · exact Or.inr ⟨q, nq, h1, by omega, h3, h4⟩

theorem size_pos : ∀ (o : Obj), 1 ≤ size o
  | .defn _ _ => by simp [size]
  | .scope _ _ => by rw [size]; omega

theorem kidIds_bounds : ∀ (os : List Obj) (b : Nat), ∀ k ∈ kidIds os b, b ≤ k ∧ k < b + sizeKids os
  | [], _, k, hk => by simp [kidIds] at hk
  | o :: os, b, k, hk => by
    simp only [kidIds, List.mem_cons] at hk
    have := size_pos o
    rw [sizeKids]
    rcases hk with rfl | hk
    · omega
    · have := kidIds_bounds os (b + size o) k hk
      omega

theorem kidIds_nodup : ∀ (os : List Obj) (b : Nat), (kidIds os b).Nodup
  | [], _ => by simp [kidIds]
  | o :: os, b => by
    simp only [kidIds, List.nodup_cons]
    refine ⟨?_, kidIds_nodup os _⟩
    intro hm
    have := kidIds_bounds os (b + size o) b hm
    have := size_pos o
    omega

/-- the first cell of a block is the root and carries the parent handed down -/
theorem cells_head : ∀ (o : Obj) (p : Option Nat) (b : Nat),
    ∃ n rest, cells o p b = n :: rest ∧ n.parent = p
  | .defn m ws, p, b => ⟨.defn m ws p, [], by simp only [cells], rfl⟩
  | .scope m os, p, b => ⟨.scope m (kidIds os (b + 1)) p, kidCells os b (b + 1), by simp only [cells], rfl⟩

/-- the roots of a forest block carry the common parent -/
theorem kidCells_roots : ∀ (os : List Obj) (q : Nat) (b : Nat) (pre post : Heap), pre.length = b →
    ∀ k ∈ kidIds os b, ∃ nk, (pre ++ (kidCells os q b ++ post))[k]? = some nk ∧ nk.parent = some q
  | [], _, _, _, _, _, k, hk => by simp [kidIds] at hk
  | o :: os, q, b, pre, post, hb, k, hk => by
    simp only [kidIds, List.mem_cons] at hk
    simp only [kidCells, List.append_assoc]
    rcases hk with rfl | hk
    · obtain ⟨n, rest, hc, hp⟩ := cells_head o (some q) k
      rw [hc]
      subst hb
      exact ⟨n, by rw [List.cons_append, get_mid], hp⟩
    · have := kidCells_roots os q (b + size o) (pre ++ cells o (some q) b) post
        (by rw [List.length_append, cells_length, hb]) k hk
      rw [List.append_assoc] at this
      exact this

mutual
theorem cells_range : ∀ (o : Obj) (p : Option Nat) (b : Nat) (pre post : Heap), pre.length = b →
    RangeOK (pre ++ (cells o p b ++ post)) b (b + size o) [b] p
  | .defn m ws, p, b, pre, post, hb => by
    intro i n h1 h2 hi
    subst hb
    have : i = pre.length := by simp only [size] at h2; omega
    subst this
    simp only [cells, List.singleton_append] at hi
    rw [get_mid] at hi
    cases hi
    exact ⟨by simp [Node.kids], by simp [Node.kids], Or.inl ⟨by simp, rfl⟩⟩
  | .scope m os, p, b, pre, post, hb => by
    intro i n h1 h2 hi
    subst hb
    have hsz : size (.scope m os) = 1 + sizeKids os := by rw [size]
    have hre : pre ++ (cells (.scope m os) p pre.length ++ post) =
        (pre ++ [Node.scope m (kidIds os (pre.length + 1)) p]) ++ (kidCells os pre.length (pre.length + 1) ++ post) := by
      simp only [cells, List.cons_append, List.append_assoc, List.nil_append]
    have hroot : (pre ++ (cells (.scope m os) p pre.length ++ post))[pre.length]? =
        some (Node.scope m (kidIds os (pre.length + 1)) p) := by
      simp only [cells, List.cons_append]
      rw [get_mid]
    by_cases hib : i = pre.length
    · subst hib
      rw [hroot] at hi
      cases hi
      refine ⟨kidIds_nodup _ _, ?_, Or.inl ⟨by simp, rfl⟩⟩
      intro k hk
      simp only [Node.kids] at hk
      have hbd := kidIds_bounds os (pre.length + 1) k hk
      refine ⟨by omega, by omega, ?_⟩
      rw [hre]
      exact kidCells_roots os pre.length (pre.length + 1) _ post (by simp) k hk
    · have ih := kidCells_range os pre.length (pre.length + 1)
        (pre ++ [Node.scope m (kidIds os (pre.length + 1)) p]) post (by simp)
      rw [← hre] at ih
      have c := ih i n (by omega) (by omega) hi
      refine ⟨c.nodup, ?_, ?_⟩
      · intro k hk
        obtain ⟨a, b1, c1⟩ := c.kids k hk
        exact ⟨a, by omega, c1⟩
      · rcases c.par with ⟨h1', h2'⟩ | ⟨q, nq, h1', h2', h3', h4'⟩
        · exact Or.inr ⟨pre.length, _, h2', Nat.le_refl _, by omega, hroot, rfl, h1'⟩
        · exact Or.inr ⟨q, nq, h1', by omega, h3', h4'⟩
theorem kidCells_range : ∀ (os : List Obj) (q : Nat) (b : Nat) (pre post : Heap), pre.length = b →
    RangeOK (pre ++ (kidCells os q b ++ post)) b (b + sizeKids os) (kidIds os b) (some q)
  | [], _, _, _, _, _ => by
    intro i n h1 h2 _
    simp only [sizeKids] at h2
    omega
  | o :: os, q, b, pre, post, hb => by
    intro i n h1 h2 hi
    have hre : pre ++ (kidCells (o :: os) q b ++ post) =
        pre ++ (cells o (some q) b ++ (kidCells os q (b + size o) ++ post)) := by
      simp only [kidCells, List.append_assoc]
    have hre2 : pre ++ (kidCells (o :: os) q b ++ post) =
        (pre ++ cells o (some q) b) ++ (kidCells os q (b + size o) ++ post) := by
      simp only [kidCells, List.append_assoc]
    rw [sizeKids] at h2
    by_cases hlt : i < b + size o
    · have ih := cells_range o (some q) b pre (kidCells os q (b + size o) ++ post) hb
      rw [← hre] at ih
      exact (ih i n h1 hlt hi).widen (Nat.le_refl _) (by rw [sizeKids]; omega) (by
        intro r hr
        simp only [List.mem_singleton] at hr
        subst hr
        simp [kidIds])
    · have ih := kidCells_range os q (b + size o) (pre ++ cells o (some q) b) post
        (by rw [List.length_append, cells_length, hb])
      rw [← hre2] at ih
      exact (ih i n (by omega) (by omega) hi).widen (by omega) (by rw [sizeKids]; omega) (by
        intro r hr
        simp only [kidIds, List.mem_cons]
        exact Or.inr hr)
end

/-- a heap that is ONE tree rooted at object 0 (without parent) -/
def TreeHeap (H : Heap) : Prop := RangeOK H 0 H.length [0] none

theorem cells_treeHeap (o : Obj) : TreeHeap (cells o none 0) := by
  have := cells_range o none 0 [] [] rfl
  simp only [List.nil_append, List.append_nil, Nat.zero_add] at this
  unfold TreeHeap
  rw [cells_length]
  exact this

theorem TreeHeap.cell {H : Heap} (t : TreeHeap H) {i : Nat} {n : Node} (hi : H[i]? = some n) :
    CellOK H 0 H.length [0] none i n :=
  t i n (Nat.zero_le _) (List.getElem?_eq_some_iff.mp hi).1 hi

theorem TreeHeap.closedB {H : Heap} (t : TreeHeap H) : closedB H = true := by
  unfold Heap.closedB
  rw [List.all_eq_true]
  intro n hn
  obtain ⟨i, hi⟩ := List.mem_iff_getElem?.mp hn
  have c := t.cell hi
  have hil : i < H.length := (List.getElem?_eq_some_iff.mp hi).1
  rw [List.all_eq_true]
  intro k hk
  apply decide_eq_true
  rcases List.mem_append.mp hk with hk | hk
  · exact (c.kids k hk).2.1
  · rcases c.par with ⟨_, h2⟩ | ⟨q, nq, h1, _, h3, _⟩
    · rw [h2] at hk; simp at hk
    · rw [h1] at hk
      simp only [Option.toList_some, List.mem_singleton] at hk
      omega

theorem TreeHeap.kidsLinkedB {H : Heap} (t : TreeHeap H) : kidsLinkedB H = true := by
  unfold Heap.kidsLinkedB
  rw [List.all_eq_true]
  intro i _
  cases hi : H[i]? with
  | none => rfl
  | some n =>
    simp only
    rw [List.all_eq_true]
    intro k hk
    obtain ⟨_, _, nk, hnk, hp⟩ := (t.cell hi).kids k hk
    rw [hnk]
    simp [hp]

theorem TreeHeap.parentListsB {H : Heap} (t : TreeHeap H) : parentListsB H = true := by
  unfold Heap.parentListsB
  rw [List.all_eq_true]
  intro i _
  cases hi : H[i]? with
  | none => rfl
  | some n =>
    simp only
    rcases (t.cell hi).par with ⟨_, h2⟩ | ⟨q, nq, h1, _, _, h4, h5, h6⟩
    · rw [h2]
    · rw [h1]
      simp only
      rw [h4]
      simp [h5, h6]

theorem TreeHeap.nodupKidsB {H : Heap} (t : TreeHeap H) : nodupKidsB H = true := by
  unfold Heap.nodupKidsB
  rw [List.all_eq_true]
  intro n hn
  obtain ⟨i, hi⟩ := List.mem_iff_getElem?.mp hn
  exact decide_eq_true (t.cell hi).nodup

/-- parents have smaller ids: the parent chain of `x` ends within `x + 1` steps -/
theorem TreeHeap.rootOf_isSome {H : Heap} (t : TreeHeap H) : ∀ (f x : Nat), x < f → x < H.length →
    (rootOf f H x).isSome = true
  | 0, _, h, _ => by omega
  | f + 1, x, hf, hx => by
    rw [rootOf, List.getElem?_eq_getElem hx]
    simp only
    have c := t.cell (List.getElem?_eq_getElem hx)
    rcases c.par with ⟨_, h2⟩ | ⟨q, nq, h1, _, h3, _⟩
    · rw [h2]; rfl
    · rw [h1]
      exact t.rootOf_isSome f q (by omega) (by omega)

theorem TreeHeap.acyclicB {H : Heap} (t : TreeHeap H) : acyclicB H = true := by
  unfold Heap.acyclicB
  rw [List.all_eq_true]
  intro i hi
  have := List.mem_range.mp hi
  exact t.rootOf_isSome (H.length + 1) i (by omega) this

theorem TreeHeap.wfB {H : Heap} (t : TreeHeap H) : wfB H = true := by
  unfold Heap.wfB
  rw [t.closedB, t.kidsLinkedB, t.parentListsB, t.nodupKidsB, t.acyclicB]
  rfl

/-- in a tree heap children have greater ids: fuel `H.length - i` is enough to abstract object `i` -/
theorem TreeHeap.absF_isSome {H : Heap} (t : TreeHeap H) : ∀ (f i : Nat), i < H.length → H.length - i ≤ f →
    (absF f H i).isSome = true
  | 0, i, h1, h2 => by omega
  | f + 1, i, hi, hf => by
    rw [absF, List.getElem?_eq_getElem hi]
    have c := t.cell (List.getElem?_eq_getElem hi)
    cases hn : H[i] with
    | defn m ws p => rfl
    | scope m ks p =>
      rw [hn] at c
      simp only
      have : ∀ (l : List Nat), (∀ k ∈ l, k ∈ ks) → (mapOpt (absF f H) l).isSome = true := by
        intro l
        induction l with
        | nil => intro _; rfl
        | cons k l ih =>
          intro hl
          have hk := c.kids k (hl k (by simp))
          have h1 := t.absF_isSome f k hk.2.1 (by omega)
          have h2 := ih (fun k' hk' => hl k' (by simp [hk']))
          simp only [mapOpt]
          cases ha : absF f H k with
          | none => rw [ha] at h1; cases h1
          | some ok =>
            cases hb : mapOpt (absF f H) l with
            | none => rw [hb] at h2; cases h2
            | some oks => rfl
      have h3 := this ks (fun k hk => hk)
      cases hm : mapOpt (absF f H) ks with
      | none => rw [hm] at h3; cases h3
      | some os => rfl

/-- every object of a tree heap denotes an abstract tree (the executable `abs` answers) -/
theorem TreeHeap.abs_isSome {H : Heap} (t : TreeHeap H) (i : Nat) (hi : i < H.length) : (abs H i).isSome = true :=
  t.absF_isSome (H.length + 1) i hi (by omega)

theorem ofObjs_eq (os : List Obj) : ofObjs os = cells (.scope { name := [] } os) none 0 := by
  simp [ofObjs, build]

theorem ofObjs_treeHeap (os : List Obj) : TreeHeap (ofObjs os) := by
  rw [ofObjs_eq]; exact cells_treeHeap _

/-! ### `build` into an existing heap keeps `closedB` / `kidsLinkedB` -/

theorem closedB_complete {h : Heap} (hc : Closed h) : closedB h = true := by
  unfold closedB
  rw [List.all_eq_true]
  intro n hn
  obtain ⟨i, hi⟩ := List.mem_iff_getElem?.mp hn
  rw [List.all_eq_true]
  intro k hk
  exact decide_eq_true (hc i n hi k hk)

theorem kidsLinkedB_complete {h : Heap} (hl : KidsLinked h) : kidsLinkedB h = true := by
  unfold kidsLinkedB
  rw [List.all_eq_true]
  intro i _
  cases hi : h[i]? with
  | none => rfl
  | some n =>
    simp only
    rw [List.all_eq_true]
    intro k hk
    obtain ⟨nk, hnk, hp⟩ := hl i n hi k hk
    rw [hnk]
    simp [hp]

theorem build_closed (o : Obj) (p : Option Nat) (h : Heap) (hc : Closed h)
    (hp : ∀ q, p = some q → q < h.length + size o) : Closed (build o p h).1 := by
  have R := cells_range o p h.length h [] rfl
  rw [List.append_nil] at R
  have hlen : (build o p h).1.length = h.length + size o := (build_frame o p h).1
  intro i n hi k hk
  rw [hlen]
  simp only [build] at hi
  by_cases hlt : i < h.length
  · rw [List.getElem?_append_left hlt] at hi
    have := hc i n hi k hk
    omega
  · have hil : i < h.length + size o := by
      have := (List.getElem?_eq_some_iff.mp hi).1
      rw [List.length_append, cells_length] at this
      exact this
    have c := R i n (by omega) hil hi
    rcases List.mem_append.mp hk with hk | hk
    · exact (c.kids k hk).2.1
    · rcases c.par with ⟨_, h2⟩ | ⟨q, nq, h1, _, h3, _⟩
      · rw [h2] at hk
        cases p with
        | none => simp at hk
        | some q =>
          simp only [Option.toList_some, List.mem_singleton] at hk
          subst hk
          exact hp k rfl
      · rw [h1] at hk
        simp only [Option.toList_some, List.mem_singleton] at hk
        omega

theorem build_kidsLinked (o : Obj) (p : Option Nat) (h : Heap) (hc : Closed h) (hl : KidsLinked h) :
    KidsLinked (build o p h).1 := by
  have R := cells_range o p h.length h [] rfl
  rw [List.append_nil] at R
  intro i n hi k hk
  simp only [build] at hi ⊢
  by_cases hlt : i < h.length
  · rw [List.getElem?_append_left hlt] at hi
    obtain ⟨nk, hnk, hp⟩ := hl i n hi k hk
    have hkl : k < h.length := hc i n hi k (mem_succs_of_kid hk)
    exact ⟨nk, by rw [List.getElem?_append_left hkl]; exact hnk, hp⟩
  · have hil : i < h.length + size o := by
      have := (List.getElem?_eq_some_iff.mp hi).1
      rw [List.length_append, cells_length] at this
      exact this
    exact (R i n (by omega) hil hi).kids k hk |>.2.2

end Phil.Heap
