/-
  Simulation of the heap-level fetch by the pure model: whenever `fetchH` (Phil/HeapFetch2.lean) returns, the pure
  `fetchScope` (Phil/Fetch.lean, non-diff) returns on the abstractions of master and sources, and the result object
  denotes the pure result.  Helper lemmas for Phil/Props/C17FetchHeapAbs.lean.
-/
import Phil.Proofs.HeapFetchLemmas
namespace Phil.Heap
open Phil

/-! ### lists related element by element -/

def Rel2 {α β : Type} (R : α → β → Prop) : List α → List β → Prop
  | [], [] => True
  | a :: as, b :: bs => R a b ∧ Rel2 R as bs
  | _, _ => False

theorem Rel2.imp {α β : Type} {R S : α → β → Prop} (h : ∀ a b, R a b → S a b) :
    ∀ {l : List α} {l' : List β}, Rel2 R l l' → Rel2 S l l'
  | [], [], _ => trivial
  | _ :: _, _ :: _, ⟨h1, h2⟩ => ⟨h _ _ h1, Rel2.imp h h2⟩
  | [], _ :: _, hr => hr.elim
  | _ :: _, [], hr => hr.elim

theorem Rel2.length {α β : Type} {R : α → β → Prop} :
    ∀ {l : List α} {l' : List β}, Rel2 R l l' → l.length = l'.length
  | [], [], _ => rfl
  | _ :: _, _ :: _, ⟨_, h2⟩ => by simp [Rel2.length h2]
  | [], _ :: _, hr => hr.elim
  | _ :: _, [], hr => hr.elim

theorem Rel2.append {α β : Type} {R : α → β → Prop} :
    ∀ {l1 : List α} {l1' : List β} {l2 : List α} {l2' : List β}, Rel2 R l1 l1' → Rel2 R l2 l2' →
      Rel2 R (l1 ++ l2) (l1' ++ l2')
  | [], [], _, _, _, h => h
  | _ :: _, _ :: _, _, _, ⟨h1, h2⟩, h => ⟨h1, Rel2.append h2 h⟩
  | [], _ :: _, _, _, hr, _ => hr.elim
  | _ :: _, [], _, _, hr, _ => hr.elim

theorem Rel2.filter {α β : Type} {R : α → β → Prop} (p : α → Bool) (q : β → Bool)
    (hpq : ∀ a b, R a b → p a = q b) :
    ∀ {l : List α} {l' : List β}, Rel2 R l l' → Rel2 R (l.filter p) (l'.filter q)
  | [], [], _ => trivial
  | a :: as, b :: bs, ⟨h1, h2⟩ => by
    simp only [List.filter_cons, hpq a b h1]
    cases q b
    · exact Rel2.filter p q hpq h2
    · exact ⟨h1, Rel2.filter p q hpq h2⟩
  | [], _ :: _, hr => hr.elim
  | _ :: _, [], hr => hr.elim

theorem Rel2.flatMap {α β γ δ : Type} {R : α → β → Prop} {S : γ → δ → Prop} (f : α → List γ) (g : β → List δ)
    (hfg : ∀ a b, R a b → Rel2 S (f a) (g b)) :
    ∀ {l : List α} {l' : List β}, Rel2 R l l' → Rel2 S (l.flatMap f) (l'.flatMap g)
  | [], [], _ => trivial
  | a :: as, b :: bs, ⟨h1, h2⟩ => by
    simp only [List.flatMap_cons]
    exact Rel2.append (hfg a b h1) (Rel2.flatMap f g hfg h2)
  | [], _ :: _, hr => hr.elim
  | _ :: _, [], hr => hr.elim

theorem Rel2.map {α β γ δ : Type} {R : α → β → Prop} {S : γ → δ → Prop} (f : α → γ) (g : β → δ)
    (hfg : ∀ a b, R a b → S (f a) (g b)) :
    ∀ {l : List α} {l' : List β}, Rel2 R l l' → Rel2 S (l.map f) (l'.map g)
  | [], [], _ => trivial
  | a :: as, b :: bs, ⟨h1, h2⟩ => ⟨hfg a b h1, Rel2.map f g hfg h2⟩
  | [], _ :: _, hr => hr.elim
  | _ :: _, [], hr => hr.elim

theorem Rel2.get {α β : Type} {R : α → β → Prop} :
    ∀ {l : List α} {l' : List β} {i : Nat} {a : α} {b : β}, Rel2 R l l' → l[i]? = some a → l'[i]? = some b → R a b
  | [], [], _, _, _, _, h, _ => by simp at h
  | _ :: _, _ :: _, 0, _, _, ⟨h1, _⟩, ha, hb => by
    simp only [List.getElem?_cons_zero, Option.some.injEq] at ha hb
    exact ha ▸ hb ▸ h1
  | _ :: _, _ :: _, i + 1, _, _, ⟨_, h2⟩, ha, hb => by
    simp only [List.getElem?_cons_succ] at ha hb
    exact Rel2.get h2 ha hb
  | [], _ :: _, _, _, _, hr, _, _ => hr.elim
  | _ :: _, [], _, _, _, hr, _, _ => hr.elim

theorem Rel2.zipIdx {α β : Type} {R : α → β → Prop} :
    ∀ {l : List α} {l' : List β} (k : Nat), Rel2 R l l' →
      Rel2 (fun (p : α × Nat) (q : β × Nat) => R p.1 q.1 ∧ p.2 = q.2) (l.zipIdx k) (l'.zipIdx k)
  | [], [], _, _ => trivial
  | _ :: _, _ :: _, k, ⟨h1, h2⟩ => by
    simp only [List.zipIdx_cons]
    exact ⟨⟨h1, rfl⟩, Rel2.zipIdx (k + 1) h2⟩
  | [], _ :: _, _, hr => hr.elim
  | _ :: _, [], _, hr => hr.elim

theorem Rel2.filterMap_id {α β : Type} {R : α → β → Prop} :
    ∀ {l : List (Option α)} {l' : List (Option β)},
      Rel2 (fun a b => match a, b with | none, none => True | some x, some y => R x y | _, _ => False) l l' →
      Rel2 R (l.filterMap (fun x => x)) (l'.filterMap (fun x => x))
  | [], [], _ => trivial
  | none :: _, none :: _, ⟨_, h2⟩ => by
    simp only [List.filterMap_cons]
    exact Rel2.filterMap_id h2
  | some _ :: _, some _ :: _, ⟨h1, h2⟩ => by
    simp only [List.filterMap_cons]
    exact ⟨h1, Rel2.filterMap_id h2⟩
  | none :: _, some _ :: _, ⟨h1, _⟩ => h1.elim
  | some _ :: _, none :: _, ⟨h1, _⟩ => h1.elim
  | [], _ :: _, hr => hr.elim
  | _ :: _, [], hr => hr.elim

/-! ### abstraction -/

abbrev AbsL (h : Heap) : List Nat → List Obj → Prop := Rel2 (Abs h)

theorem mapOpt_imp {α β : Type} {f g : α → Option β} : ∀ {l : List α} {r : List β},
    (∀ a ∈ l, ∀ b, f a = some b → g a = some b) → mapOpt f l = some r → mapOpt g l = some r
  | [], _, _, h => h
  | a :: as, r, hi, h => by
    simp only [mapOpt] at h ⊢
    cases hfa : f a with
    | none => rw [hfa] at h; simp at h
    | some b =>
      rw [hfa] at h
      cases hm : mapOpt f as with
      | none => rw [hm] at h; simp at h
      | some bs =>
        rw [hm] at h
        rw [hi a (by simp) b hfa, mapOpt_imp (fun x hx => hi x (by simp [hx])) hm]
        exact h

theorem absF_append : ∀ (f : Nat) (h ext : Heap) (x : Nat) (o : Obj), absF f h x = some o → absF f (h ++ ext) x = some o
  | 0, _, _, _, _, h => by simp [absF] at h
  | f + 1, h, ext, x, o, ha => by
    simp only [absF] at ha ⊢
    cases hx : h[x]? with
    | none => rw [hx] at ha; simp at ha
    | some n =>
      rw [hx] at ha
      rw [getElem?_append_some ext hx]
      cases n with
      | defn m ws p => exact ha
      | scope m ks p =>
        simp only at ha ⊢
        cases hm : mapOpt (absF f h) ks with
        | none => rw [hm] at ha; simp at ha
        | some os =>
          rw [hm] at ha
          rw [mapOpt_imp (fun k _ b hb => absF_append f h ext k b hb) hm]
          exact ha

theorem Abs.append {h : Heap} {x : Nat} {o : Obj} (a : Abs h x o) (ext : Heap) : Abs (h ++ ext) x o := by
  obtain ⟨f, hf⟩ := a
  exact ⟨f, absF_append f h ext x o hf⟩

theorem Abs.ext {s s' : HS} {x : Nat} {o : Obj} (a : Abs s.heap x o) (e : HExt s s') : Abs s'.heap x o := by
  obtain ⟨⟨ext, he⟩, _⟩ := e
  rw [he]; exact a.append ext

theorem AbsL.ext {s s' : HS} {l : List Nat} {os : List Obj} (a : AbsL s.heap l os) (e : HExt s s') : AbsL s'.heap l os :=
  Rel2.imp (fun _ _ h => Abs.ext h e) a

theorem AbsL_of_mapOpt {h : Heap} {f : Nat} : ∀ {ks : List Nat} {os : List Obj},
    mapOpt (absF f h) ks = some os → AbsL h ks os
  | [], os, hm => by simp only [mapOpt, Option.some.injEq] at hm; subst hm; trivial
  | k :: ks, os, hm => by
    simp only [mapOpt] at hm
    cases hk : absF f h k with
    | none => rw [hk] at hm; simp at hm
    | some b =>
      rw [hk] at hm
      cases hr : mapOpt (absF f h) ks with
      | none => rw [hr] at hm; simp at hm
      | some bs =>
        rw [hr] at hm
        simp only [Option.some.injEq] at hm
        subst hm
        exact ⟨⟨f, hk⟩, AbsL_of_mapOpt hr⟩

theorem mapOpt_of_AbsL {h : Heap} : ∀ {ks : List Nat} {os : List Obj},
    AbsL h ks os → ∃ f, mapOpt (absF f h) ks = some os
  | [], [], _ => ⟨0, rfl⟩
  | k :: ks, o :: os, ⟨⟨f1, h1⟩, h2⟩ => by
    obtain ⟨f2, h2'⟩ := mapOpt_of_AbsL h2
    refine ⟨max f1 f2, ?_⟩
    simp only [mapOpt]
    rw [absF_mono_le h k o f1 _ (Nat.le_max_left _ _) h1,
      mapOpt_imp (fun a _ b hb => absF_mono_le h a b f2 _ (Nat.le_max_right f1 f2) hb) h2']
  | [], _ :: _, hr => hr.elim
  | _ :: _, [], hr => hr.elim

theorem Abs_scope_intro {h : Heap} {x : Nat} {m : Meta} {ks : List Nat} {p : Option Nat} {os : List Obj}
    (hx : h[x]? = some (.scope m ks p)) (hk : AbsL h ks os) : Abs h x (.scope m os) := by
  obtain ⟨f, hf⟩ := mapOpt_of_AbsL hk
  exact ⟨f + 1, by simp only [absF, hx, hf, Option.map_some]⟩

theorem Abs_defn_intro {h : Heap} {x : Nat} {m : Meta} {ws : List Word} {p : Option Nat}
    (hx : h[x]? = some (.defn m ws p)) : Abs h x (.defn m ws) :=
  ⟨1, by simp only [absF, hx]⟩

/-- what `Abs` says about the cell -/
theorem Abs_cell {h : Heap} {x : Nat} {o : Obj} (a : Abs h x o) :
    (∃ m ws p, h[x]? = some (.defn m ws p) ∧ o = .defn m ws) ∨
    (∃ m ks p os, h[x]? = some (.scope m ks p) ∧ o = .scope m os ∧ AbsL h ks os) := by
  obtain ⟨f, hf⟩ := a
  cases f with
  | zero => simp [absF] at hf
  | succ f =>
    simp only [absF] at hf
    cases hx : h[x]? with
    | none => rw [hx] at hf; simp at hf
    | some n =>
      rw [hx] at hf
      cases n with
      | defn m ws p =>
        simp only [Option.some.injEq] at hf
        exact .inl ⟨m, ws, p, rfl, hf.symm⟩
      | scope m ks p =>
        simp only at hf
        cases hm : mapOpt (absF f h) ks with
        | none => rw [hm] at hf; simp at hf
        | some os =>
          rw [hm] at hf
          simp only [Option.map_some, Option.some.injEq] at hf
          exact .inr ⟨m, ks, p, os, rfl, hf.symm, AbsL_of_mapOpt hm⟩

theorem Abs_liveB {h : Heap} {x : Nat} {o : Obj} (a : Abs h x o) : liveB h x = !o.meta.disabled := by
  rcases Abs_cell a with ⟨m, ws, p, hx, rfl⟩ | ⟨m, ks, p, os, hx, rfl, _⟩ <;> simp [liveB, hx, Node.meta, Obj.meta]

theorem Abs_isDefnAt {h : Heap} {x : Nat} {o : Obj} (a : Abs h x o) : isDefnAt h x = o.isDefn := by
  rcases Abs_cell a with ⟨m, ws, p, hx, rfl⟩ | ⟨m, ks, p, os, hx, rfl, _⟩ <;>
    simp [isDefnAt, hx, Node.isScope, Obj.isDefn]

theorem Abs_nameAt {h : Heap} {x : Nat} {o : Obj} (a : Abs h x o) : nameAt h x = o.name := by
  rcases Abs_cell a with ⟨m, ws, p, hx, rfl⟩ | ⟨m, ks, p, os, hx, rfl, _⟩ <;>
    simp [nameAt, hx, Node.meta, Obj.name, Obj.meta]

theorem Abs_kidsOf {h : Heap} {x : Nat} {o : Obj} (a : Abs h x o) : AbsL h (kidsOf h x) o.children := by
  rcases Abs_cell a with ⟨m, ws, p, hx, rfl⟩ | ⟨m, ks, p, os, hx, rfl, hk⟩
  · simp only [kidsOf, hx, Node.kids, Obj.children]; trivial
  · simp only [kidsOf, hx, Node.kids, Obj.children]; exact hk

theorem objMeta_scope (m : Meta) (os : List Obj) : (Obj.scope m os).meta = m := rfl
theorem objMeta_defn (m : Meta) (ws : List Word) : (Obj.defn m ws).meta = m := rfl
theorem nodeMeta_scope (m : Meta) (ks : List Nat) (p : Option Nat) : (Node.scope m ks p).meta = m := rfl
theorem nodeMeta_defn (m : Meta) (ws : List Word) (p : Option Nat) : (Node.defn m ws p).meta = m := rfl

/-- `get_without_substitution` on cells returns the cells of what the pure function returns -/
theorem getWS_abs : ∀ (f : Nat) (h : Heap) (x : Nat) (o : Obj) (path : Str), Abs h x o →
    AbsL h (getWS f h x path) (getWithoutSubst f o path)
  | 0, _, _, _, _, _ => trivial
  | f + 1, h, x, o, path, a => by
    rcases Abs_cell a with ⟨m, ws, p, hx, rfl⟩ | ⟨m, ks, p, os, hx, rfl, hk⟩
    · simp only [getWS, hx, nodeMeta_defn, getWithoutSubst, objMeta_defn]
      by_cases hd : m.disabled = true
      · simp only [hd, ↓reduceIte]; trivial
      · simp only [hd, ↓reduceIte]
        by_cases hn : (m.name == path) = true
        · simp only [hn, ↓reduceIte]; exact ⟨a, trivial⟩
        · simp only [hn, ↓reduceIte]; trivial
    · simp only [getWS, hx, nodeMeta_scope, getWithoutSubst, objMeta_scope]
      have hfm : ∀ pth, AbsL h ((ks.filter (liveB h)).flatMap (fun k => getWS f h k pth))
          ((os.filter (fun k => !k.meta.disabled)).flatMap (fun k => getWithoutSubst f k pth)) := fun pth =>
        Rel2.flatMap _ _ (fun k ko hko => getWS_abs f h k ko pth hko)
          (Rel2.filter _ _ (fun k ko hko => Abs_liveB hko) hk)
      by_cases hd : m.disabled = true
      · simp only [hd, ↓reduceIte]; trivial
      · simp only [hd, ↓reduceIte]
        by_cases he : m.name.isEmpty = true
        · simp only [he, ↓reduceIte]
          by_cases hp : path.isEmpty = true
          · simp only [hp, ↓reduceIte]; exact hk
          · simp only [hp, ↓reduceIte]; exact hfm _
        · simp only [he, ↓reduceIte]
          by_cases hn : (m.name == path) = true
          · simp only [hn, ↓reduceIte]; exact ⟨a, trivial⟩
          · simp only [hn, ↓reduceIte]
            by_cases hs : startsWith (m.name ++ ['.']) path = true
            · simp only [hs, ↓reduceIte]; exact hfm _
            · simp only [hs, ↓reduceIte]; trivial

/-! ### the pure model, with its loop bodies named -/

/-- the bookkeeping of `processed_as_str` / `result_objs` (non-diff) -/
def ctailP (e : Envs) (fuel : Nat) (mo : Obj) (masterStr : Str) (robjs : List (Option Obj)) (processed : List (Str × Int))
    (used u : List Nat) (c : Obj) : R (List (Option Obj) × List (Str × Int) × List Nat) :=
  match extractFormatStr e (fuel + 64) mo c with
  | .error err => .error err
  | .ok cs =>
    if cs == masterStr then .ok (robjs, processed, used ++ u)
    else
      let prev : Option (Str × Int) := processed.find? (fun (p : Str × Int) => p.1 == cs)
      if (match prev with | some p => p.2 == -1 | none => false) then .ok (robjs, processed, used ++ u)
      else
        let robjs : List (Option Obj) := match prev with
          | some p => robjs.zipIdx.map (fun (xi : Option Obj × Nat) => if (xi.2 : Int) == p.2 then none else xi.1)
          | none => robjs
        let processed : List (Str × Int) := processed.filter (fun (p : Str × Int) => p.1 != cs)
        .ok (robjs ++ [some c], processed ++ [(cs, (robjs.length : Int))], used ++ u)

/-- `candidate = master_object.fetch(source=matching_source)` (non-diff) -/
def candP (e : Envs) (fuel : Nat) (mo : Obj) (fromM : Bool) (ms : Obj) : R (Option Obj × List Nat) :=
  match mo, ms with
  | .defn _ _, _ =>
    (fetchDefn e fuel false mo ms).map (fun ro =>
      (ro, (match ms.meta.id with | some i => (if fromM then [] else [i]) | none => []) ++ (if fromM then [] else srcRefs ms)))
  | .scope mm kids, .scope _ skids =>
    (fetchScope e fuel false mm kids skids).map (fun (ro, u) => (some ro, if fromM then [] else u))
  | .scope _ _, .defn _ _ => .error (.runtime "incompatible" none)

def cstepP (e : Envs) (fuel : Nat) (mo : Obj) (masterStr : Str) :
    (List (Option Obj) × List (Str × Int) × List Nat) → (Bool × Obj) → R (List (Option Obj) × List (Str × Int) × List Nat) :=
  fun acc fm =>
    match candP e fuel mo fm.1 fm.2 with
    | .error err => .error err
    | .ok (none, u) => .ok (acc.1, acc.2.1, acc.2.2 ++ u)
    | .ok (some c, u) => ctailP e fuel mo masterStr acc.1 acc.2.1 acc.2.2 u c

def oneP (e : Envs) (fuel : Nat) (mo : Obj) : (Option Obj × List Nat) → Obj → R (Option Obj × List Nat) :=
  fun acc ms =>
    (fetchDefn e fuel false mo ms).map (fun ro => (ro, acc.2 ++ (match ms.meta.id with | some i => [i] | none => []) ++ srcRefs ms))

def selfP (e : Envs) (fuel : Nat) (mo : Obj) : R (Obj × List Nat) :=
  match mo with
  | .scope mm kids => fetchScope e fuel false mm kids []
  | .defn _ _ => .error .outOfFuel

def matchingP (fuel : Nat) (sm : Meta) (combined : List Obj) (mo : Obj) : List Obj :=
  (getWithoutSubst (fuel + 64) (.scope { sm with tmpl := 0 } combined)
    (if sm.name.isEmpty then mo.name else sm.name ++ '.' :: mo.name)).filter (fun (o : Obj) => !o.meta.disabled)

def multiTailP (e : Envs) (fuel : Nat) (mkids : List Obj) (idx : Nat) (mo : Obj) (masterStr : Str) (mP : List Obj)
    (out : List Obj) (used : List Nat) : R (List Obj × List Nat) :=
  match (((mkids.zipIdx.filter (fun (p : Obj × Nat) => !p.1.meta.disabled && p.1.name == mo.name && p.2 != idx)).map
          (fun (p : Obj × Nat) => (true, p.1))) ++ mP.map (fun (o : Obj) => (false, o))).foldlM
        (cstepP e fuel mo masterStr) (([] : List (Option Obj)), ([] : List (Str × Int)), used) with
  | .error err => .error err
  | .ok (robjs, processed, used) =>
    .ok (out ++ (if (mo.attr "optional").mandatory then [defaultInstOf mo (selfP e fuel mo)]
                  else [withTmpl mo (if processed.isEmpty then 1 else -1)]) ++
          robjs.filterMap (fun (x : Option Obj) => x), used)

def stepP (e : Envs) (fuel : Nat) (sm : Meta) (mkids combined : List Obj) :
    (List Obj × List Nat) → (Nat × Obj) → R (List Obj × List Nat) := fun st io =>
  if !isMultiple io.2 then
    match io.2 with
    | .defn mm _ =>
      (match (matchingP fuel sm combined io.2).foldlM (oneP e fuel io.2) ((none : Option Obj), st.2) with
       | .error err => .error err
       | .ok (some ro, used) => .ok (st.1 ++ [ro], used)
       | .ok (none, used) =>
         if !(mm.attrs.get "deprecated").truthy then .ok (st.1 ++ [io.2], used) else .ok (st.1, used))
    | .scope mm kids =>
      (match (matchingP fuel sm combined io.2).find? (·.isDefn) with
       | some _ => Except.error (.runtime "incompatible" none)
       | none =>
         match fetchScope e fuel false mm kids ((matchingP fuel sm combined io.2).flatMap Obj.children) with
         | .error err => .error err
         | .ok (ro, u2) => .ok (st.1 ++ [ro], st.2 ++ u2))
  else
    match masterKeyOf e fuel io.2 (selfP e fuel io.2) with
    | .error err => .error err
    | .ok masterStr =>
      multiTailP e fuel mkids io.1 io.2 masterStr (matchingP fuel sm combined io.2) st.1 st.2

theorem fetchScope_succ (e : Envs) (fuel : Nat) (sm : Meta) (mkids combined : List Obj) :
    fetchScope e (fuel + 1) false sm mkids combined =
      match masterActiveObjects mkids with
      | .error err => .error err
      | .ok actives =>
        match actives.foldlM (stepP e fuel sm mkids combined) (([] : List Obj), ([] : List Nat)) with
        | .error err => .error err
        | .ok (out, used) => .ok (.scope { sm with tmpl := 0 } out, used) := by
  rw [fetchScope]
  rfl

theorem fetchDefn_false (e : Envs) (fuel : Nat) (m s : Obj) : fetchDefn e fuel false m s = fetchValue m s := by
  unfold fetchDefn
  cases fetchValue m s <;> rfl

theorem fetchValue_shape {mm : Meta} {mws : List Word} {src ro : Obj}
    (h : fetchValue (.defn mm mws) src = .ok (some ro)) : ro = .defn { mm with tmpl := 0 } (objWords ro) := by
  unfold fetchValue at h
  split at h
  · rename_i a1 a2 mm' mws' smeta sws0 heq
    cases heq
    split at h
    · cases h
    · dsimp only at h
      split at h
      · cases h
      · split at h
        · generalize choiceFetch _ _ _ = cf at h
          cases cf with
          | error err => cases h
          | ok ws =>
            simp only [Except.map, Except.ok.injEq, Option.some.injEq] at h
            subst h; rfl
        · simp only [Except.ok.injEq, Option.some.injEq] at h
          subst h; rfl
  · cases h
  · cases h

/-! ### `master_active_objects` returns positions of the list -/

theorem zipIdx_get {α : Type} : ∀ (l : List α) (k : Nat) (q : α × Nat), q ∈ l.zipIdx k →
    k ≤ q.2 ∧ l[q.2 - k]? = some q.1
  | [], _, _, h => by simp at h
  | a :: as, k, q, h => by
    rw [List.zipIdx_cons] at h
    rcases List.mem_cons.mp h with h | h
    · subst h; simp
    · obtain ⟨h1, h2⟩ := zipIdx_get as (k + 1) q h
      refine ⟨by omega, ?_⟩
      have : q.2 - k = (q.2 - (k + 1)) + 1 := by omega
      rw [this, List.getElem?_cons_succ]; exact h2

theorem mao_go_mem : ∀ (l : List (Nat × Obj)) (seen : List (Str × Obj)) (acc r : List (Nat × Obj)),
    masterActiveObjects.go l seen acc = .ok r → ∀ p ∈ r, p ∈ acc ∨ p ∈ l
  | [], seen, acc, r, h, p, hp => by
    simp only [masterActiveObjects.go, Except.ok.injEq] at h
    subst h
    exact .inl (List.mem_reverse.mp hp)
  | (i, o) :: rest, seen, acc, r, h, p, hp => by
    have hrec : ∀ seen' acc', masterActiveObjects.go rest seen' acc' = .ok r →
        (∀ q ∈ acc', q ∈ acc ∨ q = (i, o)) → p ∈ acc ∨ p ∈ (i, o) :: rest := by
      intro seen' acc' h' hacc
      rcases mao_go_mem rest seen' acc' r h' p hp with h1 | h1
      · rcases hacc p h1 with h2 | h2
        · exact .inl h2
        · exact .inr (h2 ▸ List.mem_cons_self)
      · exact .inr (List.mem_cons_of_mem _ h1)
    simp only [masterActiveObjects.go] at h
    split at h
    · exact hrec _ _ h (fun q hq => .inl hq)
    · split at h
      · exact hrec _ _ h (fun q hq => by
          rcases List.mem_cons.mp hq with h2 | h2
          · exact .inr h2
          · exact .inl h2)
      · split at h
        · exact hrec _ _ h (fun q hq => .inl hq)
        · split at h
          · cases h
          · exact hrec _ _ h (fun q hq => by
              rcases List.mem_cons.mp hq with h2 | h2
              · exact .inr h2
              · exact .inl h2)

theorem masterActiveObjects_get {objs : List Obj} {acts : List (Nat × Obj)}
    (h : masterActiveObjects objs = .ok acts) : ∀ p ∈ acts, objs[p.1]? = some p.2 := by
  intro p hp
  unfold masterActiveObjects at h
  rcases mao_go_mem _ _ _ _ h p hp with h1 | h1
  · cases h1
  · simp only [List.mem_map] at h1
    obtain ⟨q, hq, rfl⟩ := h1
    have := (zipIdx_get objs 0 q hq).2
    simpa using this

/-! ### simulation: pieces -/

def OptRel {α β : Type} (R : α → β → Prop) : Option α → Option β → Prop
  | none, none => True
  | some x, some y => R x y
  | _, _ => False

abbrev OptAbs (h : Heap) : Option Nat → Option Obj → Prop := OptRel (Abs h)

theorem Rel2.diag {α : Type} {R : α → α → Prop} : ∀ {l : List α}, (∀ a ∈ l, R a a) → Rel2 R l l
  | [], _ => trivial
  | a :: as, h => ⟨h a (by simp), Rel2.diag (fun b hb => h b (by simp [hb]))⟩

theorem Rel2.erase {α β : Type} {R : α → β → Prop} {l : List (Option α)} {l' : List (Option β)} (p : Int)
    (h : Rel2 (OptRel R) l l') :
    Rel2 (OptRel R) (l.zipIdx.map (fun (xi : Option α × Nat) => if (xi.2 : Int) == p then none else xi.1))
      (l'.zipIdx.map (fun (xi : Option β × Nat) => if (xi.2 : Int) == p then none else xi.1)) := by
  refine Rel2.map _ _ ?_ (Rel2.zipIdx 0 h)
  intro a b ⟨h1, h2⟩
  rw [h2]
  split
  · trivial
  · exact h1

theorem find_isDefn_none {h : Heap} : ∀ {l : List Nat} {l' : List Obj}, AbsL h l l' →
    l.any (isDefnAt h) = false → l'.find? (·.isDefn) = none
  | [], [], _, _ => rfl
  | a :: as, b :: bs, ⟨h1, h2⟩, hany => by
    simp only [List.any_cons, Bool.or_eq_false_iff] at hany
    rw [Abs_isDefnAt h1] at hany
    simp only [List.find?_cons, hany.1]
    exact find_isDefn_none h2 hany.2
  | [], _ :: _, hr, _ => hr.elim
  | _ :: _, [], hr, _ => hr.elim

theorem fetchValueH_sim {mid sid : Nat} {s s' : HS} {ro : Option Nat} {mo ms : Obj}
    (hm : Abs s.heap mid mo) (hs : Abs s.heap sid ms) (hf : fetchValueH mid sid s = .ok (s', ro)) :
    ∃ po, fetchValue mo ms = .ok po ∧ OptAbs s'.heap ro po := by
  unfold fetchValueH at hf
  split at hf
  · rename_i mm mws mp smeta sws sp hcm hcs
    have hmo : mo = .defn mm mws := Abs_unique hm (Abs_defn_intro hcm)
    have hms : ms = .defn smeta sws := Abs_unique hs (Abs_defn_intro hcs)
    subst hmo hms
    split at hf
    · cases hf
    · split at hf
      · cases hf
      · rename_i r hr
        split at hf
        · cases hf
        · rename_i h2 c2 hcc
          obtain ⟨n, hn, rfl, rfl⟩ := customizedCopy_eq hcc
          split at hf
          · simp only [Except.ok.injEq, Prod.mk.injEq] at hf
            obtain ⟨rfl, rfl⟩ := hf
            exact ⟨none, hr, trivial⟩
          · rename_i ro'
            split at hf
            · cases hf
            · rename_i h3 c hcc3
              obtain ⟨n3, hn3, rfl, rfl⟩ := customizedCopy_eq hcc3
              simp only [Except.ok.injEq, Prod.mk.injEq] at hf
              obtain ⟨rfl, rfl⟩ := hf
              have hm' : (s.heap ++ [ccNode n none (some sws) none])[mid]? = some (.defn mm mws mp) :=
                getElem?_append_some _ hcm
              rw [hm'] at hn3
              cases hn3
              refine ⟨some ro', hr, ?_⟩
              show Abs _ _ ro'
              rw [fetchValue_shape hr]
              refine Abs_defn_intro (p := mp) ?_
              show (s.heap ++ [ccNode n none (some sws) none] ++ _)[(s.heap ++ [ccNode n none (some sws) none]).length]? = _
              rw [List.getElem?_append_right (Nat.le_refl _), Nat.sub_self]
              rfl
  · cases hf
  · cases hf

theorem foldSim {α β σ τ : Type} (stepA : σ → α → R σ) (stepB : τ → β → R τ) (Rel : σ → τ → Prop)
    (RelE : α → β → Prop)
    (hstep : ∀ st st' a b st2, Rel st st' → RelE a b → stepA st a = .ok st2 →
      ∃ st2', stepB st' b = .ok st2' ∧ Rel st2 st2') :
    ∀ (l : List α) (l' : List β) (st : σ) (st' : τ) (t : σ), Rel2 RelE l l' → Rel st st' →
      foldH stepA st l = .ok t → ∃ t', l'.foldlM stepB st' = .ok t' ∧ Rel t t'
  | [], [], st, st', t, _, hr, hf => by
    simp only [foldH, Except.ok.injEq] at hf
    subst hf
    exact ⟨st', rfl, hr⟩
  | a :: as, b :: bs, st, st', t, ⟨h1, h2⟩, hr, hf => by
    simp only [foldH] at hf
    split at hf
    · cases hf
    · rename_i s1 hs
      obtain ⟨s1', hb, hr1⟩ := hstep st st' a b s1 hr h1 hs
      obtain ⟨t', ht, hrt⟩ := foldSim stepA stepB Rel RelE hstep as bs s1 s1' t h2 hr1 hf
      refine ⟨t', ?_, hrt⟩
      simp only [List.foldlM_cons, hb, bind, Except.bind]
      exact ht
  | [], _ :: _, _, _, _, hr, _, _ => hr.elim
  | _ :: _, [], _, _, _, hr, _, _ => hr.elim

/-- the loop over the matching sources of a non-`.multiple` definition -/
theorem oneFold_sim (e : Envs) (fuel : Nat) (mid : Nat) (mo : Obj) (s0 : HS) (hm : Abs s0.heap mid mo)
    (matching : List Nat) (pms : List Obj) (hl : AbsL s0.heap matching pms) (used : List Nat) (s1 : HS) (ro1 : Option Nat)
    (hf : foldH (fun (acc : HS × Option Nat) (ms : Nat) => fetchValueH mid ms acc.1) (s0, none) matching = .ok (s1, ro1)) :
    ∃ po1 used1, pms.foldlM (oneP e fuel mo) ((none : Option Obj), used) = .ok (po1, used1) ∧
      OptAbs s1.heap ro1 po1 ∧ HExt s0 s1 := by
  have := foldSim (fun (acc : HS × Option Nat) (ms : Nat) => fetchValueH mid ms acc.1)
    (oneP e fuel mo)
    (fun acc acc' => HExt s0 acc.1 ∧ OptAbs acc.1.heap acc.2 acc'.1)
    (fun a b => Abs s0.heap a b)
    (by
      intro st st' a b st2 ⟨hx, _⟩ hab hs
      obtain ⟨s2, r2⟩ := st2
      obtain ⟨h1, _⟩ := fetchValueH_spec 0 (Nat.zero_le _) hs
      obtain ⟨po, hpo, habs⟩ := fetchValueH_sim (hm.ext hx) (hab.ext hx) hs
      refine ⟨(po, st'.2 ++ (match b.meta.id with | some i => [i] | none => []) ++ srcRefs b), ?_, hx.trans h1, habs⟩
      unfold oneP
      rw [fetchDefn_false, hpo]
      rfl)
    matching pms (s0, none) (none, used) (s1, ro1) hl ⟨HExt.refl _, trivial⟩ hf
  obtain ⟨⟨po1, used1⟩, h1, h2, h3⟩ := this
  exact ⟨po1, used1, h1, h3, h2⟩

/-! ### simulation: the candidate loop -/

/-- what the callee one level down guarantees about abstractions -/
def RecSim (e : Envs) (fuel n0 : Nat) (rec : Nat → List Nat → HS → R (HS × Nat)) : Prop :=
  ∀ self combined s s' r sm mk sp mobjs cobjs, n0 ≤ s.heap.length → ClosedBelow s.heap n0 → self < n0 →
    s.heap[self]? = some (.scope sm mk sp) → AbsL s.heap mk mobjs → AbsL s.heap combined cobjs →
    rec self combined s = .ok (s', r) →
    ∃ ro used, fetchScope e fuel false sm mobjs cobjs = .ok (ro, used) ∧ Abs s'.heap r ro

theorem ctail_sim (e : Envs) (fuel : Nat) (mo : Obj) (masterStr : Str) {s2 : HS} {robjs : List (Option Nat)}
    {probjs : List (Option Obj)} {processed : List (Str × Int)} (used u : List Nat) {c : Nat} {pc : Obj}
    {acc2 : HS × List (Option Nat) × List (Str × Int)}
    (hrl : Rel2 (OptAbs s2.heap) robjs probjs) (hc : Abs s2.heap c pc)
    (hf : ctailH e fuel mo masterStr s2 robjs processed c = .ok acc2) :
    ∃ acc2', ctailP e fuel mo masterStr probjs processed used u pc = .ok acc2' ∧
      acc2.1 = s2 ∧ Rel2 (OptAbs s2.heap) acc2.2.1 acc2'.1 ∧ acc2.2.2 = acc2'.2.1 := by
  unfold ctailH at hf
  cases ha : abs s2.heap c with
  | none => simp only [ha] at hf; cases hf
  | some co =>
    simp only [ha] at hf
    have hco : co = pc := Abs_unique ⟨_, ha⟩ hc
    subst hco
    unfold ctailP
    cases hx : extractFormatStr e (fuel + 64) mo co with
    | error err => simp only [hx] at hf; cases hf
    | ok cs =>
      simp only [hx, Except.ok.injEq] at hf
      subst hf
      by_cases h1 : (cs == masterStr) = true
      · have hb : bookH robjs processed cs masterStr c = (robjs, processed) := by
          simp only [bookH, h1, ↓reduceIte]
        refine ⟨(probjs, processed, used ++ u), ?_, rfl, ?_, ?_⟩
        · simp only [h1, ↓reduceIte]
        · simp only [hb]; exact hrl
        · simp only [hb]
      · cases hp : processed.find? (fun (p : Str × Int) => p.1 == cs) with
        | none =>
          have hb : bookH robjs processed cs masterStr c =
              (robjs ++ [some c], processed.filter (fun (p : Str × Int) => p.1 != cs) ++ [(cs, (robjs.length : Int))]) := by
            simp only [bookH, h1, hp, Bool.false_eq_true, ↓reduceIte]
          refine ⟨(probjs ++ [some co], processed.filter (fun (p : Str × Int) => p.1 != cs) ++ [(cs, (probjs.length : Int))],
            used ++ u), ?_, rfl, ?_, ?_⟩
          · simp only [h1, hp, Bool.false_eq_true, ↓reduceIte]
          · simp only [hb]; exact Rel2.append hrl ⟨hc, trivial⟩
          · simp only [hb, Rel2.length hrl]
        | some p =>
          by_cases h2 : (p.2 == -1) = true
          · have hb : bookH robjs processed cs masterStr c = (robjs, processed) := by
              simp only [bookH, h1, hp, h2, Bool.false_eq_true, ↓reduceIte]
            refine ⟨(probjs, processed, used ++ u), ?_, rfl, ?_, ?_⟩
            · simp only [h1, hp, h2, Bool.false_eq_true, ↓reduceIte]
            · simp only [hb]; exact hrl
            · simp only [hb]
          · have hb : bookH robjs processed cs masterStr c =
                (robjs.zipIdx.map (fun (xi : Option Nat × Nat) => if (xi.2 : Int) == p.2 then none else xi.1) ++ [some c],
                 processed.filter (fun (p : Str × Int) => p.1 != cs) ++
                  [(cs, ((robjs.zipIdx.map (fun (xi : Option Nat × Nat) => if (xi.2 : Int) == p.2 then none else xi.1)).length : Int))]) := by
              simp only [bookH, h1, hp, h2, Bool.false_eq_true, ↓reduceIte]
            refine ⟨(probjs.zipIdx.map (fun (xi : Option Obj × Nat) => if (xi.2 : Int) == p.2 then none else xi.1) ++ [some co],
                 processed.filter (fun (p : Str × Int) => p.1 != cs) ++
                  [(cs, ((probjs.zipIdx.map (fun (xi : Option Obj × Nat) => if (xi.2 : Int) == p.2 then none else xi.1)).length : Int))],
                 used ++ u), ?_, rfl, ?_, ?_⟩
            · simp only [h1, hp, h2, Bool.false_eq_true, ↓reduceIte]
            · simp only [hb]; exact Rel2.append (Rel2.erase p.2 hrl) ⟨hc, trivial⟩
            · simp only [hb, List.length_map, List.length_zipIdx, Rel2.length hrl]

/-- invariant of the candidate loop: the heap has grown, the kept candidates denote the pure ones, same keys -/
def RelC (s1 : HS) (acc : HS × List (Option Nat) × List (Str × Int))
    (acc' : List (Option Obj) × List (Str × Int) × List Nat) : Prop :=
  HExt s1 acc.1 ∧ Rel2 (OptAbs acc.1.heap) acc.2.1 acc'.1 ∧ acc.2.2 = acc'.2.1

theorem OptAbs_list_ext {s s' : HS} {l : List (Option Nat)} {l' : List (Option Obj)}
    (h : Rel2 (OptAbs s.heap) l l') (e : HExt s s') : Rel2 (OptAbs s'.heap) l l' :=
  Rel2.imp (fun a b hab => by
    cases a <;> cases b
    · trivial
    · exact hab
    · exact hab
    · exact Abs.ext hab e) h

theorem cstepH_sim (e : Envs) {rec : Nat → List Nat → HS → R (HS × Nat)} {n0 fuel : Nat} (hrec : RecOK n0 rec)
    (hsim : RecSim e fuel n0 rec) (mo : Obj) (mid : Nat) (masterStr : Str) (hmid : mid < n0) (s1 : HS)
    (hA : n0 ≤ s1.heap.length) (hcl : ClosedBelow s1.heap n0) (hmo : Abs s1.heap mid mo)
    (acc acc2 : HS × List (Option Nat) × List (Str × Int)) (acc' : List (Option Obj) × List (Str × Int) × List Nat)
    (fm : Bool × Nat) (fm' : Bool × Obj)
    (hq : RelC s1 acc acc') (hfm : fm.1 = fm'.1 ∧ Abs s1.heap fm.2 fm'.2)
    (hf : cstepH e rec fuel mo mid masterStr acc fm = .ok acc2) :
    ∃ acc2', cstepP e fuel mo masterStr acc' fm' = .ok acc2' ∧ RelC s1 acc2 acc2' := by
  obtain ⟨hext, hrl, hpr⟩ := hq
  obtain ⟨s, robjs, processed⟩ := acc
  obtain ⟨probjs, pprocessed, pused⟩ := acc'
  obtain ⟨fb, fid⟩ := fm
  obtain ⟨fb', fo⟩ := fm'
  simp only at hext hrl hpr hfm
  obtain ⟨rfl, hfo⟩ := hfm
  subst hpr
  have hlen : n0 ≤ s.heap.length := Nat.le_trans hA hext.length_le
  have hcl' : ClosedBelow s.heap n0 := hext.closed hcl hA
  have hmo' := hmo.ext hext
  have hfo' := hfo.ext hext
  -- the candidate
  have hcand : ∀ s2 co, candH rec mid fid s = .ok (s2, co) →
      HExt s s2 ∧ ∃ po u, candP e fuel mo fb fo = .ok (po, u) ∧ OptAbs s2.heap co po := by
    intro s2 co hc
    refine ⟨(candH_spec hrec hmid hlen hcl' hc).1, ?_⟩
    unfold candH at hc
    rcases Abs_cell hmo' with ⟨mm, mws, mp, hcm, rfl⟩ | ⟨mm, mks, mp, mos, hcm, rfl, hmk⟩
    · simp only [hcm] at hc
      obtain ⟨po, hpo, habs⟩ := fetchValueH_sim hmo' hfo' hc
      refine ⟨po, (match fo.meta.id with | some i => (if fb then [] else [i]) | none => []) ++ (if fb then [] else srcRefs fo), ?_, habs⟩
      unfold candP
      simp only [fetchDefn_false, hpo, Except.map]
    · simp only [hcm] at hc
      rcases Abs_cell hfo' with ⟨sm', sws, sp', hcf, rfl⟩ | ⟨sm', sk, sp', skids, hcf, rfl, hsk⟩
      · simp only [hcf] at hc
        cases hc
      · simp only [hcf] at hc
        cases hr : rec mid sk s with
        | error err => simp only [hr] at hc; cases hc
        | ok p =>
          obtain ⟨s3, r3⟩ := p
          simp only [hr, Except.ok.injEq, Prod.mk.injEq] at hc
          obtain ⟨rfl, rfl⟩ := hc
          obtain ⟨ro, u, hfs, habs⟩ := hsim mid sk s s3 r3 mm mks mp mos skids hlen hcl' hmid hcm hmk hsk hr
          refine ⟨some ro, (if fb then [] else u), ?_, habs⟩
          unfold candP
          simp only [hfs, Except.map]
  unfold cstepH at hf
  dsimp only at hf
  cases hc : candH rec mid fid s with
  | error err => simp only [hc] at hf; cases hf
  | ok p =>
    obtain ⟨s2, co⟩ := p
    obtain ⟨h12, po, u, hpo, habs⟩ := hcand s2 co hc
    simp only [hc] at hf
    unfold cstepP
    simp only [hpo]
    cases co with
    | none =>
      cases po with
      | some _ => exact habs.elim
      | none =>
        simp only [Except.ok.injEq] at hf
        subst hf
        exact ⟨_, rfl, hext.trans h12, OptAbs_list_ext hrl h12, rfl⟩
    | some c =>
      cases po with
      | none => exact habs.elim
      | some pc =>
        simp only at hf
        obtain ⟨acc2', h1, h2, h3, h4⟩ := ctail_sim e fuel mo masterStr pused u (OptAbs_list_ext hrl h12) habs hf
        obtain ⟨sx, rx, px⟩ := acc2
        simp only at h2 h3 h4
        subst h2
        exact ⟨acc2', h1, hext.trans h12, h3, h4⟩

/-! ### simulation: the `.multiple` branch -/

theorem fetchScope_tmpl0 {e : Envs} {fuel : Nat} {sm : Meta} {mk c : List Obj} {ro : Obj} {u : List Nat}
    (h : fetchScope e fuel false sm mk c = .ok (ro, u)) : withTmpl ro 0 = ro := by
  cases fuel with
  | zero => simp only [fetchScope] at h; cases h
  | succ fuel =>
    rw [fetchScope_succ] at h
    split at h
    · cases h
    · split at h
      · cases h
      · simp only [Except.ok.injEq, Prod.mk.injEq] at h
        obtain ⟨rfl, _⟩ := h
        rfl

theorem multiTail_sim (e : Envs) {rec : Nat → List Nat → HS → R (HS × Nat)} {n0 fuel : Nat} (hrec : RecOK n0 rec)
    (hsim : RecSim e fuel n0 rec) (mk : List Nat) (mobjs : List Obj) (idx : Nat) (mo : Obj) (mid : Nat) (masterStr : Str)
    (hmid : mid < n0) (s1 : HS) (hA : n0 ≤ s1.heap.length) (hcl : ClosedBelow s1.heap n0)
    (hmo : Abs s1.heap mid mo) (hmk : AbsL s1.heap mk mobjs) (mH : List Nat) (mP : List Obj) (hmat : AbsL s1.heap mH mP)
    (out : List Nat) (pout : List Obj) (hout : AbsL s1.heap out pout) (pused : List Nat) (st2 : HS × List Nat)
    (hf : multiTailH e rec fuel mk idx mo mid masterStr mH s1 out = .ok st2) :
    ∃ st2', multiTailP e fuel mobjs idx mo masterStr mP pout pused = .ok st2' ∧ HExt s1 st2.1 ∧
      AbsL st2.1.heap st2.2 st2'.1 := by
  unfold multiTailH at hf
  dsimp only at hf
  simp only [List.map_map] at hf
  cases hfold : foldH (cstepH e rec fuel mo mid masterStr) (s1, ([] : List (Option Nat)), ([] : List (Str × Int)))
      (List.map ((fun x => (true, x)) ∘ fun (x : Nat × Nat) => x.1)
          (List.filter (fun (p : Nat × Nat) => liveB s1.heap p.1 && nameAt s1.heap p.1 == mo.name && p.2 != idx) mk.zipIdx) ++
        List.map (fun x => (false, x)) mH) with
  | error err => simp only [hfold] at hf; cases hf
  | ok acc =>
    obtain ⟨s2, robjs, processed⟩ := acc
    simp only [hfold] at hf
    obtain ⟨acc', hp, hext2, hrl, hpr⟩ := foldSim (cstepH e rec fuel mo mid masterStr) (cstepP e fuel mo masterStr) (RelC s1)
      (fun (a : Bool × Nat) (b : Bool × Obj) => a.1 = b.1 ∧ Abs s1.heap a.2 b.2)
      (fun acc acc' fm fm' acc2 hq hfm hs =>
        cstepH_sim e hrec hsim mo mid masterStr hmid s1 hA hcl hmo acc acc2 acc' fm fm' hq hfm hs)
      _ (((mobjs.zipIdx.filter (fun (p : Obj × Nat) => !p.1.meta.disabled && p.1.name == mo.name && p.2 != idx)).map
          (fun (p : Obj × Nat) => (true, p.1))) ++ mP.map (fun (o : Obj) => (false, o)))
      _ (([] : List (Option Obj)), ([] : List (Str × Int)), pused) _
      (Rel2.append
        (Rel2.map _ _ (fun a b hab => ⟨rfl, hab.1⟩)
          (Rel2.filter _ _ (fun a b hab => by rw [Abs_liveB hab.1, Abs_nameAt hab.1, hab.2])
            (Rel2.zipIdx 0 hmk)))
        (Rel2.map _ _ (fun a b hab => ⟨rfl, hab⟩) hmat))
      (show RelC s1 (s1, [], []) ([], [], pused) from ⟨HExt.refl _, trivial, rfl⟩) hfold
    obtain ⟨probjs, pprocessed, pused2⟩ := acc'
    simp only at hext2 hrl hpr
    subst hpr
    unfold multiTailP
    simp only [hp]
    have hinsts : AbsL s2.heap (robjs.filterMap (fun (x : Option Nat) => x)) (probjs.filterMap (fun (x : Option Obj) => x)) :=
      Rel2.filterMap_id hrl
    have hmo2 := hmo.ext hext2
    cases hft : fetchTemplate s2.heap mid (if (mo.attr "optional").mandatory then 0 else if processed.isEmpty then 1 else -1) with
    | none => simp only [hft] at hf; cases hf
    | some p =>
      obtain ⟨h3, c⟩ := p
      simp only [hft] at hf
      obtain ⟨n, hn, rfl, rfl⟩ := fetchTemplate_eq' hft
      have h23 := HExt.alloc s2 [n.assign (.slot fun m => { m with tmpl :=
        if (mo.attr "optional").mandatory then 0 else if processed.isEmpty then 1 else -1 })]
      by_cases hcond : ((mo.attr "optional").mandatory && isDefnAt s2.heap mid == false) = true
      · simp only [hcond, ↓reduceIte] at hf
        obtain ⟨hman, hnd'⟩ := (Bool.and_eq_true _ _).mp hcond
        have hnd : isDefnAt s2.heap mid = false := eq_of_beq hnd'
        split at hf
        · cases hf
        · rename_i s4 r hr
          simp only [Except.ok.injEq] at hf
          subst hf
          have h03 := hext2.trans h23
          have hlen3 := Nat.le_trans hA h03.length_le
          have hcl3 := h03.closed hcl hA
          have h34 := (hrec _ _ _ _ _ hlen3 hcl3 hmid hr).1
          rw [Abs_isDefnAt hmo2] at hnd
          rcases Abs_cell (hmo2.ext h23) with ⟨mm, mws, mp, hcm, rfl⟩ | ⟨mm, mks, mp, mos, hcm, rfl, hmks⟩
          · simp [Obj.isDefn] at hnd
          · obtain ⟨ro, u, hfs, habs⟩ := hsim mid [] _ s4 r mm mks mp mos [] hlen3 hcl3 hmid hcm hmks trivial hr
            have hself : selfP e fuel (.scope mm mos) = .ok (ro, u) := hfs
            refine ⟨_, rfl, h03.trans h34, ?_⟩
            simp only [hman, ↓reduceIte, hself, defaultInstOf, fetchScope_tmpl0 hfs]
            exact Rel2.append (Rel2.append ((hout.ext h03).ext h34) ⟨habs, trivial⟩) ((hinsts.ext h23).ext h34)
      · simp only [hcond, Bool.false_eq_true, ↓reduceIte, Except.ok.injEq] at hf
        subst hf
        refine ⟨_, rfl, hext2.trans h23, ?_⟩
        refine Rel2.append (Rel2.append ((hout.ext hext2).ext h23) ?_) (hinsts.ext h23)
        -- the template copy / the default instance of a definition
        rcases Abs_cell hmo2 with ⟨mm, mws, mp, hcm, rfl⟩ | ⟨mm, mks, mp, mos, hcm, rfl, hmks⟩
        · rw [hcm] at hn
          cases hn
          have hcell : (s2.heap ++ [(Node.defn mm mws mp).assign (.slot fun m => { m with tmpl :=
              if ((Obj.defn mm mws).attr "optional").mandatory then 0 else if processed.isEmpty then 1 else -1 })])[s2.heap.length]? =
              some (.defn { mm with tmpl :=
                if ((Obj.defn mm mws).attr "optional").mandatory then 0 else if processed.isEmpty then 1 else -1 } mws mp) := by
            rw [List.getElem?_append_right (Nat.le_refl _), Nat.sub_self]; rfl
          have := Abs_defn_intro hcell
          by_cases hman : ((Obj.defn mm mws).attr "optional").mandatory = true
          · simp only [hman, ↓reduceIte] at this ⊢
            exact ⟨this, trivial⟩
          · simp only [hman, Bool.false_eq_true, ↓reduceIte] at this ⊢
            exact ⟨this, trivial⟩
        · rw [hcm] at hn
          cases hn
          have hnd : isDefnAt s2.heap mid = false := by unfold isDefnAt; rw [hcm]; rfl
          have hman : ((Obj.scope mm mos).attr "optional").mandatory = false := by
            cases hm : ((Obj.scope mm mos).attr "optional").mandatory with
            | false => rfl
            | true => rw [hm, hnd] at hcond; exact absurd rfl hcond
          have hcell : (s2.heap ++ [(Node.scope mm mks mp).assign (.slot fun m => { m with tmpl :=
              if ((Obj.scope mm mos).attr "optional").mandatory then 0 else if processed.isEmpty then 1 else -1 })])[s2.heap.length]? =
              some (.scope { mm with tmpl := if processed.isEmpty then 1 else -1 } mks mp) := by
            rw [List.getElem?_append_right (Nat.le_refl _), Nat.sub_self, hman]; rfl
          have := Abs_scope_intro hcell (hmks.ext h23)
          simp only [hman, Bool.false_eq_true, ↓reduceIte] at this ⊢
          exact ⟨this, trivial⟩

/-! ### simulation: the loop over the active master objects, and `scope.fetch` -/

theorem AbsL_unique {h : Heap} : ∀ {ks : List Nat} {a b : List Obj}, AbsL h ks a → AbsL h ks b → a = b
  | [], [], [], _, _ => rfl
  | [], [], _ :: _, _, hb => hb.elim
  | [], _ :: _, _, ha, _ => ha.elim
  | _ :: _, [], _, ha, _ => ha.elim
  | _ :: _, _ :: _, [], _, hb => hb.elim
  | _ :: _, _ :: _, _ :: _, ha, hb => by rw [Abs_unique ha.1 hb.1, AbsL_unique ha.2 hb.2]

def RelS (s0 : HS) (st : HS × List Nat) (st' : List Obj × List Nat) : Prop :=
  HExt s0 st.1 ∧ AbsL st.1.heap st.2 st'.1

theorem stepH_sim (e : Envs) {rec : Nat → List Nat → HS → R (HS × Nat)} {n0 fuel : Nat} (hrec : RecOK n0 rec)
    (hsim : RecSim e fuel n0 rec) (sm : Meta) (mk : List Nat) (src : Nat) (mobjs cobjs : List Obj)
    (hmk : ∀ k ∈ mk, k < n0) (s0 : HS) (hA : n0 ≤ s0.heap.length) (hcl : ClosedBelow s0.heap n0)
    (hmobjs : AbsL s0.heap mk mobjs) (hsrc : Abs s0.heap src (.scope { sm with tmpl := 0 } cobjs))
    (st st2 : HS × List Nat) (st' : List Obj × List Nat) (io : Nat × Obj)
    (hq : RelS s0 st st') (hio : mobjs[io.1]? = some io.2)
    (hf : stepH e rec fuel sm mk src st io = .ok st2) :
    ∃ st2', stepP e fuel sm mobjs cobjs st' io = .ok st2' ∧ RelS s0 st2 st2' := by
  obtain ⟨hext, hout⟩ := hq
  obtain ⟨s, out⟩ := st
  obtain ⟨pout, pused⟩ := st'
  obtain ⟨idx, mo⟩ := io
  simp only at hext hout hio
  have hlen : n0 ≤ s.heap.length := Nat.le_trans hA hext.length_le
  have hcl' : ClosedBelow s.heap n0 := hext.closed hcl hA
  unfold stepH at hf
  dsimp only at hf
  cases hmidEq : mk[idx]? with
  | none => simp only [hmidEq] at hf; cases hf
  | some mid =>
    simp only [hmidEq] at hf
    have hmid : mid < n0 := hmk mid (List.mem_of_getElem? hmidEq)
    have hmo : Abs s.heap mid mo := (Rel2.get hmobjs hmidEq hio).ext hext
    have hmat : AbsL s.heap ((getWS (fuel + 64) s.heap src (pathOf sm mo)).filter (liveB s.heap)) (matchingP fuel sm cobjs mo) :=
      Rel2.filter _ _ (fun _ _ h => Abs_liveB h) (getWS_abs _ _ _ _ _ (hsrc.ext hext))
    generalize (getWS (fuel + 64) s.heap src (pathOf sm mo)).filter (liveB s.heap) = mH at hf hmat
    unfold stepP
    dsimp only
    generalize matchingP fuel sm cobjs mo = mP at hmat
    by_cases hmu : (!isMultiple mo) = true
    · simp only [hmu, ↓reduceIte] at hf ⊢
      rcases Abs_cell hmo with ⟨mm, mws, mp, hcm, rfl⟩ | ⟨mm, mks, mp, mos, hcm, rfl, hmks⟩
      · -- a definition
        simp only [hcm] at hf
        cases hfold : foldH (fun (acc : HS × Option Nat) (ms : Nat) => fetchValueH mid ms acc.1) (s, (none : Option Nat)) mH with
        | error err => simp only [hfold] at hf; cases hf
        | ok p =>
          obtain ⟨s1, ro1⟩ := p
          simp only [hfold] at hf
          obtain ⟨po1, used1, hp1, habs, h01⟩ := oneFold_sim e fuel mid _ s hmo mH mP hmat pused s1 ro1 hfold
          simp only [hp1]
          cases ro1 with
          | some r =>
            cases po1 with
            | none => exact habs.elim
            | some o =>
              simp only [Except.ok.injEq] at hf
              subst hf
              exact ⟨_, rfl, hext.trans h01, Rel2.append (hout.ext h01) ⟨habs, trivial⟩⟩
          | none =>
            cases po1 with
            | some _ => exact habs.elim
            | none =>
              simp only at hf ⊢
              by_cases hd : (!(mm.attrs.get "deprecated").truthy) = true
              · simp only [hd, ↓reduceIte] at hf ⊢
                cases hcp : copy s1.heap mid with
                | none => simp only [hcp] at hf; cases hf
                | some q =>
                  obtain ⟨h2, c⟩ := q
                  simp only [hcp, Except.ok.injEq] at hf
                  subst hf
                  obtain ⟨n, hn, rfl, rfl⟩ := copy_eq hcp
                  rw [h01.get hcm] at hn
                  cases hn
                  have h12 := HExt.alloc s1 [Node.defn mm mws mp]
                  refine ⟨_, rfl, (hext.trans h01).trans h12, Rel2.append ((hout.ext h01).ext h12) ⟨?_, trivial⟩⟩
                  refine Abs_defn_intro (p := mp) ?_
                  show (s1.heap ++ [Node.defn mm mws mp])[s1.heap.length]? = _
                  rw [List.getElem?_append_right (Nat.le_refl _), Nat.sub_self]
                  rfl
              · simp only [hd, Bool.false_eq_true, ↓reduceIte, Except.ok.injEq] at hf ⊢
                subst hf
                exact ⟨_, rfl, hext.trans h01, hout.ext h01⟩
      · -- a scope
        simp only [hcm] at hf
        by_cases hany : mH.any (isDefnAt s.heap) = true
        · simp only [hany, ↓reduceIte] at hf; cases hf
        · simp only [hany, Bool.false_eq_true, ↓reduceIte] at hf
          have hany' : mH.any (isDefnAt s.heap) = false := by
            cases h : mH.any (isDefnAt s.heap) with
            | false => rfl
            | true => exact absurd h hany
          rw [find_isDefn_none hmat hany']
          simp only
          cases hr : rec mid (mH.flatMap (kidsOf s.heap)) s with
          | error err => simp only [hr] at hf; cases hf
          | ok q =>
            obtain ⟨s1, r⟩ := q
            simp only [hr, Except.ok.injEq] at hf
            subst hf
            obtain ⟨ro, u, hfs, habs⟩ := hsim mid _ s s1 r mm mks mp mos (mP.flatMap Obj.children) hlen hcl' hmid hcm hmks
              (Rel2.flatMap _ _ (fun _ _ h => Abs_kidsOf h) hmat) hr
            have h01 := (hrec _ _ _ _ _ hlen hcl' hmid hr).1
            simp only [hfs]
            exact ⟨_, rfl, hext.trans h01, Rel2.append (hout.ext h01) ⟨habs, trivial⟩⟩
    · -- .multiple
      simp only [hmu, Bool.false_eq_true, ↓reduceIte] at hf ⊢
      cases hself : selfFetchH rec mo mid s with
      | error err => simp only [hself] at hf; cases hf
      | ok q =>
        obtain ⟨s1, selfId⟩ := q
        simp only [hself] at hf
        have h01 : HExt s s1 := selfFetchH_spec hrec hmid hlen hcl' hself
        have hlen1 : n0 ≤ s1.heap.length := Nat.le_trans hlen h01.length_le
        have hcl1 : ClosedBelow s1.heap n0 := h01.closed hcl' hlen
        -- the master key is the pure one
        have hkey : ∀ masterStr, masterKeyOf e fuel mo
            (match selfId with
              | some r => (match abs s1.heap r with | some o => .ok (o, []) | none => .error .outOfFuel)
              | none => .error .outOfFuel) = .ok masterStr →
            masterKeyOf e fuel mo (selfP e fuel mo) = .ok masterStr := by
          intro masterStr hk
          unfold selfFetchH at hself
          rcases Abs_cell hmo with ⟨mm, mws, mp, hcm, rfl⟩ | ⟨mm, mks, mp, mos, hcm, rfl, hmks⟩
          · simp only [masterKeyOf] at hk ⊢
            exact hk
          · simp only at hself
            cases hr : rec mid [] s with
            | error err => simp only [hr] at hself; cases hself
            | ok q =>
              obtain ⟨s3, r3⟩ := q
              simp only [hr, Except.ok.injEq, Prod.mk.injEq] at hself
              obtain ⟨rfl, rfl⟩ := hself
              obtain ⟨ro, u, hfs, habs⟩ := hsim mid [] s s3 r3 mm mks mp mos [] hlen hcl' hmid hcm hmks trivial hr
              simp only at hk
              cases ha : abs s3.heap r3 with
              | none => simp only [ha, masterKeyOf] at hk; cases hk
              | some o =>
                have ho : o = ro := Abs_unique ⟨_, ha⟩ habs
                subst ho
                simp only [ha, masterKeyOf] at hk
                simp only [selfP, hfs, masterKeyOf]
                exact hk
        split at hf
        · cases hf
        · rename_i masterStr hk
          rw [hkey masterStr hk]
          simp only
          obtain ⟨st2', h1, h2, h3⟩ := multiTail_sim e hrec hsim mk mobjs idx mo mid masterStr hmid s1 hlen1 hcl1
            (hmo.ext h01) ((hmobjs.ext hext).ext h01) mH mP (hmat.ext h01) out pout (hout.ext h01) pused st2 hf
          exact ⟨st2', h1, (hext.trans h01).trans h2, h3⟩

theorem fetchH_sim (e : Envs) (n0 : Nat) : ∀ (fuel : Nat), RecSim e fuel n0 (fetchH e fuel)
  | 0 => by
    intro self combined s s' r sm mk sp mobjs cobjs _ _ _ _ _ _ hf
    simp only [fetchH] at hf
    cases hf
  | fuel + 1 => by
    intro self combined s s' r sm mk sp mobjs cobjs hlen hcl hself hcell hmobjs hcobjs hf
    have ih := fetchH_sim e n0 fuel
    have ihok := fetchH_spec e n0 fuel
    have hmk : ∀ k ∈ mk, k < n0 := fun k hk => hcl self _ hself hcell k hk
    simp only [fetchH, hcell] at hf
    cases hcc : customizedCopy s.heap self none none (some combined) with
    | none => simp only [hcc] at hf; cases hf
    | some q =>
      obtain ⟨h1, src⟩ := q
      simp only [hcc] at hf
      obtain ⟨n, hn, rfl, rfl⟩ := customizedCopy_eq hcc
      rw [hcell] at hn
      cases hn
      have hA := HExt.alloc s [ccNode (Node.scope sm mk sp) none none (some combined)]
      cases hmo : mapOpt (abs (s.heap ++ [ccNode (Node.scope sm mk sp) none none (some combined)])) mk with
      | none => simp only [hmo] at hf; cases hf
      | some mobjs' =>
        simp only [hmo] at hf
        have hmobjs' : AbsL (s.heap ++ [ccNode (Node.scope sm mk sp) none none (some combined)]) mk mobjs' := AbsL_of_mapOpt hmo
        have hmobjs1 : AbsL (s.heap ++ [ccNode (Node.scope sm mk sp) none none (some combined)]) mk mobjs :=
          Rel2.imp (fun _ _ h => Abs.append h _) hmobjs
        have hEq : mobjs' = mobjs := AbsL_unique hmobjs' hmobjs1
        subst hEq
        cases hact : masterActiveObjects mobjs' with
        | error err => simp only [hact] at hf; cases hf
        | ok actives =>
          simp only [hact] at hf
          cases hfold : foldH (stepH e (fetchH e fuel) fuel sm mk s.heap.length)
              ({ s with heap := s.heap ++ [ccNode (Node.scope sm mk sp) none none (some combined)] }, ([] : List Nat)) actives with
          | error err => simp only [hfold] at hf; cases hf
          | ok q =>
            obtain ⟨s2, out⟩ := q
            simp only [hfold] at hf
            have hsrc : Abs (s.heap ++ [ccNode (Node.scope sm mk sp) none none (some combined)]) s.heap.length
                (.scope { sm with tmpl := 0 } cobjs) := by
              refine Abs_scope_intro (ks := combined) (p := sp) ?_ (Rel2.imp (fun _ _ h => Abs.append h _) hcobjs)
              rw [List.getElem?_append_right (Nat.le_refl _), Nat.sub_self]
              rfl
            obtain ⟨st2', hp, hext2, hout⟩ := foldSim (stepH e (fetchH e fuel) fuel sm mk s.heap.length)
              (stepP e fuel sm mobjs' cobjs)
              (RelS { s with heap := s.heap ++ [ccNode (Node.scope sm mk sp) none none (some combined)] })
              (fun (a b : Nat × Obj) => a = b ∧ mobjs'[a.1]? = some a.2)
              (fun st st' a b st2 hq hab hs => by
                obtain ⟨rfl, hio⟩ := hab
                exact stepH_sim e ihok ih sm mk s.heap.length mobjs' cobjs hmk _
                  (Nat.le_trans hlen hA.length_le) (hA.closed hcl hlen) hmobjs' hsrc st st2 st' a hq hio hs)
              actives actives _ (([] : List Obj), ([] : List Nat)) _
              (Rel2.diag (fun a ha => ⟨rfl, masterActiveObjects_get hact a ha⟩))
              (show RelS _ (_, []) ([], []) from ⟨HExt.refl _, trivial⟩) hfold
            obtain ⟨pout, pused⟩ := st2'
            simp only at hext2 hout
            unfold fetchResult at hf
            cases hres : customizedCopy s2.heap self none none (some out) with
            | none => simp only [hres] at hf; cases hf
            | some q =>
              obtain ⟨h3, r'⟩ := q
              simp only [hres, Except.ok.injEq, Prod.mk.injEq] at hf
              obtain ⟨rfl, rfl⟩ := hf
              obtain ⟨n', hn', rfl, rfl⟩ := customizedCopy_eq hres
              have h02 := hA.trans hext2
              rw [h02.get hcell] at hn'
              cases hn'
              refine ⟨.scope { sm with tmpl := 0 } pout, pused, ?_, ?_⟩
              · rw [fetchScope_succ]
                simp only [hact, hp]
              · refine Abs_scope_intro (ks := out) (p := sp) ?_ (Rel2.imp (fun _ _ h => Abs.append h _) hout)
                show (s2.heap ++ _)[s2.heap.length]? = _
                rw [List.getElem?_append_right (Nat.le_refl _), Nat.sub_self]
                rfl

end Phil.Heap
