/-
  Lemmas behind the closed form of C19: the print → parse round trip for trees that CARRY attributes
  (printed at attributes level 0, where no attribute line is produced), the expert-level gate as
  pruning inside that round trip, a readable characterisation of `prune`, and the round trip under a
  prefix of blanks.  All names end in `_ert` (or are new definitions) to stay clear of the helper
  lemmas of the other Proofs files.
-/
import Phil.Proofs.PrintParseNested
import Phil.Proofs.ShowLaws
set_option linter.unusedSimpArgs false
set_option linter.unusedVariables false
namespace Phil

/-! ### removing attributes -/

/-- object data without its attributes -/
def Meta.stripAttrs (m : Meta) : Meta := { m with attrs := [] }

mutual
/-- a tree without attributes (ids, source positions, flags and words are kept) -/
def Obj.stripAttrs : Obj → Obj
  | .defn m ws => .defn m.stripAttrs ws
  | .scope m os => .scope m.stripAttrs (stripAttrsList os)
def stripAttrsList : List Obj → List Obj
  | [] => []
  | x :: xs => x.stripAttrs :: stripAttrsList xs
end

/-- object data without `primary_id`, source line AND attributes -/
def Meta.eraseAttrs (m : Meta) : Meta := { m with id := none, line := none, attrs := [] }

mutual
/-- a tree without ids, source positions and attributes: what is left is the nesting, the names, the
    `disabled` / `merge_names` / `is_template` flags and the words (values and quote styles) -/
def Obj.eraseAttrs : Obj → Obj
  | .defn m ws => .defn m.eraseAttrs (ws.map Word.erase)
  | .scope m os => .scope m.eraseAttrs (eraseAttrsList os)
def eraseAttrsList : List Obj → List Obj
  | [] => []
  | x :: xs => x.eraseAttrs :: eraseAttrsList xs
end

theorem Obj.stripAttrs_defn (m : Meta) (ws : List Word) :
    (Obj.defn m ws).stripAttrs = .defn m.stripAttrs ws := by simp [Obj.stripAttrs]
theorem Obj.stripAttrs_scope (m : Meta) (os : List Obj) :
    (Obj.scope m os).stripAttrs = .scope m.stripAttrs (stripAttrsList os) := by simp [Obj.stripAttrs]
theorem stripAttrsList_nil : stripAttrsList [] = [] := by simp [stripAttrsList]
theorem stripAttrsList_cons (x : Obj) (xs : List Obj) :
    stripAttrsList (x :: xs) = x.stripAttrs :: stripAttrsList xs := by simp [stripAttrsList]
theorem Obj.eraseAttrs_defn (m : Meta) (ws : List Word) :
    (Obj.defn m ws).eraseAttrs = .defn m.eraseAttrs (ws.map Word.erase) := by simp [Obj.eraseAttrs]
theorem Obj.eraseAttrs_scope (m : Meta) (os : List Obj) :
    (Obj.scope m os).eraseAttrs = .scope m.eraseAttrs (eraseAttrsList os) := by simp [Obj.eraseAttrs]
theorem eraseAttrsList_nil : eraseAttrsList [] = [] := by simp [eraseAttrsList]
theorem eraseAttrsList_cons (x : Obj) (xs : List Obj) :
    eraseAttrsList (x :: xs) = x.eraseAttrs :: eraseAttrsList xs := by simp [eraseAttrsList]

theorem stripAttrsList_eq_map (xs : List Obj) : stripAttrsList xs = xs.map Obj.stripAttrs := by
  induction xs with
  | nil => rfl
  | cons x xs ih => rw [stripAttrsList_cons, ih]; rfl

theorem eraseAttrsList_eq_map (xs : List Obj) : eraseAttrsList xs = xs.map Obj.eraseAttrs := by
  induction xs with
  | nil => rfl
  | cons x xs ih => rw [eraseAttrsList_cons, ih]; rfl

/-- erasing attributes = removing the attributes, then erasing ids and positions -/
theorem erase_stripAttrs_ert (x : Obj) : x.stripAttrs.erase = x.eraseAttrs := by
  induction x using Obj.rec
    (motive_2 := fun os => eraseList (stripAttrsList os) = eraseAttrsList os) with
  | defn m ws => rw [Obj.stripAttrs_defn, Obj.erase_defn, Obj.eraseAttrs_defn]; rfl
  | scope m os ih => rw [Obj.stripAttrs_scope, Obj.erase_scope, Obj.eraseAttrs_scope, ih]; rfl
  | nil => rfl
  | cons x xs ihx ihxs =>
    rw [stripAttrsList_cons, eraseList_cons, eraseAttrsList_cons, ihx, ihxs]

theorem eraseList_stripAttrsList_ert (os : List Obj) :
    eraseList (stripAttrsList os) = eraseAttrsList os := by
  induction os with
  | nil => rfl
  | cons x xs ih => rw [stripAttrsList_cons, eraseList_cons, eraseAttrsList_cons, ih, erase_stripAttrs_ert]

/-- … = erasing ids and positions, then removing the attributes -/
theorem stripAttrs_erase_ert (x : Obj) : x.erase.stripAttrs = x.eraseAttrs := by
  induction x using Obj.rec
    (motive_2 := fun os => stripAttrsList (eraseList os) = eraseAttrsList os) with
  | defn m ws => rw [Obj.erase_defn, Obj.stripAttrs_defn, Obj.eraseAttrs_defn]; rfl
  | scope m os ih => rw [Obj.erase_scope, Obj.stripAttrs_scope, Obj.eraseAttrs_scope, ih]; rfl
  | nil => rfl
  | cons x xs ihx ihxs =>
    rw [eraseList_cons, stripAttrsList_cons, eraseAttrsList_cons, ihx, ihxs]

theorem stripAttrsList_eraseList_ert (os : List Obj) :
    stripAttrsList (eraseList os) = eraseAttrsList os := by
  induction os with
  | nil => rfl
  | cons x xs ih => rw [eraseList_cons, stripAttrsList_cons, eraseAttrsList_cons, ih, stripAttrs_erase_ert]

/-- erasing attributes does not see attributes -/
theorem eraseAttrs_stripAttrs_ert (x : Obj) : x.stripAttrs.eraseAttrs = x.eraseAttrs := by
  induction x using Obj.rec
    (motive_2 := fun os => eraseAttrsList (stripAttrsList os) = eraseAttrsList os) with
  | defn m ws => rw [Obj.stripAttrs_defn, Obj.eraseAttrs_defn, Obj.eraseAttrs_defn]; rfl
  | scope m os ih => rw [Obj.stripAttrs_scope, Obj.eraseAttrs_scope, Obj.eraseAttrs_scope, ih]; rfl
  | nil => rfl
  | cons x xs ihx ihxs =>
    rw [stripAttrsList_cons, eraseAttrsList_cons, eraseAttrsList_cons, ihx, ihxs]

theorem eraseAttrsList_stripAttrsList_ert (os : List Obj) :
    eraseAttrsList (stripAttrsList os) = eraseAttrsList os := by
  induction os with
  | nil => rfl
  | cons x xs ih =>
    rw [stripAttrsList_cons, eraseAttrsList_cons, eraseAttrsList_cons, ih, eraseAttrs_stripAttrs_ert]

/-- two forests equal up to ids and positions are equal up to ids, positions and attributes -/
theorem eraseAttrsList_of_eraseList_ert {a b : List Obj} (h : eraseList a = eraseList b) :
    eraseAttrsList a = eraseAttrsList b := by
  rw [← stripAttrsList_eraseList_ert a, ← stripAttrsList_eraseList_ert b, h]

/-- a forest that equals, up to ids and positions, an attribute-free forest -/
theorem eraseAttrsList_of_eq_ert {a X : List Obj} (h : eraseList a = eraseAttrsList X) :
    eraseAttrsList a = eraseAttrsList X := by
  rw [← stripAttrsList_eraseList_ert a, h, ← eraseList_stripAttrsList_ert X,
    stripAttrsList_eraseList_ert, eraseAttrsList_stripAttrsList_ert, eraseList_stripAttrsList_ert]

theorem stripAttrs_meta_ert (x : Obj) : x.stripAttrs.meta = x.meta.stripAttrs := by
  cases x with
  | defn m ws => rw [Obj.stripAttrs_defn]; rfl
  | scope m os => rw [Obj.stripAttrs_scope]; rfl

theorem firstMerges_stripAttrsList_ert (os : List Obj) :
    firstMerges (stripAttrsList os) = firstMerges os := by
  cases os with
  | nil => rfl
  | cons x xs => rw [stripAttrsList_cons, firstMerges, firstMerges, stripAttrs_meta_ert]; rfl

/-! ### the `deprecated` gate -/

/-- the definition carries a truthy `deprecated` attribute (`definition.show` hides it below
    attributes level 3) -/
def depSet (m : Meta) : Bool := (m.attrs.get "deprecated").truthy

mutual
/-- no DEFINITION of the tree carries a truthy `deprecated` attribute (`scope.show` has no such gate:
    `deprecated` is not a scope attribute) -/
def Obj.noDeprecated : Obj → Bool
  | .defn m _ => !depSet m
  | .scope _ os => noDeprecatedList os
def noDeprecatedList : List Obj → Bool
  | [] => true
  | x :: xs => x.noDeprecated && noDeprecatedList xs
end

theorem noDeprecated_defn_ert (m : Meta) (ws : List Word) :
    (Obj.defn m ws).noDeprecated = !depSet m := by simp [Obj.noDeprecated]
theorem noDeprecated_scope_ert (m : Meta) (os : List Obj) :
    (Obj.scope m os).noDeprecated = noDeprecatedList os := by simp [Obj.noDeprecated]
theorem noDeprecatedList_cons_ert (x : Obj) (xs : List Obj) :
    noDeprecatedList (x :: xs) = (x.noDeprecated && noDeprecatedList xs) := by simp [noDeprecatedList]

theorem noDeprecatedList_iff_ert (os : List Obj) :
    noDeprecatedList os = true ↔ ∀ x ∈ os, x.noDeprecated = true := by
  induction os with
  | nil => simp [noDeprecatedList]
  | cons x xs ih => simp [noDeprecatedList_cons_ert, ih]

/-! ### at attributes level ≤ 0, gate off, the printer does not look at attributes -/

theorem showDefn_strip_ert (o : ShowOpts) (hl : o.level ≤ 0) (he : o.expert = none) (m : Meta)
    (ws : List Word) (ms : List Str) (pre : Str) (hd : depSet m = false) :
    showDefn o m ws ms pre = showDefn o m.stripAttrs ws ms pre := by
  have hd' : (m.attrs.get "deprecated").truthy = false := hd
  have hs : (m.stripAttrs.attrs.get "deprecated").truthy = false := rfl
  rw [showDefn_eq, showDefn_eq, he, expertHidden_none, expertHidden_none, hd', hs]
  simp only [expertGate_false, showDefnBody, hd', hs, showAttributes_level_nonpos _ _ _ _ _ hl]
  rfl

theorem showScopeBody_strip_ert (o : ShowOpts) (hl : o.level ≤ 0) (m : Meta) (fm : Bool)
    (inner : List Str → Str → R (List Str)) (ms : List Str) (pre : Str) :
    showScopeBody o m fm inner ms pre = showScopeBody o m.stripAttrs fm inner ms pre := by
  simp only [showScopeBody, showAttributes_level_nonpos _ _ _ _ _ hl]
  rfl

/-- **Attributes are invisible at level ≤ 0.**  With the expert gate off and no truthy `deprecated`
    attribute on a definition, `show` prints a tree and the same tree without attributes identically —
    every width, prefix, list of pending merged names, error outcomes included. -/
theorem showObj_stripAttrs_ert (o : ShowOpts) (hl : o.level ≤ 0) (he : o.expert = none) (t : Obj) :
    ∀ (ms : List Str) (pre : Str), t.noDeprecated = true →
      showObj o t ms pre = showObj o t.stripAttrs ms pre := by
  induction t using Obj.rec
    (motive_2 := fun ts => ∀ (ms : List Str) (pre : Str), noDeprecatedList ts = true →
      showObjs o ts ms pre = showObjs o (stripAttrsList ts) ms pre) with
  | defn m ws =>
    intro ms pre hd
    rw [noDeprecated_defn_ert] at hd
    rw [Obj.stripAttrs_defn, showObj_defn_eq, showObj_defn_eq]
    exact showDefn_strip_ert o hl he m ws ms pre (by simpa using hd)
  | scope m os ih =>
    intro ms pre hd
    rw [noDeprecated_scope_ert] at hd
    rw [Obj.stripAttrs_scope, showObj_scope_eq, showObj_scope_eq, he, expertHidden_none,
      expertHidden_none, firstMerges_stripAttrsList_ert,
      showScopeBody_congr o m _ _ _ (fun ms pre => ih ms pre hd),
      showScopeBody_strip_ert o hl m]
    rfl
  | nil => rfl
  | cons x xs ihx ihxs =>
    rename_i ms pre hd
    rw [noDeprecatedList_cons_ert, Bool.and_eq_true] at hd
    rw [stripAttrsList_cons, showObjs_cons, showObjs_cons, ihx ms pre hd.1, ihxs ms pre hd.2]

theorem showObjs_stripAttrs_ert (o : ShowOpts) (hl : o.level ≤ 0) (he : o.expert = none)
    (ts : List Obj) (ms : List Str) (pre : Str) (hd : noDeprecatedList ts = true) :
    showObjs o ts ms pre = showObjs o (stripAttrsList ts) ms pre := by
  induction ts with
  | nil => rfl
  | cons x xs ih =>
    rw [noDeprecatedList_cons_ert, Bool.and_eq_true] at hd
    rw [stripAttrsList_cons, showObjs_cons, showObjs_cons,
      showObj_stripAttrs_ert o hl he x ms pre hd.1, ih hd.2]

/-! ### the class of trees with attributes -/

/-- `RTNodeA ms x`: `x` without its attributes is in the class `RTNode ms` of the nested round trip
    (enabled definitions and scopes, good undotted names, `is_template = 0`, dotted chains as
    `scope.adopt` builds them …), the attributes of every object being ARBITRARY except that no
    definition carries a truthy `deprecated` attribute -/
def RTNodeA (ms : List Str) (x : Obj) : Prop := RTNode ms x.stripAttrs ∧ x.noDeprecated = true

/-- a forest of the class (the objects of the root scope or of a proper scope) -/
def RTAllA (os : List Obj) : Prop := RTAll (stripAttrsList os) ∧ noDeprecatedList os = true

instance (ms : List Str) (x : Obj) : Decidable (RTNodeA ms x) := by unfold RTNodeA; exact inferInstance

theorem RTAllA_iff_ert (os : List Obj) : RTAllA os ↔ ∀ x ∈ os, RTNodeA [] x := by
  unfold RTAllA RTNodeA
  rw [RTAll_iff, noDeprecatedList_iff_ert, stripAttrsList_eq_map]
  constructor
  · rintro ⟨h1, h2⟩ x hx
    exact ⟨h1 _ (List.mem_map_of_mem hx), h2 x hx⟩
  · intro h
    refine ⟨fun y hy => ?_, fun x hx => (h x hx).2⟩
    obtain ⟨x, hx, rfl⟩ := List.mem_map.mp hy
    exact (h x hx).1

/-! ### `allDefns` and ids do not see attributes -/

theorem allDefns_stripAttrs_ert (P : List Word → Prop) (x : Obj) :
    x.stripAttrs.allDefns P ↔ x.allDefns P := by
  induction x using Obj.rec
    (motive_2 := fun os => allDefnsList P (stripAttrsList os) ↔ allDefnsList P os) with
  | defn m ws => rw [Obj.stripAttrs_defn, Obj.allDefns, Obj.allDefns]
  | scope m os ih => rw [Obj.stripAttrs_scope, Obj.allDefns, Obj.allDefns, ih]
  | nil => rfl
  | cons x xs ihx ihxs => rw [stripAttrsList_cons, allDefnsList, allDefnsList, ihx, ihxs]

theorem allDefnsList_stripAttrs_ert (P : List Word → Prop) (os : List Obj) :
    allDefnsList P (stripAttrsList os) ↔ allDefnsList P os := by
  induction os with
  | nil => rfl
  | cons x xs ih => rw [stripAttrsList_cons, allDefnsList, allDefnsList, ih, allDefns_stripAttrs_ert]

theorem items_stripAttrs_ert (x : Obj) : x.stripAttrs.items = x.items := by
  induction x using Obj.rec
    (motive_2 := fun os => itemsList (stripAttrsList os) = itemsList os) with
  | defn m ws => rw [Obj.stripAttrs_defn, Obj.items, Obj.items]
  | scope m os ih =>
    rw [Obj.stripAttrs_scope, Obj.items, Obj.items, firstMerges_stripAttrsList_ert, ih]
  | nil => rfl
  | cons x xs ihx ihxs => rw [stripAttrsList_cons, itemsList, itemsList, ihx, ihxs]

theorem expIds_stripAttrs_ert (x : Obj) : ∀ i, expIds i x.stripAttrs = expIds i x := by
  induction x using Obj.rec
    (motive_2 := fun os => (∀ i, expIdsSeq i (stripAttrsList os) = expIdsSeq i os) ∧
      (∀ i, expIdsSame i (stripAttrsList os) = expIdsSame i os)) with
  | defn m ws => intro i; rw [Obj.stripAttrs_defn, expIds, expIds]
  | scope m os ih =>
    intro i
    rw [Obj.stripAttrs_scope, expIds, expIds, firstMerges_stripAttrsList_ert, ih.1, ih.2]
  | nil => exact ⟨fun i => rfl, fun i => rfl⟩
  | cons x xs ihx ihxs =>
    refine ⟨fun i => ?_, fun i => ?_⟩
    · rw [stripAttrsList_cons, expIdsSeq, expIdsSeq, ihx, ihxs.1, items_stripAttrs_ert]
    · rw [stripAttrsList_cons, expIdsSame, expIdsSame, ihx, ihxs.2]

theorem expIdsSeq_stripAttrs_ert (os : List Obj) : ∀ i,
    expIdsSeq i (stripAttrsList os) = expIdsSeq i os := by
  induction os with
  | nil => intro i; rfl
  | cons x xs ih =>
    intro i
    rw [stripAttrsList_cons, expIdsSeq, expIdsSeq, expIds_stripAttrs_ert, ih, items_stripAttrs_ert]

/-! ### pruning keeps the class -/

theorem prune_stripAttrs_meta_ert (k : Int) (x x' : Obj) (h : prune k x = some x') :
    x'.stripAttrs.meta = x.stripAttrs.meta := by
  rw [stripAttrs_meta_ert, stripAttrs_meta_ert, prune_meta k x x' h]

/-- pruning keeps `RTNode` (of the attribute-free copy): a proper scope keeps any sub-list of its
    children, a dotted-prefix scope either keeps its only child or disappears with it -/
theorem prune_RTNode_ert (k : Int) (x : Obj) :
    ∀ (ms : List Str) (x' : Obj), RTNode ms x.stripAttrs → prune k x = some x' →
      RTNode ms x'.stripAttrs := by
  induction x using Obj.rec
    (motive_2 := fun os =>
      (RTAll (stripAttrsList os) → RTAll (stripAttrsList (pruneList k os))) ∧
      (∀ ms, RTOne ms (stripAttrsList os) →
        pruneList k os = [] ∨ RTOne ms (stripAttrsList (pruneList k os)))) with
  | defn m ws =>
    intro ms x' h hp
    rw [prune_defn] at hp
    split at hp
    · cases hp
    · cases hp; exact h
  | scope m os ih =>
    intro ms x' h hp
    rw [prune_scope] at hp
    split at hp
    · cases hp
    · split at hp
      · cases hp
      · rename_i hfe
        cases hp
        rw [Obj.stripAttrs_scope] at h ⊢
        unfold RTNode at h ⊢
        obtain ⟨hm, hn, hk⟩ := h
        refine ⟨hm, hn, ?_⟩
        rcases hk with ⟨hres, hk⟩ | hk
        · exact Or.inl ⟨hres, ih.1 hk⟩
        · rcases ih.2 _ hk with he | hk'
          · have hfm : firstMerges os = true := by
              rw [← firstMerges_stripAttrsList_ert]; exact hk.firstMerges
            rw [hfm, he] at hfe
            simp at hfe
          · exact Or.inr hk'
  | nil =>
    refine ⟨fun h => ?_, fun ms h => Or.inl (pruneList_nil k)⟩
    rw [pruneList_nil]; exact h
  | cons x xs ihx ihxs =>
    refine ⟨fun h => ?_, fun ms h => ?_⟩
    · rw [stripAttrsList_cons] at h
      unfold RTAll at h
      rw [pruneList_cons]
      cases hp : prune k x with
      | none => exact ihxs.1 h.2
      | some x' =>
        show RTAll (stripAttrsList (x' :: pruneList k xs))
        rw [stripAttrsList_cons]
        unfold RTAll
        exact ⟨ihx [] x' h.1 hp, ihxs.1 h.2⟩
    · rw [stripAttrsList_cons] at h
      unfold RTOne at h
      obtain ⟨h1, h2⟩ := h
      have hxs : xs = [] := by cases xs with
        | nil => rfl
        | cons y ys => rw [stripAttrsList_cons] at h2; cases h2
      subst hxs
      rw [pruneList_cons, pruneList_nil]
      cases hp : prune k x with
      | none => exact Or.inl rfl
      | some x' =>
        refine Or.inr ?_
        show RTOne ms (stripAttrsList [x'])
        rw [stripAttrsList_cons, stripAttrsList_nil]
        unfold RTOne
        exact ⟨ihx ms x' h1 hp, rfl⟩

theorem pruneList_RTAll_ert (k : Int) (os : List Obj) (h : RTAll (stripAttrsList os)) :
    RTAll (stripAttrsList (pruneList k os)) := by
  induction os with
  | nil => rw [pruneList_nil]; exact h
  | cons x xs ih =>
    rw [stripAttrsList_cons] at h
    unfold RTAll at h
    rw [pruneList_cons]
    cases hp : prune k x with
    | none => exact ih h.2
    | some x' =>
      show RTAll (stripAttrsList (x' :: pruneList k xs))
      rw [stripAttrsList_cons]
      unfold RTAll
      exact ⟨prune_RTNode_ert k x [] x' h.1 hp, ih h.2⟩

/-- pruning keeps "no deprecated definition" -/
theorem prune_noDeprecated_ert (k : Int) (x : Obj) :
    ∀ x', x.noDeprecated = true → prune k x = some x' → x'.noDeprecated = true := by
  induction x using Obj.rec
    (motive_2 := fun os => noDeprecatedList os = true → noDeprecatedList (pruneList k os) = true) with
  | defn m ws =>
    intro x' h hp
    rw [prune_defn] at hp
    split at hp
    · cases hp
    · cases hp; exact h
  | scope m os ih =>
    intro x' h hp
    rw [prune_scope] at hp
    split at hp
    · cases hp
    · split at hp
      · cases hp
      · cases hp
        rw [noDeprecated_scope_ert] at h ⊢
        exact ih h
  | nil => rename_i h; rw [pruneList_nil]; exact h
  | cons x xs ihx ihxs =>
    rename_i h
    rw [noDeprecatedList_cons_ert, Bool.and_eq_true] at h
    rw [pruneList_cons]
    cases hp : prune k x with
    | none => exact ihxs h.2
    | some x' =>
      show noDeprecatedList (x' :: pruneList k xs) = true
      rw [noDeprecatedList_cons_ert, Bool.and_eq_true]
      exact ⟨ihx x' h.1 hp, ihxs h.2⟩

theorem pruneList_noDeprecated_ert (k : Int) (os : List Obj) (h : noDeprecatedList os = true) :
    noDeprecatedList (pruneList k os) = true := by
  induction os with
  | nil => rw [pruneList_nil]; exact h
  | cons x xs ih =>
    rw [noDeprecatedList_cons_ert, Bool.and_eq_true] at h
    rw [pruneList_cons]
    cases hp : prune k x with
    | none => exact ih h.2
    | some x' =>
      show noDeprecatedList (x' :: pruneList k xs) = true
      rw [noDeprecatedList_cons_ert, Bool.and_eq_true]
      exact ⟨prune_noDeprecated_ert k x x' h.1 hp, ih h.2⟩

/-- **pruning keeps the class** -/
theorem pruneList_RTAllA_ert (k : Int) (os : List Obj) (h : RTAllA os) : RTAllA (pruneList k os) :=
  ⟨pruneList_RTAll_ert k os h.1, pruneList_noDeprecated_ert k os h.2⟩

/-- pruning keeps a property of the word lists of all definitions -/
theorem prune_allDefns_ert (P : List Word → Prop) (k : Int) (x : Obj) :
    ∀ x', x.allDefns P → prune k x = some x' → x'.allDefns P := by
  induction x using Obj.rec
    (motive_2 := fun os => allDefnsList P os → allDefnsList P (pruneList k os)) with
  | defn m ws =>
    intro x' h hp
    rw [prune_defn] at hp
    split at hp
    · cases hp
    · cases hp; exact h
  | scope m os ih =>
    intro x' h hp
    rw [prune_scope] at hp
    split at hp
    · cases hp
    · split at hp
      · cases hp
      · cases hp
        rw [Obj.allDefns] at h ⊢
        exact ih h
  | nil => rename_i h; rw [pruneList_nil]; exact h
  | cons x xs ihx ihxs =>
    rename_i h
    rw [allDefnsList] at h
    rw [pruneList_cons]
    cases hp : prune k x with
    | none => exact ihxs h.2
    | some x' =>
      show allDefnsList P (x' :: pruneList k xs)
      rw [allDefnsList]
      exact ⟨ihx x' h.1 hp, ihxs h.2⟩

theorem pruneList_allDefns_ert (P : List Word → Prop) (k : Int) (os : List Obj)
    (h : allDefnsList P os) : allDefnsList P (pruneList k os) := by
  induction os with
  | nil => rw [pruneList_nil]; exact h
  | cons x xs ih =>
    rw [allDefnsList] at h
    rw [pruneList_cons]
    cases hp : prune k x with
    | none => exact ih h.2
    | some x' =>
      show allDefnsList P (x' :: pruneList k xs)
      rw [allDefnsList]
      exact ⟨prune_allDefns_ert P k x x' h.1 hp, ih h.2⟩

/-! ### the class implies `DottedWF` -/

theorem stripAttrs_mergeNames_ert (x : Obj) : x.stripAttrs.meta.mergeNames = x.meta.mergeNames := by
  rw [stripAttrs_meta_ert]; rfl

theorem stripAttrs_name_ert (m : Meta) : m.stripAttrs.name = m.name := rfl

theorem uniformMerge_plain_ert (objs : List Obj) (h : ∀ c, c ∈ objs → c.meta.mergeNames = false) :
    uniformMerge objs = true := by
  cases objs with
  | nil => rfl
  | cons x xs =>
    simp only [uniformMerge, firstMerges, List.all_eq_true]
    intro c hc
    rw [h c hc, h x List.mem_cons_self]; rfl

/-- in a tree of the class the children of a scope agree on `merge_names` -/
theorem dottedWF_of_RTNode_ert (x : Obj) : ∀ ms, RTNode ms x.stripAttrs → DottedWF x = true := by
  induction x using Obj.rec
    (motive_2 := fun os =>
      (RTAll (stripAttrsList os) → DottedWFs os = true ∧ ∀ c ∈ os, c.meta.mergeNames = false) ∧
      (∀ ms, RTOne ms (stripAttrsList os) → DottedWFs os = true ∧ ∃ c, os = [c])) with
  | defn m ws => intro ms _; simp [DottedWF]
  | scope m os ih =>
    intro ms h
    rw [Obj.stripAttrs_scope] at h
    unfold RTNode at h
    obtain ⟨_, _, hk⟩ := h
    rw [DottedWF_scope, Bool.and_eq_true, Bool.or_eq_true]
    rcases hk with ⟨_, hk⟩ | hk
    · obtain ⟨h1, h2⟩ := ih.1 hk
      exact ⟨Or.inr (uniformMerge_plain_ert os h2), h1⟩
    · obtain ⟨h1, c, rfl⟩ := ih.2 _ hk
      exact ⟨Or.inr (by simp [uniformMerge, firstMerges]), h1⟩
  | nil =>
    refine ⟨fun _ => ⟨by simp [DottedWFs], fun c hc => by cases hc⟩, fun ms h => ?_⟩
    rw [stripAttrsList_nil] at h; unfold RTOne at h; exact h.elim
  | cons x xs ihx ihxs =>
    refine ⟨fun h => ?_, fun ms h => ?_⟩
    · rw [stripAttrsList_cons] at h
      unfold RTAll at h
      obtain ⟨h1, h2⟩ := ihxs.1 h.2
      refine ⟨by rw [DottedWFs_cons, ihx [] h.1, h1]; rfl, fun c hc => ?_⟩
      rcases List.mem_cons.mp hc with rfl | hc
      · rw [← stripAttrs_mergeNames_ert]; exact h.1.meta.merge
      · exact h2 c hc
    · rw [stripAttrsList_cons] at h
      unfold RTOne at h
      obtain ⟨h1, h2⟩ := h
      have hxs : xs = [] := by cases xs with
        | nil => rfl
        | cons y ys => rw [stripAttrsList_cons] at h2; cases h2
      subst hxs
      exact ⟨by rw [DottedWFs_cons, ihx ms h1]; simp [DottedWFs], x, rfl⟩

theorem dottedWFs_of_RTAll_ert (os : List Obj) (h : RTAll (stripAttrsList os)) :
    DottedWFs os = true := by
  induction os with
  | nil => simp [DottedWFs]
  | cons x xs ih =>
    rw [stripAttrsList_cons] at h
    unfold RTAll at h
    rw [DottedWFs_cons, dottedWF_of_RTNode_ert x [] h.1, ih h.2]; rfl

/-! ### which objects survive pruning -/

/-- the object's own expert level allows it at level `k`: unset, or an integer `≤ k` (a value that is
    neither — excluded by `ExpertWF` — counts as allowed, as in `prune`) -/
def ownShown (k : Int) (m : Meta) : Prop :=
  match m.attrs.get "expert_level" with
  | .int e => e ≤ k
  | _ => True

instance (k : Int) (m : Meta) : Decidable (ownShown k m) := by
  unfold ownShown; split <;> exact inferInstance

theorem hiddenAt_false_iff_ert (k : Int) (m : Meta) : hiddenAt k m = false ↔ ownShown k m := by
  unfold hiddenAt ownShown
  cases m.attrs.get "expert_level" <;> simp

/-- under `ExpertWF`: the own level is unset or an integer `≤ k` -/
theorem ownShown_wf_ert (k : Int) (m : Meta) (h : expertOk m = true) :
    ownShown k m ↔ (m.attrs.get "expert_level" = .none ∨
      ∃ e, m.attrs.get "expert_level" = .int e ∧ e ≤ k) := by
  unfold expertOk at h
  unfold ownShown
  cases hv : m.attrs.get "expert_level" <;> rw [hv] at h <;> simp at h ⊢

/-- `Visible k x`: `x` is shown at expert level `k` provided its enclosing scopes are.
      * a definition, or a proper scope (its first child does not merge names — in particular an
        empty scope): its own expert level is unset or at most `k`;
      * a scope that exists only as the dotted prefix of its children (`a` in `a.b = 1`): its own
        level allows it AND at least one child is visible. -/
inductive Visible (k : Int) : Obj → Prop
  | defn (m : Meta) (ws : List Word) : ownShown k m → Visible k (.defn m ws)
  | scope (m : Meta) (os : List Obj) : ownShown k m → firstMerges os = false →
      Visible k (.scope m os)
  | dotted (m : Meta) (os : List Obj) (c : Obj) : ownShown k m → firstMerges os = true → c ∈ os →
      Visible k c → Visible k (.scope m os)

/-- the object with its children pruned (a definition: itself) -/
def Obj.pruneKids (k : Int) : Obj → Obj
  | .defn m ws => .defn m ws
  | .scope m os => .scope m (pruneList k os)

theorem pruneKids_children_ert (k : Int) (x : Obj) :
    (x.pruneKids k).children = pruneList k x.children := by
  cases x with
  | defn m ws => simp [Obj.pruneKids, Obj.children, pruneList_nil]
  | scope m os => rfl

/-- `pruneList` prunes every child and drops the hidden ones -/
theorem pruneList_eq_filterMap_ert (k : Int) (os : List Obj) :
    pruneList k os = os.filterMap (prune k) := by
  induction os with
  | nil => rw [pruneList_nil]; rfl
  | cons x xs ih =>
    rw [pruneList_cons, List.filterMap_cons, ih]
    cases prune k x <;> rfl

/-- if `prune` keeps an object it keeps it with its children pruned -/
theorem prune_some_eq_ert (k : Int) (x x' : Obj) (h : prune k x = some x') : x' = x.pruneKids k := by
  cases x with
  | defn m ws =>
    rw [prune_defn] at h
    split at h
    · cases h
    · cases h; rfl
  | scope m os =>
    rw [prune_scope] at h
    split at h
    · cases h
    · split at h
      · cases h
      · cases h; rfl

theorem pruneList_ne_nil_iff_ert (k : Int) (os : List Obj) :
    pruneList k os ≠ [] ↔ ∃ c ∈ os, (prune k c).isSome = true := by
  rw [pruneList_eq_filterMap_ert]
  constructor
  · intro h
    cases hl : os.filterMap (prune k) with
    | nil => exact (h hl).elim
    | cons y ys =>
      have : y ∈ os.filterMap (prune k) := by rw [hl]; exact List.mem_cons_self
      obtain ⟨c, hc, hp⟩ := List.mem_filterMap.mp this
      exact ⟨c, hc, by rw [hp]; rfl⟩
  · rintro ⟨c, hc, hp⟩ h
    obtain ⟨y, hy⟩ := Option.isSome_iff_exists.mp hp
    have : y ∈ os.filterMap (prune k) := List.mem_filterMap.mpr ⟨c, hc, hy⟩
    rw [h] at this
    cases this

/-- **`prune` keeps exactly the visible objects** -/
theorem prune_isSome_iff_ert (k : Int) (x : Obj) : (prune k x).isSome = true ↔ Visible k x := by
  induction x using Obj.rec
    (motive_2 := fun os => ∀ c ∈ os, ((prune k c).isSome = true ↔ Visible k c)) with
  | defn m ws =>
    rw [prune_defn]
    constructor
    · intro h
      split at h
      · cases h
      · rename_i hh
        exact Visible.defn m ws ((hiddenAt_false_iff_ert k m).mp (by simpa using hh))
    · intro h
      cases h with
      | defn _ _ ho => rw [(hiddenAt_false_iff_ert k m).mpr ho]; rfl
  | scope m os ih =>
    rw [prune_scope]
    constructor
    · intro h
      split at h
      · cases h
      · rename_i hh
        have ho := (hiddenAt_false_iff_ert k m).mp (by simpa using hh)
        split at h
        · cases h
        · rename_i hfe
          cases hfm : firstMerges os with
          | false => exact Visible.scope m os ho hfm
          | true =>
            have hne : pruneList k os ≠ [] := by
              intro he; rw [hfm, he] at hfe; simp at hfe
            obtain ⟨c, hc, hp⟩ := (pruneList_ne_nil_iff_ert k os).mp hne
            exact Visible.dotted m os c ho hfm hc ((ih c hc).mp hp)
    · intro h
      cases h with
      | scope _ _ ho hfm =>
        rw [(hiddenAt_false_iff_ert k m).mpr ho, hfm]; rfl
      | dotted _ _ c ho hfm hc hv =>
        have hne : pruneList k os ≠ [] :=
          (pruneList_ne_nil_iff_ert k os).mpr ⟨c, hc, (ih c hc).mpr hv⟩
        have : (pruneList k os).isEmpty = false := by
          cases hl : pruneList k os with
          | nil => exact (hne hl).elim
          | cons _ _ => rfl
        rw [(hiddenAt_false_iff_ert k m).mpr ho, hfm, this]; rfl
  | nil => rename_i c hc; cases hc
  | cons x xs ihx ihxs =>
    rename_i c hc
    rcases List.mem_cons.mp hc with rfl | hc
    · exact ihx
    · exact ihxs c hc

/-- `prune` on one object: kept iff visible, and then with its children pruned -/
theorem prune_eq_some_iff_ert (k : Int) (x x' : Obj) :
    prune k x = some x' ↔ Visible k x ∧ x' = x.pruneKids k := by
  constructor
  · intro h
    exact ⟨(prune_isSome_iff_ert k x).mp (by rw [h]; rfl), prune_some_eq_ert k x x' h⟩
  · rintro ⟨hv, rfl⟩
    obtain ⟨y, hy⟩ := Option.isSome_iff_exists.mp ((prune_isSome_iff_ert k x).mpr hv)
    rw [hy, prune_some_eq_ert k x y hy]

theorem prune_eq_none_iff_ert (k : Int) (x : Obj) : prune k x = none ↔ ¬ Visible k x := by
  rw [← prune_isSome_iff_ert]
  cases prune k x <;> simp

theorem mem_pruneList_iff_ert (k : Int) (os : List Obj) (x' : Obj) :
    x' ∈ pruneList k os ↔ ∃ x ∈ os, Visible k x ∧ x' = x.pruneKids k := by
  rw [pruneList_eq_filterMap_ert, List.mem_filterMap]
  constructor
  · rintro ⟨x, hx, hp⟩; exact ⟨x, hx, (prune_eq_some_iff_ert k x x').mp hp⟩
  · rintro ⟨x, hx, hv⟩; exact ⟨x, hx, (prune_eq_some_iff_ert k x x').mpr hv⟩

/-- `IsPath os [x₁, …, xₙ]`: `x₁` is one of `os`, `x₂` a child of `x₁`, …: an object `xₙ` of the forest
    together with its enclosing scopes `x₁ … xₙ₋₁` -/
def IsPath : List Obj → List Obj → Prop
  | _, [] => True
  | os, x :: rest => x ∈ os ∧ IsPath x.children rest

/-- **The objects of the pruned forest**, each with its chain of enclosing scopes, are exactly the
    objects of the original forest that are visible and all of whose enclosing scopes are visible
    (each taken with its children pruned). -/
theorem pruneList_paths_ert (k : Int) (p' : List Obj) : ∀ (os : List Obj),
    IsPath (pruneList k os) p' ↔
      ∃ p, IsPath os p ∧ (∀ x ∈ p, Visible k x) ∧ p' = p.map (Obj.pruneKids k) := by
  induction p' with
  | nil =>
    intro os
    refine ⟨fun _ => ⟨[], ?_, ?_, rfl⟩, fun _ => ?_⟩
    · unfold IsPath; trivial
    · intro x hx; simp at hx
    · unfold IsPath; trivial
  | cons x' rest' ih =>
    intro os
    constructor
    · rintro ⟨hx', hrest⟩
      obtain ⟨x, hx, hv, rfl⟩ := (mem_pruneList_iff_ert k os x').mp hx'
      rw [pruneKids_children_ert] at hrest
      obtain ⟨p, hp, hpv, rfl⟩ := (ih x.children).mp hrest
      refine ⟨x :: p, ⟨hx, hp⟩, fun y hy => ?_, rfl⟩
      rcases List.mem_cons.mp hy with rfl | hy
      · exact hv
      · exact hpv y hy
    · rintro ⟨p, hp, hpv, he⟩
      cases p with
      | nil => cases he
      | cons x p =>
        rw [List.map_cons] at he
        cases he
        obtain ⟨hx, hp⟩ := hp
        refine ⟨(mem_pruneList_iff_ert k os _).mpr ⟨x, hx, hpv x List.mem_cons_self, rfl⟩, ?_⟩
        rw [pruneKids_children_ert]
        exact (ih x.children).mpr ⟨p, hp, fun y hy => hpv y (List.mem_cons_of_mem _ hy), rfl⟩

/-- when no object has a level above `k`, pruning changes nothing -/
theorem prune_of_allVisible_ert (k : Int) (x : Obj) : AllVisible k x = true → prune k x = some x := by
  induction x using Obj.rec
    (motive_2 := fun os => AllVisibles k os = true → pruneList k os = os) with
  | defn m ws =>
    intro h
    simp only [AllVisible, Bool.not_eq_true'] at h
    rw [prune_defn, h]; rfl
  | scope m os ih =>
    intro h
    simp only [AllVisible, Bool.and_eq_true, Bool.not_eq_true'] at h
    rw [prune_scope, h.1, ih h.2]
    cases os with
    | nil => rfl
    | cons c cs => simp
  | nil => rename_i h; exact pruneList_nil k
  | cons x xs ihx ihxs =>
    rename_i h
    simp only [AllVisibles, Bool.and_eq_true] at h
    rw [pruneList_cons, ihx h.1, ihxs h.2]

/-! ### the printed text does not see attributes -/

theorem treeText_stripAttrs_ert (w : Int) (x : Obj) :
    ∀ (ms : List Str) (ind : Str), treeText w x.stripAttrs ms ind = treeText w x ms ind := by
  induction x using Obj.rec
    (motive_2 := fun os => ∀ (ms : List Str) (ind : Str),
      kidsText w (stripAttrsList os) ms ind = kidsText w os ms ind) with
  | defn m ws => intro ms ind; rw [Obj.stripAttrs_defn, treeText, treeText]; rfl
  | scope m os ih =>
    intro ms ind
    rw [Obj.stripAttrs_scope, treeText, treeText, firstMerges_stripAttrsList_ert, ih, ih]; rfl
  | nil => rfl
  | cons x xs ihx ihxs =>
    rename_i ms ind
    rw [stripAttrsList_cons, kidsText, kidsText, ihx, ihxs]

theorem kidsText_stripAttrs_ert (w : Int) (os : List Obj) (ms : List Str) (ind : Str) :
    kidsText w (stripAttrsList os) ms ind = kidsText w os ms ind := by
  induction os with
  | nil => rfl
  | cons x xs ih => rw [stripAttrsList_cons, kidsText, kidsText, treeText_stripAttrs_ert, ih]

/-! ### the root scope under a prefix; the parser on an indented document -/

theorem asStr_root_pre_ert (o : ShowOpts) (objs : List Obj) (pre : Str) :
    asStr o (rootOf objs) pre = (showObjs o objs [] pre).map unlines := by
  have h0 : ¬ ((0 : Int) < 0) := by omega
  rw [asStr, rootOf, showObj_scope_eq]
  simp only [h0, decide_false, Bool.false_and, Bool.false_eq_true, ↓reduceIte, attrs_get_nil,
    expertHidden, expertGate_false, showScopeBody, List.isEmpty_nil]

/-- `parse` of the text of a document of (attribute-free) trees printed under a prefix of blanks -/
theorem parseObjs_trees_ind_ert (w : Int) (objs : List Obj) (ind : Str) (hb : Blank ind)
    (h : RTAll objs) (hw : WrapsOKs w objs [] ind) :
    ∃ objs', parseObjs (kidsText w objs [] ind) = .ok objs' ∧ eraseList objs' = eraseList objs ∧
      idsList objs' = (expIdsSeq 1 objs).map some := by
  have hsteps : ∀ y ∈ objs, StepAt w y [] ind := fun y hy =>
    step_all w y [] ind (by intro n hn; simp at hn) hb ((RTAll_iff objs).mp h y hy)
      ((WrapsOKs_iff w objs [] ind).mp hw y hy)
  obtain ⟨objs', st', hrun, _, _, her, hid⟩ :=
    block_of_steps w objs ind hb hsteps h ((kidsText w objs [] ind).length + 2) [] [] [] 1 1 none 0
      [] none (by intro c hc; simp at hc)
      (by have := itemsList_le_text w objs [] ind; omega) (Or.inl ⟨rfl, rfl⟩)
  refine ⟨objs', ?_, her, hid⟩
  unfold parseObjs
  simp only [List.nil_append, List.append_nil] at hrun
  rw [hrun]
  simp [flush]

theorem wrapsOKs_of_nlOnlyLast_ert (w : Int) (os : List Obj) (ms : List Str) (ind : Str)
    (h : allDefnsList NlOnlyLast os) : WrapsOKs w os ms ind :=
  (WrapsOKs_iff w os ms ind).mpr fun y hy =>
    wrapsOK_of_nlOnlyLast w y ms ind ((allDefnsList_iff NlOnlyLast os).mp h y hy)

/-! ### the objects shown under an expert setting -/

/-- the objects of the root scope that `show` shows under the expert setting `e`: everything for an
    absent or negative level, the pruned forest for `k ≥ 0` -/
def shownAt (e : Option Int) (objs : List Obj) : List Obj :=
  match e with
  | none => objs
  | some k => if 0 ≤ k then pruneList k objs else objs

theorem shownAt_none_ert (objs : List Obj) : shownAt none objs = objs := rfl
theorem shownAt_neg_ert (k : Int) (hk : k < 0) (objs : List Obj) : shownAt (some k) objs = objs := by
  simp only [shownAt]; rw [if_neg (by omega)]
theorem shownAt_nonneg_ert (k : Int) (hk : 0 ≤ k) (objs : List Obj) :
    shownAt (some k) objs = pruneList k objs := by
  simp only [shownAt]; rw [if_pos hk]

theorem opts_expert_eta_ert (o : ShowOpts) : { o with expert := o.expert } = o := rfl

/-- the expert gate, all three cases: printing under `o` = printing the shown objects, gate off -/
theorem showObjs_shownAt_ert (o : ShowOpts) (objs : List Obj) (ms : List Str) (pre : Str)
    (hw : ∀ k, o.expert = some k → 0 ≤ k → ExpertWFs objs = true ∧ DottedWFs objs = true) :
    showObjs o objs ms pre = showObjs { o with expert := none } (shownAt o.expert objs) ms pre := by
  cases he : o.expert with
  | none =>
    have : o = { o with expert := none } := by rw [← he]
    rw [shownAt_none_ert, ← this]
  | some k =>
    have ho : o = { o with expert := some k } := by rw [← he]
    by_cases hk : 0 ≤ k
    · obtain ⟨h1, h2⟩ := hw k he hk
      rw [shownAt_nonneg_ert k hk, ho]
      exact showObjs_prune_aux o k hk objs ms pre h1 h2
    · rw [shownAt_neg_ert k (by omega), ho]
      exact showObjs_expert_neg_aux o k (by omega) objs ms pre

theorem shownAt_RTAllA_ert (e : Option Int) (objs : List Obj) (h : RTAllA objs) :
    RTAllA (shownAt e objs) := by
  unfold shownAt
  split
  · exact h
  · split
    · exact pruneList_RTAllA_ert _ objs h
    · exact h

theorem shownAt_allDefns_ert (P : List Word → Prop) (e : Option Int) (objs : List Obj)
    (h : allDefnsList P objs) : allDefnsList P (shownAt e objs) := by
  unfold shownAt
  split
  · exact h
  · split
    · exact pruneList_allDefns_ert P _ objs h
    · exact h

/-- **Master lemma.**  A forest of the class `RTAllA` (attributes allowed), printed at attributes
    level 0 under any expert setting, any width and any prefix of blanks: the text is the text of the
    shown objects, it parses, and the parser returns the shown objects without their attributes, up to
    ids and source positions; ids as in the nested round trip. -/
theorem filtered_round_trip_ert (o : ShowOpts) (hl : o.level = 0) (objs : List Obj) (h : RTAllA objs)
    (hnl : allDefnsList NlOnlyLast objs)
    (hw : ∀ k, o.expert = some k → 0 ≤ k → ExpertWFs objs = true) (p : Str) (hp : Blank p) :
    ∃ objs', asStr o (rootOf objs) p = .ok (kidsText o.width (shownAt o.expert objs) [] p) ∧
      parseObjs (kidsText o.width (shownAt o.expert objs) [] p) = .ok objs' ∧
      eraseList objs' = eraseAttrsList (shownAt o.expert objs) ∧
      idsList objs' = (expIdsSeq 1 (shownAt o.expert objs)).map some := by
  have hS := shownAt_RTAllA_ert o.expert objs h
  have hN := shownAt_allDefns_ert NlOnlyLast o.expert objs hnl
  generalize hX : shownAt o.expert objs = X at hS hN
  have hshow : showObjs o objs [] p = showObjs { o with expert := none } (stripAttrsList X) [] p := by
    rw [showObjs_shownAt_ert o objs [] p
      (fun k he hk => ⟨hw k he hk, dottedWFs_of_RTAll_ert objs h.1⟩), hX]
    exact showObjs_stripAttrs_ert _ (by show o.level ≤ 0; omega) rfl X [] p hS.2
  obtain ⟨lines, e1, t1⟩ := showObjs_all { o with expert := none } (by show o.level ≤ 0; omega)
    (stripAttrsList X) p hS.1
  obtain ⟨objs', e2, e3, e4⟩ := parseObjs_trees_ind_ert o.width (stripAttrsList X) p hp hS.1
    (wrapsOKs_of_nlOnlyLast_ert o.width _ [] p ((allDefnsList_stripAttrs_ert NlOnlyLast X).mpr hN))
  have t1' : unlines lines = kidsText o.width (stripAttrsList X) [] p := t1
  rw [kidsText_stripAttrs_ert] at e2 t1'
  refine ⟨objs', ?_, e2, ?_, ?_⟩
  · rw [asStr_root_pre_ert, hshow, e1]
    simp only [Except.map, t1']
  · rw [e3, eraseList_stripAttrsList_ert]
  · rw [e4, expIdsSeq_stripAttrs_ert]

/-- stripping the prefix again from prefixed lines -/
theorem map_drop_prefix_ert (p : Str) (ls : List Str) :
    (ls.map (p ++ ·)).map (List.drop p.length) = ls := by
  induction ls with
  | nil => rfl
  | cons l ls ih => simp only [List.map_cons, List.drop_left, ih]

end Phil
