/-
  Helper lemmas for the heap model (Phil/Heap.lean): the traversal invariant of `visit`, the shape of a
  `deepcopy` result, abstraction under renaming / under agreement below a bound, frames of slot
  assignment, the parse-shaped construction.
-/
import Phil.Heap
namespace Phil.Heap

/-! ### `mapOpt` -/

theorem mapOpt_congr {α β : Type} {f g : α → Option β} : ∀ {l : List α},
    (∀ a ∈ l, f a = g a) → mapOpt f l = mapOpt g l
  | [], _ => rfl
  | a :: as, h => by
    simp only [mapOpt]
    rw [h a (by simp), mapOpt_congr (l := as) (fun b hb => h b (by simp [hb]))]

theorem mapOpt_map {α β γ : Type} (f : β → Option γ) (g : α → β) : ∀ (l : List α),
    mapOpt f (l.map g) = mapOpt (fun a => f (g a)) l
  | [] => rfl
  | a :: as => by simp only [List.map_cons, mapOpt]; rw [mapOpt_map f g as]

theorem mapOpt_some_length {α β : Type} {f : α → Option β} : ∀ {l : List α} {r : List β},
    mapOpt f l = some r → r.length = l.length
  | [], r, h => by simp only [mapOpt] at h; cases h; rfl
  | a :: as, r, h => by
    simp only [mapOpt] at h
    cases hfa : f a with
    | none => rw [hfa] at h; simp at h
    | some b =>
      cases hr : mapOpt f as with
      | none => rw [hfa, hr] at h; simp at h
      | some bs =>
        rw [hfa, hr] at h
        cases h
        simp [mapOpt_some_length hr]

/-! ### slot assignment -/

theorem assign_length (h : Heap) (x : Nat) (a : Assign) : (assign h x a).length = h.length := by
  unfold assign
  split <;> simp

theorem assign_get_ne (h : Heap) (x y : Nat) (a : Assign) (hne : y ≠ x) : (assign h x a)[y]? = h[y]? := by
  unfold assign
  split
  · rfl
  · rw [List.getElem?_set_ne (Ne.symm hne)]

theorem assign_get_self (h : Heap) (x : Nat) (a : Assign) (n : Node) (hx : h[x]? = some n) :
    (assign h x a)[x]? = some (n.assign a) := by
  unfold assign
  rw [hx]
  have : x < h.length := by
    rcases List.getElem?_eq_some_iff.mp hx with ⟨hlt, _⟩
    exact hlt
  simp [List.getElem?_set_self this]

/-- a history of assignments whose targets are all `≥ n` leaves every object below `n` untouched -/
theorem assignMany_get_below (n : Nat) : ∀ (ops : List (Nat × Assign)) (h : Heap),
    (∀ op ∈ ops, n ≤ op.1) → ∀ i, i < n → (assignMany h ops)[i]? = h[i]?
  | [], _, _, _, _ => rfl
  | (x, a) :: rest, h, hops, i, hi => by
    simp only [assignMany]
    rw [assignMany_get_below n rest (assign h x a) (fun op hop => hops op (by simp [hop])) i hi]
    have hx : n ≤ x := hops (x, a) (by simp)
    exact assign_get_ne h x i a (by omega)

theorem assignMany_length : ∀ (ops : List (Nat × Assign)) (h : Heap), (assignMany h ops).length = h.length
  | [], _ => rfl
  | (x, a) :: rest, h => by simp only [assignMany]; rw [assignMany_length rest, assign_length]

/-! ### abstraction -/

/-- every object below `n` refers (through `objects`) to objects below `n` only -/
def ClosedBelow (h : Heap) (n : Nat) : Prop :=
  ∀ i nd, i < n → h[i]? = some nd → ∀ k ∈ nd.kids, k < n

/-- the abstraction of an object below `n` depends only on the cells below `n` -/
theorem absF_agree (g h : Heap) (n : Nat) (hag : ∀ i, i < n → g[i]? = h[i]?) (hcl : ClosedBelow h n) :
    ∀ (f i : Nat), i < n → absF f g i = absF f h i
  | 0, _, _ => rfl
  | f + 1, i, hi => by
    simp only [absF]
    rw [hag i hi]
    cases hc : h[i]? with
    | none => rfl
    | some nd =>
      cases nd with
      | defn m ws p => rfl
      | scope m ks p =>
        simp only
        have := mapOpt_congr (l := ks) (fun k hk => absF_agree g h n hag hcl f k (hcl i _ hi hc k hk))
        rw [this]

theorem absF_mono : ∀ (f : Nat) (h : Heap) (x : Nat) (o : Obj), absF f h x = some o → absF (f + 1) h x = some o
  | 0, _, _, _, hh => by simp [absF] at hh
  | f + 1, h, x, o, hh => by
    rw [absF] at hh ⊢
    cases hc : h[x]? with
    | none => rw [hc] at hh; exact hh
    | some nd =>
      rw [hc] at hh
      cases nd with
      | defn m ws p => exact hh
      | scope m ks p =>
        simp only at hh ⊢
        cases hm : mapOpt (absF f h) ks with
        | none => rw [hm] at hh; simp at hh
        | some os =>
          rw [hm] at hh
          have : mapOpt (absF (f + 1) h) ks = some os := by
            clear hh hc
            induction ks generalizing os with
            | nil => simpa [mapOpt] using hm
            | cons k ks ih =>
              simp only [mapOpt] at hm ⊢
              cases hk : absF f h k with
              | none => rw [hk] at hm; simp at hm
              | some ok =>
                cases hr : mapOpt (absF f h) ks with
                | none => rw [hk, hr] at hm; simp at hm
                | some oks =>
                  rw [hk, hr] at hm
                  rw [absF_mono f h k ok hk, ih oks hr]
                  exact hm
          rw [this]
          exact hh

theorem absF_mono_le (h : Heap) (x : Nat) (o : Obj) : ∀ (f f' : Nat), f ≤ f' → absF f h x = some o →
    absF f' h x = some o := by
  intro f f' hle
  induction hle with
  | refl => exact id
  | step _ ih => exact fun hh => absF_mono _ h x o (ih hh)

/-- `Abs` is a partial function -/
theorem Abs_unique {h : Heap} {x : Nat} {o o' : Obj} (h1 : Abs h x o) (h2 : Abs h x o') : o = o' := by
  obtain ⟨f1, e1⟩ := h1
  obtain ⟨f2, e2⟩ := h2
  have a := absF_mono_le h x o f1 (max f1 f2) (Nat.le_max_left _ _) e1
  have b := absF_mono_le h x o' f2 (max f1 f2) (Nat.le_max_right _ _) e2
  rw [a] at b
  exact Option.some.inj b

/-! ### the traversal of deepcopy -/

/-- invariant of `visit`: `seen` records true states, has no duplicate, and every reference of a seen
    object is seen or still on the stack -/
structure VisitInv (h : Heap) (todo : List Nat) (seen : List (Nat × Node)) : Prop where
  state : ∀ p ∈ seen, h[p.1]? = some p.2
  nodup : (seen.map (·.1)).Nodup
  closed : ∀ p ∈ seen, ∀ y ∈ p.2.succs, y ∈ seen.map (·.1) ∨ y ∈ todo

theorem visit_inv : ∀ (f : Nat) (h : Heap) (todo : List Nat) (seen comp : List (Nat × Node)),
    visit f h todo seen = some comp → VisitInv h todo seen →
    VisitInv h [] comp ∧ (∀ p ∈ seen, p ∈ comp) ∧ (∀ y ∈ todo, y ∈ comp.map (·.1))
  | 0, _, _, _, _, hv, _ => by simp [visit] at hv
  | f + 1, h, [], seen, comp, hv, inv => by
    simp only [visit] at hv
    cases hv
    exact ⟨inv, fun p hp => hp, fun y hy => by simp at hy⟩
  | f + 1, h, x :: todo, seen, comp, hv, inv => by
    simp only [visit] at hv
    by_cases hx : x ∈ seen.map (·.1)
    · rw [if_pos hx] at hv
      have inv' : VisitInv h todo seen :=
        ⟨inv.state, inv.nodup, fun p hp y hy => by
          rcases inv.closed p hp y hy with hs | ht
          · exact Or.inl hs
          · rcases List.mem_cons.mp ht with rfl | ht'
            · exact Or.inl hx
            · exact Or.inr ht'⟩
      obtain ⟨i1, i2, i3⟩ := visit_inv f h todo seen comp hv inv'
      refine ⟨i1, i2, ?_⟩
      intro y hy
      rcases List.mem_cons.mp hy with rfl | hy'
      · obtain ⟨p, hp, hpx⟩ := List.mem_map.mp hx
        exact List.mem_map.mpr ⟨p, i2 p hp, hpx⟩
      · exact i3 y hy'
    · rw [if_neg hx] at hv
      cases hc : h[x]? with
      | none => rw [hc] at hv; simp at hv
      | some n =>
        rw [hc] at hv
        simp only at hv
        have inv' : VisitInv h (n.succs ++ todo) (seen ++ [(x, n)]) := by
          refine ⟨?_, ?_, ?_⟩
          · intro p hp
            rcases List.mem_append.mp hp with hp | hp
            · exact inv.state p hp
            · simp only [List.mem_singleton] at hp
              subst hp
              exact hc
          · rw [List.map_append, List.nodup_append]
            refine ⟨inv.nodup, by simp, ?_⟩
            intro a ha b hb
            simp only [List.map_cons, List.map_nil, List.mem_singleton] at hb
            subst hb
            intro hab
            subst hab
            exact hx ha
          · intro p hp y hy
            rcases List.mem_append.mp hp with hp | hp
            · rcases inv.closed p hp y hy with hs | ht
              · exact Or.inl (by rw [List.map_append]; exact List.mem_append_left _ hs)
              · rcases List.mem_cons.mp ht with rfl | ht'
                · exact Or.inl (by simp)
                · exact Or.inr (List.mem_append_right _ ht')
            · simp only [List.mem_singleton] at hp
              subst hp
              exact Or.inr (List.mem_append_left _ hy)
        obtain ⟨i1, i2, i3⟩ := visit_inv f h (n.succs ++ todo) (seen ++ [(x, n)]) comp hv inv'
        refine ⟨i1, fun p hp => i2 p (List.mem_append_left _ hp), ?_⟩
        intro y hy
        rcases List.mem_cons.mp hy with rfl | hy'
        · exact List.mem_map.mpr ⟨(y, n), i2 _ (by simp), rfl⟩
        · exact i3 y (List.mem_append_right _ hy')

/-- what a successful `deepcopy` is, in one statement: `comp` lists the copied objects with their states,
    is closed under `objects` / `primary_parent_scope`, contains `x`, and the new heap is the old one
    followed by the renamed states -/
structure DeepSpec (h : Heap) (x : Nat) (c : Copied) (comp : List (Nat × Node)) : Prop where
  ids : c.comp = comp.map (·.1)
  heap : c.heap = h ++ comp.map (fun p => p.2.rename (memo h.length c.comp))
  result : c.result = memo h.length c.comp x
  state : ∀ p ∈ comp, h[p.1]? = some p.2
  nodup : c.comp.Nodup
  closed : ∀ p ∈ comp, ∀ y ∈ p.2.succs, y ∈ c.comp
  root : x ∈ c.comp

theorem deepcopy_spec {h : Heap} {x : Nat} {c : Copied} (hd : deepcopy h x = some c) :
    ∃ comp, DeepSpec h x c comp := by
  unfold deepcopy at hd
  cases hv : visit (visitFuel h) h [x] [] with
  | none => rw [hv] at hd; simp at hd
  | some comp =>
    rw [hv] at hd
    simp only [Option.some.injEq] at hd
    subst hd
    have inv0 : VisitInv h [x] [] := ⟨by simp, by simp, by simp⟩
    obtain ⟨i1, _, i3⟩ := visit_inv _ h [x] [] comp hv inv0
    refine ⟨comp, rfl, rfl, rfl, i1.state, i1.nodup, ?_, i3 x (by simp)⟩
    intro p hp y hy
    rcases i1.closed p hp y hy with hs | ht
    · exact hs
    · simp at ht

/-- the state of a copied object is found in `comp` -/
theorem DeepSpec.mem_state {h : Heap} {x : Nat} {c : Copied} {comp : List (Nat × Node)}
    (s : DeepSpec h x c comp) {i : Nat} (hi : i ∈ c.comp) : ∃ n, h[i]? = some n ∧ (i, n) ∈ comp := by
  rw [s.ids] at hi
  obtain ⟨p, hp, rfl⟩ := List.mem_map.mp hi
  exact ⟨p.2, s.state p hp, hp⟩

theorem DeepSpec.lt_length {h : Heap} {x : Nat} {c : Copied} {comp : List (Nat × Node)}
    (s : DeepSpec h x c comp) {i : Nat} (hi : i ∈ c.comp) : i < h.length := by
  obtain ⟨n, hn, _⟩ := s.mem_state hi
  rcases List.getElem?_eq_some_iff.mp hn with ⟨hlt, _⟩
  exact hlt

/-- the cell of the copy of `i` is the renamed cell of `i` -/
theorem DeepSpec.lookup {h : Heap} {x : Nat} {c : Copied} {comp : List (Nat × Node)}
    (s : DeepSpec h x c comp) {i : Nat} (hi : i ∈ c.comp) {n : Node} (hn : h[i]? = some n) :
    c.heap[memo h.length c.comp i]? = some (n.rename (memo h.length c.comp)) := by
  have hlt : c.comp.idxOf i < c.comp.length := List.idxOf_lt_length_of_mem hi
  have hget : c.comp[c.comp.idxOf i]? = some i := by
    rw [List.getElem?_eq_getElem hlt, List.getElem_idxOf hlt]
  rw [s.heap]
  unfold memo
  rw [List.getElem?_append_right (Nat.le_add_right _ _), Nat.add_sub_cancel_left, List.getElem?_map]
  generalize c.comp.idxOf i = j at hget
  rw [s.ids, List.getElem?_map] at hget
  cases hc : comp[j]? with
  | none => rw [hc] at hget; simp at hget
  | some p =>
    rw [hc] at hget
    simp only [Option.map_some, Option.some.injEq] at hget
    have hst := s.state p (List.mem_of_getElem? hc)
    rw [hget, hn] at hst
    simp only [Option.map_some]
    rw [← Option.some.inj hst]

/-- the copies are new objects -/
theorem memo_ge (base : Nat) (comp : List Nat) (i : Nat) : base ≤ memo base comp i := Nat.le_add_right _ _

theorem memo_lt {base : Nat} {comp : List Nat} {i : Nat} (hi : i ∈ comp) :
    memo base comp i < base + comp.length := by
  unfold memo
  have := List.idxOf_lt_length_of_mem hi
  omega

/-- different objects have different copies -/
theorem memo_inj {base : Nat} {comp : List Nat} {i j : Nat} (hi : i ∈ comp) (hj : j ∈ comp)
    (he : memo base comp i = memo base comp j) : i = j := by
  unfold memo at he
  have h1 : comp.idxOf i < comp.length := List.idxOf_lt_length_of_mem hi
  have h2 : comp.idxOf j < comp.length := List.idxOf_lt_length_of_mem hj
  have e : comp.idxOf i = comp.idxOf j := by omega
  have a : comp[comp.idxOf i] = i := List.getElem_idxOf h1
  have b : comp[comp.idxOf j] = j := List.getElem_idxOf h2
  rw [← a, ← b]
  simp [e]

theorem DeepSpec.length {h : Heap} {x : Nat} {c : Copied} {comp : List (Nat × Node)}
    (s : DeepSpec h x c comp) : c.heap.length = h.length + c.comp.length := by
  rw [s.heap, List.length_append, List.length_map, s.ids, List.length_map]

theorem DeepSpec.old {h : Heap} {x : Nat} {c : Copied} {comp : List (Nat × Node)}
    (s : DeepSpec h x c comp) {i : Nat} (hi : i < h.length) : c.heap[i]? = h[i]? := by
  rw [s.heap, List.getElem?_append_left hi]

theorem rename_kids (ρ : Nat → Nat) (n : Node) : (n.rename ρ).kids = n.kids.map ρ := by
  cases n <;> rfl
theorem rename_parent (ρ : Nat → Nat) (n : Node) : (n.rename ρ).parent = n.parent.map ρ := by
  cases n <;> rfl
theorem rename_meta (ρ : Nat → Nat) (n : Node) : (n.rename ρ).meta = n.meta := by
  cases n <;> rfl

theorem mem_succs_of_kid {n : Node} {k : Nat} (hk : k ∈ n.kids) : k ∈ n.succs :=
  List.mem_append_left _ hk
theorem mem_succs_of_parent {n : Node} {p : Nat} (hp : n.parent = some p) : p ∈ n.succs := by
  unfold Node.succs; rw [hp]; simp

/-- deepcopy's result is isomorphic to the original, at every fuel and for every copied object -/
theorem DeepSpec.absF_eq {h : Heap} {x : Nat} {c : Copied} {comp : List (Nat × Node)}
    (s : DeepSpec h x c comp) : ∀ (f i : Nat), i ∈ c.comp →
    absF f c.heap (memo h.length c.comp i) = absF f h i
  | 0, _, _ => rfl
  | f + 1, i, hi => by
    obtain ⟨n, hn, hmem⟩ := s.mem_state hi
    simp only [absF]
    rw [s.lookup hi hn, hn]
    cases n with
    | defn m ws p => rfl
    | scope m ks p =>
      simp only [Node.rename]
      rw [mapOpt_map]
      have := mapOpt_congr (l := ks) (fun k hk => s.absF_eq f k (s.closed (i, _) hmem k (mem_succs_of_kid hk)))
      rw [this]

/-! ### well-formedness: from the checker to propositions -/

/-- no dangling reference -/
def Closed (h : Heap) : Prop := ∀ (i : Nat) (n : Node), h[i]? = some n → ∀ k ∈ n.succs, k < h.length

/-- every child of a scope has that scope as parent -/
def KidsLinked (h : Heap) : Prop :=
  ∀ (i : Nat) (n : Node), h[i]? = some n → ∀ k ∈ n.kids, ∃ nk : Node, h[k]? = some nk ∧ nk.parent = some i

theorem closedB_sound {h : Heap} (hc : closedB h = true) : Closed h := by
  intro i n hi k hk
  unfold closedB at hc
  rw [List.all_eq_true] at hc
  have := hc n (List.mem_of_getElem? hi)
  rw [List.all_eq_true] at this
  exact of_decide_eq_true (this k hk)

theorem Closed.below {h : Heap} (hc : Closed h) : ClosedBelow h h.length :=
  fun i n _ hi k hk => hc i n hi k (mem_succs_of_kid hk)

theorem kidsLinkedB_sound {h : Heap} (hc : kidsLinkedB h = true) : KidsLinked h := by
  intro i n hi k hk
  unfold kidsLinkedB at hc
  rw [List.all_eq_true] at hc
  have hlt : i < h.length := by
    rcases List.getElem?_eq_some_iff.mp hi with ⟨hlt, _⟩
    exact hlt
  have := hc i (List.mem_range.mpr hlt)
  rw [hi] at this
  simp only [List.all_eq_true] at this
  have hk' := this k hk
  cases hkc : h[k]? with
  | none => rw [hkc] at hk'; simp at hk'
  | some nk =>
    rw [hkc] at hk'
    simp only [Option.map_some, beq_iff_eq, Option.some.injEq] at hk'
    exact ⟨nk, rfl, hk'⟩

/-- `children linked to their own parent` holds for every copied object -/
theorem DeepSpec.kids_linked {h : Heap} {x : Nat} {c : Copied} {comp : List (Nat × Node)}
    (s : DeepSpec h x c comp) (hl : KidsLinked h) {i : Nat} (hi : i ∈ c.comp) {n' : Node}
    (hn' : c.heap[memo h.length c.comp i]? = some n') :
    ∀ k ∈ n'.kids, ∃ nk, c.heap[k]? = some nk ∧ nk.parent = some (memo h.length c.comp i) ∧ h.length ≤ k := by
  obtain ⟨n, hn, hmem⟩ := s.mem_state hi
  rw [s.lookup hi hn] at hn'
  cases hn'
  intro k hk
  rw [rename_kids] at hk
  obtain ⟨k0, hk0, rfl⟩ := List.mem_map.mp hk
  obtain ⟨nk, hnk, hpar⟩ := hl i n hn k0 hk0
  have hk0c : k0 ∈ c.comp := s.closed (i, n) hmem k0 (mem_succs_of_kid hk0)
  refine ⟨_, s.lookup hk0c hnk, ?_, memo_ge _ _ _⟩
  rw [rename_parent, hpar]
  rfl

theorem copy_eq {h : Heap} {x : Nat} {h' : Heap} {c : Nat} (hc : copy h x = some (h', c)) :
    ∃ n, h[x]? = some n ∧ h' = h ++ [n] ∧ c = h.length := by
  unfold copy at hc
  cases hx : h[x]? with
  | none => rw [hx] at hc; simp at hc
  | some n =>
    rw [hx] at hc
    simp only [Option.map_some, Option.some.injEq, Prod.mk.injEq] at hc
    exact ⟨n, rfl, hc.1.symm, hc.2.symm⟩

/-- the abstraction of an object whose cell was appended last: same cell, same denotation -/
theorem absF_append_same (h : Heap) (n : Node) (x : Nat) (hx : h[x]? = some n) (hc : Closed h) :
    ∀ f, absF f (h ++ [n]) h.length = absF f h x
  | 0 => rfl
  | f + 1 => by
    simp only [absF]
    rw [List.getElem?_append_right (Nat.le_refl _), Nat.sub_self, hx]
    simp only [List.getElem?_cons_zero]
    cases n with
    | defn m ws p => rfl
    | scope m ks p =>
      simp only
      have := mapOpt_congr (l := ks) (fun k hk =>
        absF_agree (h ++ [Node.scope m ks p]) h h.length (fun i hi => List.getElem?_append_left hi) hc.below f k
          (hc x _ hx k (mem_succs_of_kid hk)))
      rw [this]

end Phil.Heap
