/-
  Lemmas behind C03: the quoted scanner inverts `escape` for every string.
-/
import Phil.Tok
set_option linter.unusedSimpArgs false
namespace Phil

/-- newlines in a string -/
def nlCount (s : Str) : Nat := s.count '\n'

theorem bump_eq (c : Char) (l : Nat) : bump c l = l + nlCount [c] := by
  unfold bump nlCount
  by_cases h : c = '\n' <;> simp [h, List.count_cons]

/-- Core lemma, single-quote styles: scanning `escape q s ++ q :: rest` returns exactly `s`,
    stops right after the closing quote and counts the newlines of `s`. -/
theorem scanQ_escape_single (q : Char) (hq : q ≠ '\\') (hn : q ≠ '\n') (s rest : Str) :
    ∀ (line : Nat) (acc : Str),
      scanQ q false false (escape q s ++ q :: rest) line acc
        = .ok (acc.reverse ++ s, rest, line + nlCount s) := by
  induction s with
  | nil => intro line acc; simp [escape, scanQ, nlCount]
  | cons c cs ih =>
    intro line acc
    have hq' : ¬ ('\\' = q) := fun h => hq h.symm
    by_cases h1 : c = '\\'
    · subst h1
      simp [escape, scanQ, hq, hq', ih, nlCount, List.count_cons]
    · by_cases h2 : c = q
      · subst h2
        simp [escape, scanQ, hq, hq', ih, nlCount, List.count_cons, hn]
      · simp [escape, scanQ, h1, h2, ih, bump_eq, nlCount, List.count_cons]
        omega

/-- the escaped text never contains the bare sequence that closes a triple quote at its head -/
theorem scanQ_escape_triple (q : Char) (hq : q ≠ '\\') (hn : q ≠ '\n') (s rest : Str) :
    ∀ (line : Nat) (acc : Str),
      scanQ q true false (escape q s ++ q :: q :: q :: rest) line acc
        = .ok (acc.reverse ++ s, rest, line + nlCount s) := by
  induction s with
  | nil => intro line acc; simp [escape, scanQ, nlCount]
  | cons c cs ih =>
    intro line acc
    have hq' : ¬ ('\\' = q) := fun h => hq h.symm
    by_cases h1 : c = '\\'
    · subst h1
      simp [escape, scanQ, hq, hq', ih, nlCount, List.count_cons]
    · by_cases h2 : c = q
      · subst h2
        simp [escape, scanQ, hq, hq', ih, nlCount, List.count_cons, hn]
      · simp [escape, scanQ, h1, h2, ih, bump_eq, nlCount, List.count_cons]
        omega


theorem escape_head_ne (q : Char) (hq : q ≠ '\\') (s : Str) :
    ∀ c cs, escape q s = c :: cs → c = q → False := by
  intro c cs h hc
  cases s with
  | nil => simp [escape] at h
  | cons d ds =>
    simp only [escape] at h
    split at h
    · simp at h; exact hq (hc ▸ h.1.symm)
    · split at h
      · simp at h; exact hq (hc ▸ h.1.symm)
      · rename_i h1 h2
        simp at h
        simp at h2
        exact h2 (h.1 ▸ hc)

/-- the text after an opening single quote never looks like a triple-quote opener -/
theorem not_triple_after_open (q : Char) (hq : q ≠ '\\') (s rest : Str) (hrest : ∀ r, rest ≠ q :: r) :
    isTripleOpen q (escape q s ++ q :: rest) = false := by
  cases hs : escape q s with
  | nil =>
    cases rest with
    | nil => simp [isTripleOpen]
    | cons r rs =>
      have : r ≠ q := fun h => hrest rs (by rw [h])
      simp [isTripleOpen, this]
  | cons a as =>
    have : a ≠ q := fun h => escape_head_ne q hq s a as hs h
    cases as <;> simp [isTripleOpen, this]

end Phil

namespace Phil

theorem quoteChar_facts (c : Char) (hc : c = '"' ∨ c = '\'') :
    c ≠ '\\' ∧ c ≠ '\n' ∧ isSpace c = false ∧ (c == '"' || c == '\'') = true := by
  rcases hc with h | h <;> subst h <;> refine ⟨by decide, by decide, by rfl, by rfl⟩

theorem nextWordAux_word (st : Settings) (c : Char) (cs : Str) (line : Nat)
    (h1 : isSpace c = false) (h2 : isCommentStart st c cs = false) :
    nextWordAux st false (c :: cs) line = (wordAt st c cs line).map some := by
  simp [nextWordAux, h1, h2]

/-- the word iterator at an opening single/double quote followed by an escaped string and the closing
    quote: exactly the original string, the rest untouched, newlines counted -/
theorem wordAt_single (st : Settings) (c : Char) (hc : c = '"' ∨ c = '\'')
    (s rest : Str) (line : Nat) (hrest : ∀ r, rest ≠ c :: r) :
    wordAt st c (escape c s ++ c :: rest) line
      = .ok ({ value := s, quote := some (Quote.mk' c false), line := some line },
             ⟨rest, line + nlCount s⟩) := by
  obtain ⟨hbs, hnl, _, h3⟩ := quoteChar_facts c hc
  have ht := not_triple_after_open c hbs s rest hrest
  unfold wordAt
  simp only [h3, ↓reduceIte, ht, Bool.false_eq_true]
  rw [scanQ_escape_single c hbs hnl]
  simp

theorem wordAt_triple (st : Settings) (c : Char) (hc : c = '"' ∨ c = '\'')
    (s rest : Str) (line : Nat) :
    wordAt st c (c :: c :: (escape c s ++ c :: c :: c :: rest)) line
      = .ok ({ value := s, quote := some (Quote.mk' c true), line := some line },
             ⟨rest, line + nlCount s⟩) := by
  obtain ⟨hbs, hnl, _, h3⟩ := quoteChar_facts c hc
  unfold wordAt
  simp only [h3, ↓reduceIte, isTripleOpen, beq_self_eq_true, Bool.and_self, List.drop_succ_cons,
    List.drop_zero]
  rw [scanQ_escape_triple c hbs hnl]
  simp

end Phil
