/-
  Phil.Proofs.FetchTreeMS4 — C06 on masters with further master occurrences (`MSMaster2`):
    1. `ms2Paths` — the dotted paths of the master PARAMETERS: the definitions reached through the FIRST
       enabled occurrence of every name, at every level (a further occurrence of a `.multiple` object is a
       candidate, i.e. a source of values — it declares no parameter; a disabled object declares none);
    2. `mem_ms2Used` — the consumed ids `ms2Used` are exactly the ids of the entries of
       `all_definitions(sources)` whose path is in `ms2Paths`;
    3. `ms2_used_exact`, `ms2_unused_exact`.
  All names of this file carry `ms2` / `ms4`.
-/
import Phil.Proofs.FetchTreeMS3
import Phil.Proofs.DiffTreeMS
set_option linter.unusedVariables false
namespace Phil

/-! ## 1. the master parameters of an `MSMaster2` -/

mutual
def ms2PathsObj : Obj → Str → List Str
  | .defn mm _, p => [p ++ mm.name]
  | .scope mm kids, p => ms2Paths [] kids (p ++ mm.name ++ ['.'])
/-- the full (dotted) paths of the master parameters below the prefix `p`: the definitions reached
    through the first enabled occurrence of every name not in `seen` -/
def ms2Paths : List Str → List Obj → Str → List Str
  | _, [], _ => []
  | seen, mo :: rest, p =>
    if mo.meta.disabled || seen.contains mo.name then ms2Paths seen rest p
    else ms2PathsObj mo p ++ ms2Paths (mo.name :: seen) rest p
end

theorem ms2Paths_prefix_ms4 : ∀ (n : Nat) (l : List Obj) (seen : List Str) (p q : Str),
    depthL l < n → q ∈ ms2Paths seen l p → ∃ r, q = p ++ r
  | 0, _, _, _, _, h, _ => by omega
  | n + 1, [], seen, p, q, _, h => by rw [ms2Paths] at h; cases h
  | n + 1, mo :: rest, seen, p, q, hd, h => by
    have hd' : depthT mo < n + 1 ∧ depthL rest < n + 1 := by
      rw [depthL] at hd
      exact ⟨Nat.lt_of_le_of_lt (Nat.le_max_left _ _) hd, Nat.lt_of_le_of_lt (Nat.le_max_right _ _) hd⟩
    rw [ms2Paths] at h
    split at h
    · exact ms2Paths_prefix_ms4 (n + 1) rest seen p q hd'.2 h
    · rw [List.mem_append] at h
      rcases h with h | h
      · cases mo with
        | defn mm mws =>
          rw [ms2PathsObj, List.mem_singleton] at h
          exact ⟨mm.name, h⟩
        | scope mm kids =>
          rw [ms2PathsObj] at h
          have hk : depthL kids < n := by
            have := hd'.1
            rw [depthT] at this
            omega
          obtain ⟨r, hr⟩ := ms2Paths_prefix_ms4 n kids [] _ q hk h
          exact ⟨mm.name ++ ['.'] ++ r, by rw [hr]; simp⟩
      · exact ms2Paths_prefix_ms4 (n + 1) rest _ p q hd'.2 h

theorem ms2Paths_prefix (l : List Obj) (seen : List Str) (p q : Str) (h : q ∈ ms2Paths seen l p) :
    ∃ r, q = p ++ r :=
  ms2Paths_prefix_ms4 (depthL l + 1) l seen p q (Nat.lt_succ_self _) h

/-! ## 2. the consumed ids -/

mutual
theorem mem_ms2UsedObj : ∀ (mo : Obj) (srcs : List Obj) (p : Str) (i : Nat),
    MS2Obj mo → mo.meta.disabled = false → NoIncludeTree [mo] → SrcPlain srcs →
    (i ∈ ms2UsedObj mo srcs ↔
      ∃ x ∈ allDefsObj.allDefsList srcs p, x.2.1.id = some i ∧ x.1 ∈ ms2PathsObj mo p)
  | .defn mm mws, srcs, p, i, ht, hen, hinc, hs => by
    rw [MS2Obj] at ht
    have h := mem_treeUsedObj_tm (.defn mm mws) srcs p i
      (by rw [TMObj]; exact ⟨ht.1, ht.2.1, ht.2.2, hen⟩) hinc hs
    rw [treeUsedObj, defPathsObj] at h
    rw [ms2UsedObj, ms2PathsObj]
    exact h
  | .scope mm kids, srcs, p, i, ht, hen, hinc, hs => by
    have hkids := (MSMaster2.of_scope ht).kids
    rw [MS2Obj] at ht
    have hen' : mm.disabled = false := hen
    have hinck : NoIncludeTree kids := fun d hd hdef =>
      hinc d (.deeper (List.mem_singleton.mpr rfl) hen' hd) hdef
    have hA := allDefs_srcStep_tree mm.name p ht.2.1 srcs (fun o ho hd => hs.dotfree o (.here ho hd))
    have hbody : i ∈ ms2UsedObj (.scope mm kids) srcs ↔
        ∃ x ∈ allDefsObj.allDefsList (srcStep srcs mm.name) (p ++ mm.name ++ ['.']),
          x.2.1.id = some i ∧ x.1 ∈ ms2Paths [] kids (p ++ mm.name ++ ['.']) := by
      rw [ms2UsedObj]
      split
      · rw [List.mem_flatMap]
        constructor
        · rintro ⟨s, hs', hi⟩
          have hs'' := mem_scopesNamed.mp hs'
          obtain ⟨x, hx, hid, hp⟩ := (mem_ms2Used kids [] s.children (p ++ mm.name ++ ['.']) i hkids hinck
            (hs.child_ms hs''.1 hs''.2.2.1)).mp hi
          exact ⟨x, (mem_allDefsList_flatMap_ms _ x _).mpr ⟨s, hs', hx⟩, hid, hp⟩
        · rintro ⟨x, hx, hid, hp⟩
          obtain ⟨s, hs', hxs⟩ := (mem_allDefsList_flatMap_ms _ x _).mp hx
          have hs'' := mem_scopesNamed.mp hs'
          exact ⟨s, hs', (mem_ms2Used kids [] s.children (p ++ mm.name ++ ['.']) i hkids hinck
            (hs.child_ms hs''.1 hs''.2.2.1)).mpr ⟨x, hxs, hid, hp⟩⟩
      · exact mem_ms2Used kids [] (srcStep srcs mm.name) (p ++ mm.name ++ ['.']) i hkids hinck
          (hs.step mm.name)
    rw [hbody, ms2PathsObj, ← hA]
    constructor
    · rintro ⟨x, hx, hid, hpath⟩
      exact ⟨x, (List.mem_filter.mp hx).1, hid, hpath⟩
    · rintro ⟨x, hx, hid, hpath⟩
      obtain ⟨r, hr⟩ := ms2Paths_prefix kids _ _ _ hpath
      exact ⟨x, List.mem_filter.mpr ⟨hx, (startsWith_iff_tree _ _).mpr ⟨r, hr⟩⟩, hid, hpath⟩
theorem mem_ms2Used : ∀ (mkids : List Obj) (seen : List Str) (srcs : List Obj) (p : Str) (i : Nat),
    MS2Kids mkids → NoIncludeTree mkids → SrcPlain srcs →
    (i ∈ ms2Used seen mkids srcs ↔
      ∃ x ∈ allDefsObj.allDefsList srcs p, x.2.1.id = some i ∧ x.1 ∈ ms2Paths seen mkids p)
  | [], seen, srcs, p, i, _, _, _ => by
    rw [ms2Used, ms2Paths]
    simp
  | mo :: rest, seen, srcs, p, i, ht, hinc, hs => by
    rw [MS2Kids] at ht
    rw [ms2Used, ms2Paths]
    by_cases hskip : (mo.meta.disabled || seen.contains mo.name) = true
    · simp only [hskip, if_true]
      exact mem_ms2Used rest seen srcs p i ht.2 hinc.tail hs
    · simp only [hskip, Bool.false_eq_true, if_false]
      have hen : mo.meta.disabled = false := by
        simp only [Bool.or_eq_true, not_or, Bool.not_eq_true] at hskip
        exact hskip.1
      rw [List.mem_append, mem_ms2UsedObj mo srcs p i ht.1 hen hinc.head hs,
        mem_ms2Used rest (mo.name :: seen) srcs p i ht.2 hinc.tail hs]
      constructor
      · rintro (⟨x, hx, hid, hp⟩ | ⟨x, hx, hid, hp⟩)
        · exact ⟨x, hx, hid, List.mem_append.mpr (.inl hp)⟩
        · exact ⟨x, hx, hid, List.mem_append.mpr (.inr hp)⟩
      · rintro ⟨x, hx, hid, hp⟩
        rcases List.mem_append.mp hp with hp | hp
        · exact .inl ⟨x, hx, hid, hp⟩
        · exact .inr ⟨x, hx, hid, hp⟩
end

/-- **C06 (consumed ids, exactly) with further master occurrences.** -/
theorem ms2_used_exact (mkids srcs : List Obj) (hf : MSMaster2 mkids)
    (hinc : NoIncludeTree mkids) (hs : SrcPlain srcs) (i : Nat) :
    i ∈ ms2Used [] mkids srcs ↔
      ∃ x ∈ allDefinitions srcs, x.2.1.id = some i ∧ x.1 ∈ ms2Paths [] mkids [] :=
  mem_ms2Used mkids [] srcs [] i hf.kids hinc hs

/-- **C06 (unused list, exactly) with further master occurrences.** -/
theorem ms2_unused_exact (e : Envs) (fuel : Nat) (sm : Meta) (mkids srcs : List Obj)
    (hf : MSMaster2 mkids) (hfuel : depthL mkids + 1 ≤ fuel) (hsd : sm.disabled = false)
    (hinc : NoIncludeTree mkids) (hsrc : SrcTree srcs) (hmsrc : SrcTree mkids) (hs : SrcPlain srcs)
    (hkeys : KeysDefinedMS2 e [] mkids srcs)
    (hsome : ∀ x ∈ allDefinitions srcs, x.2.1.id ≠ none)
    (hids : ((allDefinitions srcs).map (fun x => x.2.1.id)).Nodup)
    (ro : Obj) (used : List Nat)
    (h : fetchScope e fuel false sm mkids srcs = .ok (ro, used)) :
    (allDefinitions srcs).filter (notConsumed used) =
      (allDefinitions srcs).filter (fun x => !(ms2Paths [] mkids []).contains x.1) := by
  obtain ⟨_, _, hu⟩ := fetch_ms2_ok e fuel sm mkids srcs hf hfuel hsd hsrc hmsrc hkeys ro used h
  subst hu
  exact unused_filter_exact_tree _ srcs _ hsome hids (ms2_used_exact mkids srcs hf hinc hs)


/-! ## 3. diff mode: the candidate loop with master-provided candidates (the `-1` marker) -/

/-- every entry carries the marker `-1` (a key provided by a further master occurrence) -/
def AllNeg_ms4 (PB : List (Str × Int)) : Prop := ∀ p ∈ PB, p.2 = -1

/-- what is known about one flagged candidate in diff mode: skipped (`x.1 = none`, empty difference) or the
    candidate `ck.1` with its key `ck.2`; `x.2` are the ids consumed -/
def DLinkF_ms4 (F : FetchFn) (e : Envs) (fuel : Nat) (mo : Obj) (fm : Bool × Obj)
    (x : Option (Obj × Str) × List Nat) : Prop :=
  (x.1 = none → candOf F e fuel true mo fm.1 fm.2 = .ok (none, x.2)) ∧
  (∀ ck, x.1 = some ck → candOf F e fuel true mo fm.1 fm.2 = .ok (some ck.1, x.2) ∧
    extractFormatStr e (fuel + 64) mo ck.1 = .ok ck.2)

theorem find_none_of_not_key_ms4 (PB : List (Str × Int)) (cs : Str) (hk : cs ∉ PB.map (·.1)) :
    PB.find? (fun (p : Str × Int) => p.1 == cs) = none := by
  rw [List.find?_eq_none]
  intro p hp hpe
  exact hk (List.mem_map.mpr ⟨p, hp, by simpa using hpe⟩)

theorem filter_self_of_not_key_ms4 (PB : List (Str × Int)) (cs : Str) (hk : cs ∉ PB.map (·.1)) :
    PB.filter (fun (p : Str × Int) => p.1 != cs) = PB := by
  rw [List.filter_eq_self]
  intro p hp
  rw [bne_iff_ne]
  intro hpe
  exact hk (List.mem_map.mpr ⟨p, hp, hpe⟩)

/-- **a key provided by a further master occurrence blocks**: a candidate with such a key is skipped, whatever
    it is -/
theorem cAccept_blocked_ms4 (d f : Bool) (cs : Str) (c : Obj) (u : List Nat) (robjs : List (Option Obj))
    (PB P : List (Str × Int)) (used : List Nat) (hneg : AllNeg_ms4 PB) (hk : cs ∈ PB.map (·.1)) :
    cAccept d f cs c u robjs (PB ++ P) used = .ok (robjs, PB ++ P, used ++ u) := by
  obtain ⟨p0, hp0, hp0e⟩ := List.mem_map.mp hk
  cases hfind : PB.find? (fun (p : Str × Int) => p.1 == cs) with
  | none =>
    have := List.find?_eq_none.mp hfind p0 hp0
    simp [hp0e] at this
  | some q =>
    have hq := hneg q (List.mem_of_find?_eq_some hfind)
    unfold cAccept
    simp only [List.find?_append, hfind, Option.some_or, hq, beq_self_eq_true, if_true]

/-- keys that are not blocked do not see the blocked prefix -/
theorem cAccept_prefix_ms4 (d f : Bool) (cs : Str) (c : Obj) (u : List Nat) (robjs : List (Option Obj))
    (PB P : List (Str × Int)) (used : List Nat) (hk : cs ∉ PB.map (·.1)) :
    cAccept d f cs c u robjs (PB ++ P) used =
      (cAccept d f cs c u robjs P used).map (fun a => (a.1, PB ++ a.2.1, a.2.2)) := by
  cases d <;> cases f <;>
  · unfold cAccept
    simp only [List.find?_append, find_none_of_not_key_ms4 PB cs hk, Option.none_or, List.filter_append,
      filter_self_of_not_key_ms4 PB cs hk]
    split <;> (try split) <;> simp [Except.map, List.append_assoc]

/-- the master phase of the loop in diff mode: no instance is kept, the keys are recorded with `-1` -/
theorem master_fold_diff_ms4 (F : FetchFn) (e : Envs) (fuel : Nat) (mo : Obj) (k0 : Str) :
    ∀ (FM : List (Bool × Obj)) (Y : List (Option (Obj × Str) × List Nat)),
    Forall2 (DLinkF_ms4 F e fuel mo) FM Y → (∀ fm ∈ FM, fm.1 = true) →
    ∀ (PB : List (Str × Int)) (used : List Nat), AllNeg_ms4 PB →
    ∃ PB', FM.foldlM (cstepG F e fuel true mo k0) (([] : List (Option Obj)), PB, used) =
        .ok ([], PB', used ++ Y.flatMap (fun x => x.2)) ∧ AllNeg_ms4 PB' ∧
      ∀ k, k ∈ PB'.map (·.1) ↔ (k ∈ PB.map (·.1) ∨ (k ≠ k0 ∧ k ∈ (Y.filterMap (fun x => x.1)).map (·.2))) := by
  intro FM Y h
  induction h with
  | nil =>
    intro _ PB used hneg
    exact ⟨PB, by simp; rfl, hneg, by simp⟩
  | @cons fm x FM Y hl _ ih =>
    intro hfm PB used hneg
    have hfm1 : fm.1 = true := hfm fm List.mem_cons_self
    have hfm' : ∀ y ∈ FM, y.1 = true := fun y hy => hfm y (List.mem_cons_of_mem _ hy)
    obtain ⟨xo, u⟩ := x
    rw [List.foldlM_cons]
    cases xo with
    | none =>
      have hstep : cstepG F e fuel true mo k0 (([] : List (Option Obj)), PB, used) fm = .ok ([], PB, used ++ u) := by
        unfold cstepG
        simp only [hl.1 rfl, ite_self]
      rw [hstep]
      obtain ⟨PB', hf, hn, hk⟩ := ih hfm' PB (used ++ u) hneg
      refine ⟨PB', ?_, hn, ?_⟩
      · show List.foldlM _ _ _ = _
        rw [hf]; simp
      · intro k; rw [hk k]; simp
    | some ck =>
      obtain ⟨hc, hk'⟩ := hl.2 ck rfl
      have hstep : cstepG F e fuel true mo k0 (([] : List (Option Obj)), PB, used) fm =
          if ck.2 == k0 then .ok ([], PB, used ++ u)
          else cAccept true true ck.2 ck.1 u [] PB used := by
        unfold cstepG
        simp only [hc, hk']
        rw [hfm1]
      rw [hstep]
      cases hkk : ck.2 == k0 with
      | true =>
        simp only [if_true]
        obtain ⟨PB', hf, hn, hk⟩ := ih hfm' PB (used ++ u) hneg
        refine ⟨PB', ?_, hn, ?_⟩
        · show List.foldlM _ _ _ = _
          rw [hf]; simp
        · intro k; rw [hk k]
          have hck : ck.2 = k0 := by simpa using hkk
          simp only [List.filterMap_cons_some (rfl : (fun (x : Option (Obj × Str) × List Nat) => x.1) (some ck, u) = some ck),
            List.map_cons, List.mem_cons]
          constructor
          · rintro (h | ⟨h1, h2⟩)
            · exact .inl h
            · exact .inr ⟨h1, .inr h2⟩
          · rintro (h | ⟨h1, h2 | h2⟩)
            · exact .inl h
            · exact absurd (h2.trans hck) h1
            · exact .inr ⟨h1, h2⟩
      | false =>
        simp only [Bool.false_eq_true, if_false]
        have hne : ck.2 ≠ k0 := by simpa using hkk
        by_cases hin : ck.2 ∈ PB.map (·.1)
        · have hb := cAccept_blocked_ms4 true true ck.2 ck.1 u [] PB [] used hneg hin
          rw [List.append_nil] at hb
          rw [hb]
          obtain ⟨PB', hf, hn, hk⟩ := ih hfm' PB (used ++ u) hneg
          refine ⟨PB', ?_, hn, ?_⟩
          · show List.foldlM _ _ _ = _
            rw [hf]; simp
          · intro k; rw [hk k]
            simp only [List.filterMap_cons_some (rfl : (fun (x : Option (Obj × Str) × List Nat) => x.1) (some ck, u) = some ck),
              List.map_cons, List.mem_cons]
            constructor
            · rintro (h | ⟨h1, h2⟩)
              · exact .inl h
              · exact .inr ⟨h1, .inr h2⟩
            · rintro (h | ⟨h1, h2 | h2⟩)
              · exact .inl h
              · exact .inl (h2 ▸ hin)
              · exact .inr ⟨h1, h2⟩
        · have hacc : cAccept true true ck.2 ck.1 u [] PB used = .ok ([], PB ++ [(ck.2, -1)], used ++ u) := by
            unfold cAccept
            simp only [find_none_of_not_key_ms4 PB ck.2 hin, filter_self_of_not_key_ms4 PB ck.2 hin,
              Bool.false_eq_true, if_false, Bool.and_self, if_true]
          rw [hacc]
          have hneg' : AllNeg_ms4 (PB ++ [(ck.2, -1)]) := by
            intro p hp
            rcases List.mem_append.mp hp with hp | hp
            · exact hneg p hp
            · rw [List.mem_singleton] at hp; subst hp; rfl
          obtain ⟨PB', hf, hn, hk⟩ := ih hfm' _ (used ++ u) hneg'
          refine ⟨PB', ?_, hn, ?_⟩
          · show List.foldlM _ _ _ = _
            rw [hf]; simp
          · intro k; rw [hk k]
            simp only [List.filterMap_cons_some (rfl : (fun (x : Option (Obj × Str) × List Nat) => x.1) (some ck, u) = some ck),
              List.map_cons, List.mem_cons, List.map_append, List.mem_append, List.map_nil, List.not_mem_nil, or_false]
            constructor
            · rintro ((h | h) | ⟨h1, h2⟩)
              · exact .inl h
              · exact .inr ⟨h ▸ hne, .inl h⟩
              · exact .inr ⟨h1, .inr h2⟩
            · rintro (h | ⟨h1, h2 | h2⟩)
              · exact .inl (.inl h)
              · exact .inl (.inr h2)
              · exact .inr ⟨h1, h2⟩

/-- the source phase of the loop in diff mode behind a prefix of blocked keys: the list rule over the
    candidates whose key is not blocked -/
theorem source_fold_diff_ms4 (F : FetchFn) (e : Envs) (fuel : Nat) (mo : Obj) (k0 : Str)
    (PB : List (Str × Int)) (hneg : AllNeg_ms4 PB) :
    ∀ (M : List Obj) (X : List (Option (Obj × Str) × List Nat)),
    Forall2 (fun ms x => DLinkF_ms4 F e fuel mo (false, ms) x) M X →
    ∀ (robjs : List (Option Obj)) (P : List (Str × Int)) (used : List Nat)
      (T : List (Obj × Str × Nat)), MInv robjs P T →
    ∃ robjs' P' T',
      (M.map (fun (o : Obj) => (false, o))).foldlM (cstepG F e fuel true mo k0)
        (robjs, PB ++ P, used) = .ok (robjs', PB ++ P', used ++ X.flatMap (fun x => x.2)) ∧
      MInv robjs' P' T' ∧
      survOf T' = ((X.filterMap (fun x => x.1)).filter (fun y => !(PB.map (·.1)).contains y.2)).foldl
        (accStep k0) (survOf T) := by
  intro M X h
  induction h with
  | nil =>
    intro robjs P used T hinv
    exact ⟨robjs, P, T, by simp; rfl, hinv, rfl⟩
  | @cons ms x M X hl _ ih =>
    intro robjs P used T hinv
    obtain ⟨xo, u⟩ := x
    rw [List.map_cons, List.foldlM_cons]
    cases xo with
    | none =>
      have hstep : cstepG F e fuel true mo k0 (robjs, PB ++ P, used) (false, ms) =
          .ok (robjs, PB ++ P, used ++ u) := by
        unfold cstepG
        simp only [hl.1 rfl, ite_self]
      rw [hstep]
      obtain ⟨r', p', T', hf, hi, hs⟩ := ih robjs P (used ++ u) T hinv
      refine ⟨r', p', T', ?_, hi, ?_⟩
      · show List.foldlM _ _ _ = _
        rw [hf]; simp
      · rw [hs]; rfl
    | some ck =>
      obtain ⟨hc, hk'⟩ := hl.2 ck rfl
      have hstep : cstepG F e fuel true mo k0 (robjs, PB ++ P, used) (false, ms) =
          if ck.2 == k0 then .ok (robjs, PB ++ P, used ++ u)
          else cAccept false false ck.2 ck.1 u robjs (PB ++ P) used := by
        unfold cstepG
        simp only [hc, hk']
        rw [cAccept_diff_src]
      rw [hstep]
      have hfm : (X.map (fun x => x)).length = X.length := by simp
      by_cases hin : ck.2 ∈ PB.map (·.1)
      · -- blocked by a further master occurrence
        have hres : (if ck.2 == k0 then (Except.ok (robjs, PB ++ P, used ++ u) : R CAcc)
            else cAccept false false ck.2 ck.1 u robjs (PB ++ P) used) = .ok (robjs, PB ++ P, used ++ u) := by
          split
          · rfl
          · exact cAccept_blocked_ms4 false false ck.2 ck.1 u robjs PB P used hneg hin
        rw [hres]
        obtain ⟨r', p', T', hf, hi, hs⟩ := ih robjs P (used ++ u) T hinv
        refine ⟨r', p', T', ?_, hi, ?_⟩
        · show List.foldlM _ _ _ = _
          rw [hf]; simp
        · rw [hs]
          have : (!(PB.map (·.1)).contains ck.2) = false := by simp [hin]
          rw [List.filterMap_cons_some (rfl : (fun (x : Option (Obj × Str) × List Nat) => x.1) (some ck, u) = some ck),
            List.filter_cons]
          simp only [this, Bool.false_eq_true, if_false]
      · have hnb : (!(PB.map (·.1)).contains ck.2) = true := by simp [hin]
        cases hk : ck.2 == k0 with
        | true =>
          simp only [if_true]
          obtain ⟨r', p', T', hf, hi, hs⟩ := ih robjs P (used ++ u) T hinv
          refine ⟨r', p', T', ?_, hi, ?_⟩
          · show List.foldlM _ _ _ = _
            rw [hf]; simp
          · rw [hs]
            rw [List.filterMap_cons_some (rfl : (fun (x : Option (Obj × Str) × List Nat) => x.1) (some ck, u) = some ck),
              List.filter_cons]
            simp only [hnb, if_true, List.foldl_cons]
            congr 1
            unfold accStep; simp [hk]
        | false =>
          simp only [Bool.false_eq_true, if_false]
          obtain ⟨r1, p1, hacc, hinv1⟩ := cAccept_nodiff ck.2 ck.1 u robjs P used T hinv
          rw [cAccept_prefix_ms4 false false ck.2 ck.1 u robjs PB P used hin, hacc]
          obtain ⟨r', p', T', hf, hi, hs⟩ := ih r1 p1 (used ++ u) _ hinv1
          refine ⟨r', p', T', ?_, hi, ?_⟩
          · show List.foldlM _ _ _ = _
            rw [hf]; simp
          · rw [hs]
            rw [List.filterMap_cons_some (rfl : (fun (x : Option (Obj × Str) × List Nat) => x.1) (some ck, u) = some ck),
              List.filter_cons]
            simp only [hnb, if_true, List.foldl_cons]
            congr 1
            unfold accStep
            simp only [hk, Bool.false_eq_true, if_false]
            unfold survOf
            rw [List.map_append, ← survOf.eq_1, survOf_filter]
            rfl


/-! ## 4. diff mode on `MSMaster2`: the specification `ms2Diff` -/

mutual
/-- the block the FIRST occurrence `mo` contributes to a difference, `FM` being its further master
    occurrences (enabled later siblings of the same name) and `srcs` the source objects at its level.
    A `.multiple` object: NO template; the candidates built from the sources go through the list rule
    (`survivorsOf`: dropped when equal to the master's key, of equal keys the last stays) AFTER the candidates
    whose key is the key of a candidate built from a further master occurrence are removed (the `-1` marker:
    a master-provided instance is never part of the difference and blocks an equal source instance).
    For a `.multiple` scope the candidates are the NON-EMPTY differences of the body against ONE block. -/
def md2Block (e : Envs) : Obj → List Obj → List Obj → List Obj
  | .defn mm mws, FM, srcs =>
    if isMultiple (.defn mm mws) then
      survivorsOf (keyOf e 0 (.defn mm mws) (.defn mm mws))
        ((candsOf e 0 (.defn mm mws) (defsNamed mm.name srcs)).filter (fun y =>
          !((candsOf e 0 (.defn mm mws) (defsNamed mm.name FM)).map (·.2)).contains y.2))
    else diffBlockL e 0 (.defn mm mws) (defsNamed mm.name srcs)
  | .scope mm kids, FM, srcs =>
    if (mm.attrs.get "multiple").truthy then
      survivorsOf (keyMS e (.scope mm kids) (.scope { mm with tmpl := 0 } (ms2Result e [] kids [])))
        ((((scopesNamed mm.name srcs).filter (fun s => !(ms2Diff e [] kids s.children).isEmpty)).map (fun s =>
          (Obj.scope { mm with tmpl := 0 } (ms2Diff e [] kids s.children),
           keyMS e (.scope mm kids) (Obj.scope { mm with tmpl := 0 } (ms2Diff e [] kids s.children))))).filter
          (fun y => !((((scopesNamed mm.name FM).filter (fun s => !(ms2Diff e [] kids s.children).isEmpty)).map
            (fun s => keyMS e (.scope mm kids) (Obj.scope { mm with tmpl := 0 } (ms2Diff e [] kids s.children)))).contains y.2)))
    else if (ms2Diff e [] kids (srcStep srcs mm.name)).isEmpty then []
      else [.scope { mm with tmpl := 0 } (ms2Diff e [] kids (srcStep srcs mm.name))]
/-- **the difference on `MSMaster2`**: the children of `master.fetch_diff(sources)` — the blocks of the first
    enabled occurrences, in master order -/
def ms2Diff (e : Envs) : List Str → List Obj → List Obj → List Obj
  | _, [], _ => []
  | seen, mo :: rest, srcs =>
    if mo.meta.disabled || seen.contains mo.name then ms2Diff e seen rest srcs
    else md2Block e mo (activeNamed mo.name rest) srcs ++ ms2Diff e (mo.name :: seen) rest srcs
end

/-- the difference candidate of the `.multiple` master scope `.scope mm kids` from ONE block `sk` -/
abbrev md2Cand (e : Envs) (mm : Meta) (kids sk : List Obj) : Obj :=
  .scope { mm with tmpl := 0 } (ms2Diff e [] kids sk)

mutual
def keysDiffMS2ObjB (e : Envs) : Obj → List Obj → List Obj → Bool
  | .defn mm mws, FM, srcs => keysDefinedB e 0 (.defn mm mws) (defsNamed mm.name (FM ++ srcs))
  | .scope mm kids, FM, srcs =>
    if (mm.attrs.get "multiple").truthy then
      keysDefinedMS2B e [] kids [] &&
      (errOf (extractFormatStr e (depthL kids + 1 + 64) (.scope mm kids)
              (.scope { mm with tmpl := 0 } (ms2Result e [] kids [])))).isNone &&
      (scopesNamed mm.name (FM ++ srcs)).all (fun s =>
        keysDiffMS2B e [] kids s.children &&
        ((ms2Diff e [] kids s.children).isEmpty ||
         (errOf (extractFormatStr e (depthL kids + 1 + 64) (.scope mm kids)
              (.scope { mm with tmpl := 0 } (ms2Diff e [] kids s.children)))).isNone))
    else keysDiffMS2B e [] kids (srcStep srcs mm.name)
/-- executable form of `KeysDiffMS2` -/
def keysDiffMS2B (e : Envs) : List Str → List Obj → List Obj → Bool
  | _, [], _ => true
  | seen, mo :: rest, srcs =>
    if mo.meta.disabled || seen.contains mo.name then keysDiffMS2B e seen rest srcs
    else keysDiffMS2ObjB e mo (activeNamed mo.name rest) srcs && keysDiffMS2B e (mo.name :: seen) rest srcs
end


/-! ## 5. the `.multiple` branch in diff mode with master-provided candidates -/

theorem cAccept_ok_ms4 (d f : Bool) (k : Str) (c : Obj) (u : List Nat) (robjs : List (Option Obj))
    (processed : List (Str × Int)) (used : List Nat) :
    ∃ r, cAccept d f k c u robjs processed used = .ok r := by
  unfold cAccept
  simp only
  split <;> (try split) <;> (try split) <;> exact ⟨_, rfl⟩

theorem cstepG_dlinkF_ok_ms4 (F : FetchFn) (e : Envs) (fuel : Nat) (mo : Obj) (k0 : Str)
    (fm : Bool × Obj) (x : Option (Obj × Str) × List Nat) (hl : DLinkF_ms4 F e fuel mo fm x) (acc : CAcc) :
    ∃ b', cstepG F e fuel true mo k0 acc fm = .ok b' := by
  obtain ⟨xo, u⟩ := x
  cases xo with
  | none =>
    refine ⟨(acc.1, acc.2.1, acc.2.2 ++ u), ?_⟩
    unfold cstepG
    simp only [hl.1 rfl, ite_self]
  | some ck =>
    obtain ⟨hc, hk⟩ := hl.2 ck rfl
    unfold cstepG
    simp only [hc, hk]
    split
    · exact ⟨_, rfl⟩
    · exact cAccept_ok_ms4 _ _ _ _ _ _ _ _

theorem filter_blocked_congr_ms4 (k0 : Str) (L : List (Obj × Str)) (p q : Obj × Str → Bool)
    (h : ∀ y ∈ L, y.2 ≠ k0 → p y = q y) :
    (L.filter p).filter (fun y => y.2 != k0) = (L.filter q).filter (fun y => y.2 != k0) := by
  rw [List.filter_filter, List.filter_filter]
  apply List.filter_congr
  intro y hy
  by_cases hk : y.2 = k0
  · simp [hk]
  · rw [h y hy hk]

/-- **the whole `.multiple` branch in diff mode, master-provided candidates allowed** (all candidates
    succeeding): no template; the survivors of the list rule over the source candidates whose key is not the
    key of a master-provided candidate -/
theorem multiBranch_diff_ms4 (F : FetchFn) (e : Envs) (fuel : Nat) (mkids : List Obj) (idx : Nat)
    (mo : Obj) (k0 : Str) (FMl : List (Bool × Obj)) (M : List Obj)
    (Y X : List (Option (Obj × Str) × List Nat)) (out : List Obj) (used : List Nat)
    (hk0 : masterKeyG F e fuel mo = .ok k0)
    (hfm : fromMasterOf mkids idx mo = FMl) (hflag : ∀ fm ∈ FMl, fm.1 = true)
    (hY : Forall2 (DLinkF_ms4 F e fuel mo) FMl Y) (hYu : Y.flatMap (fun x => x.2) = [])
    (hX : Forall2 (fun ms x => DLinkF_ms4 F e fuel mo (false, ms) x) M X) :
    multiBranch F e fuel true mkids idx mo M out used =
      .ok (out ++ survivorsOf k0 ((X.filterMap (fun x => x.1)).filter
              (fun y => !((Y.filterMap (fun x => x.1)).map (·.2)).contains y.2)),
           used ++ X.flatMap (fun x => x.2)) := by
  obtain ⟨PB, hf1, hneg, hkeys⟩ := master_fold_diff_ms4 F e fuel mo k0 FMl Y hY hflag [] used
    (by intro p hp; cases hp)
  obtain ⟨r', p', T', hf2, hi, hs⟩ := source_fold_diff_ms4 F e fuel mo k0 PB hneg M X hX [] [] used [] MInv.nil
  rw [List.append_nil] at hf2
  rw [hYu, List.append_nil] at hf1
  have hfold : (FMl ++ M.map (fun (o : Obj) => (false, o))).foldlM (cstepG F e fuel true mo k0)
      (([] : List (Option Obj)), ([] : List (Str × Int)), used) =
      .ok (r', PB ++ p', used ++ X.flatMap (fun x => x.2)) := by
    rw [List.foldlM_append, hf1]
    exact hf2
  unfold multiBranch
  rw [hk0, hfm]
  simp only
  rw [hfold]
  simp only
  have hs' : survOf T' = dedupKeepLast (((X.filterMap (fun x => x.1)).filter
      (fun y => !(PB.map (·.1)).contains y.2)).filter (fun y => y.2 != k0)) := by
    rw [hs]; exact foldl_accStep_nil k0 _
  have hcongr : ((X.filterMap (fun x => x.1)).filter (fun y => !(PB.map (·.1)).contains y.2)).filter
      (fun y => y.2 != k0) =
      ((X.filterMap (fun x => x.1)).filter
        (fun y => !((Y.filterMap (fun x => x.1)).map (·.2)).contains y.2)).filter (fun y => y.2 != k0) := by
    apply filter_blocked_congr_ms4
    intro y _ hne
    congr 1
    apply Bool.eq_iff_iff.mpr
    simp only [List.contains_eq_mem, decide_eq_true_eq]
    rw [hkeys y.2]
    simp [hne]
  have h1 : r'.filterMap (fun (x : Option Obj) => x) =
      survivorsOf k0 ((X.filterMap (fun x => x.1)).filter
        (fun y => !((Y.filterMap (fun x => x.1)).map (·.2)).contains y.2)) := by
    unfold survivorsOf
    rw [← someIdx_fst r' 0, hi.idx, ← hcongr, ← hs']
    unfold survOf
    simp [List.map_map]
  rw [h1]
  unfold tmplObjsOf
  simp

/-! ## 6. depth of the difference; the key hypothesis -/

mutual
theorem depthL_md2Block (e : Envs) : ∀ (mo : Obj) (FM srcs : List Obj),
    depthL (md2Block e mo FM srcs) ≤ depthT mo
  | .defn mm mws, FM, srcs => by
    rw [md2Block]
    apply depthL_le_of_forall
    intro o ho
    split at ho
    · obtain ⟨x, hx, rfl, _⟩ := mem_survivorsOf_md ho
      have hx' := (List.mem_filter.mp hx).1
      unfold candsOf at hx'
      obtain ⟨d, _, rfl⟩ := List.mem_map.mp hx'
      show depthT (candOfSrc _ _) ≤ _
      rw [candOfSrc_defn, depthT]
      exact Nat.zero_le _
    · obtain ⟨⟨d, _, rfl⟩, _⟩ := mem_diffBlockL ho
      rw [candOfSrc_defn, depthT]
      exact Nat.zero_le _
  | .scope mm kids, FM, srcs => by
    rw [md2Block]
    split
    · apply depthL_le_of_forall
      intro o ho
      obtain ⟨x, hx, rfl, _⟩ := mem_survivorsOf_md ho
      obtain ⟨s, _, rfl⟩ := List.mem_map.mp (List.mem_filter.mp hx).1
      show depthT (Obj.scope _ _) ≤ _
      rw [depthT, depthT]
      exact Nat.succ_le_succ (depthL_ms2Diff e kids [] s.children)
    · split
      · rw [depthL]; exact Nat.zero_le _
      · rw [depthL, depthL, depthT, depthT]
        exact Nat.max_le.mpr ⟨Nat.succ_le_succ (depthL_ms2Diff e kids [] _), Nat.zero_le _⟩
/-- the difference is nested no deeper than the master -/
theorem depthL_ms2Diff (e : Envs) : ∀ (mkids : List Obj) (seen : List Str) (srcs : List Obj),
    depthL (ms2Diff e seen mkids srcs) ≤ depthL mkids
  | [], seen, srcs => by rw [ms2Diff]; exact Nat.le_refl _
  | mo :: rest, seen, srcs => by
    rw [ms2Diff, depthL]
    split
    · exact Nat.le_trans (depthL_ms2Diff e rest seen srcs) (Nat.le_max_right _ _)
    · rw [depthL_append_ms]
      exact Nat.max_le.mpr ⟨Nat.le_trans (depthL_md2Block e mo _ srcs) (Nat.le_max_left _ _),
        Nat.le_trans (depthL_ms2Diff e rest _ srcs) (Nat.le_max_right _ _)⟩
end

theorem extractFormatStr_d2cand_fuel_ms4 (e : Envs) (fuel : Nat) (mm : Meta) (kids sk : List Obj)
    (hdep : depthL kids + 1 ≤ fuel) :
    extractFormatStr e (fuel + 64) (.scope mm kids) (md2Cand e mm kids sk) =
      extractFormatStr e (depthL kids + 1 + 64) (.scope mm kids) (md2Cand e mm kids sk) := by
  have h1 : depthT (.scope mm kids) = depthL kids + 1 := by rw [depthT]
  have h2 : depthT (md2Cand e mm kids sk) ≤ depthL kids + 1 := by
    show depthT (Obj.scope _ _) ≤ _
    rw [depthT]; exact Nat.succ_le_succ (depthL_ms2Diff e kids [] sk)
  exact extractFormatStr_fuel_ms e _ _ _ _ (by omega) (by omega) (by omega) (by omega)

mutual
def KeysDiffMS2Obj (e : Envs) : Obj → List Obj → List Obj → Prop
  | .defn mm mws, FM, srcs => KeysDefined e 0 (.defn mm mws) (defsNamed mm.name (FM ++ srcs))
  | .scope mm kids, FM, srcs =>
    if (mm.attrs.get "multiple").truthy then
      KeysDefinedMS2 e [] kids [] ∧
      (∃ k, extractFormatStr e (depthL kids + 1 + 64) (.scope mm kids)
              (.scope { mm with tmpl := 0 } (ms2Result e [] kids [])) = .ok k) ∧
      ∀ s ∈ scopesNamed mm.name (FM ++ srcs),
        KeysDiffMS2 e [] kids s.children ∧
        ((ms2Diff e [] kids s.children).isEmpty = false →
          ∃ k, extractFormatStr e (depthL kids + 1 + 64) (.scope mm kids)
              (.scope { mm with tmpl := 0 } (ms2Diff e [] kids s.children)) = .ok k)
    else KeysDiffMS2 e [] kids (srcStep srcs mm.name)
/-- the keys a difference on `MSMaster2` compares are defined: at every master definition the master's own
    and those of the candidates (further master occurrences and sources); at every `.multiple` master scope the
    key of the master's own fetched block (with the keys that fetch needs) and the key of every NON-EMPTY
    difference candidate, master-provided or not -/
def KeysDiffMS2 (e : Envs) : List Str → List Obj → List Obj → Prop
  | _, [], _ => True
  | seen, mo :: rest, srcs =>
    if mo.meta.disabled || seen.contains mo.name then KeysDiffMS2 e seen rest srcs
    else KeysDiffMS2Obj e mo (activeNamed mo.name rest) srcs ∧ KeysDiffMS2 e (mo.name :: seen) rest srcs
end

mutual
theorem keysDiffMS2ObjB_sound (e : Envs) : ∀ (mo : Obj) (FM srcs : List Obj),
    keysDiffMS2ObjB e mo FM srcs = true → KeysDiffMS2Obj e mo FM srcs
  | .defn mm mws, FM, srcs, h => by
    rw [keysDiffMS2ObjB] at h
    rw [KeysDiffMS2Obj]
    exact keysDefined_of_B h
  | .scope mm kids, FM, srcs, h => by
    rw [keysDiffMS2ObjB] at h
    rw [KeysDiffMS2Obj]
    split
    · rename_i hm
      simp only [hm, if_true, Bool.and_eq_true, List.all_eq_true, Bool.or_eq_true] at h
      refine ⟨keysDefinedMS2B_sound e kids [] [] h.1.1, ok_of_errOf_none h.1.2, ?_⟩
      intro s hs
      refine ⟨keysDiffMS2B_sound e kids [] s.children (h.2 s hs).1, ?_⟩
      intro hne
      rcases (h.2 s hs).2 with h1 | h1
      · rw [hne] at h1; cases h1
      · exact ok_of_errOf_none h1
    · rename_i hm
      simp only [hm, Bool.false_eq_true, if_false] at h
      exact keysDiffMS2B_sound e kids [] _ h
theorem keysDiffMS2B_sound (e : Envs) : ∀ (l : List Obj) (seen : List Str) (srcs : List Obj),
    keysDiffMS2B e seen l srcs = true → KeysDiffMS2 e seen l srcs
  | [], _, _, _ => by rw [KeysDiffMS2]; trivial
  | mo :: rest, seen, srcs, h => by
    rw [keysDiffMS2B] at h
    rw [KeysDiffMS2]
    split
    · rename_i hs
      simp only [hs, if_true] at h
      exact keysDiffMS2B_sound e rest seen srcs h
    · rename_i hs
      simp only [hs, Bool.false_eq_true, if_false, Bool.and_eq_true] at h
      exact ⟨keysDiffMS2ObjB_sound e mo _ srcs h.1, keysDiffMS2B_sound e rest _ srcs h.2⟩
end

theorem ms2Diff_eq_flatMap_ms4 (e : Envs) (srcs : List Obj) : ∀ (l : List Obj) (seen : List Str),
    ms2Diff e seen l srcs = (firstsT_ms3 seen l).flatMap (fun p => md2Block e p.1 p.2 srcs) := by
  intro l
  induction l with
  | nil => intro seen; rw [ms2Diff, firstsT_ms3]; rfl
  | cons o os ih =>
    intro seen
    rw [ms2Diff, firstsT_ms3]
    split
    · exact ih seen
    · rw [List.flatMap_cons, ih]

theorem KeysDiffMS2.obj {e : Envs} {srcs : List Obj} : ∀ {l : List Obj} {seen : List Str},
    KeysDiffMS2 e seen l srcs → ∀ p ∈ firstsT_ms3 seen l, KeysDiffMS2Obj e p.1 p.2 srcs := by
  intro l
  induction l with
  | nil => intro seen _ p hp; rw [firstsT_ms3] at hp; cases hp
  | cons o os ih =>
    intro seen h p hp
    rw [KeysDiffMS2] at h
    rw [firstsT_ms3] at hp
    split at hp
    · rename_i hs
      simp only [hs, if_true] at h
      exact ih h p hp
    · rename_i hs
      simp only [hs] at h
      rw [List.mem_cons] at hp
      rcases hp with rfl | hp
      · exact h.1
      · exact ih h.2 p hp


/-! ## 7. one step of the master loop in diff mode, further master occurrences allowed -/

theorem filterMap_diffCand_ms4 (e : Envs) (fu : Nat) (mo : Obj) : ∀ (l : List Obj),
    l.filterMap (fun d => (diffCand e fu mo d).map (fun c => (c, keyOf e fu mo c))) =
      (candsOf e fu mo l).filter (fun y => y.2 != keyOf e fu mo mo)
  | [] => rfl
  | d :: l => by
    have ih := filterMap_diffCand_ms4 e fu mo l
    unfold candsOf at ih ⊢
    rw [List.map_cons, List.filter_cons, List.filterMap_cons, ih]
    unfold diffCand
    cases h : keyOf e fu mo (candOfSrc mo d) == keyOf e fu mo mo with
    | true => simp [h, bne]
    | false => simp [h, bne]

theorem survivorsOf_blocked_ne_ms4 (k0 : Str) (CS CF : List (Obj × Str)) :
    survivorsOf k0 ((CS.filter (fun y => y.2 != k0)).filter
      (fun y => !((CF.filter (fun y => y.2 != k0)).map (·.2)).contains y.2)) =
    survivorsOf k0 (CS.filter (fun y => !(CF.map (·.2)).contains y.2)) := by
  unfold survivorsOf
  congr 2
  rw [List.filter_filter, List.filter_filter, List.filter_filter]
  apply List.filter_congr
  intro y _
  by_cases hk : y.2 = k0
  · simp [hk]
  · have hne : (y.2 != k0) = true := bne_iff_ne.mpr hk
    have : ((CF.filter (fun y => y.2 != k0)).map (·.2)).contains y.2 = (CF.map (·.2)).contains y.2 := by
      apply Bool.eq_iff_iff.mpr
      simp only [List.contains_eq_mem, decide_eq_true_eq, List.mem_map, List.mem_filter]
      constructor
      · rintro ⟨a, ⟨ha, _⟩, hay⟩; exact ⟨a, ha, hay⟩
      · rintro ⟨a, ha, hay⟩; exact ⟨a, ⟨ha, by rw [hay]; simpa using hk⟩, hay⟩
    simp only [hne, Bool.true_and, Bool.and_true, this]

theorem candOf_defn_flag_diff_ms4 (F : FetchFn) (e : Envs) (f : Nat) (mm : Meta) (mws : List Word)
    (b : Bool) (dm : Meta) (dws : List Word) (hp : DefnMeta mm) (hok : SrcOK (.defn dm dws)) (k0 k : Str)
    (hk0 : extractFormatStr e (f + 1 + 64) (.defn mm mws) (.defn mm mws) = .ok k0)
    (hk : extractFormatStr e (f + 1 + 64) (.defn mm mws) (candOfSrc (.defn mm mws) (.defn dm dws)) = .ok k) :
    candOf F e (f + 1) true (.defn mm mws) b (.defn dm dws) =
      .ok (diffCand e (f + 1) (.defn mm mws) (.defn dm dws), if b then [] else marksOf (.defn dm dws)) := by
  unfold candOf
  rw [fetchDefn_diff e f mm mws dm dws hp hok k0 k hk0 hk]
  cases b with
  | false => rfl
  | true =>
    simp only [Except.map, if_true, List.append_nil]
    cases (Obj.defn dm dws).meta.id <;> rfl

theorem cstepG_defn_scope_diff_ms4 (F : FetchFn) (e : Envs) (fuel : Nat) (mm : Meta) (mws : List Word)
    (k0 : Str) (b : Bool) (m : Meta) (k : List Obj) (acc : CAcc) :
    cstepG F e fuel true (.defn mm mws) k0 acc (b, .scope m k) = .error incompatibleErr := by
  unfold cstepG candOf fetchDefn
  rfl

theorem cstepG_scope_defn_diff_ms4 (F : FetchFn) (e : Envs) (fuel : Nat) (mm : Meta) (kids : List Obj) (k0 : Str)
    (b : Bool) (dm : Meta) (dws : List Word) (acc : CAcc) :
    cstepG F e fuel true (.scope mm kids) k0 acc (b, .defn dm dws) = .error incompatibleErr := by
  unfold cstepG candOf
  rfl

theorem flatMap_snd_true_ms4 (g : Bool × Obj → Option (Obj × Str)) (u : Obj → List Nat) : ∀ (FM : List Obj),
    ((FM.map (fun x => (true, x))).map (fun (fm : Bool × Obj) =>
      (g fm, (if fm.1 then [] else u fm.2 : List Nat)))).flatMap (fun x => x.2) = []
  | [] => rfl
  | a :: l => by
    rw [List.map_cons, List.map_cons, List.flatMap_cons, flatMap_snd_true_ms4 g u l]
    rfl

/-- what a definition candidate contributes to the loop of the `.multiple` master definition `mo` in diff mode -/
def ddLinkOf_ms4 (e : Envs) (fu : Nat) (mo : Obj) (fm : Bool × Obj) : Option (Obj × Str) × List Nat :=
  ((diffCand e fu mo fm.2).map (fun c => (c, keyOf e fu mo c)), if fm.1 then [] else marksOf fm.2)

/-- **the step of the master loop, diff mode, for a `.multiple` master DEFINITION with further master
    occurrences `FM`** -/
theorem stepG_multi_diff_ms4 (F : FetchFn) (e : Envs) (f : Nat) (sm : Meta)
    (mkids combined : List Obj) (st : List Obj × List Nat) (idx : Nat) (mm : Meta) (mws : List Word)
    (FM : List Obj)
    (hp : DefnMeta mm) (hmult : isMultiple (.defn mm mws) = true)
    (hfm : fromMasterOf mkids idx (.defn mm mws) = FM.map (fun x => (true, x)))
    (hFM : ∀ x ∈ FM, x.meta.disabled = false ∧ x.name = mm.name)
    (hmatch : fetchMatching (f + 1) sm combined (.defn mm mws) = activeNamed mm.name combined)
    (hsrc : ∀ o ∈ FM ++ combined, o.meta.disabled = false → o.isDefn = true → SrcOK o)
    (hkeys : KeysDefined e 0 (.defn mm mws) (defsNamed mm.name (FM ++ combined))) :
    stepG F e (f + 1) true sm mkids combined st (idx, .defn mm mws) =
      if ms2NoClashObj (.defn mm mws) (FM ++ combined) then
        .ok (st.1 ++ md2Block e (.defn mm mws) FM combined, st.2 ++ ms2UsedObj (.defn mm mws) combined)
      else .error incompatibleErr := by
  obtain ⟨⟨k0, hk0⟩, hcand⟩ := keysDefined_fuel_tm e (f + 1) mm mws _ hkeys
  have hstep : stepG F e (f + 1) true sm mkids combined st (idx, .defn mm mws) =
      multiBranch F e (f + 1) true mkids idx (.defn mm mws) (activeNamed mm.name combined) st.1 st.2 := by
    unfold stepG
    simp only [hmult, Bool.not_true, Bool.false_eq_true, if_false]
    rw [hmatch]
  have han := activeNamed_append_ms3 mm.name FM combined hFM
  have hlink : ∀ fm ∈ candsFl_ms3 FM (activeNamed mm.name combined), fm.2.isDefn = true →
      DLinkF_ms4 F e (f + 1) (.defn mm mws) fm (ddLinkOf_ms4 e (f + 1) (.defn mm mws) fm) := by
    intro fm hfmem hdef
    have hmem : fm.2 ∈ activeNamed mm.name (FM ++ combined) := by
      rw [han, ← candsFl_snd_ms3]; exact List.mem_map.mpr ⟨fm, hfmem, rfl⟩
    have hm' := mem_activeNamed.mp hmem
    obtain ⟨b, d⟩ := fm
    cases d with
    | scope m k => cases hdef
    | defn dm dws =>
      obtain ⟨k, hk⟩ := hcand (.defn dm dws) (mem_defsNamed.mpr ⟨hm'.1, rfl, hm'.2.1, hm'.2.2⟩)
      have hc := candOf_defn_flag_diff_ms4 F e f mm mws b dm dws hp (hsrc _ hm'.1 hm'.2.1 rfl) k0 k hk0 hk
      unfold DLinkF_ms4 ddLinkOf_ms4
      simp only
      refine ⟨?_, ?_⟩
      · intro hnone
        rw [Option.map_eq_none_iff] at hnone
        rw [hc, hnone]
      · intro ck hsome
        rw [Option.map_eq_some_iff] at hsome
        obtain ⟨c, hdc, rfl⟩ := hsome
        have hceq : c = candOfSrc (.defn mm mws) (.defn dm dws) := by
          unfold diffCand at hdc
          split at hdc
          · cases hdc
          · exact (Option.some.inj hdc).symm
        refine ⟨by rw [hc, hdc], ?_⟩
        simp only
        rw [hceq, keyOf_ok hk]; exact hk
  rw [hstep, ms2NoClashObj, md2Block, ms2UsedObj]
  simp only [hmult, if_true]
  cases hsc : scopesNamed mm.name (FM ++ combined) with
  | nil =>
    simp only [List.isEmpty_nil, if_true]
    have hsc' := hsc
    rw [scopesNamed_append_ms3, List.append_eq_nil_iff] at hsc'
    have hdFM : defsNamed mm.name FM = FM := by
      rw [← activeNamed_eq_defsNamed _ _ hsc'.1, activeNamed_self_ms3 mm.name FM hFM]
    have hdn2 : activeNamed mm.name combined = defsNamed mm.name combined :=
      activeNamed_eq_defsNamed _ _ hsc'.2
    have hdefs : ∀ fm ∈ candsFl_ms3 FM (activeNamed mm.name combined), fm.2.isDefn = true := by
      intro fm hfmem
      have : fm.2 ∈ defsNamed mm.name (FM ++ combined) := by
        rw [← activeNamed_eq_defsNamed _ _ hsc, han, ← candsFl_snd_ms3]
        exact List.mem_map.mpr ⟨fm, hfmem, rfl⟩
      exact (mem_defsNamed.mp this).2.1
    have hY : Forall2 (DLinkF_ms4 F e (f + 1) (.defn mm mws)) (FM.map (fun x => (true, x)))
        ((FM.map (fun x => (true, x))).map (ddLinkOf_ms4 e (f + 1) (.defn mm mws))) := by
      apply forall2_map
      intro fm hfmem
      have hmem : fm ∈ candsFl_ms3 FM (activeNamed mm.name combined) := by
        unfold candsFl_ms3; exact List.mem_append_left _ hfmem
      exact hlink fm hmem (hdefs fm hmem)
    have hX : Forall2 (fun ms x => DLinkF_ms4 F e (f + 1) (.defn mm mws) (false, ms) x)
        (activeNamed mm.name combined)
        ((activeNamed mm.name combined).map (fun o => ddLinkOf_ms4 e (f + 1) (.defn mm mws) (false, o))) := by
      apply forall2_map
      intro o ho
      have hmem : (false, o) ∈ candsFl_ms3 FM (activeNamed mm.name combined) := by
        unfold candsFl_ms3; exact List.mem_append_right _ (List.mem_map.mpr ⟨o, ho, rfl⟩)
      exact hlink _ hmem (hdefs _ hmem)
    have hflag : ∀ fm ∈ FM.map (fun x => ((true, x) : Bool × Obj)), fm.1 = true := by
      intro fm hfmem
      obtain ⟨x, _, rfl⟩ := List.mem_map.mp hfmem
      rfl
    have hYu : ((FM.map (fun x => (true, x))).map (ddLinkOf_ms4 e (f + 1) (.defn mm mws))).flatMap
        (fun x => x.2) = [] :=
      flatMap_snd_true_ms4 (fun fm => (diffCand e (f + 1) (.defn mm mws) fm.2).map
        (fun c => (c, keyOf e (f + 1) (.defn mm mws) c))) marksOf FM
    rw [multiBranch_diff_ms4 F e (f + 1) mkids idx (.defn mm mws) k0 _ _ _ _ st.1 st.2
      (by rw [masterKeyG_defn]; exact hk0) hfm hflag hY hYu hX]
    have hXf : ((activeNamed mm.name combined).map
        (fun o => ddLinkOf_ms4 e (f + 1) (.defn mm mws) (false, o))).filterMap (fun x => x.1) =
        (candsOf e (f + 1) (.defn mm mws) (defsNamed mm.name combined)).filter
          (fun y => y.2 != k0) := by
      rw [List.filterMap_map, hdn2, ← keyOf_ok hk0]
      exact filterMap_diffCand_ms4 e (f + 1) (.defn mm mws) _
    have hYf : ((FM.map (fun x => (true, x))).map (ddLinkOf_ms4 e (f + 1) (.defn mm mws))).filterMap
        (fun x => x.1) =
        (candsOf e (f + 1) (.defn mm mws) (defsNamed mm.name FM)).filter (fun y => y.2 != k0) := by
      rw [List.map_map, List.filterMap_map, hdFM, ← keyOf_ok hk0]
      exact filterMap_diffCand_ms4 e (f + 1) (.defn mm mws) _
    rw [hXf, hYf, survivorsOf_blocked_ne_ms4, candsOf_fuel_tm, candsOf_fuel_tm, ← keyOf_ok hk0,
      keyOf_self_fuel_tm]
    congr 2
    congr 1
    rw [List.flatMap_map, hdn2]
    rfl
  | cons sc rest =>
    simp only [List.isEmpty_cons, Bool.false_eq_true, if_false]
    have hmem : sc ∈ scopesNamed mm.name (FM ++ combined) := by rw [hsc]; exact List.mem_cons_self
    have hs := mem_scopesNamed.mp hmem
    have hact : sc ∈ FM ++ activeNamed mm.name combined := by
      rw [← han]; exact mem_activeNamed.mpr ⟨hs.1, hs.2.2.1, hs.2.2.2⟩
    rw [← candsFl_snd_ms3] at hact
    obtain ⟨fm, hfmem, hfm2⟩ := List.mem_map.mp hact
    unfold multiBranch
    rw [masterKeyG_defn, hk0, hfm]
    simp only
    rw [foldlM_error_of_mem (cstepG F e (f + 1) true (.defn mm mws) k0) incompatibleErr]
    · intro a ha b
      obtain ⟨fl, o⟩ := a
      cases o with
      | scope m' k' => exact .inr (cstepG_defn_scope_diff_ms4 F e (f + 1) mm mws k0 fl m' k' b)
      | defn dm dws => exact .inl (cstepG_dlinkF_ok_ms4 F e (f + 1) _ k0 _ _ (hlink _ ha rfl) b)
    · obtain ⟨fl, o⟩ := fm
      simp only at hfm2
      subst hfm2
      cases o with
      | defn m ws => cases hs.2.1
      | scope m k =>
        exact ⟨(fl, .scope m k), hfmem, fun b => cstepG_defn_scope_diff_ms4 F e (f + 1) mm mws k0 fl m k b⟩


/-- what a scope candidate contributes to the loop of the `.multiple` master scope in diff mode -/
def sdLinkOf_ms4 (e : Envs) (mm : Meta) (kids : List Obj) (fm : Bool × Obj) : Option (Obj × Str) × List Nat :=
  (if (ms2Diff e [] kids fm.2.children).isEmpty then none
   else some (md2Cand e mm kids fm.2.children, keyMS e (.scope mm kids) (md2Cand e mm kids fm.2.children)),
   if fm.1 then [] else ms2Used [] kids fm.2.children)

theorem filterMap_sdLinkOf_ms4 (e : Envs) (mm : Meta) (kids : List Obj) (b : Bool) : ∀ (l : List Obj),
    (l.map (fun o => sdLinkOf_ms4 e mm kids (b, o))).filterMap (fun x => x.1) =
      (l.filter (fun s => !(ms2Diff e [] kids s.children).isEmpty)).map (fun s =>
        (md2Cand e mm kids s.children, keyMS e (.scope mm kids) (md2Cand e mm kids s.children)))
  | [] => rfl
  | s :: l => by
    rw [List.map_cons, List.filter_cons]
    cases h : (ms2Diff e [] kids s.children).isEmpty with
    | true =>
      have : (sdLinkOf_ms4 e mm kids (b, s)).1 = none := by unfold sdLinkOf_ms4; simp only [h, if_true]
      rw [List.filterMap_cons_none this, filterMap_sdLinkOf_ms4 e mm kids b l]
      simp
    | false =>
      have : (sdLinkOf_ms4 e mm kids (b, s)).1 =
          some (md2Cand e mm kids s.children, keyMS e (.scope mm kids) (md2Cand e mm kids s.children)) := by
        unfold sdLinkOf_ms4; simp only [h, Bool.false_eq_true, if_false]
      rw [List.filterMap_cons_some this, filterMap_sdLinkOf_ms4 e mm kids b l]
      simp

theorem candOf_scope_flag_diff_ms4 (F : FetchFn) (e : Envs) (fuel : Nat) (mm : Meta) (kids : List Obj)
    (b : Bool) (m' : Meta) (sk : List Obj) (ro : Obj) (u : List Nat) (h : F true mm kids sk = .ok (ro, u)) :
    candOf F e fuel true (.scope mm kids) b (.scope m' sk) =
      .ok ((if ro.children.isEmpty then none else some ro), if b then [] else u) := by
  unfold candOf
  simp only [h]
  rfl

theorem cstepG_scope_flag_err_diff_ms4 (F : FetchFn) (e : Envs) (fuel : Nat) (mm : Meta) (kids : List Obj)
    (k0 : Str) (b : Bool) (m' : Meta) (sk : List Obj) (E : Err) (h : F true mm kids sk = .error E) (acc : CAcc) :
    cstepG F e fuel true (.scope mm kids) k0 acc (b, .scope m' sk) = .error E := by
  unfold cstepG candOf
  simp only [h]
  rfl

/-- **the step of the master loop, diff mode, for a `.multiple` master SCOPE with further master
    occurrences `FM`** -/
theorem stepG_multiscope_diff_ms4 (F : FetchFn) (e : Envs) (fuel : Nat) (sm : Meta)
    (mkids combined : List Obj) (st : List Obj × List Nat) (idx : Nat) (mm : Meta) (kids : List Obj)
    (FM : List Obj)
    (hmult : (mm.attrs.get "multiple").truthy = true)
    (hfm : fromMasterOf mkids idx (.scope mm kids) = FM.map (fun x => (true, x)))
    (hFM : ∀ x ∈ FM, x.meta.disabled = false ∧ x.name = mm.name)
    (hmatch : fetchMatching fuel sm combined (.scope mm kids) = activeNamed mm.name combined)
    (hdep : depthL kids + 1 ≤ fuel)
    (hF0 : F false mm kids [] =
      if ms2NoClash [] kids [] then .ok (ms2Cand e mm kids [], ms2Used [] kids [])
      else .error incompatibleErr)
    (hF : ∀ s ∈ scopesNamed mm.name (FM ++ combined), F true mm kids s.children =
      if ms2NoClash [] kids s.children then .ok (md2Cand e mm kids s.children, ms2Used [] kids s.children)
      else .error incompatibleErr)
    (hk0 : ∃ k, extractFormatStr e (depthL kids + 1 + 64) (.scope mm kids) (ms2Cand e mm kids []) = .ok k)
    (hk : ∀ s ∈ scopesNamed mm.name (FM ++ combined), (ms2Diff e [] kids s.children).isEmpty = false →
      ∃ k, extractFormatStr e (depthL kids + 1 + 64) (.scope mm kids) (md2Cand e mm kids s.children) = .ok k) :
    stepG F e fuel true sm mkids combined st (idx, .scope mm kids) =
      if ms2NoClashObj (.scope mm kids) (FM ++ combined) then
        .ok (st.1 ++ md2Block e (.scope mm kids) FM combined, st.2 ++ ms2UsedObj (.scope mm kids) combined)
      else .error incompatibleErr := by
  have hm : isMultiple (.scope mm kids) = true := hmult
  obtain ⟨k0, hk0⟩ := hk0
  have hk0' : extractFormatStr e (fuel + 64) (.scope mm kids) (ms2Cand e mm kids []) = .ok k0 := by
    rw [extractFormatStr_cand_fuel_ms3 e fuel mm kids [] hdep]; exact hk0
  have hstep : stepG F e fuel true sm mkids combined st (idx, .scope mm kids) =
      multiBranch F e fuel true mkids idx (.scope mm kids) (activeNamed mm.name combined) st.1 st.2 := by
    unfold stepG
    simp only [hm, Bool.not_true, Bool.false_eq_true, if_false]
    rw [hmatch]
  have han := activeNamed_append_ms3 mm.name FM combined hFM
  rw [hstep, ms2NoClashObj, md2Block, ms2UsedObj]
  simp only [hmult, if_true]
  cases hnc0 : ms2NoClash [] kids [] with
  | false =>
    simp only [Bool.false_and, Bool.and_false, Bool.false_eq_true, if_false]
    rw [hnc0] at hF0
    unfold multiBranch
    rw [masterKeyG_scope, hF0]
    rfl
  | true =>
  rw [hnc0] at hF0
  simp only [if_true] at hF0
  simp only [Bool.true_and]
  have hmk : masterKeyG F e fuel (.scope mm kids) = .ok k0 := by
    rw [masterKeyG_scope, hF0]
    exact hk0'
  have hlink : ∀ fm ∈ candsFl_ms3 FM (activeNamed mm.name combined), fm.2.isDefn = false →
      ms2NoClash [] kids fm.2.children = true →
      DLinkF_ms4 F e fuel (.scope mm kids) fm (sdLinkOf_ms4 e mm kids fm) := by
    intro fm hfmem hdef hnc
    have hmem : fm.2 ∈ activeNamed mm.name (FM ++ combined) := by
      rw [han, ← candsFl_snd_ms3]; exact List.mem_map.mpr ⟨fm, hfmem, rfl⟩
    have hm' := mem_activeNamed.mp hmem
    have hs : fm.2 ∈ scopesNamed mm.name (FM ++ combined) := mem_scopesNamed.mpr ⟨hm'.1, hdef, hm'.2.1, hm'.2.2⟩
    have hF' := hF _ hs
    rw [hnc] at hF'
    simp only [if_true] at hF'
    obtain ⟨b, s⟩ := fm
    cases s with
    | defn m ws => cases hdef
    | scope m' sk =>
      have hc : candOf F e fuel true (.scope mm kids) b (.scope m' sk) =
          .ok ((if (ms2Diff e [] kids sk).isEmpty then none else some (md2Cand e mm kids sk)),
            if b then [] else ms2Used [] kids sk) :=
        candOf_scope_flag_diff_ms4 F e fuel mm kids b m' sk _ _ hF'
      have hkk : (ms2Diff e [] kids sk).isEmpty = false →
          ∃ k, extractFormatStr e (depthL kids + 1 + 64) (.scope mm kids) (md2Cand e mm kids sk) = .ok k :=
        hk _ hs
      show DLinkF_ms4 F e fuel (.scope mm kids) (b, .scope m' sk)
        (if (ms2Diff e [] kids sk).isEmpty then none
          else some (md2Cand e mm kids sk, keyMS e (.scope mm kids) (md2Cand e mm kids sk)),
          if b then [] else ms2Used [] kids sk)
      unfold DLinkF_ms4
      simp only
      rcases Bool.eq_false_or_eq_true (ms2Diff e [] kids sk).isEmpty with hemp | hemp
      · refine ⟨fun _ => ?_, fun ck hs' => ?_⟩
        · rw [hc]; simp only [hemp, if_true]
        · simp [hemp] at hs'
      · refine ⟨fun hn => ?_, fun ck hs' => ?_⟩
        · simp [hemp] at hn
        · simp only [hemp, Bool.false_eq_true, if_false, Option.some.injEq] at hs'
          subst hs'
          refine ⟨by rw [hc]; simp only [hemp, Bool.false_eq_true, if_false], ?_⟩
          obtain ⟨k, hk'⟩ := hkk hemp
          show extractFormatStr e (fuel + 64) (.scope mm kids) (md2Cand e mm kids sk) = .ok _
          rw [extractFormatStr_d2cand_fuel_ms4 e fuel mm kids sk hdep, keyMS_ok hk']
          exact hk'
  have hsteps : ∀ a ∈ candsFl_ms3 FM (activeNamed mm.name combined), ∀ b,
      (∃ b', cstepG F e fuel true (.scope mm kids) k0 b a = .ok b') ∨
        cstepG F e fuel true (.scope mm kids) k0 b a = .error incompatibleErr := by
    intro a ha b
    have hmem : a.2 ∈ activeNamed mm.name (FM ++ combined) := by
      rw [han, ← candsFl_snd_ms3]; exact List.mem_map.mpr ⟨a, ha, rfl⟩
    have hm' := mem_activeNamed.mp hmem
    obtain ⟨fl, o⟩ := a
    cases o with
    | defn dm dws => exact .inr (cstepG_scope_defn_diff_ms4 F e fuel mm kids k0 fl dm dws b)
    | scope m' sk =>
      cases hnc : ms2NoClash [] kids sk with
      | true => exact .inl (cstepG_dlinkF_ok_ms4 F e fuel _ k0 _ _ (hlink _ ha rfl hnc) b)
      | false =>
        have hs : Obj.scope m' sk ∈ scopesNamed mm.name (FM ++ combined) :=
          mem_scopesNamed.mpr ⟨hm'.1, rfl, hm'.2.1, hm'.2.2⟩
        have hF' := hF _ hs
        simp only [Obj.children, hnc, Bool.false_eq_true, if_false] at hF'
        exact .inr (cstepG_scope_flag_err_diff_ms4 F e fuel mm kids k0 fl m' sk _ hF' b)
  have herr : (∃ a ∈ candsFl_ms3 FM (activeNamed mm.name combined), ∀ b,
      cstepG F e fuel true (.scope mm kids) k0 b a = .error incompatibleErr) →
      multiBranch F e fuel true mkids idx (.scope mm kids) (activeNamed mm.name combined) st.1 st.2 =
        .error incompatibleErr := by
    intro hbad
    unfold multiBranch
    rw [hmk, hfm]
    simp only
    have hfold := foldlM_error_of_mem (cstepG F e fuel true (.scope mm kids) k0) incompatibleErr _ hsteps hbad
      (([] : List (Option Obj)), ([] : List (Str × Int)), st.2)
    unfold candsFl_ms3 at hfold
    rw [hfold]
  have hcover : ∀ o ∈ activeNamed mm.name (FM ++ combined), ∃ fl, (fl, o) ∈ candsFl_ms3 FM (activeNamed mm.name combined) := by
    intro o ho
    rw [han, ← candsFl_snd_ms3] at ho
    obtain ⟨fm, hfmem, rfl⟩ := List.mem_map.mp ho
    exact ⟨fm.1, hfmem⟩
  cases hdn : defsNamed mm.name (FM ++ combined) with
  | cons d rest =>
    simp only [List.isEmpty_cons, Bool.false_and, Bool.false_eq_true, if_false]
    apply herr
    have hd : d ∈ defsNamed mm.name (FM ++ combined) := by rw [hdn]; exact List.mem_cons_self
    have hd' := mem_defsNamed.mp hd
    obtain ⟨fl, hfl⟩ := hcover d (mem_activeNamed.mpr ⟨hd'.1, hd'.2.2.1, hd'.2.2.2⟩)
    cases d with
    | scope m k => cases hd'.2.1
    | defn dm dws =>
      exact ⟨(fl, .defn dm dws), hfl, fun b => cstepG_scope_defn_diff_ms4 F e fuel mm kids k0 fl dm dws b⟩
  | nil =>
    simp only [List.isEmpty_nil, Bool.true_and]
    have hact := activeNamed_eq_scopesNamed_ms mm.name (FM ++ combined) hdn
    have hdn' := hdn
    rw [defsNamed_append_ms3, List.append_eq_nil_iff] at hdn'
    have hact2 := activeNamed_eq_scopesNamed_ms mm.name combined hdn'.2
    have hactFM : scopesNamed mm.name FM = FM := by
      rw [← activeNamed_eq_scopesNamed_ms mm.name FM hdn'.1, activeNamed_self_ms3 mm.name FM hFM]
    cases hall : (scopesNamed mm.name (FM ++ combined)).all (fun s => ms2NoClash [] kids s.children) with
    | false =>
      simp only [Bool.false_eq_true, if_false]
      apply herr
      rw [List.all_eq_false] at hall
      obtain ⟨s, hs, hnc⟩ := hall
      have hnc' : ms2NoClash [] kids s.children = false := by simpa using hnc
      have hsc := (mem_scopesNamed.mp hs).2.1
      obtain ⟨fl, hfl⟩ := hcover s (by rw [hact]; exact hs)
      cases s with
      | defn m ws => cases hsc
      | scope m' sk =>
        have hF' := hF _ hs
        simp only [Obj.children] at hnc'
        simp only [Obj.children, hnc', Bool.false_eq_true, if_false] at hF'
        exact ⟨(fl, .scope m' sk), hfl,
          fun b => cstepG_scope_flag_err_diff_ms4 F e fuel mm kids k0 fl m' sk _ hF' b⟩
    | true =>
      simp only [if_true]
      rw [List.all_eq_true] at hall
      have hgood : ∀ fm ∈ candsFl_ms3 FM (activeNamed mm.name combined),
          DLinkF_ms4 F e fuel (.scope mm kids) fm (sdLinkOf_ms4 e mm kids fm) := by
        intro fm hfmem
        have hs : fm.2 ∈ scopesNamed mm.name (FM ++ combined) := by
          rw [← hact, han, ← candsFl_snd_ms3]; exact List.mem_map.mpr ⟨fm, hfmem, rfl⟩
        exact hlink fm hfmem (mem_scopesNamed.mp hs).2.1 (hall _ hs)
      have hY : Forall2 (DLinkF_ms4 F e fuel (.scope mm kids)) (FM.map (fun x => (true, x)))
          ((FM.map (fun x => (true, x))).map (sdLinkOf_ms4 e mm kids)) := by
        apply forall2_map
        intro fm hfmem
        exact hgood fm (by unfold candsFl_ms3; exact List.mem_append_left _ hfmem)
      have hX : Forall2 (fun ms x => DLinkF_ms4 F e fuel (.scope mm kids) (false, ms) x)
          (activeNamed mm.name combined)
          ((activeNamed mm.name combined).map (fun o => sdLinkOf_ms4 e mm kids (false, o))) := by
        apply forall2_map
        intro o ho
        exact hgood _ (by unfold candsFl_ms3; exact List.mem_append_right _ (List.mem_map.mpr ⟨o, ho, rfl⟩))
      have hflag : ∀ fm ∈ FM.map (fun x => ((true, x) : Bool × Obj)), fm.1 = true := by
        intro fm hfmem
        obtain ⟨x, _, rfl⟩ := List.mem_map.mp hfmem
        rfl
      have hYu : ((FM.map (fun x => (true, x))).map (sdLinkOf_ms4 e mm kids)).flatMap (fun x => x.2) = [] :=
        flatMap_snd_true_ms4 (fun fm => if (ms2Diff e [] kids fm.2.children).isEmpty then none
          else some (md2Cand e mm kids fm.2.children, keyMS e (.scope mm kids) (md2Cand e mm kids fm.2.children)))
          (fun s => ms2Used [] kids s.children) FM
      rw [multiBranch_diff_ms4 F e fuel mkids idx (.scope mm kids) k0 _ _ _ _ st.1 st.2 hmk hfm hflag hY hYu hX]
      have hYf : ((FM.map (fun x => (true, x))).map (sdLinkOf_ms4 e mm kids)).filterMap (fun x => x.1) =
          ((scopesNamed mm.name FM).filter (fun s => !(ms2Diff e [] kids s.children).isEmpty)).map (fun s =>
            (md2Cand e mm kids s.children, keyMS e (.scope mm kids) (md2Cand e mm kids s.children))) := by
        rw [List.map_map, hactFM]
        exact filterMap_sdLinkOf_ms4 e mm kids true FM
      rw [filterMap_sdLinkOf_ms4 e mm kids false, hYf, hact2, List.map_map, keyMS_ok hk0]
      congr 2
      congr 1
      rw [List.flatMap_map]
      rfl

/-- the step, diff mode, for a non-multiple master scope (a single occurrence), given the callee -/
theorem stepG_scope_diff_ms4 (F : FetchFn) (e : Envs) (fuel : Nat) (sm : Meta)
    (mkids combined : List Obj) (st : List Obj × List Nat) (idx : Nat) (mm : Meta) (kids : List Obj)
    (hmult : (mm.attrs.get "multiple").truthy = false)
    (hmatch : fetchMatching fuel sm combined (.scope mm kids) = activeNamed mm.name combined)
    (hF : F true mm kids (srcStep combined mm.name) =
      if ms2NoClash [] kids (srcStep combined mm.name) then
        .ok (md2Cand e mm kids (srcStep combined mm.name), ms2Used [] kids (srcStep combined mm.name))
      else .error incompatibleErr) :
    stepG F e fuel true sm mkids combined st (idx, .scope mm kids) =
      if ms2NoClashObj (.scope mm kids) combined then
        .ok (st.1 ++ md2Block e (.scope mm kids) [] combined, st.2 ++ ms2UsedObj (.scope mm kids) combined)
      else .error incompatibleErr := by
  have hm : isMultiple (.scope mm kids) = false := hmult
  have hstep : stepG F e fuel true sm mkids combined st (idx, .scope mm kids) =
      scopeBranch F true mm kids (activeNamed mm.name combined) st.1 st.2 := by
    unfold stepG
    simp only [hm, Bool.not_false, if_true]
    rw [hmatch]
  rw [hstep, ms2NoClashObj, md2Block, ms2UsedObj]
  simp only [hmult, Bool.false_eq_true, if_false]
  unfold scopeBranch
  cases hdn : defsNamed mm.name combined with
  | nil =>
    rw [find_isDefn_activeNamed_none _ _ hdn, activeNamed_children_tree, hF]
    simp only [List.isEmpty_nil, Bool.true_and]
    cases ms2NoClash [] kids (srcStep combined mm.name) with
    | true =>
      simp only [if_true, Obj.children]
      split
      · rename_i h; simp [h]
      · rename_i h; simp [h]
    | false => simp
  | cons d rest =>
    obtain ⟨x, hx⟩ := find_isDefn_activeNamed_some mm.name combined (by rw [hdn]; exact List.cons_ne_nil _ _)
    rw [hx]
    simp only [List.isEmpty_cons, Bool.false_and, Bool.false_eq_true, if_false]
    rfl


/-! ## 8. the whole difference on `MSMaster2` -/

/-- **closed form of the difference of a nested master with further master occurrences of `.multiple`
    objects** (`scope.fetch(diff=True)`): on `MSMaster2`, with fuel beyond the nesting depth PLUS ONE,
    variable-free master definitions and defined keys, the difference succeeds exactly when there is no clash
    of kinds (`ms2NoClash`, the test of the non-diff fetch); its children are `ms2Diff`, the consumed ids are
    those of the non-diff fetch (`ms2Used`); a clash makes it fail with RuntimeError ("incompatible"). -/
theorem diff_ms2_total (e : Envs) : ∀ (fuel : Nat) (sm : Meta) (mkids srcs : List Obj),
    MSMaster2 mkids → depthL mkids + 1 < fuel → sm.disabled = false → SrcTree srcs → SrcTree mkids →
    KeysDiffMS2 e [] mkids srcs →
    fetchScope e fuel true sm mkids srcs =
      if ms2NoClash [] mkids srcs then
        .ok (.scope { sm with tmpl := 0 } (ms2Diff e [] mkids srcs), ms2Used [] mkids srcs)
      else .error incompatibleErr := by
  intro fuel
  induction fuel with
  | zero => intro sm mkids srcs _ hd; exact absurd hd (Nat.not_lt_zero _)
  | succ fuel ih =>
    intro sm mkids srcs hf hdepth hsd hsrc hmsrc hkeys
    obtain ⟨f, rfl⟩ : ∃ f, fuel = f + 1 := ⟨fuel - 1, by omega⟩
    rw [fetchScope_succ, masterActive_ms3 mkids hf.firsts]
    simp only
    have hsc : ∀ m kids, Obj.scope m kids ∈ srcs → m.disabled = false → m.name ≠ [] :=
      fun m kids hm hd => hsrc.named m kids (.here hm hd)
    let φ : Nat × Obj → Obj × List Obj :=
      fun io => (io.2, (fromMasterOf mkids io.1 io.2).map (fun p => p.2))
    have hφ : (firstsIdx_ms3 0 [] mkids).map φ = firstsT_ms3 [] mkids := firstsT_of_idx0_ms3 mkids
    rw [foldlM_cond_tree _ (fun io => ms2NoClashObj (φ io).1 ((φ io).2 ++ srcs))
      (fun io => md2Block e (φ io).1 (φ io).2 srcs)
      (fun io => ms2UsedObj (φ io).1 srcs) incompatibleErr]
    · have hall : (firstsIdx_ms3 0 [] mkids).all (fun io => ms2NoClashObj (φ io).1 ((φ io).2 ++ srcs)) =
          ms2NoClash [] mkids srcs := by
        rw [ms2NoClash_eq_all_ms3, ← hφ, List.all_map]
        rfl
      rw [hall]
      cases ms2NoClash [] mkids srcs with
      | false => rfl
      | true =>
        simp only [if_true, List.nil_append]
        unfold fetchFinish
        have h1 : (firstsIdx_ms3 0 [] mkids).flatMap (fun io => md2Block e (φ io).1 (φ io).2 srcs) =
            ms2Diff e [] mkids srcs := by
          rw [ms2Diff_eq_flatMap_ms4, ← hφ, List.flatMap_map]
        have h2 : (firstsIdx_ms3 0 [] mkids).flatMap (fun io => ms2UsedObj (φ io).1 srcs) =
            ms2Used [] mkids srcs := by
          rw [ms2Used_eq_flatMap_ms3, ← hφ, List.flatMap_map]
        rw [h1, h2]
    · intro st a ha
      have hpa : φ a ∈ firstsT_ms3 [] mkids := by rw [← hφ]; exact List.mem_map.mpr ⟨a, ha, rfl⟩
      obtain ⟨hmem, hen, hFMmem⟩ := mem_firstsT_ms3 mkids [] _ hpa
      have hko := hkeys.obj _ hpa
      have hnm := firstsT_nonmulti_ms3 mkids [] [] (fun n => rfl) hf.firsts _ hpa
      have hfl := fromMasterOf_flags_ms3 mkids a.1 a.2
      obtain ⟨i, mo⟩ := a
      simp only [φ] at hmem hen hFMmem hko hnm hfl ⊢
      generalize hFMdef : (fromMasterOf mkids i mo).map (fun p => p.2) = FM at hFMmem hko hnm hfl ⊢
      have hto := hf.obj _ hmem
      have hmatch := fetchMatching_tree (f + 1) sm srcs mo hsd hto.name_ne hto.dotfree hsc
      have hFM : ∀ x ∈ FM, x.meta.disabled = false ∧ x.name = mo.name := fun x hx => (hFMmem x hx).2
      have hok : ∀ o ∈ FM ++ srcs, o.meta.disabled = false → o.isDefn = true → SrcOK o := by
        intro o ho hd hdef
        rw [List.mem_append] at ho
        rcases ho with ho | ho
        · exact hmsrc.ok o (.here (hFMmem o ho).1 hd) hdef
        · exact hsrc.ok o (.here ho hd) hdef
      cases mo with
      | defn mm mws =>
        rw [MS2Obj] at hto
        rw [KeysDiffMS2Obj] at hko
        cases hmult : isMultiple (.defn mm mws) with
        | false =>
          have hFMnil : FM = [] := hnm hmult
          subst hFMnil
          rw [List.nil_append] at hko ⊢
          have hok' : ∀ o ∈ srcs, o.meta.disabled = false → o.isDefn = true → SrcOK o :=
            fun o ho => hok o (List.mem_append_right _ ho)
          rw [ms2NoClashObj, md2Block, ms2UsedObj, ← noClashObj, ← treeUsedObj]
          simp only [hmult, Bool.false_eq_true, if_false]
          rw [← tdBlock]
          exact stepG_plain_diff_dt _ e f sm mkids srcs st i mm mws hto.1 hmult hmatch hok' hko
        | true =>
          exact stepG_multi_diff_ms4 _ e f sm mkids srcs st i mm mws FM hto.1 hmult hfl hFM hmatch hok hko
      | scope mm kids =>
        have hkids := MSMaster2.of_scope hto
        have hd1 := depthT_le_depthL mkids _ hmem
        rw [depthT] at hd1
        have hmk : SrcTree kids := hmsrc.child_ms hmem hen
        rw [KeysDiffMS2Obj] at hko
        cases hmult : (mm.attrs.get "multiple").truthy with
        | false =>
          have hFMnil : FM = [] := hnm hmult
          subst hFMnil
          simp only [hmult, Bool.false_eq_true, if_false, List.nil_append] at hko ⊢
          exact stepG_scope_diff_ms4 _ e (f + 1) sm mkids srcs st i mm kids hmult hmatch
            (ih mm kids (srcStep srcs mm.name) hkids (by omega) hen (hsrc.step mm.name) hmk hko)
        | true =>
          simp only [hmult, if_true] at hko
          have h0 := fetch_ms2_total e (f + 1) mm kids [] hkids (by omega) hen SrcTree.nil_ms hmk hko.1
          refine stepG_multiscope_diff_ms4 _ e (f + 1) sm mkids srcs st i mm kids FM hmult hfl hFM hmatch
            (by omega) h0 ?_ hko.2.1 (fun s hs => (hko.2.2 s hs).2)
          intro s hs
          have hs' := mem_scopesNamed.mp hs
          have hst : SrcTree s.children := by
            rcases List.mem_append.mp hs'.1 with h | h
            · exact hmsrc.child_ms (hFMmem s h).1 hs'.2.2.1
            · exact hsrc.child_ms h hs'.2.2.1
          exact ih mm kids s.children hkids (by omega) hen hst hmk (hko.2.2 s hs).1

/-- a successful difference is the specification -/
theorem diff_ms2_ok (e : Envs) (fuel : Nat) (sm : Meta) (mkids srcs : List Obj)
    (hf : MSMaster2 mkids) (hfuel : depthL mkids + 1 < fuel) (hsd : sm.disabled = false)
    (hsrc : SrcTree srcs) (hmsrc : SrcTree mkids) (hkeys : KeysDiffMS2 e [] mkids srcs)
    (rm : Meta) (D : List Obj) (used : List Nat)
    (h : fetchScope e fuel true sm mkids srcs = .ok (.scope rm D, used)) :
    ms2NoClash [] mkids srcs = true ∧ rm = { sm with tmpl := 0 } ∧ D = ms2Diff e [] mkids srcs ∧
      used = ms2Used [] mkids srcs := by
  rw [diff_ms2_total e fuel sm mkids srcs hf hfuel hsd hsrc hmsrc hkeys] at h
  cases hnc : ms2NoClash [] mkids srcs with
  | false => rw [hnc] at h; cases h
  | true =>
    rw [hnc] at h
    simp only [if_true] at h
    cases h
    exact ⟨rfl, rfl, rfl, rfl⟩

/-- **`master.fetch_diff(sources=…)`** on parsed roots: the fuel `fetchRoot` computes is adequate -/
theorem fetchRoot_diff_ms2 (e : Envs) (master : List Obj) (ss : List (List Obj))
    (hf : MSMaster2 master) (hd : depthL master ≤ 1000) (hsrc : SrcTree ss.flatten)
    (hmsrc : SrcTree master) (hkeys : KeysDiffMS2 e [] master ss.flatten) :
    fetchRoot e true master ss =
      if ms2NoClash [] master ss.flatten then
        .ok (.scope { name := [], id := some 0 } (ms2Diff e [] master ss.flatten), ms2Used [] master ss.flatten)
      else .error incompatibleErr :=
  diff_ms2_total e _ _ master ss.flatten hf (fetchRoot_fuel_dt master hd) rfl hsrc hmsrc hkeys


/-! ## 9. laws on the specification: no sources, minimality, the blocking rule; restoring at list level -/

mutual
theorem md2Block_nil_ms4 (e : Envs) : ∀ (mo : Obj) (FM : List Obj), md2Block e mo FM [] = []
  | .defn mm mws, FM => by
    rw [md2Block]
    have h : defsNamed mm.name [] = [] := rfl
    rw [h]
    split
    · rfl
    · exact diffBlockL_nil e 0 _
  | .scope mm kids, FM => by
    rw [md2Block]
    have h1 : srcStep [] mm.name = [] := rfl
    have h2 : scopesNamed mm.name [] = [] := rfl
    rw [h1, h2, ms2Diff_nil_ms4 e kids []]
    split <;> rfl
/-- without sources the difference has no children — whatever the master repeats -/
theorem ms2Diff_nil_ms4 (e : Envs) : ∀ (l : List Obj) (seen : List Str), ms2Diff e seen l [] = []
  | [], _ => by rw [ms2Diff]
  | mo :: rest, seen => by
    rw [ms2Diff]
    split
    · exact ms2Diff_nil_ms4 e rest seen
    · rw [md2Block_nil_ms4 e mo _, ms2Diff_nil_ms4 e rest _]; rfl
end

theorem md2Block_multi_scope_eq (e : Envs) (mm : Meta) (kids FM srcs : List Obj)
    (hmult : (mm.attrs.get "multiple").truthy = true) :
    md2Block e (.scope mm kids) FM srcs =
      survivorsOf (keyMS e (.scope mm kids) (ms2Cand e mm kids []))
        ((((scopesNamed mm.name srcs).filter (fun s => !(ms2Diff e [] kids s.children).isEmpty)).map (fun s =>
          (md2Cand e mm kids s.children, keyMS e (.scope mm kids) (md2Cand e mm kids s.children)))).filter
          (fun y => !((((scopesNamed mm.name FM).filter (fun s => !(ms2Diff e [] kids s.children).isEmpty)).map
            (fun s => keyMS e (.scope mm kids) (md2Cand e mm kids s.children))).contains y.2))) := by
  rw [md2Block]; simp only [hmult, if_true]

theorem md2Block_multi_defn_eq (e : Envs) (mm : Meta) (mws : List Word) (FM srcs : List Obj)
    (hmult : isMultiple (.defn mm mws) = true) :
    md2Block e (.defn mm mws) FM srcs =
      survivorsOf (keyOf e 0 (.defn mm mws) (.defn mm mws))
        ((candsOf e 0 (.defn mm mws) (defsNamed mm.name srcs)).filter (fun y =>
          !((candsOf e 0 (.defn mm mws) (defsNamed mm.name FM)).map (·.2)).contains y.2)) := by
  rw [md2Block]; simp only [hmult, if_true]

/-- members of the block of a `.multiple` scope: a non-empty difference candidate of a SOURCE block whose
    key is neither the master's nor the key of a (non-empty) candidate of a further master occurrence -/
theorem mem_md2Block_multi_scope (e : Envs) (mm : Meta) (kids FM srcs : List Obj)
    (hmult : (mm.attrs.get "multiple").truthy = true) (o : Obj)
    (ho : o ∈ md2Block e (.scope mm kids) FM srcs) :
    ∃ s ∈ scopesNamed mm.name srcs, o = md2Cand e mm kids s.children ∧
      (ms2Diff e [] kids s.children).isEmpty = false ∧
      keyMS e (.scope mm kids) o ≠ keyMS e (.scope mm kids) (ms2Cand e mm kids []) ∧
      ∀ t ∈ scopesNamed mm.name FM, (ms2Diff e [] kids t.children).isEmpty = false →
        keyMS e (.scope mm kids) (md2Cand e mm kids t.children) ≠ keyMS e (.scope mm kids) o := by
  rw [md2Block_multi_scope_eq e mm kids FM srcs hmult] at ho
  obtain ⟨x, hx, rfl, hne⟩ := mem_survivorsOf_md ho
  obtain ⟨hx1, hx2⟩ := List.mem_filter.mp hx
  obtain ⟨s, hs, rfl⟩ := List.mem_map.mp hx1
  obtain ⟨hs1, hs2⟩ := List.mem_filter.mp hs
  refine ⟨s, hs1, rfl, by simpa using hs2, hne, ?_⟩
  intro t ht hte heq
  have : (((scopesNamed mm.name FM).filter (fun s => !(ms2Diff e [] kids s.children).isEmpty)).map
      (fun s => keyMS e (.scope mm kids) (md2Cand e mm kids s.children))).contains
      (keyMS e (.scope mm kids) (md2Cand e mm kids s.children)) = true := by
    rw [List.contains_iff_mem]
    exact List.mem_map.mpr ⟨t, List.mem_filter.mpr ⟨ht, by simp [hte]⟩, heq⟩
  simp only at hx2
  rw [this] at hx2
  cases hx2

/-- members of the block of a `.multiple` definition -/
theorem mem_md2Block_multi_defn (e : Envs) (mm : Meta) (mws : List Word) (FM srcs : List Obj)
    (hmult : isMultiple (.defn mm mws) = true) (o : Obj)
    (ho : o ∈ md2Block e (.defn mm mws) FM srcs) :
    ∃ d ∈ defsNamed mm.name srcs, o = candOfSrc (.defn mm mws) d ∧
      keyOf e 0 (.defn mm mws) o ≠ keyOf e 0 (.defn mm mws) (.defn mm mws) ∧
      ∀ t ∈ defsNamed mm.name FM,
        keyOf e 0 (.defn mm mws) (candOfSrc (.defn mm mws) t) ≠ keyOf e 0 (.defn mm mws) o := by
  rw [md2Block_multi_defn_eq e mm mws FM srcs hmult] at ho
  obtain ⟨x, hx, rfl, hne⟩ := mem_survivorsOf_md ho
  obtain ⟨hx1, hx2⟩ := List.mem_filter.mp hx
  unfold candsOf at hx1
  obtain ⟨d, hd, rfl⟩ := List.mem_map.mp hx1
  refine ⟨d, hd, rfl, hne, ?_⟩
  intro t ht heq
  have : ((candsOf e 0 (.defn mm mws) (defsNamed mm.name FM)).map (·.2)).contains
      (keyOf e 0 (.defn mm mws) (candOfSrc (.defn mm mws) d)) = true := by
    rw [List.contains_iff_mem]
    unfold candsOf
    rw [List.map_map]
    exact List.mem_map.mpr ⟨t, ht, heq⟩
  simp only at hx2
  rw [this] at hx2
  cases hx2

theorem dedupKeepLast_keys_ms4 {α : Type} (Y : List (α × Str)) (k : Str) :
    (dedupKeepLast Y).any (fun y => y.2 == k) = Y.any (fun y => y.2 == k) := by
  apply Bool.eq_iff_iff.mpr
  rw [List.any_eq_true, List.any_eq_true]
  constructor
  · rintro ⟨y, hy, hk⟩
    exact ⟨y, (dedupKeepLast_sublist Y).subset hy, hk⟩
  · rintro ⟨y, hy, hk⟩
    obtain ⟨y', hy', hkk⟩ := dedup_keys_ms3 Y y hy
    exact ⟨y', hy', by rw [hkk]; exact hk⟩

theorem dedupKeepLast_append_dedup_ms4 {α : Type} : ∀ (X Y : List (α × Str)),
    dedupKeepLast (X ++ dedupKeepLast Y) = dedupKeepLast (X ++ Y)
  | [], Y => dedupKeepLast_idem Y
  | x :: X, Y => by
    rw [List.cons_append, List.cons_append, dedupKeepLast, dedupKeepLast, List.any_append, List.any_append,
      dedupKeepLast_keys_ms4 Y x.2, dedupKeepLast_append_dedup_ms4 X Y]

/-- **restoring keeps the order when no source instance equals a master-provided one** (list level: `A` the
    candidates of the further master occurrences, `S` those of the sources, with their keys; the left side is
    the list rule over `A` followed by the instances of the difference, the right side the working set) -/
theorem restore_order_list_ms4 {α : Type} (k0 : Str) (A S : List (α × Str))
    (h : ∀ s ∈ S, s.2 ∉ A.map (·.2)) :
    dedupKeepLast ((A ++ dedupKeepLast ((S.filter (fun y => !(A.map (·.2)).contains y.2)).filter
      (fun y => y.2 != k0))).filter (fun y => y.2 != k0)) =
    dedupKeepLast ((A ++ S).filter (fun y => y.2 != k0)) := by
  have h1 : S.filter (fun y => !(A.map (·.2)).contains y.2) = S := by
    rw [List.filter_eq_self]
    intro s hs
    simp [h s hs]
  have h2 : (dedupKeepLast (S.filter (fun y => y.2 != k0))).filter (fun y => y.2 != k0) =
      dedupKeepLast (S.filter (fun y => y.2 != k0)) := by
    rw [List.filter_eq_self]
    intro y hy
    exact (List.mem_filter.mp ((dedupKeepLast_sublist _).subset hy)).2
  rw [h1, List.filter_append, h2, dedupKeepLast_append_dedup_ms4, List.filter_append]


/-! ## 10. conservative extension: with one occurrence per name `ms2Diff` is `msDiff`; no empty scopes -/

theorem filter_not_contains_nil_ms4 {α : Type} (L : List (α × Str)) :
    L.filter (fun y => !(([] : List Str).contains y.2)) = L := by
  rw [List.filter_eq_self]
  intro y _
  rfl

mutual
theorem md2Block_eq_mdBlock (e : Envs) : ∀ (mo : Obj) (srcs : List Obj), MSObj mo →
    md2Block e mo [] srcs = mdBlock e mo srcs
  | .defn mm mws, srcs, _ => by
    rw [md2Block, mdBlock]
    have h : defsNamed mm.name [] = [] := rfl
    split
    · rename_i hm
      rw [h]
      unfold diffBlockL
      simp only [hm, if_true]
      have : (candsOf e 0 (.defn mm mws) []).map (·.2) = [] := rfl
      rw [this, filter_not_contains_nil_ms4]
    · rfl
  | .scope mm kids, srcs, ht => by
    have hk := MSMaster.of_scope ht
    have ih : ∀ S, ms2Diff e [] kids S = msDiff e kids S :=
      fun S => ms2Diff_eq_msDiff_aux e kids [] S hk.kids hk.distinct (fun o _ => by simp)
    have ihr : ms2Result e [] kids [] = msResult e kids [] :=
      ms2Result_eq_msResult_aux e kids [] [] hk.kids hk.distinct (fun o _ => by simp)
    rw [md2Block, mdBlock]
    have h2 : scopesNamed mm.name [] = [] := rfl
    simp only [ih, ihr, h2, List.filter_nil, List.map_nil]
    split
    · rw [filter_not_contains_nil_ms4]
    · rfl
theorem ms2Diff_eq_msDiff_aux (e : Envs) : ∀ (l : List Obj) (seen : List Str) (srcs : List Obj),
    MSKids l → (l.map Obj.name).Pairwise (· ≠ ·) → (∀ o ∈ l, seen.contains o.name = false) →
    ms2Diff e seen l srcs = msDiff e l srcs
  | [], seen, srcs, _, _, _ => by rw [ms2Diff, msDiff]
  | mo :: rest, seen, srcs, ht, hd, hs => by
    rw [MSKids] at ht
    rw [List.map_cons, List.pairwise_cons] at hd
    have hen : mo.meta.disabled = false := ht.1.enabled
    have hseen := hs mo List.mem_cons_self
    have hne : ∀ o ∈ rest, mo.name ≠ o.name := fun o ho => hd.1 _ (List.mem_map.mpr ⟨o, ho, rfl⟩)
    rw [ms2Diff, msDiff]
    simp only [hen, hseen, Bool.or_self, Bool.false_eq_true, if_false]
    rw [activeNamed_nil_of_distinct_ms2 mo.name rest hne, md2Block_eq_mdBlock e mo srcs ht.1,
      ms2Diff_eq_msDiff_aux e rest (mo.name :: seen) srcs ht.2 hd.2 (by
        intro o ho
        have h1 := hs o (List.mem_cons_of_mem _ ho)
        have h2 := hne o ho
        simp only [List.contains_cons, Bool.or_eq_false_iff]
        exact ⟨by simpa using fun h => h2 h.symm, h1⟩)]
end

/-- **conservative extension**: on `MSMaster` masters (one occurrence per name) the difference with further
    occurrences is the difference of Phil/Proofs/DiffTreeMS.lean -/
theorem ms2Diff_eq_msDiff (e : Envs) (mkids srcs : List Obj) (hf : MSMaster mkids) :
    ms2Diff e [] mkids srcs = msDiff e mkids srcs :=
  ms2Diff_eq_msDiff_aux e mkids [] srcs hf.kids hf.distinct (fun o _ => by simp)


theorem mem_md2Block_scope_ms4 (e : Envs) (mm : Meta) (kids FM srcs : List Obj) (o : Obj)
    (ho : o ∈ md2Block e (.scope mm kids) FM srcs) :
    ∃ S, o = .scope { mm with tmpl := 0 } (ms2Diff e [] kids S) ∧ ms2Diff e [] kids S ≠ [] := by
  cases hmult : (mm.attrs.get "multiple").truthy with
  | true =>
    obtain ⟨s, _, rfl, hne, _⟩ := mem_md2Block_multi_scope e mm kids FM srcs hmult o ho
    exact ⟨s.children, rfl, by intro h; rw [h] at hne; cases hne⟩
  | false =>
    rw [md2Block] at ho
    simp only [hmult, Bool.false_eq_true, if_false] at ho
    split at ho
    · cases ho
    · rename_i hne
      rw [List.mem_singleton] at ho
      exact ⟨_, ho, by intro h; rw [h] at hne; exact hne rfl⟩

theorem mem_md2Block_defn_ms4 (e : Envs) (mm : Meta) (mws : List Word) (FM srcs : List Obj) (o : Obj)
    (ho : o ∈ md2Block e (.defn mm mws) FM srcs) : ∃ d, o = candOfSrc (.defn mm mws) d := by
  cases hmult : isMultiple (.defn mm mws) with
  | true =>
    obtain ⟨d, _, rfl, _⟩ := mem_md2Block_multi_defn e mm mws FM srcs hmult o ho
    exact ⟨d, rfl⟩
  | false =>
    rw [md2Block] at ho
    simp only [hmult, Bool.false_eq_true, if_false] at ho
    obtain ⟨⟨d, _, rfl⟩, _⟩ := mem_diffBlockL ho
    exact ⟨d, rfl⟩

mutual
theorem md2Block_no_empty_ms4 (e : Envs) : ∀ (mo : Obj) (FM srcs : List Obj),
    ∀ m k, ActiveIn (.scope m k) (md2Block e mo FM srcs) → k ≠ []
  | .defn mm mws, FM, srcs, m, k, hx => by
    cases hx with
    | here hm hd =>
      obtain ⟨d, hxd⟩ := mem_md2Block_defn_ms4 e mm mws FM srcs _ hm
      rw [candOfSrc_defn] at hxd
      cases hxd
    | deeper hm hd hk =>
      obtain ⟨d, hxd⟩ := mem_md2Block_defn_ms4 e mm mws FM srcs _ hm
      rw [candOfSrc_defn] at hxd
      cases hxd
  | .scope mm kids, FM, srcs, m, k, hx => by
    cases hx with
    | here hm hd =>
      obtain ⟨S, ho, hne⟩ := mem_md2Block_scope_ms4 e mm kids FM srcs _ hm
      injection ho with _ hk
      rw [hk]; exact hne
    | deeper hm hd hk =>
      obtain ⟨S, ho, _⟩ := mem_md2Block_scope_ms4 e mm kids FM srcs _ hm
      injection ho with _ hk'
      rw [hk'] at hk
      exact ms2Diff_no_empty_ms4 e kids [] S m k hk
/-- **empty scopes are dropped**: every scope of a difference, at any depth, has children -/
theorem ms2Diff_no_empty_ms4 (e : Envs) : ∀ (l : List Obj) (seen : List Str) (srcs : List Obj),
    ∀ m k, ActiveIn (.scope m k) (ms2Diff e seen l srcs) → k ≠ []
  | [], seen, srcs, m, k, hx => by rw [ms2Diff] at hx; exact (not_activeIn_nil_ms hx).elim
  | mo :: rest, seen, srcs, m, k, hx => by
    rw [ms2Diff] at hx
    split at hx
    · exact ms2Diff_no_empty_ms4 e rest seen srcs m k hx
    · rcases activeIn_append_md hx with h | h
      · exact md2Block_no_empty_ms4 e mo _ srcs m k h
      · exact ms2Diff_no_empty_ms4 e rest _ srcs m k h
end


/-! ## 11. the master's own body as the source: empty difference -/

theorem survivorsOf_nil_of_all_k0_ms4 (k0 : Str) (L : List (Obj × Str)) (h : ∀ y ∈ L, y.2 = k0) :
    survivorsOf k0 L = [] := by
  unfold survivorsOf
  have : L.filter (fun y => y.2 != k0) = [] := by
    rw [List.filter_eq_nil_iff]
    intro y hy
    simp [h y hy]
  rw [this]
  rfl

/-- the block of a first occurrence against a source list in which its name shows itself followed by its
    further occurrences: nothing — the own copy renders like the master (or has an empty difference), the
    copies of the further occurrences are blocked -/
theorem md2Block_self_ms4 (e : Envs) (mo : Obj) (FM R : List Obj) (hto : MS2Obj mo)
    (hen : mo.meta.disabled = false) (hr : RefetchTree [mo])
    (hFM : ∀ x ∈ FM, x.meta.disabled = false ∧ x.name = mo.name)
    (hnm : isMultiple mo = false → FM = [])
    (hbody : ∀ mm kids, mo = .scope mm kids → ms2Diff e [] kids kids = [])
    (hv : activeNamed mo.name R = mo :: FM) : md2Block e mo FM R = [] := by
  cases mo with
  | defn mm mws =>
    rw [MS2Obj] at hto
    have hr' := hr (.defn mm mws) (.here (List.mem_singleton.mpr rfl) hen) rfl
    have hv' : activeNamed mm.name R = .defn mm mws :: FM := hv
    cases hmult : isMultiple (.defn mm mws) with
    | false =>
      have hnil := hnm hmult
      subst hnil
      rw [md2Block]
      simp only [hmult, Bool.false_eq_true, if_false]
      have h := mdBlock_self_md e (.defn mm mws) R (by rw [MSObj]; exact ⟨hto.1, hto.2.1, hto.2.2, hen⟩) hr hv
      rw [mdBlock] at h
      exact h
    | true =>
      rw [md2Block_multi_defn_eq e mm mws FM R hmult]
      apply survivorsOf_nil_of_all_k0_ms4
      intro y hy
      obtain ⟨hy1, hy2⟩ := List.mem_filter.mp hy
      have hdn : defsNamed mm.name R = .defn mm mws :: FM.filter Obj.isDefn := by
        rw [defsNamed_eq_filter_tree, hv', List.filter_cons]
        rfl
      have hdFM : defsNamed mm.name FM = FM.filter Obj.isDefn := by
        rw [defsNamed_eq_filter_tree, activeNamed_self_ms3 mm.name FM hFM]
      rw [hdn] at hy1
      unfold candsOf at hy1
      rw [List.map_cons, List.mem_cons] at hy1
      rcases hy1 with rfl | hy1
      · show keyOf e 0 _ (candOfSrc _ _) = _
        rw [candOfSrc_self_ms mm mws hr'.1 hr'.2.1]
      · exfalso
        have : ((candsOf e 0 (.defn mm mws) (defsNamed mm.name FM)).map (·.2)).contains y.2 = true := by
          rw [List.contains_iff_mem, hdFM]
          unfold candsOf
          exact List.mem_map.mpr ⟨y, hy1, rfl⟩
        have hy2' : (!((candsOf e 0 (.defn mm mws) (defsNamed mm.name FM)).map (·.2)).contains y.2) = true := hy2
        rw [this] at hy2'
        cases hy2'
  | scope mm kids =>
    have hself := hbody mm kids rfl
    have hv' : activeNamed mm.name R = .scope mm kids :: FM := hv
    cases hmult : (mm.attrs.get "multiple").truthy with
    | false =>
      have hnil := hnm hmult
      subst hnil
      have h1 : srcStep R mm.name = kids := by
        rw [srcStep_of_view_ms _ _ _ hv']; simp [Obj.children]
      rw [md2Block]
      simp only [hmult, Bool.false_eq_true, if_false, h1, hself]
      rfl
    | true =>
      rw [md2Block_multi_scope_eq e mm kids FM R hmult]
      have hsn : scopesNamed mm.name R = .scope mm kids :: FM.filter Obj.isScope := by
        rw [scopesNamed_eq_filter_tree, hv', List.filter_cons]
        rfl
      have hsFM : scopesNamed mm.name FM = FM.filter Obj.isScope := by
        rw [scopesNamed_eq_filter_tree, activeNamed_self_ms3 mm.name FM hFM]
      have hL : ((((scopesNamed mm.name R).filter (fun s => !(ms2Diff e [] kids s.children).isEmpty)).map (fun s =>
          (md2Cand e mm kids s.children, keyMS e (.scope mm kids) (md2Cand e mm kids s.children)))).filter
          (fun y => !((((scopesNamed mm.name FM).filter (fun s => !(ms2Diff e [] kids s.children).isEmpty)).map
            (fun s => keyMS e (.scope mm kids) (md2Cand e mm kids s.children))).contains y.2))) = [] := by
        rw [List.filter_eq_nil_iff]
        intro y hy
        obtain ⟨s, hs, rfl⟩ := List.mem_map.mp hy
        obtain ⟨hs1, hs2⟩ := List.mem_filter.mp hs
        rw [hsn, List.mem_cons] at hs1
        rcases hs1 with rfl | hs1
        · simp only [Obj.children, hself, List.isEmpty_nil, Bool.not_true] at hs2
          cases hs2
        · have : (((scopesNamed mm.name FM).filter (fun s => !(ms2Diff e [] kids s.children).isEmpty)).map
              (fun s => keyMS e (.scope mm kids) (md2Cand e mm kids s.children))).contains
              (keyMS e (.scope mm kids) (md2Cand e mm kids s.children)) = true := by
            rw [List.contains_iff_mem, hsFM]
            exact List.mem_map.mpr ⟨s, List.mem_filter.mpr ⟨hs1, hs2⟩, rfl⟩
          intro hc
          have hc' : (!(((scopesNamed mm.name FM).filter (fun s => !(ms2Diff e [] kids s.children).isEmpty)).map
              (fun s => keyMS e (.scope mm kids) (md2Cand e mm kids s.children))).contains
              (keyMS e (.scope mm kids) (md2Cand e mm kids s.children))) = true := hc
          rw [this] at hc'
          cases hc'
      rw [hL]
      rfl

/-- **`M.fetch_diff(M)` is empty** on `MSMaster2` (specification level), by induction on the nesting depth -/
theorem ms2Diff_self_ms4 (e : Envs) : ∀ (n : Nat) (l : List Obj), depthL l < n → MSMaster2 l → RefetchTree l →
    ms2Diff e [] l l = [] := by
  intro n
  induction n with
  | zero => intro l h; exact absurd h (Nat.not_lt_zero _)
  | succ n ih =>
    intro l hd hf hr
    rw [ms2Diff_eq_flatMap_ms4, List.flatMap_eq_nil_iff]
    intro p hp
    obtain ⟨hmem, hen, hFMmem⟩ := mem_firstsT_ms3 l [] p hp
    have hnm := firstsT_nonmulti_ms3 l [] [] (fun _ => rfl) hf.firsts p hp
    refine md2Block_self_ms4 e p.1 p.2 l (hf.obj _ hmem) hen (hr.of_mem_ms3 hmem)
      (fun x hx => (hFMmem x hx).2) hnm ?_ (view_self_ms3 l p hp)
    intro mm kids hpk
    rw [hpk] at hmem hen
    have hd1 := depthT_le_depthL l _ hmem
    rw [depthT] at hd1
    exact ih kids (by omega) (MSMaster2.of_scope (hf.obj _ hmem)) ((hr.of_mem_ms3 hmem).kids hen)

theorem ms2Diff_self (e : Envs) (mkids : List Obj) (hf : MSMaster2 mkids) (hr : RefetchTree mkids) :
    ms2Diff e [] mkids mkids = [] :=
  ms2Diff_self_ms4 e (depthL mkids + 1) mkids (Nat.lt_succ_self _) hf hr


/-! ## 12. restoring a `.multiple` definition with further occurrences: exact when nothing is blocked -/

/-- **the block of a `.multiple` definition is restored exactly — same instances, same order — when no source
    definition renders like a further master occurrence**: `R` is any source list whose enabled definitions of
    that name are the block of the difference (`M.fetch_diff(S)` itself, for instance) -/
theorem restore_ms2_defn_block_ms4 (e : Envs) (mm : Meta) (mws : List Word) (FM S R : List Obj)
    (hmult : isMultiple (.defn mm mws) = true) (hvr : mm.varRes = none)
    (hv : defsNamed mm.name R = md2Block e (.defn mm mws) FM S)
    (hno : ∀ s ∈ defsNamed mm.name S, ∀ t ∈ defsNamed mm.name FM,
      keyOf e 0 (.defn mm mws) (candOfSrc (.defn mm mws) s) ≠ keyOf e 0 (.defn mm mws) (candOfSrc (.defn mm mws) t)) :
    ms2Block e (.defn mm mws) (FM ++ R) = ms2Block e (.defn mm mws) (FM ++ S) := by
  rw [ms2Block, ms2Block, tmBlock, tmBlock]
  simp only [hmult, if_true]
  rw [defsNamed_append_ms3, defsNamed_append_ms3, hv, md2Block_multi_defn_eq e mm mws FM S hmult]
  have happ : ∀ a b, candsOf e 0 (.defn mm mws) (a ++ b) =
      candsOf e 0 (.defn mm mws) a ++ candsOf e 0 (.defn mm mws) b := by
    intro a b; unfold candsOf; rw [List.map_append]
  rw [happ, happ]
  generalize hA : candsOf e 0 (.defn mm mws) (defsNamed mm.name FM) = A
  have hScmem : ∀ x ∈ candsOf e 0 (.defn mm mws) (defsNamed mm.name S),
      (candOfSrc (.defn mm mws) x.1, keyOf e 0 (.defn mm mws) (candOfSrc (.defn mm mws) x.1)) = x ∧
      x.2 ∉ A.map (·.2) := by
    intro x hx
    unfold candsOf at hx
    obtain ⟨d, hd, rfl⟩ := List.mem_map.mp hx
    refine ⟨by simp only; rw [candOfSrc_cand mm mws hvr], ?_⟩
    intro hin
    rw [← hA] at hin
    unfold candsOf at hin
    rw [List.map_map] at hin
    obtain ⟨t, ht, hkt⟩ := List.mem_map.mp hin
    exact hno d hd t ht hkt.symm
  generalize candsOf e 0 (.defn mm mws) (defsNamed mm.name S) = Sc at hScmem ⊢
  have hX : candsOf e 0 (.defn mm mws)
      (survivorsOf (keyOf e 0 (.defn mm mws) (.defn mm mws))
        (Sc.filter (fun y => !(A.map (·.2)).contains y.2))) =
      dedupKeepLast ((Sc.filter (fun y => !(A.map (·.2)).contains y.2)).filter
        (fun y => y.2 != keyOf e 0 (.defn mm mws) (.defn mm mws))) := by
    unfold survivorsOf candsOf
    rw [List.map_map]
    conv => rhs; rw [← List.map_id (dedupKeepLast _)]
    apply List.map_congr_left
    intro x hx
    have hx' : x ∈ Sc :=
      (List.mem_filter.mp (List.mem_filter.mp ((dedupKeepLast_sublist _).subset hx)).1).1
    exact (hScmem x hx').1
  rw [hX]
  apply multiBlock_congr_ms3
  exact restore_order_list_ms4 _ A Sc (fun s hs => (hScmem s hs).2)

end Phil
