/-
  Lemmas behind C14 (command-line argument addressing): substring facts for `startsWith`, `endsWith`,
  `findSub`; the iff-characterisation of every value of `getPathScore`; `maxNat`, index lists, the
  tie-break key (only best-score entries compete); the four outcomes of `choosePath` and the selection theorems.
  Property-level restatements are in Phil/Props/C14.lean.
-/
import Phil.CmdLine
set_option linter.unusedSimpArgs false
set_option linter.unusedVariables false
namespace Phil

theorem startsWith_iff (p s : Str) : startsWith p s = true ↔ ∃ b, s = p ++ b := by
  unfold startsWith
  constructor
  · intro h
    have h' : s.take p.length = p := by simpa using h
    exact ⟨s.drop p.length, by have := List.take_append_drop p.length s; rw [h'] at this; exact this.symm⟩
  · rintro ⟨b, rfl⟩; simp

theorem endsWith_iff (p s : Str) : endsWith p s = true ↔ ∃ a, s = a ++ p := by
  unfold endsWith
  constructor
  · intro h
    simp only [Bool.and_eq_true, decide_eq_true_eq, beq_iff_eq] at h
    refine ⟨s.take (s.length - p.length), ?_⟩
    conv => lhs; rw [← List.take_append_drop (s.length - p.length) s]
    rw [h.2]
  · rintro ⟨a, rfl⟩; simp

theorem findSub_iff (p s : Str) : findSub p s = true ↔ ∃ a b, s = a ++ p ++ b := by
  induction s with
  | nil =>
    simp [findSub]
  | cons c cs ih =>
    rw [findSub, Bool.or_eq_true, ih, startsWith_iff]
    constructor
    · rintro (⟨b, hb⟩ | ⟨a, b, hb⟩)
      · exact ⟨[], b, by simpa using hb⟩
      · exact ⟨c :: a, b, by simp [hb]⟩
    · rintro ⟨a, b, hb⟩
      cases a with
      | nil => exact Or.inl ⟨b, by simpa using hb⟩
      | cons x a =>
        simp only [List.cons_append, List.cons.injEq] at hb
        exact Or.inr ⟨a, b, hb.2⟩

theorem findSub_false_iff (p s : Str) : findSub p s = false ↔ ¬ ∃ a b, s = a ++ p ++ b := by
  rw [← findSub_iff]; simp

theorem findSub_self (s : Str) : findSub s s = true :=
  (findSub_iff s s).2 ⟨[], [], by simp⟩

theorem endsWith_self (s : Str) : endsWith s s = true :=
  (endsWith_iff s s).2 ⟨[], by simp⟩

theorem startsWith_dot_iff (h s : Str) :
    startsWith (h ++ ['.']) s = true ↔ ∃ r, s = h ++ '.' :: r := by
  rw [startsWith_iff]; simp

theorem findSub_of_endsWith {p s : Str} (h : endsWith p s = true) : findSub p s = true := by
  obtain ⟨a, rfl⟩ := (endsWith_iff p s).1 h
  exact (findSub_iff _ _).2 ⟨a, [], by simp⟩

theorem findSub_of_endsWith_dot {p s : Str} (h : endsWith ('.' :: p) s = true) :
    findSub p s = true := by
  obtain ⟨a, rfl⟩ := (endsWith_iff _ s).1 h
  exact (findSub_iff _ _).2 ⟨a ++ ['.'], [], by simp⟩

theorem endsWith_of_endsWith_dot {p s : Str} (h : endsWith ('.' :: p) s = true) :
    endsWith p s = true := by
  obtain ⟨a, rfl⟩ := (endsWith_iff _ s).1 h
  exact (endsWith_iff _ _).2 ⟨a ++ ['.'], by simp⟩

theorem findSub_home_dot (h p : Str) : findSub p (h ++ '.' :: p) = true :=
  (findSub_iff _ _).2 ⟨h ++ ['.'], [], by simp⟩

theorem endsWith_home_dot (h p : Str) : endsWith p (h ++ '.' :: p) = true :=
  (endsWith_iff _ _).2 ⟨h ++ ['.'], by simp⟩

theorem startsWith_home_dot (h p : Str) : startsWith (h ++ ['.']) (h ++ '.' :: p) = true :=
  (startsWith_dot_iff _ _).2 ⟨p, rfl⟩

theorem ne_home_dot (h p : Str) : p ≠ h ++ '.' :: p := by
  intro e
  have := congrArg List.length e
  simp at this
  omega

/-- `getPathScore` as a decision tree over the five Boolean tests it makes. -/
theorem getPathScore_tree (home : Option Str) (src tgt : Str) :
    getPathScore home src tgt =
      if findSub src tgt = false then 0
      else if src = tgt then 8
      else
        let tail : Nat → Nat → Nat → Nat := fun d s n =>
          if endsWith ('.' :: src) tgt = true then d else if endsWith src tgt = true then s else n
        match home with
        | none => tail 4 3 1
        | some h =>
          if tgt = h ++ '.' :: src then 7
          else if startsWith (h ++ ['.']) tgt = true then tail 6 5 2
          else tail 4 3 1 := by
  unfold getPathScore
  cases hM : findSub src tgt <;> simp
  by_cases hst : src = tgt <;> simp [hst]
  cases home with
  | none => cases endsWith ('.' :: src) tgt <;> cases endsWith src tgt <;> simp
  | some h =>
    simp only []
    by_cases h7 : tgt = h ++ '.' :: src
    · simp [h7]
    · have h7' : ¬ (h ++ '.' :: src = tgt) := fun e => h7 e.symm
      simp only [h7, h7', ↓reduceIte]
      cases startsWith (h ++ ['.']) tgt <;> cases endsWith ('.' :: src) tgt <;>
        cases endsWith src tgt <;> simp

/-- `tgt` lies inside the home scope without being `home.src` itself -/
def InHome (home : Option Str) (src tgt : Str) : Prop :=
  ∃ h, home = some h ∧ tgt ≠ h ++ '.' :: src ∧ ∃ r, tgt = h ++ '.' :: r

/-- there is no home scope, or `tgt` does not start with `home.` -/
def OutHome (home : Option Str) (tgt : Str) : Prop :=
  ∀ h, home = some h → ¬ ∃ r, tgt = h ++ '.' :: r

theorem getPathScore_le (home : Option Str) (src tgt : Str) : getPathScore home src tgt ≤ 8 := by
  rw [getPathScore_tree]
  cases home <;> simp only [] <;> repeat' split
  all_goals omega

theorem score_eq_0 (home : Option Str) (src tgt : Str) :
    getPathScore home src tgt = 0 ↔ ¬ ∃ a b, tgt = a ++ src ++ b := by
  rw [← findSub_false_iff, getPathScore_tree]
  cases home <;> simp only [] <;> repeat' split
  all_goals simp_all

theorem score_eq_8 (home : Option Str) (src tgt : Str) :
    getPathScore home src tgt = 8 ↔ src = tgt := by
  rw [getPathScore_tree]
  constructor
  · cases home <;> simp only [] <;> repeat' split
    all_goals simp_all
  · rintro rfl; simp [findSub_self]


/-- common proof of the class characterisations: rewrite every existential back to the Boolean test
    the code makes, then walk the decision tree -/
local macro "score_class" : tactic => `(tactic| (
  rename_i home src tgt
  have hDS := @endsWith_of_endsWith_dot src tgt
  have hSM := @findSub_of_endsWith src tgt
  have hSS := endsWith_self tgt
  try simp only [InHome, OutHome, ← startsWith_dot_iff, ← endsWith_iff, ← findSub_iff]
  rw [getPathScore_tree]
  cases home with
  | none => simp only []; repeat' split
            all_goals simp_all
  | some h =>
    have h7M := findSub_home_dot h src
    have h7S := startsWith_home_dot h src
    have h7N := ne_home_dot h src
    have h7E := endsWith_home_dot h src
    simp only []; repeat' split
    all_goals first | (simp_all; done) | (simp_all; intro _ hh; subst hh; simp_all)))

theorem score_eq_7 (home : Option Str) (src tgt : Str) :
    getPathScore home src tgt = 7 ↔ src ≠ tgt ∧ ∃ h, home = some h ∧ tgt = h ++ '.' :: src := by
  score_class

theorem score_eq_6 (home : Option Str) (src tgt : Str) :
    getPathScore home src tgt = 6 ↔
      src ≠ tgt ∧ InHome home src tgt ∧ ∃ a, tgt = a ++ '.' :: src := by
  score_class

theorem score_eq_5 (home : Option Str) (src tgt : Str) :
    getPathScore home src tgt = 5 ↔
      src ≠ tgt ∧ InHome home src tgt ∧ (∃ a, tgt = a ++ src) ∧ ¬ ∃ a, tgt = a ++ '.' :: src := by
  score_class

theorem score_eq_2 (home : Option Str) (src tgt : Str) :
    getPathScore home src tgt = 2 ↔
      (∃ a b, tgt = a ++ src ++ b) ∧ InHome home src tgt ∧ ¬ ∃ a, tgt = a ++ src := by
  score_class

theorem score_eq_4 (home : Option Str) (src tgt : Str) :
    getPathScore home src tgt = 4 ↔
      src ≠ tgt ∧ OutHome home tgt ∧ ∃ a, tgt = a ++ '.' :: src := by
  score_class

theorem score_eq_3 (home : Option Str) (src tgt : Str) :
    getPathScore home src tgt = 3 ↔
      src ≠ tgt ∧ OutHome home tgt ∧ (∃ a, tgt = a ++ src) ∧ ¬ ∃ a, tgt = a ++ '.' :: src := by
  score_class

theorem score_eq_1 (home : Option Str) (src tgt : Str) :
    getPathScore home src tgt = 1 ↔
      (∃ a b, tgt = a ++ src ++ b) ∧ OutHome home tgt ∧ ¬ ∃ a, tgt = a ++ src := by
  score_class

/-! ### maxNat -/

theorem le_maxNat {l : List Nat} {x : Nat} (h : x ∈ l) : x ≤ maxNat l := by
  induction l with
  | nil => cases h
  | cons y ys ih =>
    simp only [maxNat]
    rcases List.mem_cons.1 h with rfl | h'
    · exact Nat.le_max_left _ _
    · exact Nat.le_trans (ih h') (Nat.le_max_right _ _)

theorem maxNat_mem {l : List Nat} (h : maxNat l ≠ 0) : maxNat l ∈ l := by
  induction l with
  | nil => simp [maxNat] at h
  | cons y ys ih =>
    simp only [maxNat] at h ⊢
    change max y (maxNat ys) ≠ 0 at h
    change max y (maxNat ys) ∈ _
    by_cases hle : maxNat ys ≤ y
    · rw [Nat.max_eq_left hle]; exact List.mem_cons_self
    · have hlt : y ≤ maxNat ys := by omega
      rw [Nat.max_eq_right hlt] at h ⊢
      exact List.mem_cons_of_mem _ (ih h)

theorem maxNat_eq_zero_iff {l : List Nat} : maxNat l = 0 ↔ ∀ x ∈ l, x = 0 := by
  constructor
  · intro h x hx
    have := le_maxNat hx
    omega
  · intro h
    false_or_by_contra
    rename_i hne
    exact hne (h _ (maxNat_mem hne))

/-! ### index lists -/

/-- indices (in order) of the entries of `l` satisfying `p` -/
def idxs {α : Type} (p : α → Bool) (l : List α) : List Nat :=
  (l.zipIdx.filter (fun (x, _) => p x)).map (·.2)

theorem indicesOf_eq_idxs (p : Nat → Bool) (l : List Nat) : indicesOf p l = idxs p l := rfl

theorem mem_idxs {α : Type} {p : α → Bool} {l : List α} {i : Nat} :
    i ∈ idxs p l ↔ ∃ x, l[i]? = some x ∧ p x = true := by
  simp only [idxs, List.mem_map, List.mem_filter, List.mem_zipIdx_iff_getElem?]
  constructor
  · rintro ⟨⟨x, j⟩, ⟨h1, h2⟩, rfl⟩
    exact ⟨x, h1, h2⟩
  · rintro ⟨x, h1, h2⟩
    exact ⟨(x, i), ⟨h1, h2⟩, rfl⟩

theorem idxs_sorted {α : Type} (p : α → Bool) (l : List α) : (idxs p l).Pairwise (· < ·) := by
  have h1 : List.Sublist ((l.zipIdx.filter (fun (x, _) => p x)).map (·.2)) (l.zipIdx.map (·.2)) :=
    List.Sublist.map _ List.filter_sublist
  have h2 : l.zipIdx.map (·.2) = List.range' 0 l.length := List.zipIdx_map_snd 0 l
  rw [h2] at h1
  exact List.Pairwise.sublist h1 (List.pairwise_lt_range')

/-- two strictly increasing lists with the same members are equal -/
theorem sorted_ext : ∀ {l₁ l₂ : List Nat}, l₁.Pairwise (· < ·) → l₂.Pairwise (· < ·) →
    (∀ i, i ∈ l₁ ↔ i ∈ l₂) → l₁ = l₂
  | [], [], _, _, _ => rfl
  | [], b :: l₂, _, _, h => by have := (h b).2 List.mem_cons_self; cases this
  | a :: l₁, [], _, _, h => by have := (h a).1 List.mem_cons_self; cases this
  | a :: l₁, b :: l₂, h₁, h₂, h => by
    rw [List.pairwise_cons] at h₁ h₂
    have hab : a = b := by
      have ha := (h a).1 List.mem_cons_self
      have hb := (h b).2 List.mem_cons_self
      rcases List.mem_cons.1 ha with e | ha'
      · exact e
      · rcases List.mem_cons.1 hb with e | hb'
        · exact e.symm
        · have := h₁.1 b hb'; have := h₂.1 a ha'; omega
    subst hab
    congr 1
    apply sorted_ext h₁.2 h₂.2
    intro i
    constructor
    · intro hi
      have hlt := h₁.1 i hi
      rcases List.mem_cons.1 ((h i).1 (List.mem_cons_of_mem _ hi)) with e | h'
      · omega
      · exact h'
    · intro hi
      have hlt := h₂.1 i hi
      rcases List.mem_cons.1 ((h i).2 (List.mem_cons_of_mem _ hi)) with e | h'
      · omega
      · exact h'

theorem idxs_eq_filter_range {α : Type} (p : α → Bool) (l : List α) :
    idxs p l = (List.range l.length).filter (fun i => (l[i]?).any p) := by
  apply sorted_ext (idxs_sorted p l) (List.Pairwise.filter _ List.pairwise_lt_range)
  intro i
  rw [mem_idxs, List.mem_filter, List.mem_range]
  constructor
  · rintro ⟨x, h1, h2⟩
    have := (List.getElem?_eq_some_iff.1 h1).1
    exact ⟨this, by simp [h1, h2]⟩
  · rintro ⟨h1, h2⟩
    refine ⟨l[i], List.getElem?_eq_getElem h1, ?_⟩
    simpa [List.getElem?_eq_getElem h1] using h2

/-- a strictly increasing list all of whose members are equal to `i` and which contains `i` -/
theorem sorted_singleton {l : List Nat} {i : Nat} (hs : l.Pairwise (· < ·)) (hi : i ∈ l)
    (hall : ∀ j ∈ l, j = i) : l = [i] := by
  apply sorted_ext hs (by simp)
  intro j
  constructor
  · intro hj; simp [hall j hj]
  · intro hj; simp at hj; subst hj; exact hi

/-- a list that is neither empty nor a singleton has two members -/
theorem two_le_length_of_not_singleton {l : List Nat} (hne : l ≠ []) (hns : ∀ i, l ≠ [i]) :
    2 ≤ l.length := by
  match l, hne, hns with
  | [a], _, hns => exact absurd rfl (hns a)
  | a :: b :: r, _, _ => simp

/-! ### the tie-break key -/

/-- `max` on optional keys; `none` = "does not compete" -/
def optMax (a b : Option Int) : Option Int :=
  match a, b with
  | none, b => b
  | some x, some y => if y > x then some y else some x
  | a, none => a

/-- the `max(...)` of the tie-break keys of the competing entries as `choosePath` computes it
    (`none` when nothing competes) -/
def maxKey (keys : List (Option Int)) : Option Int := keys.foldl optMax none

theorem foldl_optMax_some (l : List (Option Int)) (x : Int) :
    ∃ m, l.foldl optMax (some x) = some m ∧ x ≤ m := by
  induction l generalizing x with
  | nil => exact ⟨x, rfl, Int.le_refl _⟩
  | cons k ks ih =>
    simp only [List.foldl_cons]
    cases k with
    | none => exact ih x
    | some y =>
      simp only [optMax]
      split
      · obtain ⟨m, hm, hle⟩ := ih y
        exact ⟨m, hm, by omega⟩
      · exact ih x

theorem foldl_optMax_ge_mem (l : List (Option Int)) (a : Option Int) {x : Int} (hx : some x ∈ l) :
    ∃ m, l.foldl optMax a = some m ∧ x ≤ m := by
  induction l generalizing a with
  | nil => cases hx
  | cons k ks ih =>
    simp only [List.foldl_cons]
    rcases List.mem_cons.1 hx with rfl | h'
    · cases a with
      | none => exact foldl_optMax_some ks x
      | some y =>
        simp only [optMax]
        split
        · exact foldl_optMax_some ks x
        · obtain ⟨m, hm, hle⟩ := foldl_optMax_some ks y
          exact ⟨m, hm, by omega⟩
    · exact ih _ h'

theorem le_maxKey {keys : List (Option Int)} {k : Int} (h : some k ∈ keys) :
    ∃ m, maxKey keys = some m ∧ k ≤ m :=
  foldl_optMax_ge_mem keys none h

/-! ### the pieces of `choosePath` -/

/-- the score of every target, in order -/
def scoresOf (home : Option Str) (targets : List Str) (src : Str) : List Nat :=
  targets.map (getPathScore home src)

/-- the indices of the targets with maximal score, in increasing order -/
def bestOf (home : Option Str) (targets : List Str) (src : Str) : List Nat :=
  indicesOf (· == maxNat (scoresOf home targets src)) (scoresOf home targets src)

/-- the tie-break keys: `100*score - expert` for the entries of maximal score, `none` for the rest
    (only the best matches compete) -/
def keysOf (home : Option Str) (targets : List Str) (experts : List Int) (src : Str) :
    List (Option Int) :=
  ((scoresOf home targets src).zip experts).map
    (fun (s, e) => if s == maxNat (scoresOf home targets src) then some (100 * (s : Int) - e) else none)

/-- the indices of the competing entries whose tie-break key is maximal -/
def bestKeyOf (home : Option Str) (targets : List Str) (experts : List Int) (src : Str) : List Nat :=
  idxs (fun k => k.isSome && k == maxKey (keysOf home targets experts src))
    (keysOf home targets experts src)

/-- `choosePath` written with the named pieces -/
theorem choosePath_eq (home : Option Str) (targets : List Str) (experts : List Int) (src : Str) :
    choosePath home targets experts src =
      if (maxNat (scoresOf home targets src) == 0) = true then .unknown
      else
        match bestOf home targets src with
        | [i] => .chosen i false
        | _ =>
          match bestKeyOf home targets experts src with
          | [i] => .chosen i true
          | _ => .ambiguous (bestOf home targets src) := rfl

/-- `choosePath` has exactly four outcomes. -/
theorem choosePath_spec (home : Option Str) (targets : List Str) (experts : List Int) (src : Str) :
    (maxNat (scoresOf home targets src) = 0 ∧ choosePath home targets experts src = .unknown) ∨
    (maxNat (scoresOf home targets src) ≠ 0 ∧
      ∃ i, bestOf home targets src = [i] ∧ choosePath home targets experts src = .chosen i false) ∨
    (maxNat (scoresOf home targets src) ≠ 0 ∧ (∀ i, bestOf home targets src ≠ [i]) ∧
      ∃ i, bestKeyOf home targets experts src = [i] ∧
        choosePath home targets experts src = .chosen i true) ∨
    (maxNat (scoresOf home targets src) ≠ 0 ∧ (∀ i, bestOf home targets src ≠ [i]) ∧
      (∀ i, bestKeyOf home targets experts src ≠ [i]) ∧
        choosePath home targets experts src = .ambiguous (bestOf home targets src)) := by
  rw [choosePath_eq]
  generalize bestOf home targets src = b
  generalize bestKeyOf home targets experts src = bk
  by_cases h0 : maxNat (scoresOf home targets src) = 0
  · simp [h0]
  · rcases b with _ | ⟨i, _ | ⟨j, r⟩⟩ <;> rcases bk with _ | ⟨i', _ | ⟨j', r'⟩⟩ <;> simp [h0]

/-! ### facts about the pieces -/

theorem score_eq_zero_iff_findSub (home : Option Str) (src tgt : Str) :
    getPathScore home src tgt = 0 ↔ findSub src tgt = false := by
  rw [score_eq_0, findSub_false_iff]

theorem findSub_of_score_ne_zero {home : Option Str} {src tgt : Str}
    (h : getPathScore home src tgt ≠ 0) : findSub src tgt = true := by
  cases hf : findSub src tgt
  · exact absurd ((score_eq_zero_iff_findSub home src tgt).2 hf) h
  · rfl

theorem scoresOf_getElem? (home : Option Str) (targets : List Str) (src : Str) (i : Nat) :
    (scoresOf home targets src)[i]? = (targets[i]?).map (getPathScore home src) := by
  simp [scoresOf]

theorem score_le_max {home : Option Str} {targets : List Str} {src t : Str} (h : t ∈ targets) :
    getPathScore home src t ≤ maxNat (scoresOf home targets src) :=
  le_maxNat (List.mem_map_of_mem h)

theorem max_attained {home : Option Str} {targets : List Str} {src : Str}
    (h : maxNat (scoresOf home targets src) ≠ 0) :
    ∃ t ∈ targets, getPathScore home src t = maxNat (scoresOf home targets src) := by
  have := maxNat_mem h
  simp only [scoresOf, List.mem_map] at this
  obtain ⟨t, ht, e⟩ := this
  exact ⟨t, ht, e⟩

theorem mem_bestOf {home : Option Str} {targets : List Str} {src : Str} {i : Nat} :
    i ∈ bestOf home targets src ↔
      ∃ t, targets[i]? = some t ∧
        getPathScore home src t = maxNat (scoresOf home targets src) := by
  rw [bestOf, indicesOf_eq_idxs, mem_idxs]
  simp only [scoresOf_getElem?, Option.map_eq_some_iff, beq_iff_eq]
  constructor
  · rintro ⟨x, ⟨t, ht, rfl⟩, hx⟩; exact ⟨t, ht, hx⟩
  · rintro ⟨t, ht, hx⟩; exact ⟨_, ⟨t, ht, rfl⟩, hx⟩

theorem bestOf_sorted (home : Option Str) (targets : List Str) (src : Str) :
    (bestOf home targets src).Pairwise (· < ·) := by
  rw [bestOf, indicesOf_eq_idxs]; exact idxs_sorted _ _

theorem bestOf_ne_nil {home : Option Str} {targets : List Str} {src : Str}
    (h : maxNat (scoresOf home targets src) ≠ 0) : bestOf home targets src ≠ [] := by
  obtain ⟨t, ht, e⟩ := max_attained h
  obtain ⟨i, hi⟩ := List.mem_iff_getElem?.1 ht
  intro hnil
  have : i ∈ bestOf home targets src := mem_bestOf.2 ⟨t, hi, e⟩
  rw [hnil] at this; cases this

theorem bestOf_eq_filter_range (home : Option Str) (targets : List Str) (src : Str) :
    bestOf home targets src =
      (List.range targets.length).filter (fun i =>
        (scoresOf home targets src)[i]? == some (maxNat (scoresOf home targets src))) := by
  rw [bestOf, indicesOf_eq_idxs, idxs_eq_filter_range]
  have hl : (scoresOf home targets src).length = targets.length := by simp [scoresOf]
  rw [hl]
  apply List.filter_congr
  intro i _
  cases (scoresOf home targets src)[i]? <;> simp

/-- every best-score index addresses a path that contains the name and is not beaten -/
theorem sound_of_mem_bestOf {home : Option Str} {targets : List Str} {src : Str} {i : Nat}
    (h0 : maxNat (scoresOf home targets src) ≠ 0) (hi : i ∈ bestOf home targets src) :
    ∃ t, targets[i]? = some t ∧ findSub src t = true ∧
      ∀ t' ∈ targets, getPathScore home src t' ≤ getPathScore home src t := by
  obtain ⟨t, ht, e⟩ := mem_bestOf.1 hi
  refine ⟨t, ht, findSub_of_score_ne_zero (by rw [e]; exact h0), ?_⟩
  intro t' ht'
  rw [e]; exact score_le_max ht'

theorem keysOf_getElem?_eq_some {home : Option Str} {targets : List Str} {experts : List Int}
    {src : Str} {j : Nat} {k : Option Int} :
    (keysOf home targets experts src)[j]? = some k ↔
      ∃ t e, targets[j]? = some t ∧ experts[j]? = some e ∧
        k = if getPathScore home src t = maxNat (scoresOf home targets src)
            then some (100 * (getPathScore home src t : Int) - e) else none := by
  simp only [keysOf, List.getElem?_map, Option.map_eq_some_iff, List.getElem?_zip_eq_some,
    scoresOf_getElem?]
  constructor
  · rintro ⟨⟨s, e⟩, ⟨⟨t, ht, hs⟩, he⟩, rfl⟩
    simp only at hs he
    exact ⟨t, e, ht, he, by rw [← hs]; simp⟩
  · rintro ⟨t, e, ht, he, rfl⟩
    exact ⟨(getPathScore home src t, e), ⟨⟨t, ht, rfl⟩, he⟩, by simp⟩

/-- a competing entry (key `some _`) has the maximal score -/
theorem keysOf_getElem?_eq_some_some {home : Option Str} {targets : List Str} {experts : List Int}
    {src : Str} {j : Nat} {k : Int} :
    (keysOf home targets experts src)[j]? = some (some k) ↔
      ∃ t e, targets[j]? = some t ∧ experts[j]? = some e ∧
        getPathScore home src t = maxNat (scoresOf home targets src) ∧
        k = 100 * (maxNat (scoresOf home targets src) : Int) - e := by
  rw [keysOf_getElem?_eq_some]
  constructor
  · rintro ⟨t, e, ht, he, hk⟩
    by_cases hs : getPathScore home src t = maxNat (scoresOf home targets src)
    · rw [if_pos hs] at hk
      exact ⟨t, e, ht, he, hs, by rw [← hs]; exact Option.some.inj hk⟩
    · rw [if_neg hs] at hk; cases hk
  · rintro ⟨t, e, ht, he, hs, rfl⟩
    exact ⟨t, e, ht, he, by rw [if_pos hs, hs]⟩

/-- a uniquely key-maximal index is a best-score entry whose expert level is strictly below that of
    every other best-score entry that has one -/
theorem key_max_of_bestKeyOf {home : Option Str} {targets : List Str} {experts : List Int}
    {src : Str} {i : Nat} (h : bestKeyOf home targets experts src = [i]) :
    ∃ t e, targets[i]? = some t ∧ experts[i]? = some e ∧
      getPathScore home src t = maxNat (scoresOf home targets src) ∧
      ∀ j t' e', targets[j]? = some t' → experts[j]? = some e' → j ≠ i →
        getPathScore home src t' = maxNat (scoresOf home targets src) → e < e' := by
  have hi : i ∈ bestKeyOf home targets experts src := by rw [h]; simp
  rw [bestKeyOf, mem_idxs] at hi
  obtain ⟨k, hk, hmk⟩ := hi
  simp only [Bool.and_eq_true, beq_iff_eq] at hmk
  obtain ⟨hsome, hmk'⟩ := hmk
  obtain ⟨k', rfl⟩ := Option.isSome_iff_exists.1 hsome
  obtain ⟨t, e, ht, he, hs, hke⟩ := keysOf_getElem?_eq_some_some.1 hk
  refine ⟨t, e, ht, he, hs, ?_⟩
  intro j t' e' ht' he' hji hs'
  have hkj : (keysOf home targets experts src)[j]? =
      some (some (100 * (maxNat (scoresOf home targets src) : Int) - e')) :=
    keysOf_getElem?_eq_some_some.2 ⟨t', e', ht', he', hs', rfl⟩
  obtain ⟨m, hm, hle⟩ := le_maxKey (List.mem_of_getElem? hkj)
  rw [← hmk'] at hm
  have hm' : k' = m := Option.some.inj hm
  have hne : 100 * (maxNat (scoresOf home targets src) : Int) - e' ≠ k' := by
    intro heq
    have : j ∈ bestKeyOf home targets experts src := by
      rw [bestKeyOf, mem_idxs]
      exact ⟨_, hkj, by simp [heq, ← hmk']⟩
    rw [h] at this
    simp at this
    exact hji this
  omega

/-! ### the selection theorems -/

theorem unknown_iff (home : Option Str) (targets : List Str) (experts : List Int) (src : Str) :
    choosePath home targets experts src = .unknown ↔ ∀ t ∈ targets, findSub src t = false := by
  have hmx : maxNat (scoresOf home targets src) = 0 ↔ ∀ t ∈ targets, findSub src t = false := by
    rw [maxNat_eq_zero_iff]
    simp only [scoresOf, List.mem_map, forall_exists_index, and_imp, forall_apply_eq_imp_iff₂,
      score_eq_zero_iff_findSub]
  rw [← hmx]
  rcases choosePath_spec home targets experts src with ⟨h0, hr⟩ | ⟨h0, i, _, hr⟩ |
      ⟨h0, _, i, _, hr⟩ | ⟨h0, _, _, hr⟩ <;> simp [hr, h0]

theorem choose_sound_unwarned {home : Option Str} {targets : List Str} {experts : List Int}
    {src : Str} {i : Nat} (h : choosePath home targets experts src = .chosen i false) :
    ∃ t, targets[i]? = some t ∧ findSub src t = true ∧
      ∀ t' ∈ targets, getPathScore home src t' ≤ getPathScore home src t := by
  rcases choosePath_spec home targets experts src with ⟨h0, hr⟩ | ⟨h0, j, hb, hr⟩ |
      ⟨h0, _, j, _, hr⟩ | ⟨h0, _, _, hr⟩ <;> rw [hr] at h <;> try (simp at h; done)
  have hji : j = i := by simpa using h
  subst hji
  exact sound_of_mem_bestOf h0 (by rw [hb]; simp)

/-- the content of the warned case: at least two paths share the best score, the chosen one is
    among them, and its expert level is strictly below that of every other best-score path that has
    an expert level -/
theorem warned_key_max {home : Option Str} {targets : List Str} {experts : List Int}
    {src : Str} {i : Nat} (h : choosePath home targets experts src = .chosen i true) :
    maxNat (scoresOf home targets src) ≠ 0 ∧ 2 ≤ (bestOf home targets src).length ∧
    ∃ t e, targets[i]? = some t ∧ experts[i]? = some e ∧
      getPathScore home src t = maxNat (scoresOf home targets src) ∧
      ∀ j t' e', targets[j]? = some t' → experts[j]? = some e' → j ≠ i →
        getPathScore home src t' = maxNat (scoresOf home targets src) → e < e' := by
  rcases choosePath_spec home targets experts src with ⟨h0, hr⟩ | ⟨h0, j, hb, hr⟩ |
      ⟨h0, hns, j, hk, hr⟩ | ⟨h0, _, _, hr⟩ <;> rw [hr] at h <;> try (simp at h; done)
  have hji : j = i := by simpa using h
  subst hji
  exact ⟨h0, two_le_length_of_not_singleton (bestOf_ne_nil h0) hns, key_max_of_bestKeyOf hk⟩

/-- the index chosen by the tie-break is a best-score index (no hypothesis on the expert levels) -/
theorem warned_mem_bestOf {home : Option Str} {targets : List Str} {experts : List Int}
    {src : Str} {i : Nat}
    (h : choosePath home targets experts src = .chosen i true) :
    i ∈ bestOf home targets src := by
  obtain ⟨h0, _, t, e, ht, he, hs, _⟩ := warned_key_max h
  exact mem_bestOf.2 ⟨t, ht, hs⟩

theorem choose_sound {home : Option Str} {targets : List Str} {experts : List Int}
    {src : Str} {i : Nat} {w : Bool}
    (h : choosePath home targets experts src = .chosen i w) :
    ∃ t, targets[i]? = some t ∧ findSub src t = true ∧
      ∀ t' ∈ targets, getPathScore home src t' ≤ getPathScore home src t := by
  cases w with
  | false => exact choose_sound_unwarned h
  | true => exact sound_of_mem_bestOf (warned_key_max h).1 (warned_mem_bestOf h)

/-- the tie-break without any hypothesis: the chosen index is a best-score index with an expert level
    strictly below every expert level present at another best-score index -/
theorem tie_break_sound_weak {home : Option Str} {targets : List Str} {experts : List Int}
    {src : Str} {i : Nat}
    (h : choosePath home targets experts src = .chosen i true) :
    i ∈ bestOf home targets src ∧
    ∃ e, experts[i]? = some e ∧
      ∀ j ∈ bestOf home targets src, j ≠ i → ∀ e', experts[j]? = some e' → e < e' := by
  refine ⟨warned_mem_bestOf h, ?_⟩
  obtain ⟨h0, _, t, e, ht, he, hs, hmax⟩ := warned_key_max h
  refine ⟨e, he, ?_⟩
  intro j hj hji e' he'
  obtain ⟨t', ht', hs'⟩ := mem_bestOf.1 hj
  exact hmax j t' e' ht' he' hji hs'

/-- with one expert level per target every other best-score index has a strictly higher level -/
theorem tie_break_sound {home : Option Str} {targets : List Str} {experts : List Int}
    {src : Str} {i : Nat} (hlen : experts.length = targets.length)
    (h : choosePath home targets experts src = .chosen i true) :
    i ∈ bestOf home targets src ∧
    ∃ e, experts[i]? = some e ∧
      ∀ j ∈ bestOf home targets src, j ≠ i → ∃ e', experts[j]? = some e' ∧ e < e' := by
  obtain ⟨hi, e, he, hall⟩ := tie_break_sound_weak h
  refine ⟨hi, e, he, ?_⟩
  intro j hj hji
  obtain ⟨t', ht', hs'⟩ := mem_bestOf.1 hj
  have hjlt : j < experts.length := by
    rw [hlen]; exact (List.getElem?_eq_some_iff.1 ht').1
  have he' : experts[j]? = some experts[j] := List.getElem?_eq_getElem hjlt
  exact ⟨experts[j], he', hall j hj hji _ he'⟩

theorem foldl_optMax_attained (l : List (Option Int)) (a : Option Int) {m : Int}
    (h : l.foldl optMax a = some m) : a = some m ∨ some m ∈ l := by
  induction l generalizing a with
  | nil => exact .inl h
  | cons k ks ih =>
    rw [List.foldl_cons] at h
    rcases ih _ h with h' | h'
    · cases a with
      | none =>
        simp only [optMax] at h'
        exact .inr (by rw [h']; exact List.mem_cons_self)
      | some x =>
        cases k with
        | none => exact .inl h'
        | some y =>
          simp only [optMax] at h'
          split at h'
          · exact .inr (by rw [h']; exact List.mem_cons_self)
          · exact .inl h'
    · exact .inr (List.mem_cons_of_mem _ h')

theorem maxKey_attained {keys : List (Option Int)} {m : Int} (h : maxKey keys = some m) :
    some m ∈ keys := by
  rcases foldl_optMax_attained keys none h with h' | h'
  · cases h'
  · exact h'

/-- a best-score entry whose expert level is strictly below that of every other best-score entry
    (that has one) is the unique key-maximal index -/
theorem bestKeyOf_of_lowest {home : Option Str} {targets : List Str} {experts : List Int}
    {src : Str} {i : Nat} {e : Int} (hi : i ∈ bestOf home targets src) (he : experts[i]? = some e)
    (hlow : ∀ j ∈ bestOf home targets src, j ≠ i → ∀ e', experts[j]? = some e' → e < e') :
    bestKeyOf home targets experts src = [i] := by
  obtain ⟨t, ht, hs⟩ := mem_bestOf.1 hi
  have hki : (keysOf home targets experts src)[i]? =
      some (some (100 * (maxNat (scoresOf home targets src) : Int) - e)) :=
    keysOf_getElem?_eq_some_some.2 ⟨t, e, ht, he, hs, rfl⟩
  obtain ⟨m, hm, hle⟩ := le_maxKey (List.mem_of_getElem? hki)
  have hmi : m = 100 * (maxNat (scoresOf home targets src) : Int) - e := by
    obtain ⟨j, hj⟩ := List.mem_iff_getElem?.1 (maxKey_attained hm)
    obtain ⟨t', e', ht', he', hs', hme⟩ := keysOf_getElem?_eq_some_some.1 hj
    by_cases hji : j = i
    · subst hji
      rw [he] at he'; cases he'
      exact hme
    · have := hlow j (mem_bestOf.2 ⟨t', ht', hs'⟩) hji e' he'
      omega
  subst hmi
  apply sorted_singleton (idxs_sorted _ _)
  · rw [mem_idxs]
    exact ⟨_, hki, by simp [hm]⟩
  · intro j hj
    rw [mem_idxs] at hj
    obtain ⟨k, hk, hmk⟩ := hj
    simp only [Bool.and_eq_true, beq_iff_eq] at hmk
    obtain ⟨_, hmk'⟩ := hmk
    rw [hm] at hmk'
    subst hmk'
    obtain ⟨t', e', ht', he', hs', hme⟩ := keysOf_getElem?_eq_some_some.1 hk
    false_or_by_contra
    rename_i hji
    have := hlow j (mem_bestOf.2 ⟨t', ht', hs'⟩) hji e' he'
    omega

/-- **the tie-break, characterised**: `chosen i true` exactly when at least two paths share the best
    (non-zero) score, `i` is one of them and its expert level is strictly below the level of every
    other one -/
theorem chosen_warned_iff {home : Option Str} {targets : List Str} {experts : List Int}
    {src : Str} {i : Nat} :
    choosePath home targets experts src = .chosen i true ↔
      maxNat (scoresOf home targets src) ≠ 0 ∧ 2 ≤ (bestOf home targets src).length ∧
      i ∈ bestOf home targets src ∧
      ∃ e, experts[i]? = some e ∧
        ∀ j ∈ bestOf home targets src, j ≠ i → ∀ e', experts[j]? = some e' → e < e' := by
  constructor
  · intro h
    obtain ⟨h0, h2, _⟩ := warned_key_max h
    obtain ⟨hi, hr⟩ := tie_break_sound_weak h
    exact ⟨h0, h2, hi, hr⟩
  · rintro ⟨h0, h2, hi, e, he, hlow⟩
    have hk := bestKeyOf_of_lowest hi he hlow
    rcases choosePath_spec home targets experts src with ⟨h0', hr⟩ | ⟨_, j, hb, hr⟩ |
        ⟨_, _, j, hk', hr⟩ | ⟨_, _, hnk, hr⟩
    · exact absurd h0' h0
    · rw [hb] at h2; simp at h2
    · rw [hk] at hk'
      have : i = j := by simpa using hk'
      subst this
      exact hr
    · exact absurd hk (hnk i)
theorem exact_wins {home : Option Str} {targets : List Str} {experts : List Int} {src : Str}
    (hnd : targets.Nodup) (hmem : src ∈ targets) :
    ∃ i, choosePath home targets experts src = .chosen i false ∧ targets[i]? = some src := by
  have h8 : getPathScore home src src = 8 := (score_eq_8 home src src).2 rfl
  have hmx : maxNat (scoresOf home targets src) = 8 := by
    have h1 := score_le_max (home := home) (src := src) hmem
    rw [h8] at h1
    have h0 : maxNat (scoresOf home targets src) ≠ 0 := by omega
    obtain ⟨t, _, e⟩ := max_attained h0
    have := getPathScore_le home src t
    omega
  obtain ⟨i₀, hi₀⟩ := List.mem_iff_getElem?.1 hmem
  have hi₀lt : i₀ < targets.length := (List.getElem?_eq_some_iff.1 hi₀).1
  have hbest : bestOf home targets src = [i₀] := by
    apply sorted_singleton (bestOf_sorted home targets src)
    · exact mem_bestOf.2 ⟨src, hi₀, by rw [h8, hmx]⟩
    · intro j hj
      obtain ⟨t, ht, e⟩ := mem_bestOf.1 hj
      rw [hmx] at e
      have : src = t := (score_eq_8 home src t).1 e
      subst this
      exact ((List.getElem?_inj hi₀lt hnd).1 (hi₀.trans ht.symm)).symm
  rcases choosePath_spec home targets experts src with ⟨h0, hr⟩ | ⟨h0, j, hb, hr⟩ |
      ⟨h0, hns, j, hk, hr⟩ | ⟨h0, hns, _, hr⟩
  · omega
  · rw [hbest] at hb
    have : i₀ = j := by simpa using hb
    subst this
    exact ⟨i₀, hr, hi₀⟩
  · exact absurd hbest (hns i₀)
  · exact absurd hbest (hns i₀)

theorem ambiguous_lists_all_best {home : Option Str} {targets : List Str} {experts : List Int}
    {src : Str} {best : List Nat} (h : choosePath home targets experts src = .ambiguous best) :
    best = (List.range targets.length).filter (fun i =>
        (scoresOf home targets src)[i]? == some (maxNat (scoresOf home targets src))) ∧
    (∀ i, i ∈ best ↔ ∃ t, targets[i]? = some t ∧
        getPathScore home src t = maxNat (scoresOf home targets src)) ∧
    best.Pairwise (· < ·) ∧
    0 < maxNat (scoresOf home targets src) ∧ 2 ≤ best.length := by
  rcases choosePath_spec home targets experts src with ⟨h0, hr⟩ | ⟨h0, j, hb, hr⟩ |
      ⟨h0, _, j, _, hr⟩ | ⟨h0, hns, _, hr⟩ <;> rw [hr] at h <;> try (simp at h; done)
  have hb : bestOf home targets src = best := by simpa using h
  subst hb
  exact ⟨bestOf_eq_filter_range home targets src, fun i => mem_bestOf, bestOf_sorted _ _ _,
    Nat.pos_of_ne_zero h0, two_le_length_of_not_singleton (bestOf_ne_nil h0) hns⟩

theorem duplicate_paths_refuse_exact :
    choosePath none ["d".toList, "d".toList] [0, 0] "d".toList = .ambiguous [0, 1] := by decide

/-! ### ranking corollaries of the class characterisation -/

/-- a trailing match (the path ends with the name) is exactly a class of at least 3; an interior
    match has class 1 or 2 -/
theorem score_ge_3_iff (home : Option Str) (src tgt : Str) :
    3 ≤ getPathScore home src tgt ↔ ∃ a, tgt = a ++ src := by
  score_class

/-- `home.name` (class 7) beats every other path except the path equal to the name (class 8) -/
theorem home_name_beats_rest {home : Option Str} {h src tgt tgt' : Str} (hh : home = some h)
    (ht : tgt = h ++ '.' :: src) (hne : tgt' ≠ tgt) (hne' : tgt' ≠ src) :
    getPathScore home src tgt' < getPathScore home src tgt := by
  have h7 : getPathScore home src tgt = 7 :=
    (score_eq_7 home src tgt).2 ⟨by rw [ht]; exact ne_home_dot h src, h, hh, ht⟩
  have hle := getPathScore_le home src tgt'
  have hn8 : getPathScore home src tgt' ≠ 8 := fun e => hne' ((score_eq_8 home src tgt').1 e).symm
  have hn7 : getPathScore home src tgt' ≠ 7 := by
    intro e
    obtain ⟨_, h', hh', ht'⟩ := (score_eq_7 home src tgt').1 e
    rw [hh] at hh'; cases hh'
    exact hne (ht'.trans ht.symm)
  omega

/-! ### the de-duplicated target list (`targetEntries`) -/

mutual
theorem expertsObj_length : ∀ (o : Obj) (p : Str) (inh : Int),
    (expertsObj o inh).length = (allDefsObj o p).length
  | .defn m ws, p, inh => by
    simp only [expertsObj, allDefsObj]
    split <;> rfl
  | .scope m os, p, inh => by
    simp only [expertsObj, allDefsObj]
    exact expertsList_length os _ _
theorem expertsList_length : ∀ (l : List Obj) (p : Str) (inh : Int),
    (expertsObj.expertsList l inh).length = (allDefsObj.allDefsList l p).length
  | [], _, _ => rfl
  | o :: os, p, inh => by
    simp only [expertsObj.expertsList, allDefsObj.allDefsList, List.length_append]
    rw [expertsList_length os p inh]
    split
    · rfl
    · rw [expertsObj_length o p inh]
end

/-- one recursive expert level per definition -/
theorem expertLevels_length (objs : List Obj) :
    (expertLevels objs).length = (allDefinitions objs).length :=
  expertsList_length objs [] 0
/-- the de-duplication step of `targetEntries` -/
def dedupStep (acc : List (Str × Int)) (pe : Str × Int) : List (Str × Int) :=
  if acc.any (·.1 == pe.1) then acc else acc ++ [pe]

theorem targetEntries_eq (objs : List Obj) (experts : List Int) :
    targetEntries objs experts =
      (((allDefinitions objs).map (·.1)).zip experts).foldl dedupStep [] := rfl

theorem dedupStep_nodup {acc : List (Str × Int)} (pe : Str × Int) (h : (acc.map (·.1)).Nodup) :
    ((dedupStep acc pe).map (·.1)).Nodup := by
  unfold dedupStep
  split
  · exact h
  · rename_i hn
    have hn' : pe.1 ∉ acc.map (·.1) := by
      intro hm
      obtain ⟨x, hx, hxe⟩ := List.mem_map.1 hm
      exact hn (List.any_eq_true.2 ⟨x, hx, by simp [hxe]⟩)
    rw [List.map_append, List.nodup_append]
    refine ⟨h, by simp, ?_⟩
    intro a ha b hb
    simp only [List.map_cons, List.map_nil, List.mem_singleton] at hb
    subst hb
    intro e; subst e
    exact hn' ha

theorem foldl_dedupStep_nodup (l acc : List (Str × Int)) (h : (acc.map (·.1)).Nodup) :
    ((l.foldl dedupStep acc).map (·.1)).Nodup := by
  induction l generalizing acc with
  | nil => exact h
  | cons pe l ih => exact ih _ (dedupStep_nodup pe h)

theorem mem_dedupStep_paths {acc : List (Str × Int)} (pe : Str × Int) (p : Str) :
    p ∈ (dedupStep acc pe).map (·.1) ↔ p ∈ acc.map (·.1) ∨ p = pe.1 := by
  unfold dedupStep
  split
  · rename_i hy
    obtain ⟨x, hx, hxe⟩ := List.any_eq_true.1 hy
    have hxe' : x.1 = pe.1 := by simpa using hxe
    constructor
    · exact Or.inl
    · rintro (h | rfl)
      · exact h
      · exact List.mem_map.2 ⟨x, hx, hxe'⟩
  · simp

theorem mem_foldl_dedupStep_paths (l acc : List (Str × Int)) (p : Str) :
    p ∈ (l.foldl dedupStep acc).map (·.1) ↔ p ∈ acc.map (·.1) ∨ p ∈ l.map (·.1) := by
  induction l generalizing acc with
  | nil => simp
  | cons pe l ih =>
    rw [List.foldl_cons, ih, mem_dedupStep_paths, List.map_cons, List.mem_cons]
    constructor
    · rintro ((h | h) | h)
      · exact .inl h
      · exact .inr (.inl h)
      · exact .inr (.inr h)
    · rintro (h | h | h)
      · exact .inl (.inl h)
      · exact .inl (.inr h)
      · exact .inr h

theorem mem_foldl_dedupStep (l acc : List (Str × Int)) (x : Str × Int)
    (h : x ∈ l.foldl dedupStep acc) : x ∈ acc ∨ x ∈ l := by
  induction l generalizing acc with
  | nil => exact .inl h
  | cons pe l ih =>
    rw [List.foldl_cons] at h
    rcases ih _ h with h | h
    · unfold dedupStep at h
      split at h
      · exact .inl h
      · rcases List.mem_append.1 h with h | h
        · exact .inl h
        · simp only [List.mem_singleton] at h
          exact .inr (by rw [h]; exact List.mem_cons_self)
    · exact .inr (List.mem_cons_of_mem _ h)

/-- the target paths `process_arg` works with are pairwise distinct -/
theorem targetEntries_nodup (objs : List Obj) (experts : List Int) :
    ((targetEntries objs experts).map (·.1)).Nodup := by
  rw [targetEntries_eq]
  exact foldl_dedupStep_nodup _ [] (by simp)

/-- every entry is a definition path with the expert level at the same position -/
theorem targetEntries_subset (objs : List Obj) (experts : List Int) (x : Str × Int)
    (h : x ∈ targetEntries objs experts) : x ∈ ((allDefinitions objs).map (·.1)).zip experts := by
  rw [targetEntries_eq] at h
  rcases mem_foldl_dedupStep _ [] x h with h | h
  · cases h
  · exact h

/-- no path is lost: the entries carry exactly the paths of the definitions (given one expert level
    per definition) -/
theorem mem_targetEntries_paths (objs : List Obj) (experts : List Int)
    (hlen : experts.length = (allDefinitions objs).length) (p : Str) :
    p ∈ (targetEntries objs experts).map (·.1) ↔ p ∈ (allDefinitions objs).map (·.1) := by
  rw [targetEntries_eq, mem_foldl_dedupStep_paths]
  have : (((allDefinitions objs).map (·.1)).zip experts).map (·.1) = (allDefinitions objs).map (·.1) := by
    rw [List.map_fst_zip]
    simp [hlen]
  rw [this]
  simp

/-- a name equal to the full path of a parameter addresses it (de-duplicated targets) -/
theorem exact_wins_targetEntries (home : Option Str) (objs : List Obj) (experts : List Int) (src : Str)
    (hmem : src ∈ (targetEntries objs experts).map (·.1)) :
    ∃ i, choosePath home ((targetEntries objs experts).map (·.1))
        ((targetEntries objs experts).map (·.2)) src = .chosen i false ∧
      ((targetEntries objs experts).map (·.1))[i]? = some src :=
  exact_wins (targetEntries_nodup objs experts) hmem
/-- the same for the targets `process_arg` is run with: every definition path of the master, given
    as the name, addresses that parameter -/
theorem exact_wins_master (home : Option Str) (objs : List Obj) (src : Str)
    (hmem : src ∈ (allDefinitions objs).map (·.1)) :
    ∃ i, choosePath home ((targetEntries objs (expertLevels objs)).map (·.1))
        ((targetEntries objs (expertLevels objs)).map (·.2)) src = .chosen i false ∧
      ((targetEntries objs (expertLevels objs)).map (·.1))[i]? = some src :=
  exact_wins_targetEntries home objs _ src
    ((mem_targetEntries_paths objs _ (expertLevels_length objs) src).2 hmem)

end Phil
