/-
  Lemmas about Phil.IncludeParents: erasure to Phil.Include, full paths of consistently linked trees,
  independence of the spliced objects from the include site.
-/
import Phil.IncludeParents
import Phil.Proofs.IncludeLemmas
namespace Phil

/-! ### erasure -/

@[simp] theorem eraseL_nil : eraseL [] = [] := by simp [eraseL]
@[simp] theorem eraseL_cons (o : PObj) (os : List PObj) : eraseL (o :: os) = o.erase :: eraseL os := by
  simp [eraseL]
@[simp] theorem PObj.erase_defn (m : Meta) (ws : List Word) (p : PChain) :
    (PObj.defn m ws p).erase = .defn m ws := by simp [PObj.erase]
@[simp] theorem PObj.erase_scope (m : Meta) (kids : List PObj) (p : PChain) :
    (PObj.scope m kids p).erase = .scope m (eraseL kids) := by simp [PObj.erase]

theorem eraseL_append (a b : List PObj) : eraseL (a ++ b) = eraseL a ++ eraseL b := by
  induction a with
  | nil => simp
  | cons o os ih => simp [ih]

theorem erase_annotL (objs : List Obj) : ∀ ch, eraseL (annotL ch objs) = objs := by
  induction objs using Obj.rec_1 (motive_1 := fun o => ∀ ch, (annotObj ch o).erase = o) with
  | defn m ws => simp [annotObj]
  | scope m kids ih => simp [annotObj, ih]
  | nil => intro ch; simp [annotL]
  | cons o rest iho ihr => intro ch; simp [annotL, iho, ihr]

theorem erase_annotObj (o : Obj) (ch : PChain) : (annotObj ch o).erase = o := by
  have := erase_annotL [o] ch
  simpa [annotL] using this

theorem includeScopeSel_eq (env : IncEnv) (fuel : Nat) (stack : List Path) (p : Str) (sub : Option Str)
    (line : Option Nat) : includeScopeSel env fuel stack p sub line = includeScope env fuel stack p sub line := by
  unfold includeScopeSel includeScope
  cases env.imported p with
  | none => rfl
  | some text =>
    simp only
    cases parseObjs text with
    | error e => rfl
    | ok src =>
      simp only
      cases fuel with
      | zero => rfl
      | succ f =>
        simp only
        cases processIncludes env f env.cwd stack src with
        | error e => rfl
        | ok expanded => cases sub <;> rfl

theorem map_map_R {α β γ : Type} (f : α → β) (g : β → γ) (x : R α) :
    (x.map f).map g = x.map (g ∘ f) := by
  cases x <;> rfl

theorem processListP_nil (env : IncEnv) (incl : Path → List Path → R (List PObj)) (fuel : Nat) (refdir : Path)
    (stack : List Path) (ch : PChain) : processListP env incl fuel refdir stack ch [] = .ok [] := by
  simp [processListP]

theorem processListP_cons (env : IncEnv) (incl : Path → List Path → R (List PObj)) (fuel : Nat) (refdir : Path)
    (stack : List Path) (ch : PChain) (o : Obj) (rest : List Obj) :
    processListP env incl fuel refdir stack ch (o :: rest) =
      match processObjP env incl fuel refdir stack ch o with
      | .error e => .error e
      | .ok l => (processListP env incl fuel refdir stack ch rest).map (fun r => l ++ r) := by
  simp only [processListP]
  cases processObjP env incl fuel refdir stack ch o <;> rfl

theorem processObjP_defn (env : IncEnv) (incl : Path → List Path → R (List PObj)) (fuel : Nat) (refdir : Path)
    (stack : List Path) (ch : PChain) (m : Meta) (ws : List Word) :
    processObjP env incl fuel refdir stack ch (.defn m ws) =
    if m.disabled then .ok [.defn m ws ch]
    else if m.name != "include".toList then .ok [.defn m ws ch]
    else if containsDollar ws then .error (.unsupported "variable in include")
    else if ws.length < 2 then .error (.runtime "include_two_arguments" m.line)
    else
      if lower (ws.headD default).value == "file".toList then
        if ws.length != 2 then .error (.runtime "include_file_one_argument" m.line)
        else incl (resolvePath refdir (ws.getD 1 default).value) stack
      else if lower (ws.headD default).value == "scope".toList then
        if ws.length > 3 then .error (.runtime "include_scope_arguments" m.line)
        else
          (includeScopeSel env fuel stack (ws.getD 1 default).value
            (if ws.length == 2 then none else some (ws.getD 2 default).value) m.line).map (annotL ch)
      else .error (.runtime "unknown_include_type" m.line) := by
  simp only [processObjP]

theorem processObjP_scope (env : IncEnv) (incl : Path → List Path → R (List PObj)) (fuel : Nat) (refdir : Path)
    (stack : List Path) (ch : PChain) (m : Meta) (kids : List Obj) :
    processObjP env incl fuel refdir stack ch (.scope m kids) =
    if m.disabled then .ok [annotObj ch (.scope m kids)]
    else
      (processListP env incl fuel refdir stack ({ name := m.name, objs := kids } :: ch) kids).map
        (fun ks => [PObj.scope { m with tmpl := 0 } ks ch]) := by
  simp only [processObjP]

/-- the action of an `include file` statement at the fuel level `fuel` of `processIncludes` -/
def inclAt (env : IncEnv) (fuel : Nat) (p : Path) (s : List Path) : R (List Obj) :=
  match fuel with
  | 0 => .error .outOfFuel
  | f + 1 => expandFile env (f + 1) p s

theorem processListP_erase (env : IncEnv) (incl : Path → List Path → R (List PObj)) (fuel : Nat)
    (hincl : ∀ p s, (incl p s).map eraseL = inclAt env fuel p s)
    (refdir : Path) (stack : List Path) (objs : List Obj) :
    ∀ ch, (processListP env incl fuel refdir stack ch objs).map eraseL
      = processIncludes env fuel refdir stack objs := by
  induction objs using Obj.rec_1
    (motive_1 := fun o => ∀ ch, (processObjP env incl fuel refdir stack ch o).map eraseL
      = includeHere env fuel refdir stack o) with
  | defn m ws =>
    rename_i ch
    rw [processObjP_defn]
    unfold includeHere
    simp only [Obj.meta]
    by_cases hd : m.disabled = true
    · simp only [hd, ↓reduceIte, Except.map, eraseL_cons, eraseL_nil, PObj.erase_defn]
    · simp only [hd, Bool.false_eq_true, ↓reduceIte]
      by_cases hn : (m.name != "include".toList) = true
      · simp only [hn, ↓reduceIte, Except.map, eraseL_cons, eraseL_nil, PObj.erase_defn]
      · simp only [hn, Bool.false_eq_true, ↓reduceIte]
        by_cases h1 : containsDollar ws = true
        · simp [h1, Except.map]
        · simp only [h1, Bool.false_eq_true, ↓reduceIte]
          by_cases h2 : ws.length < 2
          · simp [h2, Except.map]
          · simp only [h2, ↓reduceIte]
            by_cases h3 : (lower (ws.headD default).value == "file".toList) = true
            · simp only [h3, ↓reduceIte]
              by_cases h4 : (ws.length != 2) = true
              · simp [h4, Except.map]
              · simp only [h4, Bool.false_eq_true, ↓reduceIte]
                rw [hincl]
                cases fuel <;> rfl
            · simp only [h3, Bool.false_eq_true, ↓reduceIte]
              by_cases h5 : (lower (ws.headD default).value == "scope".toList) = true
              · simp only [h5, ↓reduceIte]
                by_cases h6 : ws.length > 3
                · simp [h6, Except.map]
                · simp only [h6, ↓reduceIte]
                  rw [map_map_R, includeScopeSel_eq]
                  have : (eraseL ∘ annotL ch) = id := by
                    funext l; simp [erase_annotL]
                  rw [this]
                  cases includeScope env fuel stack (ws.getD 1 default).value
                    (if (ws.length == 2) = true then none else some (ws.getD 2 default).value) m.line <;> rfl
              · simp only [h5, Bool.false_eq_true, ↓reduceIte, Except.map]
  | scope m kids ih =>
    rename_i ch
    rw [processObjP_scope]
    unfold includeHere
    simp only [Obj.meta]
    by_cases hd : m.disabled = true
    · simp only [hd, ↓reduceIte, Except.map, eraseL_cons, eraseL_nil, erase_annotObj]
    · simp only [hd, Bool.false_eq_true, ↓reduceIte]
      rw [map_map_R, ← ih ({ name := m.name, objs := kids } :: ch), map_map_R]
      cases processListP env incl fuel refdir stack ({ name := m.name, objs := kids } :: ch) kids <;>
        simp [Except.map]
  | nil => intro ch; rw [processIncludes_nil, processListP_nil]; rfl
  | cons o rest iho ihr =>
    intro ch
    rw [processIncludes_cons, ← iho ch, ← ihr ch, processListP_cons]
    cases processObjP env incl fuel refdir stack ch o with
    | error e => rfl
    | ok l =>
      simp only
      cases processListP env incl fuel refdir stack ch rest with
      | error e => rfl
      | ok r => simp [Except.map, eraseL_append]

theorem expandFileP_erase (env : IncEnv) : ∀ (fuel : Nat) (path : Path) (stack : List Path),
    (expandFileP env fuel path stack).map eraseL = expandFile env fuel path stack := by
  intro fuel
  induction fuel with
  | zero => intro path stack; rw [expandFile_zero]; rfl
  | succ fuel ih =>
    intro path stack
    rw [expandFile_succ]
    unfold expandFileP
    cases env.fs.read path with
    | none => rfl
    | some text =>
      simp only
      cases parseObjs text with
      | error e => rfl
      | ok objs =>
        simp only
        cases hc : stack.contains path with
        | true => simp only [↓reduceIte]; rfl
        | false =>
          simp only [Bool.false_eq_true, ↓reduceIte]
          apply processListP_erase
          intro p s
          cases fuel with
          | zero => rfl
          | succ f => exact ih p s

/-! ### the include statements: what is spliced -/

/-- `parse(file_name=…, process_includes=True)` as called from `process_includes` at fuel level `fuel` -/
def inclPAt (env : IncEnv) (fuel : Nat) (p : Path) (s : List Path) : R (List PObj) :=
  match fuel with
  | 0 => .error .outOfFuel
  | _ + 1 => expandFileP env fuel p s

theorem expandFileP_succ (env : IncEnv) (fuel : Nat) (path : Path) (stack : List Path) :
    expandFileP env (fuel + 1) path stack =
      match env.fs.read path with
      | none => .error (.stray "FileNotFoundError" "open")
      | some text =>
        match parseObjs text with
        | .error e => .error e
        | .ok objs =>
          if stack.contains path then .error (.runtime "include_cycle" none)
          else processListP env (inclPAt env fuel) fuel path.dropLast (stack ++ [path]) (rootChain objs) objs := by
  rw [expandFileP]
  rfl

/-- a well-formed `include file` statement contributes what `incl` returns for the resolved name — whatever
    the parent chain `ch` of the statement is -/
theorem processObjP_include (env : IncEnv) (incl : Path → List Path → R (List PObj)) (fuel : Nat)
    (refdir : Path) (stack : List Path) (ch : PChain) (o : Obj) (name : Str)
    (h : includeTarget o = some name) :
    processObjP env incl fuel refdir stack ch o = incl (resolvePath refdir name) stack := by
  unfold includeTarget at h
  split at h
  · rename_i m w1 w2
    split at h
    · rename_i hc
      simp only [Bool.and_eq_true, Bool.not_eq_true', beq_iff_eq] at hc
      obtain ⟨⟨⟨hd, hn⟩, hdol⟩, hty⟩ := hc
      cases h
      rw [processObjP_defn]
      simp [hd, hn, hdol, hty]
    · cases h
  · cases h

/-- a well-formed `include scope p [q]` statement contributes the selection, linked below the parent chain
    of the statement (`change_primary_parent_scope`) -/
theorem processObjP_scopeTarget (env : IncEnv) (incl : Path → List Path → R (List PObj)) (fuel : Nat)
    (refdir : Path) (stack : List Path) (ch : PChain) (o : Obj) (p : Str) (sub : Option Str)
    (h : scopeTarget o = some (p, sub)) :
    processObjP env incl fuel refdir stack ch o =
      (includeScope env fuel stack p sub o.meta.line).map (annotL ch) := by
  unfold scopeTarget at h
  split at h
  · rename_i m w1 w2 tl
    split at h
    · rename_i hc
      simp only [Bool.and_eq_true, Bool.not_eq_true', beq_iff_eq, decide_eq_true_eq] at hc
      obtain ⟨⟨⟨⟨hd, hn⟩, hdol⟩, hty⟩, hlen⟩ := hc
      simp only [Option.some.injEq, Prod.mk.injEq] at h
      obtain ⟨h1, h2⟩ := h
      subst h1 h2
      rw [processObjP_defn, includeScopeSel_eq]
      have hnf : (lower w1.value == "file".toList) = false := by
        rw [hty]; decide
      have hl : ¬ (tl.length + 1 + 1 > 3) := by omega
      cases tl with
      | nil => simp [hd, hn, hdol, hty, hnf, Obj.meta]
      | cons w3 tl' =>
        have : tl' = [] := by
          cases tl' with
          | nil => rfl
          | cons _ _ => simp at hlen
        subst this
        simp [hd, hn, hdol, hty, hnf, Obj.meta]
    · cases h
  · cases h

/-! ### full paths -/

/-- what `full_path` makes of one more scope name on the way up -/
def pushName (n : Str) (up : List Str) : List Str := if n.isEmpty then [] else n :: up

mutual
/-- `full_path()` of every object of a consistently linked tree (a parsed text), document order; `up` are the
    names `full_path` collects above the list (innermost first) -/
def pathsUnderObj (up : List Str) : Obj → List Str
  | .defn m _ => [joinWith ['.'] ((m.name :: up).reverse)]
  | .scope m kids => joinWith ['.'] ((m.name :: up).reverse) :: pathsUnder (pushName m.name up) kids
def pathsUnder (up : List Str) : List Obj → List Str
  | [] => []
  | o :: os => pathsUnderObj up o ++ pathsUnder up os
end

@[simp] theorem fullPathsP_nil : fullPathsP [] = [] := by simp [fullPathsP]
@[simp] theorem fullPathsP_cons (o : PObj) (os : List PObj) :
    fullPathsP (o :: os) = fullPathsObjP o ++ fullPathsP os := by simp [fullPathsP]
@[simp] theorem fullPathsObjP_defn (m : Meta) (ws : List Word) (p : PChain) :
    fullPathsObjP (.defn m ws p) = [fullPathOf m.name p] := by simp [fullPathsObjP]
@[simp] theorem fullPathsObjP_scope (m : Meta) (kids : List PObj) (p : PChain) :
    fullPathsObjP (.scope m kids p) = fullPathOf m.name p :: fullPathsP kids := by simp [fullPathsObjP]
@[simp] theorem pathsUnder_nil (up : List Str) : pathsUnder up [] = [] := by simp [pathsUnder]
@[simp] theorem pathsUnder_cons (up : List Str) (o : Obj) (os : List Obj) :
    pathsUnder up (o :: os) = pathsUnderObj up o ++ pathsUnder up os := by simp [pathsUnder]
@[simp] theorem pathsUnderObj_defn (up : List Str) (m : Meta) (ws : List Word) :
    pathsUnderObj up (.defn m ws) = [joinWith ['.'] ((m.name :: up).reverse)] := by simp [pathsUnderObj]
@[simp] theorem pathsUnderObj_scope (up : List Str) (m : Meta) (kids : List Obj) :
    pathsUnderObj up (.scope m kids) =
      joinWith ['.'] ((m.name :: up).reverse) :: pathsUnder (pushName m.name up) kids := by
  simp [pathsUnderObj]

theorem fullPathsP_append (a b : List PObj) : fullPathsP (a ++ b) = fullPathsP a ++ fullPathsP b := by
  induction a with
  | nil => simp
  | cons o os ih => simp [ih]

theorem pathsUnder_append (up : List Str) (a b : List Obj) :
    pathsUnder up (a ++ b) = pathsUnder up a ++ pathsUnder up b := by
  induction a with
  | nil => simp
  | cons o os ih => simp [ih]

theorem climbNames_cons (n : Str) (k : List Obj) (ch : PChain) :
    climbNames ({ name := n, objs := k } :: ch) = pushName n (climbNames ch) := by
  simp [climbNames, pushName]

/-- inside one consistently linked tree, `full_path()` is the path from the root -/
theorem fullPathsP_annotL (objs : List Obj) :
    ∀ ch, fullPathsP (annotL ch objs) = pathsUnder (climbNames ch) objs := by
  induction objs using Obj.rec_1
    (motive_1 := fun o => ∀ ch, fullPathsObjP (annotObj ch o) = pathsUnderObj (climbNames ch) o) with
  | defn m ws => simp [annotObj, fullPathOf]
  | scope m kids ih => simp [annotObj, fullPathOf, ih, climbNames_cons]
  | nil => intro ch; simp [annotL]
  | cons o rest iho ihr => intro ch; simp [annotL, iho, ihr]

/-- a list of linked objects all of whose `full_path()`s are the paths read off the tree below `up` -/
def PathsRight (up : List Str) (l : List PObj) : Prop := fullPathsP l = pathsUnder up (eraseL l)

theorem PathsRight.append {up : List Str} {a b : List PObj} (ha : PathsRight up a) (hb : PathsRight up b) :
    PathsRight up (a ++ b) := by
  unfold PathsRight at *
  rw [fullPathsP_append, eraseL_append, pathsUnder_append, ha, hb]

theorem pathsRight_annotL (ch : PChain) (objs : List Obj) : PathsRight (climbNames ch) (annotL ch objs) := by
  unfold PathsRight
  rw [fullPathsP_annotL, erase_annotL]

/-- a checked, well-formed `include file` statement is an `includeTarget` -/
theorem includeTarget_of_checks (m : Meta) (ws : List Word) (hd : ¬ m.disabled = true)
    (hn : ¬ (m.name != "include".toList) = true) (h1 : ¬ containsDollar ws = true)
    (h3 : (lower (ws.headD default).value == "file".toList) = true) (h4 : ¬ (ws.length != 2) = true) :
    ∃ name, includeTarget (.defn m ws) = some name := by
  have hl : ws.length = 2 := by simpa using h4
  match ws, hl with
  | [w1, w2], _ =>
    refine ⟨w2.value, ?_⟩
    simp only [List.headD_cons, beq_iff_eq] at h3
    simp only [bne_iff_ne, ne_eq, Decidable.not_not] at hn
    simp only [Bool.not_eq_true] at hd h1
    simp [includeTarget, hd, hn, h1, h3]

/-- without `include file` statements (at any depth) every object is linked consistently below the chain of
    the list: all full paths are right (`include scope` re-parents) -/
theorem processListP_pathsRight (env : IncEnv) (incl : Path → List Path → R (List PObj)) (fuel : Nat)
    (refdir : Path) (stack : List Path) (objs : List Obj) :
    ∀ ch r, includeTargets objs = [] → processListP env incl fuel refdir stack ch objs = .ok r →
      PathsRight (climbNames ch) r := by
  induction objs using Obj.rec_1
    (motive_1 := fun o => ∀ ch r, includeTargetsObj o = [] →
      processObjP env incl fuel refdir stack ch o = .ok r → PathsRight (climbNames ch) r) with
  | defn m ws =>
    rename_i ch r ht h
    rw [processObjP_defn] at h
    by_cases hd : m.disabled = true
    · simp only [hd, ↓reduceIte, Except.ok.injEq] at h
      subst h; simp [PathsRight, fullPathOf]
    · simp only [hd, Bool.false_eq_true, ↓reduceIte] at h
      by_cases hn : (m.name != "include".toList) = true
      · simp only [hn, ↓reduceIte, Except.ok.injEq] at h
        subst h; simp [PathsRight, fullPathOf]
      · simp only [hn, Bool.false_eq_true, ↓reduceIte] at h
        by_cases h1 : containsDollar ws = true
        · simp [h1] at h
        · simp only [h1, Bool.false_eq_true, ↓reduceIte] at h
          by_cases h2 : ws.length < 2
          · simp [h2] at h
          · simp only [h2, ↓reduceIte] at h
            by_cases h3 : (lower (ws.headD default).value == "file".toList) = true
            · simp only [h3, ↓reduceIte] at h
              by_cases h4 : (ws.length != 2) = true
              · simp [h4] at h
              · obtain ⟨name, hname⟩ := includeTarget_of_checks m ws hd hn h1 h3 h4
                simp [includeTargetsObj, hname] at ht
            · simp only [h3, Bool.false_eq_true, ↓reduceIte] at h
              by_cases h5 : (lower (ws.headD default).value == "scope".toList) = true
              · simp only [h5, ↓reduceIte] at h
                by_cases h6 : ws.length > 3
                · simp [h6] at h
                · simp only [h6, ↓reduceIte] at h
                  cases hs : includeScopeSel env fuel stack (ws.getD 1 default).value
                    (if (ws.length == 2) = true then none else some (ws.getD 2 default).value) m.line with
                  | error e => rw [hs] at h; cases h
                  | ok sel =>
                    rw [hs] at h
                    simp only [Except.map, Except.ok.injEq] at h
                    subst h
                    exact pathsRight_annotL ch sel
              · simp only [h5, Bool.false_eq_true, ↓reduceIte] at h
                cases h
  | scope m kids ih =>
    rename_i ch r ht h
    rw [processObjP_scope] at h
    by_cases hd : m.disabled = true
    · simp only [hd, ↓reduceIte, Except.ok.injEq] at h
      subst h
      exact pathsRight_annotL ch [.scope m kids]
    · simp only [hd, Bool.false_eq_true, ↓reduceIte] at h
      simp only [includeTargetsObj, hd, Bool.false_eq_true, ↓reduceIte] at ht
      cases hk : processListP env incl fuel refdir stack ({ name := m.name, objs := kids } :: ch) kids with
      | error e => rw [hk] at h; cases h
      | ok ks =>
        rw [hk] at h
        simp only [Except.map, Except.ok.injEq] at h
        subst h
        have := ih _ ks ht hk
        unfold PathsRight at this ⊢
        rw [climbNames_cons] at this
        simp [fullPathOf, this]
  | nil =>
    intro ch r _ h
    rw [processListP_nil] at h
    cases h
    simp [PathsRight]
  | cons o rest iho ihr =>
    intro ch r ht h
    rw [processListP_cons] at h
    simp only [includeTargets, List.append_eq_nil_iff] at ht
    cases ho : processObjP env incl fuel refdir stack ch o with
    | error e => rw [ho] at h; cases h
    | ok l =>
      rw [ho] at h
      simp only at h
      cases hr : processListP env incl fuel refdir stack ch rest with
      | error e => rw [hr] at h; cases h
      | ok r' =>
        rw [hr] at h
        simp only [Except.map, Except.ok.injEq] at h
        subst h
        exact (iho ch l ht.1 ho).append (ihr ch r' ht.2 hr)

theorem processObjP_pathsRight (env : IncEnv) (incl : Path → List Path → R (List PObj)) (fuel : Nat)
    (refdir : Path) (stack : List Path) (o : Obj) (ch : PChain) (r : List PObj)
    (ht : includeTargetsObj o = []) (h : processObjP env incl fuel refdir stack ch o = .ok r) :
    PathsRight (climbNames ch) r := by
  have := processListP_pathsRight env incl fuel refdir stack [o] ch (r ++ [])
    (by simp [includeTargets, ht]) (by rw [processListP_cons, h, processListP_nil]; rfl)
  simpa using this

/-- every object of the list is an `include file` statement or contains none: the text places its
    `include file` statements at top level only -/
def includesAtTop (objs : List Obj) : Bool :=
  objs.all fun o => (includeTarget o).isSome || (includeTargetsObj o).isEmpty

/-- top level of a file: if the included files' objects have right paths, so has the result -/
theorem processListP_top_pathsRight (env : IncEnv) (incl : Path → List Path → R (List PObj)) (fuel : Nat)
    (hincl : ∀ p s r, incl p s = .ok r → PathsRight [] r)
    (refdir : Path) (stack : List Path) (ch : PChain) (hch : climbNames ch = []) (objs : List Obj) :
    ∀ r, includesAtTop objs = true → processListP env incl fuel refdir stack ch objs = .ok r →
      PathsRight [] r := by
  induction objs with
  | nil =>
    intro r _ h
    rw [processListP_nil] at h
    cases h
    simp [PathsRight]
  | cons o rest ih =>
    intro r ht h
    rw [processListP_cons] at h
    simp only [includesAtTop, List.all_cons, Bool.and_eq_true, Bool.or_eq_true] at ht
    cases ho : processObjP env incl fuel refdir stack ch o with
    | error e => rw [ho] at h; cases h
    | ok l =>
      rw [ho] at h
      simp only at h
      cases hr : processListP env incl fuel refdir stack ch rest with
      | error e => rw [hr] at h; cases h
      | ok r' =>
        rw [hr] at h
        simp only [Except.map, Except.ok.injEq] at h
        subst h
        refine PathsRight.append ?_ (ih r' (by simpa [includesAtTop] using ht.2) hr)
        rcases ht.1 with hi | hn
        · obtain ⟨name, hname⟩ := Option.isSome_iff_exists.mp hi
          rw [processObjP_include env incl fuel refdir stack ch o name hname] at ho
          exact hincl _ _ _ ho
        · have := processObjP_pathsRight env incl fuel refdir stack o ch l (by simpa using hn) ho
          rwa [hch] at this

/-- the files of `env` place their `include file` statements at top level only -/
def TopLevelIncludes (env : IncEnv) : Prop :=
  ∀ pt ∈ env.fs, ∀ objs, parseObjs pt.2 = .ok objs → includesAtTop objs = true

theorem expandFileP_pathsRight (env : IncEnv) (htop : TopLevelIncludes env) :
    ∀ (fuel : Nat) (path : Path) (stack : List Path) (r : List PObj),
      expandFileP env fuel path stack = .ok r → PathsRight [] r := by
  intro fuel
  induction fuel with
  | zero => intro path stack r h; simp [expandFileP] at h
  | succ fuel ih =>
    intro path stack r h
    rw [expandFileP_succ] at h
    cases hrd : env.fs.read path with
    | none => rw [hrd] at h; cases h
    | some text =>
      rw [hrd] at h
      simp only at h
      cases hp : parseObjs text with
      | error e => rw [hp] at h; cases h
      | ok objs =>
        rw [hp] at h
        simp only at h
        cases hc : stack.contains path with
        | true => rw [hc] at h; simp at h
        | false =>
          rw [hc] at h
          simp only [Bool.false_eq_true, ↓reduceIte] at h
          refine processListP_top_pathsRight env (inclPAt env fuel) fuel ?_ _ _ (rootChain objs)
            (by simp [rootChain, climbNames]) objs r (htop _ (FS.read_some_mem hrd) objs hp) h
          intro p s r' h'
          cases fuel with
          | zero => simp [inclPAt] at h'
          | succ f => exact ih p s r' h'

end Phil
