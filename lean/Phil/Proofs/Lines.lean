/-
  Lemmas behind C15: every tokenizer primitive keeps `line = start line + newlines consumed`,
  and the line stored in a word is the line of the word's first character.
-/
import Phil.Tok
import Phil.Proofs.Quote
set_option linter.unusedSimpArgs false
set_option linter.unusedVariables false
namespace Phil

/-! ### counting newlines -/

@[simp] theorem nlCount_nil : nlCount [] = 0 := rfl

theorem nlCount_append (a b : Str) : nlCount (a ++ b) = nlCount a + nlCount b := by
  simp [nlCount, List.count_append]

theorem nlCount_cons_nl (s : Str) : nlCount ('\n' :: s) = nlCount s + 1 := by
  simp [nlCount, List.count_cons]

theorem nlCount_cons_ne (c : Char) (s : Str) (h : c ≠ '\n') : nlCount (c :: s) = nlCount s := by
  simp [nlCount, List.count_cons, h]

theorem nlCount_cons (c : Char) (s : Str) : nlCount (c :: s) = nlCount [c] + nlCount s :=
  nlCount_append [c] s

theorem nlCount_take_drop (n : Nat) (s : Str) :
    nlCount s = nlCount (s.take n) + nlCount (s.drop n) := by
  rw [← nlCount_append, List.take_append_drop]

theorem isSpace_nl : isSpace '\n' = true := by rfl

theorem ne_nl_of_not_space {c : Char} (h : isSpace c = false) : c ≠ '\n' := by
  intro hc; subst hc; rw [isSpace_nl] at h; cases h

theorem bump_not_space {c : Char} (h : isSpace c = false) (l : Nat) : bump c l = l := by
  have := ne_nl_of_not_space h
  simp [bump, this]

theorem bump_cons (c : Char) (l : Nat) (k : Str) : bump c l + nlCount k = l + nlCount (c :: k) := by
  rw [bump_eq, nlCount_cons c k]; omega

/-! ### the quoted scanner -/

/-- Item 1 (success): the quoted scanner consumes a prefix of its input and advances the counter by
    exactly the newlines of that prefix.  Hypothesis `q ≠ '\n'` is necessary (see file footer). -/
theorem scanQ_line (q : Char) (hq : q ≠ '\n') (triple : Bool) :
    ∀ (cs : Str) (esc : Bool) (line : Nat) (acc v rest : Str) (line' : Nat),
      scanQ q triple esc cs line acc = .ok (v, rest, line') →
      ∃ consumed, cs = consumed ++ rest ∧ line' = line + nlCount consumed := by
  intro cs
  induction cs with
  | nil => intro esc line acc v rest line' h; cases esc <;> simp [scanQ] at h
  | cons c cs ih =>
    intro esc line acc v rest line' h
    have step_ne : c ≠ '\n' → ∀ e a, scanQ q triple e cs line a = .ok (v, rest, line') →
        ∃ consumed, c :: cs = consumed ++ rest ∧ line' = line + nlCount consumed := by
      intro hc e a h'
      obtain ⟨k, hk, hl⟩ := ih e line a v rest line' h'
      exact ⟨c :: k, by rw [hk]; rfl, by rw [nlCount_cons_ne c k hc]; exact hl⟩
    have hbs : ('\\' : Char) ≠ '\n' := by decide
    cases esc with
    | true =>
      simp only [scanQ] at h
      split at h
      · rename_i h1
        have : c = '\\' := by simpa using h1
        exact step_ne (this ▸ hbs) _ _ h
      · split at h
        · rename_i h1 h2
          have : c = q := by simpa using h2
          exact step_ne (this ▸ hq) _ _ h
        · split at h
          · rename_i h3
            have : c = '\n' := by simpa using h3
            subst this
            obtain ⟨k, hk, hl⟩ := ih _ _ _ _ _ _ h
            exact ⟨'\n' :: k, by rw [hk]; rfl, by rw [nlCount_cons_nl]; omega⟩
          · rename_i h3
            have : c ≠ '\n' := by simpa using h3
            exact step_ne this _ _ h
    | false =>
      simp only [scanQ] at h
      split at h
      · rename_i h1
        have hcq : c = q := by simpa using h1
        have hcn : c ≠ '\n' := hcq ▸ hq
        split at h
        · simp only [Except.ok.injEq, Prod.mk.injEq] at h
          obtain ⟨_, h2, h3⟩ := h
          exact ⟨[c], by rw [h2]; rfl, by rw [nlCount_cons_ne c [] hcn, ← h3]; rfl⟩
        · split at h
          · split at h
            · rename_i a b cs' hab
              simp only [Except.ok.injEq, Prod.mk.injEq] at h
              obtain ⟨_, h2, h3⟩ := h
              have hab' : a = q ∧ b = q := by simpa using hab
              refine ⟨[c, a, b], by rw [h2]; rfl, ?_⟩
              rw [nlCount_cons_ne c _ hcn, nlCount_cons_ne a _ (hab'.1 ▸ hq),
                nlCount_cons_ne b _ (hab'.2 ▸ hq), ← h3]; rfl
            · exact step_ne hcn _ _ h
          · exact step_ne hcn _ _ h
      · split at h
        · rename_i h1 h2
          have : c = '\\' := by simpa using h2
          exact step_ne (this ▸ hbs) _ _ h
        · obtain ⟨k, hk, hl⟩ := ih _ _ _ _ _ _ h
          exact ⟨c :: k, by rw [hk]; rfl, by rw [hl, bump_cons]⟩

/-- Item 1 (error): "missing closing quote" cites the line at the end of the input. -/
theorem scanQ_error_line (q : Char) (hq : q ≠ '\n') (triple : Bool) :
    ∀ (cs : Str) (esc : Bool) (line : Nat) (acc : Str) (l : Nat),
      scanQ q triple esc cs line acc = .error l → l = line + nlCount cs := by
  intro cs
  induction cs with
  | nil =>
    intro esc line acc l h
    cases esc <;> simp [scanQ] at h <;> simp [h]
  | cons c cs ih =>
    intro esc line acc l h
    have step_ne : c ≠ '\n' → ∀ e a, scanQ q triple e cs line a = .error l →
        l = line + nlCount (c :: cs) := by
      intro hc e a h'
      rw [nlCount_cons_ne c cs hc]; exact ih e line a l h'
    have hbs : ('\\' : Char) ≠ '\n' := by decide
    cases esc with
    | true =>
      simp only [scanQ] at h
      split at h
      · rename_i h1
        have : c = '\\' := by simpa using h1
        exact step_ne (this ▸ hbs) _ _ h
      · split at h
        · rename_i h1 h2
          have : c = q := by simpa using h2
          exact step_ne (this ▸ hq) _ _ h
        · split at h
          · rename_i h3
            have : c = '\n' := by simpa using h3
            subst this
            have := ih _ _ _ _ h
            rw [nlCount_cons_nl]; omega
          · rename_i h3
            have : c ≠ '\n' := by simpa using h3
            exact step_ne this _ _ h
    | false =>
      simp only [scanQ] at h
      split at h
      · rename_i h1
        have hcq : c = q := by simpa using h1
        have hcn : c ≠ '\n' := hcq ▸ hq
        split at h
        · cases h
        · split at h
          · split at h
            · cases h
            · exact step_ne hcn _ _ h
          · exact step_ne hcn _ _ h
      · split at h
        · rename_i h1 h2
          have : c = '\\' := by simpa using h2
          exact step_ne (this ▸ hbs) _ _ h
        · have := ih _ _ _ _ h
          rw [this, bump_cons]

/-! ### the unquoted scanner -/

theorem not_nl_of_not_endsUnquoted {s : Settings} {c : Char} (h : endsUnquoted s c = false) :
    c ≠ '\n' := by
  apply ne_nl_of_not_space
  unfold endsUnquoted at h
  cases hs : isSpace c
  · rfl
  · rw [hs] at h; simp at h

/-- Item 2: an unquoted word never contains a newline. -/
theorem scanU_line (s : Settings) :
    ∀ (cs acc v rest : Str), scanU s cs acc = (v, rest) →
      ∃ consumed, cs = consumed ++ rest ∧ nlCount consumed = 0 ∧ v = acc.reverse ++ consumed := by
  intro cs
  induction cs with
  | nil =>
    intro acc v rest h
    simp only [scanU, Prod.mk.injEq] at h
    exact ⟨[], by rw [← h.2]; rfl, rfl, by rw [← h.1]; simp⟩
  | cons c cs ih =>
    intro acc v rest h
    simp only [scanU] at h
    split at h
    · simp only [Prod.mk.injEq] at h
      exact ⟨[], by rw [← h.2]; rfl, rfl, by rw [← h.1]; simp⟩
    · rename_i he
      have he' : endsUnquoted s c = false := by simpa using he
      obtain ⟨k, hk, hn, hv⟩ := ih _ _ _ h
      refine ⟨c :: k, by rw [hk]; rfl, ?_, ?_⟩
      · rw [nlCount_cons_ne c k (not_nl_of_not_endsUnquoted he')]; exact hn
      · rw [hv]; simp

/-! ### one word -/

theorem isTripleOpen_true {c : Char} {cs : Str} (h : isTripleOpen c cs = true) :
    cs = c :: c :: cs.drop 2 := by
  match cs, h with
  | a :: b :: cs', h =>
    have : a = c ∧ b = c := by simpa [isTripleOpen] using h
    rw [this.1, this.2]; rfl

theorem quote_ne_nl {c : Char} (h : (c == '"' || c == '\'') = true) : c ≠ '\n' := by
  intro hc; subst hc; revert h; decide

/-- Item 3: the word starting at `c` records the line passed in (the line of `c`), consumes a prefix
    of the following text and counts its newlines. -/
theorem wordAt_line (s : Settings) (c : Char) (cs : Str) (line : Nat) (w : Word) (rest : Str)
    (line' : Nat) (h : wordAt s c cs line = .ok (w, ⟨rest, line'⟩)) :
    w.line = some line ∧ ∃ consumed, cs = consumed ++ rest ∧ line' = line + nlCount consumed := by
  unfold wordAt at h
  split at h
  · rename_i hquote
    have hcn := quote_ne_nl hquote
    simp only at h
    split at h
    · cases h
    · rename_i v rest0 line0 hs
      simp only [Except.ok.injEq, Prod.mk.injEq, CI.mk.injEq] at h
      obtain ⟨hw, hr, hl⟩ := h
      subst hw hr hl
      refine ⟨rfl, ?_⟩
      obtain ⟨k, hk, hl⟩ := scanQ_line c hcn _ _ _ _ _ _ _ _ hs
      cases ht : isTripleOpen c cs
      · rw [ht] at hk
        exact ⟨k, by simpa using hk, hl⟩
      · rw [ht] at hk
        have hcs := isTripleOpen_true ht
        simp only [↓reduceIte] at hk
        refine ⟨c :: c :: k, ?_, ?_⟩
        · rw [hcs, hk]; simp
        · rw [nlCount_cons_ne c _ hcn, nlCount_cons_ne c _ hcn]; exact hl
  · split at h
    · generalize hu : scanU s cs [c] = p at h
      obtain ⟨v, r⟩ := p
      simp only [Except.ok.injEq, Prod.mk.injEq, CI.mk.injEq] at h
      obtain ⟨hw, hr, hl⟩ := h
      subst hw hr hl
      obtain ⟨k, hk, hn, _⟩ := scanU_line s _ _ _ _ hu
      exact ⟨rfl, k, hk, by rw [hn]; rfl⟩
    · simp only [Except.ok.injEq, Prod.mk.injEq, CI.mk.injEq] at h
      obtain ⟨hw, hr, hl⟩ := h
      subst hw hr hl
      exact ⟨rfl, [], rfl, rfl⟩

theorem wordAt_error_line (s : Settings) (c : Char) (cs : Str) (line l : Nat)
    (h : wordAt s c cs line = .error (.missingClosingQuote l)) :
    l = line + nlCount cs := by
  unfold wordAt at h
  split at h
  · rename_i hquote
    have hcn := quote_ne_nl hquote
    simp only at h
    split at h
    · rename_i l0 hs
      simp only [Except.error.injEq, TokErr.missingClosingQuote.injEq] at h
      subst h
      have hl := scanQ_error_line c hcn _ _ _ _ _ _ hs
      cases ht : isTripleOpen c cs
      · rw [ht] at hl; simpa using hl
      · rw [ht] at hl
        have hcs := isTripleOpen_true ht
        simp only [↓reduceIte] at hl
        rw [hcs, nlCount_cons_ne c _ hcn, nlCount_cons_ne c _ hcn]; exact hl
    · cases h
  · split at h
    · generalize hu : scanU s cs [c] = p at h
      obtain ⟨v, r⟩ := p
      cases h
    · cases h

/-! ### the word iterator -/

/-- Item 4, strong form: the input splits into skipped blanks/comments `pre`, the word's first
    character `c` (not a space, hence not a newline), the remaining characters `tail` of the word and
    the untouched `rest`; the word is the one `wordAt` reads at `c` with the counter at the line of
    `c`; that line is recorded in the word. -/
theorem nextWordAux_line_strong (s : Settings) :
    ∀ (cs : Str) (b : Bool) (line : Nat) (w : Word) (rest : Str) (line' : Nat),
      nextWordAux s b cs line = .ok (some (w, ⟨rest, line'⟩)) →
      ∃ (pre : Str) (c : Char) (tail : Str),
        cs = pre ++ c :: tail ++ rest ∧ isSpace c = false ∧
        wordAt s c (tail ++ rest) (line + nlCount pre) = .ok (w, ⟨rest, line'⟩) ∧
        w.line = some (line + nlCount pre) ∧
        line' = line + nlCount (pre ++ c :: tail) := by
  intro cs
  induction cs with
  | nil => intro b line w rest line' h; cases b <;> simp [nextWordAux] at h
  | cons c cs ih =>
    intro b line w rest line' h
    -- skipping one character `c` that moves the counter from `line` to `line1`
    have skip : ∀ (b1 : Bool) (line1 : Nat), (∀ k, line1 + nlCount k = line + nlCount (c :: k)) →
        nextWordAux s b1 cs line1 = .ok (some (w, ⟨rest, line'⟩)) →
        ∃ (pre : Str) (c0 : Char) (tail : Str),
          c :: cs = pre ++ c0 :: tail ++ rest ∧ isSpace c0 = false ∧
          wordAt s c0 (tail ++ rest) (line + nlCount pre) = .ok (w, ⟨rest, line'⟩) ∧
          w.line = some (line + nlCount pre) ∧
          line' = line + nlCount (pre ++ c0 :: tail) := by
      intro b1 line1 hl h'
      obtain ⟨pre, c0, tail, hcs, hsp, hw, hwl, hl'⟩ := ih b1 line1 w rest line' h'
      refine ⟨c :: pre, c0, tail, by rw [hcs]; rfl, hsp, ?_, ?_, ?_⟩
      · rw [← hl]; exact hw
      · rw [← hl]; exact hwl
      · rw [hl', List.cons_append, hl]
    cases b with
    | true =>
      simp only [nextWordAux] at h
      split at h
      · rename_i h1
        have : c = '\n' := by simpa using h1
        subst this
        exact skip _ _ (fun k => by rw [nlCount_cons_nl]; omega) h
      · rename_i h1
        have : c ≠ '\n' := by simpa using h1
        exact skip _ _ (fun k => by rw [nlCount_cons_ne c k this]) h
    | false =>
      simp only [nextWordAux] at h
      split at h
      · exact skip _ _ (fun k => bump_cons c line k) h
      · rename_i hsp
        have hsp' : isSpace c = false := by simpa using hsp
        have hcn := ne_nl_of_not_space hsp'
        split at h
        · exact skip _ _ (fun k => by rw [nlCount_cons_ne c k hcn]) h
        · cases hw : wordAt s c cs line with
          | error e => rw [hw] at h; simp [Except.map] at h
          | ok p =>
            rw [hw] at h
            simp only [Except.map, Except.ok.injEq, Option.some.injEq] at h
            subst h
            obtain ⟨hwl, k, hk, hl⟩ := wordAt_line s c cs line w rest line' hw
            refine ⟨[], c, k, by rw [hk]; rfl, hsp', ?_, ?_, ?_⟩
            · rw [← hk]; exact hw
            · exact hwl
            · rw [List.nil_append, nlCount_cons_ne c k hcn]; exact hl

/-- Item 4: the recorded line of a word is the line of its first character, and the counter after
    the word is the start line plus all newlines consumed. -/
theorem nextWordAux_line (s : Settings) (b : Bool) (cs : Str) (line : Nat) (w : Word) (rest : Str)
    (line' : Nat) (h : nextWordAux s b cs line = .ok (some (w, ⟨rest, line'⟩))) :
    ∃ pre body, cs = pre ++ body ++ rest ∧ body ≠ [] ∧ w.line = some (line + nlCount pre) ∧
      line' = line + nlCount (pre ++ body) := by
  obtain ⟨pre, c, tail, hcs, _, _, hwl, hl⟩ := nextWordAux_line_strong s cs b line w rest line' h
  exact ⟨pre, c :: tail, hcs, by simp, hwl, hl⟩

/-- Item 4 (error): "missing closing quote" raised by the word iterator cites the last line. -/
theorem nextWordAux_error_line (s : Settings) :
    ∀ (cs : Str) (b : Bool) (line l : Nat),
      nextWordAux s b cs line = .error (.missingClosingQuote l) → l = line + nlCount cs := by
  intro cs
  induction cs with
  | nil => intro b line l h; cases b <;> simp [nextWordAux] at h
  | cons c cs ih =>
    intro b line l h
    cases b with
    | true =>
      simp only [nextWordAux] at h
      split at h
      · rename_i h1
        have : c = '\n' := by simpa using h1
        subst this
        rw [ih _ _ _ h, nlCount_cons_nl]; omega
      · rename_i h1
        have : c ≠ '\n' := by simpa using h1
        rw [ih _ _ _ h, nlCount_cons_ne c cs this]
    | false =>
      simp only [nextWordAux] at h
      split at h
      · rw [ih _ _ _ h, bump_cons]
      · rename_i hsp
        have hsp' : isSpace c = false := by simpa using hsp
        have hcn := ne_nl_of_not_space hsp'
        split at h
        · rw [ih _ _ _ h, nlCount_cons_ne c cs hcn]
        · cases hw : wordAt s c cs line with
          | ok p => rw [hw] at h; simp [Except.map] at h
          | error e =>
            rw [hw] at h
            simp only [Except.map, Except.error.injEq] at h
            subst h
            rw [nlCount_cons_ne c cs hcn]
            exact wordAt_error_line s c cs line l hw

/-! ### scan_for_start -/

/-- reading from `(cs, line)` to `(rest, line')` consumes a prefix and counts exactly its newlines -/
def Consumes (cs : Str) (line : Nat) (rest : Str) (line' : Nat) : Prop :=
  ∃ consumed, cs = consumed ++ rest ∧ line' = line + nlCount consumed

theorem Consumes.refl (cs : Str) (line : Nat) : Consumes cs line cs line := ⟨[], rfl, rfl⟩

theorem Consumes.trans {a b c : Str} {l m n : Nat} (h1 : Consumes a l b m) (h2 : Consumes b m c n) :
    Consumes a l c n := by
  obtain ⟨k1, e1, f1⟩ := h1
  obtain ⟨k2, e2, f2⟩ := h2
  exact ⟨k1 ++ k2, by rw [e1, e2, List.append_assoc], by rw [f2, f1, nlCount_append]; omega⟩

theorem Consumes.prefix_noNl {cs k rest : Str} (line : Nat) (h : cs = k ++ rest)
    (hk : nlCount k = 0) : Consumes cs line rest line := ⟨k, h, by rw [hk]; rfl⟩

theorem Consumes.cons_ne (c : Char) (cs : Str) (line : Nat) (h : c ≠ '\n') :
    Consumes (c :: cs) line cs line := ⟨[c], rfl, by rw [nlCount_cons_ne c [] h]; rfl⟩

theorem Consumes.cons_nl (cs : Str) (line : Nat) : Consumes ('\n' :: cs) line cs (line + 1) :=
  ⟨['\n'], rfl, by rw [nlCount_cons_nl]; rfl⟩

theorem Consumes.cons_bump (c : Char) (cs : Str) (line : Nat) :
    Consumes (c :: cs) line cs (bump c line) := ⟨[c], rfl, bump_eq c line⟩

/-- the inner loop over consecutive newlines counts each of them and stops before a non-newline -/
theorem scanForStart_nl_line :
    ∀ (cs : Str) (l : Nat) (rest : Str) (l' : Nat), scanForStart.nl cs l = (rest, l') →
      Consumes cs l rest l' ∧ ∀ d ds, rest = d :: ds → d ≠ '\n' := by
  intro cs
  induction cs with
  | nil =>
    intro l rest l' h
    simp only [scanForStart.nl, Prod.mk.injEq] at h
    obtain ⟨h1, h2⟩ := h
    subst h1 h2
    exact ⟨Consumes.refl _ _, by intro d ds h; cases h⟩
  | cons c cs ih =>
    intro l rest l' h
    simp only [scanForStart.nl] at h
    split at h
    · rename_i h1
      have : c = '\n' := by simpa using h1
      subst this
      obtain ⟨hc, hd⟩ := ih _ _ _ h
      exact ⟨(Consumes.cons_nl cs l).trans hc, hd⟩
    · rename_i h1
      have hc : c ≠ '\n' := by simpa using h1
      simp only [Prod.mk.injEq] at h
      obtain ⟨h1, h2⟩ := h
      subst h1 h2
      refine ⟨Consumes.refl _ _, ?_⟩
      intro d ds h; cases h; exact hc

/-- the first inner loop of the follow-up search never crosses a newline -/
theorem dropWhileNotSpace_line (cs : Str) :
    ∃ consumed, cs = consumed ++ dropWhileNotSpace cs ∧ nlCount consumed = 0 := by
  induction cs with
  | nil => exact ⟨[], rfl, rfl⟩
  | cons c cs ih =>
    simp only [dropWhileNotSpace]
    split
    · exact ⟨[], rfl, rfl⟩
    · rename_i h
      have h' : isSpace c = false := by simpa using h
      obtain ⟨k, hk, hn⟩ := ih
      exact ⟨c :: k, by rw [List.cons_append, ← hk],
        by rw [nlCount_cons_ne c k (ne_nl_of_not_space h')]; exact hn⟩

/-- Item 5a: the blank-skipping loop counts the newlines it skips. -/
theorem dropSpaceCounting_line :
    ∀ (cs : Str) (line : Nat) (rest : Str) (line' : Nat),
      dropSpaceCounting cs line = (rest, line') →
      ∃ consumed, cs = consumed ++ rest ∧ line' = line + nlCount consumed := by
  intro cs
  induction cs with
  | nil =>
    intro line rest line' h
    simp only [dropSpaceCounting, Prod.mk.injEq] at h
    obtain ⟨h1, h2⟩ := h
    subst h1 h2
    exact Consumes.refl _ _
  | cons c cs ih =>
    intro line rest line' h
    simp only [dropSpaceCounting] at h
    split at h
    · exact (Consumes.cons_bump c cs line).trans (ih _ _ _ h)
    · simp only [Prod.mk.injEq] at h
      obtain ⟨h1, h2⟩ := h
      subst h1 h2
      exact Consumes.refl _ _

/-- Item 5b: the loop after a matched follow-up counts the newline it may consume. -/
theorem afterFollowup_line :
    ∀ (cs : Str) (line : Nat) (done : Bool) (rest : Str) (line' : Nat),
      afterFollowup cs line = (done, rest, line') →
      ∃ consumed, cs = consumed ++ rest ∧ line' = line + nlCount consumed := by
  intro cs
  induction cs with
  | nil =>
    intro line done rest line' h
    simp only [afterFollowup, Prod.mk.injEq] at h
    obtain ⟨_, h1, h2⟩ := h
    subst h1 h2
    exact Consumes.refl _ _
  | cons c cs ih =>
    intro line done rest line' h
    simp only [afterFollowup] at h
    split at h
    · rename_i h1
      have : c = '\n' := by simpa using h1
      subst this
      simp only [Prod.mk.injEq] at h
      obtain ⟨_, h1, h2⟩ := h
      subst h1 h2
      exact Consumes.cons_nl _ _
    · rename_i h1
      have hc : c ≠ '\n' := by simpa using h1
      split at h
      · simp only [Prod.mk.injEq] at h
        obtain ⟨_, h1, h2⟩ := h
        subst h1 h2
        exact Consumes.cons_ne c _ _ hc
      · exact (Consumes.cons_ne c cs line hc).trans (ih _ _ _ _ h)

theorem startsWith_split {p s : Str} (h : startsWith p s = true) : s = p ++ s.drop p.length := by
  have : s.take p.length = p := by simpa [startsWith] using h
  calc s = s.take p.length ++ s.drop p.length := (List.take_append_drop _ _).symm
    _ = p ++ s.drop p.length := by rw [this]

theorem matchFollowups_go_split (cs : Str) :
    ∀ (fs : List Str) (i j : Nat) (r : Str), matchFollowups.go cs fs i = some (j, r) →
      ∃ f, f ∈ fs ∧ cs = f ++ r := by
  intro fs
  induction fs with
  | nil => intro i j r h; simp [matchFollowups.go] at h
  | cons f fs ih =>
    intro i j r h
    simp only [matchFollowups.go] at h
    split at h
    · rename_i hs
      simp only [Option.some.injEq, Prod.mk.injEq] at h
      refine ⟨f, List.mem_cons_self, ?_⟩
      rw [← h.2]; exact startsWith_split hs
    · obtain ⟨g, hg, hcs⟩ := ih _ _ _ h
      exact ⟨g, List.mem_cons_of_mem _ hg, hcs⟩

/-- a matched follow-up is a prefix of the text, and exactly it is dropped -/
theorem matchFollowups_split {fs : List Str} {cs : Str} {i : Nat} {r : Str}
    (h : matchFollowups fs cs = some (i, r)) : ∃ f, f ∈ fs ∧ cs = f ++ r :=
  matchFollowups_go_split cs fs 0 i r h

/-- Item 5c: `scan_for_start` keeps the counter right across a skipped region, provided the intro
    marker and the follow-up markers contain no newline (true of the only call site:
    `#phil`, `__END__`, `__ON__`).  Without these hypotheses the statement is false (file footer). -/
theorem scanForStart_line (intro : Str) (fs : List Str) (hi : nlCount intro = 0)
    (hf : ∀ f, f ∈ fs → nlCount f = 0) :
    ∀ (fuel : Nat) (cs : Str) (line i : Nat) (rest : Str) (line' : Nat),
      scanForStart intro fs fuel cs line = (i, ⟨rest, line'⟩) →
      ∃ consumed, cs = consumed ++ rest ∧ line' = line + nlCount consumed := by
  intro fuel
  induction fuel with
  | zero =>
    intro cs line i rest line' h
    simp only [scanForStart, Prod.mk.injEq, CI.mk.injEq] at h
    obtain ⟨_, h1, h2⟩ := h
    subst h1 h2
    exact Consumes.refl _ _
  | succ fuel ih =>
    intro cs line i rest line' h
    cases cs with
    | nil =>
      simp only [scanForStart, Prod.mk.injEq, CI.mk.injEq] at h
      obtain ⟨_, h1, h2⟩ := h
      subst h1 h2
      exact Consumes.refl _ _
    | cons c cs1 =>
      simp only [scanForStart] at h
      split at h
      · rename_i h1
        have hc : c ≠ '\n' := by simpa using h1
        exact (Consumes.cons_ne c cs1 line hc).trans (ih _ _ _ _ _ h)
      · rename_i h1
        have hc : c = '\n' := by simpa using h1
        subst hc
        generalize hnl : scanForStart.nl cs1 (line + 1) = p at h
        obtain ⟨cs2, line2⟩ := p
        simp only at h
        obtain ⟨C12, hd⟩ := scanForStart_nl_line _ _ _ _ hnl
        have C02 : Consumes ('\n' :: cs1) line cs2 line2 := (Consumes.cons_nl cs1 line).trans C12
        split at h
        · -- only newlines up to the end of input
          simp only [Prod.mk.injEq, CI.mk.injEq] at h
          obtain ⟨_, h1, h2⟩ := h
          subst h1 h2
          exact C02
        · rename_i d ds
          have hdn : d ≠ '\n' := hd d ds rfl
          split at h
          · -- the line does not begin with the intro marker
            exact (C02.trans (Consumes.cons_ne d ds line2 hdn)).trans (ih _ _ _ _ _ h)
          · rename_i hsw
            have hsw' : startsWith intro (d :: ds) = true := by simpa using hsw
            have hsplit := startsWith_split hsw'
            obtain ⟨k, hk, hkn⟩ := dropWhileNotSpace_line ((d :: ds).drop intro.length)
            generalize hcs3 : dropWhileNotSpace (List.drop intro.length (d :: ds)) = cs3 at h hk
            have C23 : Consumes (d :: ds) line2 cs3 line2 :=
              Consumes.prefix_noNl (k := intro ++ k) line2
                (by rw [List.append_assoc, ← hk]; exact hsplit)
                (by rw [nlCount_append, hi, hkn])
            have C03 := C02.trans C23
            split at h
            · simp only [Prod.mk.injEq, CI.mk.injEq] at h
              obtain ⟨_, h1, h2⟩ := h
              subst h1 h2
              exact C03
            · generalize hdsc : dropSpaceCounting cs3 line2 = p4 at h
              obtain ⟨cs4, line4⟩ := p4
              simp only at h
              have C04 := C03.trans (dropSpaceCounting_line _ _ _ _ hdsc)
              split at h
              · simp only [Prod.mk.injEq, CI.mk.injEq] at h
                obtain ⟨_, h1, h2⟩ := h
                subst h1 h2
                exact C04
              · split at h
                · exact C04.trans (ih _ _ _ _ _ h)
                · rename_i j cs5 hmf
                  obtain ⟨f, hfm, hfe⟩ := matchFollowups_split hmf
                  have C05 := C04.trans (Consumes.prefix_noNl line4 hfe (hf f hfm))
                  generalize haf : afterFollowup cs5 line4 = p6 at h
                  obtain ⟨done, cs6, line6⟩ := p6
                  simp only at h
                  have C06 := C05.trans (afterFollowup_line _ _ _ _ _ haf)
                  split at h
                  · simp only [Prod.mk.injEq, CI.mk.injEq] at h
                    obtain ⟨_, h1, h2⟩ := h
                    subst h1 h2
                    exact C06
                  · exact C06.trans (ih _ _ _ _ _ h)

/-- Item 5c at the only call site of the parser (`#phil __OFF__` regions): no side conditions. -/
theorem scanForStart_phil_line (fuel : Nat) (cs : Str) (line i : Nat) (rest : Str) (line' : Nat)
    (h : scanForStart "#phil".toList ["__END__".toList, "__ON__".toList] fuel cs line
          = (i, ⟨rest, line'⟩)) :
    ∃ consumed, cs = consumed ++ rest ∧ line' = line + nlCount consumed :=
  scanForStart_line _ _ (by decide) (by decide) fuel cs line i rest line' h

/-! ### why the side conditions are needed

  * `scanQ` with `q = '\n'` (never produced by `wordAt`, whose `q` is `"` or `'`): the closing "quote"
    is itself a newline and is not counted.
  * `scanForStart` with a newline inside the intro marker or inside a follow-up marker: the marker
    is skipped by `drop`, not character by character, so its newlines are not counted. -/

example : scanQ '\n' false false "ab\ncd".toList 1 [] = .ok ("ab".toList, "cd".toList, 1) := by rfl

example : scanForStart "a\nb".toList ["X".toList] 100 "\na\nb X\nrest".toList 1
    = (0, ⟨"rest".toList, 3⟩) := by decide +kernel   -- three newlines consumed, counter moved by 2

example : scanForStart "#phil".toList ["X\nY".toList] 100 "zz\n#phil X\nY\nrest".toList 1
    = (0, ⟨"rest".toList, 3⟩) := by decide +kernel   -- three newlines consumed, counter moved by 2

end Phil

