/-
  Attribute round trip with DISABLED DEFINITIONS AND DISABLED PROPER SCOPES (C01 / C19): `!scope { … }`,
  `!a.b { … }` (the flag belongs to the LAST component; a scope that is only a dotted prefix is enabled:
  `Obj.prefixEnabled`).  Continues AttrRoundTrip3Dis.lean.  All new names end in `_ar4` or are new definitions.
-/
import Phil.Proofs.AttrRoundTrip3Dis
set_option linter.unusedSimpArgs false
set_option linter.unusedVariables false
namespace Phil

mutual
/-- the tree with every disabled flag cleared (definitions and scopes) -/
def Obj.enableS : Obj → Obj
  | .defn m ws => .defn { m with disabled := false } ws
  | .scope m os => .scope { m with disabled := false } (enableSList os)
def enableSList : List Obj → List Obj
  | [] => []
  | x :: xs => x.enableS :: enableSList xs
end

mutual
/-- every scope that is only a dotted prefix (it merges its name into its only child) is enabled -/
def Obj.prefixEnabled : Obj → Bool
  | .defn _ _ => true
  | .scope m os => (!(firstMerges os) || !m.disabled) && prefixEnabledList os
def prefixEnabledList : List Obj → Bool
  | [] => true
  | x :: xs => x.prefixEnabled && prefixEnabledList xs
end

mutual
/-- `treeTextB` with `!` also in front of the (dotted) name of every disabled proper scope -/
def treeTextC (L w : Int) : Obj → List Str → Str → Str
  | .defn m ws, ms, ind =>
    warnText m ind ++ (ind ++ (bangOf m ++ dottedName ms m.name) ++ [' ', '='] ++
      wrapTail w (ind ++ defIndent (bangOf m ++ dottedName ms m.name)) ws
        (ind ++ defHead (bangOf m ++ dottedName ms m.name)) ++ ['\n']) ++
      attrBlock true ind L w m.attrs
  | .scope m os, ms, ind =>
    if firstMerges os then kidsTextC L w os (ms ++ [m.name]) ind
    else if (shownAttrs false L m.attrs).isEmpty then
      ind ++ (bangOf m ++ dottedName ms m.name) ++ [' ', '{', '\n'] ++ kidsTextC L w os [] (deeper ind) ++ ind ++ ['}', '\n']
    else
      ind ++ (bangOf m ++ dottedName ms m.name) ++ ['\n'] ++ attrBlock false ind L w m.attrs ++ ind ++ ['{', '\n'] ++
        kidsTextC L w os [] (deeper ind) ++ ind ++ ['}', '\n']
def kidsTextC (L w : Int) : List Obj → List Str → Str → Str
  | [], _, _ => []
  | x :: xs, ms, ind => treeTextC L w x ms ind ++ kidsTextC L w xs ms ind
end

/-! ### basic facts -/

theorem enableS_mergeNames_ar4 (x : Obj) : x.enableS.meta.mergeNames = x.meta.mergeNames := by
  cases x <;> simp [Obj.enableS, Obj.meta]

theorem firstMerges_enableS_ar4 (os : List Obj) : firstMerges (enableSList os) = firstMerges os := by
  cases os with
  | nil => simp [enableSList]
  | cons x xs => rw [enableSList]; exact enableS_mergeNames_ar4 x

theorem enableSList_mem_ar4 {os : List Obj} {y : Obj} (hy : y ∈ os) : y.enableS ∈ enableSList os := by
  induction os with
  | nil => cases hy
  | cons x xs ih =>
    rw [enableSList]
    rcases List.mem_cons.mp hy with rfl | hy
    · exact List.mem_cons_self
    · exact List.mem_cons_of_mem _ (ih hy)

theorem firstMerges_rt_ar4 (os : List Obj) :
    firstMerges (stripAttrsList (enableSList os)) = firstMerges os := by
  rw [firstMerges_stripAttrsList_ert, firstMerges_enableS_ar4]

/-! ### what may follow a definition -/

theorem treeTextC_defn_shape_ar4 (L w : Int) (m : Meta) (ws : List Word) (ms : List Str) (ind more : Str) :
    treeTextC L w (.defn m ws) ms ind ++ more
      = warnText m ind ++ (ind ++ ((if m.disabled then ['!'] else []) ++ dottedName ms m.name) ++ ([' '] ++ ('=' ::
          (wrapTail w (ind ++ defIndent (bangOf m ++ dottedName ms m.name)) ws
            (ind ++ defHead (bangOf m ++ dottedName ms m.name)) ++ '\n' :: (attrBlock true ind L w m.attrs ++ more))))) := by
  rw [treeTextC, bangOf_eq_ar3d]
  simp [List.append_assoc]

theorem NextOK_head_ar4 (ind nm rest : Str) (hb : Blank ind) (hn : ItemName nm) (m : Meta) :
    NextOK (ind ++ (bangOf m ++ (nm ++ rest))) := by
  have := NextOK_lead_ar3d ind nm rest hb hn m.disabled
  rw [bangOf_eq_ar3d]
  simpa [List.append_assoc] using this

theorem NextOK_treeC_ar4 (L w : Int) (x : Obj) :
    ∀ (ms : List Str) (ind more : Str), GoodPath ms → Blank ind → RTNode ms x.enableS.stripAttrs →
      x.startsDep = false → NextOK (treeTextC L w x ms ind ++ more) := by
  induction x using Obj.rec
    (motive_2 := fun os => ∀ (ms : List Str) (ind more : Str), GoodPath ms → Blank ind →
      RTOne ms (stripAttrsList (enableSList os)) → startsDepList os = false →
      NextOK (kidsTextC L w os ms ind ++ more)) with
  | defn m ws =>
    intro ms ind more hp hb h hnd
    rw [Obj.enableS, Obj.stripAttrs_defn] at h
    unfold RTNode at h
    obtain ⟨_, hn, hres, _⟩ := h
    have hdep : depSet m = false := by simpa [Obj.startsDep] using hnd
    rw [treeTextC_defn_shape_ar4, warnText, hdep]
    simp only [Bool.false_eq_true, ↓reduceIte, List.nil_append]
    exact NextOK_lead_ar3d ind _ _ hb (itemName_dotted hp hn hres) m.disabled
  | scope m os ih =>
    intro ms ind more hp hb h hnd
    rw [Obj.enableS, Obj.stripAttrs_scope] at h
    unfold RTNode at h
    obtain ⟨_, hn, hk⟩ := h
    rcases hk with ⟨hres, hk⟩ | hk
    · have hfm : firstMerges os = false := by
        rw [← firstMerges_rt_ar4]; exact hk.firstMerges
      rw [treeTextC, hfm]
      simp only [Bool.false_eq_true, ↓reduceIte]
      split
      · simp only [List.append_assoc]
        exact NextOK_head_ar4 ind _ _ hb (itemName_dotted hp hn hres) m
      · simp only [List.append_assoc]
        exact NextOK_head_ar4 ind _ _ hb (itemName_dotted hp hn hres) m
    · have hfm : firstMerges os = true := by
        rw [← firstMerges_rt_ar4]; exact hk.firstMerges
      rw [treeTextC, hfm]
      simp only [Obj.startsDep, hfm, ↓reduceIte] at hnd
      exact ih (ms ++ [m.name]) ind more (hp.snoc hn) hb hk hnd
  | nil => rename_i ms ind more hp hb h hnd; rw [enableSList, stripAttrsList_nil] at h; unfold RTOne at h; exact h.elim
  | cons x xs ihx ihxs =>
    rename_i ms ind more hp hb h hnd
    rw [enableSList, stripAttrsList_cons] at h
    unfold RTOne at h
    rw [kidsTextC, List.append_assoc]
    exact ihx ms ind _ hp hb h.1 (by simpa [startsDepList] using hnd)

theorem warnNext_treeC_ar4 (L w : Int) (x : Obj) :
    ∀ (ms : List Str) (ind more : Str), GoodPath ms → Blank ind → RTNode ms x.enableS.stripAttrs →
      x.attrsOKAt L w ind = true → x.startsDep = true →
      3 ≤ L ∧ WarnNext (treeTextC L w x ms ind ++ more) := by
  induction x using Obj.rec
    (motive_2 := fun os => ∀ (ms : List Str) (ind more : Str), GoodPath ms → Blank ind →
      RTOne ms (stripAttrsList (enableSList os)) → attrsOKsAt L w os ind = true → startsDepList os = true →
      3 ≤ L ∧ WarnNext (kidsTextC L w os ms ind ++ more)) with
  | defn m ws =>
    intro ms ind more hp hb h hok hd
    rw [Obj.enableS, Obj.stripAttrs_defn] at h
    unfold RTNode at h
    obtain ⟨_, hn, hres, _⟩ := h
    have hdep : depSet m = true := by simpa [Obj.startsDep] using hd
    simp only [Obj.attrsOKAt, Bool.and_eq_true, hdep, Bool.not_true, Bool.false_or, decide_eq_true_eq] at hok
    refine ⟨hok.2, ?_⟩
    rw [treeTextC_defn_shape_ar4, warnText, if_pos hdep, List.append_assoc]
    exact warnNext_lead_ar3d ind (dottedName ms m.name) _ hb (itemName_dotted hp hn hres) m.disabled
  | scope m os ih =>
    intro ms ind more hp hb h hok hd
    rw [Obj.enableS, Obj.stripAttrs_scope] at h
    unfold RTNode at h
    obtain ⟨_, hn, hk⟩ := h
    rcases hk with ⟨hres, hk⟩ | hk
    · have hfm : firstMerges os = false := by
        rw [← firstMerges_rt_ar4]; exact hk.firstMerges
      simp [Obj.startsDep, hfm] at hd
    · have hfm : firstMerges os = true := by
        rw [← firstMerges_rt_ar4]; exact hk.firstMerges
      rw [treeTextC, hfm]
      simp only [Obj.startsDep, hfm, ↓reduceIte] at hd
      simp only [Obj.attrsOKAt, hfm, ↓reduceIte] at hok
      exact ih (ms ++ [m.name]) ind more (hp.snoc hn) hb hk hok hd
  | nil => rename_i ms ind more hp hb h hok hd; simp [startsDepList] at hd
  | cons x xs ihx ihxs =>
    rename_i ms ind more hp hb h hok hd
    rw [enableSList, stripAttrsList_cons] at h
    unfold RTOne at h
    simp only [attrsOKsAt, Bool.and_eq_true] at hok
    rw [kidsTextC, List.append_assoc]
    exact ihx ms ind _ hp hb h.1 hok.1 (by simpa [startsDepList] using hd)

theorem followOK_kidsC_ar4 (L w : Int) (os : List Obj) (ind tail : Str) (hb : Blank ind)
    (h : RTAll (stripAttrsList (enableSList os))) (hok : attrsOKsAt L w os ind = true) (ht : NextOK tail) :
    FollowOK L (kidsTextC L w os [] ind ++ tail) := by
  cases os with
  | nil => rw [kidsTextC]; exact Or.inl ht
  | cons x xs =>
    rw [enableSList, stripAttrsList_cons] at h
    unfold RTAll at h
    simp only [attrsOKsAt, Bool.and_eq_true] at hok
    rw [kidsTextC, List.append_assoc]
    by_cases hd : x.startsDep = true
    · exact Or.inr (warnNext_treeC_ar4 L w x [] ind _ (by intro n hn; simp at hn) hb h.1 hok.1 hd)
    · exact Or.inl (NextOK_treeC_ar4 L w x [] ind _ (by intro n hn; simp at hn) hb h.1 (by simpa using hd))

/-! ### the turns of `collect_objects` -/

def StepAtC (L w : Int) (x : Obj) (ms : List Str) (ind : Str) : Prop :=
  ∀ (fuel : Nat) (pre more : Str) (l i : Nat) (stop : Option Word) (prevLine : Nat) (acc : List Obj)
    (pending : Option Obj),
    (∀ c ∈ pre, isSpace c = true) → x.costA L ≤ fuel → (x.endsVal = true → FollowOK L more) →
    ∃ x' acc' pending' l' prevLine' fuel',
      collectObjects (fuel + 1) { ci := ⟨pre ++ treeTextC L w x ms ind ++ more, l⟩, nextId := i } stop
          prevLine acc pending
        = collectObjects fuel' { ci := ⟨'\n' :: more, l'⟩, nextId := i + x.items } stop prevLine' acc'
            pending' ∧
      fuel + 1 ≤ fuel' + x.costA L ∧
      flush acc' pending' = flush acc pending ++ [x'] ∧
      x'.erase = (nestIn none false ms (x.normA L)).erase ∧
      x'.ids = (List.replicate ms.length i ++ expIds i x).map some

def StepC (L w : Int) (x : Obj) : Prop :=
  ∀ (ms : List Str) (ind : Str), GoodPath ms → Blank ind → RTNode ms x.enableS.stripAttrs →
    x.prefixEnabled = true → x.allDefns NlOnlyLast → x.attrsOKAt L w ind = true → StepAtC L w x ms ind

/-- the turn for a definition — enabled or disabled — and its attribute lines -/
theorem step_defnC_ar4 (L w : Int) (m : Meta) (ws : List Word) : StepC L w (.defn m ws) := by
  intro ms ind hp hb h _ hnl hok
  have h' : RTNode ms (Obj.defn m ws).enableD.stripAttrs := by
    rw [Obj.enableD]; rw [Obj.enableS] at h; exact h
  have hst := step_defnB_ar3d L w m ws ms ind hp hb h' hnl hok
  intro fuel pre more l i stop prevLine acc pending hpre hf hnext0
  have e : treeTextC L w (.defn m ws) ms ind = treeTextB L w (.defn m ws) ms ind := by
    rw [treeTextC, treeTextB]
  rw [e]
  exact hst fuel pre more l i stop prevLine acc pending hpre hf hnext0


/-! ### blocks, scopes, the whole document -/

def BlockAtC (L w : Int) (os : List Obj) (ind : Str) : Prop :=
  ∀ (fuel : Nat) (pre tail after : Str) (l i : Nat) (stop : Option Word) (prevLine : Nat)
    (acc : List Obj) (pending : Option Obj),
    (∀ c ∈ pre, isSpace c = true) → costAList L os + 1 ≤ fuel → Closes stop tail after →
    ∃ objs' st',
      collectObjects fuel { ci := ⟨pre ++ kidsTextC L w os [] ind ++ tail, l⟩, nextId := i } stop prevLine
          acc pending
        = .ok (flush acc pending ++ objs', st') ∧
      st'.nextId = i + itemsList os ∧ (stop.isSome = true → ∃ l', st'.ci = ⟨after, l'⟩) ∧
      eraseList objs' = eraseList (normAList L os) ∧ idsList objs' = (expIdsSeq i os).map some

theorem block_nilC_ar4 (L w : Int) (ind : Str) : BlockAtC L w [] ind := by
  intro fuel pre tail after l i stop prevLine acc pending hpre hf hc
  have := block_nilA_art L w ind fuel pre tail after l i stop prevLine acc pending hpre hf hc
  simpa [kidsTextA, kidsTextC] using this

theorem block_of_stepsC_ar4 (L w : Int) (os : List Obj) (ind : Str) (hb : Blank ind) :
    (∀ x ∈ os, StepAtC L w x [] ind) → RTAll (stripAttrsList (enableSList os)) → attrsOKsAt L w os ind = true →
      BlockAtC L w os ind := by
  induction os with
  | nil => intro _ _ _; exact block_nilC_ar4 L w ind
  | cons x xs ih =>
    intro hs hrt hok fuel pre tail after l i stop prevLine acc pending hpre hf hc
    have hrt' := hrt
    rw [enableSList, stripAttrsList_cons] at hrt'
    unfold RTAll at hrt'
    have hok' := hok
    simp only [attrsOKsAt, Bool.and_eq_true] at hok'
    obtain ⟨f, rfl⟩ : ∃ f, fuel = f + 1 := ⟨fuel - 1, by omega⟩
    have hfx : x.costA L ≤ f := by simp only [costAList] at hf; omega
    obtain ⟨x', acc', pending', l', prevLine', fuel', hstep, hfu, hflush, her, hid⟩ :=
      hs x (by simp) f pre (kidsTextC L w xs [] ind ++ tail) l i stop prevLine acc pending hpre hfx
        (fun _ => followOK_kidsC_ar4 L w xs ind tail hb hrt'.2 hok'.2 hc.nextOK)
    have hfxs : costAList L xs + 1 ≤ fuel' := by
      simp only [costAList] at hf
      omega
    obtain ⟨objs', st', hrest, hnid, hci, her', hid'⟩ :=
      ih (fun y hy => hs y (by simp [hy])) hrt'.2 hok'.2 fuel' ['\n'] tail after l' (i + x.items) stop
        prevLine' acc' pending' space_nl hfxs hc
    refine ⟨x' :: objs', st', ?_, ?_, hci, ?_, ?_⟩
    · have e : pre ++ kidsTextC L w (x :: xs) [] ind ++ tail
          = pre ++ treeTextC L w x [] ind ++ (kidsTextC L w xs [] ind ++ tail) := by
        rw [kidsTextC]; simp
      rw [e, hstep]
      have e2 : '\n' :: (kidsTextC L w xs [] ind ++ tail) = ['\n'] ++ kidsTextC L w xs [] ind ++ tail := rfl
      rw [e2, hrest, hflush]
      simp
    · rw [hnid, itemsList]; omega
    · rw [eraseList_cons, normAList, eraseList_cons, her', her]; rfl
    · rw [idsList, hid, hid', expIdsSeq]; simp

theorem treeTextC_scope_proper_ar4 (L w : Int) (m : Meta) (os : List Obj) (ms : List Str) (ind : Str)
    (hfm : firstMerges os = false) :
    treeTextC L w (.scope m os) ms ind
      = ind ++ (bangOf m ++ dottedName ms m.name) ++ headTail ind L w m.attrs
          ('\n' :: (kidsTextC L w os [] (deeper ind) ++ (ind ++ ['}', '\n']))) := by
  rw [treeTextC, hfm]
  simp only [Bool.false_eq_true, ↓reduceIte, headTail]
  split <;> simp [List.append_assoc]

/-- One turn of `collect_objects` on a printed scope header, enabled (`name`) or disabled (`!name`). -/
theorem collectObjects_open_scope_any_ar4 (fuel : Nat) (stop : Option Word) (prevLine : Nat)
    (acc : List Obj) (pending : Option Obj) (pre nm V ind : Str) (l i : Nat) (L w : Int) (attrs : Attrs) (b : Bool)
    (hpre : ∀ d ∈ pre, isSpace d = true) (hn : ItemName nm) (hb : Blank ind)
    (hok : attrsOK false ind L w attrs = true) :
    ∃ l' bl, collectObjects (fuel + 1)
        { ci := ⟨pre ++ ((if b then ['!'] else []) ++ nm) ++ headTail ind L w attrs V, l⟩, nextId := i } stop
        prevLine acc pending
      = scopeCont fuel stop (l + nlCount pre) acc pending
          { name := nm, id := some i, disabled := b, line := some (l + nlCount pre), attrs := shownAttrs false L attrs }
          (collectObjects fuel { ci := ⟨V, l'⟩, nextId := i + 1 }
            (some { value := ['{'], quote := none, line := some bl }) 0 [] none) := by
  cases b with
  | false =>
    obtain ⟨l', bl, h⟩ := collectObjects_open_scopeA_art fuel stop prevLine acc pending pre nm V ind l i L w attrs
      hpre hn hb hok
    refine ⟨l', bl, ?_⟩
    simp only [Bool.false_eq_true, ↓reduceIte, List.nil_append]
    exact h
  | true =>
    obtain ⟨l', bl, h⟩ := collectObjects_open_scope_bang_ar3d fuel stop prevLine acc pending pre nm V ind l i L w
      attrs hpre hn hb hok
    refine ⟨l', bl, ?_⟩
    simp only [↓reduceIte, List.singleton_append]
    exact h

/-- the turn for a proper scope — enabled or disabled — given the recursive call for its body -/
theorem step_scope_properC_ar4 (L w : Int) (m : Meta) (os : List Obj) (ms : List Str) (ind : Str)
    (hp : GoodPath ms) (hb : Blank ind)
    (hm : PlainMetaPP (!ms.isEmpty) ({ m with disabled := false } : Meta).stripAttrs)
    (hn : goodName m.name = true) (hres : isReserved (dottedName ms m.name) = false)
    (hfm : firstMerges os = false) (hok : attrsOK false ind L w m.attrs = true)
    (hbody : BlockAtC L w os (deeper ind)) : StepAtC L w (.scope m os) ms ind := by
  intro fuel pre more l i stop prevLine acc pending hpre hf hnext
  have hit := itemName_dotted hp hn hres
  have hm' := meta_eq_of_plainD_ar3d hm
  have hpre' : ∀ d ∈ pre ++ ind, isSpace d = true := by
    intro d hd
    rcases List.mem_append.mp hd with h | h
    · exact hpre d h
    · exact hb.isSpace d h
  have htext : pre ++ treeTextC L w (.scope m os) ms ind ++ more
      = (pre ++ ind) ++ ((if m.disabled then ['!'] else []) ++ dottedName ms m.name) ++ headTail ind L w m.attrs
          (['\n'] ++ kidsTextC L w os [] (deeper ind) ++ (ind ++ '}' :: ('\n' :: more))) := by
    rw [treeTextC_scope_proper_ar4 L w m os ms ind hfm, bangOf_eq_ar3d]
    by_cases hemp : (shownAttrs false L m.attrs).isEmpty = true <;> simp [headTail, hemp, List.append_assoc]
  have hcost : (Obj.scope m os).costA L = 1 + costAList L os := by
    rw [Obj.costA, hfm]; simp
  have hfb : costAList L os + 1 ≤ fuel := by rw [hcost] at hf; omega
  obtain ⟨l0, bl, hopen⟩ := collectObjects_open_scope_any_ar4 fuel stop prevLine acc pending (pre ++ ind)
    (dottedName ms m.name)
    (['\n'] ++ kidsTextC L w os [] (deeper ind) ++ (ind ++ '}' :: ('\n' :: more))) ind l i L w m.attrs m.disabled
    hpre' hit hb hok
  obtain ⟨objs', st', hrun, hnid, hci, her, hid⟩ :=
    hbody fuel ['\n'] (ind ++ '}' :: ('\n' :: more)) ('\n' :: more) l0 (i + 1)
      (some { value := ['{'], quote := none, line := some bl }) 0 [] none
      space_nl hfb (Or.inr ⟨_, ind, rfl, hb, rfl⟩)
  obtain ⟨l', hci'⟩ := hci rfl
  have hitems : (Obj.scope m os).items = 1 + itemsList os := by
    rw [Obj.items, hfm]; simp
  have hst : st' = { ci := ⟨'\n' :: more, l'⟩, nextId := i + (Obj.scope m os).items } := by
    cases st' with
    | mk ci nid =>
      simp only at hci' hnid
      rw [hci', hnid, hitems]
      congr 1
      omega
  refine ⟨wrapDotted (.scope { name := dottedName ms m.name, id := some i, disabled := m.disabled, line := some (l + nlCount (pre ++ ind)), attrs := shownAttrs false L m.attrs } objs'),
    _, none, l', l + nlCount (pre ++ ind), fuel, ?_, by rw [hcost]; omega, rfl, ?_, ?_⟩
  · rw [htext, hopen, hrun]
    simp only [flush, List.nil_append, scopeCont, adopt, hst]
  · rw [wrapDotted_dotted _ ms m.name rfl (fun n hn' => (hp.snoc hn).noDots n hn') rfl, nestIn_erase,
      nestIn_erase]
    rw [hm']
    simp only [Obj.withMeta, Obj.normA, hfm, Obj.erase_scope, her, Bool.false_eq_true, ↓reduceIte]
    rfl
  · rw [wrapDotted_dotted _ ms m.name rfl (fun n hn' => (hp.snoc hn).noDots n hn') rfl, nestIn_ids]
    simp [Obj.withMeta, Obj.ids, expIds, Obj.meta, hid, hfm]

/-- the turn for a scope that merges its name into the name of its only child -/
theorem step_scope_chainC_ar4 (L w : Int) (m : Meta) (c : Obj) (ms : List Str) (ind : Str)
    (hm : PlainMetaPP (!ms.isEmpty) ({ m with disabled := false } : Meta).stripAttrs) (hdis : m.disabled = false)
    (hfm : c.meta.mergeNames = true)
    (hc : StepAtC L w c (ms ++ [m.name]) ind) : StepAtC L w (.scope m [c]) ms ind := by
  intro fuel pre more l i stop prevLine acc pending hpre hf hnext
  have hfm' : firstMerges [c] = true := hfm
  have hm' := meta_eq_of_plainD_ar3d hm
  rw [hdis] at hm'
  have hcost : (Obj.scope m [c]).costA L = c.costA L := by
    rw [Obj.costA, hfm']; simp [costAList]
  have hfc : c.costA L ≤ fuel := by rw [hcost] at hf; exact hf
  obtain ⟨x', acc', pending', l', prevLine', fuel', hstep, hfu, hflush, her, hid⟩ :=
    hc fuel pre more l i stop prevLine acc pending hpre hfc
      (fun he => hnext (by simp [Obj.endsVal, hfm', endsValList, he]))
  have htext : treeTextC L w (.scope m [c]) ms ind = treeTextC L w c (ms ++ [m.name]) ind := by
    rw [treeTextC, hfm']; simp [kidsTextC]
  have hitems : (Obj.scope m [c]).items = c.items := by
    rw [Obj.items, hfm']; simp [itemsList]
  refine ⟨x', acc', pending', l', prevLine', fuel', by rw [htext, hitems]; exact hstep,
    by rw [hcost]; exact hfu, hflush, ?_, ?_⟩
  · rw [her, nestIn_snoc, nestIn_erase, nestIn_erase]
    rw [hm']
    simp only [Obj.normA, hfm', normAList, Obj.erase_scope, eraseList_cons, eraseList_nil, ↓reduceIte,
      Bool.false_or]
    rfl
  · rw [hid, expIds, hfm']
    simp [expIdsSame, List.replicate_succ']

theorem prefixEnabledList_iff_ar4 (os : List Obj) :
    prefixEnabledList os = true ↔ ∀ y ∈ os, y.prefixEnabled = true := by
  induction os with
  | nil => simp [prefixEnabledList]
  | cons x xs ih => simp [prefixEnabledList, ih]

theorem mem_rt_ar4 {os : List Obj} {y : Obj} (hy : y ∈ os) :
    y.enableS.stripAttrs ∈ stripAttrsList (enableSList os) :=
  mem_stripAttrsList_art (enableSList_mem_ar4 hy)

/-- **every tree of the class — disabled definitions included — is read back by its turns** -/
theorem step_allC_ar4 (L w : Int) (x : Obj) : StepC L w x := by
  induction x using Obj.rec (motive_2 := fun os => ∀ y ∈ os, StepC L w y) with
  | defn m ws => exact step_defnC_ar4 L w m ws
  | scope m os ih =>
    intro ms ind hp hb h hpe hnl hok
    rw [Obj.enableS, Obj.stripAttrs_scope] at h
    unfold RTNode at h
    obtain ⟨hm, hn, hk⟩ := h
    have hname : ({ m with disabled := false } : Meta).stripAttrs.name = m.name := rfl
    rw [hname] at hn hk
    unfold Obj.allDefns at hnl
    simp only [Obj.prefixEnabled, Bool.and_eq_true] at hpe
    rcases hk with ⟨hres, hk⟩ | hk
    · have hfm' : firstMerges os = false := by rw [← firstMerges_rt_ar4]; exact hk.firstMerges
      simp only [Obj.attrsOKAt, hfm', Bool.false_eq_true, ↓reduceIte, Bool.and_eq_true] at hok
      have hsteps : ∀ y ∈ os, StepAtC L w y [] (deeper ind) := fun y hy =>
        ih y hy [] (deeper ind) (by intro n hn; simp at hn) hb.deeper
          ((RTAll_iff _).mp hk _ (mem_rt_ar4 hy))
          ((prefixEnabledList_iff_ar4 os).mp hpe.2 y hy)
          ((allDefnsList_iff NlOnlyLast os).mp hnl y hy)
          ((attrsOKsAt_iff_art L w os (deeper ind)).mp hok.2 y hy)
      exact step_scope_properC_ar4 L w m os ms ind hp hb hm hn hres hfm' hok.1
        (block_of_stepsC_ar4 L w os (deeper ind) hb.deeper hsteps hk hok.2)
    · have hfm' : firstMerges os = true := by rw [← firstMerges_rt_ar4]; exact hk.firstMerges
      simp only [Obj.attrsOKAt, hfm', ↓reduceIte] at hok
      cases os with
      | nil => rw [enableSList, stripAttrsList_nil] at hk; unfold RTOne at hk; exact hk.elim
      | cons c cs =>
        rw [enableSList, stripAttrsList_cons] at hk
        unfold RTOne at hk
        obtain ⟨hc, hcs⟩ := hk
        have : cs = [] := by
          cases cs with
          | nil => rfl
          | cons y ys => rw [enableSList, stripAttrsList_cons] at hcs; cases hcs
        subst this
        unfold allDefnsList at hnl
        simp only [attrsOKsAt, Bool.and_true] at hok
        have hdis : m.disabled = false := by
          have := hpe.1
          rw [hfm'] at this
          simpa using this
        exact step_scope_chainC_ar4 L w m c ms ind hm hdis hfm'
          (ih c (by simp) (ms ++ [m.name]) ind (hp.snoc hn) hb hc
            ((prefixEnabledList_iff_ar4 [c]).mp hpe.2 c (by simp)) hnl.1 hok)
  | nil => rename_i y hy; simp at hy
  | cons x xs ihx ihxs =>
    rename_i y hy
    rcases List.mem_cons.mp hy with rfl | hy
    · exact ihx
    · exact ihxs y hy

theorem costA_le_textC_ar4 (L w : Int) (x : Obj) :
    ∀ (ms : List Str) (ind : Str), x.costA L ≤ (treeTextC L w x ms ind).length := by
  induction x using Obj.rec
    (motive_2 := fun os => ∀ (ms : List Str) (ind : Str),
      costAList L os ≤ (kidsTextC L w os ms ind).length) with
  | defn m ws =>
    intro ms ind
    rw [treeTextC, Obj.costA]
    have : (shownAttrs true L m.attrs).length ≤ (attrBlock true ind L w m.attrs).length := by
      unfold shownAttrs attrBlock
      split
      · simp
      · exact shownCount_le_text_art ind L w m.attrs _
    simp only [List.length_append, List.length_cons, List.length_nil]
    omega
  | scope m os ih =>
    intro ms ind
    rw [treeTextC, Obj.costA]
    split
    · exact ih _ _
    · have := ih [] (deeper ind)
      split <;> (simp only [List.length_append, List.length_cons]; omega)
  | nil => rename_i ms ind; simp [costAList]
  | cons x xs ihx ihxs =>
    rename_i ms ind
    rw [kidsTextC, costAList, List.length_append]
    have := ihx ms ind
    have := ihxs ms ind
    omega

theorem costAList_le_textC_ar4 (L w : Int) (os : List Obj) (ms : List Str) (ind : Str) :
    costAList L os ≤ (kidsTextC L w os ms ind).length := by
  induction os with
  | nil => simp [costAList]
  | cons x xs ih =>
    rw [kidsTextC, costAList, List.length_append]
    have := costA_le_textC_ar4 L w x ms ind
    omega

/-- **`parse` of the printed text of a document of trees with attributes and disabled definitions** -/
theorem parseObjs_treesC_ar4 (L w : Int) (objs : List Obj) (ind : Str) (hb : Blank ind)
    (h : RTAll (stripAttrsList (enableSList objs))) (hpe : prefixEnabledList objs = true)
    (hnl : allDefnsList NlOnlyLast objs)
    (hok : attrsOKsAt L w objs ind = true) :
    ∃ objs', parseObjs (kidsTextC L w objs [] ind) = .ok objs' ∧
      eraseList objs' = eraseList (normAList L objs) ∧
      idsList objs' = (expIdsSeq 1 objs).map some := by
  have hsteps : ∀ y ∈ objs, StepAtC L w y [] ind := fun y hy =>
    step_allC_ar4 L w y [] ind (by intro n hn; simp at hn) hb
      ((RTAll_iff _).mp h _ (mem_rt_ar4 hy))
      ((prefixEnabledList_iff_ar4 objs).mp hpe y hy)
      ((allDefnsList_iff NlOnlyLast objs).mp hnl y hy)
      ((attrsOKsAt_iff_art L w objs ind).mp hok y hy)
  obtain ⟨objs', st', hrun, _, _, her, hid⟩ :=
    block_of_stepsC_ar4 L w objs ind hb hsteps h hok ((kidsTextC L w objs [] ind).length + 2) [] [] [] 1 1
      none 0 [] none (by intro c hc; simp at hc)
      (by have := costAList_le_textC_ar4 L w objs [] ind; omega) (Or.inl ⟨rfl, rfl⟩)
  refine ⟨objs', ?_, her, hid⟩
  unfold parseObjs
  simp only [List.nil_append, List.append_nil] at hrun
  rw [hrun]
  simp [flush]

/-! ### the printer -/

theorem treeTextC_defn_ar4 (L w : Int) (m : Meta) (ws : List Word) (ms : List Str) (ind : Str) :
    treeTextC L w (.defn m ws) ms ind = treeTextB L w (.defn m ws) ms ind := by
  rw [treeTextC, treeTextB]


theorem showScope_properC_ar4 (o : ShowOpts) (he : o.expert = none) (m : Meta) (mg : Bool)
    (hm : PlainMetaPP mg ({ m with disabled := false } : Meta).stripAttrs) (os : List Obj) (ms : List Str)
    (ind : Str) (hb : Blank ind)
    (hne : m.name ≠ [])
    (hfm : firstMerges os = false) (hok : attrsOK false ind o.level o.width m.attrs = true)
    (body : List Str) (hbody : showObjs o os [] (deeper ind) = .ok body)
    (hbt : unlines body = kidsTextC o.level o.width os [] (deeper ind)) :
    ∃ lines, showObj o (.scope m os) ms ind = .ok lines ∧
      unlines lines = treeTextC o.level o.width (.scope m os) ms ind := by
  obtain ⟨als, ea, ta, hemp⟩ := showAttributes_block_art false ind hb o.level o.width m.attrs hok
  have ea' : showAttributes scopeAttrNames m.attrs ind o.level o.width = .ok als := ea
  have hm' := meta_eq_of_plainD_ar3d hm
  have htmpl : m.tmpl = 0 := by rw [hm']
  have h0 : ¬ ((0 : Int) < 0) := by omega
  have hemp' : m.name.isEmpty = false := by
    cases hn : m.name with
    | nil => exact absurd hn hne
    | cons _ _ => rfl
  have hb2 : showObjs o os [] (ind ++ "  ".toList) = .ok body := hbody
  refine ⟨(if als.isEmpty then [ind ++ bangOf m ++ dottedName ms m.name ++ " {".toList]
            else [ind ++ bangOf m ++ dottedName ms m.name] ++ als ++ [ind ++ ['{']]) ++ body ++ [ind ++ ['}']], ?_, ?_⟩
  · rw [showObj_scope_eq, hfm, htmpl, he, expertHidden_none]
    simp only [h0, decide_false, Bool.false_and, Bool.false_eq_true, ↓reduceIte, expertGate_false,
      showScopeBody, hemp', ea', bangOf, hb2, List.append_nil, dottedName]
  · rw [treeTextC, hfm, ← hemp]
    simp only [Bool.false_eq_true, ↓reduceIte]
    by_cases hae : als.isEmpty = true
    · simp only [hae, ↓reduceIte, unlines_append, hbt]
      simp [unlines, List.append_assoc]
    · simp only [hae, Bool.false_eq_true, ↓reduceIte, unlines_append, hbt, ta]
      simp [unlines, List.append_assoc]

/-- **the printer on the class with disabled definitions**: what `show` prints is `treeTextC` -/
theorem showObj_treeC_ar4 (o : ShowOpts) (he : o.expert = none) (x : Obj) :
    ∀ (ms : List Str) (ind : Str), Blank ind → RTNode ms x.enableS.stripAttrs →
      x.prefixEnabled = true → x.attrsOKAt o.level o.width ind = true →
      ∃ lines, showObj o x ms ind = .ok lines ∧ unlines lines = treeTextC o.level o.width x ms ind := by
  induction x using Obj.rec
    (motive_2 := fun os => ∀ (ms : List Str) (ind : Str), Blank ind →
      ((RTAll (stripAttrsList (enableSList os)) ∧ ms = []) ∨ RTOne ms (stripAttrsList (enableSList os))) →
      prefixEnabledList os = true → attrsOKsAt o.level o.width os ind = true →
      ∃ lines, showObjs o os ms ind = .ok lines ∧ unlines lines = kidsTextC o.level o.width os ms ind) with
  | defn m ws =>
    intro ms ind hbl h _ hok
    rw [Obj.enableS, Obj.stripAttrs_defn] at h
    unfold RTNode at h
    obtain ⟨hm, hn, _, _⟩ := h
    simp only [Obj.attrsOKAt, Bool.and_eq_true, Bool.or_eq_true, Bool.not_eq_true', decide_eq_true_eq] at hok
    rw [showObj_defn_eq, treeTextC_defn_ar4]
    exact showDefn_genB_ar3d o he m _ hm ws ms ind hbl (goodName_not_include hn) hok.1
      (fun hd => by rcases hok.2 with h | h; · rw [hd] at h; cases h
                    · exact h)
  | scope m os ih =>
    intro ms ind hbl h hpe hok
    rw [Obj.enableS, Obj.stripAttrs_scope] at h
    unfold RTNode at h
    obtain ⟨hm, hn, hk⟩ := h
    have hne : m.name ≠ [] := goodName_ne_nil hn
    simp only [Obj.prefixEnabled, Bool.and_eq_true] at hpe
    rcases hk with ⟨_, hk⟩ | hk
    · have hfm : firstMerges os = false := by
        rw [← firstMerges_rt_ar4]; exact hk.firstMerges
      simp only [Obj.attrsOKAt, hfm, Bool.false_eq_true, ↓reduceIte, Bool.and_eq_true] at hok
      obtain ⟨body, hb, hbt⟩ := ih [] (deeper ind) hbl.deeper (Or.inl ⟨hk, rfl⟩) hpe.2 hok.2
      exact showScope_properC_ar4 o he m _ hm os ms ind hbl hne hfm hok.1 body hb hbt
    · have hfm : firstMerges os = true := by
        rw [← firstMerges_rt_ar4]; exact hk.firstMerges
      simp only [Obj.attrsOKAt, hfm, ↓reduceIte] at hok
      have hdis : m.disabled = false := by
        have := hpe.1
        rw [hfm] at this
        simpa using this
      rw [meta_enabled_eq_ar3d m hdis] at hm
      obtain ⟨lines, hb, hbt⟩ := ih (ms ++ [m.name]) ind hbl (Or.inr hk) hpe.2 hok
      refine ⟨lines, by rw [showScope_mergingA_art o he m _ hm os ms ind hne hfm]; exact hb, ?_⟩
      rw [treeTextC, hfm, hbt]
      rfl
  | nil => exact ⟨[], rfl, rfl⟩
  | cons x xs ihx ihxs =>
    rename_i ms ind hbl h hpe hok
    simp only [attrsOKsAt, Bool.and_eq_true] at hok
    simp only [prefixEnabledList, Bool.and_eq_true] at hpe
    rw [enableSList, stripAttrsList_cons] at h
    have hx : RTNode ms x.enableS.stripAttrs ∧
        ((RTAll (stripAttrsList (enableSList xs)) ∧ ms = []) ∨ xs = []) := by
      rcases h with ⟨h, e⟩ | h
      · unfold RTAll at h; subst e; exact ⟨h.1, Or.inl ⟨h.2, rfl⟩⟩
      · unfold RTOne at h
        refine ⟨h.1, Or.inr ?_⟩
        cases xs with
        | nil => rfl
        | cons y ys => rw [enableSList, stripAttrsList_cons] at h; cases h.2
    obtain ⟨h1, h2⟩ := hx
    obtain ⟨l1, e1, t1⟩ := ihx ms ind hbl h1 hpe.1 hok.1
    obtain ⟨l2, e2, t2⟩ : ∃ lines, showObjs o xs ms ind = .ok lines ∧
        unlines lines = kidsTextC o.level o.width xs ms ind := by
      rcases h2 with h2 | h2
      · exact ihxs ms ind hbl (Or.inl h2) hpe.2 hok.2
      · subst h2; exact ⟨[], rfl, by rw [kidsTextC]; rfl⟩
    refine ⟨l1 ++ l2, by rw [showObjs_cons, e1, e2]; rfl, ?_⟩
    rw [unlines_append, t1, t2, kidsTextC]

/-- printing the root scope of a document of trees with attributes and disabled definitions -/
theorem asStr_treesC_ar4 (o : ShowOpts) (he : o.expert = none) (objs : List Obj) (ind : Str)
    (hbl : Blank ind) (h : RTAll (stripAttrsList (enableSList objs))) (hpe : prefixEnabledList objs = true)
    (hok : attrsOKsAt o.level o.width objs ind = true) :
    asStr o (rootOf objs) ind = .ok (kidsTextC o.level o.width objs [] ind) := by
  have : ∃ lines, showObjs o objs [] ind = .ok lines ∧
      unlines lines = kidsTextC o.level o.width objs [] ind := by
    induction objs with
    | nil => exact ⟨[], rfl, rfl⟩
    | cons x xs ih =>
      rw [enableSList, stripAttrsList_cons] at h
      unfold RTAll at h
      simp only [attrsOKsAt, Bool.and_eq_true] at hok
      simp only [prefixEnabledList, Bool.and_eq_true] at hpe
      obtain ⟨l1, e1, t1⟩ := showObj_treeC_ar4 o he x [] ind hbl h.1 hpe.1 hok.1
      obtain ⟨l2, e2, t2⟩ := ih h.2 hpe.2 hok.2
      refine ⟨l1 ++ l2, by rw [showObjs_cons, e1, e2]; rfl, ?_⟩
      rw [unlines_append, t1, t2, kidsTextC]
  obtain ⟨lines, e, t⟩ := this
  rw [asStr_root_pre_ert, e]
  simp only [Except.map, t]

/-! ### the normalised tree prints as the original -/

theorem normA_textC_ar4 (L w : Int) (x : Obj) :
    ∀ (ind : Str), x.attrsOKAt L w ind = true →
      ∀ ms, treeTextC L w (x.normA L) ms ind = treeTextC L w x ms ind := by
  induction x using Obj.rec
    (motive_2 := fun os => ∀ (ind : Str), attrsOKsAt L w os ind = true →
      ∀ ms, kidsTextC L w (normAList L os) ms ind = kidsTextC L w os ms ind) with
  | defn m ws =>
    intro ind hok ms
    simp only [Obj.attrsOKAt, Bool.and_eq_true, Bool.or_eq_true, Bool.not_eq_true', decide_eq_true_eq] at hok
    have hdepc : depSet m = true → 3 ≤ L := fun hd => by
      rcases hok.2 with h | h
      · rw [hd] at h; cases h
      · exact h
    have hdep := depSet_normA_art L m hdepc
    obtain ⟨n1, n2, n3⟩ := shownAttrs_norm_art true ind L w m.attrs
    rw [Obj.normA_defn_art, treeTextC, treeTextC]
    simp only [warnText, hdep, n2, bangOf]
  | scope m os ih =>
    intro ind hok ms
    rw [Obj.normA_scope_art]
    by_cases hfm : firstMerges os = true
    · simp only [Obj.attrsOKAt, hfm, ↓reduceIte] at hok
      rw [treeTextC, treeTextC, firstMerges_normAList_art, hfm]
      simp only [↓reduceIte]
      exact ih ind hok _
    · have hfm' : firstMerges os = false := by simpa using hfm
      simp only [Obj.attrsOKAt, hfm', Bool.false_eq_true, ↓reduceIte, Bool.and_eq_true] at hok
      have i3 := ih (deeper ind) hok.2
      obtain ⟨n1, n2, n3⟩ := shownAttrs_norm_art false ind L w m.attrs
      rw [treeTextC, treeTextC, firstMerges_normAList_art, hfm']
      simp only [Bool.false_eq_true, ↓reduceIte, n1, n2, i3, bangOf]
  | nil => rfl
  | cons x xs ihx ihxs =>
    rename_i ind hok ms
    simp only [attrsOKsAt, Bool.and_eq_true] at hok
    rw [normAList_cons_art, kidsTextC, kidsTextC, ihx ind hok.1, ihxs ind hok.2]

theorem normAList_textC_ar4 (L w : Int) (os : List Obj) (ind : Str) (hok : attrsOKsAt L w os ind = true)
    (ms : List Str) : kidsTextC L w (normAList L os) ms ind = kidsTextC L w os ms ind := by
  induction os with
  | nil => rfl
  | cons x xs ih =>
    simp only [attrsOKsAt, Bool.and_eq_true] at hok
    rw [normAList_cons_art, kidsTextC, kidsTextC, normA_textC_ar4 L w x ind hok.1, ih hok.2]

theorem normA_enableS_ar4 (L : Int) (x : Obj) : (x.normA L).enableS.stripAttrs = x.enableS.stripAttrs := by
  induction x using Obj.rec
    (motive_2 := fun os => stripAttrsList (enableSList (normAList L os)) = stripAttrsList (enableSList os)) with
  | defn m ws => rw [Obj.normA_defn_art, Obj.enableS, Obj.enableS, Obj.stripAttrs_defn, Obj.stripAttrs_defn]; rfl
  | scope m os ih =>
    rw [Obj.normA_scope_art, Obj.enableS, Obj.enableS, Obj.stripAttrs_scope, Obj.stripAttrs_scope, ih]; rfl
  | nil => rfl
  | cons x xs ihx ihxs =>
    rw [normAList_cons_art, enableSList, enableSList, stripAttrsList_cons, stripAttrsList_cons, ihx, ihxs]

theorem normAList_enableS_ar4 (L : Int) (os : List Obj) :
    stripAttrsList (enableSList (normAList L os)) = stripAttrsList (enableSList os) := by
  induction os with
  | nil => rfl
  | cons x xs ih =>
    rw [normAList_cons_art, enableSList, enableSList, stripAttrsList_cons, stripAttrsList_cons,
      normA_enableS_ar4, ih]
theorem normA_prefixEnabled_ar4 (L : Int) (x : Obj) : (x.normA L).prefixEnabled = x.prefixEnabled := by
  induction x using Obj.rec
    (motive_2 := fun os => prefixEnabledList (normAList L os) = prefixEnabledList os) with
  | defn m ws => rw [Obj.normA_defn_art]; rfl
  | scope m os ih =>
    rw [Obj.normA_scope_art, Obj.prefixEnabled, Obj.prefixEnabled, ih, firstMerges_normAList_art]
  | nil => rfl
  | cons x xs ihx ihxs => rw [normAList_cons_art, prefixEnabledList, prefixEnabledList, ihx, ihxs]

theorem normAList_prefixEnabled_ar4 (L : Int) (os : List Obj) :
    prefixEnabledList (normAList L os) = prefixEnabledList os := by
  induction os with
  | nil => rfl
  | cons x xs ih => rw [normAList_cons_art, prefixEnabledList, prefixEnabledList, normA_prefixEnabled_ar4, ih]

/-- a tree of the class with disabled definitions only (enabled scopes): clearing all flags = clearing the
    flags of definitions, and every prefix scope is enabled -/
theorem enableS_of_enableD_ar4 (x : Obj) :
    ∀ ms, RTNode ms x.enableD.stripAttrs → x.enableS = x.enableD ∧ x.prefixEnabled = true := by
  induction x using Obj.rec
    (motive_2 := fun os => ∀ ms, (RTAll (stripAttrsList (enableDList os)) ∨ RTOne ms (stripAttrsList (enableDList os))) →
      enableSList os = enableDList os ∧ prefixEnabledList os = true) with
  | defn m ws => intro ms _; exact ⟨by rw [Obj.enableS, Obj.enableD], rfl⟩
  | scope m os ih =>
    intro ms h
    rw [Obj.enableD, Obj.stripAttrs_scope] at h
    unfold RTNode at h
    obtain ⟨hm, _, hk⟩ := h
    have hm' := meta_eq_of_plain_art hm
    have hdis : m.disabled = false := by rw [hm']
    have hk' : enableSList os = enableDList os ∧ prefixEnabledList os = true := by
      rcases hk with ⟨_, hk⟩ | hk
      · exact ih [] (Or.inl hk)
      · exact ih (ms ++ [m.name]) (Or.inr hk)
    refine ⟨?_, ?_⟩
    · rw [Obj.enableS, Obj.enableD, hk'.1, meta_enabled_eq_ar3d m hdis]
    · simp [Obj.prefixEnabled, hdis, hk'.2]
  | nil => exact ⟨rfl, rfl⟩
  | cons x xs ihx ihxs =>
    rename_i ms h
    rw [enableDList, stripAttrsList_cons] at h
    have h1 : (∃ ms', RTNode ms' x.enableD.stripAttrs) ∧
        (RTAll (stripAttrsList (enableDList xs)) ∨ xs = []) := by
      rcases h with h | h
      · unfold RTAll at h; exact ⟨⟨[], h.1⟩, Or.inl h.2⟩
      · unfold RTOne at h
        refine ⟨⟨ms, h.1⟩, Or.inr ?_⟩
        cases xs with
        | nil => rfl
        | cons y ys => rw [enableDList, stripAttrsList_cons] at h; cases h.2
    obtain ⟨⟨ms', hx⟩, hxs⟩ := h1
    have e1 := ihx ms' hx
    have e2 : enableSList xs = enableDList xs ∧ prefixEnabledList xs = true := by
      rcases hxs with hxs | hxs
      · exact ihxs [] (Or.inl hxs)
      · subst hxs; exact ⟨rfl, rfl⟩
    exact ⟨by rw [enableSList, enableDList, e1.1, e2.1], by rw [prefixEnabledList, e1.2, e2.2]; rfl⟩

end Phil
