/-
  Attribute round trip, deprecated placement (C01 / C19): the `# WARNING: deprecated parameter` line of
  a deprecated definition that directly follows a definition is consumed by the value collector of the
  line before — whatever the form of that line (plain words, a quoted string, a wrapped string such as
  `.alias = "…"⏎ "…"`).  The lemmas of AttrRoundTrip2 (one plain word) are generalised and lifted
  through the tree induction; the placement hypothesis `depPlacedList` disappears.
  All new names end in `_ar3` or are new definitions.
-/
import Phil.Proofs.AttrRoundTrip2
set_option linter.unusedSimpArgs false
set_option linter.unusedVariables false
namespace Phil

/-! ## Part 1: the value collector in front of the warning line -/

/-- the text after the newline that ends a value / attribute line when a deprecated definition follows:
    the indentation, the warning comment, the rest `Y` -/
def warnRest (ind Y : Str) : Str := ind ++ '#' :: (warnBody ++ '\n' :: Y)

theorem warnRest_eq_ar3 (ind Y : Str) :
    ind ++ ("# WARNING: deprecated parameter\n".toList ++ Y) = warnRest ind Y := by
  have ew : "# WARNING: deprecated parameter\n".toList = '#' :: (warnBody ++ ['\n']) := by decide
  rw [ew]
  simp [warnRest]

/-- **the collector at the newline in front of the warning line**: whatever the last word was, the `#`
    switches to comment mode, the words of the warning are dropped, and the collector stops in front
    of the newline that ends the warning line -/
theorem cAA_warn_end_ar3 (ind Y : Str) (hind : Blank ind)
    (hnext : ∀ c, firstNonSpace Y = some c → isQuoteChar c = false)
    (fuel l : Nat) (last : Word) (acc : List Word) (hf : warnBody.length + 3 ≤ fuel) :
    ∃ tb, InlineSpace tb ∧
      collectAssignedAux fuel ⟨'\n' :: warnRest ind Y, l⟩ last false acc
        = .ok (acc.reverse, ⟨tb ++ '\n' :: Y, l + 1⟩) := by
  have hsp2 : ∀ d ∈ '\n' :: ind, isSpace d = true := by
    intro d hd
    rcases List.mem_cons.mp hd with rfl | hd
    · rfl
    · exact hind.isSpace d hd
  have hnl2 : nlCount ('\n' :: ind) = 1 := by rw [nlCount_cons_nl, hind.nlCount]
  have hstop' : stopsAt valueSettings (warnBody ++ '\n' :: Y) = true := by rfl
  have hhash : nextWord valueSettings ⟨('\n' :: ind) ++ '#' :: (warnBody ++ '\n' :: Y), l⟩
      = .ok (some ({ value := ['#'], quote := none, line := some (l + 1) },
                   ⟨warnBody ++ '\n' :: Y, l + 1⟩)) := by
    unfold nextWord
    simp only []
    rw [nextWordAux_skip valueSettings ('\n' :: ind) _ hsp2, hnl2]
    have := nextWordAux_plain valueSettings '#' [] (warnBody ++ '\n' :: Y) (l + 1) (by rfl) (by rfl)
      (by rfl) (by rfl) (by intro d hd; simp at hd) hstop'
    simpa using this
  obtain ⟨m, rfl⟩ : ∃ m, fuel = m + 1 := ⟨fuel - 1, by omega⟩
  obtain ⟨tb, htb, hbody⟩ := cAA_comment_body Y (l + 1) hnext warnBody.length warnBody (Nat.le_refl _)
    { value := ['#'], quote := none, line := some (l + 1) } m acc (by omega) rfl
    (by rw [isUnq_backslash]; exact warnBody_ok_ar2)
  refine ⟨tb, htb, ?_⟩
  have e : ('\n' :: warnRest ind Y) = ('\n' :: ind) ++ '#' :: (warnBody ++ '\n' :: Y) := rfl
  rw [e, cAA_hash m _ _ _ _ _ hhash rfl rfl, hbody]

/-- where the collector stops after the warning line -/
def AfterWarn (Y : Str) (l : Nat) (ci : CI) : Prop := ∃ tb, InlineSpace tb ∧ ci = ⟨tb ++ '\n' :: Y, l + 1⟩

/-- `cAA_words` with the warning line after the words -/
theorem cAA_words_warn_ar3 (ind Y : Str) (hind : Blank ind)
    (hnext : ∀ c, firstNonSpace Y = some c → isQuoteChar c = false) :
    ∀ (ws : List Word) (fuel l l0 : Nat) (same : Bool) (last : Word) (acc : List Word),
      (∀ w ∈ ws, goodWord w = true) → chainOK same ws = true → ws.length + (warnBody.length + 3) ≤ fuel →
      last.line = some l0 → l0 ≤ l → (same = true → l0 = l) → isUnq last "\\" = false →
      ∃ ci', AfterWarn Y (endLine l ws) ci' ∧
        collectAssignedAux fuel ⟨wordsText ws ++ '\n' :: warnRest ind Y, l⟩ last false acc
          = .ok (acc.reverse ++ reline l ws, ci') := by
  intro ws
  induction ws with
  | nil =>
    intro fuel l l0 same last acc _ _ hf hl hle _ hbs
    obtain ⟨tb, htb, hrun⟩ := cAA_warn_end_ar3 ind Y hind hnext fuel l last acc (by simpa using hf)
    refine ⟨_, ⟨tb, htb, rfl⟩, ?_⟩
    simp only [wordsText, List.nil_append, reline, endLine, List.append_nil]
    exact hrun
  | cons w ws ih =>
    intro fuel l l0 same last acc hgood hchain hf hl hle hsame hbs
    obtain ⟨f, rfl⟩ : ∃ f, fuel = f + 1 := ⟨fuel - 1, by simp at hf; omega⟩
    have hf' : ws.length + (warnBody.length + 3) ≤ f := by simp at hf; omega
    have hgw := hgood w (by simp)
    have hgood' : ∀ v ∈ ws, goodWord v = true := fun v hv => hgood v (by simp [hv])
    rw [chainOK, Bool.and_eq_true] at hchain
    obtain ⟨hc1, hc2⟩ := hchain
    have htext : wordsText (w :: ws) ++ '\n' :: warnRest ind Y
        = [' '] ++ w.str ++ (wordsText ws ++ '\n' :: warnRest ind Y) := by simp [wordsText]
    rw [htext]
    cases hq : w.quote with
    | some q =>
      have hstr : w.str = quoteStr q w.value := by simp [Word.str, hq]
      have hw : nextWord valueSettings ⟨[' '] ++ w.str ++ (wordsText ws ++ '\n' :: warnRest ind Y), l⟩
          = .ok (some ({ value := w.value, quote := some q, line := some l },
                       ⟨wordsText ws ++ '\n' :: warnRest ind Y, l + nlCount w.value⟩)) := by
        unfold nextWord
        simp only []
        rw [List.append_assoc, nextWordAux_skip valueSettings [' '] _ space_blank, nlCount_blank,
          Nat.add_zero, hstr,
          Phil.C03.next_word_of_quoted valueSettings q w.value _ l rfl
            (wordsText_tail_not_quote ws (warnRest ind Y) q)]
      obtain ⟨ci', hP, hrec⟩ := ih f (l + nlCount w.value) l (nlCount w.value == 0)
        { value := w.value, quote := some q, line := some l }
        ({ value := w.value, quote := some q, line := some l } :: acc) hgood' hc2 hf' rfl (by omega)
        (by intro h; simp at h; omega) (by simp [isUnq])
      refine ⟨ci', by simpa [endLine] using hP, ?_⟩
      rw [cAA_quoted f _ _ last _ acc q hw rfl, hrec]
      have : ({ w with line := some l } : Word) = { value := w.value, quote := some q, line := some l } := by
        rw [← hq]
      simp [reline, endLine, this]
    | none =>
      have hpw : plainWord w.value = true := by simpa [goodWord, hq] using hgw
      have hsm : same = true := by simpa [hq] using hc1
      have hll : l0 = l := hsame hsm
      have hstr : w.str = w.value := by simp [Word.str, hq]
      have hnl := plainWord_nlCount hpw
      have hw := nextWord_value_plain [' '] w.value (wordsText ws ++ '\n' :: warnRest ind Y) l space_blank hpw
        (wordsText_tail_stops ws (warnRest ind Y))
      rw [nlCount_blank, Nat.add_zero] at hw
      obtain ⟨c, t, e, hall, hqc, hb, hh⟩ := plainWord_cases hpw
      have hsv : isSpecialValue w.value = false := by rw [e]; exact not_special_of_plain hall hh
      have hbv : w.value ≠ ['\\'] := by rw [e]; exact hb
      obtain ⟨ci', hP, hrec⟩ := ih f l l (nlCount w.value == 0)
        { value := w.value, quote := none, line := some l }
        ({ value := w.value, quote := none, line := some l } :: acc) hgood' hc2 hf' rfl (Nat.le_refl _)
        (fun _ => rfl) (by rw [isUnq_backslash]; simpa using hbv)
      refine ⟨ci', by simpa [endLine, hnl] using hP, ?_⟩
      rw [hstr, cAA_take f _ _ last _ acc hw rfl hsv hbv (by rw [hl, hll]), hrec]
      have : ({ w with line := some l } : Word) = { value := w.value, quote := none, line := some l } := by
        rw [← hq]
      simp [reline, endLine, this, hnl]

/-- `cAA_quotedSeq_art` with the warning line after the quoted words -/
theorem cAA_quotedSeq_warn_ar3 (ind Y : Str) (hind : Blank ind)
    (hnext : ∀ c, firstNonSpace Y = some c → isQuoteChar c = false) :
    ∀ (seq : List (Str × Str)) (fuel l l0 : Nat) (last : Word) (acc : List Word),
      (∀ x ∈ seq, x.1 ≠ [] ∧ ∀ d ∈ x.1, isSpace d = true) → seq.length + (warnBody.length + 3) ≤ fuel →
      last.line = some l0 → l0 ≤ l → isUnq last "\\" = false →
      ∃ l' ci', AfterWarn Y l' ci' ∧
        collectAssignedAux fuel ⟨quotedSeq seq ++ '\n' :: warnRest ind Y, l⟩ last false acc
          = .ok (acc.reverse ++ quotedWords l seq, ci') := by
  intro seq
  induction seq with
  | nil =>
    intro fuel l l0 last acc _ hf hl hle hbs
    obtain ⟨tb, htb, hrun⟩ := cAA_warn_end_ar3 ind Y hind hnext fuel l last acc (by simpa using hf)
    refine ⟨l, _, ⟨tb, htb, rfl⟩, ?_⟩
    simp only [quotedSeq, List.nil_append, quotedWords, List.append_nil]
    exact hrun
  | cons x xs ih =>
    intro fuel l l0 last acc hsp hf hl hle hbs
    obtain ⟨sp, p⟩ := x
    obtain ⟨f, rfl⟩ : ∃ f, fuel = f + 1 := ⟨fuel - 1, by simp at hf; omega⟩
    have hf' : xs.length + (warnBody.length + 3) ≤ f := by simp at hf; omega
    obtain ⟨_, hs⟩ := hsp (sp, p) (by simp)
    have hsp' : ∀ y ∈ xs, y.1 ≠ [] ∧ ∀ d ∈ y.1, isSpace d = true := fun y hy => hsp y (by simp [hy])
    have hw : nextWord valueSettings ⟨quotedSeq ((sp, p) :: xs) ++ '\n' :: warnRest ind Y, l⟩
        = .ok (some ({ value := p, quote := some .d1, line := some (l + nlCount sp) },
                     ⟨quotedSeq xs ++ '\n' :: warnRest ind Y, l + nlCount sp + nlCount p⟩)) := by
      unfold nextWord
      simp only [quotedSeq, List.append_assoc]
      rw [nextWordAux_skip valueSettings sp _ hs,
        Phil.C03.next_word_of_quoted valueSettings .d1 p _ _ rfl (quotedSeq_head_art xs (warnRest ind Y) hsp')]
    obtain ⟨l', ci', hP, hrec⟩ := ih f (l + nlCount sp + nlCount p) (l + nlCount sp)
      { value := p, quote := some .d1, line := some (l + nlCount sp) }
      ({ value := p, quote := some .d1, line := some (l + nlCount sp) } :: acc) hsp' hf' rfl (by omega)
      (by simp [isUnq])
    refine ⟨l', ci', hP, ?_⟩
    rw [cAA_quoted f _ _ last _ acc .d1 hw rfl, hrec]
    simp [quotedWords]

/-- **the text `T` of an attribute or value line is read as `v` when the warning line follows**: the
    words are those read without the warning line; the collector stops after the warning line -/
def ReadsAsW (T : Str) (f : List Word → R AttrVal) (v : AttrVal) : Prop :=
  ∀ (ind Y : Str) (l : Nat) (lead : Word), lead.line = some l → isUnq lead "\\" = false → Blank ind →
    (∀ c, firstNonSpace Y = some c → isQuoteChar c = false) →
    ∃ ws l' tb, InlineSpace tb ∧
      collectAssigned ⟨T ++ '\n' :: warnRest ind Y, l⟩ lead = .ok (ws, ⟨tb ++ '\n' :: Y, l' + 1⟩) ∧
      f ws = .ok v

theorem warnRest_length_ar3 (ind Y : Str) : warnBody.length + 2 ≤ (warnRest ind Y).length := by
  simp only [warnRest, List.length_append, List.length_cons]; omega

theorem readsAsW_words_ar3 (ws : List Word) (f : List Word → R AttrVal) (v : AttrVal)
    (hne : ws ≠ []) (hgood : ∀ w ∈ ws, goodWord w = true) (hnl : ∀ w ∈ ws, nlCount w.value = 0)
    (hf : ∀ l, f (atLine l ws) = .ok v) : ReadsAsW (wordsText ws) f v := by
  intro ind Y l lead hl hbs hind hnext
  have hlen : ws.length + (warnBody.length + 3) ≤ (wordsText ws ++ '\n' :: warnRest ind Y).length + 1 := by
    have := wordsText_length_ge ws
    have := warnRest_length_ar3 ind Y
    simp only [List.length_append, List.length_cons]; omega
  obtain ⟨ci', ⟨tb, htb, rfl⟩, hrun⟩ := cAA_words_warn_ar3 ind Y hind hnext ws _ l l true lead []
    hgood (chainOK_plain_art ws hnl) hlen hl (Nat.le_refl _) (fun _ => rfl) hbs
  refine ⟨reline l ws, endLine l ws, tb, htb, ?_, ?_⟩
  · unfold collectAssigned
    simp only []
    rw [hrun]
    have : (reline l ws).isEmpty = false := by
      cases ws with
      | nil => exact absurd rfl hne
      | cons w ws => simp [reline]
    simp [this]
  · rw [reline_noNl l ws hnl]; exact hf l

theorem readsAsW_quotedSeq_ar3 (indent : Str) (hind : ∀ d ∈ indent, d = ' ') (pieces : List Str)
    (hne : pieces ≠ []) (f : List Word → R AttrVal) (hf : ∀ ws, f ws = .ok (strFromWords ws)) :
    ReadsAsW (quotedSeq (seqOf indent pieces)) f (.str (joinWith [' '] pieces)) := by
  intro ind Y l lead hl hbs hindb hnext
  have hseqne : seqOf indent pieces ≠ [] := by cases pieces <;> simp_all [seqOf]
  obtain ⟨l', ci', ⟨tb, htb, rfl⟩, hrun⟩ := cAA_quotedSeq_warn_ar3 ind Y hindb hnext (seqOf indent pieces)
    ((quotedSeq (seqOf indent pieces) ++ '\n' :: warnRest ind Y).length + 1) l l lead []
    (seqOf_space_art indent hind pieces)
    (by have := quotedSeq_length_art (seqOf indent pieces)
        have := warnRest_length_ar3 ind Y
        simp only [List.length_append, List.length_cons]; omega)
    hl (Nat.le_refl _) hbs
  refine ⟨quotedWords l (seqOf indent pieces), l', tb, htb, ?_, ?_⟩
  · unfold collectAssigned
    simp only []
    rw [hrun]
    have : (quotedWords l (seqOf indent pieces)).isEmpty = false := by
      cases hs : seqOf indent pieces with
      | nil => exact absurd hs hseqne
      | cons x xs => obtain ⟨sp, p⟩ := x; simp [quotedWords]
    simp [this]
  · rw [hf, strFromWords_quotedWords_art _ _ hseqne, seqOf_snd_art]

/-! ### every attribute line of the class, with the warning line after it -/

theorem attr_line_value_W_ar3 (isDef : Bool) (pre : Str) (width : Int) (n : String) (v : AttrVal)
    (hs : ∀ s, v ≠ .str s) (hk : kindOK (kindOf isDef n) v = true) :
    ReadsAsW (attrTail pre width n v) (attrValueOf isDef n) v := by
  obtain ⟨h1, h2, h3, h4⟩ := valueWords_text_art _ v hs hk
  have htail : attrTail pre width n v = ' ' :: v.pyStr := by
    cases v <;> first | rfl | exact absurd rfl (hs _)
  rw [htail, ← h2]
  refine readsAsW_words_ar3 _ _ v h1 h3 h4 (fun l => ?_)
  rw [attrValueOf_kind_art]
  exact kindValue_valueWords_art _ v hs hk l

theorem attr_line_str_W_ar3 (isDef : Bool) (pre : Str) (width : Int) (n : String) (s : Str)
    (hk : kindOf isDef n = .str) (hfit : strOneLine pre width n s = true) :
    ReadsAsW (attrTail pre width n (.str s)) (attrValueOf isDef n) (.str s) := by
  have htail : attrTail pre width n (.str s) = ' ' :: strPrinted pre width n s := by
    simp only [attrTail, hfit, ↓reduceIte]
  rw [htail]
  have hval : ∀ ws, attrValueOf isDef n ws = .ok (strFromWords ws) := by
    intro ws; rw [attrValueOf_kind_art, hk]; rfl
  by_cases hq : strNeedQuote pre width n s = true
  · have e : ' ' :: strPrinted pre width n s = wordsText [{ value := s, quote := some .d1 }] := by
      simp [strPrinted, hq, wordsText, Word.str]
    rw [e]
    intro ind Y l lead hl hbs hind hnext
    have hlen : [({ value := s, quote := some .d1 } : Word)].length + (warnBody.length + 3)
        ≤ (wordsText [({ value := s, quote := some .d1 } : Word)] ++ '\n' :: warnRest ind Y).length + 1 := by
      have := wordsText_length_ge [({ value := s, quote := some .d1 } : Word)]
      have := warnRest_length_ar3 ind Y
      simp only [List.length_append, List.length_cons] at *; omega
    obtain ⟨ci', ⟨tb, htb, rfl⟩, hrun⟩ := cAA_words_warn_ar3 ind Y hind hnext
      [{ value := s, quote := some .d1 }] _ l l true lead [] (by simp [goodWord]) (by simp [chainOK]) hlen hl
      (Nat.le_refl _) (fun _ => rfl) hbs
    refine ⟨reline l [{ value := s, quote := some .d1 }], endLine l [{ value := s, quote := some .d1 }],
      tb, htb, ?_, ?_⟩
    · unfold collectAssigned
      simp only []
      rw [hrun]
      simp [reline]
    · rw [hval]
      simp [reline, strFromWords_quoted_art]
  · have hq' : strNeedQuote pre width n s = false := by simpa using hq
    simp only [strNeedQuote, Bool.or_eq_false_iff, Bool.not_eq_false', Bool.not_eq_eq_eq_not,
      Bool.not_true] at hq'
    obtain ⟨⟨⟨hid, hn⟩, ha⟩, _⟩ := hq'
    obtain ⟨hne, hchars⟩ := stdIdent_chars_art hid
    obtain ⟨hsafe, hsplit⟩ := safeText_of_chars_art s hne (fun c hc => safeChar_of_idCont_art (hchars c hc))
    have hw := safeWords_facts_art s hsafe
    simp only [safeWords, hsplit, List.map_cons, List.map_nil] at hw
    have e : ' ' :: strPrinted pre width n s = wordsText [plainW s] := by
      rw [hw.2.1]; simp [strPrinted, hq]
    rw [e]
    refine readsAsW_words_ar3 _ _ _ hw.1 hw.2.2.1 hw.2.2.2.1 (fun l => ?_)
    rw [hval]
    simp only [atLine, plainW, List.map_cons, List.map_nil]
    rw [strFromWords_single_plain_art s _ _ (lower_ne_of_beq_art hn) (lower_ne_of_beq_art ha)]

theorem attr_line_wrap_W_ar3 (isDef : Bool) (pre : Str) (hb : Blank pre) (width : Int) (n : String) (s : Str)
    (hk : kindOf isDef n = .str) (h : strWrapOK pre width n s = true) :
    ReadsAsW (attrTail pre width n (.str s)) (attrValueOf isDef n) (.str s) := by
  simp only [strWrapOK, Bool.and_eq_true, Bool.not_eq_true', decide_eq_true_eq] at h
  obtain ⟨⟨⟨hnot, hroom⟩, hss⟩, htab⟩ := h
  have hs : joinWith [' '] (splitOn ' ' s) = s := joinWith_splitOn_art ' ' s
  have hw : ∀ w ∈ splitOn ' ' s, twWord w = true := fun w hw => (List.all_eq_true.mp hss) w hw
  have hesc : escape '"' s = joinWith [' '] ((splitOn ' ' s).map (escape '"')) := by
    conv => lhs; rw [← hs]
    exact escape_joinWith_art '"' (by decide) _
  have hew : ∀ w ∈ (splitOn ' ' s).map (escape '"'), twWord w = true := by
    intro w hw'
    obtain ⟨w0, h0, rfl⟩ := List.mem_map.mp hw'
    exact twWord_escape_art (hw w0 h0)
  obtain ⟨groups, hfl, hgne, hwrap⟩ := twWrap_singleSpaced_art _ hew (wrapWidth pre width n).toNat
  obtain ⟨groups0, hg0, hfl0⟩ := flatten_eq_map_art (escape '"') groups (splitOn ' ' s) hfl
  have hg0ne : ∀ g ∈ groups0, g ≠ [] := by
    intro g hg e
    subst e
    exact hgne [] (by rw [hg0]; exact List.mem_map.mpr ⟨[], hg, rfl⟩) rfl
  have hblocks : twWrap (escape '"' s) (wrapWidth pre width n).toNat
      = (groups0.map (joinWith [' '])).map (escape '"') := by
    rw [hesc, hwrap, hg0, List.map_map, List.map_map]
    apply List.map_congr_left
    intro g _
    simp only [Function.comp_def]
    exact (escape_joinWith_art '"' (by decide) g).symm
  have hpieces : joinWith [' '] (groups0.map (joinWith [' '])) = s := by
    rw [joinWith_flatten_art groups0 hg0ne, hfl0, hs]
  have hpne : groups0.map (joinWith [' ']) ≠ [] := by
    intro e
    have : groups0 = [] := by simpa using e
    rw [this] at hfl0
    exact splitOn_ne_nil ' ' s hfl0.symm
  have hind : ∀ d ∈ attrIndent pre n, d = ' ' := by
    intro d hd
    simp only [attrIndent, List.mem_append] at hd
    rcases hd with h | h
    · exact hb d h
    · simp only [spaces, List.mem_replicate] at h; exact h.2
  have htail : attrTail pre width n (.str s) = quotedSeq (seqOf (attrIndent pre n) (groups0.map (joinWith [' ']))) := by
    simp only [attrTail, hnot, Bool.false_eq_true, ↓reduceIte]
    rw [hblocks, wrapT_seq_art]
  rw [htail]
  have := readsAsW_quotedSeq_ar3 (attrIndent pre n) hind (groups0.map (joinWith [' '])) hpne
    (attrValueOf isDef n) (fun ws => by rw [attrValueOf_kind_art, hk]; rfl)
  rw [hpieces] at this
  exact this

/-- **every attribute line of the class is read back when the warning line follows it** -/
theorem attr_line_W_ar3 (isDef : Bool) (pre : Str) (hb : Blank pre) (width : Int) (n : String) (v : AttrVal)
    (h : attrOK isDef pre width n v = true) :
    ReadsAsW (attrTail pre width n v) (attrValueOf isDef n) v := by
  by_cases hs : ∃ s, v = .str s
  · obtain ⟨s, rfl⟩ := hs
    simp only [attrOK, Bool.and_eq_true, beq_iff_eq, strOK, Bool.or_eq_true] at h
    rcases h.2 with h2 | h2
    · exact attr_line_str_W_ar3 isDef pre width n s h.1 h2
    · exact attr_line_wrap_W_ar3 isDef pre hb width n s h.1 h2
  · have hs' : ∀ s, v ≠ .str s := fun s e => hs ⟨s, e⟩
    have hk : kindOK (kindOf isDef n) v = true := by
      cases v <;> first | exact h | exact absurd rfl (hs' _)
    exact attr_line_value_W_ar3 isDef pre width n v hs' hk

/-! ## Part 2: `collect_objects` on the attribute block in front of the warning line -/

/-- what follows a definition when a deprecated definition comes next: the warning line, then text `Y`
    that starts (after white space) with an unquoted structural word -/
def WarnNext (more : Str) : Prop :=
  ∃ ind Y, Blank ind ∧ more = warnRest ind Y ∧
    (∀ c, firstNonSpace Y = some c → isQuoteChar c = false) ∧
    ∀ l, ∃ r, nextWordAux structSettings false Y l = .ok (some r)

/-- one turn of `collect_objects` on the LAST attribute line `.name = T⏎` of a definition, the warning
    line following: the parser continues in front of the warning line -/
theorem collectObjects_defn_attr_W_ar3 (fuel : Nat) (stop : Option Word) (prevLine : Nat) (acc : List Obj)
    (d : Obj) (sp : Str) (n : String) (T ind Y : Str) (l i : Nat) (v : AttrVal)
    (hsp : ∀ c ∈ sp, isSpace c = true) (hn : n ∈ defAttrNames)
    (hr : ReadsAsW T (defAttrValue n) v) (hind : Blank ind)
    (hq : ∀ c, firstNonSpace Y = some c → isQuoteChar c = false)
    (hs : ∀ l, ∃ r, nextWordAux structSettings false Y l = .ok (some r)) :
    ∃ l', collectObjects (fuel + 1)
        { ci := ⟨sp ++ '.' :: n.toList ++ ' ' :: '=' :: (T ++ '\n' :: warnRest ind Y), l⟩, nextId := i } stop
        prevLine acc (some d)
      = collectObjects fuel { ci := ⟨'\n' :: warnRest ind Y, l'⟩, nextId := i } stop (l + nlCount sp) acc
          (some (d.withMeta (fun m => { m with attrs := m.attrs ++ [(n, v)] }))) := by
  have hok : attrNameOK n = true := attrNames_ok_art n (List.mem_append_left _ hn)
  have h1 := nextWord_attr_name_art sp ('=' :: (T ++ '\n' :: warnRest ind Y)) n l hsp hok
  have h2 := nextWord_struct_eq [' '] (T ++ '\n' :: warnRest ind Y) (l + nlCount sp) space_blank
  rw [nlCount_blank, Nat.add_zero] at h2
  have h2' : nextWord structSettings ⟨' ' :: '=' :: (T ++ '\n' :: warnRest ind Y), l + nlCount sp⟩
      = .ok (some ({ value := ['='], quote := none, line := some (l + nlCount sp) },
                   ⟨T ++ '\n' :: warnRest ind Y, l + nlCount sp⟩)) := h2
  obtain ⟨ws, l', tb, htb, h3, hv⟩ := hr ind Y (l + nlCount sp)
    { value := '.' :: n.toList, quote := none, line := some (l + nlCount sp) } rfl
    (by simp [isUnq]) hind hq
  refine ⟨l', ?_⟩
  have hcont : defAttrNames.contains n = true := by simpa using hn
  rw [collectObjects_attr_step_art fuel
    { ci := ⟨sp ++ '.' :: n.toList ++ ' ' :: '=' :: (T ++ '\n' :: warnRest ind Y), l⟩, nextId := i } stop prevLine
    acc d _ _ _ _ _ ws n v h1 rfl (by simp) (by simp) (by simp) (stripBang_of_not_bang _ (by simp))
    (by simp) (by simp [String.ofList_toList]) hcont h2' rfl rfl h3 hv]
  have := collectObjects_after_warn_ar2 fuel tb ind Y l' i stop (l + nlCount sp) acc
    (some (d.withMeta (fun m => { m with attrs := m.attrs ++ [(n, v)] }))) htb hind (hs (l' + 2))
  rw [warnRest_eq_ar3] at this
  exact this

theorem shownCount_zero_ar3 (pre : Str) (level width : Int) (attrs : Attrs) :
    ∀ (ns : List String), shownCount level attrs ns = 0 →
      attrsTextRT pre level width attrs ns = [] ∧ shownList level attrs ns = [] := by
  intro ns
  induction ns with
  | nil => intro _; exact ⟨rfl, rfl⟩
  | cons n ns ih =>
    intro h
    rw [shownCount_cons_art] at h
    by_cases hsh : attrShown level n (attrs.get n) = true
    · rw [if_pos hsh] at h; omega
    · rw [if_neg hsh, Nat.zero_add] at h
      obtain ⟨a, b⟩ := ih h
      rw [attrsTextRT, if_neg hsh, shownList_cons_art, if_neg hsh, a, b]
      exact ⟨rfl, rfl⟩

/-- a non-empty attribute block starts with `.` -/
theorem NextOK_attrsText_pos_ar3 (pre : Str) (hb : Blank pre) (level width : Int) (attrs : Attrs)
    (tail : Str) : ∀ ns, 1 ≤ shownCount level attrs ns → NextOK (attrsTextRT pre level width attrs ns ++ tail) := by
  intro ns
  induction ns with
  | nil => intro h; simp [shownCount, shownList] at h
  | cons n ns ih =>
    intro h
    rw [attrsTextRT]
    by_cases hsh : attrShown level n (attrs.get n) = true
    · rw [if_pos hsh, attrLineText_shape_art]
      have := NextOK_dot_art (pre ++ [' ', ' ']) (n.toList ++ ' ' :: '=' ::
        (attrTail pre width n (attrs.get n) ++ ['\n']) ++ (attrsTextRT pre level width attrs ns ++ tail))
        (Blank_deeper2_art hb)
      simpa using this
    · rw [if_neg hsh, List.nil_append]
      rw [shownCount_cons_art, if_neg hsh, Nat.zero_add] at h
      exact ih h

/-- **the attribute lines after a definition, the warning line of a deprecated definition following**:
    each line is one turn of `collect_objects`; the last line swallows the warning line; the parser
    continues in front of the warning line -/
theorem defn_attrs_block_W_ar3 (pre : Str) (hb : Blank pre) (level width : Int) (attrs : Attrs) :
    ∀ (ns : List String), (∀ n ∈ ns, n ∈ defAttrNames) →
      attrsOKList true pre level width attrs ns = true → 1 ≤ shownCount level attrs ns →
      ∀ (fuel : Nat) (ind Y : Str) (l i : Nat) (stop : Option Word) (prevLine : Nat) (acc : List Obj)
        (d : Obj), Blank ind → (∀ c, firstNonSpace Y = some c → isQuoteChar c = false) →
        (∀ l, ∃ r, nextWordAux structSettings false Y l = .ok (some r)) →
        ∃ l' prevLine',
          collectObjects (fuel + shownCount level attrs ns)
              { ci := ⟨'\n' :: (attrsTextRT pre level width attrs ns ++ warnRest ind Y), l⟩, nextId := i } stop
              prevLine acc (some d)
            = collectObjects fuel { ci := ⟨'\n' :: warnRest ind Y, l'⟩, nextId := i } stop prevLine' acc
                (some (d.withMeta (fun m => { m with attrs := m.attrs ++ shownList level attrs ns }))) := by
  intro ns
  induction ns with
  | nil => intro _ _ h; simp [shownCount, shownList] at h
  | cons n ns ih =>
    intro hmem hok hpos fuel ind Y l i stop prevLine acc d hind hq hs
    have hok' := hok
    simp only [attrsOKList, List.all_cons, Bool.and_eq_true, Bool.or_eq_true, Bool.not_eq_true'] at hok'
    have hmem' : ∀ m ∈ ns, m ∈ defAttrNames := fun m hm => hmem m (by simp [hm])
    by_cases hsh : attrShown level n (attrs.get n) = true
    · have haok : attrOK true pre width n (attrs.get n) = true := by
        rcases hok'.1 with h1 | h1
        · rw [hsh] at h1; cases h1
        · exact h1
      have hsp : ∀ c ∈ '\n' :: (pre ++ [' ', ' ']), isSpace c = true := by
        intro c hc
        rcases List.mem_cons.mp hc with rfl | hc
        · rfl
        · exact Blank_deeper2_art hb c hc
      have hfuel : fuel + shownCount level attrs (n :: ns) = fuel + shownCount level attrs ns + 1 := by
        rw [shownCount_cons_art, if_pos hsh]; omega
      have htext : '\n' :: (attrsTextRT pre level width attrs (n :: ns) ++ warnRest ind Y)
          = ('\n' :: (pre ++ [' ', ' '])) ++ '.' :: n.toList ++ ' ' :: '=' ::
              (attrTail pre width n (attrs.get n) ++ '\n' :: (attrsTextRT pre level width attrs ns ++ warnRest ind Y)) := by
        rw [attrsTextRT, if_pos hsh, attrLineText_shape_art]
        simp
      by_cases hz : shownCount level attrs ns = 0
      · obtain ⟨ht0, hl0⟩ := shownCount_zero_ar3 pre level width attrs ns hz
        have hreads := attr_line_W_ar3 true pre hb width n _ haok
        obtain ⟨l1, hstep⟩ := collectObjects_defn_attr_W_ar3 fuel stop prevLine acc
          d ('\n' :: (pre ++ [' ', ' '])) n (attrTail pre width n (attrs.get n)) ind Y l i (attrs.get n) hsp
          (hmem n (by simp)) hreads hind hq hs
        refine ⟨l1, l + nlCount ('\n' :: (pre ++ [' ', ' '])), ?_⟩
        rw [hfuel, htext, hz, ht0, List.nil_append, Nat.add_zero, hstep, shownList_cons_art, if_pos hsh, hl0,
          List.append_nil]
      · obtain ⟨_, hreads⟩ := attr_line_art true pre hb width n _ haok
        have hrest := NextOK_attrsText_pos_ar3 pre hb level width attrs (warnRest ind Y) ns (by omega)
        obtain ⟨l1, hstep⟩ := collectObjects_defn_attr_art (fuel + shownCount level attrs ns) stop prevLine acc
          d ('\n' :: (pre ++ [' ', ' '])) n (attrTail pre width n (attrs.get n))
          (attrsTextRT pre level width attrs ns ++ warnRest ind Y) l i (attrs.get n) hsp (hmem n (by simp)) hreads hrest
        obtain ⟨l', prevLine', hrec⟩ := ih hmem' hok'.2 (by omega) fuel ind Y l1 i stop
          (l + nlCount ('\n' :: (pre ++ [' ', ' ']))) acc
          (d.withMeta (fun m => { m with attrs := m.attrs ++ [(n, attrs.get n)] })) hind hq hs
        refine ⟨l', prevLine', ?_⟩
        rw [hfuel, htext, hstep, hrec, withMeta_attrs_append_art, shownList_cons_art, if_pos hsh]
    · have hpos' : 1 ≤ shownCount level attrs ns := by
        rw [shownCount_cons_art, if_neg hsh, Nat.zero_add] at hpos; exact hpos
      obtain ⟨l', prevLine', hrec⟩ := ih hmem' hok'.2 hpos' fuel ind Y l i stop prevLine acc d hind hq hs
      refine ⟨l', prevLine', ?_⟩
      rw [shownCount_cons_art, if_neg hsh, Nat.zero_add, attrsTextRT, if_neg hsh, List.nil_append, hrec,
        shownList_cons_art, if_neg hsh, List.nil_append]

/-- from level 3 on `.expert_level` is always printed: the attribute block of a definition is not empty -/
theorem shownCount_pos_level3_ar3 (level : Int) (h3 : 3 ≤ level) (attrs : Attrs) :
    1 ≤ shownCount level attrs (attrNamesOf true) := by
  have hsh : attrShown level "expert_level" (attrs.get "expert_level") = true := by
    rw [attrShown_eq_B_art]
    have h1 : decide (level > 1) = true := by simp; omega
    have h2 : decide (level > 2) = true := by simp; omega
    rw [h1, h2]
    have key : ∀ t i : Bool, attrShownB false false false t i true true = true := by decide
    exact key _ _
  have hmem : ("expert_level", attrs.get "expert_level") ∈ shownList level attrs (attrNamesOf true) := by
    unfold shownList
    rw [List.mem_filterMap]
    exact ⟨"expert_level", by decide, by rw [if_pos hsh]⟩
  unfold shownCount
  cases hh : shownList level attrs (attrNamesOf true) with
  | nil => rw [hh] at hmem; cases hmem
  | cons a b => simp

/-- what may follow a definition: ordinary text (`NextOK`) or, from level 3 on, the warning line -/
def FollowOK (L : Int) (more : Str) : Prop := NextOK more ∨ (3 ≤ L ∧ WarnNext more)

theorem defn_attrs_block2_W_ar3 (pre : Str) (hb : Blank pre) (level width : Int) (attrs : Attrs)
    (hok : attrsOK true pre level width attrs = true)
    (fuel : Nat) (more : Str) (l i : Nat) (stop : Option Word) (prevLine : Nat) (acc : List Obj)
    (d : Obj) (hnext : FollowOK level more) :
    ∃ l' prevLine',
      collectObjects (fuel + (shownAttrs true level attrs).length)
          { ci := ⟨'\n' :: (attrBlock true pre level width attrs ++ more), l⟩, nextId := i } stop prevLine
          acc (some d)
        = collectObjects fuel { ci := ⟨'\n' :: more, l'⟩, nextId := i } stop prevLine' acc
            (some (d.withMeta (fun m => { m with attrs := m.attrs ++ shownAttrs true level attrs }))) := by
  rcases hnext with hnext | ⟨h3, ind, Y, hind, rfl, hq, hs⟩
  · exact defn_attrs_block2_art pre hb level width attrs hok fuel more l i stop prevLine acc d hnext
  · unfold attrBlock shownAttrs
    have hl : ¬ level ≤ 0 := by omega
    simp only [hl, ↓reduceIte]
    have h' : attrsOKList true pre level width attrs (attrNamesOf true) = true := by
      simpa [attrsOK, hl] using hok
    exact defn_attrs_block_W_ar3 pre hb level width attrs (attrNamesOf true) (fun n hn => hn) h'
      (shownCount_pos_level3_ar3 level h3 attrs) fuel ind Y l i stop prevLine acc d hind hq hs

theorem NextOK_attrBlock_W_ar3 (pre : Str) (hb : Blank pre) (level width : Int) (attrs : Attrs)
    (more : Str) (ht : FollowOK level more) : NextOK (attrBlock true pre level width attrs ++ more) := by
  rcases ht with ht | ⟨h3, _⟩
  · exact NextOK_attrBlock_art true pre hb level width attrs more ht
  · unfold attrBlock
    have hl : ¬ level ≤ 0 := by omega
    simp only [hl, ↓reduceIte]
    exact NextOK_attrsText_pos_ar3 pre hb level width attrs more _ (shownCount_pos_level3_ar3 level h3 attrs)

/-! ## Part 3: the tree induction without the placement hypothesis -/

/-- the warning line followed by an item at the same indentation is a `WarnNext` text -/
theorem warnNext_name_ar3 (ind nm V : Str) (hb : Blank ind) (hn : ItemName nm) :
    WarnNext (ind ++ ("# WARNING: deprecated parameter\n".toList ++ (ind ++ nm ++ ' ' :: V))) := by
  refine ⟨ind, ind ++ nm ++ ' ' :: V, hb, warnRest_eq_ar3 _ _,
    fun c hc => (NextOK_name ind nm _ hb hn c hc).1, fun l => ?_⟩
  obtain ⟨c, wd, e, hs, hall⟩ := hn.chars
  have hcont := idStart_cont hs
  obtain ⟨_, _, _, _, h5, _, _, h8, _⟩ := idCont_facts hcont
  have hc := idCont_not_ends hcont
  have hcm : structSettings.commentChars.contains c = false := by
    simp [structSettings, Gen.structComment, h5]
  rw [List.append_assoc, nextWordAux_skip structSettings ind _ hb.isSpace, e]
  exact ⟨_, nextWordAux_plain structSettings c wd ([' '] ++ V) _ hc (idCont_not_quote hcont) hcm
    (startsLong_of_not_ends rfl hc) (fun d hd => idCont_not_ends (hall d (by simp [hd])))
    (ends_of_isSpace _ (space_blank ' ' (by simp)))⟩

/-- the text of a tree that starts with a deprecated definition: level ≥ 3, and the text is the warning
    line followed by the item -/
theorem warnNext_treeA_ar3 (L w : Int) (x : Obj) :
    ∀ (ms : List Str) (ind more : Str), GoodPath ms → Blank ind → RTNode ms x.stripAttrs →
      x.attrsOKAt L w ind = true → x.startsDep = true →
      3 ≤ L ∧ WarnNext (treeTextA L w x ms ind ++ more) := by
  induction x using Obj.rec
    (motive_2 := fun os => ∀ (ms : List Str) (ind more : Str), GoodPath ms → Blank ind →
      RTOne ms (stripAttrsList os) → attrsOKsAt L w os ind = true → startsDepList os = true →
      3 ≤ L ∧ WarnNext (kidsTextA L w os ms ind ++ more)) with
  | defn m ws =>
    intro ms ind more hp hb h hok hd
    rw [Obj.stripAttrs_defn] at h
    unfold RTNode at h
    obtain ⟨_, hn, hres, _⟩ := h
    have hdep : depSet m = true := by simpa [Obj.startsDep] using hd
    simp only [Obj.attrsOKAt, Bool.and_eq_true, hdep, Bool.not_true, Bool.false_or, decide_eq_true_eq] at hok
    refine ⟨hok.2, ?_⟩
    have hw := warnNext_name_ar3 ind (dottedName ms m.name)
      ('=' :: (wrapTail w (ind ++ defIndent (dottedName ms m.name)) ws (ind ++ defHead (dottedName ms m.name))
        ++ '\n' :: (attrBlock true ind L w m.attrs ++ more))) hb (itemName_dotted hp hn hres)
    have e : treeTextA L w (.defn m ws) ms ind ++ more
        = ind ++ ("# WARNING: deprecated parameter\n".toList ++ (ind ++ dottedName ms m.name ++ ' ' ::
            ('=' :: (wrapTail w (ind ++ defIndent (dottedName ms m.name)) ws (ind ++ defHead (dottedName ms m.name))
              ++ '\n' :: (attrBlock true ind L w m.attrs ++ more))))) := by
      rw [treeTextA, warnText, if_pos hdep]
      simp
    rw [e]
    exact hw
  | scope m os ih =>
    intro ms ind more hp hb h hok hd
    rw [Obj.stripAttrs_scope] at h
    unfold RTNode at h
    obtain ⟨_, hn, hk⟩ := h
    rcases hk with ⟨hres, hk⟩ | hk
    · have hfm : firstMerges os = false := by
        rw [← firstMerges_stripAttrsList_ert]; exact hk.firstMerges
      simp [Obj.startsDep, hfm] at hd
    · have hfm : firstMerges os = true := by
        rw [← firstMerges_stripAttrsList_ert]; exact hk.firstMerges
      rw [treeTextA, hfm]
      simp only [Obj.startsDep, hfm, ↓reduceIte] at hd
      simp only [Obj.attrsOKAt, hfm, ↓reduceIte] at hok
      exact ih (ms ++ [m.name]) ind more (hp.snoc hn) hb hk hok hd
  | nil => rename_i ms ind more hp hb h hok hd; simp [startsDepList] at hd
  | cons x xs ihx ihxs =>
    rename_i ms ind more hp hb h hok hd
    rw [stripAttrsList_cons] at h
    unfold RTOne at h
    simp only [attrsOKsAt, Bool.and_eq_true] at hok
    rw [kidsTextA, List.append_assoc]
    exact ihx ms ind _ hp hb h.1 hok.1 (by simpa [startsDepList] using hd)

/-- **what follows a definition inside a block is always acceptable**: ordinary text, or the warning line
    of a deprecated definition (then the level is ≥ 3) -/
theorem followOK_kidsA_ar3 (L w : Int) (os : List Obj) (ind tail : Str) (hb : Blank ind)
    (h : RTAll (stripAttrsList os)) (hok : attrsOKsAt L w os ind = true) (ht : NextOK tail) :
    FollowOK L (kidsTextA L w os [] ind ++ tail) := by
  by_cases hd : startsDepList os = true
  · cases os with
    | nil => simp [startsDepList] at hd
    | cons x xs =>
      rw [stripAttrsList_cons] at h
      unfold RTAll at h
      simp only [attrsOKsAt, Bool.and_eq_true] at hok
      rw [kidsTextA, List.append_assoc]
      exact Or.inr (warnNext_treeA_ar3 L w x [] ind _ (by intro n hn; simp at hn) hb h.1 hok.1
        (by simpa [startsDepList] using hd))
  · exact Or.inl (NextOK_kidsA_art L w os ind tail hb h (by simpa using hd) ht)

/-- `StepAtA` with the weaker condition on what follows a definition -/
def StepAtW (L w : Int) (x : Obj) (ms : List Str) (ind : Str) : Prop :=
  ∀ (fuel : Nat) (pre more : Str) (l i : Nat) (stop : Option Word) (prevLine : Nat) (acc : List Obj)
    (pending : Option Obj),
    (∀ c ∈ pre, isSpace c = true) → x.costA L ≤ fuel → (x.endsVal = true → FollowOK L more) →
    ∃ x' acc' pending' l' prevLine' fuel',
      collectObjects (fuel + 1) { ci := ⟨pre ++ treeTextA L w x ms ind ++ more, l⟩, nextId := i } stop
          prevLine acc pending
        = collectObjects fuel' { ci := ⟨'\n' :: more, l'⟩, nextId := i + x.items } stop prevLine' acc'
            pending' ∧
      fuel + 1 ≤ fuel' + x.costA L ∧
      flush acc' pending' = flush acc pending ++ [x'] ∧
      x'.erase = (nestIn none false ms (x.normA L)).erase ∧
      x'.ids = (List.replicate ms.length i ++ expIds i x).map some

def StepW (L w : Int) (x : Obj) : Prop :=
  ∀ (ms : List Str) (ind : Str), GoodPath ms → Blank ind → RTNode ms x.stripAttrs →
    WrapsOK w x.stripAttrs ms ind → x.attrsOKAt L w ind = true → StepAtW L w x ms ind

theorem stepAtW_of_A_ar3 {L w : Int} {x : Obj} {ms : List Str} {ind : Str} (h : StepAtA L w x ms ind)
    (he : x.endsVal = false) : StepAtW L w x ms ind := by
  intro fuel pre more l i stop prevLine acc pending hpre hf _
  exact h fuel pre more l i stop prevLine acc pending hpre hf (fun h' => by rw [he] at h'; cases h')

/-- the turn for a definition and its attribute lines, a warning line possibly following -/
theorem step_defnW_ar3 (L w : Int) (m : Meta) (ws : List Word) : StepW L w (.defn m ws) := by
  intro ms ind hp hb h hw hok fuel pre more l i stop prevLine acc pending hpre hf hnext0
  have hnext : FollowOK L more := hnext0 (by simp [Obj.endsVal])
  rw [Obj.stripAttrs_defn] at h hw
  unfold RTNode at h
  obtain ⟨hm, hn, hres, hne, hgw⟩ := h
  unfold WrapsOK at hw
  have hname : m.stripAttrs.name = m.name := rfl
  rw [hname] at hn hres hw
  have hm' := meta_eq_of_plain_art hm
  simp only [Obj.attrsOKAt, Bool.and_eq_true] at hok
  have hit := itemName_dotted hp hn hres
  obtain ⟨c, wd, e, hs, hall⟩ := hit.chars
  have hcont := idStart_cont hs
  obtain ⟨_, _, _, _, h5, _, _, h8, _⟩ := idCont_facts hcont
  have hpre' : ∀ d ∈ pre ++ ind, isSpace d = true := by
    intro d hd
    rcases List.mem_append.mp hd with h | h
    · exact hpre d h
    · exact hb.isSpace d h
  have hindent : ∀ d ∈ ind ++ defIndent (dottedName ms m.name), d = ' ' := by
    intro d hd
    rcases List.mem_append.mp hd with h | h
    · exact hb d h
    · exact defIndent_blank _ d h
  have hAB := NextOK_attrBlock_W_ar3 ind hb L w m.attrs more hnext
  have hc := idCont_not_ends hcont
  have hcm : structSettings.commentChars.contains c = false := by
    simp [structSettings, Gen.structComment, h5]
  obtain ⟨L0, hhead⟩ : ∃ L0, ∀ V : Str,
      nextWord structSettings ⟨pre ++ (warnText m ind ++ ind) ++ (c :: wd) ++ ([' '] ++ '=' :: V), l⟩
        = .ok (some ({ value := c :: wd, quote := none, line := some L0 }, ⟨[' '] ++ '=' :: V, L0⟩)) := by
    have hword : ∀ (V : Str) (l1 : Nat), nextWordAux structSettings false ((c :: wd) ++ ([' '] ++ '=' :: V)) l1
        = .ok (some ({ value := c :: wd, quote := none, line := some l1 }, ⟨[' '] ++ '=' :: V, l1⟩)) :=
      fun V l1 => nextWordAux_plain structSettings c wd _ _ hc (idCont_not_quote hcont) hcm
        (startsLong_of_not_ends rfl hc) (fun d hd => idCont_not_ends (hall d (by simp [hd])))
        (ends_of_isSpace _ (space_blank ' ' (by simp)))
    by_cases hd : depSet m = true
    · refine ⟨l + nlCount (pre ++ ind) + 1 + nlCount ind, fun V => ?_⟩
      have ht : pre ++ (warnText m ind ++ ind) ++ (c :: wd) ++ ([' '] ++ '=' :: V)
          = (pre ++ ind) ++ ("# WARNING: deprecated parameter\n".toList ++
              (ind ++ ((c :: wd) ++ ([' '] ++ '=' :: V)))) := by
        simp [warnText, hd]
      unfold nextWord
      simp only []
      rw [ht, nextWordAux_skip structSettings (pre ++ ind) _ hpre', warn_skip_art,
        nextWordAux_skip structSettings ind _ hb.isSpace]
      exact hword V _
    · refine ⟨l + nlCount (pre ++ ind), fun V => ?_⟩
      have ht : pre ++ (warnText m ind ++ ind) ++ (c :: wd) ++ ([' '] ++ '=' :: V)
          = (pre ++ ind) ++ ((c :: wd) ++ ([' '] ++ '=' :: V)) := by
        simp [warnText, hd]
      unfold nextWord
      simp only []
      rw [ht, nextWordAux_skip structSettings (pre ++ ind) _ hpre']
      exact hword V _
  have hci : (⟨pre ++ treeTextA L w (.defn m ws) ms ind ++ more, l⟩ : CI)
      = ⟨pre ++ (warnText m ind ++ ind) ++ (c :: wd) ++ ([' '] ++ '=' ::
          (wrapTail w (ind ++ defIndent (dottedName ms m.name)) ws (ind ++ defHead (dottedName ms m.name))
            ++ '\n' :: (attrBlock true ind L w m.attrs ++ more))), l⟩ := by
    rw [treeTextA, ← e]; simp
  have h2 := fun V => nextWord_struct_eq [' '] V L0 space_blank
  have h3 := collectAssigned_wrapped w (ind ++ defIndent (dottedName ms m.name))
    (ind ++ defHead (dottedName ms m.name)) ws (attrBlock true ind L w m.attrs ++ more)
    (L0 + nlCount [' '])
    { value := c :: wd, quote := none, line := some L0 } hindent hne hgw hw
    (by rw [nlCount_blank]; rfl) (by rw [isUnq_backslash]; simp [h8]) hAB
  obtain ⟨k, hk⟩ : ∃ k, k = (shownAttrs true L m.attrs).length := ⟨_, rfl⟩
  have hcost : (Obj.defn m ws).costA L = 1 + k := by rw [Obj.costA, hk]
  obtain ⟨f0, hf0⟩ : ∃ f0, fuel = f0 + k := ⟨fuel - k, by rw [hcost] at hf; omega⟩
  have hstep := collectObjects_defn_step fuel
    { ci := ⟨pre ++ treeTextA L w (.defn m ws) ms ind ++ more, l⟩, nextId := i } stop prevLine acc pending
    { value := c :: wd, quote := none, line := some L0 }
    { value := ['='], quote := none, line := some (L0 + nlCount [' ']) } _ _ _ _
    (by rw [hci]; exact hhead _) rfl (by rw [← e]; exact hit.defName) (h2 _) rfl rfl h3
  obtain ⟨l', prevLine', hblock⟩ := defn_attrs_block2_W_ar3 ind hb L w m.attrs hok.1 f0 more
    (wrapEnd w (ind ++ defIndent (dottedName ms m.name)) ws (ind ++ defHead (dottedName ms m.name))
      (L0 + nlCount [' '])) (i + 1) stop L0 (flush acc pending)
    (.defn { name := c :: wd, id := some i, line := some L0 }
      (wrapWords w (ind ++ defIndent (dottedName ms m.name)) ws (ind ++ defHead (dottedName ms m.name))
        (L0 + nlCount [' '])))
    hnext
  rw [← hk] at hblock
  refine ⟨wrapDotted (.defn { name := c :: wd, id := some i, line := some L0, attrs := shownAttrs true L m.attrs }
      (wrapWords w (ind ++ defIndent (dottedName ms m.name)) ws (ind ++ defHead (dottedName ms m.name))
        (L0 + nlCount [' '])))
    , flush acc pending,
    some (.defn { name := c :: wd, id := some i, line := some L0, attrs := shownAttrs true L m.attrs }
      (wrapWords w (ind ++ defIndent (dottedName ms m.name)) ws (ind ++ defHead (dottedName ms m.name))
        (L0 + nlCount [' ']))),
    l', prevLine', f0, ?_, by rw [hcost]; omega, by simp [flush, adopt], ?_, ?_⟩
  · rw [hstep]
    simp only [Option.getD_some]
    rw [hf0, hblock]
    simp [withMeta_defn_art, Obj.items]
  · rw [wrapDotted_dotted _ ms m.name (by rw [← e]; rfl)
      (fun n hn' => (hp.snoc hn).noDots n hn') rfl, nestIn_erase, nestIn_erase]
    rw [hm']
    simp only [Obj.withMeta, Obj.normA, Obj.erase_defn, wrapWords_erase]
    rfl
  · rw [wrapDotted_dotted _ ms m.name (by rw [← e]; rfl)
      (fun n hn' => (hp.snoc hn).noDots n hn') rfl, nestIn_ids]
    simp [Obj.withMeta, Obj.ids, expIds, Obj.meta]

/-- a block: the turns of each tree, then the end — no placement condition -/
theorem block_of_stepsW_ar3 (L w : Int) (os : List Obj) (ind : Str) (hb : Blank ind) :
    (∀ x ∈ os, StepAtW L w x [] ind) → RTAll (stripAttrsList os) → attrsOKsAt L w os ind = true →
      BlockAtA L w os ind := by
  induction os with
  | nil => intro _ _ _; exact block_nilA_art L w ind
  | cons x xs ih =>
    intro hs hrt hok fuel pre tail after l i stop prevLine acc pending hpre hf hc
    have hrt' := hrt
    rw [stripAttrsList_cons] at hrt'
    unfold RTAll at hrt'
    have hok' := hok
    simp only [attrsOKsAt, Bool.and_eq_true] at hok'
    obtain ⟨f, rfl⟩ : ∃ f, fuel = f + 1 := ⟨fuel - 1, by omega⟩
    have hfx : x.costA L ≤ f := by simp only [costAList] at hf; omega
    obtain ⟨x', acc', pending', l', prevLine', fuel', hstep, hfu, hflush, her, hid⟩ :=
      hs x (by simp) f pre (kidsTextA L w xs [] ind ++ tail) l i stop prevLine acc pending hpre hfx
        (fun _ => followOK_kidsA_ar3 L w xs ind tail hb hrt'.2 hok'.2 hc.nextOK)
    have hfxs : costAList L xs + 1 ≤ fuel' := by
      simp only [costAList] at hf
      omega
    obtain ⟨objs', st', hrest, hnid, hci, her', hid'⟩ :=
      ih (fun y hy => hs y (by simp [hy])) hrt'.2 hok'.2 fuel' ['\n'] tail after l' (i + x.items) stop
        prevLine' acc' pending' space_nl hfxs hc
    refine ⟨x' :: objs', st', ?_, ?_, hci, ?_, ?_⟩
    · have e : pre ++ kidsTextA L w (x :: xs) [] ind ++ tail
          = pre ++ treeTextA L w x [] ind ++ (kidsTextA L w xs [] ind ++ tail) := by
        rw [kidsTextA]; simp
      rw [e, hstep]
      have e2 : '\n' :: (kidsTextA L w xs [] ind ++ tail) = ['\n'] ++ kidsTextA L w xs [] ind ++ tail := rfl
      rw [e2, hrest, hflush]
      simp
    · rw [hnid, itemsList]; omega
    · rw [eraseList_cons, normAList, eraseList_cons, her', her]; rfl
    · rw [idsList, hid, hid', expIdsSeq]; simp

/-- the turn for a scope that merges its name into the name of its only child -/
theorem step_scope_chainW_ar3 (L w : Int) (m : Meta) (c : Obj) (ms : List Str) (ind : Str)
    (hm : PlainMetaPP (!ms.isEmpty) m.stripAttrs) (hfm : c.meta.mergeNames = true)
    (hc : StepAtW L w c (ms ++ [m.name]) ind) : StepAtW L w (.scope m [c]) ms ind := by
  intro fuel pre more l i stop prevLine acc pending hpre hf hnext
  have hfm' : firstMerges [c] = true := hfm
  have hm' := meta_eq_of_plain_art hm
  have hcost : (Obj.scope m [c]).costA L = c.costA L := by
    rw [Obj.costA, hfm']; simp [costAList]
  have hfc : c.costA L ≤ fuel := by rw [hcost] at hf; exact hf
  obtain ⟨x', acc', pending', l', prevLine', fuel', hstep, hfu, hflush, her, hid⟩ :=
    hc fuel pre more l i stop prevLine acc pending hpre hfc
      (fun he => hnext (by simp [Obj.endsVal, hfm', endsValList, he]))
  have htext : treeTextA L w (.scope m [c]) ms ind = treeTextA L w c (ms ++ [m.name]) ind := by
    rw [treeTextA, hfm']; simp [kidsTextA]
  have hitems : (Obj.scope m [c]).items = c.items := by
    rw [Obj.items, hfm']; simp [itemsList]
  refine ⟨x', acc', pending', l', prevLine', fuel', by rw [htext, hitems]; exact hstep,
    by rw [hcost]; exact hfu, hflush, ?_, ?_⟩
  · rw [her, nestIn_snoc, nestIn_erase, nestIn_erase]
    rw [hm']
    simp only [Obj.normA, hfm', normAList, Obj.erase_scope, eraseList_cons, eraseList_nil, ↓reduceIte,
      Bool.false_or]
    rfl
  · rw [hid, expIds, hfm']
    simp [expIdsSame, List.replicate_succ']

/-- **every tree of the class is read back by its turns of `collect_objects`** — deprecated definitions
    anywhere -/
theorem step_allW_ar3 (L w : Int) (x : Obj) : StepW L w x := by
  induction x using Obj.rec (motive_2 := fun os => ∀ y ∈ os, StepW L w y) with
  | defn m ws => exact step_defnW_ar3 L w m ws
  | scope m os ih =>
    intro ms ind hp hb h hw hok
    rw [Obj.stripAttrs_scope] at h hw
    unfold RTNode at h
    obtain ⟨hm, hn, hk⟩ := h
    have hname : m.stripAttrs.name = m.name := rfl
    rw [hname] at hn hk
    rcases hk with ⟨hres, hk⟩ | hk
    · have hfm := hk.firstMerges
      have hfm' : firstMerges os = false := by rw [← firstMerges_stripAttrsList_ert]; exact hfm
      unfold WrapsOK at hw
      rw [hfm] at hw
      simp only [Bool.false_eq_true, ↓reduceIte] at hw
      simp only [Obj.attrsOKAt, hfm', Bool.false_eq_true, ↓reduceIte, Bool.and_eq_true] at hok
      have hsteps : ∀ y ∈ os, StepAtW L w y [] (deeper ind) := fun y hy =>
        ih y hy [] (deeper ind) (by intro n hn; simp at hn) hb.deeper
          ((RTAll_iff _).mp hk _ (mem_stripAttrsList_art hy))
          ((WrapsOKs_iff w _ [] (deeper ind)).mp hw _ (mem_stripAttrsList_art hy))
          ((attrsOKsAt_iff_art L w os (deeper ind)).mp hok.2 y hy)
      exact stepAtW_of_A_ar3 (step_scope_properA_art L w m os ms ind hp hb hm hn hres hfm' hok.1
        (block_of_stepsW_ar3 L w os (deeper ind) hb.deeper hsteps hk hok.2))
        (by simp [Obj.endsVal, hfm'])
    · have hfm := hk.firstMerges
      have hfm' : firstMerges os = true := by rw [← firstMerges_stripAttrsList_ert]; exact hfm
      unfold WrapsOK at hw
      rw [hfm] at hw
      simp only [↓reduceIte] at hw
      simp only [Obj.attrsOKAt, hfm', ↓reduceIte] at hok
      cases os with
      | nil => rw [stripAttrsList_nil] at hk; unfold RTOne at hk; exact hk.elim
      | cons c cs =>
        rw [stripAttrsList_cons] at hk hw
        unfold RTOne at hk
        obtain ⟨hc, hcs⟩ := hk
        have : cs = [] := by
          cases cs with
          | nil => rfl
          | cons y ys => rw [stripAttrsList_cons] at hcs; cases hcs
        subst this
        unfold WrapsOKs at hw
        simp only [attrsOKsAt, Bool.and_true] at hok
        exact step_scope_chainW_ar3 L w m c ms ind hm hfm'
          (ih c (by simp) (ms ++ [m.name]) ind (hp.snoc hn) hb hc hw.1 hok)
  | nil => rename_i y hy; simp at hy
  | cons x xs ihx ihxs =>
    rename_i y hy
    rcases List.mem_cons.mp hy with rfl | hy
    · exact ihx
    · exact ihxs y hy

/-- **`parse` of the printed text of a document of trees with attributes — deprecated definitions
    anywhere**: the parser returns the trees, every object carrying exactly the attributes shown at
    level `L` with their values -/
theorem parseObjs_treesW_ar3 (L w : Int) (objs : List Obj) (ind : Str) (hb : Blank ind)
    (h : RTAll (stripAttrsList objs)) (hw : WrapsOKs w (stripAttrsList objs) [] ind)
    (hok : attrsOKsAt L w objs ind = true) :
    ∃ objs', parseObjs (kidsTextA L w objs [] ind) = .ok objs' ∧
      eraseList objs' = eraseList (normAList L objs) ∧
      idsList objs' = (expIdsSeq 1 objs).map some := by
  have hsteps : ∀ y ∈ objs, StepAtW L w y [] ind := fun y hy =>
    step_allW_ar3 L w y [] ind (by intro n hn; simp at hn) hb
      ((RTAll_iff _).mp h _ (mem_stripAttrsList_art hy))
      ((WrapsOKs_iff w _ [] ind).mp hw _ (mem_stripAttrsList_art hy))
      ((attrsOKsAt_iff_art L w objs ind).mp hok y hy)
  obtain ⟨objs', st', hrun, _, _, her, hid⟩ :=
    block_of_stepsW_ar3 L w objs ind hb hsteps h hok ((kidsTextA L w objs [] ind).length + 2) [] [] [] 1 1
      none 0 [] none (by intro c hc; simp at hc)
      (by have := costAList_le_text_art L w objs [] ind; omega) (Or.inl ⟨rfl, rfl⟩)
  refine ⟨objs', ?_, her, hid⟩
  unfold parseObjs
  simp only [List.nil_append, List.append_nil] at hrun
  rw [hrun]
  simp [flush]

end Phil
