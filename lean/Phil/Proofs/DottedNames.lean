/-
  Phil.Proofs.DottedNames — dotted names: `str.split('.')` against `'.'.join`, the chain of scopes
  `scope.adopt` builds for a dotted name, and what the parser needs to know about a printed dotted name.
-/
import Phil.Proofs.PrintParse
set_option linter.unusedSimpArgs false
set_option linter.unusedVariables false
namespace Phil

/-! ### split / join -/

theorem splitOn_ne_nil_dn (sep : Char) (s : Str) : splitOn sep s ≠ [] := by
  induction s with
  | nil => simp [splitOn]
  | cons c cs ih =>
    unfold splitOn
    split
    · simp
    · split <;> simp

theorem splitOn_append_sep_dn (sep : Char) (n rest : Str) (h : sep ∉ n) :
    splitOn sep (n ++ sep :: rest) = n :: splitOn sep rest := by
  induction n with
  | nil =>
    cases hs : splitOn sep rest with
    | nil => exact absurd hs (splitOn_ne_nil_dn sep rest)
    | cons p ps => simp [splitOn, hs]
  | cons c cs ih =>
    have hc : c ≠ sep := fun e => h (by simp [e])
    have hcs : sep ∉ cs := fun e => h (by simp [e])
    simp [splitOn, ih hcs, hc]

/-- `str.split('.')` undoes `'.'.join` on dot-free components -/
theorem splitOn_joinWith (comps : List Str) (hne : comps ≠ []) (h : ∀ n ∈ comps, '.' ∉ n) :
    splitOn '.' (joinWith ['.'] comps) = comps := by
  induction comps with
  | nil => exact absurd rfl hne
  | cons x rest ih =>
    cases rest with
    | nil => exact splitOn_not_mem '.' x (h x (by simp))
    | cons y rest =>
      have hx : '.' ∉ x := h x (by simp)
      have ih' := ih (by simp) (fun n hn => h n (by simp [hn]))
      show splitOn '.' (x ++ ['.'] ++ joinWith ['.'] (y :: rest)) = _
      rw [List.append_assoc, List.singleton_append, splitOn_append_sep_dn '.' x _ hx, ih']

/-! ### scope.adopt for dotted names -/

/-- the chain of scopes `scope.adopt` builds around an object for the leading name components:
    `merge_names` is False for the outermost scope only; every scope carries the id of the object -/
def nestIn (id : Option Nat) : Bool → List Str → Obj → Obj
  | _, [], x => x
  | b, n :: ns, x => .scope { name := n, id := id, mergeNames := b } [nestIn id true ns x]

theorem nestIn_snoc (id : Option Nat) (b : Bool) (ms : List Str) (n : Str) (x : Obj) :
    nestIn id b (ms ++ [n]) x
      = nestIn id b ms (.scope { name := n, id := id, mergeNames := b || !ms.isEmpty } [x]) := by
  induction ms generalizing b with
  | nil => simp [nestIn]
  | cons m ms ih => simp [nestIn, ih]

theorem wrapDotted_build (o : Obj) (initRev : List Str) (acc : Obj) :
    wrapDotted.build o initRev acc = nestIn o.meta.id false initRev.reverse acc := by
  induction initRev generalizing acc with
  | nil => simp [wrapDotted.build, nestIn]
  | cons n more ih =>
    rw [wrapDotted.build, ih, List.reverse_cons, nestIn_snoc]
    simp

theorem withMeta_self (o : Obj) (nm : Str) (hname : o.name = nm) (hmg : o.meta.mergeNames = false) :
    o.withMeta (fun m => { m with name := nm, mergeNames := false }) = o := by
  cases o with
  | defn m w =>
    simp only [Obj.name, Obj.meta] at hname hmg
    simp only [Obj.withMeta, ← hname, ← hmg]
  | scope m os =>
    simp only [Obj.name, Obj.meta] at hname hmg
    simp only [Obj.withMeta, ← hname, ← hmg]

theorem wrapDotted_dotted (o : Obj) (ms : List Str) (nm : Str)
    (hname : o.name = joinWith ['.'] (ms ++ [nm])) (h : ∀ n ∈ ms ++ [nm], '.' ∉ n)
    (hmg : o.meta.mergeNames = false) :
    wrapDotted o = nestIn o.meta.id false ms
      (o.withMeta (fun m => { m with name := nm, mergeNames := !ms.isEmpty })) := by
  have hs : splitOn '.' o.name = ms ++ [nm] := by
    rw [hname]; exact splitOn_joinWith _ (by simp) h
  cases hms : ms.reverse with
  | nil =>
    have : ms = [] := by simpa using hms
    subst this
    have hn : o.name = nm := by simpa [joinWith] using hname
    unfold wrapDotted
    simp only [hs, List.nil_append, List.reverse_cons, List.reverse_nil, nestIn, List.isEmpty_nil,
      Bool.not_true]
    exact (withMeta_self o nm hn hmg).symm
  | cons a as =>
    have hne : ms.isEmpty = false := by
      cases ms with
      | nil => simp at hms
      | cons _ _ => rfl
    unfold wrapDotted
    simp only [hs, List.reverse_append, List.reverse_cons, List.reverse_nil, List.nil_append,
      List.singleton_append, hms]
    rw [wrapDotted_build, ← hms, List.reverse_reverse, hne]
    rfl

/-! ### the printed name of an item -/

/-- what the parser needs to know about the (possibly dotted) name of a printed item -/
structure ItemName (nm : Str) : Prop where
  defName : plainDefName nm = true
  stdIdent : isStdIdent nm = true
  notReserved : reservedName false nm = false
  chars : ∃ c w, nm = c :: w ∧ isIdStart c = true ∧ ∀ d ∈ c :: w, isIdCont d = true

/-- for an undotted good name the extra hypothesis holds -/
theorem goodName_not_reserved {nm : Str} (h : goodName nm = true) : isReserved nm = false := by
  obtain ⟨_, _, _, _, _, hp, _⟩ := goodName_cases h
  simp only [plainDefName, Bool.and_eq_true, Bool.not_eq_true', reservedName, reservedFull,
    Bool.or_eq_false_iff] at hp
  exact hp.2.1.1

theorem goodName_simpleIdent {nm : Str} (h : goodName nm = true) : isSimpleIdent nm = true := by
  obtain ⟨c, w, e, hs, hall, _, hdot⟩ := goodName_cases h
  subst e
  simp only [isSimpleIdent, Bool.and_eq_true, List.all_eq_true, hs, true_and]
  intro d hd
  have hc := hall d (by simp [hd])
  have hne : d ≠ '.' := fun e => hdot (by subst e; simp [hd])
  simpa [isIdCont, hne] using hc

theorem mem_joinWith_dn (comps : List Str) (d : Char) (hd : d ∈ joinWith ['.'] comps) :
    d = '.' ∨ ∃ n ∈ comps, d ∈ n := by
  induction comps with
  | nil => simp [joinWith] at hd
  | cons x rest ih =>
    cases rest with
    | nil => exact Or.inr ⟨x, by simp, by simpa [joinWith] using hd⟩
    | cons y rest =>
      simp only [joinWith, List.mem_append, List.mem_singleton] at hd
      rcases hd with (hd | hd) | hd
      · exact Or.inr ⟨x, by simp, hd⟩
      · exact Or.inl hd
      · rcases ih hd with h | ⟨n, hn, hdn⟩
        · exact Or.inl h
        · exact Or.inr ⟨n, by simp [hn], hdn⟩

theorem joinWith_head_dn (c : Char) (w : Str) (rest : List Str) :
    ∃ w', joinWith ['.'] ((c :: w) :: rest) = c :: w' := by
  cases rest with
  | nil => exact ⟨w, rfl⟩
  | cons y rest => exact ⟨w ++ ['.'] ++ joinWith ['.'] (y :: rest), rfl⟩

theorem itemName_joined (comps : List Str) (hne : comps ≠ []) (hg : ∀ n ∈ comps, goodName n = true)
    (hres : isReserved (joinWith ['.'] comps) = false) : ItemName (joinWith ['.'] comps) := by
  have hdot : ∀ n ∈ comps, '.' ∉ n := fun n hn => by
    obtain ⟨_, _, _, _, _, _, hd⟩ := goodName_cases (hg n hn); exact hd
  have hsplit := splitOn_joinWith comps hne hdot
  have hninc : "include".toList ∉ comps := fun hm => goodName_not_include (hg _ hm) rfl
  -- characters
  have hchars : ∃ c w, joinWith ['.'] comps = c :: w ∧ isIdStart c = true ∧
      ∀ d ∈ c :: w, isIdCont d = true := by
    cases comps with
    | nil => exact absurd rfl hne
    | cons x rest =>
      obtain ⟨c, w, e, hs, _, _, _⟩ := goodName_cases (hg x (by simp))
      subst e
      obtain ⟨w', hw'⟩ := joinWith_head_dn c w rest
      refine ⟨c, w', hw', hs, ?_⟩
      intro d hd
      rw [← hw'] at hd
      rcases mem_joinWith_dn _ d hd with rfl | ⟨n, hn, hdn⟩
      · rfl
      · obtain ⟨c2, w2, e2, _, hall, _, _⟩ := goodName_cases (hg n hn)
        subst e2
        exact hall d hdn
  obtain ⟨c, w, enm, hs, hall⟩ := hchars
  have hstd : isStdIdent (joinWith ['.'] comps) = true := by
    have hparts : (splitOn '.' (c :: w)).all isSimpleIdent = true := by
      rw [← enm, hsplit, List.all_eq_true]
      exact fun n hn => goodName_simpleIdent (hg n hn)
    rw [enm]
    simp only [isStdIdent, Bool.and_eq_true, hs, true_and, Bool.or_eq_true]
    exact ⟨List.all_eq_true.mpr (fun d hd => hall d (by simp [hd])), Or.inr hparts⟩
  have hcomp : reservedComponent (joinWith ['.'] comps) = false := by
    simp only [reservedComponent, hsplit, List.any_eq_false]
    intro n hn
    simp [goodName_not_reserved (hg n (List.dropLast_subset _ hn))]
  have hcont : ¬ ['i', 'n', 'c', 'l', 'u', 'd', 'e'] ∈ splitOn '.' (joinWith ['.'] comps) := by
    rw [hsplit]; simpa using hninc
  have hrF : reservedName false (joinWith ['.'] comps) = false := by
    simp [reservedName, reservedFull, hres, hcont, hcomp]
  have hrT : reservedName true (joinWith ['.'] comps) = false := by
    simp [reservedName, reservedFull, hres, hcont, hcomp]
  have hc := idStart_cont hs
  obtain ⟨f1, f2, _, _, f5, _, _, _, f9⟩ := idCont_facts hc
  have fdot : c ≠ '.' := by
    intro e; subst e; exact absurd hs (by decide)
  have hinc : joinWith ['.'] comps ≠ "include".toList := by
    intro e
    have : splitOn '.' (joinWith ['.'] comps) = ["include".toList] := by rw [e]; rfl
    rw [hsplit] at this
    exact hninc (by simp [this])
  refine ⟨?_, hstd, hrF, c, w, enm, hs, hall⟩
  simp only [plainDefName, Bool.and_eq_true, bne_iff_ne, ne_eq, Bool.not_eq_true']
  refine ⟨⟨⟨⟨⟨⟨⟨?_, ?_⟩, ?_⟩, ?_⟩, ?_⟩, hstd⟩, hinc⟩, hrT⟩
  · rw [enm]; intro e; simp at e; exact f5 e.1
  · rw [enm]; intro e; simp at e; exact f2 e.1
  · rw [enm]; intro e; simp at e; exact f1 e.1
  · rw [enm]; simpa using f9
  · rw [enm]; simpa using fdot

#print axioms splitOn_joinWith
#print axioms nestIn_snoc
#print axioms wrapDotted_dotted
#print axioms goodName_not_reserved
#print axioms itemName_joined

end Phil
