/-
  Lemmas behind C12 (variable substitution): fragments, named-step forms of `resolveWords` and
  `lexicalGet`, the frame property of lexical lookup, fuel adequacy.
-/
import Phil.Vars
set_option linter.unusedSimpArgs false
set_option linter.unusedVariables false
namespace Phil

/-! ## 1. fragments of a value without '$' -/

theorem fragmentsAux_no_dollar : ∀ (fuel : Nat) (cs cur : Str) (acc : List Fragment),
    '$' ∉ cs → cs.length < fuel →
    fragmentsAux fuel cs cur acc
      = .ok (if (cur ++ cs).isEmpty then acc else acc ++ [.lit (cur ++ cs)], false) := by
  intro fuel
  induction fuel with
  | zero => intro cs cur acc _ h; omega
  | succ fuel ih =>
    intro cs cur acc hd hl
    cases cs with
    | nil => simp [fragmentsAux]
    | cons c rest =>
      have hc : c ≠ '$' := fun h => hd (by simp [h])
      have hr : '$' ∉ rest := fun h => hd (by simp [h])
      simp only [fragmentsAux, bne_iff_ne, ne_eq, hc, not_false_eq_true, ↓reduceIte]
      split
      · exact absurd (by simp) hr
      · rw [ih rest (cur ++ [c]) acc hr (by simp at hl; omega)]
        simp

/-- the fragment list `#eval fragments` shows for a value without '$' -/
def plainFrags (value : Str) : List Fragment := if value.isEmpty then [] else [.lit value]

theorem no_dollar_no_vars (value : Str) (h : '$' ∉ value) :
    fragments value = .ok (plainFrags value, false) := by
  unfold fragments plainFrags
  rw [fragmentsAux_no_dollar _ _ _ _ h (by omega)]
  cases value <;> simp

/-! ## 2. named-step form of `resolveWords` -/

/-- what a lookup result means for a `$name` fragment (`found` in the model) -/
def foundOf (env : Env) (fuel : Nat) (w : Word) : Option (Obj × Chain) → R (Option (List Word))
  | some (.defn m ws, ch) =>
    (match m.id with
     | some sid => (resolveWords env fuel ch sid ws false).map some
     | none => .error (.unsupported "referenced definition without id"))
  | some (.scope _ _, _) => .error (.runtime "not_a_definition" w.line)
  | none => .ok none

/-- what a `$name` fragment contributes (the `found` / `ev` part of the model) -/
def resolveVar (env : Env) (fuel : Nat) (chain : Chain) (id : Nat) (diff : Bool) (w : Word)
    (forceString : Bool) (rs : List (List Word)) (name : Str) : R (List (List Word)) :=
  let found : R (Option (List Word)) :=
    foundOf env fuel w (lexicalGet (2 * name.length + chain.length + 1) chain name id true)
  match found with
  | .error e => .error e
  | .ok (some vws) => .ok (rs ++ [if forceString then [wordDq (joinWith [' '] (vws.map (·.value)))] else vws])
  | .ok none =>
    let ev : Option Str := if diff then some ('$' :: name) else env name
    match ev with
    | some v =>
      let vws := [wordDq v]
      .ok (rs ++ [if forceString then [wordDq (joinWith [' '] (vws.map (·.value)))] else vws])
    | none => .error (.runtime "undefined_variable" w.line)

def resolveFrag (env : Env) (fuel : Nat) (chain : Chain) (id : Nat) (diff : Bool) (w : Word)
    (forceString : Bool) (rs : List (List Word)) (f : Fragment) : R (List (List Word)) :=
  match f with
  | .lit s => .ok (rs ++ [[wordDq s]])
  | .var name => resolveVar env fuel chain id diff w forceString rs name

/-- resolution of one word whose fragments are known to contain a variable -/
def resolveMix (env : Env) (fuel : Nat) (chain : Chain) (id : Nat) (diff : Bool) (w : Word)
    (frags : List Fragment) (acc : List Word) : R (List Word) :=
  let forceString := w.quote.isSome || frags.length > 1
  match frags.foldlM (init := ([] : List (List Word))) (resolveFrag env fuel chain id diff w forceString) with
  | .error e => .error e
  | .ok rs =>
    if !forceString then .ok (acc ++ (rs.headD []))
    else .ok (acc ++ [wordDq (rs.foldl (fun s r => s ++ (r.headD (wordDq [])).value) [])])

def resolveStep (env : Env) (fuel : Nat) (chain : Chain) (id : Nat) (diff : Bool)
    (acc : List Word) (w : Word) : R (List Word) :=
  if w.quote == some .s1 then .ok (acc ++ [w]) else
  match fragments w.value with
  | .error site => .error (.runtime site w.line)
  | .ok (frags, haveVars) =>
    if !haveVars then .ok (acc ++ [w]) else resolveMix env fuel chain id diff w frags acc

theorem resolveWords_succ (env : Env) (fuel : Nat) (chain : Chain) (id : Nat) (words : List Word)
    (diff : Bool) :
    resolveWords env (fuel + 1) chain id words diff
      = words.foldlM (resolveStep env fuel chain id diff) [] := by
  rw [resolveWords]
  rfl

theorem resolveWords_single (env : Env) (fuel : Nat) (chain : Chain) (id : Nat) (w : Word)
    (diff : Bool) :
    resolveWords env (fuel + 1) chain id [w] diff = resolveStep env fuel chain id diff [] w := by
  rw [resolveWords_succ]
  simp only [List.foldlM_cons, List.foldlM_nil]
  cases resolveStep env fuel chain id diff [] w <;> rfl

theorem resolveStep_untouched (env : Env) (fuel : Nat) (chain : Chain) (id : Nat) (diff : Bool)
    (acc : List Word) (w : Word) (h : w.quote = some .s1 ∨ '$' ∉ w.value) :
    resolveStep env fuel chain id diff acc w = .ok (acc ++ [w]) := by
  unfold resolveStep
  by_cases hq : w.quote = some .s1
  · simp [hq]
  · have hd : '$' ∉ w.value := by
      cases h with
      | inl h => exact absurd h hq
      | inr h => exact h
    simp [hq, no_dollar_no_vars _ hd]

theorem foldlM_untouched (env : Env) (fuel : Nat) (chain : Chain) (id : Nat) (diff : Bool) :
    ∀ (words acc : List Word), (∀ w ∈ words, w.quote = some .s1 ∨ '$' ∉ w.value) →
      words.foldlM (resolveStep env fuel chain id diff) acc = .ok (acc ++ words) := by
  intro words
  induction words with
  | nil => intro acc _; simp [pure, Except.pure]
  | cons w ws ih =>
    intro acc h
    rw [List.foldlM_cons, resolveStep_untouched _ _ _ _ _ _ _ (h w (by simp))]
    show ws.foldlM _ (acc ++ [w]) = _
    rw [ih _ (fun x hx => h x (by simp [hx]))]
    simp

/-- single-quoted words and words without '$' are passed through untouched -/
theorem untouched (env : Env) (fuel : Nat) (chain : Chain) (id : Nat) (words : List Word)
    (diff : Bool) (h : ∀ w ∈ words, w.quote = some .s1 ∨ '$' ∉ w.value) :
    resolveWords env (fuel + 1) chain id words diff = .ok words := by
  rw [resolveWords_succ, foldlM_untouched _ _ _ _ _ _ _ h]
  simp

/-! ## 3. one word: mixtures become one double-quoted string, a sole variable keeps the words -/

theorem resolveVar_found (env : Env) (fuel : Nat) (chain : Chain) (id : Nat) (diff : Bool) (w : Word)
    (force : Bool) (rs : List (List Word)) (name : Str) (m : Meta) (ws : List Word) (ch : Chain)
    (sid : Nat) (hl : lexicalGet (2 * name.length + chain.length + 1) chain name id true = some (.defn m ws, ch))
    (hid : m.id = some sid) :
    resolveVar env fuel chain id diff w force rs name =
      match resolveWords env fuel ch sid ws false with
      | .error e => .error e
      | .ok vws => .ok (rs ++ [if force then [wordDq (joinWith [' '] (vws.map (·.value)))] else vws]) := by
  unfold resolveVar
  simp only [hl, foundOf, hid]
  cases resolveWords env fuel ch sid ws false <;> rfl

theorem resolveVar_none (env : Env) (fuel : Nat) (chain : Chain) (id : Nat) (diff : Bool) (w : Word)
    (force : Bool) (rs : List (List Word)) (name : Str)
    (hl : lexicalGet (2 * name.length + chain.length + 1) chain name id true = none) :
    resolveVar env fuel chain id diff w force rs name =
      match (if diff then some ('$' :: name) else env name) with
      | some v => .ok (rs ++ [if force then [wordDq (joinWith [' '] ([wordDq v].map (·.value)))] else [wordDq v]])
      | none => .error (.runtime "undefined_variable" w.line) := by
  unfold resolveVar
  simp only [hl, foundOf]
  rfl

theorem resolveStep_mix (env : Env) (fuel : Nat) (chain : Chain) (id : Nat) (diff : Bool)
    (acc : List Word) (w : Word) (frags : List Fragment) (hq : w.quote ≠ some .s1)
    (hf : fragments w.value = .ok (frags, true)) :
    resolveStep env fuel chain id diff acc w = resolveMix env fuel chain id diff w frags acc := by
  unfold resolveStep
  simp [hq, hf]

/-- a quoted word, or a word with more than one fragment, resolves to exactly one double-quoted word -/
theorem mixture_is_one_dq_word (env : Env) (fuel : Nat) (chain : Chain) (id : Nat) (diff : Bool)
    (w : Word) (frags : List Fragment) (r : List Word) (hq : w.quote ≠ some .s1)
    (hf : fragments w.value = .ok (frags, true))
    (hmix : w.quote.isSome ∨ frags.length > 1)
    (hr : resolveWords env (fuel + 1) chain id [w] diff = .ok r) :
    ∃ s, r = [wordDq s] := by
  rw [resolveWords_single, resolveStep_mix _ _ _ _ _ _ _ _ hq hf] at hr
  unfold resolveMix at hr
  have hforce : (w.quote.isSome || decide (frags.length > 1)) = true := by
    cases hmix with
    | inl h => simp [h]
    | inr h => simp [h]
  simp only [hforce] at hr
  split at hr
  · cases hr
  · simp at hr
    exact ⟨_, hr.symm⟩

/-- an unquoted word that is exactly one variable takes over the referenced words as they are -/
theorem sole_variable_keeps_words (env : Env) (fuel : Nat) (chain : Chain) (id : Nat) (diff : Bool)
    (w : Word) (name : Str) (m : Meta) (ws vws : List Word) (ch : Chain) (sid : Nat)
    (hq : w.quote = none) (hf : fragments w.value = .ok ([.var name], true))
    (hl : lexicalGet (2 * name.length + chain.length + 1) chain name id true = some (.defn m ws, ch))
    (hid : m.id = some sid)
    (hv : resolveWords env fuel ch sid ws false = .ok vws) :
    resolveWords env (fuel + 1) chain id [w] diff = .ok vws := by
  rw [resolveWords_single, resolveStep_mix _ _ _ _ _ _ _ _ (by simp [hq]) hf]
  unfold resolveMix
  simp only [List.foldlM_cons, List.foldlM_nil, resolveFrag,
    resolveVar_found _ _ _ _ _ _ _ _ _ _ _ _ _ hl hid, hv, hq]
  simp [bind, Except.bind, pure, Except.pure]

/-! ## 4. named-step form of `lexicalGet` -/

/-- an object is visible from a definition with primary id `stopId` if it has no id or a smaller one -/
def vis (stopId : Nat) (o : Obj) : Bool :=
  match o.meta.id with
  | some i => decide (i < stopId)
  | none => true

/-- the objects of one level that a lookup with `stopId` can see -/
def visiblePrefix (stopId : Nat) (objs : List Obj) : List Obj := objs.takeWhile (vis stopId)

def isCand (path : Str) (o : Obj) : Bool :=
  if o.isDefn then o.name == path else o.name == path || (stripPrefixDot o.name path).isSome

def lastLevel (chain : Chain) : Chain :=
  match chain.reverse with
  | r :: _ => [r]
  | [] => []

/-- a leading '.' re-roots the lookup at the outermost level -/
def reroot (chain : Chain) (path : Str) : Chain × Str :=
  if path.take 1 == ['.'] then (lastLevel chain, path.drop 1) else (chain, path)

def tryOne (fuel stopId : Nat) (path : Str) (objs : List Obj) (outer : Chain) (o : Obj) :
    Option (Obj × Chain) :=
  if o.name == path then some (o, objs :: outer)
  else
    match stripPrefixDot o.name path with
    | none => none
    | some sub => lexicalGet fuel (o.children :: objs :: outer) sub stopId false

def lookupIn (fuel stopId : Nat) (up : Bool) (chain : Chain) (path : Str) : Option (Obj × Chain) :=
  match chain with
  | [] => none
  | objs :: outer =>
    match ((visiblePrefix stopId objs).filter (isCand path)).reverse.findSome?
        (tryOne fuel stopId path objs outer) with
    | some r => some r
    | none =>
      if !up then none
      else match outer with
        | [] => none
        | _ => lexicalGet fuel outer path stopId true

theorem lexicalGet_succ (fuel : Nat) (chain : Chain) (path : Str) (stopId : Nat) (up : Bool) :
    lexicalGet (fuel + 1) chain path stopId up
      = lookupIn fuel stopId up (reroot chain path).1 (reroot chain path).2 := by
  rw [lexicalGet]
  rfl

/-! ## 5. the frame property of lexical lookup, generic in an object projection `f`

`f = id` gives the shallow frame property (equal visible prefixes), `f = pruneBeforeObj n` the deep one
(equal after removing, at every depth, everything from the first object with id ≥ n onwards). -/

section Frame
variable (n : Nat) (f : Obj → Obj)

def projLevel (objs : List Obj) : List Obj := (visiblePrefix n objs).map f
def projChain (c : Chain) : Chain := c.map (projLevel n f)
def projRes (r : Obj × Chain) : Obj × Chain := (f r.1, projChain n f r.2)

/-- what the generic frame proof needs from the projection -/
structure FrameMap : Prop where
  hmeta : ∀ o, (f o).meta = o.meta
  hdefn : ∀ o, (f o).isDefn = o.isDefn
  hkids : ∀ o1 o2, f o1 = f o2 → projLevel n f o1.children = projLevel n f o2.children

theorem lastLevel_map {F : List Obj → List Obj} (c : Chain) :
    lastLevel (c.map F) = (lastLevel c).map F := by
  unfold lastLevel
  rw [← List.map_reverse]
  cases c.reverse <;> simp

theorem reroot_map {F : List Obj → List Obj} (c : Chain) (p : Str) :
    reroot (c.map F) p = ((reroot c p).1.map F, (reroot c p).2) := by
  unfold reroot
  split <;> simp [lastLevel_map]

theorem reroot_proj (c1 c2 : Chain) (p : Str) (h : projChain n f c1 = projChain n f c2) :
    projChain n f (reroot c1 p).1 = projChain n f (reroot c2 p).1 ∧ (reroot c1 p).2 = (reroot c2 p).2 := by
  have h1 := reroot_map (F := projLevel n f) c1 p
  have h2 := reroot_map (F := projLevel n f) c2 p
  unfold projChain at h ⊢
  rw [h, h2] at h1
  constructor
  · exact (congrArg Prod.fst h1).symm
  · unfold reroot; split <;> rfl

variable {n f}

theorem FrameMap.name (hf : FrameMap n f) (o : Obj) : (f o).name = o.name := by
  unfold Obj.name; rw [hf.hmeta]

theorem FrameMap.name_eq (hf : FrameMap n f) {o1 o2 : Obj} (h : f o1 = f o2) : o1.name = o2.name := by
  rw [← hf.name o1, ← hf.name o2, h]

theorem FrameMap.isCand (hf : FrameMap n f) (p : Str) : isCand p ∘ f = isCand p := by
  funext o
  simp only [Function.comp, Phil.isCand, hf.hdefn, hf.name]

theorem cands_proj (hf : FrameMap n f) (p : Str) (objs1 objs2 : List Obj)
    (h : projLevel n f objs1 = projLevel n f objs2) :
    (((visiblePrefix n objs1).filter (isCand p)).reverse).map f
      = (((visiblePrefix n objs2).filter (isCand p)).reverse).map f := by
  unfold projLevel at h
  have e : ∀ l : List Obj, ((l.filter (isCand p)).reverse).map f = ((l.map f).filter (isCand p)).reverse := by
    intro l
    rw [List.filter_map, hf.isCand, List.map_reverse]
  rw [e, e, h]

theorem findSome_proj {β : Type} (g : β → β) (t1 t2 : Obj → Option β) :
    ∀ (l1 l2 : List Obj), l1.map f = l2.map f →
      (∀ o1 o2, f o1 = f o2 → (t1 o1).map g = (t2 o2).map g) →
      (l1.findSome? t1).map g = (l2.findSome? t2).map g := by
  intro l1
  induction l1 with
  | nil =>
    intro l2 h _
    cases l2 with
    | nil => rfl
    | cons _ _ => simp at h
  | cons a l1 ih =>
    intro l2 h ht
    cases l2 with
    | nil => simp at h
    | cons b l2 =>
      simp only [List.map_cons, List.cons.injEq] at h
      have hab := ht a b h.1
      simp only [List.findSome?_cons]
      cases h1 : t1 a <;> cases h2 : t2 b <;> simp only [h1, h2, Option.map_none, Option.map_some] at hab ⊢
      · exact ih l2 h.2 ht
      · cases hab
      · cases hab
      · exact hab

theorem tryOne_proj (hf : FrameMap n f) (fuel : Nat)
    (ih : ∀ (c1 c2 : Chain) (path : Str) (up : Bool), projChain n f c1 = projChain n f c2 →
      (lexicalGet fuel c1 path n up).map (projRes n f) = (lexicalGet fuel c2 path n up).map (projRes n f))
    (p : Str) (objs1 objs2 : List Obj) (outer1 outer2 : Chain)
    (hl : projLevel n f objs1 = projLevel n f objs2) (ho : projChain n f outer1 = projChain n f outer2)
    (o1 o2 : Obj) (h : f o1 = f o2) :
    (tryOne fuel n p objs1 outer1 o1).map (projRes n f)
      = (tryOne fuel n p objs2 outer2 o2).map (projRes n f) := by
  have hc : projChain n f (objs1 :: outer1) = projChain n f (objs2 :: outer2) := by
    unfold projChain at ho ⊢
    simp only [List.map_cons, hl, ho]
  unfold tryOne
  rw [hf.name_eq h]
  split
  · simp only [Option.map_some, projRes, h, hc]
  · cases stripPrefixDot o2.name p with
    | none => rfl
    | some sub =>
      apply ih
      unfold projChain at hc ⊢
      simp only [List.map_cons, hf.hkids _ _ h, hc]

/-- Generic frame property: chains that agree after projection give lookups that agree after
    projection (same found object up to `f`, same enclosing chain up to projection). -/
theorem lexicalGet_frame_gen (hf : FrameMap n f) :
    ∀ (fuel : Nat) (c1 c2 : Chain) (path : Str) (up : Bool),
      projChain n f c1 = projChain n f c2 →
      (lexicalGet fuel c1 path n up).map (projRes n f)
        = (lexicalGet fuel c2 path n up).map (projRes n f) := by
  intro fuel
  induction fuel with
  | zero => intro c1 c2 path up _; simp [lexicalGet]
  | succ fuel ih =>
    intro c1 c2 path up h
    rw [lexicalGet_succ, lexicalGet_succ]
    obtain ⟨hc, hp⟩ := reroot_proj n f c1 c2 path h
    rw [hp]
    generalize (reroot c1 path).1 = d1 at hc ⊢
    generalize (reroot c2 path).1 = d2 at hc ⊢
    generalize (reroot c2 path).2 = p
    cases d1 with
    | nil =>
      cases d2 with
      | nil => rfl
      | cons _ _ => simp [projChain] at hc
    | cons objs1 outer1 =>
      cases d2 with
      | nil => simp [projChain] at hc
      | cons objs2 outer2 =>
        have hc' := hc
        simp only [projChain, List.map_cons, List.cons.injEq] at hc'
        obtain ⟨hl, ho⟩ := hc'
        have ho' : projChain n f outer1 = projChain n f outer2 := ho
        have hfs := findSome_proj (f := f) (projRes n f) (tryOne fuel n p objs1 outer1)
          (tryOne fuel n p objs2 outer2) _ _ (cands_proj hf p objs1 objs2 hl)
          (tryOne_proj hf fuel ih p objs1 objs2 outer1 outer2 hl ho')
        simp only [lookupIn]
        cases r1 : ((visiblePrefix n objs1).filter (isCand p)).reverse.findSome?
            (tryOne fuel n p objs1 outer1) <;>
          cases r2 : ((visiblePrefix n objs2).filter (isCand p)).reverse.findSome?
            (tryOne fuel n p objs2 outer2) <;>
          simp only [r1, r2, Option.map_none, Option.map_some] at hfs ⊢
        · cases up
          · rfl
          · simp only [Bool.not_true, Bool.false_eq_true, ↓reduceIte]
            cases outer1 with
            | nil =>
              cases outer2 with
              | nil => rfl
              | cons _ _ => simp [projChain] at ho'
            | cons a1 b1 =>
              cases outer2 with
              | nil => simp [projChain] at ho'
              | cons a2 b2 => exact ih _ _ p true ho'
        · cases hfs
        · cases hfs
        · exact hfs

end Frame

/-! ## 6. instances: shallow frame (`f = id`) and deep frame (`f = pruneBeforeObj n`) -/

mutual
/-- remove, at every depth below `o`, everything from the first object with id ≥ `n` onwards -/
def pruneBeforeObj (n : Nat) : Obj → Obj
  | .defn m ws => .defn m ws
  | .scope m k => .scope m (pruneBeforeList n k)
/-- the visible prefix of a level, pruned recursively: all a lookup with `stopId = n` can ever see -/
def pruneBeforeList (n : Nat) : List Obj → List Obj
  | [] => []
  | o :: r => if vis n o then pruneBeforeObj n o :: pruneBeforeList n r else []
end

theorem pruneList_eq (n : Nat) (l : List Obj) :
    pruneBeforeList n l = (visiblePrefix n l).map (pruneBeforeObj n) := by
  induction l with
  | nil => simp [pruneBeforeList, visiblePrefix]
  | cons o r ih =>
    unfold visiblePrefix at ih ⊢
    by_cases h : vis n o = true
    · simp [pruneBeforeList, h, ih]
    · simp [pruneBeforeList, h]

theorem pruneObj_meta (n : Nat) (o : Obj) : (pruneBeforeObj n o).meta = o.meta := by
  cases o <;> simp [pruneBeforeObj, Obj.meta]

theorem pruneObj_isDefn (n : Nat) (o : Obj) : (pruneBeforeObj n o).isDefn = o.isDefn := by
  cases o <;> simp [pruneBeforeObj, Obj.isDefn]

theorem pruneObj_children (n : Nat) (o : Obj) : (pruneBeforeObj n o).children = pruneBeforeList n o.children := by
  cases o <;> simp [pruneBeforeObj, Obj.children, pruneBeforeList]

theorem frameMap_id (n : Nat) : FrameMap n id :=
  ⟨fun _ => rfl, fun _ => rfl, fun _ _ h => by cases h; rfl⟩

theorem frameMap_prune (n : Nat) : FrameMap n (pruneBeforeObj n) := by
  refine ⟨pruneObj_meta n, pruneObj_isDefn n, ?_⟩
  intro o1 o2 h
  have := congrArg Obj.children h
  rw [pruneObj_children, pruneObj_children, pruneList_eq, pruneList_eq] at this
  exact this

theorem projLevel_id (n : Nat) : projLevel n id = visiblePrefix n := by
  funext l; simp [projLevel]

theorem projLevel_prune (n : Nat) : projLevel n (pruneBeforeObj n) = pruneBeforeList n := by
  funext l; simp [projLevel, pruneList_eq]

/-- **Shallow frame property.**  Two chains of equal length whose levels have the same visible prefix
    (objects before the first one with id ≥ `stopId`) give the same lookup result: the same object,
    and enclosing chains that again agree on visible prefixes. -/
theorem lexicalGet_frame (fuel : Nat) (c1 c2 : Chain) (path : Str) (stopId : Nat) (up : Bool)
    (h : c1.map (visiblePrefix stopId) = c2.map (visiblePrefix stopId)) :
    (lexicalGet fuel c1 path stopId up).map (fun r => (r.1, r.2.map (visiblePrefix stopId)))
      = (lexicalGet fuel c2 path stopId up).map (fun r => (r.1, r.2.map (visiblePrefix stopId))) := by
  have := lexicalGet_frame_gen (frameMap_id stopId) fuel c1 c2 path up
    (by unfold projChain; rw [projLevel_id]; exact h)
  unfold projRes projChain at this
  rw [projLevel_id] at this
  exact this

/-- the object found is the same -/
theorem lexicalGet_frame_obj (fuel : Nat) (c1 c2 : Chain) (path : Str) (stopId : Nat) (up : Bool)
    (h : c1.map (visiblePrefix stopId) = c2.map (visiblePrefix stopId)) :
    (lexicalGet fuel c1 path stopId up).map (·.1) = (lexicalGet fuel c2 path stopId up).map (·.1) := by
  have := congrArg (Option.map (·.1)) (lexicalGet_frame fuel c1 c2 path stopId up h)
  simpa [Option.map_map, Function.comp_def] using this

/-- **Deep frame property.**  Chains that agree after pruning (at every depth) everything from the
    first object with id ≥ `stopId` onwards give the same lookup result up to pruning. -/
theorem lexicalGet_frame_deep (fuel : Nat) (c1 c2 : Chain) (path : Str) (stopId : Nat) (up : Bool)
    (h : c1.map (pruneBeforeList stopId) = c2.map (pruneBeforeList stopId)) :
    (lexicalGet fuel c1 path stopId up).map (fun r => (pruneBeforeObj stopId r.1, r.2.map (pruneBeforeList stopId)))
      = (lexicalGet fuel c2 path stopId up).map (fun r => (pruneBeforeObj stopId r.1, r.2.map (pruneBeforeList stopId))) := by
  have := lexicalGet_frame_gen (frameMap_prune stopId) fuel c1 c2 path up
    (by unfold projChain; rw [projLevel_prune]; exact h)
  unfold projRes projChain at this
  rw [projLevel_prune] at this
  exact this

/-! ## 7. backwards only: whatever a lookup finds is visible (id < stopId, or no id) -/

theorem mem_visiblePrefix_vis {n : Nat} {l : List Obj} {o : Obj} (h : o ∈ visiblePrefix n l) :
    vis n o = true := by
  have := List.all_takeWhile (l := l) (p := vis n)
  rw [List.all_eq_true] at this
  exact this o h

theorem lexicalGet_visible : ∀ (fuel : Nat) (c : Chain) (path : Str) (stopId : Nat) (up : Bool)
    (o : Obj) (ch : Chain), lexicalGet fuel c path stopId up = some (o, ch) → vis stopId o = true := by
  intro fuel
  induction fuel with
  | zero => intro c path stopId up o ch h; simp [lexicalGet] at h
  | succ fuel ih =>
    intro c path stopId up o ch h
    rw [lexicalGet_succ] at h
    generalize (reroot c path).1 = d at h
    generalize (reroot c path).2 = p at h
    cases d with
    | nil => simp [lookupIn] at h
    | cons objs outer =>
      simp only [lookupIn] at h
      split at h
      · rename_i r hr
        cases h
        obtain ⟨a, ha, hta⟩ := List.exists_of_findSome?_eq_some hr
        simp only [List.mem_reverse, List.mem_filter] at ha
        unfold tryOne at hta
        split at hta
        · cases hta; exact mem_visiblePrefix_vis ha.1
        · split at hta
          · cases hta
          · exact ih _ _ _ _ _ _ hta
      · split at h
        · cases h
        · split at h
          · cases h
          · exact ih _ _ _ _ _ _ h

/-- a found object with an id has an id strictly below `stopId` -/
theorem lexicalGet_id_lt (fuel : Nat) (c : Chain) (path : Str) (stopId : Nat) (up : Bool)
    (o : Obj) (ch : Chain) (i : Nat) (h : lexicalGet fuel c path stopId up = some (o, ch))
    (hi : o.meta.id = some i) : i < stopId := by
  have := lexicalGet_visible fuel c path stopId up o ch h
  simpa [vis, hi] using this

/-! ## 8. pruning is monotone: what is invisible at `b` is invisible at every `a ≤ b` -/

theorem vis_mono {a b : Nat} (h : a ≤ b) (o : Obj) (hv : vis a o = true) : vis b o = true := by
  unfold vis at hv ⊢
  cases hid : o.meta.id with
  | none => rfl
  | some i => simp [hid] at hv ⊢; omega

mutual
theorem pruneObj_pruneObj {a b : Nat} (h : a ≤ b) : ∀ o : Obj, pruneBeforeObj a (pruneBeforeObj b o) = pruneBeforeObj a o
  | .defn m ws => by simp [pruneBeforeObj]
  | .scope m k => by simp [pruneBeforeObj, pruneList_pruneList h k]
theorem pruneList_pruneList {a b : Nat} (h : a ≤ b) : ∀ l : List Obj, pruneBeforeList a (pruneBeforeList b l) = pruneBeforeList a l
  | [] => by simp [pruneBeforeList]
  | o :: r => by
    by_cases hb : vis b o = true
    · have hv : vis a (pruneBeforeObj b o) = vis a o := by
        unfold vis; rw [pruneObj_meta]
      by_cases ha : vis a o = true
      · simp [pruneBeforeList, hb, ha, hv, pruneObj_pruneObj h o, pruneList_pruneList h r]
      · simp [pruneBeforeList, hb, ha, hv]
    · have ha : ¬ vis a o = true := fun ha => hb (vis_mono h o ha)
      simp [pruneBeforeList, hb, ha]
end

theorem pruneChain_mono {a b : Nat} (h : a ≤ b) (c1 c2 : Chain)
    (hc : c1.map (pruneBeforeList b) = c2.map (pruneBeforeList b)) :
    c1.map (pruneBeforeList a) = c2.map (pruneBeforeList a) := by
  have := congrArg (List.map (pruneBeforeList a)) hc
  simpa [List.map_map, Function.comp_def, pruneList_pruneList h] using this

/-! ## 9. later definitions never influence resolution -/

theorem map_len_eq {α β : Type} {g : α → β} {l1 l2 : List α} (h : l1.map g = l2.map g) :
    l1.length = l2.length := by
  have := congrArg List.length h
  simpa using this

/-- **Frame property of resolution.**  If two chains agree after pruning — at every level and at
    every depth — everything from the first object with id ≥ `id` onwards, then the definition with
    primary id `id` resolves identically in both (same words or same error), for every environment. -/
theorem resolveWords_frame (env : Env) : ∀ (fuel : Nat) (c1 c2 : Chain) (id : Nat) (ws : List Word)
    (diff : Bool), c1.map (pruneBeforeList id) = c2.map (pruneBeforeList id) →
    resolveWords env fuel c1 id ws diff = resolveWords env fuel c2 id ws diff := by
  intro fuel
  induction fuel with
  | zero => intro c1 c2 id ws diff _; simp [resolveWords]
  | succ fuel ih =>
    intro c1 c2 id ws diff h
    rw [resolveWords_succ, resolveWords_succ]
    have hvar : ∀ w force rs name, resolveVar env fuel c1 id diff w force rs name
        = resolveVar env fuel c2 id diff w force rs name := by
      intro w force rs name
      have hfound : foundOf env fuel w (lexicalGet (2 * name.length + c1.length + 1) c1 name id true)
          = foundOf env fuel w (lexicalGet (2 * name.length + c2.length + 1) c2 name id true) := by
        rw [map_len_eq h]
        have hfr := lexicalGet_frame_deep (2 * name.length + c2.length + 1) c1 c2 name id true h
        cases h1 : lexicalGet (2 * name.length + c2.length + 1) c1 name id true with
        | none =>
          cases h2 : lexicalGet (2 * name.length + c2.length + 1) c2 name id true with
          | none => rfl
          | some r2 => rw [h1, h2] at hfr; cases hfr
        | some r1 =>
          cases h2 : lexicalGet (2 * name.length + c2.length + 1) c2 name id true with
          | none => rw [h1, h2] at hfr; cases hfr
          | some r2 =>
            rw [h1, h2] at hfr
            obtain ⟨o1, ch1⟩ := r1
            obtain ⟨o2, ch2⟩ := r2
            simp only [Option.map_some, Option.some.injEq, Prod.mk.injEq] at hfr
            obtain ⟨ho, hch⟩ := hfr
            cases o1 with
            | defn m ws1 =>
              cases o2 with
              | defn m2 ws2 =>
                simp only [pruneBeforeObj, Obj.defn.injEq] at ho
                obtain ⟨rfl, rfl⟩ := ho
                simp only [foundOf]
                cases hid : m.id with
                | none => rfl
                | some sid =>
                  have hlt : sid < id := lexicalGet_id_lt _ _ _ _ _ _ _ _ h1 (by simpa [Obj.meta] using hid)
                  simp only []
                  rw [ih ch1 ch2 sid ws1 false (pruneChain_mono (Nat.le_of_lt hlt) _ _ hch)]
              | scope m2 k2 => simp [pruneBeforeObj] at ho
            | scope m k =>
              cases o2 with
              | defn m2 ws2 => simp [pruneBeforeObj] at ho
              | scope m2 k2 => rfl
      unfold resolveVar
      simp only [hfound]
    have hfrag : ∀ w force, resolveFrag env fuel c1 id diff w force = resolveFrag env fuel c2 id diff w force := by
      intro w force
      funext rs fr
      cases fr with
      | lit s => rfl
      | var name => simp only [resolveFrag, hvar]
    have hstep : resolveStep env fuel c1 id diff = resolveStep env fuel c2 id diff := by
      funext acc w
      unfold resolveStep resolveMix
      simp only [hfrag]
    rw [hstep]

/-! ## 10. appending later objects -/

theorem visiblePrefix_append_later (n : Nat) (l extra : List Obj)
    (hx : ∀ o ∈ extra, vis n o = false) : visiblePrefix n (l ++ extra) = visiblePrefix n l := by
  unfold visiblePrefix
  induction l with
  | nil =>
    cases extra with
    | nil => rfl
    | cons e es => simp [hx e (by simp)]
  | cons o r ih =>
    by_cases h : vis n o = true
    · simp [h, ih]
    · simp [h]

theorem pruneList_append_later (n : Nat) (l extra : List Obj)
    (hx : ∀ o ∈ extra, vis n o = false) : pruneBeforeList n (l ++ extra) = pruneBeforeList n l := by
  rw [pruneList_eq, pruneList_eq, visiblePrefix_append_later n l extra hx]

theorem zipWith_append_later {n : Nat} {P : List Obj → List Obj}
    (hP : ∀ l extra, (∀ o ∈ extra, vis n o = false) → P (l ++ extra) = P l) :
    ∀ (c : Chain) (extras : List (List Obj)), (∀ e ∈ extras, ∀ o ∈ e, vis n o = false) →
      (List.zipWith (· ++ ·) c extras).map P = (c.take extras.length).map P := by
  intro c
  induction c with
  | nil => intro extras _; simp
  | cons l c ih =>
    intro extras hx
    cases extras with
    | nil => simp
    | cons e es =>
      simp only [List.zipWith_cons_cons, List.map_cons, List.length_cons, List.take_succ_cons]
      rw [hP l e (hx e (by simp)), ih es (fun e' he' => hx e' (by simp [he']))]

/-- **Later objects are irrelevant to lookup.**  Appending to every level `k` of the chain arbitrary
    objects `extras[k]` whose ids are all ≥ `stopId` does not change the object found. -/
theorem later_irrelevant (fuel : Nat) (c : Chain) (extras : List (List Obj)) (path : Str)
    (stopId : Nat) (up : Bool) (hlen : extras.length = c.length)
    (hx : ∀ e ∈ extras, ∀ o ∈ e, vis stopId o = false) :
    (lexicalGet fuel (List.zipWith (· ++ ·) c extras) path stopId up).map (·.1)
      = (lexicalGet fuel c path stopId up).map (·.1) := by
  apply lexicalGet_frame_obj
  rw [zipWith_append_later (visiblePrefix_append_later stopId) c extras hx, hlen, List.take_length]

/-- **Later definitions are irrelevant to resolution** (append form, top level of each scope). -/
theorem later_irrelevant_resolve (env : Env) (fuel : Nat) (c : Chain) (extras : List (List Obj))
    (id : Nat) (ws : List Word) (diff : Bool) (hlen : extras.length = c.length)
    (hx : ∀ e ∈ extras, ∀ o ∈ e, vis id o = false) :
    resolveWords env fuel (List.zipWith (· ++ ·) c extras) id ws diff
      = resolveWords env fuel c id ws diff := by
  apply resolveWords_frame
  rw [zipWith_append_later (pruneList_append_later id) c extras hx, hlen, List.take_length]

/-! ## 11. monotonicity in the environment and in the fuel -/

theorem foldlM_ok_imp {α β ε : Type} (f1 f2 : β → α → Except ε β)
    (h : ∀ acc x r, f1 acc x = .ok r → f2 acc x = .ok r) :
    ∀ (l : List α) (init r : β), l.foldlM f1 init = .ok r → l.foldlM f2 init = .ok r := by
  intro l
  induction l with
  | nil => intro init r hr; simpa using hr
  | cons x xs ih =>
    intro init r hr
    rw [List.foldlM_cons] at hr ⊢
    cases h1 : f1 init x with
    | error e => rw [h1] at hr; cases hr
    | ok b =>
      rw [h1] at hr
      rw [h _ _ _ h1]
      exact ih _ _ hr

/-- `env1 ≤ env2`: every variable set in `env1` has the same value in `env2` -/
def EnvLe (env1 env2 : Env) : Prop := ∀ name v, env1 name = some v → env2 name = some v

theorem foundOf_ok_imp (env1 env2 : Env) (f1 f2 : Nat) (w : Word)
    (ih : ∀ ch sid ws r, resolveWords env1 f1 ch sid ws false = .ok r →
      resolveWords env2 f2 ch sid ws false = .ok r)
    (L : Option (Obj × Chain)) (x : Option (List Word))
    (h : foundOf env1 f1 w L = .ok x) : foundOf env2 f2 w L = .ok x := by
  cases L with
  | none => exact h
  | some r =>
    obtain ⟨o, ch⟩ := r
    cases o with
    | scope m k => exact h
    | defn m ws =>
      simp only [foundOf] at h ⊢
      cases hid : m.id with
      | none => rw [hid] at h; exact h
      | some sid =>
        rw [hid] at h
        simp only [] at h ⊢
        cases hr : resolveWords env1 f1 ch sid ws false with
        | error e => rw [hr] at h; cases h
        | ok v =>
          rw [hr] at h
          rw [ih _ _ _ _ hr]
          exact h

theorem resolveVar_ok_imp (env1 env2 : Env) (f1 f2 : Nat) (chain : Chain) (id : Nat) (diff : Bool)
    (w : Word) (force : Bool) (henv : EnvLe env1 env2)
    (ih : ∀ ch sid ws r, resolveWords env1 f1 ch sid ws false = .ok r →
      resolveWords env2 f2 ch sid ws false = .ok r)
    (rs : List (List Word)) (name : Str) (r : List (List Word))
    (h : resolveVar env1 f1 chain id diff w force rs name = .ok r) :
    resolveVar env2 f2 chain id diff w force rs name = .ok r := by
  unfold resolveVar at h ⊢
  cases hf : foundOf env1 f1 w (lexicalGet (2 * name.length + chain.length + 1) chain name id true) with
  | error e => rw [hf] at h; cases h
  | ok x =>
    rw [hf] at h
    rw [foundOf_ok_imp env1 env2 f1 f2 w ih _ _ hf]
    cases x with
    | some vws => exact h
    | none =>
      cases diff with
      | true => exact h
      | false =>
        simp only [Bool.false_eq_true, ↓reduceIte] at h ⊢
        cases he : env1 name with
        | none => rw [he] at h; cases h
        | some v => rw [he] at h; rw [henv _ _ he]; exact h

theorem resolveStep_ok_imp (env1 env2 : Env) (f1 f2 : Nat) (chain : Chain) (id : Nat) (diff : Bool)
    (henv : EnvLe env1 env2)
    (ih : ∀ ch sid ws r, resolveWords env1 f1 ch sid ws false = .ok r →
      resolveWords env2 f2 ch sid ws false = .ok r)
    (acc : List Word) (w : Word) (r : List Word)
    (h : resolveStep env1 f1 chain id diff acc w = .ok r) :
    resolveStep env2 f2 chain id diff acc w = .ok r := by
  unfold resolveStep at h ⊢
  split
  · rename_i hq; simp only [hq, ↓reduceIte] at h; exact h
  · rename_i hq
    simp only [hq] at h
    cases hfr : fragments w.value with
    | error e => rw [hfr] at h; exact h
    | ok p =>
      obtain ⟨frags, hv⟩ := p
      rw [hfr] at h
      simp only [] at h ⊢
      cases hv with
      | false => exact h
      | true =>
        simp only [Bool.not_true, Bool.false_eq_true, ↓reduceIte] at h ⊢
        unfold resolveMix at h ⊢
        have hfold := foldlM_ok_imp
          (resolveFrag env1 f1 chain id diff w (w.quote.isSome || decide (frags.length > 1)))
          (resolveFrag env2 f2 chain id diff w (w.quote.isSome || decide (frags.length > 1)))
          (by
            intro rs fr r' hfr'
            cases fr with
            | lit s => exact hfr'
            | var name => exact resolveVar_ok_imp env1 env2 f1 f2 chain id diff w _ henv ih rs name r' hfr')
          frags []
        cases hres : frags.foldlM (resolveFrag env1 f1 chain id diff w
            (w.quote.isSome || decide (frags.length > 1))) [] with
        | error e => simp only [hres] at h; cases h
        | ok rs =>
          simp only [hres] at h
          simp only [hfold rs hres]
          exact h

/-- **Monotonicity.**  A successful resolution stays the same when the fuel grows and when the
    environment gains variables. -/
theorem resolveWords_mono (env1 env2 : Env) (henv : EnvLe env1 env2) :
    ∀ (f1 f2 : Nat) (chain : Chain) (id : Nat) (ws : List Word) (diff : Bool) (r : List Word),
      f1 ≤ f2 → resolveWords env1 f1 chain id ws diff = .ok r →
      resolveWords env2 f2 chain id ws diff = .ok r := by
  intro f1
  induction f1 with
  | zero => intro f2 chain id ws diff r _ h; simp [resolveWords] at h
  | succ f1 ih =>
    intro f2 chain id ws diff r hle h
    obtain ⟨f2', rfl⟩ : ∃ k, f2 = k + 1 := ⟨f2 - 1, by omega⟩
    rw [resolveWords_succ] at h ⊢
    exact foldlM_ok_imp _ _
      (resolveStep_ok_imp env1 env2 f1 f2' chain id diff henv
        (fun ch sid ws r hr => ih f2' ch sid ws false r (by omega) hr)) ws [] r h

/-- results are stable once enough fuel is given -/
theorem resolveWords_mono_fuel (env : Env) (f f' : Nat) (chain : Chain) (id : Nat) (ws : List Word)
    (diff : Bool) (r : List Word) (hle : f ≤ f')
    (h : resolveWords env f chain id ws diff = .ok r) :
    resolveWords env f' chain id ws diff = .ok r :=
  resolveWords_mono env env (fun _ _ h => h) f f' chain id ws diff r hle h

/-- if resolution succeeds with the empty environment, the environment never matters -/
theorem resolveWords_env_closed (env : Env) (fuel : Nat) (chain : Chain) (id : Nat) (ws : List Word)
    (diff : Bool) (r : List Word)
    (h : resolveWords (fun _ => none) fuel chain id ws diff = .ok r) :
    resolveWords env fuel chain id ws diff = .ok r :=
  resolveWords_mono (fun _ => none) env (fun _ _ h => by cases h) fuel fuel chain id ws diff r
    (Nat.le_refl _) h

/-! ## 12. fuel adequacy of `lexicalGet`: the measure `2*|path| + |chain|` -/

theorem lastLevel_length_le (c : Chain) : (lastLevel c).length ≤ c.length := by
  unfold lastLevel
  cases h : c.reverse with
  | nil => simp
  | cons r rs =>
    have := congrArg List.length h
    simp at this ⊢
    omega

theorem reroot_measure (c : Chain) (p : Str) :
    2 * (reroot c p).2.length + (reroot c p).1.length ≤ 2 * p.length + c.length := by
  unfold reroot
  split
  · have := lastLevel_length_le c
    simp only [List.length_drop]
    omega
  · exact Nat.le_refl _

theorem stripPrefixDot_length {name p sub : Str} (h : stripPrefixDot name p = some sub) :
    sub.length + 1 ≤ p.length := by
  unfold stripPrefixDot startsWith at h
  split at h
  · rename_i hs
    cases h
    have := congrArg List.length (eq_of_beq hs)
    simp only [List.length_take, List.length_append, List.length_cons, List.length_nil,
      List.length_drop] at this ⊢
    omega
  · cases h

/-- with fuel above the measure the result of a lookup does not depend on the fuel -/
theorem lexicalGet_fuel_irrelevant : ∀ (f f' : Nat) (c : Chain) (path : Str) (stopId : Nat) (up : Bool),
    2 * path.length + c.length < f → 2 * path.length + c.length < f' →
    lexicalGet f c path stopId up = lexicalGet f' c path stopId up := by
  intro f
  induction f with
  | zero => intro f' c path stopId up h; omega
  | succ f ih =>
    intro f' c path stopId up h1 h2
    obtain ⟨g, rfl⟩ : ∃ k, f' = k + 1 := ⟨f' - 1, by omega⟩
    rw [lexicalGet_succ, lexicalGet_succ]
    have hm := reroot_measure c path
    generalize (reroot c path).1 = d at hm
    generalize (reroot c path).2 = p at hm
    cases d with
    | nil => rfl
    | cons objs outer =>
      simp only [List.length_cons] at hm
      have htry : tryOne f stopId p objs outer = tryOne g stopId p objs outer := by
        funext o
        unfold tryOne
        split
        · rfl
        · cases hs : stripPrefixDot o.name p with
          | none => rfl
          | some sub =>
            have := stripPrefixDot_length hs
            apply ih
            · simp only [List.length_cons]; omega
            · simp only [List.length_cons]; omega
      simp only [lookupIn, htry]
      cases outer with
      | nil => rfl
      | cons a b =>
        rw [ih g (a :: b) p stopId true (by simp only [List.length_cons] at hm ⊢; omega)
          (by simp only [List.length_cons] at hm ⊢; omega)]

/-- **Fuel adequacy.**  `2*|path| + |chain| + 1` (what `resolveWords` passes) is enough: any larger
    fuel gives the same lookup result. -/
theorem lexicalGet_fuel_adequate (f : Nat) (c : Chain) (path : Str) (stopId : Nat) (up : Bool)
    (h : 2 * path.length + c.length + 1 ≤ f) :
    lexicalGet f c path stopId up = lexicalGet (2 * path.length + c.length + 1) c path stopId up :=
  lexicalGet_fuel_irrelevant _ _ _ _ _ _ (by omega) (by omega)

/-! ## 13. `$name` for a simple identifier is exactly one variable fragment -/

theorem isIdStart_ne_paren {d : Char} (h : isIdStart d = true) : d ≠ '(' := by
  intro e; subst e; revert h; decide
theorem simple_ne_dot {x : Char} (h : (isIdStart x || isDigit x) = true) : x ≠ '.' := by
  intro e; subst e; revert h; decide

theorem takeWhile_simple (rest : Str) (h : rest.all (fun d => isIdStart d || isDigit d) = true) :
    rest.takeWhile (fun x => x != '.' && isIdCont x) = rest := by
  induction rest with
  | nil => rfl
  | cons x xs ih =>
    simp only [List.all_cons, Bool.and_eq_true] at h
    have h1 := simple_ne_dot h.1
    have h2 : isIdCont x = true := by
      unfold isIdCont
      cases hs : isIdStart x
      · simp [hs] at h; simp [h.1]
      · simp
    rw [List.takeWhile_cons_of_pos (by simp [h1, h2]), ih h.2]

theorem fragmentsAux_dollar_ident (fuel : Nat) (d : Char) (rest : Str) (h1 : isIdStart d = true)
    (h2 : rest.all (fun d => isIdStart d || isDigit d) = true) :
    fragmentsAux (fuel + 2) ('$' :: d :: rest) [] [] = .ok ([.var (d :: rest)], true) := by
  have hp := isIdStart_ne_paren h1
  rw [fragmentsAux]
  simp only [bne_self_eq_false, Bool.false_eq_true, ↓reduceIte, List.isEmpty_nil]
  · simp only [h1, Bool.not_true, Bool.false_eq_true, ↓reduceIte, takeWhile_simple _ h2,
      List.drop_length, List.nil_append]
    rw [fragmentsAux]
    rfl
  · intro _ h; exact absurd h (by decide)

theorem fragments_dollar_ident (name : Str) (h : isSimpleIdent name = true) :
    fragments ('$' :: name) = .ok ([.var name], true) := by
  cases name with
  | nil => simp [isSimpleIdent] at h
  | cons d rest =>
    simp only [isSimpleIdent, Bool.and_eq_true] at h
    unfold fragments
    simp only [List.length_cons]
    rw [fragmentsAux_dollar_ident _ _ _ h.1 h.2]
    rfl

/-! ## 14. the environment is only a fallback -/

/-- when the lookup finds a definition, the fragment's contribution depends on the environment only
    through the resolution of that definition -/
theorem resolveVar_env_irrelevant (env1 env2 : Env) (fuel : Nat) (chain : Chain) (id : Nat)
    (diff : Bool) (w : Word) (force : Bool) (rs : List (List Word)) (name : Str) (m : Meta)
    (ws : List Word) (ch : Chain) (sid : Nat)
    (hl : lexicalGet (2 * name.length + chain.length + 1) chain name id true = some (.defn m ws, ch))
    (hid : m.id = some sid)
    (hnested : resolveWords env1 fuel ch sid ws false = resolveWords env2 fuel ch sid ws false) :
    resolveVar env1 fuel chain id diff w force rs name = resolveVar env2 fuel chain id diff w force rs name := by
  rw [resolveVar_found _ _ _ _ _ _ _ _ _ _ _ _ _ hl hid, resolveVar_found _ _ _ _ _ _ _ _ _ _ _ _ _ hl hid,
    hnested]

/-- a word that is one unquoted variable: if an earlier definition is found, the environment does not
    matter at this word (beyond what it does to the referenced definition's own resolution) -/
theorem env_only_fallback_frags (env1 env2 : Env) (fuel : Nat) (chain : Chain) (id : Nat) (diff : Bool)
    (w : Word) (name : Str) (m : Meta) (ws : List Word) (ch : Chain) (sid : Nat)
    (hq : w.quote ≠ some .s1) (hf : fragments w.value = .ok ([.var name], true))
    (hl : lexicalGet (2 * name.length + chain.length + 1) chain name id true = some (.defn m ws, ch))
    (hid : m.id = some sid)
    (hnested : resolveWords env1 fuel ch sid ws false = resolveWords env2 fuel ch sid ws false) :
    resolveWords env1 (fuel + 1) chain id [w] diff = resolveWords env2 (fuel + 1) chain id [w] diff := by
  rw [resolveWords_single, resolveWords_single, resolveStep_mix _ _ _ _ _ _ _ _ hq hf,
    resolveStep_mix _ _ _ _ _ _ _ _ hq hf]
  unfold resolveMix
  simp only [List.foldlM_cons, List.foldlM_nil, resolveFrag,
    resolveVar_env_irrelevant env1 env2 fuel chain id diff w _ _ name m ws ch sid hl hid hnested]

theorem env_only_fallback (env1 env2 : Env) (fuel : Nat) (chain : Chain) (id : Nat)
    (w : Word) (name : Str) (m : Meta) (ws : List Word) (ch : Chain) (sid : Nat) (r : List Word)
    (hq : w.quote = none) (hv : w.value = '$' :: name) (hn : isSimpleIdent name = true)
    (h1 : resolveWords env1 (fuel + 1) chain id [w] false = .ok r)
    (hl : lexicalGet (2 * name.length + chain.length + 1) chain name id true = some (.defn m ws, ch))
    (hid : m.id = some sid)
    (hnested : resolveWords env1 fuel ch sid ws false = resolveWords env2 fuel ch sid ws false) :
    resolveWords env2 (fuel + 1) chain id [w] false = .ok r := by
  rw [← env_only_fallback_frags env1 env2 fuel chain id false w name m ws ch sid (by simp [hq])
    (by rw [hv]; exact fragments_dollar_ident name hn) hl hid hnested]
  exact h1

/-! ## 15. termination: every reference goes to a strictly smaller id, so fuel `id + 1` suffices -/

/-- beyond `id + 1` the fuel does not matter at all (successes and errors alike) -/
theorem resolveWords_fuel_irrelevant (env : Env) : ∀ (f f' : Nat) (chain : Chain) (id : Nat)
    (ws : List Word) (diff : Bool), id < f → id < f' →
    resolveWords env f chain id ws diff = resolveWords env f' chain id ws diff := by
  intro f
  induction f with
  | zero => intro f' chain id ws diff h; omega
  | succ f ih =>
    intro f' chain id ws diff h1 h2
    obtain ⟨g, rfl⟩ : ∃ k, f' = k + 1 := ⟨f' - 1, by omega⟩
    rw [resolveWords_succ, resolveWords_succ]
    have hvar : ∀ w force rs name, resolveVar env f chain id diff w force rs name
        = resolveVar env g chain id diff w force rs name := by
      intro w force rs name
      have hfound : foundOf env f w (lexicalGet (2 * name.length + chain.length + 1) chain name id true)
          = foundOf env g w (lexicalGet (2 * name.length + chain.length + 1) chain name id true) := by
        cases hl : lexicalGet (2 * name.length + chain.length + 1) chain name id true with
        | none => rfl
        | some r =>
          obtain ⟨o, ch⟩ := r
          cases o with
          | scope m k => rfl
          | defn m ws1 =>
            simp only [foundOf]
            cases hid : m.id with
            | none => rfl
            | some sid =>
              have hlt : sid < id := lexicalGet_id_lt _ _ _ _ _ _ _ _ hl (by simpa [Obj.meta] using hid)
              simp only []
              rw [ih g ch sid ws1 false (by omega) (by omega)]
      unfold resolveVar
      simp only [hfound]
    have hfrag : ∀ w force, resolveFrag env f chain id diff w force = resolveFrag env g chain id diff w force := by
      intro w force
      funext rs fr
      cases fr with
      | lit s => rfl
      | var name => simp only [resolveFrag, hvar]
    have hstep : resolveStep env f chain id diff = resolveStep env g chain id diff := by
      funext acc w
      unfold resolveStep resolveMix
      simp only [hfrag]
    rw [hstep]

theorem foldlM_ne_error {α β ε : Type} (e0 : ε) (f : β → α → Except ε β)
    (h : ∀ acc x, f acc x ≠ .error e0) :
    ∀ (l : List α) (init : β), l.foldlM f init ≠ .error e0 := by
  intro l
  induction l with
  | nil => intro init h'; simp [pure, Except.pure] at h'
  | cons x xs ih =>
    intro init
    rw [List.foldlM_cons]
    cases h1 : f init x with
    | error e => intro h'; exact h init x (by rw [h1]; exact h')
    | ok b => exact ih b

/-- **Termination.**  With fuel above the definition's id, resolution never runs out of fuel. -/
theorem resolveWords_not_outOfFuel (env : Env) : ∀ (f : Nat) (chain : Chain) (id : Nat)
    (ws : List Word) (diff : Bool), id < f →
    resolveWords env f chain id ws diff ≠ .error .outOfFuel := by
  intro f
  induction f with
  | zero => intro chain id ws diff h; omega
  | succ f ih =>
    intro chain id ws diff h1
    rw [resolveWords_succ]
    apply foldlM_ne_error
    intro acc w
    unfold resolveStep
    split
    · intro h; cases h
    · cases hfr : fragments w.value with
      | error e => intro h; cases h
      | ok p =>
        obtain ⟨frags, hv⟩ := p
        simp only []
        cases hv with
        | false => intro h; cases h
        | true =>
          simp only [Bool.not_true, Bool.false_eq_true, ↓reduceIte]
          unfold resolveMix
          have hfold : frags.foldlM (resolveFrag env f chain id diff w
              (w.quote.isSome || decide (frags.length > 1))) [] ≠ .error .outOfFuel := by
            apply foldlM_ne_error
            intro rs fr
            cases fr with
            | lit s => intro h; cases h
            | var name =>
              simp only [resolveFrag]
              unfold resolveVar
              have hfound : foundOf env f w (lexicalGet (2 * name.length + chain.length + 1) chain name id true)
                  ≠ .error .outOfFuel := by
                cases hl : lexicalGet (2 * name.length + chain.length + 1) chain name id true with
                | none => intro h; cases h
                | some r =>
                  obtain ⟨o, ch⟩ := r
                  cases o with
                  | scope m k => intro h; cases h
                  | defn m ws1 =>
                    simp only [foundOf]
                    cases hid : m.id with
                    | none => intro h; cases h
                    | some sid =>
                      have hlt : sid < id := lexicalGet_id_lt _ _ _ _ _ _ _ _ hl (by simpa [Obj.meta] using hid)
                      have := ih ch sid ws1 false (by omega)
                      simp only []
                      cases hr : resolveWords env f ch sid ws1 false with
                      | error e =>
                        intro h
                        simp only [Except.map] at h
                        cases h
                        exact this hr
                      | ok v => intro h; cases h
              cases hf : foundOf env f w (lexicalGet (2 * name.length + chain.length + 1) chain name id true) with
              | error e =>
                intro h
                simp only [] at h
                cases h
                exact hfound hf
              | ok x =>
                cases x with
                | some vws => intro h; cases h
                | none =>
                  simp only []
                  cases (if diff = true then some ('$' :: name) else env name) with
                  | none => intro h; cases h
                  | some v => intro h; cases h
          intro h
          cases hres : frags.foldlM (resolveFrag env f chain id diff w
              (w.quote.isSome || decide (frags.length > 1))) [] with
          | error e =>
            simp only [hres] at h
            cases h
            exact hfold hres
          | ok rs =>
            simp only [hres] at h
            split at h <;> cases h

end Phil
