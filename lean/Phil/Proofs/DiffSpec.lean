/-
  Phil.Proofs.DiffSpec — exact specification of `scope.fetch(diff=True)` (fetch_diff) for flat
  masters with `.multiple` definitions (`FlatMultiMaster`), and the laws of C08 derived from it:
  minimality, empty self-difference, restoring the working set from its difference, and the
  difference of the restored set.  Builds on Phil/Proofs/FetchSpec.lean.
-/
import Phil.Proofs.FetchSpec
set_option linter.unusedVariables false
namespace Phil

/-! ## 0. the key of a definition does not depend on the (positive) fuel -/

theorem extractFormatStr_defn_fuel (e : Envs) (n k : Nat) (mm : Meta) (mws : List Word)
    (cm : Meta) (cws : List Word) :
    extractFormatStr e (n + 1) (.defn mm mws) (.defn cm cws) =
      extractFormatStr e (k + 1) (.defn mm mws) (.defn cm cws) := by
  simp only [extractFormatStr, extractObj, formatObj]

/-- the key the diff branch of `definition.fetch` computes (fuel `f+1`) is the key `keyOf` names -/
theorem extractFormatStr_defn_eq (e : Envs) (f : Nat) (mm : Meta) (mws : List Word)
    (cm : Meta) (cws : List Word) :
    extractFormatStr e (f + 1) (.defn mm mws) (.defn cm cws) =
      extractFormatStr e (f + 1 + 64) (.defn mm mws) (.defn cm cws) :=
  extractFormatStr_defn_fuel e f (f + 64) mm mws cm cws

/-! ## 1. `definition.fetch_diff` -/

/-- the outcome of `definition.fetch_diff` for the source definition `d`: nothing if the key of the
    candidate is the key of the master definition, else the candidate -/
def diffCand (e : Envs) (fuel : Nat) (mo d : Obj) : Option Obj :=
  if keyOf e fuel mo (candOfSrc mo d) == keyOf e fuel mo mo then none else some (candOfSrc mo d)

theorem candOfSrc_defn (mm : Meta) (mws : List Word) (d : Obj) :
    candOfSrc (.defn mm mws) d = .defn { mm with tmpl := 0 } d.srcWords := rfl

theorem fetchDefn_diff (e : Envs) (f : Nat) (mm : Meta) (mws : List Word) (sm : Meta) (sws : List Word)
    (hp : DefnMeta mm) (hok : SrcOK (.defn sm sws)) (k0 k : Str)
    (hk0 : extractFormatStr e (f + 1 + 64) (.defn mm mws) (.defn mm mws) = .ok k0)
    (hk : extractFormatStr e (f + 1 + 64) (.defn mm mws) (candOfSrc (.defn mm mws) (.defn sm sws)) = .ok k) :
    fetchDefn e (f + 1) true (.defn mm mws) (.defn sm sws) =
      .ok (diffCand e (f + 1) (.defn mm mws) (.defn sm sws)) := by
  unfold fetchDefn diffCand
  rw [fetchValue_defnMeta mm mws sm sws hp hok, keyOf_ok hk, keyOf_ok hk0]
  rw [candOfSrc_defn] at hk ⊢
  simp only [Option.getD_some, Bool.not_true, Bool.false_eq_true, if_false]
  rw [extractFormatStr_defn_eq e f mm mws { mm with tmpl := 0 } (Obj.defn sm sws).srcWords, hk,
    extractFormatStr_defn_eq e f mm mws mm mws, hk0]
  simp only
  split <;> rfl

/-- the value carried out of the loop over the matching sources in diff mode -/
def lastDiff (e : Envs) (fuel : Nat) (mo : Obj) (l : List Obj) (init : Option Obj) : Option Obj :=
  match l.getLast? with
  | some d => diffCand e fuel mo d
  | none => init

theorem lastDiff_cons (e : Envs) (fuel : Nat) (mo d : Obj) (l : List Obj) (init : Option Obj) :
    lastDiff e fuel mo (d :: l) init = lastDiff e fuel mo l (diffCand e fuel mo d) := by
  unfold lastDiff
  rw [List.getLast?_cons]
  cases l.getLast? <;> rfl

theorem defnOne_fold_diff (e : Envs) (f : Nat) (mm : Meta) (mws : List Word) (hp : DefnMeta mm) (k0 : Str)
    (hk0 : extractFormatStr e (f + 1 + 64) (.defn mm mws) (.defn mm mws) = .ok k0) :
    ∀ (l : List Obj) (init : Option Obj) (used : List Nat),
      (∀ o ∈ l, o.isDefn = true ∧ SrcOK o ∧
        ∃ k, extractFormatStr e (f + 1 + 64) (.defn mm mws) (candOfSrc (.defn mm mws) o) = .ok k) →
      l.foldlM (defnOne e (f + 1) true (.defn mm mws)) (init, used) =
        .ok (lastDiff e (f + 1) (.defn mm mws) l init, used ++ l.flatMap marksOf) := by
  intro l
  induction l with
  | nil => intro init used _; simp [lastDiff]; rfl
  | cons d l ih =>
    intro init used hl
    obtain ⟨hd1, hd2, k, hk⟩ := hl d List.mem_cons_self
    cases d with
    | scope m k => cases hd1
    | defn sm sws =>
      rw [List.foldlM_cons]
      have h1 : defnOne e (f + 1) true (.defn mm mws) (init, used) (.defn sm sws) =
          .ok (diffCand e (f + 1) (.defn mm mws) (.defn sm sws), used ++ marksOf (.defn sm sws)) := by
        unfold defnOne marksOf
        rw [fetchDefn_diff e f mm mws sm sws hp hd2 k0 k hk0 hk, List.append_assoc]
        rfl
      rw [h1]
      show l.foldlM _ _ = _
      rw [ih _ _ (fun o ho => hl o (List.mem_cons_of_mem _ ho)), lastDiff_cons]
      simp

/-! ## 2. one iteration of the master loop in diff mode -/

/-- the survivors of the list rule: candidates whose key is the master's are dropped, of candidates
    with equal keys only the last one stays -/
def survivorsOf (k0 : Str) (cks : List (Obj × Str)) : List Obj :=
  (dedupKeepLast (cks.filter (fun y => y.2 != k0))).map (·.1)

theorem multiBlock_eq_cons (mo : Obj) (k0 : Str) (cks : List (Obj × Str)) :
    multiBlock mo k0 cks =
      withTmpl mo (multiTmpl mo (survivorsOf k0 cks).isEmpty) :: survivorsOf k0 cks := by
  unfold multiBlock survivorsOf
  rw [List.isEmpty_map]

/-- **the block a master definition contributes to a difference**, `l` being its matching sources in
    source order.
    * not `.multiple`: the candidate built from the LAST matching source, provided its key differs
      from the key of the master definition; nothing otherwise (in particular nothing if there is
      no matching source);
    * `.multiple`: the survivors of the list rule, WITHOUT the template copy of the master
      definition that a non-diff fetch puts in front -/
def diffBlockL (e : Envs) (fuel : Nat) (mo : Obj) (l : List Obj) : List Obj :=
  if isMultiple mo then survivorsOf (keyOf e fuel mo mo) (candsOf e fuel mo l)
  else match l.getLast? with
    | none => []
    | some d => if keyOf e fuel mo (candOfSrc mo d) == keyOf e fuel mo mo then [] else [candOfSrc mo d]

/-- … for the sources `D` -/
def diffBlockOf (e : Envs) (fuel : Nat) (D : List Obj) (mo : Obj) : List Obj :=
  diffBlockL e fuel mo (activeNamed mo.name D)

/-- the block of a non-diff fetch as a function of the matching sources -/
def blockL (e : Envs) (fuel : Nat) (mo : Obj) (l : List Obj) : List Obj :=
  if isMultiple mo then multiBlock mo (keyOf e fuel mo mo) (candsOf e fuel mo l) else [lastWins mo l]

theorem blockOf_eq_blockL (e : Envs) (fuel : Nat) (D : List Obj) (mo : Obj) :
    blockOf e fuel D mo = blockL e fuel mo (activeNamed mo.name D) := rfl

theorem diff_plain_step (F : FetchFn) (e : Envs) (f : Nat) (sm : Meta) (mkids combined D : List Obj)
    (st : List Obj × List Nat) (idx : Nat) (mm : Meta) (mws : List Word) (hp : DefnMeta mm)
    (hmult : isMultiple (.defn mm mws) = false)
    (hmatch : fetchMatching (f + 1) sm combined (.defn mm mws) = activeNamed mm.name D)
    (hdef : ∀ o ∈ D, o.isDefn = true) (hsrc : ∀ o ∈ D, SrcOK o)
    (hkeys : KeysDefined e (f + 1) (.defn mm mws) (activeNamed mm.name D)) :
    stepG F e (f + 1) true sm mkids combined st (idx, .defn mm mws) =
      .ok (st.1 ++ diffBlockL e (f + 1) (.defn mm mws) (activeNamed mm.name D),
           st.2 ++ (activeNamed mm.name D).flatMap marksOf) := by
  obtain ⟨⟨k0, hk0⟩, hcand⟩ := hkeys
  unfold stepG
  simp only [hmult, Bool.not_false, if_true]
  rw [hmatch]
  rw [defnOne_fold_diff e f mm mws hp k0 hk0 _ _ _ (by
    intro o ho
    have := (List.mem_filter.mp ho).1
    exact ⟨hdef o this, hsrc o this, hcand o ho⟩)]
  cases hg : (activeNamed mm.name D).getLast? with
  | none => simp [defnFinish, lastDiff, diffBlockL, hmult, hg]
  | some d =>
    cases hk : keyOf e (f + 1) (.defn mm mws) (candOfSrc (.defn mm mws) d) ==
        keyOf e (f + 1) (.defn mm mws) (.defn mm mws) <;>
      simp [defnFinish, lastDiff, diffBlockL, diffCand, hmult, hg, hk]

theorem cAccept_diff_src (cs : Str) (c : Obj) (u : List Nat)
    (robjs : List (Option Obj)) (processed : List (Str × Int)) (used : List Nat) :
    cAccept true false cs c u robjs processed used = cAccept false false cs c u robjs processed used := by
  unfold cAccept
  simp only [Bool.and_false]

/-- for a source candidate the diff-mode step of the candidate loop is the non-diff step -/
theorem cstepG_diff_src (F : FetchFn) (e : Envs) (f : Nat) (mm : Meta) (mws : List Word) (k0 : Str)
    (ms : Obj) (ck : Obj × Str) (hl : CandLink e (f + 1) (.defn mm mws) ms ck)
    (hcd : ∃ cm cws, ck.1 = .defn cm cws)
    (hk0 : extractFormatStr e (f + 1 + 64) (.defn mm mws) (.defn mm mws) = .ok k0) (acc : CAcc) :
    cstepG F e (f + 1) true (.defn mm mws) k0 acc (false, ms) =
      cstepG F e (f + 1) false (.defn mm mws) k0 acc (false, ms) := by
  obtain ⟨robjs, processed, used⟩ := acc
  rw [cstepG_link F e (f + 1) mm mws k0 ms ck hl]
  obtain ⟨cm, cws, hc⟩ := hcd
  have hl2 := hl.2
  rw [hc] at hl2
  unfold cstepG candOf fetchDefn
  simp only [hl.1, Bool.not_true, Bool.false_eq_true, if_false, Option.getD_some]
  rw [hc, extractFormatStr_defn_eq e f mm mws cm cws, hl2, extractFormatStr_defn_eq e f mm mws mm mws, hk0]
  simp only
  cases hk : ck.2 == k0 with
  | true => simp [Except.map, marksOf, idOf]
  | false =>
    simp only [Bool.false_eq_true, if_false, Except.map, hl2, hk]
    rw [cAccept_diff_src]
    rfl

theorem diff_multi_step (F : FetchFn) (e : Envs) (f : Nat) (sm : Meta) (mkids combined : List Obj)
    (st : List Obj × List Nat) (idx : Nat) (mm : Meta) (mws : List Word) (k0 : Str)
    (cks : List (Obj × Str))
    (hmult : isMultiple (.defn mm mws) = true)
    (hfm : fromMasterOf mkids idx (.defn mm mws) = [])
    (hk0 : extractFormatStr e (f + 1 + 64) (.defn mm mws) (.defn mm mws) = .ok k0)
    (hl : Forall2 (fun ms ck => CandLink e (f + 1) (.defn mm mws) ms ck ∧ ∃ cm cws, ck.1 = .defn cm cws)
      (fetchMatching (f + 1) sm combined (.defn mm mws)) cks) :
    stepG F e (f + 1) true sm mkids combined st (idx, .defn mm mws) =
      .ok (st.1 ++ survivorsOf k0 cks,
           st.2 ++ (fetchMatching (f + 1) sm combined (.defn mm mws)).flatMap marksOf) := by
  have hl' : Forall2 (CandLink e (f + 1) (.defn mm mws)) (fetchMatching (f + 1) sm combined (.defn mm mws)) cks :=
    hl.imp (fun _ _ h => h.1)
  unfold stepG
  simp only [hmult, Bool.not_true, Bool.false_eq_true, if_false]
  unfold multiBranch
  rw [masterKeyG_defn, hk0, hfm, List.nil_append]
  simp only
  -- replace the diff-mode fold by the non-diff fold
  have hfold : ∀ init : CAcc,
      ((fetchMatching (f + 1) sm combined (.defn mm mws)).map (fun (o : Obj) => (false, o))).foldlM
        (cstepG F e (f + 1) true (.defn mm mws) k0) init =
      ((fetchMatching (f + 1) sm combined (.defn mm mws)).map (fun (o : Obj) => (false, o))).foldlM
        (cstepG F e (f + 1) false (.defn mm mws) k0) init := by
    intro init
    apply foldlM_congr_mem
    intro a ha b
    obtain ⟨ms, hms, rfl⟩ := List.mem_map.mp ha
    obtain ⟨bs1, ck, bs2, _, hq⟩ := forall₂_mem_split hl hms
    exact cstepG_diff_src F e f mm mws k0 ms ck hq.1 hq.2 hk0 b
  rw [hfold]
  obtain ⟨r', p', T', hf, hi, hs⟩ := multi_fold F e (f + 1) mm mws k0 _ cks hl' [] [] st.2 [] MInv.nil
  rw [hf]
  simp only
  have hs' : survOf T' = dedupKeepLast (cks.filter (fun y => y.2 != k0)) := by
    rw [hs]; exact foldl_accStep_nil k0 cks
  have h1 : r'.filterMap (fun (x : Option Obj) => x) = survivorsOf k0 cks := by
    unfold survivorsOf
    rw [← someIdx_fst r' 0, hi.idx, ← hs']
    unfold survOf
    simp [List.map_map]
  rw [h1]
  unfold tmplObjsOf
  simp

/-! ## 3. the whole difference for flat masters with `.multiple` definitions -/

/-- **C08, closed form of the difference**, given what the matching sources of every master child
    are (`hmatch`).  Fuel `f + 2`: the diff branch of `definition.fetch` renders with the fuel of
    the iteration, which must be positive. -/
theorem diff_flat_multi_of_matching (e : Envs) (f : Nat) (sm : Meta) (mkids combined D : List Obj)
    (hf : FlatMultiMaster mkids)
    (hmatch : ∀ mo ∈ mkids, fetchMatching (f + 1) sm combined mo = activeNamed mo.name D)
    (hdef : ∀ o ∈ D, o.isDefn = true) (hsrc : ∀ o ∈ D, SrcOK o)
    (hkeys : ∀ mo ∈ mkids, KeysDefined e (f + 1) mo (activeNamed mo.name D)) :
    fetchScope e (f + 2) true sm mkids combined =
      .ok (.scope { sm with tmpl := 0 } (mkids.flatMap (diffBlockOf e (f + 1) D)), flatUsed mkids D) := by
  rw [show f + 2 = (f + 1) + 1 from rfl, fetchScope_succ, masterActive_flatMulti mkids hf]
  simp only
  rw [foldlM_explicit _ (fun io => diffBlockOf e (f + 1) D io.2)
    (fun io => (activeNamed io.2.name D).flatMap marksOf)]
  · unfold fetchFinish flatUsed
    simp only [List.nil_append]
    rw [flatMap_snd (diffBlockOf e (f + 1) D),
      flatMap_snd (fun mo => (activeNamed mo.name D).flatMap marksOf), indexed_map_snd]
  · intro st a ha
    have hmem : a.2 ∈ mkids := by rw [← indexed_map_snd mkids]; exact List.mem_map.mpr ⟨a, ha, rfl⟩
    obtain ⟨mm, mws, hmo, hp, hname, _⟩ := hf.defn _ hmem
    obtain ⟨i, o⟩ := a
    simp only at hmo
    subst hmo
    have hm := hmatch _ hmem
    have hk := hkeys _ hmem
    cases hmult : isMultiple (.defn mm mws) with
    | false =>
      exact diff_plain_step _ e f sm mkids combined D st i mm mws hp hmult hm hdef hsrc hk
    | true =>
      obtain ⟨⟨k0, hk0⟩, hcand⟩ := hk
      have hl : Forall2 (fun ms ck => CandLink e (f + 1) (.defn mm mws) ms ck ∧ ∃ cm cws, ck.1 = .defn cm cws)
          (fetchMatching (f + 1) sm combined (.defn mm mws))
          (candsOf e (f + 1) (.defn mm mws) (activeNamed mm.name D)) := by
        rw [hm]
        apply forall2_map
        intro d hd
        have hdD := (List.mem_filter.mp hd).1
        obtain ⟨k, hk⟩ := hcand d hd
        cases d with
        | scope m k => exact absurd (hdef _ hdD) (by simp [Obj.isDefn])
        | defn dm dws =>
          exact ⟨⟨fetchValue_defnMeta mm mws dm dws hp (hsrc _ hdD), by rw [keyOf_ok hk]; exact hk⟩,
            _, _, rfl⟩
      have := diff_multi_step (fetchScope e (f + 1)) e f sm mkids combined st i mm mws k0 _ hmult
        (fromMasterOf_nil mkids hf.distinct i _ ha) hk0 hl
      rw [this, hm]
      unfold diffBlockOf diffBlockL
      rw [hmult, keyOf_ok hk0]
      rfl

/-- **C08, closed form of the difference, definition-only sources.** -/
theorem diff_flat_multi (e : Envs) (f : Nat) (sm : Meta) (mkids combined : List Obj)
    (hf : FlatMultiMaster mkids) (hsm : sm.name = []) (hsd : sm.disabled = false)
    (hdef : ∀ o ∈ combined, o.isDefn = true) (hsrc : ∀ o ∈ combined, SrcOK o)
    (hkeys : ∀ mo ∈ mkids, KeysDefined e (f + 1) mo (activeNamed mo.name combined)) :
    fetchScope e (f + 2) true sm mkids combined =
      .ok (.scope { sm with tmpl := 0 } (mkids.flatMap (diffBlockOf e (f + 1) combined)),
           flatUsed mkids combined) := by
  apply diff_flat_multi_of_matching e f sm mkids combined combined hf ?_ hdef hsrc hkeys
  intro mo hmo
  obtain ⟨mm, mws, rfl, _, hname, _⟩ := hf.defn mo hmo
  exact fetchMatching_flat (f + 1) sm combined _ hsm hsd hname hdef

/-- … and sources mixing root-level definitions and named scopes (master names dot-free) -/
theorem diff_flat_multi_mixed (e : Envs) (f : Nat) (sm : Meta) (mkids combined : List Obj)
    (hf : FlatMultiMaster mkids) (hdot : ∀ mo ∈ mkids, '.' ∉ mo.name)
    (hsm : sm.name = []) (hsd : sm.disabled = false)
    (hmix : MixedSrc (mkids.map Obj.name) combined)
    (hsrc : ∀ o ∈ combined, o.isDefn = true → SrcOK o)
    (hkeys : ∀ mo ∈ mkids, KeysDefined e (f + 1) mo (activeNamed mo.name (defnsOf combined))) :
    fetchScope e (f + 2) true sm mkids combined =
      .ok (.scope { sm with tmpl := 0 } (mkids.flatMap (diffBlockOf e (f + 1) (defnsOf combined))),
           flatUsed mkids (defnsOf combined)) := by
  apply diff_flat_multi_of_matching e f sm mkids combined (defnsOf combined) hf ?_
    (fun o ho => (mem_defnsOf.mp ho).2)
    (fun o ho => hsrc o (mem_defnsOf.mp ho).1 (mem_defnsOf.mp ho).2) hkeys
  intro mo hmo
  obtain ⟨mm, mws, rfl, _, hname, _⟩ := hf.defn mo hmo
  rw [fetchMatching_named (f + 1) sm combined (.defn mm mws) hsm hsd hname (hdot _ hmo) hmix.scopeNamed]
  apply activeNamed_defnsOf
  intro m kids hm hd heq
  exact hmix.noClash m kids hm hd (heq ▸ List.mem_map.mpr ⟨_, hmo, rfl⟩)

/-! ## 4. minimality -/

/-- the members of a difference block: candidates built from matching sources whose key is not the
    key of the master definition -/
theorem mem_diffBlockL {e : Envs} {fuel : Nat} {mo : Obj} {l : List Obj} {o : Obj}
    (ho : o ∈ diffBlockL e fuel mo l) :
    (∃ d ∈ l, o = candOfSrc mo d) ∧ keyOf e fuel mo o ≠ keyOf e fuel mo mo := by
  unfold diffBlockL at ho
  split at ho
  · unfold survivorsOf at ho
    obtain ⟨x, hx, rfl⟩ := List.mem_map.mp ho
    obtain ⟨h1, h2, h3⟩ := mem_surv hx
    exact ⟨h1, by rw [← h2]; exact h3⟩
  · split at ho
    · cases ho
    · rename_i d hd
      split at ho
      · cases ho
      · rename_i hk
        simp only [List.mem_singleton] at ho
        subst ho
        exact ⟨⟨d, List.mem_of_getLast? hd, rfl⟩, by simpa using hk⟩

/-- **C08 minimality**: every definition of the difference is the candidate built from an enabled
    source definition named like a master definition `mo`, and its key
    (`mo.extract_format(source=candidate).as_str()`) differs from the key of `mo`. -/
theorem diff_minimal (e : Envs) (f : Nat) (sm : Meta) (mkids combined : List Obj)
    (hf : FlatMultiMaster mkids) (hsm : sm.name = []) (hsd : sm.disabled = false)
    (hdef : ∀ o ∈ combined, o.isDefn = true) (hsrc : ∀ o ∈ combined, SrcOK o)
    (hkeys : ∀ mo ∈ mkids, KeysDefined e (f + 1) mo (activeNamed mo.name combined))
    (rm : Meta) (D : List Obj) (used : List Nat)
    (h : fetchScope e (f + 2) true sm mkids combined = .ok (.scope rm D, used)) :
    ∀ o ∈ D, ∃ mo ∈ mkids, (∃ d ∈ activeNamed mo.name combined, o = candOfSrc mo d) ∧
      keyOf e (f + 1) mo o ≠ keyOf e (f + 1) mo mo := by
  rw [diff_flat_multi e f sm mkids combined hf hsm hsd hdef hsrc hkeys] at h
  cases h
  intro o ho
  obtain ⟨mo, hmo, ho'⟩ := List.mem_flatMap.mp ho
  exact ⟨mo, hmo, mem_diffBlockL ho'⟩

/-! ## 5. algebra of the blocks of one master definition -/

theorem diffBlockL_nil (e : Envs) (fuel : Nat) (mo : Obj) : diffBlockL e fuel mo [] = [] := by
  unfold diffBlockL
  split <;> rfl

theorem candOfSrc_self (mm : Meta) (mws : List Word) (ht : mm.tmpl = 0) (hv : mm.varRes = none) :
    candOfSrc (.defn mm mws) (.defn mm mws) = .defn mm mws := by
  have := candOfSrc_tmpl mm mws ht hv mm.tmpl
  rw [show withTmpl (.defn mm mws) mm.tmpl = .defn mm mws from withTmpl_self (.defn mm mws)] at this
  exact this

theorem lastWins_eq (mo : Obj) (l : List Obj) :
    lastWins mo l = match l.getLast? with | some d => candOfSrc mo d | none => mo := rfl

/-- re-fetching the outcome of "last value wins" gives it back -/
theorem candOfSrc_lastWins (mm : Meta) (mws : List Word) (ht : mm.tmpl = 0) (hv : mm.varRes = none)
    (l : List Obj) :
    candOfSrc (.defn mm mws) (lastWins (.defn mm mws) l) = lastWins (.defn mm mws) l := by
  rw [lastWins_eq]
  cases l.getLast? with
  | none => exact candOfSrc_self mm mws ht hv
  | some d => exact candOfSrc_cand mm mws hv d

/-- the survivors with their keys -/
def survCK (e : Envs) (fuel : Nat) (mo : Obj) (l : List Obj) : List (Obj × Str) :=
  dedupKeepLast ((candsOf e fuel mo l).filter (fun y => y.2 != keyOf e fuel mo mo))

theorem survivorsOf_candsOf (e : Envs) (fuel : Nat) (mo : Obj) (l : List Obj) :
    survivorsOf (keyOf e fuel mo mo) (candsOf e fuel mo l) = (survCK e fuel mo l).map (·.1) := rfl

theorem multiBlock_candsOf (e : Envs) (fuel : Nat) (mo : Obj) (l : List Obj) :
    multiBlock mo (keyOf e fuel mo mo) (candsOf e fuel mo l) =
      withTmpl mo (multiTmpl mo (survCK e fuel mo l).isEmpty) :: (survCK e fuel mo l).map (·.1) := rfl

theorem mem_survCK {e : Envs} {fuel : Nat} {mo : Obj} {l : List Obj} {x : Obj × Str}
    (hx : x ∈ survCK e fuel mo l) :
    (∃ d ∈ l, x.1 = candOfSrc mo d) ∧ x.2 = keyOf e fuel mo x.1 ∧ x.2 ≠ keyOf e fuel mo mo :=
  mem_surv hx

/-- the candidates built from the survivors are the survivors -/
theorem candsOf_survivors (e : Envs) (fuel : Nat) (mm : Meta) (mws : List Word) (hv : mm.varRes = none)
    (l : List Obj) :
    candsOf e fuel (.defn mm mws) ((survCK e fuel (.defn mm mws) l).map (·.1)) =
      survCK e fuel (.defn mm mws) l := by
  unfold candsOf
  rw [List.map_map]
  calc (survCK e fuel (.defn mm mws) l).map _ = (survCK e fuel (.defn mm mws) l).map id := by
        apply List.map_congr_left
        intro x hx
        obtain ⟨⟨d, _, hxd⟩, hxk, _⟩ := mem_survCK hx
        simp only [Function.comp, id]
        rw [hxd, candOfSrc_cand mm mws hv d, ← hxd, ← hxk]
    _ = _ := List.map_id _

/-- filtering and de-duplicating the survivors again changes nothing -/
theorem survCK_stable (e : Envs) (fuel : Nat) (mo : Obj) (l : List Obj) :
    dedupKeepLast ((survCK e fuel mo l).filter (fun y => y.2 != keyOf e fuel mo mo)) = survCK e fuel mo l := by
  have hf : (survCK e fuel mo l).filter (fun y => y.2 != keyOf e fuel mo mo) = survCK e fuel mo l := by
    rw [List.filter_eq_self]
    intro x hx
    simpa using (mem_survCK hx).2.2
  rw [hf]
  exact dedupKeepLast_idem _

/-- the survivors of the survivors -/
theorem survCK_survivors (e : Envs) (fuel : Nat) (mm : Meta) (mws : List Word) (hv : mm.varRes = none)
    (l : List Obj) :
    survCK e fuel (.defn mm mws) ((survCK e fuel (.defn mm mws) l).map (·.1)) = survCK e fuel (.defn mm mws) l := by
  show dedupKeepLast ((candsOf e fuel (.defn mm mws) _).filter _) = _
  rw [candsOf_survivors e fuel mm mws hv l]
  exact survCK_stable e fuel _ l

/-- the survivors of a whole block (template, then survivors) -/
theorem survCK_multiBlock (e : Envs) (fuel : Nat) (mm : Meta) (mws : List Word)
    (ht : mm.tmpl = 0) (hv : mm.varRes = none) (l : List Obj) :
    survCK e fuel (.defn mm mws)
      (multiBlock (.defn mm mws) (keyOf e fuel (.defn mm mws) (.defn mm mws)) (candsOf e fuel (.defn mm mws) l)) =
      survCK e fuel (.defn mm mws) l := by
  rw [multiBlock_candsOf]
  show dedupKeepLast ((candsOf e fuel (.defn mm mws) (_ :: _)).filter _) = _
  have hc : candsOf e fuel (.defn mm mws)
      (withTmpl (.defn mm mws) (multiTmpl (.defn mm mws) (survCK e fuel (.defn mm mws) l).isEmpty) ::
        (survCK e fuel (.defn mm mws) l).map (·.1)) =
      (.defn mm mws, keyOf e fuel (.defn mm mws) (.defn mm mws)) :: survCK e fuel (.defn mm mws) l := by
    have := candsOf_survivors e fuel mm mws hv l
    unfold candsOf at this ⊢
    rw [List.map_cons, candOfSrc_tmpl mm mws ht hv, this]
  rw [hc, List.filter_cons]
  simp only [bne_self_eq_false, Bool.false_eq_true, if_false]
  exact survCK_stable e fuel _ l

/-- **the working set has the difference of the sources it was fetched from** (one master
    definition): the difference block computed from the non-diff block is the difference block
    computed from the sources -/
theorem diffBlockL_blockL (e : Envs) (fuel : Nat) (mm : Meta) (mws : List Word)
    (ht : mm.tmpl = 0) (hv : mm.varRes = none) (l : List Obj) :
    diffBlockL e fuel (.defn mm mws) (blockL e fuel (.defn mm mws) l) = diffBlockL e fuel (.defn mm mws) l := by
  unfold diffBlockL blockL
  cases hmult : isMultiple (.defn mm mws) with
  | true =>
    simp only [if_true]
    rw [survivorsOf_candsOf, survivorsOf_candsOf, survCK_multiBlock e fuel mm mws ht hv l]
  | false =>
    simp only [Bool.false_eq_true, if_false, List.getLast?_singleton]
    rw [candOfSrc_lastWins mm mws ht hv l, lastWins_eq]
    cases hg : l.getLast? with
    | none =>
      simp
    | some d => rfl

/-- **the block restored from a difference block** (one master definition): for a `.multiple`
    definition the block of the working set itself; for another one the working value, except that
    a working value whose key is the master's is replaced by the master definition -/
def restoredBlockL (e : Envs) (fuel : Nat) (mo : Obj) (l : List Obj) : List Obj :=
  if isMultiple mo then blockL e fuel mo l
  else [if keyOf e fuel mo (lastWins mo l) == keyOf e fuel mo mo then mo else lastWins mo l]

theorem diffBlockL_single (e : Envs) (fuel : Nat) (mo o : Obj) (hmult : isMultiple mo = false) :
    diffBlockL e fuel mo [o] =
      if keyOf e fuel mo (candOfSrc mo o) == keyOf e fuel mo mo then [] else [candOfSrc mo o] := by
  unfold diffBlockL
  simp only [hmult, Bool.false_eq_true, if_false, List.getLast?_singleton]

theorem diffBlockL_plain (e : Envs) (fuel : Nat) (mo : Obj) (l : List Obj) (hmult : isMultiple mo = false) :
    diffBlockL e fuel mo l =
      match l.getLast? with
      | none => []
      | some d => if keyOf e fuel mo (candOfSrc mo d) == keyOf e fuel mo mo then [] else [candOfSrc mo d] := by
  unfold diffBlockL
  simp only [hmult, Bool.false_eq_true, if_false]

theorem blockL_diffBlockL (e : Envs) (fuel : Nat) (mm : Meta) (mws : List Word)
    (ht : mm.tmpl = 0) (hv : mm.varRes = none) (l : List Obj) :
    blockL e fuel (.defn mm mws) (diffBlockL e fuel (.defn mm mws) l) = restoredBlockL e fuel (.defn mm mws) l := by
  cases hmult : isMultiple (.defn mm mws) with
  | true =>
    unfold restoredBlockL blockL diffBlockL
    simp only [hmult, if_true]
    rw [survivorsOf_candsOf, multiBlock_candsOf, multiBlock_candsOf, survCK_survivors e fuel mm mws hv l]
  | false =>
    rw [diffBlockL_plain e fuel _ l hmult]
    unfold restoredBlockL blockL
    simp only [hmult, Bool.false_eq_true, if_false]
    cases hg : l.getLast? with
    | none =>
      have hl : lastWins (.defn mm mws) l = .defn mm mws := by rw [lastWins_eq, hg]
      rw [hl]
      simp only [ite_self]
      rfl
    | some d =>
      have hl : lastWins (.defn mm mws) l = candOfSrc (.defn mm mws) d := by rw [lastWins_eq, hg]
      rw [hl]
      simp only
      cases hk : keyOf e fuel (.defn mm mws) (candOfSrc (.defn mm mws) d) ==
          keyOf e fuel (.defn mm mws) (.defn mm mws) with
      | true => simp only [if_true]; rfl
      | false =>
        simp only [Bool.false_eq_true, if_false]
        rw [lastWins_eq]
        simp only [List.getLast?_singleton]
        rw [candOfSrc_cand mm mws hv d]

/-- the difference block of the restored block is the difference block again -/
theorem diffBlockL_restoredBlockL (e : Envs) (fuel : Nat) (mm : Meta) (mws : List Word)
    (ht : mm.tmpl = 0) (hv : mm.varRes = none) (l : List Obj) :
    diffBlockL e fuel (.defn mm mws) (restoredBlockL e fuel (.defn mm mws) l) =
      diffBlockL e fuel (.defn mm mws) l := by
  cases hmult : isMultiple (.defn mm mws) with
  | true =>
    unfold restoredBlockL
    simp only [hmult, if_true]
    exact diffBlockL_blockL e fuel mm mws ht hv l
  | false =>
    have h1 : diffBlockL e fuel (.defn mm mws) l =
        if keyOf e fuel (.defn mm mws) (lastWins (.defn mm mws) l) == keyOf e fuel (.defn mm mws) (.defn mm mws)
        then [] else [lastWins (.defn mm mws) l] := by
      rw [← diffBlockL_blockL e fuel mm mws ht hv l]
      unfold blockL
      simp only [hmult, Bool.false_eq_true, if_false]
      rw [diffBlockL_single e fuel _ _ hmult, candOfSrc_lastWins mm mws ht hv l]
    rw [h1]
    unfold restoredBlockL
    simp only [hmult, Bool.false_eq_true, if_false]
    rw [diffBlockL_single e fuel _ _ hmult]
    cases hk : keyOf e fuel (.defn mm mws) (lastWins (.defn mm mws) l) ==
        keyOf e fuel (.defn mm mws) (.defn mm mws) with
    | true =>
      simp only [if_true]
      rw [candOfSrc_self mm mws ht hv]
      simp
    | false =>
      simp only [Bool.false_eq_true, if_false]
      rw [candOfSrc_lastWins mm mws ht hv l, hk]
      simp

/-! ## 6. fetching from a list of blocks -/

/-- the candidate built from `o` is the master definition or the candidate of one of `l` -/
def CandClosed (mo : Obj) (l : List Obj) (o : Obj) : Prop :=
  candOfSrc mo o = mo ∨ ∃ d ∈ l, candOfSrc mo o = candOfSrc mo d

theorem KeysDefined.of_closed {e : Envs} {fuel : Nat} {mo : Obj} {l l' : List Obj}
    (h : KeysDefined e fuel mo l) (hc : ∀ o ∈ l', CandClosed mo l o) : KeysDefined e fuel mo l' := by
  refine ⟨h.1, ?_⟩
  intro o ho
  rcases hc o ho with h1 | ⟨d, hd, h1⟩
  · rw [h1]; exact h.1
  · rw [h1]; exact h.2 d hd

/-- a family of blocks, one per master definition, fit to serve as the source of a fetch: result-like
    objects whose candidates are the master definition or candidates of the original sources `L mo` -/
structure GoodBlocks (mkids : List Obj) (L : Obj → List Obj) (B : Obj → List Obj) : Prop where
  res : ∀ mo ∈ mkids, ∀ o ∈ B mo, ResObj mo o
  closed : ∀ mo ∈ mkids, ∀ o ∈ B mo, CandClosed mo (L mo) o

theorem GoodBlocks.active {mkids : List Obj} {L B : Obj → List Obj} (hB : GoodBlocks mkids L B)
    (hf : FlatMultiMaster mkids) : ∀ mo ∈ mkids, activeNamed mo.name (mkids.flatMap B) = B mo :=
  activeNamed_flatMap_distinct B mkids hf.distinct
    (fun mo hmo o ho => ⟨(hB.res mo hmo o ho).name, (hB.res mo hmo o ho).enabled⟩)

theorem GoodBlocks.mem {mkids : List Obj} {L B : Obj → List Obj} (hB : GoodBlocks mkids L B) :
    ∀ o ∈ mkids.flatMap B, ∃ mo ∈ mkids, ResObj mo o := by
  intro o ho
  obtain ⟨mo, hmo, ho'⟩ := List.mem_flatMap.mp ho
  exact ⟨mo, hmo, hB.res mo hmo o ho'⟩

theorem GoodBlocks.keys {e : Envs} {fuel : Nat} {mkids : List Obj} {L B : Obj → List Obj}
    (hB : GoodBlocks mkids L B) (hf : FlatMultiMaster mkids)
    (hkeys : ∀ mo ∈ mkids, KeysDefined e fuel mo (L mo)) :
    ∀ mo ∈ mkids, KeysDefined e fuel mo (activeNamed mo.name (mkids.flatMap B)) := by
  intro mo hmo
  rw [hB.active hf mo hmo]
  exact (hkeys mo hmo).of_closed (hB.closed mo hmo)

/-- non-diff fetch from a list of blocks -/
theorem fetch_of_blocks (e : Envs) (f : Nat) (sm : Meta) (mkids : List Obj) (L B : Obj → List Obj)
    (hf : FlatMultiMaster mkids) (hsm : sm.name = []) (hsd : sm.disabled = false)
    (hkeys : ∀ mo ∈ mkids, KeysDefined e (f + 1) mo (L mo)) (hB : GoodBlocks mkids L B) :
    fetchScope e (f + 2) false sm mkids (mkids.flatMap B) =
      .ok (.scope { sm with tmpl := 0 } (mkids.flatMap (fun mo => blockL e (f + 1) mo (B mo))),
           flatUsed mkids (mkids.flatMap B)) := by
  have h := fetch_flat_multi e (f + 1) sm mkids (mkids.flatMap B) hf hsm hsd
    (fun o ho => by obtain ⟨mo, _, h⟩ := hB.mem o ho; exact h.isDefn)
    (fun o ho => by obtain ⟨mo, _, h⟩ := hB.mem o ho; exact h.srcOK)
    (fun mo hmo _ => hB.keys hf hkeys mo hmo)
  rw [show f + 2 = f + 1 + 1 from rfl, h]
  congr 3
  apply flatMap_congr_mem
  intro mo hmo
  rw [blockOf_eq_blockL, hB.active hf mo hmo]

/-- diff-mode fetch from a list of blocks -/
theorem diff_of_blocks (e : Envs) (f : Nat) (sm : Meta) (mkids : List Obj) (L B : Obj → List Obj)
    (hf : FlatMultiMaster mkids) (hsm : sm.name = []) (hsd : sm.disabled = false)
    (hkeys : ∀ mo ∈ mkids, KeysDefined e (f + 1) mo (L mo)) (hB : GoodBlocks mkids L B) :
    fetchScope e (f + 2) true sm mkids (mkids.flatMap B) =
      .ok (.scope { sm with tmpl := 0 } (mkids.flatMap (fun mo => diffBlockL e (f + 1) mo (B mo))),
           flatUsed mkids (mkids.flatMap B)) := by
  rw [diff_flat_multi e f sm mkids (mkids.flatMap B) hf hsm hsd
    (fun o ho => by obtain ⟨mo, _, h⟩ := hB.mem o ho; exact h.isDefn)
    (fun o ho => by obtain ⟨mo, _, h⟩ := hB.mem o ho; exact h.srcOK)
    (hB.keys hf hkeys)]
  congr 3
  apply flatMap_congr_mem
  intro mo hmo
  unfold diffBlockOf
  rw [hB.active hf mo hmo]

/-! ### the three families: working set, difference, restored working set -/

theorem resObj_self (mm : Meta) (mws : List Word) (hen : mm.disabled = false) (hv : mm.varRes = none)
    (hmd : hasDollar mws = false) : ResObj (.defn mm mws) (.defn mm mws) :=
  ⟨rfl, hen, rfl, hv, hmd⟩

theorem resObj_cand (mm : Meta) (mws : List Word) (hen : mm.disabled = false) (hv : mm.varRes = none)
    (d : Obj) (hd : hasDollar d.srcWords = false) : ResObj (.defn mm mws) (candOfSrc (.defn mm mws) d) :=
  ⟨rfl, hen, rfl, hv, hd⟩

theorem candClosed_blockL (e : Envs) (fuel : Nat) (mm : Meta) (mws : List Word)
    (ht : mm.tmpl = 0) (hv : mm.varRes = none) (l : List Obj) :
    ∀ o ∈ blockL e fuel (.defn mm mws) l, CandClosed (.defn mm mws) l o := by
  intro o ho
  unfold blockL at ho
  split at ho
  · rw [multiBlock_candsOf, List.mem_cons] at ho
    rcases ho with rfl | ho
    · exact .inl (candOfSrc_tmpl mm mws ht hv _)
    · obtain ⟨x, hx, rfl⟩ := List.mem_map.mp ho
      obtain ⟨⟨d, hd, hxd⟩, _, _⟩ := mem_survCK hx
      exact .inr ⟨d, hd, by rw [hxd, candOfSrc_cand mm mws hv d]⟩
  · simp only [List.mem_singleton] at ho
    subst ho
    unfold CandClosed
    rw [candOfSrc_lastWins mm mws ht hv l, lastWins_eq]
    cases hg : l.getLast? with
    | none => exact .inl rfl
    | some d => exact .inr ⟨d, List.mem_of_getLast? hg, rfl⟩

theorem goodBlocks_blockL (e : Envs) (fuel : Nat) (mkids combined : List Obj)
    (hf : FlatMultiMaster mkids) (hr : RefetchOK mkids)
    (hdol : ∀ o ∈ combined, hasDollar o.srcWords = false) :
    GoodBlocks mkids (fun mo => activeNamed mo.name combined)
      (fun mo => blockL e fuel mo (activeNamed mo.name combined)) where
  res := by
    intro mo hmo
    obtain ⟨mm, mws, rfl, _, _, hen⟩ := hf.defn mo hmo
    exact blockOf_resObj e fuel combined mm mws hen (hr _ hmo).2.1 (hr _ hmo).2.2 hdol
  closed := by
    intro mo hmo
    obtain ⟨mm, mws, rfl, _, _, hen⟩ := hf.defn mo hmo
    exact candClosed_blockL e fuel mm mws (hr _ hmo).1 (hr _ hmo).2.1 _

theorem goodBlocks_diffBlockL (e : Envs) (fuel : Nat) (mkids combined : List Obj)
    (hf : FlatMultiMaster mkids) (hr : RefetchOK mkids)
    (hdol : ∀ o ∈ combined, hasDollar o.srcWords = false) :
    GoodBlocks mkids (fun mo => activeNamed mo.name combined)
      (fun mo => diffBlockL e fuel mo (activeNamed mo.name combined)) where
  res := by
    intro mo hmo o ho
    obtain ⟨mm, mws, rfl, _, _, hen⟩ := hf.defn mo hmo
    obtain ⟨⟨d, hd, rfl⟩, _⟩ := mem_diffBlockL ho
    exact resObj_cand mm mws hen (hr _ hmo).2.1 d (hdol d (List.mem_filter.mp hd).1)
  closed := by
    intro mo hmo o ho
    obtain ⟨mm, mws, rfl, _, _, hen⟩ := hf.defn mo hmo
    obtain ⟨⟨d, hd, rfl⟩, _⟩ := mem_diffBlockL ho
    exact .inr ⟨d, hd, candOfSrc_cand mm mws (hr _ hmo).2.1 d⟩

theorem mem_restoredBlockL {e : Envs} {fuel : Nat} {mo : Obj} {l : List Obj} {o : Obj}
    (ho : o ∈ restoredBlockL e fuel mo l) : o ∈ blockL e fuel mo l ∨ o = mo := by
  unfold restoredBlockL at ho
  split at ho
  · exact .inl ho
  · rename_i hmult
    simp only [List.mem_singleton] at ho
    split at ho
    · exact .inr ho
    · left
      have hm : isMultiple mo = false := by simpa using hmult
      unfold blockL
      rw [hm]
      simp only [Bool.false_eq_true, if_false, List.mem_singleton]
      exact ho

theorem goodBlocks_restoredBlockL (e : Envs) (fuel : Nat) (mkids combined : List Obj)
    (hf : FlatMultiMaster mkids) (hr : RefetchOK mkids)
    (hdol : ∀ o ∈ combined, hasDollar o.srcWords = false) :
    GoodBlocks mkids (fun mo => activeNamed mo.name combined)
      (fun mo => restoredBlockL e fuel mo (activeNamed mo.name combined)) where
  res := by
    intro mo hmo o ho
    rcases mem_restoredBlockL ho with h | rfl
    · exact (goodBlocks_blockL e fuel mkids combined hf hr hdol).res mo hmo o h
    · obtain ⟨mm, mws, rfl, _, _, hen⟩ := hf.defn o hmo
      exact resObj_self mm mws hen (hr _ hmo).2.1 (hr _ hmo).2.2
  closed := by
    intro mo hmo o ho
    rcases mem_restoredBlockL ho with h | rfl
    · exact (goodBlocks_blockL e fuel mkids combined hf hr hdol).closed mo hmo o h
    · obtain ⟨mm, mws, rfl, _, _, hen⟩ := hf.defn o hmo
      exact .inl (candOfSrc_self mm mws (hr _ hmo).1 (hr _ hmo).2.1)

/-! ## 7. the laws of C08 on flat masters -/

/-- the setting of the laws: a flat master (root-level definitions, `.multiple` or not, typed or
    not, pairwise distinct names, not `.deprecated`, not choices) fit for re-fetching, at the root;
    `$`-free definition-only sources; the keys that get compared are defined (`extract_format`
    succeeds on every master definition and on the candidate of every matching source) -/
structure DiffSetting (e : Envs) (f : Nat) (sm : Meta) (mkids combined : List Obj) : Prop where
  flat : FlatMultiMaster mkids
  refetch : RefetchOK mkids
  root : sm.name = []
  enabled : sm.disabled = false
  defn : ∀ o ∈ combined, o.isDefn = true
  srcOK : ∀ o ∈ combined, SrcOK o
  noDollar : ∀ o ∈ combined, hasDollar o.srcWords = false
  keys : ∀ mo ∈ mkids, KeysDefined e (f + 1) mo (activeNamed mo.name combined)

/-- … for the sources `D` -/
def restoredBlockOf (e : Envs) (fuel : Nat) (D : List Obj) (mo : Obj) : List Obj :=
  restoredBlockL e fuel mo (activeNamed mo.name D)

/-- the working set `W`: children of `master.fetch(sources)` -/
def workingSet (e : Envs) (fuel : Nat) (mkids combined : List Obj) : List Obj :=
  mkids.flatMap (blockOf e fuel combined)
/-- the difference `D`: children of `master.fetch_diff(sources)` -/
def diffSet (e : Envs) (fuel : Nat) (mkids combined : List Obj) : List Obj :=
  mkids.flatMap (diffBlockOf e fuel combined)
/-- the restored working set `W'`: children of `master.fetch(D)` -/
def restoredSet (e : Envs) (fuel : Nat) (mkids combined : List Obj) : List Obj :=
  mkids.flatMap (restoredBlockOf e fuel combined)

variable {e : Envs} {f : Nat} {sm : Meta} {mkids combined : List Obj}

/-- `W = master.fetch(sources)` -/
theorem DiffSetting.fetch_sources (S : DiffSetting e f sm mkids combined) :
    fetchScope e (f + 2) false sm mkids combined =
      .ok (.scope { sm with tmpl := 0 } (workingSet e (f + 1) mkids combined), flatUsed mkids combined) :=
  fetch_flat_multi e (f + 1) sm mkids combined S.flat S.root S.enabled S.defn S.srcOK
    (fun mo hmo _ => S.keys mo hmo)

/-- `master.fetch_diff(sources)` -/
theorem DiffSetting.diff_sources (S : DiffSetting e f sm mkids combined) :
    fetchScope e (f + 2) true sm mkids combined =
      .ok (.scope { sm with tmpl := 0 } (diffSet e (f + 1) mkids combined), flatUsed mkids combined) :=
  diff_flat_multi e f sm mkids combined S.flat S.root S.enabled S.defn S.srcOK S.keys

/-- **the difference of the working set is the difference of the sources**:
    `master.fetch_diff(master.fetch(sources)) = master.fetch_diff(sources)` -/
theorem DiffSetting.diff_working (S : DiffSetting e f sm mkids combined) :
    fetchScope e (f + 2) true sm mkids (workingSet e (f + 1) mkids combined) =
      .ok (.scope { sm with tmpl := 0 } (diffSet e (f + 1) mkids combined),
           flatUsed mkids (workingSet e (f + 1) mkids combined)) := by
  have h := diff_of_blocks e f sm mkids _ _ S.flat S.root S.enabled S.keys
    (goodBlocks_blockL e (f + 1) mkids combined S.flat S.refetch S.noDollar)
  unfold workingSet
  rw [show mkids.flatMap (blockOf e (f + 1) combined) =
    mkids.flatMap (fun mo => blockL e (f + 1) mo (activeNamed mo.name combined)) from rfl, h]
  congr 3
  apply flatMap_congr_mem
  intro mo hmo
  obtain ⟨mm, mws, rfl, _, _, _⟩ := S.flat.defn mo hmo
  exact diffBlockL_blockL e (f + 1) mm mws (S.refetch _ hmo).1 (S.refetch _ hmo).2.1 _

/-- **restoring**: `master.fetch(D)` in closed form -/
theorem DiffSetting.fetch_diffSet (S : DiffSetting e f sm mkids combined) :
    fetchScope e (f + 2) false sm mkids (diffSet e (f + 1) mkids combined) =
      .ok (.scope { sm with tmpl := 0 } (restoredSet e (f + 1) mkids combined),
           flatUsed mkids (diffSet e (f + 1) mkids combined)) := by
  have h := fetch_of_blocks e f sm mkids _ _ S.flat S.root S.enabled S.keys
    (goodBlocks_diffBlockL e (f + 1) mkids combined S.flat S.refetch S.noDollar)
  unfold diffSet
  rw [show mkids.flatMap (diffBlockOf e (f + 1) combined) =
    mkids.flatMap (fun mo => diffBlockL e (f + 1) mo (activeNamed mo.name combined)) from rfl, h]
  congr 3
  apply flatMap_congr_mem
  intro mo hmo
  obtain ⟨mm, mws, rfl, _, _, _⟩ := S.flat.defn mo hmo
  exact blockL_diffBlockL e (f + 1) mm mws (S.refetch _ hmo).1 (S.refetch _ hmo).2.1 _

/-- **the difference of the restored working set is `D` again** -/
theorem DiffSetting.diff_restoredSet (S : DiffSetting e f sm mkids combined) :
    fetchScope e (f + 2) true sm mkids (restoredSet e (f + 1) mkids combined) =
      .ok (.scope { sm with tmpl := 0 } (diffSet e (f + 1) mkids combined),
           flatUsed mkids (restoredSet e (f + 1) mkids combined)) := by
  have h := diff_of_blocks e f sm mkids _ _ S.flat S.root S.enabled S.keys
    (goodBlocks_restoredBlockL e (f + 1) mkids combined S.flat S.refetch S.noDollar)
  unfold restoredSet
  rw [show mkids.flatMap (restoredBlockOf e (f + 1) combined) =
    mkids.flatMap (fun mo => restoredBlockL e (f + 1) mo (activeNamed mo.name combined)) from rfl, h]
  congr 3
  apply flatMap_congr_mem
  intro mo hmo
  obtain ⟨mm, mws, rfl, _, _, _⟩ := S.flat.defn mo hmo
  exact diffBlockL_restoredBlockL e (f + 1) mm mws (S.refetch _ hmo).1 (S.refetch _ hmo).2.1 _

/-! ### empty self-difference -/

theorem flatMap_nil_of_forall {α β : Type} (g : α → List β) (l : List α) (h : ∀ a ∈ l, g a = []) :
    l.flatMap g = [] := by
  rw [List.flatMap_eq_nil_iff]; exact h

theorem diffSet_nil (e : Envs) (fuel : Nat) (mkids : List Obj) : diffSet e fuel mkids [] = [] :=
  flatMap_nil_of_forall _ _ (fun mo _ => diffBlockL_nil e fuel mo)

theorem flatUsed_nil (mkids : List Obj) : flatUsed mkids [] = [] :=
  flatMap_nil_of_forall _ _ (fun _ _ => rfl)

/-- **the difference without sources is empty** (master keys defined) -/
theorem self_diff_empty_nosrc (e : Envs) (f : Nat) (sm : Meta) (mkids : List Obj)
    (hf : FlatMultiMaster mkids) (hsm : sm.name = []) (hsd : sm.disabled = false)
    (hk0 : ∀ mo ∈ mkids, ∃ k, extractFormatStr e (f + 1 + 64) mo mo = .ok k) :
    fetchScope e (f + 2) true sm mkids [] = .ok (.scope { sm with tmpl := 0 } [], []) := by
  rw [diff_flat_multi e f sm mkids [] hf hsm hsd (fun o ho => by cases ho) (fun o ho => by cases ho)
    (fun mo hmo => ⟨hk0 mo hmo, fun d hd => by cases hd⟩)]
  rw [show mkids.flatMap (diffBlockOf e (f + 1) []) = diffSet e (f + 1) mkids [] from rfl, diffSet_nil, flatUsed_nil]

theorem diffSetting_nosrc (e : Envs) (f : Nat) (sm : Meta) (mkids : List Obj)
    (hf : FlatMultiMaster mkids) (hr : RefetchOK mkids) (hsm : sm.name = []) (hsd : sm.disabled = false)
    (hk0 : ∀ mo ∈ mkids, ∃ k, extractFormatStr e (f + 1 + 64) mo mo = .ok k) :
    DiffSetting e f sm mkids [] :=
  ⟨hf, hr, hsm, hsd, (fun o ho => by cases ho), (fun o ho => by cases ho), (fun o ho => by cases ho),
    (fun mo hmo => ⟨hk0 mo hmo, fun d hd => by cases hd⟩)⟩

/-- **the difference of the master's own defaults is empty**: with `W₀ = master.fetch()` (no
    sources), `master.fetch_diff(W₀)` has no children -/
theorem self_diff_empty (e : Envs) (f : Nat) (sm : Meta) (mkids : List Obj)
    (hf : FlatMultiMaster mkids) (hr : RefetchOK mkids) (hsm : sm.name = []) (hsd : sm.disabled = false)
    (hk0 : ∀ mo ∈ mkids, ∃ k, extractFormatStr e (f + 1 + 64) mo mo = .ok k)
    (rm : Meta) (W0 : List Obj) (u : List Nat)
    (hW : fetchScope e (f + 2) false sm mkids [] = .ok (.scope rm W0, u)) :
    ∃ u', fetchScope e (f + 2) true sm mkids W0 = .ok (.scope rm [], u') := by
  have S := diffSetting_nosrc e f sm mkids hf hr hsm hsd hk0
  rw [S.fetch_sources] at hW
  cases hW
  refine ⟨flatUsed mkids (workingSet e (f + 1) mkids []), ?_⟩
  rw [S.diff_working, diffSet_nil]

/-! ## 8. the restored working set against the working set -/

theorem Forall2.of_refl {α : Type} {Q : α → α → Prop} : ∀ (l : List α), (∀ a ∈ l, Q a a) → Forall2 Q l l := by
  intro l
  induction l with
  | nil => intro _; exact .nil
  | cons a l ih => intro h; exact .cons (h a List.mem_cons_self) (ih (fun b hb => h b (List.mem_cons_of_mem _ hb)))

theorem Forall2.append {α β : Type} {Q : α → β → Prop} {a : List α} {b : List β} {c : List α} {d : List β}
    (h1 : Forall2 Q a b) (h2 : Forall2 Q c d) : Forall2 Q (a ++ c) (b ++ d) := by
  induction h1 with
  | nil => exact h2
  | cons hq _ ih => exact .cons hq ih

theorem forall2_flatMap {α β γ : Type} (Q : β → γ → Prop) (g : α → List β) (g' : α → List γ) :
    ∀ (l : List α), (∀ a ∈ l, Forall2 Q (g a) (g' a)) → Forall2 Q (l.flatMap g) (l.flatMap g') := by
  intro l
  induction l with
  | nil => intro _; exact .nil
  | cons a l ih =>
    intro h
    rw [List.flatMap_cons, List.flatMap_cons]
    exact (h a List.mem_cons_self).append (ih (fun b hb => h b (List.mem_cons_of_mem _ hb)))

theorem Forall2.eq_of_eq {α : Type} {l l' : List α} (h : Forall2 (fun a b => b = a) l l') : l' = l := by
  induction h with
  | nil => rfl
  | cons hq _ ih => rw [hq, ih]

/-- how an object `o'` of the restored working set relates to the object `o` of the working set at
    the same position (both belong to the master definition `mo`): it IS that object, unless `o` is
    the working value of a non-multiple definition whose key is the key of the master definition —
    then the difference omits it and the restored object is the master definition itself -/
def RestoredAs (e : Envs) (fuel : Nat) (mo o o' : Obj) : Prop :=
  o' = o ∨ (isMultiple mo = false ∧ o.meta = mo.meta ∧ keyOf e fuel mo o = keyOf e fuel mo mo ∧ o' = mo)

/-- same meta data (name, attributes, template flag …) and same key -/
def SameKey (e : Envs) (fuel : Nat) (mo o o' : Obj) : Prop :=
  o'.meta = o.meta ∧ keyOf e fuel mo o' = keyOf e fuel mo o

theorem RestoredAs.sameKey {e : Envs} {fuel : Nat} {mo o o' : Obj} (h : RestoredAs e fuel mo o o') :
    SameKey e fuel mo o o' := by
  rcases h with rfl | ⟨_, hm, hk, rfl⟩
  · exact ⟨rfl, rfl⟩
  · exact ⟨hm.symm, hk.symm⟩

theorem lastWins_meta (mm : Meta) (mws : List Word) (ht : mm.tmpl = 0) (l : List Obj) :
    (lastWins (.defn mm mws) l).meta = mm := by
  rw [lastWins_eq]
  cases l.getLast? with
  | none => rfl
  | some d => exact meta_tmpl0 mm ht

theorem restoredBlockL_restoredAs (e : Envs) (fuel : Nat) (mm : Meta) (mws : List Word)
    (ht : mm.tmpl = 0) (l : List Obj) :
    Forall2 (RestoredAs e fuel (.defn mm mws)) (blockL e fuel (.defn mm mws) l)
      (restoredBlockL e fuel (.defn mm mws) l) := by
  unfold restoredBlockL
  cases hmult : isMultiple (.defn mm mws) with
  | true =>
    simp only [if_true]
    exact Forall2.of_refl _ (fun a _ => .inl rfl)
  | false =>
    unfold blockL
    simp only [hmult, Bool.false_eq_true, if_false]
    refine .cons ?_ .nil
    cases hk : keyOf e fuel (.defn mm mws) (lastWins (.defn mm mws) l) ==
        keyOf e fuel (.defn mm mws) (.defn mm mws) with
    | true =>
      simp only [if_true]
      exact .inr ⟨hmult, lastWins_meta mm mws ht l, by simpa using hk, rfl⟩
    | false =>
      simp only [Bool.false_eq_true, if_false]
      exact .inl rfl

theorem forall2_and_left {α β : Type} {Q : α → β → Prop} {P : α → Prop} {l : List α} {l' : List β}
    (h : Forall2 Q l l') (hP : ∀ a ∈ l, P a) : Forall2 (fun a b => P a ∧ Q a b) l l' := by
  induction h with
  | nil => exact .nil
  | cons hq _ ih =>
    exact .cons ⟨hP _ List.mem_cons_self, hq⟩ (ih (fun a ha => hP a (List.mem_cons_of_mem _ ha)))

/-- **`W'` against `W`, position by position** -/
theorem DiffSetting.restored_restoredAs (S : DiffSetting e f sm mkids combined) :
    Forall2 (fun o o' => ∃ mo ∈ mkids, ResObj mo o ∧ RestoredAs e (f + 1) mo o o')
      (workingSet e (f + 1) mkids combined) (restoredSet e (f + 1) mkids combined) := by
  unfold workingSet restoredSet
  apply forall2_flatMap
  intro mo hmo
  obtain ⟨mm, mws, rfl, _, _, hen⟩ := S.flat.defn mo hmo
  have h1 := restoredBlockL_restoredAs e (f + 1) mm mws (S.refetch _ hmo).1 (activeNamed mm.name combined)
  have h2 := forall2_and_left h1
    (blockOf_resObj e (f + 1) combined mm mws hen (S.refetch _ hmo).2.1 (S.refetch _ hmo).2.2 S.noDollar)
  exact h2.imp (fun o o' h => ⟨_, hmo, h.1, h.2⟩)

/-- a working value whose key is the key of the master definition is spelt like the master
    definition (e.g. because no source mentions the parameter) -/
def NoRedundant (e : Envs) (fuel : Nat) (mkids combined : List Obj) : Prop :=
  ∀ mo ∈ mkids, isMultiple mo = false →
    keyOf e fuel mo (lastWins mo (activeNamed mo.name combined)) = keyOf e fuel mo mo →
    lastWins mo (activeNamed mo.name combined) = mo

/-- **exact restoration**: under `NoRedundant` the restored working set IS the working set (as
    trees, template flags included) -/
theorem DiffSetting.restored_eq (S : DiffSetting e f sm mkids combined)
    (hnr : NoRedundant e (f + 1) mkids combined) :
    restoredSet e (f + 1) mkids combined = workingSet e (f + 1) mkids combined := by
  unfold workingSet restoredSet
  apply flatMap_congr_mem
  intro mo hmo
  unfold restoredBlockOf restoredBlockL
  rw [blockOf_eq_blockL]
  cases hmult : isMultiple mo with
  | true => simp
  | false =>
    unfold blockL
    simp only [hmult, Bool.false_eq_true, if_false]
    congr 1
    split
    · rename_i hk
      exact (hnr mo hmo hmult (by simpa using hk)).symm
    · rfl

/-! ### extracted values -/

theorem extractObj_defn_fuel (e : Envs) (n k : Nat) (m : Meta) (ws : List Word) :
    extractObj e (n + 1) (.defn m ws) = extractObj e (k + 1) (.defn m ws) := by
  simp only [extractObj]

theorem foldlM_forall2 {α β ε : Type} (g : β → α → Except ε β) (Q : α → α → Prop) {l l' : List α}
    (h : Forall2 Q l l') (hg : ∀ a a', Q a a' → ∀ b, g b a' = g b a) :
    ∀ init, l'.foldlM g init = l.foldlM g init := by
  induction h with
  | nil => intro _; rfl
  | cons hq _ ih =>
    intro init
    rw [List.foldlM_cons, List.foldlM_cons, hg _ _ hq init]
    cases g init _ with
    | error err => rfl
    | ok b => exact ih b

/-- extraction of a scope only looks at the meta data and the extracted values of its children -/
theorem extractObj_scope_congr (e : Envs) (n : Nat) (m : Meta) (kids kids' : List Obj)
    (h : Forall2 (fun o o' => o'.meta = o.meta ∧ extractObj e n o' = extractObj e n o) kids kids') :
    extractObj e (n + 1) (.scope m kids') = extractObj e (n + 1) (.scope m kids) := by
  simp only [extractObj]
  congr 1
  apply foldlM_forall2 _ _ h
  intro o o' ⟨hm, hx⟩ fs
  have hn : o'.name = o.name := by unfold Obj.name; rw [hm]
  have ha : ∀ s, o'.attr s = o.attr s := by intro s; unfold Obj.attr; rw [hm]
  have hmu : isMultiple o' = isMultiple o := by unfold isMultiple; rw [ha]
  simp only [hm, hx, hn, ha, hmu]

/-- **values restored**, provided equal keys mean equal values where the difference relies on it: for
    a non-multiple master definition `mo`, a working value with the key of `mo` extracts to the
    value of `mo`.  (False for `float` values agreeing with the default to 10 significant digits —
    see `Phil.C08.restore_values_fails_float`.) -/
theorem DiffSetting.restored_values (S : DiffSetting e f sm mkids combined)
    (hfaith : ∀ mo ∈ mkids, ∀ o ∈ workingSet e (f + 1) mkids combined, o.name = mo.name →
      isMultiple mo = false → keyOf e (f + 1) mo o = keyOf e (f + 1) mo mo →
      extractObj e 1 o = extractObj e 1 mo)
    (m : Meta) (n : Nat) :
    extractObj e n (.scope m (restoredSet e (f + 1) mkids combined)) =
      extractObj e n (.scope m (workingSet e (f + 1) mkids combined)) := by
  cases n with
  | zero => rfl
  | succ n =>
    apply extractObj_scope_congr
    have h := S.restored_restoredAs
    have hmem : ∀ o ∈ workingSet e (f + 1) mkids combined, o ∈ workingSet e (f + 1) mkids combined :=
      fun _ h => h
    refine (forall2_and_left h hmem).imp ?_
    rintro o o' ⟨ho, mo, hmo, hres, hr⟩
    refine ⟨hr.sameKey.1, ?_⟩
    rcases hr with rfl | ⟨hmult, hm, hk, rfl⟩
    · rfl
    · cases n with
      | zero => rfl
      | succ n =>
        obtain ⟨mm, mws, rfl, _, _, _⟩ := S.flat.defn _ hmo
        cases o with
        | scope om ok => exact absurd hres.isDefn (by simp [Obj.isDefn])
        | defn om ows =>
          have := hfaith _ hmo _ ho hres.name hmult hk
          rw [extractObj_defn_fuel e n 0, extractObj_defn_fuel e n 0 om]
          exact this.symm

/-! ### restoring twice -/

theorem blockL_restoredBlockL (e : Envs) (fuel : Nat) (mm : Meta) (mws : List Word)
    (ht : mm.tmpl = 0) (hv : mm.varRes = none) (l : List Obj) :
    blockL e fuel (.defn mm mws) (restoredBlockL e fuel (.defn mm mws) l) =
      restoredBlockL e fuel (.defn mm mws) l := by
  unfold restoredBlockL
  cases hmult : isMultiple (.defn mm mws) with
  | true =>
    simp only [if_true]
    unfold blockL
    simp only [hmult, if_true]
    exact multiBlock_refetch e fuel mm mws l ht hv
  | false =>
    simp only [Bool.false_eq_true, if_false]
    unfold blockL
    simp only [hmult, Bool.false_eq_true, if_false]
    congr 1
    rw [lastWins_eq]
    simp only [List.getLast?_singleton]
    split
    · exact candOfSrc_self mm mws ht hv
    · exact candOfSrc_lastWins mm mws ht hv l

/-- the restored working set is a fixed point of the fetch -/
theorem DiffSetting.fetch_restoredSet (S : DiffSetting e f sm mkids combined) :
    fetchScope e (f + 2) false sm mkids (restoredSet e (f + 1) mkids combined) =
      .ok (.scope { sm with tmpl := 0 } (restoredSet e (f + 1) mkids combined),
           flatUsed mkids (restoredSet e (f + 1) mkids combined)) := by
  have h := fetch_of_blocks e f sm mkids _ _ S.flat S.root S.enabled S.keys
    (goodBlocks_restoredBlockL e (f + 1) mkids combined S.flat S.refetch S.noDollar)
  unfold restoredSet
  rw [show mkids.flatMap (restoredBlockOf e (f + 1) combined) =
    mkids.flatMap (fun mo => restoredBlockL e (f + 1) mo (activeNamed mo.name combined)) from rfl, h]
  congr 3
  apply flatMap_congr_mem
  intro mo hmo
  obtain ⟨mm, mws, rfl, _, _, _⟩ := S.flat.defn mo hmo
  exact blockL_restoredBlockL e (f + 1) mm mws (S.refetch _ hmo).1 (S.refetch _ hmo).2.1 _

/-! ## 9. the chain `W = fetch(sources)`, `D = fetch_diff(W)`, `W' = fetch(D)`, `D' = fetch_diff(W')` -/

/-- the difference of a working set is always defined, and it is the difference of the sources -/
theorem DiffSetting.diff_of_working (S : DiffSetting e f sm mkids combined)
    (rm : Meta) (W : List Obj) (u : List Nat)
    (hW : fetchScope e (f + 2) false sm mkids combined = .ok (.scope rm W, u)) :
    ∃ ud, fetchScope e (f + 2) true sm mkids W =
      .ok (.scope rm (diffSet e (f + 1) mkids combined), ud) := by
  rw [S.fetch_sources] at hW
  cases hW
  exact ⟨_, S.diff_working⟩

/-- **restore**: merging the difference back succeeds and gives, position by position, the objects
    of the working set — except that a non-multiple working value whose key is the key of its master
    definition comes back as the master definition -/
theorem DiffSetting.restore (S : DiffSetting e f sm mkids combined)
    (rm : Meta) (W : List Obj) (u : List Nat)
    (hW : fetchScope e (f + 2) false sm mkids combined = .ok (.scope rm W, u))
    (rd : Meta) (D : List Obj) (ud : List Nat)
    (hD : fetchScope e (f + 2) true sm mkids W = .ok (.scope rd D, ud)) :
    ∃ W' u', fetchScope e (f + 2) false sm mkids D = .ok (.scope rm W', u') ∧
      W' = restoredSet e (f + 1) mkids combined ∧
      Forall2 (fun o o' => ∃ mo ∈ mkids, ResObj mo o ∧ RestoredAs e (f + 1) mo o o') W W' := by
  rw [S.fetch_sources] at hW
  cases hW
  rw [S.diff_working] at hD
  cases hD
  exact ⟨_, _, S.fetch_diffSet, rfl, S.restored_restoredAs⟩

/-- **the difference of the restored working set is the difference again** -/
theorem DiffSetting.diff_restore_fixed_point (S : DiffSetting e f sm mkids combined)
    (rm : Meta) (W : List Obj) (u : List Nat)
    (hW : fetchScope e (f + 2) false sm mkids combined = .ok (.scope rm W, u))
    (rd : Meta) (D : List Obj) (ud : List Nat)
    (hD : fetchScope e (f + 2) true sm mkids W = .ok (.scope rd D, ud))
    (rw' : Meta) (W' : List Obj) (u' : List Nat)
    (hW' : fetchScope e (f + 2) false sm mkids D = .ok (.scope rw' W', u')) :
    ∃ ud', fetchScope e (f + 2) true sm mkids W' = .ok (.scope rd D, ud') := by
  rw [S.fetch_sources] at hW
  cases hW
  rw [S.diff_working] at hD
  cases hD
  rw [S.fetch_diffSet] at hW'
  cases hW'
  exact ⟨_, S.diff_restoredSet⟩

/-- the fuel `fetchRoot` starts with, minus two -/
def diffFuel (master : List Obj) : Nat := (master.foldl (fun a k => Nat.max a (depthObj 1000 k)) 0) + 1

theorem fetchRoot_eq_diffFuel (e : Envs) (diff : Bool) (master : List Obj) (ss : List (List Obj)) :
    fetchRoot e diff master ss =
      fetchScope e (diffFuel master + 2) diff { name := [], id := some 0 } master ss.flatten := by
  have h : rootFuel master + 1 = diffFuel master + 2 := rfl
  rw [fetchRoot_eq, h]

end Phil
