/-
  Phil.Proofs.FetchVars3 — `$variables` in DIFF mode (`scope.fetch(diff=True)`, `fetch_diff`): the total
  closed form of the difference on ARBITRARY annotated sources (properties C12, C08, C06).
    1. `treeDiffFetch`: the error of the first offending source object in master order (a recorded
       resolution error, or the clash of kinds), else `treeDiff` with the consumed ids `treeUsed`;
    2. `diff_tree_vars_total`: `fetchScope … true …` equals it, for nested masters whose definitions may be
       `.multiple` (`TreeMultiMaster` ⊇ `TreeMaster`), no `SrcTree` hypothesis;
    3. `fetchRoot_diff_preResolved_fv3`: the difference of pre-resolved parser outputs is the difference of
       the documents DENOTED in diff mode (`denoteDoc env true`).
  All new names end in `_fv3` or are new definitions.
-/
import Phil.Proofs.FetchVars2
import Phil.Proofs.DiffTree
set_option linter.unusedVariables false
set_option linter.unusedSimpArgs false
namespace Phil
open Phil.C12

/-- **the specification of `fetch_diff` on a nested master, any annotated sources**: the first error in
    master order, else the difference `treeDiff` (built from the RESOLVED words) with the consumed ids -/
def treeDiffFetch (e : Envs) (sm : Meta) (mkids srcs : List Obj) : R (Obj × List Nat) :=
  match firstErr mkids srcs with
  | some E => .error E
  | none => .ok (.scope { sm with tmpl := 0 } (treeDiff e mkids srcs), treeUsed mkids srcs)

/-! ## 1. one step of the master loop in diff mode, any annotated sources -/

theorem srcErrOf_defn_some_fv3 {dm : Meta} {dws : List Word} {E : Err} (h : srcErrOf (.defn dm dws) = some E) :
    srcWordsR dm dws = .error E := by
  simp only [srcErrOf] at h
  cases hw : srcWordsR dm dws with
  | ok w => rw [hw] at h; cases h
  | error e' => rw [hw] at h; cases h; rfl

theorem defnOne_diff_err_fv3 (e : Envs) (fuel : Nat) (mm : Meta) (mws : List Word) (dm : Meta) (dws : List Word)
    (err : Err) (h : srcWordsR dm dws = .error err) (acc : Option Obj × List Nat) :
    defnOne e fuel true (.defn mm mws) acc (.defn dm dws) = .error err := by
  unfold defnOne fetchDefn
  rw [fetchValue_defn, h]
  rfl

theorem cstepG_defn_err_diff_fv3 (F : FetchFn) (e : Envs) (fuel : Nat) (mm : Meta) (mws : List Word)
    (k0 : Str) (dm : Meta) (dws : List Word) (err : Err) (h : srcWordsR dm dws = .error err) (acc : CAcc) :
    cstepG F e fuel true (.defn mm mws) k0 acc (false, .defn dm dws) = .error err := by
  unfold cstepG candOf fetchDefn
  simp only [fetchValue_defn, h]
  rfl

/-- no error among the enabled objects of the name: they are definitions that resolve -/
theorem firstErr_none_facts_fv3 (n : Str) (combined : List Obj)
    (hfs : (activeNamed n combined).findSome? srcErrOf = none) :
    scopesNamed n combined = [] ∧ ∀ o ∈ defsNamed n combined, SrcOK o := by
  have hall := findSome_srcErrOf_none hfs
  have hnone : ∀ o ∈ activeNamed n combined, srcErrOf o = none := by
    rw [List.findSome?_eq_none_iff] at hfs; exact hfs
  constructor
  · rw [List.eq_nil_iff_forall_not_mem]
    intro x hx
    have hx' := mem_scopesNamed.mp hx
    have := hall x (mem_activeNamed.mpr ⟨hx'.1, hx'.2.2.1, hx'.2.2.2⟩)
    rw [hx'.2.1] at this
    cases this
  · intro o ho
    have ho' := mem_defsNamed.mp ho
    cases o with
    | scope m k => cases ho'.2.1
    | defn dm dws =>
      exact srcOK_of_srcErrOf_none_pv dm dws (hnone _ (mem_activeNamed.mpr ⟨ho'.1, ho'.2.2.1, ho'.2.2.2⟩))

/-- the step of the master loop, diff mode, non-multiple master definition, ANY annotated sources: the
    first error among the enabled source objects of its name, else the difference block -/
theorem stepG_plain_diff_vars_fv3 (F : FetchFn) (e : Envs) (f : Nat) (sm : Meta)
    (mkids combined : List Obj) (st : List Obj × List Nat) (idx : Nat) (mm : Meta) (mws : List Word)
    (hp : DefnMeta mm) (hmult : isMultiple (.defn mm mws) = false)
    (hmatch : fetchMatching (f + 1) sm combined (.defn mm mws) = activeNamed mm.name combined)
    (hkeys : KeysDefined e 0 (.defn mm mws) (defsNamed mm.name combined)) :
    stepG F e (f + 1) true sm mkids combined st (idx, .defn mm mws) =
      match firstErrObj (.defn mm mws) combined with
      | some err => .error err
      | none =>
        .ok (st.1 ++ tdBlock e (.defn mm mws) combined, st.2 ++ treeUsedObj (.defn mm mws) combined) := by
  have hkeys' := keysDefined_fuel_tm e (f + 1) mm mws _ hkeys
  rw [firstErrObj, tdBlock, treeUsedObj]
  cases hfs : (activeNamed mm.name combined).findSome? srcErrOf with
  | none =>
    simp only
    obtain ⟨hsc, hok⟩ := firstErr_none_facts_fv3 mm.name combined hfs
    have hm : fetchMatching (f + 1) sm combined (.defn mm mws) =
        activeNamed mm.name (defsNamed mm.name combined) := by
      rw [hmatch, activeNamed_eq_defsNamed _ _ hsc, activeNamed_defsNamed_dt]
    rw [diff_plain_step F e f sm mkids combined (defsNamed mm.name combined) st idx mm mws hp hmult hm
      (fun o ho => (mem_defsNamed.mp ho).2.1) hok
      (by rw [activeNamed_defsNamed_dt]; exact hkeys'),
      activeNamed_defsNamed_dt, diffBlockL_fuel_dt]
  | some err =>
    simp only
    obtain ⟨⟨k0, hk0⟩, hcand⟩ := hkeys'
    unfold stepG
    simp only [hmult, Bool.not_false, if_true]
    rw [hmatch, foldlM_first_error_pv (defnOne e (f + 1) true (.defn mm mws)) srcErrOf _ _ err hfs]
    · rfl
    · intro a ha b
      have ha' := mem_activeNamed.mp ha
      cases a with
      | scope m' k' =>
        refine ⟨fun h => by simp [srcErrOf] at h, fun E hE => ?_⟩
        simp only [srcErrOf, Option.some.injEq] at hE
        rw [← hE]
        exact defnOne_scope_incompatible_dt e (f + 1) true mm mws m' k' b
      | defn dm dws =>
        refine ⟨fun h => ?_, fun E hE => ?_⟩
        · obtain ⟨kk, hkk⟩ := hcand _ (mem_defsNamed.mpr ⟨ha'.1, rfl, ha'.2.1, ha'.2.2⟩)
          exact defnOne_diff_ok_dt e f mm mws hp dm dws (srcOK_of_srcErrOf_none_pv dm dws h) k0 kk hk0 hkk b
        · exact defnOne_diff_err_fv3 e (f + 1) mm mws dm dws E (srcErrOf_defn_some_fv3 hE) b

/-- the step, diff mode, `.multiple` master definition, ANY annotated sources -/
theorem stepG_multi_diff_vars_fv3 (F : FetchFn) (e : Envs) (f : Nat) (sm : Meta)
    (mkids combined : List Obj) (st : List Obj × List Nat) (idx : Nat) (mm : Meta) (mws : List Word)
    (hp : DefnMeta mm) (hmult : isMultiple (.defn mm mws) = true)
    (hfm : fromMasterOf mkids idx (.defn mm mws) = [])
    (hmatch : fetchMatching (f + 1) sm combined (.defn mm mws) = activeNamed mm.name combined)
    (hkeys : KeysDefined e 0 (.defn mm mws) (defsNamed mm.name combined)) :
    stepG F e (f + 1) true sm mkids combined st (idx, .defn mm mws) =
      match firstErrObj (.defn mm mws) combined with
      | some err => .error err
      | none =>
        .ok (st.1 ++ tdBlock e (.defn mm mws) combined, st.2 ++ treeUsedObj (.defn mm mws) combined) := by
  obtain ⟨⟨k0, hk0⟩, hcand⟩ := keysDefined_fuel_tm e (f + 1) mm mws _ hkeys
  rw [firstErrObj, tdBlock, treeUsedObj]
  cases hfs : (activeNamed mm.name combined).findSome? srcErrOf with
  | none =>
    simp only
    obtain ⟨hsc, hok⟩ := firstErr_none_facts_fv3 mm.name combined hfs
    have hlink : ∀ d ∈ defsNamed mm.name combined,
        CandLink e (f + 1) (.defn mm mws) d
          (candOfSrc (.defn mm mws) d, keyOf e (f + 1) (.defn mm mws) (candOfSrc (.defn mm mws) d)) := by
      intro d hd
      have hd' := mem_defsNamed.mp hd
      obtain ⟨k, hk⟩ := hcand d hd
      cases d with
      | scope m k => cases hd'.2.1
      | defn dm dws =>
        exact ⟨fetchValue_defnMeta mm mws dm dws hp (hok _ hd), by rw [keyOf_ok hk]; exact hk⟩
    have hm : fetchMatching (f + 1) sm combined (.defn mm mws) = defsNamed mm.name combined := by
      rw [hmatch, activeNamed_eq_defsNamed _ _ hsc]
    have hl : Forall2 (fun ms ck => CandLink e (f + 1) (.defn mm mws) ms ck ∧ ∃ cm cws, ck.1 = .defn cm cws)
        (fetchMatching (f + 1) sm combined (.defn mm mws))
        (candsOf e (f + 1) (.defn mm mws) (defsNamed mm.name combined)) := by
      rw [hm]
      apply forall2_map
      intro d hd
      exact ⟨hlink d hd, _, _, rfl⟩
    rw [diff_multi_step F e f sm mkids combined st idx mm mws k0 _ hmult hfm hk0 hl, hm]
    unfold diffBlockL
    rw [hmult, ← keyOf_ok hk0, survivorsOf_fuel_dt]
    rfl
  | some err =>
    simp only
    unfold stepG
    simp only [hmult, Bool.not_true, Bool.false_eq_true, if_false]
    unfold multiBranch
    rw [masterKeyG_defn, hk0, hfm, List.nil_append, hmatch]
    simp only
    rw [foldlM_first_error_pv (cstepG F e (f + 1) true (.defn mm mws) k0) (fun fm => srcErrOf fm.2) _ _ err]
    · rw [List.findSome?_map]
      exact hfs
    · intro a ha b
      obtain ⟨o, ho, rfl⟩ := List.mem_map.mp ha
      have ho' := mem_activeNamed.mp ho
      cases o with
      | scope m' k' =>
        refine ⟨fun h => by simp [srcErrOf] at h, fun E hE => ?_⟩
        simp only [srcErrOf, Option.some.injEq] at hE
        rw [← hE]
        exact cstepG_scope_incompatible_diff_dt F e (f + 1) mm mws k0 m' k' b
      | defn dm dws =>
        have hd : Obj.defn dm dws ∈ defsNamed mm.name combined :=
          mem_defsNamed.mpr ⟨ho'.1, rfl, ho'.2.1, ho'.2.2⟩
        refine ⟨fun h => ?_, fun E hE => ?_⟩
        · have hok := srcOK_of_srcErrOf_none_pv dm dws h
          obtain ⟨k, hk⟩ := hcand _ hd
          have hlk : CandLink e (f + 1) (.defn mm mws) (.defn dm dws)
              (candOfSrc (.defn mm mws) (.defn dm dws),
               keyOf e (f + 1) (.defn mm mws) (candOfSrc (.defn mm mws) (.defn dm dws))) :=
            ⟨fetchValue_defnMeta mm mws dm dws hp hok, by rw [keyOf_ok hk]; exact hk⟩
          rw [cstepG_diff_src F e f mm mws k0 _ _ hlk ⟨_, _, rfl⟩ hk0 b]
          exact cstepG_defn_ok_tm F e (f + 1) mm mws hp k0 dm dws hok (hcand _ hd) b
        · exact cstepG_defn_err_diff_fv3 F e (f + 1) mm mws k0 dm dws E (srcErrOf_defn_some_fv3 hE) b

/-- the step, diff mode, non-multiple master scope, given the callee on the next level -/
theorem stepG_scope_diff_vars_fv3 (F : FetchFn) (e : Envs) (fuel : Nat) (sm : Meta)
    (mkids combined : List Obj) (st : List Obj × List Nat) (idx : Nat) (mm : Meta) (kids : List Obj)
    (hmult : (mm.attrs.get "multiple").truthy = false)
    (hmatch : fetchMatching fuel sm combined (.scope mm kids) = activeNamed mm.name combined)
    (hF : F true mm kids (srcStep combined mm.name) = treeDiffFetch e mm kids (srcStep combined mm.name)) :
    stepG F e fuel true sm mkids combined st (idx, .scope mm kids) =
      match firstErrObj (.scope mm kids) combined with
      | some err => .error err
      | none =>
        .ok (st.1 ++ tdBlock e (.scope mm kids) combined, st.2 ++ treeUsedObj (.scope mm kids) combined) := by
  have hm : isMultiple (.scope mm kids) = false := hmult
  have hstep : stepG F e fuel true sm mkids combined st (idx, .scope mm kids) =
      scopeBranch F true mm kids (activeNamed mm.name combined) st.1 st.2 := by
    unfold stepG
    simp only [hm, Bool.not_false, if_true]
    rw [hmatch]
  rw [hstep, firstErrObj, tdBlock, treeUsedObj]
  unfold scopeBranch
  cases hdn : defsNamed mm.name combined with
  | nil =>
    rw [find_isDefn_activeNamed_none _ _ hdn, activeNamed_children_tree, hF]
    simp only [List.isEmpty_nil, if_true]
    unfold treeDiffFetch
    cases firstErr kids (srcStep combined mm.name) with
    | some err => rfl
    | none =>
      simp only [Bool.true_and, Obj.children]
      split
      · rename_i h; simp [h]
      · rename_i h; simp [h]
  | cons d rest =>
    obtain ⟨x, hx⟩ := find_isDefn_activeNamed_some mm.name combined (by rw [hdn]; exact List.cons_ne_nil _ _)
    rw [hx]
    simp only [List.isEmpty_cons, Bool.false_eq_true, if_false]
    rfl

/-! ## 2. the whole difference -/

/-- **closed form of `fetch_diff` of a nested master whose definitions may be `.multiple`, ANY annotated
    sources** (no `SrcTree`): with fuel beyond the nesting depth plus one and defined keys, the
    difference is `treeDiffFetch` — the error of the first offending source object in master order (the
    recorded `resolve_variables` error of a matching definition, or "incompatible" for a clash of kinds),
    else `treeDiff` over the RESOLVED words with the consumed ids `treeUsed`. -/
theorem diff_tree_vars_total (e : Envs) : ∀ (fuel : Nat) (sm : Meta) (mkids srcs : List Obj),
    TreeMultiMaster mkids → depthL mkids + 1 < fuel → sm.disabled = false → ScopesNamed srcs →
    KeysAll_dt e mkids srcs →
    fetchScope e fuel true sm mkids srcs = treeDiffFetch e sm mkids srcs := by
  intro fuel
  induction fuel with
  | zero => intro sm mkids srcs _ hd; exact absurd hd (Nat.not_lt_zero _)
  | succ fuel ih =>
    intro sm mkids srcs hf hdepth hsd hsrc hkeys
    obtain ⟨f, rfl⟩ : ∃ f, fuel = f + 1 := ⟨fuel - 1, by omega⟩
    rw [fetchScope_succ, masterActive_tm mkids hf]
    simp only
    have hsc : ∀ m kids, Obj.scope m kids ∈ srcs → m.disabled = false → m.name ≠ [] :=
      fun m kids hm hd => hsrc m kids (.here hm hd)
    rw [foldlM_firstErr_vars _ (fun io => firstErrObj io.2 srcs) (fun io => tdBlock e io.2 srcs)
      (fun io => treeUsedObj io.2 srcs)]
    · have hall : (indexed mkids).findSome? (fun io => firstErrObj io.2 srcs) = firstErr mkids srcs := by
        rw [firstErr_eq_findSome]
        conv => rhs; rw [← indexed_map_snd mkids]
        rw [List.findSome?_map]
        rfl
      rw [hall]
      unfold treeDiffFetch
      cases firstErr mkids srcs with
      | some err => rfl
      | none =>
        simp only [List.nil_append]
        unfold fetchFinish
        rw [flatMap_snd (fun mo => tdBlock e mo srcs),
          flatMap_snd (fun mo => treeUsedObj mo srcs), indexed_map_snd,
          ← treeDiff_eq_flatMap_dt, ← treeUsed_eq_flatMap]
    · intro st a ha
      have hmem : a.2 ∈ mkids := by rw [← indexed_map_snd mkids]; exact List.mem_map.mpr ⟨a, ha, rfl⟩
      have hto := hf.obj _ hmem
      have hko := hkeys.obj _ hmem
      have hmatch := fetchMatching_tree (f + 1) sm srcs a.2 hsd hto.name_ne hto.dotfree hsc
      obtain ⟨i, mo⟩ := a
      simp only at hmem hto hmatch hko ⊢
      cases mo with
      | defn mm mws =>
        rw [TMObj] at hto
        rw [KeysAllObj_dt] at hko
        cases hmult : isMultiple (.defn mm mws) with
        | false => exact stepG_plain_diff_vars_fv3 _ e f sm mkids srcs st i mm mws hto.1 hmult hmatch hko
        | true =>
          exact stepG_multi_diff_vars_fv3 _ e f sm mkids srcs st i mm mws hto.1 hmult
            (fromMasterOf_nil mkids hf.distinct i _ ha) hmatch hko
      | scope mm kids =>
        have hkids := TreeMultiMaster.of_scope hto
        have hd1 := depthT_le_depthL mkids _ hmem
        rw [depthT] at hd1
        rw [TMObj] at hto
        rw [KeysAllObj_dt] at hko
        exact stepG_scope_diff_vars_fv3 _ e (f + 1) sm mkids srcs st i mm kids hto.1 hmatch
          (ih mm kids (srcStep srcs mm.name) hkids (by omega) hto.2.2.2.1 (hsrc.step mm.name) hko)

/-- on sources whose definitions all resolve the new closed form is the one of `diff_tree_total` -/
theorem treeDiffFetch_of_srcTree_fv3 (e : Envs) (sm : Meta) (mkids srcs : List Obj) (hs : SrcTree srcs) :
    treeDiffFetch e sm mkids srcs =
      if noClash mkids srcs then .ok (.scope { sm with tmpl := 0 } (treeDiff e mkids srcs), treeUsed mkids srcs)
      else .error incompatibleErr := by
  unfold treeDiffFetch
  rw [firstErr_of_srcTree mkids srcs hs]
  cases noClash mkids srcs <;> rfl

/-! ## 3. `fetchRoot` in diff mode on pre-resolved parser outputs -/

/-- **`master.fetch_diff(sources)` with `$variables`**: the difference of documents pre-resolved in diff
    mode is `treeDiffFetch` on the documents DENOTED in diff mode (every definition carrying
    `denote env doc pos true` at its own position) -/
theorem fetchRoot_diff_preResolved_fv3 (e : Envs) (env : Env) (master : List Obj) (docs : List (List Obj))
    (hf : TreeMultiMaster master) (hd : depthL master ≤ 1000) (hdocs : ∀ d ∈ docs, DocIds d)
    (hnamed : ScopesNamed docs.flatten)
    (hkeys : KeysAll_dt e master (docs.map (denoteDoc env true)).flatten) :
    fetchRoot e true master (docs.map (preResolve env true)) =
      treeDiffFetch e { name := [], id := some 0 } master (docs.map (denoteDoc env true)).flatten := by
  have hmap : docs.map (preResolve env true) = docs.map (denoteDoc env true) :=
    List.map_congr_left (fun d hdm => preResolve_eq_denoteDoc env true d (hdocs d hdm))
  rw [hmap]
  exact diff_tree_vars_total e _ _ master _ hf (fetchRoot_fuel_dt master hd) rfl
    (scopesNamed_denoteDocs env true docs hnamed) hkeys

/-! ## 4. several source documents: the ids are shifted per document (C06, the reported list) -/

/-- the shift of the ids consulted by a recorded resolution -/
def shiftRes (k : Nat) : Option VarRes → Option VarRes
  | some (.ok ws refs) => some (.ok ws (refs.map (· + k)))
  | v => v

mutual
/-- **the id shift of the driver** (`offsetIds` of Main.lean, structurally): every primary id and every
    recorded consulted id is increased by `k`; nothing else changes -/
def shiftObj (k : Nat) : Obj → Obj
  | .defn m ws => .defn { m with id := m.id.map (· + k), varRes := shiftRes k m.varRes } ws
  | .scope m kids => .scope { m with id := m.id.map (· + k) } (shiftList k kids)
def shiftList (k : Nat) : List Obj → List Obj
  | [] => []
  | o :: r => shiftObj k o :: shiftList k r
end

/-- an entry of `all_definitions`, shifted -/
def shiftEntry (k : Nat) (x : Str × Meta × List Word) : Str × Meta × List Word :=
  (x.1, { x.2.1 with id := x.2.1.id.map (· + k), varRes := shiftRes k x.2.1.varRes }, x.2.2)

theorem shiftObj_name_fv3 (k : Nat) (o : Obj) : (shiftObj k o).name = o.name := by
  cases o <;> rfl

theorem shiftObj_disabled_fv3 (k : Nat) (o : Obj) : (shiftObj k o).meta.disabled = o.meta.disabled := by
  cases o <;> rfl

theorem shiftList_mem_fv3 (k : Nat) : ∀ (l : List Obj) (x : Obj), x ∈ shiftList k l → ∃ x0 ∈ l, x = shiftObj k x0
  | [], x, h => by rw [shiftList] at h; cases h
  | o :: r, x, h => by
    rw [shiftList, List.mem_cons] at h
    rcases h with rfl | h
    · exact ⟨o, List.mem_cons_self, rfl⟩
    · obtain ⟨x0, h0, e⟩ := shiftList_mem_fv3 k r x h
      exact ⟨x0, List.mem_cons_of_mem _ h0, e⟩

/-- the enabled objects below enabled scopes of a shifted document are the shifted ones of the document -/
theorem activeIn_shift_fv3 (k : Nat) {x : Obj} {L : List Obj} (h : ActiveIn x L) :
    ∀ (l : List Obj), L = shiftList k l → ∃ x0, ActiveIn x0 l ∧ x = shiftObj k x0 := by
  induction h with
  | here hm hd =>
    intro l e
    subst e
    obtain ⟨x0, h0, rfl⟩ := shiftList_mem_fv3 k l _ hm
    exact ⟨x0, .here h0 (by rw [← shiftObj_disabled_fv3 k x0]; exact hd), rfl⟩
  | deeper hm hd _ ih =>
    intro l e
    subst e
    obtain ⟨s0, h0, es⟩ := shiftList_mem_fv3 k l _ hm
    cases s0 with
    | defn m0 ws0 => rw [shiftObj] at es; cases es
    | scope m0 kids0 =>
      rw [shiftObj] at es
      simp only [Obj.scope.injEq] at es
      obtain ⟨em, ek⟩ := es
      obtain ⟨x0, hx0, ex⟩ := ih kids0 ek
      refine ⟨x0, .deeper h0 ?_ hx0, ex⟩
      rw [em] at hd
      exact hd

mutual
theorem allDefsObj_shift_fv3 (k : Nat) : ∀ (o : Obj) (p : Str),
    allDefsObj (shiftObj k o) p = (allDefsObj o p).map (shiftEntry k)
  | .defn m ws, p => by
    rw [shiftObj, allDefsObj, allDefsObj]
    simp only
    split
    · rfl
    · rfl
  | .scope m kids, p => by
    rw [shiftObj, allDefsObj, allDefsObj]
    exact allDefsList_shift_fv3 k kids _
theorem allDefsList_shift_fv3 (k : Nat) : ∀ (l : List Obj) (p : Str),
    allDefsObj.allDefsList (shiftList k l) p = (allDefsObj.allDefsList l p).map (shiftEntry k)
  | [], p => by rw [shiftList, allDefsObj.allDefsList]; rfl
  | o :: r, p => by
    rw [shiftList, allDefsObj.allDefsList, allDefsObj.allDefsList, List.map_append,
      allDefsList_shift_fv3 k r p, shiftObj_disabled_fv3]
    split
    · rfl
    · rw [allDefsObj_shift_fv3 k o p]
end

theorem allDefinitions_shift_fv3 (k : Nat) (l : List Obj) :
    allDefinitions (shiftList k l) = (allDefinitions l).map (shiftEntry k) :=
  allDefsList_shift_fv3 k l []

theorem allDefinitions_append_fv3 (a b : List Obj) :
    allDefinitions (a ++ b) = allDefinitions a ++ allDefinitions b :=
  allDefsList_append_tree [] a b

mutual
theorem idsLe_didsObj_fv3 (b : Nat) : ∀ (o : Obj), idsLeObj b o = true → ∀ i, some i ∈ didsObj o → i ≤ b
  | .defn m ws => by
    intro h i hi
    simp only [didsObj, List.mem_singleton] at hi
    simp only [idsLeObj] at h
    rw [← hi] at h
    simpa using h
  | .scope m kids => by
    intro h i hi
    simp only [idsLeObj, Bool.and_eq_true] at h
    rw [didsObj] at hi
    exact idsLe_didsList_fv3 b kids h.2 i hi
theorem idsLe_didsList_fv3 (b : Nat) : ∀ (l : List Obj), idsLeList b l = true → ∀ i, some i ∈ didsList l → i ≤ b
  | [] => by intro _ i hi; rw [didsList] at hi; cases hi
  | o :: r => by
    intro h i hi
    simp only [idsLeList, Bool.and_eq_true] at h
    rw [didsList, List.mem_append] at hi
    rcases hi with hi | hi
    · exact idsLe_didsObj_fv3 b o h.1 i hi
    · exact idsLe_didsList_fv3 b r h.2 i hi
end

/-- the ids of the entries of a denoted `DocIds` document do not exceed its size -/
theorem allDefinitions_id_le_fv3 (env : Env) (diff : Bool) (d : List Obj) (hd : DocIds d)
    (x : Str × Meta × List Word) (hx : x ∈ allDefinitions (denoteDoc env diff d)) (i : Nat)
    (hi : x.2.1.id = some i) : i ≤ sizeList d := by
  have hsub := allDefsList_ids_sublist_pv (denoteDoc env diff d) []
  unfold denoteDoc at hsub
  rw [didsList_annList_pv] at hsub
  have hm : some i ∈ didsList d := hsub.subset (List.mem_map.mpr ⟨x, hx, hi⟩)
  exact idsLe_didsList_fv3 _ d hd.2 i hm

/-- documents paired with shifts that keep their id ranges apart: every later shift exceeds the shift
    plus the size of the document (the driver uses `1000000 * (i + 1)`) -/
def Separated : List (List Obj × Nat) → Prop
  | [] => True
  | dk :: rest => (∀ dk' ∈ rest, dk.2 + sizeList dk.1 < dk'.2) ∧ Separated rest

/-- the sources the driver fetches from: every document denoted in its own frame, then shifted -/
def shiftedDocs (env : Env) (diff : Bool) (dks : List (List Obj × Nat)) : List (List Obj) :=
  dks.map (fun dk => shiftList dk.2 (denoteDoc env diff dk.1))

theorem shiftedDocs_entry_fv3 (env : Env) (diff : Bool) : ∀ (dks : List (List Obj × Nat))
    (x : Str × Meta × List Word), x ∈ allDefinitions (shiftedDocs env diff dks).flatten →
    ∃ dk ∈ dks, ∃ x0 ∈ allDefinitions (denoteDoc env diff dk.1), x = shiftEntry dk.2 x0
  | [], x, h => by simp [shiftedDocs, allDefinitions, allDefsObj.allDefsList] at h
  | dk :: rest, x, h => by
    have e : (shiftedDocs env diff (dk :: rest)).flatten
        = shiftList dk.2 (denoteDoc env diff dk.1) ++ (shiftedDocs env diff rest).flatten := by
      simp [shiftedDocs]
    rw [e, allDefinitions_append_fv3, List.mem_append] at h
    rcases h with h | h
    · rw [allDefinitions_shift_fv3, List.mem_map] at h
      obtain ⟨x0, h0, rfl⟩ := h
      exact ⟨dk, List.mem_cons_self, x0, h0, rfl⟩
    · obtain ⟨dk', hdk', x0, h0, ex⟩ := shiftedDocs_entry_fv3 env diff rest x h
      exact ⟨dk', List.mem_cons_of_mem _ hdk', x0, h0, ex⟩

/-- **the id-shift lemma**: per-document present, pairwise distinct ids and separated shifts give present,
    pairwise distinct ids over ALL shifted documents -/
theorem shiftedDocs_ids_fv3 (env : Env) (diff : Bool) : ∀ (dks : List (List Obj × Nat)),
    (∀ dk ∈ dks, DocIds dk.1) →
    (∀ dk ∈ dks, ∀ x ∈ allDefinitions (denoteDoc env diff dk.1), x.2.1.id ≠ none) →
    (∀ dk ∈ dks, ((allDefinitions (denoteDoc env diff dk.1)).map (fun x => x.2.1.id)).Nodup) →
    Separated dks →
    (∀ x ∈ allDefinitions (shiftedDocs env diff dks).flatten, x.2.1.id ≠ none) ∧
    ((allDefinitions (shiftedDocs env diff dks).flatten).map (fun x => x.2.1.id)).Nodup
  | [], _, _, _, _ => by
    simp [shiftedDocs, allDefinitions, allDefsObj.allDefsList]
  | dk :: rest, hdoc, hsome, hnd, hsep => by
    obtain ⟨hs1, hs2⟩ := hsep
    obtain ⟨ih1, ih2⟩ := shiftedDocs_ids_fv3 env diff rest
      (fun d hd => hdoc d (List.mem_cons_of_mem _ hd)) (fun d hd => hsome d (List.mem_cons_of_mem _ hd))
      (fun d hd => hnd d (List.mem_cons_of_mem _ hd)) hs2
    have e : (shiftedDocs env diff (dk :: rest)).flatten
        = shiftList dk.2 (denoteDoc env diff dk.1) ++ (shiftedDocs env diff rest).flatten := by
      simp [shiftedDocs]
    rw [e, allDefinitions_append_fv3, allDefinitions_shift_fv3]
    -- the ids of the first document after the shift
    have hfirst : ∀ x ∈ (allDefinitions (denoteDoc env diff dk.1)).map (shiftEntry dk.2),
        ∃ i, x.2.1.id = some (i + dk.2) ∧ i ≤ sizeList dk.1 := by
      intro x hx
      obtain ⟨x0, h0, rfl⟩ := List.mem_map.mp hx
      cases hid : x0.2.1.id with
      | none => exact absurd hid (hsome dk List.mem_cons_self x0 h0)
      | some i =>
        exact ⟨i, by simp [shiftEntry, hid],
          allDefinitions_id_le_fv3 env diff dk.1 (hdoc dk List.mem_cons_self) x0 h0 i hid⟩
    refine ⟨?_, ?_⟩
    · intro x hx
      rcases List.mem_append.mp hx with hx | hx
      · obtain ⟨i, hi, _⟩ := hfirst x hx
        rw [hi]; simp
      · exact ih1 x hx
    · rw [List.map_append, List.nodup_append]
      refine ⟨?_, ih2, ?_⟩
      · rw [List.map_map]
        have : ((fun x => x.2.1.id) ∘ shiftEntry dk.2)
            = (Option.map (· + dk.2)) ∘ (fun (x : Str × Meta × List Word) => x.2.1.id) := by
          funext x; rfl
        rw [this, ← List.map_map]
        have hinj : ∀ a b : Option Nat, Option.map (· + dk.2) a = Option.map (· + dk.2) b → a = b := by
          intro a b hab
          cases a <;> cases b <;> simp at hab ⊢
          omega
        have h0 := hnd dk List.mem_cons_self
        unfold List.Nodup at h0 ⊢
        rw [List.pairwise_map]
        exact h0.imp (fun hne e => hne (hinj _ _ e))
      · intro a ha b hb hab
        obtain ⟨x, hx, rfl⟩ := List.mem_map.mp ha
        obtain ⟨y, hy, rfl⟩ := List.mem_map.mp hb
        obtain ⟨i, hi, hle⟩ := hfirst x hx
        obtain ⟨dk', hdk', y0, hy0, rfl⟩ := shiftedDocs_entry_fv3 env diff rest y hy
        cases hid : y0.2.1.id with
        | none => exact absurd hid (hsome dk' (List.mem_cons_of_mem _ hdk') y0 hy0)
        | some j =>
          have hlt := hs1 dk' hdk'
          rw [hi] at hab
          simp [shiftEntry, hid] at hab
          omega

theorem activeIn_shiftedDocs_fv3 (env : Env) (diff : Bool) (dks : List (List Obj × Nat)) {x : Obj}
    (hx : ActiveIn x (shiftedDocs env diff dks).flatten) :
    ∃ dk ∈ dks, ∃ x0, ActiveIn x0 (denoteDoc env diff dk.1) ∧ x = shiftObj dk.2 x0 := by
  obtain ⟨l, hl, hxl⟩ := activeIn_flatten_fv hx
  obtain ⟨dk, hdk, rfl⟩ := List.mem_map.mp hl
  obtain ⟨x0, h0, e⟩ := activeIn_shift_fv3 dk.2 hxl _ rfl
  exact ⟨dk, hdk, x0, h0, e⟩

theorem scopesNamed_shiftedDocs_fv3 (env : Env) (diff : Bool) (dks : List (List Obj × Nat))
    (h : ∀ dk ∈ dks, ScopesNamed dk.1) : ScopesNamed (shiftedDocs env diff dks).flatten := by
  intro m kids hx
  obtain ⟨dk, hdk, x0, h0, e⟩ := activeIn_shiftedDocs_fv3 env diff dks hx
  have hn : ScopesNamed (denoteDoc env diff dk.1) := by
    have := scopesNamed_denoteDocs env diff [dk.1] (by simpa using h dk hdk)
    simpa using this
  cases x0 with
  | defn m0 ws0 => rw [shiftObj] at e; cases e
  | scope m0 kids0 =>
    rw [shiftObj] at e
    simp only [Obj.scope.injEq] at e
    rw [e.1]
    exact hn m0 kids0 h0

theorem srcDotfree_shiftedDocs_fv3 (env : Env) (diff : Bool) (dks : List (List Obj × Nat))
    (h : ∀ dk ∈ dks, DocIds dk.1) : SrcDotfree (shiftedDocs env diff dks).flatten := by
  intro x hx
  obtain ⟨dk, hdk, x0, h0, e⟩ := activeIn_shiftedDocs_fv3 env diff dks hx
  have hn : SrcDotfree (denoteDoc env diff dk.1) := by
    have := srcDotfree_denoteDocs env diff [dk.1] (by intro d hd; rw [List.mem_singleton] at hd; subst hd; exact h dk hdk)
    simpa using this
  rw [e, shiftObj_name_fv3]
  exact hn x0 h0

/-- what the driver passes to `fetch` -/
theorem shifted_preResolve_fv3 (env : Env) (diff : Bool) (dks : List (List Obj × Nat))
    (h : ∀ dk ∈ dks, DocIds dk.1) :
    dks.map (fun dk => shiftList dk.2 (preResolve env diff dk.1)) = shiftedDocs env diff dks := by
  unfold shiftedDocs
  exact List.map_congr_left (fun dk hdk => by rw [preResolve_eq_denoteDoc env diff dk.1 (h dk hdk)])

/-- **C06 with variables, SEVERAL source documents (the reported list, exactly).**  The documents are
    pre-resolved each in its own frame and their ids shifted apart (`Separated`); after a successful fetch
    an entry of `all_definitions` of the shifted sources is NOT consumed iff its path names no master
    definition and no entry whose path names a master definition consulted it. -/
theorem unused_shifted_exact_fv3 (e : Envs) (env : Env) (master : List Obj) (dks : List (List Obj × Nat))
    (hf : TreeMaster master) (hd : depthL master ≤ 1000) (hinc : NoIncludeTree master)
    (hdocs : ∀ dk ∈ dks, DocIds dk.1) (hnamed : ∀ dk ∈ dks, ScopesNamed dk.1)
    (hsome : ∀ dk ∈ dks, ∀ x ∈ allDefinitions (denoteDoc env false dk.1), x.2.1.id ≠ none)
    (hnd : ∀ dk ∈ dks, ((allDefinitions (denoteDoc env false dk.1)).map (fun x => x.2.1.id)).Nodup)
    (hsep : Separated dks) (ro : Obj) (used : List Nat)
    (h : fetchRoot e false master (dks.map (fun dk => shiftList dk.2 (preResolve env false dk.1))) = .ok (ro, used))
    (x : Str × Meta × List Word) :
    x ∈ (allDefinitions (shiftedDocs env false dks).flatten).filter (notConsumed used) ↔
      x ∈ allDefinitions (shiftedDocs env false dks).flatten ∧
        x.1 ∉ (allDefinitions master).map (·.1) ∧
        ∀ y ∈ allDefinitions (shiftedDocs env false dks).flatten,
          y.1 ∈ (allDefinitions master).map (·.1) →
            ∀ i, x.2.1.id = some i → i ∉ srcRefs (.defn y.2.1 y.2.2) := by
  rw [shifted_preResolve_fv3 env false dks hdocs,
    fetchRoot_tree_vars e master _ hf hd (scopesNamed_shiftedDocs_fv3 env false dks hnamed)] at h
  unfold treeFetch at h
  cases hfe : firstErr master (shiftedDocs env false dks).flatten with
  | some err => rw [hfe] at h; cases h
  | none =>
    rw [hfe] at h
    simp only [Except.ok.injEq, Prod.mk.injEq] at h
    obtain ⟨hs1, hs2⟩ := shiftedDocs_ids_fv3 env false dks hdocs hsome hnd hsep
    rw [← defPaths_eq_allDefinitions master hf hinc]
    refine unused_vars_exact _ _ used hs1 hs2 (fun i => ?_) x
    rw [← h.2]
    exact tree_used_vars_exact master _ hf hinc (srcDotfree_shiftedDocs_fv3 env false dks hdocs) i

end Phil
