/-
  Lemmas behind the print → parse round trip (C01) for NESTED scopes: the text `scope.show` prints for
  a tree of attribute-free scopes and definitions (any depth, any print width, dottedName "merged" scope
  chains included), and what `collect_objects` reads back from it.
-/
import Phil.Proofs.PrintParse
import Phil.Proofs.DottedNames
set_option linter.unusedSimpArgs false
set_option linter.unusedVariables false
namespace Phil

/-! ### the printed text of a tree -/

/-- the dottedName name `scope.show` / `definition.show` print: the pending merged names and the own name -/
def dottedName (ms : List Str) (nm : Str) : Str := joinWith ['.'] (ms ++ [nm])

/-- indentation of the children of a proper scope -/
def deeper (ind : Str) : Str := ind ++ [' ', ' ']

mutual
/-- the text printed for one object at print width `w`, with pending merged names `ms`, at
    indentation `ind` (every line ends with a newline) -/
def treeText (w : Int) : Obj → List Str → Str → Str
  | .defn m ws, ms, ind =>
    ind ++ dottedName ms m.name ++ [' ', '='] ++
      wrapTail w (ind ++ defIndent (dottedName ms m.name)) ws (ind ++ defHead (dottedName ms m.name)) ++ ['\n']
  | .scope m os, ms, ind =>
    if firstMerges os then kidsText w os (ms ++ [m.name]) ind
    else ind ++ dottedName ms m.name ++ [' ', '{', '\n'] ++ kidsText w os [] (deeper ind) ++ ind ++ ['}', '\n']
def kidsText (w : Int) : List Obj → List Str → Str → Str
  | [], _, _ => []
  | x :: xs, ms, ind => treeText w x ms ind ++ kidsText w xs ms ind
end

/-! ### the class of trees -/

/-- object data of an enabled object without attributes; `mg` is its `merge_names` flag, `primary_id`
    and source line are arbitrary -/
def PlainMetaPP (mg : Bool) (m : Meta) : Prop :=
  m = { name := m.name, id := m.id, line := m.line, mergeNames := mg }

mutual
/-- `RTNode ms x`: `x` is a tree of enabled attribute-free definitions and scopes with good undotted
    names, standing below the chain `ms` of scopes that merge their names into its printed name
    (`ms = []`: an ordinary child; then `merge_names` of `x` is False, else True).  The children of a
    scope are either any number (also none) of such trees with `merge_names = False` — a proper scope,
    printed `name {` … `}` — or exactly one such tree with `merge_names = True` (the scope is printed
    as part of the dottedName name `a.b …` of that child, as `scope.adopt` builds it for a dottedName name).
    A printed dottedName name must not be a reserved identifier (`__a.b__`). -/
def RTNode : List Str → Obj → Prop
  | ms, .defn m ws => PlainMetaPP (!ms.isEmpty) m ∧ goodName m.name = true ∧
      isReserved (dottedName ms m.name) = false ∧ ws ≠ [] ∧ ∀ w ∈ ws, goodWord w = true
  | ms, .scope m os => PlainMetaPP (!ms.isEmpty) m ∧ goodName m.name = true ∧
      ((isReserved (dottedName ms m.name) = false ∧ RTAll os) ∨ RTOne (ms ++ [m.name]) os)
def RTAll : List Obj → Prop
  | [] => True
  | x :: xs => RTNode [] x ∧ RTAll xs
def RTOne : List Str → List Obj → Prop
  | _, [] => False
  | ms, x :: xs => RTNode ms x ∧ xs = []
end

theorem RTAll_iff (os : List Obj) : RTAll os ↔ ∀ x ∈ os, RTNode [] x := by
  induction os with
  | nil => simp [RTAll]
  | cons x xs ih => simp [RTAll, ih]

theorem RTNode.meta {ms : List Str} {x : Obj} (h : RTNode ms x) : PlainMetaPP (!ms.isEmpty) x.meta := by
  cases x <;> (unfold RTNode at h; exact h.1)

theorem RTNode.goodName {ms : List Str} {x : Obj} (h : RTNode ms x) : goodName x.name = true := by
  cases x <;> (unfold RTNode at h; exact h.2.1)

theorem PlainMetaPP.merge {mg : Bool} {m : Meta} (h : PlainMetaPP mg m) : m.mergeNames = mg := by
  rw [h]

theorem RTAll.firstMerges {os : List Obj} (h : RTAll os) : firstMerges os = false := by
  cases os with
  | nil => rfl
  | cons x xs => unfold RTAll at h; exact h.1.meta.merge

theorem RTOne.firstMerges {ms : List Str} {n : Str} {os : List Obj} (h : RTOne (ms ++ [n]) os) :
    firstMerges os = true := by
  cases os with
  | nil => unfold RTOne at h; exact h.elim
  | cons x xs =>
    unfold RTOne at h
    have := h.1.meta.merge
    have e : (!(ms ++ [n]).isEmpty) = true := by cases ms <;> rfl
    rw [e] at this
    exact this

/-! ### the printer -/

theorem dotted_nil (nm : Str) : dottedName [] nm = nm := rfl

/-- `definition.show` for an enabled definition without attributes, attributes level 0, any prefix,
    any pending merged names, any width -/
theorem showDefn_gen (o : ShowOpts) (hl : o.level ≤ 0) (m : Meta) (mg : Bool) (hm : PlainMetaPP mg m)
    (ws : List Word) (ms : List Str) (ind : Str) (hinc : m.name ≠ "include".toList) :
    showDefn o m ws ms ind
      = .ok (showWords o.width (ind ++ defIndent (dottedName ms m.name)) ws
               (ind ++ defHead (dottedName ms m.name)) []) := by
  have hline : defnLine m ms ind = ind ++ dottedName ms m.name ++ [' ', '='] := by
    rw [hm]
    simp only [defnLine, bne_iff_ne, ne_eq, hinc, not_false_eq_true, ↓reduceIte, dottedName]
    simp
  rw [showDefn_eq, showDefnBody, hline, hm]
  simp only [attrs_get_nil, AttrVal.truthy, Bool.false_and, Bool.false_eq_true, ↓reduceIte]
  have h0 : ¬ ((0 : Int) < 0) := by omega
  simp only [h0, decide_false, Bool.false_and, Bool.false_eq_true, ↓reduceIte, expertHidden,
    expertGate_false, showAttributes, hl]
  simp only [List.nil_append, List.append_nil, List.length_append, List.length_cons, List.length_nil,
    defIndent, defHead, List.append_assoc]
  have e : List.length ind + (List.length (dottedName ms m.name) + (0 + 1 + 1)) - List.length ind
      = List.length (dottedName ms m.name) + 2 := by omega
  rw [e]

/-- the header and the closing line of a proper scope -/
theorem showScope_proper (o : ShowOpts) (hl : o.level ≤ 0) (m : Meta) (mg : Bool) (hm : PlainMetaPP mg m)
    (os : List Obj) (ms : List Str) (ind : Str) (hne : m.name ≠ []) (hfm : firstMerges os = false)
    (body : List Str) (hbody : showObjs o os [] (deeper ind) = .ok body) :
    showObj o (.scope m os) ms ind
      = .ok ([ind ++ dottedName ms m.name ++ [' ', '{']] ++ body ++ [ind ++ ['}']]) := by
  have h0 : ¬ ((0 : Int) < 0) := by omega
  have hemp : m.name.isEmpty = false := by cases hn : m.name <;> simp_all
  rw [showObj_scope_eq, hfm, showScopeBody, hemp, hm]
  simp only [h0, decide_false, Bool.false_and, Bool.false_eq_true, ↓reduceIte, attrs_get_nil,
    expertHidden, expertGate_false, showAttributes_level_nonpos _ _ _ _ _ hl, List.isEmpty_nil]
  have hb : showObjs o os [] (ind ++ "  ".toList) = .ok body := hbody
  rw [hb]
  simp [dottedName]

/-- a scope whose first child merges its name prints its children with the name pending -/
theorem showScope_merging (o : ShowOpts) (m : Meta) (mg : Bool) (hm : PlainMetaPP mg m)
    (os : List Obj) (ms : List Str) (ind : Str) (hne : m.name ≠ []) (hfm : firstMerges os = true) :
    showObj o (.scope m os) ms ind = showObjs o os (ms ++ [m.name]) ind := by
  have h0 : ¬ ((0 : Int) < 0) := by omega
  have hemp : m.name.isEmpty = false := by cases hn : m.name <;> simp_all
  rw [showObj_scope_eq, hfm, showScopeBody, hemp, hm]
  simp only [h0, decide_false, Bool.false_and, Bool.false_eq_true, ↓reduceIte, attrs_get_nil,
    expertHidden, expertGate_false]

theorem goodName_ne_nil {nm : Str} (h : goodName nm = true) : nm ≠ [] := by
  obtain ⟨c, w, e, _⟩ := goodName_cases h
  rw [e]; simp

/-- **the printer on the class**: what `show` prints for a tree is `treeText` -/
theorem showObj_tree (o : ShowOpts) (hl : o.level ≤ 0) (x : Obj) :
    ∀ (ms : List Str) (ind : Str), RTNode ms x →
      ∃ lines, showObj o x ms ind = .ok lines ∧ unlines lines = treeText o.width x ms ind := by
  induction x using Obj.rec
    (motive_2 := fun os => ∀ (ms : List Str) (ind : Str), ((RTAll os ∧ ms = []) ∨ RTOne ms os) →
      ∃ lines, showObjs o os ms ind = .ok lines ∧ unlines lines = kidsText o.width os ms ind) with
  | defn m ws =>
    intro ms ind h
    unfold RTNode at h
    obtain ⟨hm, hn, _, _⟩ := h
    refine ⟨_, by rw [showObj_defn_eq]; exact showDefn_gen o hl m _ hm ws ms ind (goodName_not_include hn), ?_⟩
    rw [unlines_showWords, treeText]
    simp [unlines, defHead]
  | scope m os ih =>
    intro ms ind h
    unfold RTNode at h
    obtain ⟨hm, hn, hk⟩ := h
    have hne := goodName_ne_nil hn
    rcases hk with ⟨_, hk⟩ | hk
    · obtain ⟨body, hb, hbt⟩ := ih [] (deeper ind) (Or.inl ⟨hk, rfl⟩)
      refine ⟨_, showScope_proper o hl m _ hm os ms ind hne hk.firstMerges body hb, ?_⟩
      rw [treeText, hk.firstMerges, unlines_append, unlines_append, hbt]
      simp [unlines]
    · obtain ⟨lines, hb, hbt⟩ := ih (ms ++ [m.name]) ind (Or.inr hk)
      refine ⟨lines, by rw [showScope_merging o m _ hm os ms ind hne hk.firstMerges]; exact hb, ?_⟩
      rw [treeText, hk.firstMerges, hbt]
      rfl
  | nil => exact ⟨[], rfl, rfl⟩
  | cons x xs ihx ihxs =>
    rename_i ms ind h
    have hx : RTNode ms x ∧ ((RTAll xs ∧ ms = []) ∨ xs = []) := by
      rcases h with ⟨h, e⟩ | h
      · unfold RTAll at h; subst e; exact ⟨h.1, Or.inl ⟨h.2, rfl⟩⟩
      · unfold RTOne at h; exact ⟨h.1, Or.inr h.2⟩
    obtain ⟨h1, h2⟩ := hx
    obtain ⟨l1, e1, t1⟩ := ihx ms ind h1
    obtain ⟨l2, e2, t2⟩ : ∃ lines, showObjs o xs ms ind = .ok lines ∧
        unlines lines = kidsText o.width xs ms ind := by
      rcases h2 with h2 | h2
      · exact ihxs ms ind (Or.inl h2)
      · subst h2; exact ⟨[], rfl, by rw [kidsText]; rfl⟩
    refine ⟨l1 ++ l2, by rw [showObjs_cons, e1, e2]; rfl, ?_⟩
    rw [unlines_append, t1, t2, kidsText]

/-! ### `collect_objects`: one scope header, the closing brace -/

/-- what `collect_objects` does with the result of the recursive call for the body of a scope -/
def scopeCont (fuel : Nat) (stop : Option Word) (prevLine : Nat) (acc : List Obj) (pending : Option Obj)
    (m : Meta) : R (List Obj × PState) → R (List Obj × PState)
  | .error e => .error e
  | .ok (children, st') =>
    collectObjects fuel st' stop prevLine (adopt (flush acc pending) (.scope m children)) none

/-- One turn of `collect_objects` for `name {`: the lead word is a scope name, the next structural
    word is `{`: the body is collected by the recursive call (stop token `}`), the scope gets the next
    id and is adopted after the pending definition. -/
theorem collectObjects_scope_step (fuel : Nat) (st : PState) (stop : Option Word) (prevLine : Nat)
    (acc : List Obj) (pending : Option Obj) (lead br : Word) (ci1 ci2 : CI)
    (h1 : nextWord structSettings st.ci = .ok (some (lead, ci1)))
    (hlq : lead.quote = none)
    (hname : plainDefName lead.value = true) (hstd : isStdIdent lead.value = true)
    (hres : reservedName false lead.value = false)
    (h2 : nextWord structSettings ci1 = .ok (some (br, ci2)))
    (hbq : br.quote = none) (hbv : br.value = ['{']) :
    collectObjects (fuel + 1) st stop prevLine acc pending
      = scopeCont fuel stop (lead.line.getD 0) acc pending
          { name := lead.value, id := some st.nextId, line := lead.line }
          (collectObjects fuel { ci := ci2, nextId := st.nextId + 1 } (some br) 0 [] none) := by
  simp only [plainDefName, Bool.and_eq_true, bne_iff_ne, ne_eq, Bool.not_eq_true'] at hname
  obtain ⟨⟨⟨⟨⟨⟨⟨n1, n2⟩, n3⟩, n4⟩, n5⟩, n6⟩, n7⟩, n8⟩ := hname
  have hsb := stripBang_of_not_bang lead n4
  have n1' : ¬ lead.value = ['#', 'p', 'h', 'i', 'l'] := by simpa using n1
  have e1 := tryPopUnquoted_of_next h1 hlq
  have e2 := pop_of_next h2
  have hloop : scopeAttrsLoop (ci2.rest.length + 2) ci2 br [] = .ok ([], br, ci2) := by
    simp [scopeAttrsLoop, hbv]
  cases stop <;>
    simp [collectObjects, e1, e2, n1', n2, n3, hsb, hstd, hres, hbq, hbv, hloop, scopeCont] <;>
    rfl

/-- the word iterator (structure context) on white space followed by `{` -/
theorem nextWord_struct_open (sp rest : Str) (l : Nat) (hsp : ∀ d ∈ sp, isSpace d = true) :
    nextWord structSettings ⟨sp ++ '{' :: rest, l⟩
      = .ok (some ({ value := ['{'], quote := none, line := some (l + nlCount sp) },
                   ⟨rest, l + nlCount sp⟩)) := by
  unfold nextWord
  simp only []
  rw [nextWordAux_skip structSettings sp _ hsp]
  exact nextWordAux_single structSettings '{' rest _ (by rfl) (by rfl) (by rfl) (by rfl)

/-- the word iterator (structure context) on white space followed by `}` -/
theorem nextWord_struct_close (sp rest : Str) (l : Nat) (hsp : ∀ d ∈ sp, isSpace d = true) :
    nextWord structSettings ⟨sp ++ '}' :: rest, l⟩
      = .ok (some ({ value := ['}'], quote := none, line := some (l + nlCount sp) },
                   ⟨rest, l + nlCount sp⟩)) := by
  unfold nextWord
  simp only []
  rw [nextWordAux_skip structSettings sp _ hsp]
  exact nextWordAux_single structSettings '}' rest _ (by rfl) (by rfl) (by rfl) (by rfl)

/-- the word iterator (structure context) on white space followed by an item name and a blank -/
theorem nextWord_struct_name (pre nm rest : Str) (l : Nat) (hpre : ∀ d ∈ pre, isSpace d = true)
    (hn : ItemName nm) :
    nextWord structSettings ⟨pre ++ nm ++ ' ' :: rest, l⟩
      = .ok (some ({ value := nm, quote := none, line := some (l + nlCount pre) },
                   ⟨' ' :: rest, l + nlCount pre⟩)) := by
  obtain ⟨c, w, e, hs, hall⟩ := hn.chars
  subst e
  have hcont := idStart_cont hs
  obtain ⟨_, _, _, _, h5, _⟩ := idCont_facts hcont
  have hc := idCont_not_ends hcont
  have hcm : structSettings.commentChars.contains c = false := by
    simp [structSettings, Gen.structComment, h5]
  unfold nextWord
  simp only []
  rw [List.append_assoc, nextWordAux_skip structSettings pre _ hpre]
  exact nextWordAux_plain structSettings c w _ _ hc (idCont_not_quote hcont) hcm
    (startsLong_of_not_ends rfl hc) (fun d hd => idCont_not_ends (hall d (by simp [hd])))
    (ends_of_isSpace _ (space_blank ' ' (by simp)))

/-- One turn of `collect_objects` on the text `pre name {V`: see `collectObjects_scope_step`. -/
theorem collectObjects_open_scope (fuel : Nat) (stop : Option Word) (prevLine : Nat)
    (acc : List Obj) (pending : Option Obj) (pre nm V : Str) (l i : Nat)
    (hpre : ∀ d ∈ pre, isSpace d = true) (hn : ItemName nm) :
    collectObjects (fuel + 1) { ci := ⟨pre ++ nm ++ ' ' :: '{' :: V, l⟩, nextId := i } stop prevLine
        acc pending
      = scopeCont fuel stop (l + nlCount pre) acc pending
          { name := nm, id := some i, line := some (l + nlCount pre) }
          (collectObjects fuel { ci := ⟨V, l + nlCount pre⟩, nextId := i + 1 }
            (some { value := ['{'], quote := none, line := some (l + nlCount pre) }) 0 [] none) := by
  have h1 := nextWord_struct_name pre nm ('{' :: V) l hpre hn
  have h2 := nextWord_struct_open [' '] V (l + nlCount pre) space_blank
  rw [nlCount_blank, Nat.add_zero] at h2
  have h2' : nextWord structSettings ⟨' ' :: '{' :: V, l + nlCount pre⟩
      = .ok (some ({ value := ['{'], quote := none, line := some (l + nlCount pre) },
                   ⟨V, l + nlCount pre⟩)) := h2
  have key := collectObjects_scope_step fuel
    { ci := ⟨pre ++ nm ++ ' ' :: '{' :: V, l⟩, nextId := i } stop prevLine acc pending
    { value := nm, quote := none, line := some (l + nlCount pre) }
    { value := ['{'], quote := none, line := some (l + nlCount pre) }
    ⟨' ' :: '{' :: V, l + nlCount pre⟩ ⟨V, l + nlCount pre⟩ h1 rfl hn.defName
    hn.stdIdent hn.notReserved h2' rfl rfl
  rw [key]
  rfl

/-- the closing brace ends the recursive call for the body of a scope: the pending definition is
    flushed, the text after the brace is left -/
theorem collectObjects_close (fuel : Nat) (sw : Word) (prevLine : Nat) (acc : List Obj)
    (pending : Option Obj) (pre rest : Str) (l i : Nat) (hpre : ∀ d ∈ pre, isSpace d = true) :
    collectObjects (fuel + 1) { ci := ⟨pre ++ '}' :: rest, l⟩, nextId := i } (some sw) prevLine acc
        pending
      = .ok (flush acc pending, { ci := ⟨rest, l + nlCount pre⟩, nextId := i }) := by
  have h1 := nextWord_struct_close pre rest l hpre
  have e1 := tryPopUnquoted_of_next h1 rfl
  simp [collectObjects, e1]

/-! ### sizes, ids -/

mutual
/-- number of printed items (definitions and `name {` headers) of a tree: a scope that merges its
    name into the name of its child has no header of its own -/
def Obj.items : Obj → Nat
  | .defn _ _ => 1
  | .scope _ os => if firstMerges os then itemsList os else 1 + itemsList os
def itemsList : List Obj → Nat
  | [] => 0
  | x :: xs => x.items + itemsList xs
end

mutual
/-- the `primary_id`s of a tree in document order (a scope before its children) -/
def Obj.ids : Obj → List (Option Nat)
  | .defn m _ => [m.id]
  | .scope m os => m.id :: idsList os
def idsList : List Obj → List (Option Nat)
  | [] => []
  | x :: xs => x.ids ++ idsList xs
end

mutual
/-- the ids the parser assigns when the first printed item of the tree is item number `i`: one id per
    printed item, in document order; the scopes of a dottedName chain share the id of the item -/
def expIds : Nat → Obj → List Nat
  | i, .defn _ _ => [i]
  | i, .scope _ os => i :: (if firstMerges os then expIdsSame i os else expIdsSeq (i + 1) os)
def expIdsSeq : Nat → List Obj → List Nat
  | _, [] => []
  | i, x :: xs => expIds i x ++ expIdsSeq (i + x.items) xs
def expIdsSame : Nat → List Obj → List Nat
  | _, [] => []
  | i, x :: xs => expIds i x ++ expIdsSame i xs
end

theorem nestIn_erase (id : Option Nat) (ms : List Str) (y : Obj) :
    ∀ b, (nestIn id b ms y).erase = nestIn none b ms y.erase := by
  induction ms with
  | nil => intro b; rfl
  | cons n ns ih =>
    intro b
    rw [nestIn, nestIn, Obj.erase_scope, eraseList_cons, eraseList_nil, ih]
    rfl

theorem nestIn_ids (id : Option Nat) (ms : List Str) (y : Obj) :
    ∀ b, (nestIn id b ms y).ids = List.replicate ms.length id ++ y.ids := by
  induction ms with
  | nil => intro b; rfl
  | cons n ns ih =>
    intro b
    rw [nestIn, Obj.ids, idsList, idsList, ih]
    simp [List.replicate_succ]

/-! ### the conditions on wrapped values -/

mutual
/-- the exact condition under which every printed value of the tree is read back at print width `w`:
    `wrapOK` for every definition, with the indentation and the (dottedName) name it is printed with -/
def WrapsOK (w : Int) : Obj → List Str → Str → Prop
  | .defn m ws, ms, ind =>
    wrapOK w (ind ++ defIndent (dottedName ms m.name)) ws (ind ++ defHead (dottedName ms m.name)) true = true
  | .scope m os, ms, ind =>
    if firstMerges os then WrapsOKs w os (ms ++ [m.name]) ind else WrapsOKs w os [] (deeper ind)
def WrapsOKs (w : Int) : List Obj → List Str → Str → Prop
  | [], _, _ => True
  | x :: xs, ms, ind => WrapsOK w x ms ind ∧ WrapsOKs w xs ms ind
end

theorem WrapsOKs_iff (w : Int) (os : List Obj) (ms : List Str) (ind : Str) :
    WrapsOKs w os ms ind ↔ ∀ y ∈ os, WrapsOK w y ms ind := by
  induction os with
  | nil => simp [WrapsOKs]
  | cons x xs ih => simp [WrapsOKs, ih]

/-! ### what may follow a value -/

/-- the first non-blank character of the text after a value does not continue the value -/
def NextOK (s : Str) : Prop :=
  ∀ c, firstNonSpace s = some c → isQuoteChar c = false ∧ c ≠ ';' ∧ c ≠ '#'

def Blank (ind : Str) : Prop := ∀ d ∈ ind, d = ' '

theorem Blank.isSpace {ind : Str} (h : Blank ind) : ∀ d ∈ ind, isSpace d = true := by
  intro d hd; rw [h d hd]; rfl

theorem Blank.nlCount {ind : Str} (h : Blank ind) : nlCount ind = 0 :=
  nlCount_of_no_nl ind (fun c hc => by rw [h c hc]; decide)

theorem Blank.deeper {ind : Str} (h : Blank ind) : Blank (deeper ind) := by
  intro d hd
  simp only [Phil.deeper, List.mem_append, List.mem_cons, List.not_mem_nil, or_false] at hd
  rcases hd with hd | rfl | rfl
  · exact h d hd
  · rfl
  · rfl

theorem firstNonSpace_skip_nested (sp rest : Str) (h : ∀ d ∈ sp, isSpace d = true) :
    firstNonSpace (sp ++ rest) = firstNonSpace rest := by
  induction sp with
  | nil => rfl
  | cons c cs ih =>
    have hc := h c (by simp)
    rw [List.cons_append, firstNonSpace, if_pos hc, ih (fun d hd => h d (by simp [hd]))]

theorem NextOK_nil : NextOK [] := by
  intro c hc; simp [firstNonSpace] at hc

theorem NextOK_close (ind rest : Str) (h : Blank ind) : NextOK (ind ++ '}' :: rest) := by
  intro c hc
  rw [firstNonSpace_skip_nested ind _ h.isSpace] at hc
  have hsp : isSpace '}' = false := by rfl
  simp only [firstNonSpace, hsp, Bool.false_eq_true, ↓reduceIte, Option.some.injEq] at hc
  subst hc
  exact ⟨by rfl, by decide, by decide⟩

theorem NextOK_name (ind nm rest : Str) (h : Blank ind) (hn : ItemName nm) :
    NextOK (ind ++ nm ++ rest) := by
  intro c hc
  obtain ⟨c0, w, e, hs, hall⟩ := hn.chars
  have hcont := idStart_cont hs
  rw [List.append_assoc, firstNonSpace_skip_nested ind _ h.isSpace, e] at hc
  simp only [List.cons_append, firstNonSpace, idCont_not_space hcont, Bool.false_eq_true, ↓reduceIte,
    Option.some.injEq] at hc
  subst hc
  obtain ⟨_, _, _, h4, h5, _⟩ := idCont_facts hcont
  exact ⟨idCont_not_quote hcont, h4, h5⟩

def GoodPath (ms : List Str) : Prop := ∀ n ∈ ms, goodName n = true

theorem GoodPath.snoc {ms : List Str} {n : Str} (h : GoodPath ms) (hn : goodName n = true) :
    GoodPath (ms ++ [n]) := by
  intro x hx
  simp only [List.mem_append, List.mem_singleton] at hx
  rcases hx with hx | rfl
  · exact h x hx
  · exact hn

theorem itemName_dotted {ms : List Str} {nm : Str} (hp : GoodPath ms) (hn : goodName nm = true)
    (hres : isReserved (dottedName ms nm) = false) : ItemName (dottedName ms nm) :=
  itemName_joined (ms ++ [nm]) (by simp) (hp.snoc hn) hres

/-- the text of a tree starts (after the indentation) with an item name -/
theorem NextOK_tree (w : Int) (x : Obj) :
    ∀ (ms : List Str) (ind more : Str), GoodPath ms → Blank ind → RTNode ms x →
      NextOK (treeText w x ms ind ++ more) := by
  induction x using Obj.rec
    (motive_2 := fun os => ∀ (ms : List Str) (ind more : Str), GoodPath ms → Blank ind →
      RTOne ms os → NextOK (kidsText w os ms ind ++ more)) with
  | defn m ws =>
    intro ms ind more hp hb h
    unfold RTNode at h
    obtain ⟨_, hn, hres, _⟩ := h
    rw [treeText]
    simp only [List.append_assoc]
    rw [← List.append_assoc]
    exact NextOK_name ind _ _ hb (itemName_dotted hp hn hres)
  | scope m os ih =>
    intro ms ind more hp hb h
    unfold RTNode at h
    obtain ⟨_, hn, hk⟩ := h
    rcases hk with ⟨hres, hk⟩ | hk
    · rw [treeText, hk.firstMerges]
      simp only [Bool.false_eq_true, ↓reduceIte, List.append_assoc]
      rw [← List.append_assoc]
      exact NextOK_name ind _ _ hb (itemName_dotted hp hn hres)
    · rw [treeText, hk.firstMerges]
      exact ih (ms ++ [m.name]) ind more (hp.snoc hn) hb hk
  | nil => rename_i ms ind more hp hb h; unfold RTOne at h; exact h.elim
  | cons x xs ihx ihxs =>
    rename_i ms ind more hp hb h
    unfold RTOne at h
    rw [kidsText, List.append_assoc]
    exact ihx ms ind _ hp hb h.1

theorem NextOK_kids (w : Int) (os : List Obj) (ind tail : Str) (hb : Blank ind) (h : RTAll os)
    (ht : NextOK tail) : NextOK (kidsText w os [] ind ++ tail) := by
  cases os with
  | nil => rw [kidsText]; exact ht
  | cons x xs =>
    unfold RTAll at h
    rw [kidsText, List.append_assoc]
    exact NextOK_tree w x [] ind _ (by intro n hn; simp at hn) hb h.1

/-- every tree of the class prints at least one item -/
theorem items_pos (x : Obj) : ∀ (ms : List Str), RTNode ms x → 1 ≤ x.items := by
  induction x using Obj.rec
    (motive_2 := fun os => ∀ (ms : List Str), RTOne ms os → 1 ≤ itemsList os) with
  | defn m ws => intro ms _; simp [Obj.items]
  | scope m os ih =>
    intro ms h
    unfold RTNode at h
    rcases h.2.2 with ⟨_, hk⟩ | hk
    · rw [Obj.items, hk.firstMerges]; simp
    · rw [Obj.items, hk.firstMerges]; simpa using ih _ hk
  | nil => rename_i ms h; unfold RTOne at h; exact h.elim
  | cons x xs ihx ihxs =>
    rename_i ms h
    unfold RTOne at h
    have := ihx ms h.1
    rw [itemsList]; omega

/-- every printed item takes at least one character -/
theorem items_le_text (w : Int) (x : Obj) :
    ∀ (ms : List Str) (ind : Str), x.items ≤ (treeText w x ms ind).length := by
  induction x using Obj.rec
    (motive_2 := fun os => ∀ (ms : List Str) (ind : Str),
      itemsList os ≤ (kidsText w os ms ind).length) with
  | defn m ws => intro ms ind; rw [treeText]; simp [Obj.items]; omega
  | scope m os ih =>
    intro ms ind
    rw [treeText, Obj.items]
    split
    · exact ih _ _
    · have := ih [] (deeper ind)
      simp only [List.length_append, List.length_cons]
      omega
  | nil => rename_i ms ind; simp [itemsList]
  | cons x xs ihx ihxs =>
    rename_i ms ind
    rw [kidsText, itemsList, List.length_append]
    have := ihx ms ind
    have := ihxs ms ind
    omega

/-! ### `collect_objects` on the printed text of a tree -/

/-- how the text of a block ends: with the end of the input (outermost level), or with the closing
    brace of the enclosing scope at some indentation, followed by `after` -/
def Closes (stop : Option Word) (tail after : Str) : Prop :=
  (stop = none ∧ tail = []) ∨ (∃ sw ind, stop = some sw ∧ Blank ind ∧ tail = ind ++ '}' :: after)

theorem Closes.nextOK {stop : Option Word} {tail after : Str} (h : Closes stop tail after) :
    NextOK tail := by
  rcases h with ⟨_, rfl⟩ | ⟨sw, ind, _, hb, rfl⟩
  · exact NextOK_nil
  · exact NextOK_close ind after hb

/-- one turn (with the recursive call, for a scope) of `collect_objects` over the printed text of the
    tree `x`: the object `x'` is added to the objects of the enclosing scope; it is `x` up to ids and
    source positions, wrapped into the chain `ms` -/
def StepAt (w : Int) (x : Obj) (ms : List Str) (ind : Str) : Prop :=
  ∀ (fuel : Nat) (pre more : Str) (l i : Nat) (stop : Option Word) (prevLine : Nat) (acc : List Obj)
    (pending : Option Obj),
    (∀ c ∈ pre, isSpace c = true) → x.items ≤ fuel → NextOK more →
    ∃ x' acc' pending' l' prevLine',
      collectObjects (fuel + 1) { ci := ⟨pre ++ treeText w x ms ind ++ more, l⟩, nextId := i } stop
          prevLine acc pending
        = collectObjects fuel { ci := ⟨'\n' :: more, l'⟩, nextId := i + x.items } stop prevLine' acc'
            pending' ∧
      flush acc' pending' = flush acc pending ++ [x'] ∧
      x'.erase = (nestIn none false ms x).erase ∧
      x'.ids = (List.replicate ms.length i ++ expIds i x).map some

def Step (w : Int) (x : Obj) : Prop :=
  ∀ (ms : List Str) (ind : Str), GoodPath ms → Blank ind → RTNode ms x → WrapsOK w x ms ind →
    StepAt w x ms ind

/-- `collect_objects` over the printed text of a block of trees up to its end -/
def BlockAt (w : Int) (os : List Obj) (ind : Str) : Prop :=
  ∀ (fuel : Nat) (pre tail after : Str) (l i : Nat) (stop : Option Word) (prevLine : Nat)
    (acc : List Obj) (pending : Option Obj),
    (∀ c ∈ pre, isSpace c = true) → itemsList os + 1 ≤ fuel → Closes stop tail after →
    ∃ objs' st',
      collectObjects fuel { ci := ⟨pre ++ kidsText w os [] ind ++ tail, l⟩, nextId := i } stop prevLine
          acc pending
        = .ok (flush acc pending ++ objs', st') ∧
      st'.nextId = i + itemsList os ∧ (stop.isSome = true → ∃ l', st'.ci = ⟨after, l'⟩) ∧
      eraseList objs' = eraseList os ∧ idsList objs' = (expIdsSeq i os).map some

/-- the end of a block -/
theorem block_nil (w : Int) (ind : Str) : BlockAt w [] ind := by
  intro fuel pre tail after l i stop prevLine acc pending hpre hf hc
  obtain ⟨f, rfl⟩ : ∃ f, fuel = f + 1 := ⟨fuel - 1, by simp [itemsList] at hf; omega⟩
  rw [kidsText, List.append_nil]
  rcases hc with ⟨rfl, rfl⟩ | ⟨sw, ind', rfl, hb, rfl⟩
  · refine ⟨[], { ci := ⟨pre ++ [], l⟩, nextId := i }, ?_, by simp [itemsList], by simp, rfl, rfl⟩
    rw [collectObjects_end f _ prevLine acc pending
      (by simpa [nextWord] using nextWordAux_blank_eof structSettings pre l hpre)]
    simp
  · have hsp : ∀ d ∈ pre ++ ind', isSpace d = true := by
      intro d hd
      rcases List.mem_append.mp hd with h | h
      · exact hpre d h
      · exact hb.isSpace d h
    refine ⟨[], { ci := ⟨after, l + nlCount (pre ++ ind')⟩, nextId := i }, ?_, by simp [itemsList],
      fun _ => ⟨_, rfl⟩, rfl, rfl⟩
    rw [← List.append_assoc, collectObjects_close f sw prevLine acc pending _ after l i hsp]
    simp

/-- a block: one turn per tree, then the end -/
theorem block_of_steps (w : Int) (os : List Obj) (ind : Str) (hb : Blank ind) :
    (∀ x ∈ os, StepAt w x [] ind) → RTAll os → BlockAt w os ind := by
  induction os with
  | nil => intro _ _; exact block_nil w ind
  | cons x xs ih =>
    intro hs hrt fuel pre tail after l i stop prevLine acc pending hpre hf hc
    have hrt' := hrt
    unfold RTAll at hrt'
    obtain ⟨f, rfl⟩ : ∃ f, fuel = f + 1 := ⟨fuel - 1, by omega⟩
    have hfx : x.items ≤ f := by simp only [itemsList] at hf; omega
    have hfxs : itemsList xs + 1 ≤ f := by
      simp only [itemsList] at hf
      have := items_pos x [] hrt'.1
      omega
    obtain ⟨x', acc', pending', l', prevLine', hstep, hflush, her, hid⟩ :=
      hs x (by simp) f pre (kidsText w xs [] ind ++ tail) l i stop prevLine acc pending hpre hfx
        (NextOK_kids w xs ind tail hb hrt'.2 hc.nextOK)
    obtain ⟨objs', st', hrest, hnid, hci, her', hid'⟩ :=
      ih (fun y hy => hs y (by simp [hy])) hrt'.2 f ['\n'] tail after l' (i + x.items) stop prevLine' acc'
        pending' space_nl hfxs hc
    refine ⟨x' :: objs', st', ?_, ?_, hci, ?_, ?_⟩
    · have e : pre ++ kidsText w (x :: xs) [] ind ++ tail
          = pre ++ treeText w x [] ind ++ (kidsText w xs [] ind ++ tail) := by
        rw [kidsText]; simp
      rw [e, hstep]
      have e2 : '\n' :: (kidsText w xs [] ind ++ tail) = ['\n'] ++ kidsText w xs [] ind ++ tail := rfl
      rw [e2, hrest, hflush]
      simp
    · rw [hnid, itemsList]; omega
    · rw [eraseList_cons, eraseList_cons, her', her]; rfl
    · rw [idsList, hid, hid', expIdsSeq]; simp

theorem GoodPath.noDots {ms : List Str} (h : GoodPath ms) : ∀ n ∈ ms, '.' ∉ n := by
  intro n hn
  obtain ⟨_, _, _, _, _, _, hd⟩ := goodName_cases (h n hn)
  exact hd

theorem PlainMetaPP.erase {mg : Bool} {m : Meta} (h : PlainMetaPP mg m) :
    m.erase = { name := m.name, mergeNames := mg } := by
  rw [h]; rfl

/-- the turn for a definition -/
theorem step_defn (w : Int) (m : Meta) (ws : List Word) : Step w (.defn m ws) := by
  intro ms ind hp hb h hw fuel pre more l i stop prevLine acc pending hpre hf hnext
  unfold RTNode at h
  obtain ⟨hm, hn, hres, hne, hgw⟩ := h
  unfold WrapsOK at hw
  have hit := itemName_dotted hp hn hres
  obtain ⟨c, wd, e, hs, hall⟩ := hit.chars
  have hcont := idStart_cont hs
  obtain ⟨_, _, _, _, h5, _, _, h8, _⟩ := idCont_facts hcont
  have hpre' : ∀ d ∈ pre ++ ind, isSpace d = true := by
    intro d hd
    rcases List.mem_append.mp hd with h | h
    · exact hpre d h
    · exact hb.isSpace d h
  have hnl : nlCount (pre ++ ind) = nlCount pre := by rw [nlCount_append, hb.nlCount, Nat.add_zero]
  have hindent : ∀ d ∈ ind ++ defIndent (dottedName ms m.name), d = ' ' := by
    intro d hd
    rcases List.mem_append.mp hd with h | h
    · exact hb d h
    · exact defIndent_blank _ d h
  have hci : (⟨pre ++ treeText w (.defn m ws) ms ind ++ more, l⟩ : CI)
      = ⟨(pre ++ ind) ++ (c :: wd) ++ ([' '] ++ '=' ::
          (wrapTail w (ind ++ defIndent (dottedName ms m.name)) ws (ind ++ defHead (dottedName ms m.name))
            ++ '\n' :: more)), l⟩ := by
    rw [treeText, ← e]; simp
  have h3 := collectAssigned_wrapped w (ind ++ defIndent (dottedName ms m.name))
    (ind ++ defHead (dottedName ms m.name)) ws more (l + nlCount (pre ++ ind) + nlCount [' '])
    { value := c :: wd, quote := none, line := some (l + nlCount (pre ++ ind)) } hindent hne hgw hw
    (by rw [nlCount_blank]; rfl) (by rw [isUnq_backslash]; simp [h8]) hnext
  have hstep := collectObjects_simple_defn fuel
    { ci := ⟨pre ++ treeText w (.defn m ws) ms ind ++ more, l⟩, nextId := i } stop prevLine acc pending
    (pre ++ ind) c wd [' '] _ l _ _ hci hpre' space_blank (fun x hx => idCont_not_ends (hall x hx))
    (idCont_not_quote hcont) h5 (by rw [← e]; exact hit.defName) h3
  refine ⟨wrapDotted (.defn { name := c :: wd, id := some i, line := some (l + nlCount (pre ++ ind)) }
      (wrapWords w (ind ++ defIndent (dottedName ms m.name)) ws (ind ++ defHead (dottedName ms m.name))
        (l + nlCount (pre ++ ind) + nlCount [' '])))
    , flush acc pending, _, _, _, hstep, by simp [flush, adopt], ?_, ?_⟩
  · rw [wrapDotted_dotted _ ms m.name (by rw [← e]; rfl)
      (fun n hn' => (hp.snoc hn).noDots n hn') rfl, nestIn_erase, nestIn_erase]
    simp only [Obj.withMeta, Obj.erase_defn, wrapWords_erase, hm.erase]
    rfl
  · rw [wrapDotted_dotted _ ms m.name (by rw [← e]; rfl)
      (fun n hn' => (hp.snoc hn).noDots n hn') rfl, nestIn_ids]
    simp [Obj.withMeta, Obj.ids, expIds, Obj.meta]

/-- the turn for a proper scope, given the recursive call for its body -/
theorem step_scope_proper (w : Int) (m : Meta) (os : List Obj) (ms : List Str) (ind : Str)
    (hp : GoodPath ms) (hb : Blank ind) (hm : PlainMetaPP (!ms.isEmpty) m) (hn : goodName m.name = true)
    (hres : isReserved (dottedName ms m.name) = false) (hk : RTAll os)
    (hbody : BlockAt w os (deeper ind)) : StepAt w (.scope m os) ms ind := by
  intro fuel pre more l i stop prevLine acc pending hpre hf hnext
  have hit := itemName_dotted hp hn hres
  have hfm := hk.firstMerges
  have hpre' : ∀ d ∈ pre ++ ind, isSpace d = true := by
    intro d hd
    rcases List.mem_append.mp hd with h | h
    · exact hpre d h
    · exact hb.isSpace d h
  have htext : pre ++ treeText w (.scope m os) ms ind ++ more
      = (pre ++ ind) ++ dottedName ms m.name ++ ' ' :: '{' ::
          (['\n'] ++ kidsText w os [] (deeper ind) ++ (ind ++ '}' :: ('\n' :: more))) := by
    rw [treeText, hfm]; simp
  have hfb : itemsList os + 1 ≤ fuel := by
    rw [Obj.items, hfm] at hf
    simp only [Bool.false_eq_true, ↓reduceIte] at hf
    omega
  obtain ⟨objs', st', hrun, hnid, hci, her, hid⟩ :=
    hbody fuel ['\n'] (ind ++ '}' :: ('\n' :: more)) ('\n' :: more) (l + nlCount (pre ++ ind)) (i + 1)
      (some { value := ['{'], quote := none, line := some (l + nlCount (pre ++ ind)) }) 0 [] none
      space_nl hfb (Or.inr ⟨_, ind, rfl, hb, rfl⟩)
  obtain ⟨l', hci'⟩ := hci rfl
  have hst : st' = { ci := ⟨'\n' :: more, l'⟩, nextId := i + (Obj.scope m os).items } := by
    cases st' with
    | mk ci nid =>
      simp only at hci' hnid
      rw [hci', hnid, Obj.items, hfm]
      simp only [Bool.false_eq_true, ↓reduceIte]
      congr 1
      omega
  let M : Meta := { name := dottedName ms m.name, id := some i, line := some (l + nlCount (pre ++ ind)) }
  refine ⟨wrapDotted (.scope M objs'), _, none, l', l + nlCount (pre ++ ind), ?_, rfl, ?_, ?_⟩
  · rw [htext, collectObjects_open_scope fuel stop prevLine acc pending (pre ++ ind) _ _ l i hpre' hit,
      hrun]
    simp only [flush, List.nil_append, scopeCont, adopt, hst]
    rfl
  · rw [wrapDotted_dotted _ ms m.name rfl (fun n hn' => (hp.snoc hn).noDots n hn') rfl, nestIn_erase,
      nestIn_erase]
    simp only [Obj.withMeta, Obj.erase_scope, her, hm.erase]
    rfl
  · rw [wrapDotted_dotted _ ms m.name rfl (fun n hn' => (hp.snoc hn).noDots n hn') rfl, nestIn_ids]
    simp [Obj.withMeta, Obj.ids, expIds, Obj.meta, hid, hfm]
    rfl

/-- the turn for a scope that merges its name into the name of its only child -/
theorem step_scope_chain (w : Int) (m : Meta) (c : Obj) (ms : List Str) (ind : Str)
    (hm : PlainMetaPP (!ms.isEmpty) m) (hfm : c.meta.mergeNames = true)
    (hc : StepAt w c (ms ++ [m.name]) ind) : StepAt w (.scope m [c]) ms ind := by
  intro fuel pre more l i stop prevLine acc pending hpre hf hnext
  have hfm' : firstMerges [c] = true := hfm
  have hfc : c.items ≤ fuel := by
    rw [Obj.items, hfm'] at hf
    simpa [itemsList] using hf
  obtain ⟨x', acc', pending', l', prevLine', hstep, hflush, her, hid⟩ :=
    hc fuel pre more l i stop prevLine acc pending hpre hfc hnext
  have htext : treeText w (.scope m [c]) ms ind = treeText w c (ms ++ [m.name]) ind := by
    rw [treeText, hfm']; simp [kidsText]
  have hitems : (Obj.scope m [c]).items = c.items := by
    rw [Obj.items, hfm']; simp [itemsList]
  refine ⟨x', acc', pending', l', prevLine', by rw [htext, hitems]; exact hstep, hflush, ?_, ?_⟩
  · rw [her, nestIn_snoc, nestIn_erase, nestIn_erase]
    simp only [Obj.erase_scope, hm.erase, Bool.false_or]
    rfl
  · rw [hid, expIds, hfm']
    simp [expIdsSame, List.replicate_succ']

/-- **every tree of the class is read back by one turn of `collect_objects`** -/
theorem step_all (w : Int) (x : Obj) : Step w x := by
  induction x using Obj.rec (motive_2 := fun os => ∀ y ∈ os, Step w y) with
  | defn m ws => exact step_defn w m ws
  | scope m os ih =>
    intro ms ind hp hb h hw
    unfold RTNode at h
    obtain ⟨hm, hn, hk⟩ := h
    rcases hk with ⟨hres, hk⟩ | hk
    · have hfm := hk.firstMerges
      unfold WrapsOK at hw
      rw [hfm] at hw
      simp only [Bool.false_eq_true, ↓reduceIte] at hw
      have hsteps : ∀ y ∈ os, StepAt w y [] (deeper ind) := fun y hy =>
        ih y hy [] (deeper ind) (by intro n hn; simp at hn) hb.deeper ((RTAll_iff os).mp hk y hy)
          ((WrapsOKs_iff w os [] (deeper ind)).mp hw y hy)
      exact step_scope_proper w m os ms ind hp hb hm hn hres hk
        (block_of_steps w os (deeper ind) hb.deeper hsteps hk)
    · have hfm := hk.firstMerges
      unfold WrapsOK at hw
      rw [hfm] at hw
      simp only [↓reduceIte] at hw
      cases os with
      | nil => unfold RTOne at hk; exact hk.elim
      | cons c cs =>
        unfold RTOne at hk
        obtain ⟨hc, rfl⟩ := hk
        unfold WrapsOKs at hw
        exact step_scope_chain w m c ms ind hm hfm
          (ih c (by simp) (ms ++ [m.name]) ind (hp.snoc hn) hb hc hw.1)
  | nil => rename_i y hy; simp at hy
  | cons x xs ihx ihxs =>
    rename_i y hy
    rcases List.mem_cons.mp hy with rfl | hy
    · exact ihx
    · exact ihxs y hy

/-! ### the whole document -/

theorem showObjs_all (o : ShowOpts) (hl : o.level ≤ 0) (os : List Obj) (ind : Str) (h : RTAll os) :
    ∃ lines, showObjs o os [] ind = .ok lines ∧ unlines lines = kidsText o.width os [] ind := by
  induction os with
  | nil => exact ⟨[], rfl, rfl⟩
  | cons x xs ih =>
    unfold RTAll at h
    obtain ⟨l1, e1, t1⟩ := showObj_tree o hl x [] ind h.1
    obtain ⟨l2, e2, t2⟩ := ih h.2
    refine ⟨l1 ++ l2, by rw [showObjs_cons, e1, e2]; rfl, ?_⟩
    rw [unlines_append, t1, t2, kidsText]

/-- printing the root scope of a document of trees -/
theorem asStr_trees (o : ShowOpts) (hl : o.level ≤ 0) (objs : List Obj) (h : RTAll objs) :
    asStr o (rootOf objs) = .ok (kidsText o.width objs [] []) := by
  obtain ⟨lines, e, t⟩ := showObjs_all o hl objs [] h
  rw [asStr_root, e]
  simp only [Except.map, t]

theorem itemsList_le_text (w : Int) (os : List Obj) (ms : List Str) (ind : Str) :
    itemsList os ≤ (kidsText w os ms ind).length := by
  induction os with
  | nil => simp [itemsList]
  | cons x xs ih =>
    rw [kidsText, itemsList, List.length_append]
    have := items_le_text w x ms ind
    omega

/-- `parse` of the printed text of a document of trees -/
theorem parseObjs_trees (w : Int) (objs : List Obj) (h : RTAll objs) (hw : WrapsOKs w objs [] []) :
    ∃ objs', parseObjs (kidsText w objs [] []) = .ok objs' ∧ eraseList objs' = eraseList objs ∧
      idsList objs' = (expIdsSeq 1 objs).map some := by
  have hblank : Blank [] := by intro d hd; simp at hd
  have hsteps : ∀ y ∈ objs, StepAt w y [] [] := fun y hy =>
    step_all w y [] [] (by intro n hn; simp at hn) hblank ((RTAll_iff objs).mp h y hy)
      ((WrapsOKs_iff w objs [] []).mp hw y hy)
  obtain ⟨objs', st', hrun, _, _, her, hid⟩ :=
    block_of_steps w objs [] hblank hsteps h ((kidsText w objs [] []).length + 2) [] [] [] 1 1 none 0
      [] none (by intro c hc; simp at hc)
      (by have := itemsList_le_text w objs [] []; omega) (Or.inl ⟨rfl, rfl⟩)
  refine ⟨objs', ?_, her, hid⟩
  unfold parseObjs
  simp only [List.nil_append, List.append_nil] at hrun
  rw [hrun]
  simp [flush]

/-! ### sufficient conditions for `WrapsOK` -/

mutual
/-- a property of the word list of every definition of a tree -/
def Obj.allDefns (P : List Word → Prop) : Obj → Prop
  | .defn _ ws => P ws
  | .scope _ os => allDefnsList P os
def allDefnsList (P : List Word → Prop) : List Obj → Prop
  | [] => True
  | x :: xs => x.allDefns P ∧ allDefnsList P xs
end

theorem allDefnsList_iff (P : List Word → Prop) (os : List Obj) :
    allDefnsList P os ↔ ∀ x ∈ os, x.allDefns P := by
  induction os with
  | nil => simp [allDefnsList]
  | cons x xs ih => simp [allDefnsList, ih]

/-- width-independent: in every definition only the last word may contain a newline -/
def NlOnlyLast (ws : List Word) : Prop := ∀ w ∈ ws.dropLast, '\n' ∉ w.value

theorem wrapsOK_of_nlOnlyLast (w : Int) (x : Obj) :
    ∀ (ms : List Str) (ind : Str), x.allDefns NlOnlyLast → WrapsOK w x ms ind := by
  induction x using Obj.rec
    (motive_2 := fun os => ∀ (ms : List Str) (ind : Str), allDefnsList NlOnlyLast os →
      WrapsOKs w os ms ind) with
  | defn m ws =>
    intro ms ind h
    unfold Obj.allDefns at h
    unfold WrapsOK
    exact wrapOK_of_noNl w _ ws _ true (fun _ => rfl) (fun v hv => nlCount_of_not_mem (h v hv))
  | scope m os ih =>
    intro ms ind h
    unfold Obj.allDefns at h
    unfold WrapsOK
    split
    · exact ih _ _ h
    · exact ih _ _ h
  | nil => rename_i ms ind h; unfold WrapsOKs; trivial
  | cons x xs ihx ihxs =>
    rename_i ms ind h
    unfold allDefnsList at h
    unfold WrapsOKs
    exact ⟨ihx ms ind h.1, ihxs ms ind h.2⟩

/-! ### no wrapping -/

theorem wraps_false_of_fits (w : Int) (indent line : Str) (wd : Word) (ws : List Word)
    (h : ((line ++ wordsText (wd :: ws)).length : Int) ≤ w - 2) : wraps w indent line wd = false := by
  have hlen : ¬ (((line ++ ' ' :: wd.str).length : Int) > w - 2) := by
    simp only [List.length_append, wordsText_length_cons, List.length_cons] at h ⊢
    omega
  simp only [wraps, hlen, decide_false, Bool.false_and]

theorem fits_step (w : Int) (line : Str) (wd : Word) (ws : List Word)
    (h : ((line ++ wordsText (wd :: ws)).length : Int) ≤ w - 2) :
    (((line ++ ' ' :: wd.str) ++ wordsText ws).length : Int) ≤ w - 2 := by
  have e : line ++ wordsText (wd :: ws) = (line ++ ' ' :: wd.str) ++ wordsText ws := by
    simp [wordsText]
  rw [← e]; exact h

/-- when the complete line fits nothing is wrapped -/
theorem wrapTail_nowrap (w : Int) (indent : Str) (ws : List Word) :
    ∀ line, ((line ++ wordsText ws).length : Int) ≤ w - 2 → wrapTail w indent ws line = wordsText ws := by
  induction ws with
  | nil => intro line _; rfl
  | cons wd ws ih =>
    intro line h
    rw [wrapTail, wraps_false_of_fits w indent line wd ws h, ih _ (fits_step w line wd ws h)]
    simp [wordsText]

theorem wrapOK_nowrap (w : Int) (indent : Str) (ws : List Word) :
    ∀ line same, ((line ++ wordsText ws).length : Int) ≤ w - 2 →
      wrapOK w indent ws line same = chainOK same ws := by
  induction ws with
  | nil => intro line same _; rfl
  | cons wd ws ih =>
    intro line same h
    rw [wrapOK, wraps_false_of_fits w indent line wd ws h, chainOK, ih _ _ (fits_step w line wd ws h)]
    simp

mutual
/-- every printed definition line (indentation, dottedName name, `=`, all words) fits into `w - 2` columns -/
def Fits (w : Int) : Obj → List Str → Str → Prop
  | .defn m ws, ms, ind => ((ind ++ defHead (dottedName ms m.name) ++ wordsText ws).length : Int) ≤ w - 2
  | .scope m os, ms, ind =>
    if firstMerges os then FitsAll w os (ms ++ [m.name]) ind else FitsAll w os [] (deeper ind)
def FitsAll (w : Int) : List Obj → List Str → Str → Prop
  | [], _, _ => True
  | x :: xs, ms, ind => Fits w x ms ind ∧ FitsAll w xs ms ind
end

mutual
/-- the text of a tree when nothing is wrapped -/
def flatText : Obj → List Str → Str → Str
  | .defn m ws, ms, ind => ind ++ dottedName ms m.name ++ [' ', '='] ++ wordsText ws ++ ['\n']
  | .scope m os, ms, ind =>
    if firstMerges os then flatKids os (ms ++ [m.name]) ind
    else ind ++ dottedName ms m.name ++ [' ', '{', '\n'] ++ flatKids os [] (deeper ind) ++ ind ++ ['}', '\n']
def flatKids : List Obj → List Str → Str → Str
  | [], _, _ => []
  | x :: xs, ms, ind => flatText x ms ind ++ flatKids xs ms ind
end

/-- no unquoted word directly after a word that contains a newline -/
def ChainOK (ws : List Word) : Prop := chainOK true ws = true

theorem fits_tree (w : Int) (x : Obj) :
    ∀ (ms : List Str) (ind : Str), Fits w x ms ind →
      treeText w x ms ind = flatText x ms ind ∧ (x.allDefns ChainOK → WrapsOK w x ms ind) := by
  induction x using Obj.rec
    (motive_2 := fun os => ∀ (ms : List Str) (ind : Str), FitsAll w os ms ind →
      kidsText w os ms ind = flatKids os ms ind ∧ (allDefnsList ChainOK os → WrapsOKs w os ms ind)) with
  | defn m ws =>
    intro ms ind h
    unfold Fits at h
    constructor
    · rw [treeText, flatText, wrapTail_nowrap w _ ws _ h]
    · intro hc
      unfold Obj.allDefns at hc
      unfold WrapsOK
      rw [wrapOK_nowrap w _ ws _ true h]
      exact hc
  | scope m os ih =>
    intro ms ind h
    unfold Fits at h
    rw [treeText, flatText]
    unfold WrapsOK Obj.allDefns
    split
    · rename_i hfm
      rw [if_pos hfm] at h
      exact ih _ _ h
    · rename_i hfm
      rw [if_neg hfm] at h
      obtain ⟨h1, h2⟩ := ih _ _ h
      exact ⟨by rw [h1], h2⟩
  | nil => rename_i ms ind h; exact ⟨rfl, fun _ => by unfold WrapsOKs; trivial⟩
  | cons x xs ihx ihxs =>
    rename_i ms ind h
    unfold FitsAll at h
    obtain ⟨a1, a2⟩ := ihx ms ind h.1
    obtain ⟨b1, b2⟩ := ihxs ms ind h.2
    refine ⟨by rw [kidsText, flatKids, a1, b1], fun hc => ?_⟩
    unfold allDefnsList at hc
    unfold WrapsOKs
    exact ⟨a2 hc.1, b2 hc.2⟩

/-! ### ids of trees without dottedName chains -/

mutual
/-- number of objects of a tree -/
def Obj.nodes : Obj → Nat
  | .defn _ _ => 1
  | .scope _ os => 1 + nodesList os
def nodesList : List Obj → Nat
  | [] => 0
  | x :: xs => x.nodes + nodesList xs
end

mutual
/-- no scope of the tree merges its name into the name of its first child -/
def Obj.noChains : Obj → Prop
  | .defn _ _ => True
  | .scope _ os => firstMerges os = false ∧ noChainsList os
def noChainsList : List Obj → Prop
  | [] => True
  | x :: xs => x.noChains ∧ noChainsList xs
end

/-- without dottedName chains every object is a printed item and the ids are `i, i+1, …` in document
    order -/
theorem expIds_noChains (x : Obj) :
    x.noChains → x.items = x.nodes ∧ ∀ i, expIds i x = List.range' i x.nodes := by
  induction x using Obj.rec
    (motive_2 := fun os => noChainsList os →
      itemsList os = nodesList os ∧ ∀ i, expIdsSeq i os = List.range' i (nodesList os)) with
  | defn m ws => intro _; exact ⟨rfl, fun i => rfl⟩
  | scope m os ih =>
    intro h
    unfold Obj.noChains at h
    obtain ⟨h1, h2⟩ := ih h.2
    refine ⟨by rw [Obj.items, Obj.nodes, h.1, ← h1]; rfl, fun i => ?_⟩
    rw [expIds, Obj.nodes, h.1, Nat.add_comm 1, List.range'_succ, ← h2]
    rfl
  | nil => exact ⟨rfl, fun i => rfl⟩
  | cons x xs ihx ihxs =>
    rename_i h
    unfold noChainsList at h
    obtain ⟨a1, a2⟩ := ihx h.1
    obtain ⟨b1, b2⟩ := ihxs h.2
    refine ⟨by rw [itemsList, nodesList, a1, b1], fun i => ?_⟩
    rw [expIdsSeq, nodesList, a2, b2, a1, ← List.range'_append_1]

/-! ### the predicates are decidable (used by the concrete examples, `decide +kernel`) -/

instance (mg : Bool) (m : Meta) : Decidable (PlainMetaPP mg m) := by unfold PlainMetaPP; exact inferInstance

mutual
def decRTNode : (ms : List Str) → (x : Obj) → Decidable (RTNode ms x)
  | ms, .defn m ws =>
    show Decidable (PlainMetaPP (!ms.isEmpty) m ∧ goodName m.name = true ∧
      isReserved (dottedName ms m.name) = false ∧ ws ≠ [] ∧ ∀ w ∈ ws, goodWord w = true) from inferInstance
  | ms, .scope m os =>
    have : Decidable (RTAll os) := decRTAll os
    have : Decidable (RTOne (ms ++ [m.name]) os) := decRTOne (ms ++ [m.name]) os
    show Decidable (PlainMetaPP (!ms.isEmpty) m ∧ goodName m.name = true ∧
      ((isReserved (dottedName ms m.name) = false ∧ RTAll os) ∨ RTOne (ms ++ [m.name]) os)) from inferInstance
def decRTAll : (os : List Obj) → Decidable (RTAll os)
  | [] => isTrue trivial
  | x :: xs =>
    have : Decidable (RTNode [] x) := decRTNode [] x
    have : Decidable (RTAll xs) := decRTAll xs
    show Decidable (RTNode [] x ∧ RTAll xs) from inferInstance
def decRTOne : (ms : List Str) → (os : List Obj) → Decidable (RTOne ms os)
  | _, [] => isFalse (fun h => h)
  | ms, x :: xs =>
    have : Decidable (RTNode ms x) := decRTNode ms x
    show Decidable (RTNode ms x ∧ xs = []) from inferInstance
end
instance (ms : List Str) (x : Obj) : Decidable (RTNode ms x) := decRTNode ms x

mutual
def decWrapsOK (w : Int) : (x : Obj) → (ms : List Str) → (ind : Str) → Decidable (WrapsOK w x ms ind)
  | .defn m ws, ms, ind =>
    show Decidable (wrapOK w (ind ++ defIndent (dottedName ms m.name)) ws
      (ind ++ defHead (dottedName ms m.name)) true = true) from inferInstance
  | .scope m os, ms, ind =>
    have : Decidable (WrapsOKs w os (ms ++ [m.name]) ind) := decWrapsOKs w os _ _
    have : Decidable (WrapsOKs w os [] (deeper ind)) := decWrapsOKs w os _ _
    show Decidable (if firstMerges os then WrapsOKs w os (ms ++ [m.name]) ind
      else WrapsOKs w os [] (deeper ind)) from inferInstance
def decWrapsOKs (w : Int) : (os : List Obj) → (ms : List Str) → (ind : Str) →
    Decidable (WrapsOKs w os ms ind)
  | [], _, _ => isTrue trivial
  | x :: xs, ms, ind =>
    have : Decidable (WrapsOK w x ms ind) := decWrapsOK w x ms ind
    have : Decidable (WrapsOKs w xs ms ind) := decWrapsOKs w xs ms ind
    show Decidable (WrapsOK w x ms ind ∧ WrapsOKs w xs ms ind) from inferInstance
end
instance (w : Int) (x : Obj) (ms : List Str) (ind : Str) : Decidable (WrapsOK w x ms ind) :=
  decWrapsOK w x ms ind

mutual
def decAllDefns (P : List Word → Prop) [DecidablePred P] : (x : Obj) → Decidable (x.allDefns P)
  | .defn _ ws => show Decidable (P ws) from inferInstance
  | .scope _ os => show Decidable (allDefnsList P os) from decAllDefnsList P os
def decAllDefnsList (P : List Word → Prop) [DecidablePred P] : (os : List Obj) →
    Decidable (allDefnsList P os)
  | [] => isTrue trivial
  | x :: xs =>
    have : Decidable (x.allDefns P) := decAllDefns P x
    have : Decidable (allDefnsList P xs) := decAllDefnsList P xs
    show Decidable (x.allDefns P ∧ allDefnsList P xs) from inferInstance
end
instance (P : List Word → Prop) [DecidablePred P] (x : Obj) : Decidable (x.allDefns P) := decAllDefns P x
instance : DecidablePred NlOnlyLast := fun ws => by unfold NlOnlyLast; exact inferInstance
instance : DecidablePred ChainOK := fun ws => by unfold ChainOK; exact inferInstance

mutual
def decFits (w : Int) : (x : Obj) → (ms : List Str) → (ind : Str) → Decidable (Fits w x ms ind)
  | .defn m ws, ms, ind =>
    show Decidable (((ind ++ defHead (dottedName ms m.name) ++ wordsText ws).length : Int) ≤ w - 2)
      from inferInstance
  | .scope m os, ms, ind =>
    have : Decidable (FitsAll w os (ms ++ [m.name]) ind) := decFitsAll w os _ _
    have : Decidable (FitsAll w os [] (deeper ind)) := decFitsAll w os _ _
    show Decidable (if firstMerges os then FitsAll w os (ms ++ [m.name]) ind
      else FitsAll w os [] (deeper ind)) from inferInstance
def decFitsAll (w : Int) : (os : List Obj) → (ms : List Str) → (ind : Str) →
    Decidable (FitsAll w os ms ind)
  | [], _, _ => isTrue trivial
  | x :: xs, ms, ind =>
    have : Decidable (Fits w x ms ind) := decFits w x ms ind
    have : Decidable (FitsAll w xs ms ind) := decFitsAll w xs ms ind
    show Decidable (Fits w x ms ind ∧ FitsAll w xs ms ind) from inferInstance
end
instance (w : Int) (x : Obj) (ms : List Str) (ind : Str) : Decidable (Fits w x ms ind) :=
  decFits w x ms ind

mutual
def decNoChains : (x : Obj) → Decidable x.noChains
  | .defn _ _ => isTrue trivial
  | .scope _ os =>
    have : Decidable (noChainsList os) := decNoChainsList os
    show Decidable (firstMerges os = false ∧ noChainsList os) from inferInstance
def decNoChainsList : (os : List Obj) → Decidable (noChainsList os)
  | [] => isTrue trivial
  | x :: xs =>
    have : Decidable x.noChains := decNoChains x
    have : Decidable (noChainsList xs) := decNoChainsList xs
    show Decidable (x.noChains ∧ noChainsList xs) from inferInstance
end
instance (x : Obj) : Decidable x.noChains := decNoChains x

end Phil
