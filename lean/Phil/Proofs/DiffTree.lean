/-
  Phil.Proofs.DiffTree — closed form of `scope.fetch(diff=True)` (fetch_diff) for NESTED masters whose
  definitions may be `.multiple` (`TreeMultiMaster`), and the laws of C08 derived from it.
  Combines Phil/Proofs/DiffSpec.lean (flat masters) with Phil/Proofs/FetchTreeMulti.lean (non-diff
  fetch of nested masters).
    1. specification `treeDiff` (`tdBlock`), `treeRestored` (`trBlock`), key hypothesis `KeysAll_dt`;
    2.–5. `diff_tree_total`: `fetchScope … true …` equals the specification (or the clash error), fuel
       `depthL mkids + 1 < fuel`;
    6. trees of blocks (`gTree_dt`): working set, difference and restored working set as instances of
       one construction; views, composition (`gTree_comp_self_dt`), well-formedness as a source;
    7. the laws on the specification: `treeDiff_working_dt`, `treeMultiResult_treeDiff_dt`,
       `treeDiff_treeRestored_dt`, minimality, no empty scopes, empty self-difference, `RestoredKids_dt`,
       exact restoration, restored values;
    8. the chain on `fetchScope` (`DiffTreeSetting`) and the entry point `fetchRoot`.
  All names of this file carry `_dt`, `td…`, `tr…`, `treeDiff`/`treeRestored` or `DiffTree`.
-/
import Phil.Proofs.DiffSpec
import Phil.Proofs.FetchTreeMulti
set_option linter.unusedVariables false
namespace Phil

/-! ## 1. specification -/

mutual
/-- the block one master object contributes to a difference, given the source objects at its level:
    a definition — `diffBlockL` over the enabled source definitions of its name (not `.multiple`: the
    candidate of the LAST one iff its key differs from the master definition's; `.multiple`: the
    survivors of the list rule, no template); a scope — itself with the difference of its children,
    rebuilt from the children of the enabled source scopes of its name, UNLESS that difference is
    empty: empty scopes are dropped -/
def tdBlock (e : Envs) : Obj → List Obj → List Obj
  | .defn mm mws, srcs => diffBlockL e 0 (.defn mm mws) (defsNamed mm.name srcs)
  | .scope mm kids, srcs =>
    if (treeDiff e kids (srcStep srcs mm.name)).isEmpty then []
    else [.scope { mm with tmpl := 0 } (treeDiff e kids (srcStep srcs mm.name))]
/-- **the difference**: the children of `master.fetch_diff(sources)` — the blocks of the master
    children, in master order -/
def treeDiff (e : Envs) : List Obj → List Obj → List Obj
  | [], _ => []
  | mo :: rest, srcs => tdBlock e mo srcs ++ treeDiff e rest srcs
end

mutual
/-- the block one master object contributes to `master.fetch(D)`, `D` the difference of the sources
    `srcs`: a definition — `restoredBlockL` (`.multiple`: the block of the working set itself;
    otherwise the working value, except that a working value whose key is the master's comes back as
    the master definition); a scope — itself, rebuilt -/
def trBlock (e : Envs) : Obj → List Obj → List Obj
  | .defn mm mws, srcs => restoredBlockL e 0 (.defn mm mws) (defsNamed mm.name srcs)
  | .scope mm kids, srcs => [.scope { mm with tmpl := 0 } (treeRestored e kids (srcStep srcs mm.name))]
/-- **the restored working set**: the children of `master.fetch(master.fetch_diff(sources))` -/
def treeRestored (e : Envs) : List Obj → List Obj → List Obj
  | [], _ => []
  | mo :: rest, srcs => trBlock e mo srcs ++ treeRestored e rest srcs
end

mutual
def KeysAllObj_dt (e : Envs) : Obj → List Obj → Prop
  | .defn mm mws, srcs => KeysDefined e 0 (.defn mm mws) (defsNamed mm.name srcs)
  | .scope mm kids, srcs => KeysAll_dt e kids (srcStep srcs mm.name)
/-- the keys a difference compares are defined at EVERY master definition (`.multiple` or not): the
    master's own and those of the candidates built from the enabled source definitions reached by
    its path -/
def KeysAll_dt (e : Envs) : List Obj → List Obj → Prop
  | [], _ => True
  | mo :: rest, srcs => KeysAllObj_dt e mo srcs ∧ KeysAll_dt e rest srcs
end

mutual
def keysAllObjB_dt (e : Envs) : Obj → List Obj → Bool
  | .defn mm mws, srcs => keysDefinedB e 0 (.defn mm mws) (defsNamed mm.name srcs)
  | .scope mm kids, srcs => keysAllB_dt e kids (srcStep srcs mm.name)
/-- executable form of `KeysAll_dt` -/
def keysAllB_dt (e : Envs) : List Obj → List Obj → Bool
  | [], _ => true
  | mo :: rest, srcs => keysAllObjB_dt e mo srcs && keysAllB_dt e rest srcs
end

/-! ## 2. list forms, projections -/

theorem treeDiff_eq_flatMap_dt (e : Envs) (srcs : List Obj) : ∀ (mkids : List Obj),
    treeDiff e mkids srcs = mkids.flatMap (fun mo => tdBlock e mo srcs)
  | [] => by rw [treeDiff]; rfl
  | mo :: rest => by rw [treeDiff, treeDiff_eq_flatMap_dt e srcs rest]; rfl

theorem treeRestored_eq_flatMap_dt (e : Envs) (srcs : List Obj) : ∀ (mkids : List Obj),
    treeRestored e mkids srcs = mkids.flatMap (fun mo => trBlock e mo srcs)
  | [] => by rw [treeRestored]; rfl
  | mo :: rest => by rw [treeRestored, treeRestored_eq_flatMap_dt e srcs rest]; rfl

theorem KeysAll_dt.obj {e : Envs} : ∀ {l : List Obj} {srcs : List Obj}, KeysAll_dt e l srcs →
    ∀ o ∈ l, KeysAllObj_dt e o srcs
  | [], _, _, o, ho => by cases ho
  | a :: os, srcs, h, o, ho => by
    rw [KeysAll_dt] at h
    rw [List.mem_cons] at ho
    rcases ho with rfl | ho
    · exact h.1
    · exact KeysAll_dt.obj h.2 o ho

mutual
theorem KeysAllObj_dt.toMulti {e : Envs} : ∀ {mo : Obj} {srcs : List Obj}, KeysAllObj_dt e mo srcs →
    KeysDefinedObj e mo srcs
  | .defn mm mws, srcs, h => by
    rw [KeysAllObj_dt] at h
    rw [KeysDefinedObj]
    exact fun _ => h
  | .scope mm kids, srcs, h => by
    rw [KeysAllObj_dt] at h
    rw [KeysDefinedObj]
    exact KeysAll_dt.toMulti h
/-- the key hypothesis of the difference covers the one of the non-diff fetch -/
theorem KeysAll_dt.toMulti {e : Envs} : ∀ {l : List Obj} {srcs : List Obj}, KeysAll_dt e l srcs →
    KeysDefinedTree e l srcs
  | [], _, _ => by rw [KeysDefinedTree]; trivial
  | mo :: rest, srcs, h => by
    rw [KeysAll_dt] at h
    rw [KeysDefinedTree]
    exact ⟨KeysAllObj_dt.toMulti h.1, KeysAll_dt.toMulti h.2⟩
end

mutual
theorem keysAllObjB_dt_sound (e : Envs) : ∀ (mo : Obj) (srcs : List Obj),
    keysAllObjB_dt e mo srcs = true → KeysAllObj_dt e mo srcs
  | .defn mm mws, srcs, h => by
    rw [keysAllObjB_dt] at h
    rw [KeysAllObj_dt]
    exact keysDefined_of_B h
  | .scope mm kids, srcs, h => by
    rw [keysAllObjB_dt] at h
    rw [KeysAllObj_dt]
    exact keysAllB_dt_sound e kids _ h
theorem keysAllB_dt_sound (e : Envs) : ∀ (l : List Obj) (srcs : List Obj),
    keysAllB_dt e l srcs = true → KeysAll_dt e l srcs
  | [], _, _ => by rw [KeysAll_dt]; trivial
  | mo :: rest, srcs, h => by
    rw [keysAllB_dt, Bool.and_eq_true] at h
    rw [KeysAll_dt]
    exact ⟨keysAllObjB_dt_sound e mo srcs h.1, keysAllB_dt_sound e rest srcs h.2⟩
end

/-! ## 3. the blocks of a definition do not depend on the fuel of the keys -/

theorem activeNamed_defsNamed_dt (n : Str) (l : List Obj) : activeNamed n (defsNamed n l) = defsNamed n l := by
  unfold activeNamed
  rw [List.filter_eq_self]
  intro o ho
  have h := mem_defsNamed.mp ho
  simp [h.2.2.1, h.2.2.2]

theorem survivorsOf_fuel_dt (e : Envs) (fuel : Nat) (mm : Meta) (mws : List Word) (l : List Obj) :
    survivorsOf (keyOf e fuel (.defn mm mws) (.defn mm mws)) (candsOf e fuel (.defn mm mws) l) =
      survivorsOf (keyOf e 0 (.defn mm mws) (.defn mm mws)) (candsOf e 0 (.defn mm mws) l) := by
  rw [candsOf_fuel_tm, keyOf_self_fuel_tm]

theorem diffBlockL_fuel_dt (e : Envs) (fuel : Nat) (mm : Meta) (mws : List Word) (l : List Obj) :
    diffBlockL e fuel (.defn mm mws) l = diffBlockL e 0 (.defn mm mws) l := by
  unfold diffBlockL
  rw [survivorsOf_fuel_dt, keyOf_self_fuel_tm e fuel]
  cases l.getLast? with
  | none => rfl
  | some d => simp only [keyOf_cand_fuel_tm e fuel]

/-! ## 4. one step of the master loop in diff mode, sources of any kind -/

theorem defnOne_scope_incompatible_dt (e : Envs) (fuel : Nat) (diff : Bool) (mm : Meta) (mws : List Word)
    (m : Meta) (k : List Obj) (acc : Option Obj × List Nat) :
    defnOne e fuel diff (.defn mm mws) acc (.scope m k) = .error incompatibleErr := by
  unfold defnOne fetchDefn
  rfl

theorem defnOne_diff_ok_dt (e : Envs) (f : Nat) (mm : Meta) (mws : List Word) (hp : DefnMeta mm)
    (sm : Meta) (sws : List Word) (hok : SrcOK (.defn sm sws)) (k0 k : Str)
    (hk0 : extractFormatStr e (f + 1 + 64) (.defn mm mws) (.defn mm mws) = .ok k0)
    (hk : extractFormatStr e (f + 1 + 64) (.defn mm mws) (candOfSrc (.defn mm mws) (.defn sm sws)) = .ok k)
    (acc : Option Obj × List Nat) :
    ∃ b', defnOne e (f + 1) true (.defn mm mws) acc (.defn sm sws) = .ok b' := by
  unfold defnOne
  rw [fetchDefn_diff e f mm mws sm sws hp hok k0 k hk0 hk]
  exact ⟨_, rfl⟩

/-- the step of the master loop, diff mode, for a non-multiple master definition: the candidate of
    the last enabled source definition of its name iff its key is not the master's — or the clash
    error if there is an enabled source scope of its name -/
theorem stepG_plain_diff_dt (F : FetchFn) (e : Envs) (f : Nat) (sm : Meta)
    (mkids combined : List Obj) (st : List Obj × List Nat) (idx : Nat) (mm : Meta) (mws : List Word)
    (hp : DefnMeta mm) (hmult : isMultiple (.defn mm mws) = false)
    (hmatch : fetchMatching (f + 1) sm combined (.defn mm mws) = activeNamed mm.name combined)
    (hsrc : ∀ o ∈ combined, o.meta.disabled = false → o.isDefn = true → SrcOK o)
    (hkeys : KeysDefined e 0 (.defn mm mws) (defsNamed mm.name combined)) :
    stepG F e (f + 1) true sm mkids combined st (idx, .defn mm mws) =
      if noClashObj (.defn mm mws) combined then
        .ok (st.1 ++ tdBlock e (.defn mm mws) combined, st.2 ++ treeUsedObj (.defn mm mws) combined)
      else .error incompatibleErr := by
  have hkeys' := keysDefined_fuel_tm e (f + 1) mm mws _ hkeys
  rw [noClashObj, tdBlock, treeUsedObj]
  cases hsc : scopesNamed mm.name combined with
  | nil =>
    simp only [List.isEmpty_nil, if_true]
    have hm : fetchMatching (f + 1) sm combined (.defn mm mws) =
        activeNamed mm.name (defsNamed mm.name combined) := by
      rw [hmatch, activeNamed_eq_defsNamed _ _ hsc, activeNamed_defsNamed_dt]
    rw [diff_plain_step F e f sm mkids combined (defsNamed mm.name combined) st idx mm mws hp hmult hm
      (fun o ho => (mem_defsNamed.mp ho).2.1)
      (fun o ho => hsrc o (mem_defsNamed.mp ho).1 (mem_defsNamed.mp ho).2.2.1 (mem_defsNamed.mp ho).2.1)
      (by rw [activeNamed_defsNamed_dt]; exact hkeys'),
      activeNamed_defsNamed_dt, diffBlockL_fuel_dt]
  | cons sc rest =>
    simp only [List.isEmpty_cons, Bool.false_eq_true, if_false]
    have hmem : sc ∈ scopesNamed mm.name combined := by rw [hsc]; exact List.mem_cons_self
    have hs := mem_scopesNamed.mp hmem
    obtain ⟨⟨k0, hk0⟩, hcand⟩ := hkeys'
    cases sc with
    | defn m ws => cases hs.2.1
    | scope m k =>
      unfold stepG
      simp only [hmult, Bool.not_false, if_true]
      rw [hmatch, foldlM_error_of_mem (defnOne e (f + 1) true (.defn mm mws)) incompatibleErr
          (activeNamed mm.name combined)]
      · rfl
      · intro a ha b
        have ha' := mem_activeNamed.mp ha
        cases a with
        | scope m' k' => exact .inr (defnOne_scope_incompatible_dt e (f + 1) true mm mws m' k' b)
        | defn dm dws =>
          obtain ⟨kk, hkk⟩ := hcand _ (mem_defsNamed.mpr ⟨ha'.1, rfl, ha'.2.1, ha'.2.2⟩)
          exact .inl (defnOne_diff_ok_dt e f mm mws hp dm dws (hsrc _ ha'.1 ha'.2.1 rfl) k0 kk hk0 hkk b)
      · exact ⟨.scope m k, mem_activeNamed.mpr ⟨hs.1, hs.2.2.1, hs.2.2.2⟩,
          fun b => defnOne_scope_incompatible_dt e (f + 1) true mm mws m k b⟩

theorem cstepG_scope_incompatible_diff_dt (F : FetchFn) (e : Envs) (fuel : Nat) (mm : Meta) (mws : List Word)
    (k0 : Str) (m : Meta) (k : List Obj) (acc : CAcc) :
    cstepG F e fuel true (.defn mm mws) k0 acc (false, .scope m k) = .error incompatibleErr := by
  unfold cstepG candOf fetchDefn
  rfl

/-- the step of the master loop, diff mode, for a `.multiple` master definition without further master
    occurrences: the survivors of the list rule over the enabled source definitions of its name, no
    template — or the clash error if there is an enabled source scope of its name -/
theorem stepG_multi_diff_dt (F : FetchFn) (e : Envs) (f : Nat) (sm : Meta)
    (mkids combined : List Obj) (st : List Obj × List Nat) (idx : Nat) (mm : Meta) (mws : List Word)
    (hp : DefnMeta mm) (hmult : isMultiple (.defn mm mws) = true)
    (hfm : fromMasterOf mkids idx (.defn mm mws) = [])
    (hmatch : fetchMatching (f + 1) sm combined (.defn mm mws) = activeNamed mm.name combined)
    (hsrc : ∀ o ∈ combined, o.meta.disabled = false → o.isDefn = true → SrcOK o)
    (hkeys : KeysDefined e 0 (.defn mm mws) (defsNamed mm.name combined)) :
    stepG F e (f + 1) true sm mkids combined st (idx, .defn mm mws) =
      if noClashObj (.defn mm mws) combined then
        .ok (st.1 ++ tdBlock e (.defn mm mws) combined, st.2 ++ treeUsedObj (.defn mm mws) combined)
      else .error incompatibleErr := by
  obtain ⟨⟨k0, hk0⟩, hcand⟩ := keysDefined_fuel_tm e (f + 1) mm mws _ hkeys
  rw [noClashObj, tdBlock, treeUsedObj]
  have hlink : ∀ d ∈ defsNamed mm.name combined,
      CandLink e (f + 1) (.defn mm mws) d
        (candOfSrc (.defn mm mws) d, keyOf e (f + 1) (.defn mm mws) (candOfSrc (.defn mm mws) d)) := by
    intro d hd
    have hd' := mem_defsNamed.mp hd
    obtain ⟨k, hk⟩ := hcand d hd
    cases d with
    | scope m k => cases hd'.2.1
    | defn dm dws =>
      exact ⟨fetchValue_defnMeta mm mws dm dws hp (hsrc _ hd'.1 hd'.2.2.1 rfl), by rw [keyOf_ok hk]; exact hk⟩
  cases hsc : scopesNamed mm.name combined with
  | nil =>
    simp only [List.isEmpty_nil, if_true]
    have hm : fetchMatching (f + 1) sm combined (.defn mm mws) = defsNamed mm.name combined := by
      rw [hmatch, activeNamed_eq_defsNamed _ _ hsc]
    have hl : Forall2 (fun ms ck => CandLink e (f + 1) (.defn mm mws) ms ck ∧ ∃ cm cws, ck.1 = .defn cm cws)
        (fetchMatching (f + 1) sm combined (.defn mm mws))
        (candsOf e (f + 1) (.defn mm mws) (defsNamed mm.name combined)) := by
      rw [hm]
      apply forall2_map
      intro d hd
      exact ⟨hlink d hd, _, _, rfl⟩
    rw [diff_multi_step F e f sm mkids combined st idx mm mws k0 _ hmult hfm hk0 hl, hm]
    unfold diffBlockL
    rw [hmult, ← keyOf_ok hk0, survivorsOf_fuel_dt]
    rfl
  | cons sc rest =>
    simp only [List.isEmpty_cons, Bool.false_eq_true, if_false]
    have hmem : sc ∈ scopesNamed mm.name combined := by rw [hsc]; exact List.mem_cons_self
    have hs := mem_scopesNamed.mp hmem
    cases sc with
    | defn m ws => cases hs.2.1
    | scope m k =>
      unfold stepG
      simp only [hmult, Bool.not_true, Bool.false_eq_true, if_false]
      unfold multiBranch
      rw [masterKeyG_defn, hk0, hfm, List.nil_append, hmatch]
      simp only
      rw [foldlM_error_of_mem (cstepG F e (f + 1) true (.defn mm mws) k0) incompatibleErr]
      · intro a ha b
        obtain ⟨o, ho, rfl⟩ := List.mem_map.mp ha
        have ho' := mem_activeNamed.mp ho
        cases o with
        | scope m' k' => exact .inr (cstepG_scope_incompatible_diff_dt F e (f + 1) mm mws k0 m' k' b)
        | defn dm dws =>
          have hd : Obj.defn dm dws ∈ defsNamed mm.name combined :=
            mem_defsNamed.mpr ⟨ho'.1, rfl, ho'.2.1, ho'.2.2⟩
          rw [cstepG_diff_src F e f mm mws k0 _ _ (hlink _ hd) ⟨_, _, rfl⟩ hk0 b]
          exact .inl (cstepG_defn_ok_tm F e (f + 1) mm mws hp k0 dm dws (hsrc _ ho'.1 ho'.2.1 rfl)
            (hcand _ hd) b)
      · exact ⟨(false, .scope m k),
          List.mem_map.mpr ⟨_, mem_activeNamed.mpr ⟨hs.1, hs.2.2.1, hs.2.2.2⟩, rfl⟩,
          fun b => cstepG_scope_incompatible_diff_dt F e (f + 1) mm mws k0 m k b⟩

/-- the step, diff mode, for a non-multiple master scope, given the value of the callee on the next
    level: the scope with the difference of its children — dropped if that difference is empty -/
theorem stepG_scope_diff_dt (F : FetchFn) (e : Envs) (fuel : Nat) (sm : Meta)
    (mkids combined : List Obj) (st : List Obj × List Nat) (idx : Nat) (mm : Meta) (kids : List Obj)
    (hmult : (mm.attrs.get "multiple").truthy = false)
    (hmatch : fetchMatching fuel sm combined (.scope mm kids) = activeNamed mm.name combined)
    (hF : F true mm kids (srcStep combined mm.name) =
      if noClash kids (srcStep combined mm.name) then
        .ok (.scope { mm with tmpl := 0 } (treeDiff e kids (srcStep combined mm.name)),
             treeUsed kids (srcStep combined mm.name))
      else .error incompatibleErr) :
    stepG F e fuel true sm mkids combined st (idx, .scope mm kids) =
      if noClashObj (.scope mm kids) combined then
        .ok (st.1 ++ tdBlock e (.scope mm kids) combined, st.2 ++ treeUsedObj (.scope mm kids) combined)
      else .error incompatibleErr := by
  have hm : isMultiple (.scope mm kids) = false := hmult
  have hstep : stepG F e fuel true sm mkids combined st (idx, .scope mm kids) =
      scopeBranch F true mm kids (activeNamed mm.name combined) st.1 st.2 := by
    unfold stepG
    simp only [hm, Bool.not_false, if_true]
    rw [hmatch]
  rw [hstep, noClashObj, tdBlock, treeUsedObj]
  unfold scopeBranch
  cases hdn : defsNamed mm.name combined with
  | nil =>
    rw [find_isDefn_activeNamed_none _ _ hdn, activeNamed_children_tree, hF]
    simp only [List.isEmpty_nil, Bool.true_and]
    cases noClash kids (srcStep combined mm.name) with
    | true =>
      simp only [if_true, Obj.children]
      split
      · rename_i h; simp [h]
      · rename_i h; simp [h]
    | false => simp
  | cons d rest =>
    obtain ⟨x, hx⟩ := find_isDefn_activeNamed_some mm.name combined (by rw [hdn]; exact List.cons_ne_nil _ _)
    rw [hx]
    simp only [List.isEmpty_cons, Bool.false_and, Bool.false_eq_true, if_false]
    rfl

/-! ## 5. the whole difference -/

/-- **closed form of the difference of a nested master whose definitions may be `.multiple`**
    (`scope.fetch(diff=True)`, i.e. `fetch_diff`): with fuel beyond the nesting depth PLUS ONE (the
    diff branch of `definition.fetch` renders with the fuel of its loop iteration, which must be
    positive at the deepest level) and defined keys, the difference succeeds exactly when there is no
    clash of kinds (`noClash`); its children are `treeDiff`, the consumed ids are those of the
    non-diff fetch (`treeMultiUsed` = `treeUsed`); a clash makes it fail with RuntimeError
    ("incompatible"). -/
theorem diff_tree_total (e : Envs) : ∀ (fuel : Nat) (sm : Meta) (mkids srcs : List Obj),
    TreeMultiMaster mkids → depthL mkids + 1 < fuel → sm.disabled = false → SrcTree srcs →
    KeysAll_dt e mkids srcs →
    fetchScope e fuel true sm mkids srcs =
      if noClash mkids srcs then
        .ok (.scope { sm with tmpl := 0 } (treeDiff e mkids srcs), treeMultiUsed mkids srcs)
      else .error incompatibleErr := by
  intro fuel
  induction fuel with
  | zero => intro sm mkids srcs _ hd; exact absurd hd (Nat.not_lt_zero _)
  | succ fuel ih =>
    intro sm mkids srcs hf hdepth hsd hsrc hkeys
    obtain ⟨f, rfl⟩ : ∃ f, fuel = f + 1 := ⟨fuel - 1, by omega⟩
    rw [fetchScope_succ, masterActive_tm mkids hf]
    simp only
    have hsc : ∀ m kids, Obj.scope m kids ∈ srcs → m.disabled = false → m.name ≠ [] :=
      fun m kids hm hd => hsrc.named m kids (.here hm hd)
    have hok : ∀ o ∈ srcs, o.meta.disabled = false → o.isDefn = true → SrcOK o :=
      fun o ho hd hdef => hsrc.ok o (.here ho hd) hdef
    rw [foldlM_cond_tree _ (fun io => noClashObj io.2 srcs) (fun io => tdBlock e io.2 srcs)
      (fun io => treeUsedObj io.2 srcs) incompatibleErr]
    · have hall : (indexed mkids).all (fun io => noClashObj io.2 srcs) = noClash mkids srcs := by
        rw [noClash_eq_all]
        conv => rhs; rw [← indexed_map_snd mkids]
        rw [List.all_map]
        rfl
      rw [hall]
      cases noClash mkids srcs with
      | false => rfl
      | true =>
        simp only [if_true, List.nil_append]
        unfold fetchFinish treeMultiUsed
        rw [flatMap_snd (fun mo => tdBlock e mo srcs),
          flatMap_snd (fun mo => treeUsedObj mo srcs), indexed_map_snd,
          ← treeDiff_eq_flatMap_dt, ← treeUsed_eq_flatMap]
    · intro st a ha
      have hmem : a.2 ∈ mkids := by rw [← indexed_map_snd mkids]; exact List.mem_map.mpr ⟨a, ha, rfl⟩
      have hto := hf.obj _ hmem
      have hko := hkeys.obj _ hmem
      have hmatch := fetchMatching_tree (f + 1) sm srcs a.2 hsd hto.name_ne hto.dotfree hsc
      obtain ⟨i, mo⟩ := a
      simp only at hmem hto hmatch hko ⊢
      cases mo with
      | defn mm mws =>
        rw [TMObj] at hto
        rw [KeysAllObj_dt] at hko
        cases hmult : isMultiple (.defn mm mws) with
        | false => exact stepG_plain_diff_dt _ e f sm mkids srcs st i mm mws hto.1 hmult hmatch hok hko
        | true =>
          exact stepG_multi_diff_dt _ e f sm mkids srcs st i mm mws hto.1 hmult
            (fromMasterOf_nil mkids hf.distinct i _ ha) hmatch hok hko
      | scope mm kids =>
        have hkids := TreeMultiMaster.of_scope hto
        have hd1 := depthT_le_depthL mkids _ hmem
        rw [depthT] at hd1
        rw [TMObj] at hto
        rw [KeysAllObj_dt] at hko
        exact stepG_scope_diff_dt _ e (f + 1) sm mkids srcs st i mm kids hto.1 hmatch
          (ih mm kids (srcStep srcs mm.name) hkids (by omega) hto.2.2.2.1 (hsrc.step mm.name) hko)

/-! ## 6. trees of blocks

The working set (`treeMultiResult`), the difference (`treeDiff`) and the restored working set
(`treeRestored`) are three instances of one construction: a tree rebuilt along the master from a
per-definition block function, scopes with an empty content dropped or not. -/

/-- a block function: master definition, enabled source definitions of its name ↦ result objects -/
abbrev DefBlock_dt := Obj → List Obj → List Obj

mutual
def gBlock_dt (B : DefBlock_dt) (drop : Bool) : Obj → List Obj → List Obj
  | .defn mm mws, srcs => B (.defn mm mws) (defsNamed mm.name srcs)
  | .scope mm kids, srcs =>
    if drop && (gTree_dt B drop kids (srcStep srcs mm.name)).isEmpty then []
    else [.scope { mm with tmpl := 0 } (gTree_dt B drop kids (srcStep srcs mm.name))]
def gTree_dt (B : DefBlock_dt) (drop : Bool) : List Obj → List Obj → List Obj
  | [], _ => []
  | mo :: rest, srcs => gBlock_dt B drop mo srcs ++ gTree_dt B drop rest srcs
end

theorem gTree_eq_flatMap_dt (B : DefBlock_dt) (drop : Bool) (srcs : List Obj) : ∀ (mkids : List Obj),
    gTree_dt B drop mkids srcs = mkids.flatMap (fun mo => gBlock_dt B drop mo srcs)
  | [] => by rw [gTree_dt]; rfl
  | mo :: rest => by rw [gTree_dt, gTree_eq_flatMap_dt B drop srcs rest]; rfl

mutual
theorem tmBlock_eq_gBlock_dt (e : Envs) : ∀ (mo : Obj) (srcs : List Obj),
    tmBlock e mo srcs = gBlock_dt (blockL e 0) false mo srcs
  | .defn mm mws, srcs => by rw [tmBlock, gBlock_dt]; rfl
  | .scope mm kids, srcs => by
    rw [tmBlock, gBlock_dt, treeMultiResult_eq_gTree_dt e kids]
    simp
theorem treeMultiResult_eq_gTree_dt (e : Envs) : ∀ (l : List Obj) (srcs : List Obj),
    treeMultiResult e l srcs = gTree_dt (blockL e 0) false l srcs
  | [], srcs => by rw [treeMultiResult, gTree_dt]
  | mo :: rest, srcs => by
    rw [treeMultiResult, gTree_dt, tmBlock_eq_gBlock_dt e mo srcs, treeMultiResult_eq_gTree_dt e rest srcs]
end

mutual
theorem tdBlock_eq_gBlock_dt (e : Envs) : ∀ (mo : Obj) (srcs : List Obj),
    tdBlock e mo srcs = gBlock_dt (diffBlockL e 0) true mo srcs
  | .defn mm mws, srcs => by rw [tdBlock, gBlock_dt]
  | .scope mm kids, srcs => by
    rw [tdBlock, gBlock_dt, treeDiff_eq_gTree_dt e kids]
    simp
theorem treeDiff_eq_gTree_dt (e : Envs) : ∀ (l : List Obj) (srcs : List Obj),
    treeDiff e l srcs = gTree_dt (diffBlockL e 0) true l srcs
  | [], srcs => by rw [treeDiff, gTree_dt]
  | mo :: rest, srcs => by
    rw [treeDiff, gTree_dt, tdBlock_eq_gBlock_dt e mo srcs, treeDiff_eq_gTree_dt e rest srcs]
end

mutual
theorem trBlock_eq_gBlock_dt (e : Envs) : ∀ (mo : Obj) (srcs : List Obj),
    trBlock e mo srcs = gBlock_dt (restoredBlockL e 0) false mo srcs
  | .defn mm mws, srcs => by rw [trBlock, gBlock_dt]
  | .scope mm kids, srcs => by
    rw [trBlock, gBlock_dt, treeRestored_eq_gTree_dt e kids]
    simp
theorem treeRestored_eq_gTree_dt (e : Envs) : ∀ (l : List Obj) (srcs : List Obj),
    treeRestored e l srcs = gTree_dt (restoredBlockL e 0) false l srcs
  | [], srcs => by rw [treeRestored, gTree_dt]
  | mo :: rest, srcs => by
    rw [treeRestored, gTree_dt, trBlock_eq_gBlock_dt e mo srcs, treeRestored_eq_gTree_dt e rest srcs]
end

/-- what the analysis needs of a block function: its objects are definitions named and enabled like
    the master definition; they are fit to be fetched again (`SrcOK`); the candidates built from them
    are the master definition or candidates of the original sources (`CandClosed`) -/
structure GoodFam_dt (B : DefBlock_dt) : Prop where
  basic : ∀ mm mws l, ∀ o ∈ B (.defn mm mws) l,
    o.name = mm.name ∧ o.meta.disabled = mm.disabled ∧ o.isDefn = true
  srcOK : ∀ mm mws l, mm.varRes = none → hasDollar mws = false →
    (∀ d ∈ l, hasDollar d.srcWords = false) → ∀ o ∈ B (.defn mm mws) l, SrcOK o
  closed : ∀ mm mws l, mm.tmpl = 0 → mm.varRes = none →
    ∀ o ∈ B (.defn mm mws) l, CandClosed (.defn mm mws) l o

theorem mem_blockL_dt {e : Envs} {f : Nat} {mm : Meta} {mws : List Word} {l : List Obj} {o : Obj}
    (ho : o ∈ blockL e f (.defn mm mws) l) :
    (∃ t, o = withTmpl (.defn mm mws) t) ∨ (∃ d ∈ l, o = candOfSrc (.defn mm mws) d) ∨
      o = lastWins (.defn mm mws) l := by
  unfold blockL at ho
  split at ho
  · rcases mem_multiBlock_tm ho with h | h
    · exact .inl h
    · exact .inr (.inl h)
  · exact .inr (.inr (List.mem_singleton.mp ho))

theorem goodFam_blockL_dt (e : Envs) (f : Nat) : GoodFam_dt (blockL e f) where
  basic := by
    intro mm mws l o ho
    rcases mem_blockL_dt ho with ⟨t, rfl⟩ | ⟨d, _, rfl⟩ | rfl
    · exact ⟨rfl, rfl, rfl⟩
    · exact ⟨rfl, rfl, rfl⟩
    · exact ⟨lastWins_name _ _, lastWins_disabled _ _, lastWins_isDefn _ _ rfl⟩
  srcOK := by
    intro mm mws l hv hmd hdol o ho
    rcases mem_blockL_dt ho with ⟨t, rfl⟩ | ⟨d, hd, rfl⟩ | rfl
    · exact .inr ⟨hv, hmd⟩
    · exact .inr ⟨hv, hdol d hd⟩
    · exact lastWins_srcOK _ _ hv hmd hdol
  closed := fun mm mws l ht hv => candClosed_blockL e f mm mws ht hv l

theorem goodFam_diffBlockL_dt (e : Envs) (f : Nat) : GoodFam_dt (diffBlockL e f) where
  basic := by
    intro mm mws l o ho
    obtain ⟨⟨d, _, rfl⟩, _⟩ := mem_diffBlockL ho
    exact ⟨rfl, rfl, rfl⟩
  srcOK := by
    intro mm mws l hv hmd hdol o ho
    obtain ⟨⟨d, hd, rfl⟩, _⟩ := mem_diffBlockL ho
    exact .inr ⟨hv, hdol d hd⟩
  closed := by
    intro mm mws l ht hv o ho
    obtain ⟨⟨d, hd, rfl⟩, _⟩ := mem_diffBlockL ho
    exact .inr ⟨d, hd, candOfSrc_cand mm mws hv d⟩

theorem goodFam_restoredBlockL_dt (e : Envs) (f : Nat) : GoodFam_dt (restoredBlockL e f) where
  basic := by
    intro mm mws l o ho
    rcases mem_restoredBlockL ho with h | rfl
    · exact (goodFam_blockL_dt e f).basic mm mws l o h
    · exact ⟨rfl, rfl, rfl⟩
  srcOK := by
    intro mm mws l hv hmd hdol o ho
    rcases mem_restoredBlockL ho with h | rfl
    · exact (goodFam_blockL_dt e f).srcOK mm mws l hv hmd hdol o h
    · exact .inr ⟨hv, hmd⟩
  closed := by
    intro mm mws l ht hv o ho
    rcases mem_restoredBlockL ho with h | rfl
    · exact (goodFam_blockL_dt e f).closed mm mws l ht hv o h
    · exact .inl (candOfSrc_self mm mws ht hv)

/-- every object of the block of `mo` is a copy of `mo` as far as name, kind and the disabled flag go -/
theorem gBlock_member_dt {B : DefBlock_dt} (hB : GoodFam_dt B) (drop : Bool) :
    ∀ (mo : Obj) (srcs : List Obj), ∀ o ∈ gBlock_dt B drop mo srcs,
      o.name = mo.name ∧ o.meta.disabled = mo.meta.disabled ∧ o.isDefn = mo.isDefn
  | .defn mm mws, srcs, o, ho => by
    rw [gBlock_dt] at ho
    exact hB.basic mm mws _ o ho
  | .scope mm kids, srcs, o, ho => by
    rw [gBlock_dt] at ho
    split at ho
    · cases ho
    · rw [List.mem_singleton] at ho
      subst ho
      exact ⟨rfl, rfl, rfl⟩

/-- in a tree of blocks over a `TreeMultiMaster`, the enabled objects called like a master child are
    the block of that child -/
theorem view_dt {B : DefBlock_dt} (hB : GoodFam_dt B) (drop : Bool) (mkids srcs : List Obj)
    (hf : TreeMultiMaster mkids) :
    ∀ mo ∈ mkids, activeNamed mo.name (gTree_dt B drop mkids srcs) = gBlock_dt B drop mo srcs := by
  rw [gTree_eq_flatMap_dt]
  exact activeNamed_flatMap_distinct (fun mo => gBlock_dt B drop mo srcs) mkids hf.distinct
    (fun mo hmo o ho => by
      have h := gBlock_member_dt hB drop mo srcs o ho
      exact ⟨h.1, by rw [h.2.1]; exact (hf.obj mo hmo).enabled⟩)

theorem defsNamed_of_view_dt {B : DefBlock_dt} (hB : GoodFam_dt B) (drop : Bool) (mm : Meta) (mws : List Word)
    (srcs R : List Obj) (hv : activeNamed mm.name R = gBlock_dt B drop (.defn mm mws) srcs) :
    defsNamed mm.name R = B (.defn mm mws) (defsNamed mm.name srcs) := by
  rw [defsNamed_eq_filter_tree, hv, gBlock_dt, List.filter_eq_self]
  intro o ho
  exact (hB.basic mm mws _ o ho).2.2

theorem scopesNamed_of_view_dt {B : DefBlock_dt} (hB : GoodFam_dt B) (drop : Bool) (mm : Meta) (mws : List Word)
    (srcs R : List Obj) (hv : activeNamed mm.name R = gBlock_dt B drop (.defn mm mws) srcs) :
    scopesNamed mm.name R = [] := by
  rw [scopesNamed_eq_filter_tree, hv, gBlock_dt, List.filter_eq_nil_iff]
  intro o ho
  unfold Obj.isScope
  rw [(hB.basic mm mws _ o ho).2.2]
  simp

theorem srcStep_of_view_dt (B : DefBlock_dt) (drop : Bool) (mm : Meta) (kids : List Obj)
    (srcs R : List Obj) (hv : activeNamed mm.name R = gBlock_dt B drop (.scope mm kids) srcs) :
    srcStep R mm.name = gTree_dt B drop kids (srcStep srcs mm.name) := by
  rw [← activeNamed_children_tree, hv, gBlock_dt]
  split
  · rename_i h
    rw [Bool.and_eq_true, List.isEmpty_iff] at h
    rw [h.2]
    rfl
  · simp [Obj.children]

theorem defsNamed_scope_of_view_dt (B : DefBlock_dt) (drop : Bool) (mm : Meta) (kids : List Obj)
    (srcs R : List Obj) (hv : activeNamed mm.name R = gBlock_dt B drop (.scope mm kids) srcs) :
    defsNamed mm.name R = [] := by
  rw [defsNamed_eq_filter_tree, hv, gBlock_dt]
  split <;> rfl

/-! ### composition: a tree of blocks taken as the source of another one -/

mutual
theorem gBlock_comp_dt {B1 B2 B12 : DefBlock_dt} (hB2 : GoodFam_dt B2) (d1 d2 : Bool)
    (hcomp : ∀ mm mws l, mm.tmpl = 0 → mm.varRes = none →
      B1 (.defn mm mws) (B2 (.defn mm mws) l) = B12 (.defn mm mws) l) :
    ∀ (mo : Obj) (srcs R : List Obj), TMObj mo → RefetchTree [mo] →
      activeNamed mo.name R = gBlock_dt B2 d2 mo srcs → gBlock_dt B1 d1 mo R = gBlock_dt B12 d1 mo srcs
  | .defn mm mws, srcs, R, ht, hr, hv => by
    rw [TMObj] at ht
    have hr' := hr (.defn mm mws) (.here (List.mem_singleton.mpr rfl) ht.2.2.2) rfl
    rw [gBlock_dt, gBlock_dt, defsNamed_of_view_dt hB2 d2 mm mws srcs R hv]
    exact hcomp mm mws _ hr'.1 hr'.2.1
  | .scope mm kids, srcs, R, ht, hr, hv => by
    have hk := TreeMultiMaster.of_scope ht
    rw [TMObj] at ht
    rw [gBlock_dt, gBlock_dt, srcStep_of_view_dt B2 d2 mm kids srcs R hv,
      gTree_comp_dt hB2 d1 d2 hcomp kids (srcStep srcs mm.name) _ hk.kids (hr.kids ht.2.2.2.1)
        (view_dt hB2 d2 kids _ hk)]
theorem gTree_comp_dt {B1 B2 B12 : DefBlock_dt} (hB2 : GoodFam_dt B2) (d1 d2 : Bool)
    (hcomp : ∀ mm mws l, mm.tmpl = 0 → mm.varRes = none →
      B1 (.defn mm mws) (B2 (.defn mm mws) l) = B12 (.defn mm mws) l) :
    ∀ (l : List Obj) (srcs R : List Obj), TMKids l → RefetchTree l →
      (∀ mo ∈ l, activeNamed mo.name R = gBlock_dt B2 d2 mo srcs) →
      gTree_dt B1 d1 l R = gTree_dt B12 d1 l srcs
  | [], srcs, R, _, _, _ => by rw [gTree_dt, gTree_dt]
  | mo :: rest, srcs, R, ht, hr, hv => by
    rw [TMKids] at ht
    rw [gTree_dt, gTree_dt,
      gBlock_comp_dt hB2 d1 d2 hcomp mo srcs R ht.1 hr.head (hv mo List.mem_cons_self),
      gTree_comp_dt hB2 d1 d2 hcomp rest srcs R ht.2 hr.tail (fun o ho => hv o (List.mem_cons_of_mem _ ho))]
end

/-- **composition**: the tree of `B1`-blocks computed from a tree of `B2`-blocks is the tree of
    `B12`-blocks of the original sources, whenever `B1 ∘ B2 = B12` on every definition -/
theorem gTree_comp_self_dt {B1 B2 B12 : DefBlock_dt} (hB2 : GoodFam_dt B2) (d1 d2 : Bool)
    (hcomp : ∀ mm mws l, mm.tmpl = 0 → mm.varRes = none →
      B1 (.defn mm mws) (B2 (.defn mm mws) l) = B12 (.defn mm mws) l)
    (mkids srcs : List Obj) (hf : TreeMultiMaster mkids) (hr : RefetchTree mkids) :
    gTree_dt B1 d1 mkids (gTree_dt B2 d2 mkids srcs) = gTree_dt B12 d1 mkids srcs :=
  gTree_comp_dt hB2 d1 d2 hcomp mkids srcs _ hf.kids hr (view_dt hB2 d2 mkids srcs hf)

/-! ### a tree of blocks is a well-formed source for its master -/

mutual
theorem noClashObj_view_dt {B : DefBlock_dt} (hB : GoodFam_dt B) (drop : Bool) :
    ∀ (mo : Obj) (srcs R : List Obj), TMObj mo →
      activeNamed mo.name R = gBlock_dt B drop mo srcs → noClashObj mo R = true
  | .defn mm mws, srcs, R, ht, hv => by
    rw [noClashObj, scopesNamed_of_view_dt hB drop mm mws srcs R hv]
    rfl
  | .scope mm kids, srcs, R, ht, hv => by
    have hk := TreeMultiMaster.of_scope ht
    rw [noClashObj, defsNamed_scope_of_view_dt B drop mm kids srcs R hv,
      srcStep_of_view_dt B drop mm kids srcs R hv,
      noClash_view_dt hB drop kids (srcStep srcs mm.name) _ hk.kids (view_dt hB drop kids _ hk)]
    rfl
theorem noClash_view_dt {B : DefBlock_dt} (hB : GoodFam_dt B) (drop : Bool) :
    ∀ (l : List Obj) (srcs R : List Obj), TMKids l →
      (∀ mo ∈ l, activeNamed mo.name R = gBlock_dt B drop mo srcs) → noClash l R = true
  | [], srcs, R, _, _ => by rw [noClash]
  | mo :: rest, srcs, R, ht, hv => by
    rw [TMKids] at ht
    rw [noClash, noClashObj_view_dt hB drop mo srcs R ht.1 (hv mo List.mem_cons_self),
      noClash_view_dt hB drop rest srcs R ht.2 (fun o ho => hv o (List.mem_cons_of_mem _ ho))]
    rfl
end

/-- a tree of blocks never clashes with its master -/
theorem noClash_gTree_dt {B : DefBlock_dt} (hB : GoodFam_dt B) (drop : Bool) (mkids srcs : List Obj)
    (hf : TreeMultiMaster mkids) : noClash mkids (gTree_dt B drop mkids srcs) = true :=
  noClash_view_dt hB drop mkids srcs _ hf.kids (view_dt hB drop mkids srcs hf)

mutual
theorem keysAllObj_view_dt {B : DefBlock_dt} (hB : GoodFam_dt B) (drop : Bool) (e : Envs) :
    ∀ (mo : Obj) (srcs R : List Obj), TMObj mo → RefetchTree [mo] → KeysAllObj_dt e mo srcs →
      activeNamed mo.name R = gBlock_dt B drop mo srcs → KeysAllObj_dt e mo R
  | .defn mm mws, srcs, R, ht, hr, hk, hv => by
    rw [TMObj] at ht
    have hr' := hr (.defn mm mws) (.here (List.mem_singleton.mpr rfl) ht.2.2.2) rfl
    rw [KeysAllObj_dt] at hk ⊢
    rw [defsNamed_of_view_dt hB drop mm mws srcs R hv]
    exact hk.of_closed (hB.closed mm mws _ hr'.1 hr'.2.1)
  | .scope mm kids, srcs, R, ht, hr, hk, hv => by
    have hkm := TreeMultiMaster.of_scope ht
    rw [TMObj] at ht
    rw [KeysAllObj_dt] at hk ⊢
    rw [srcStep_of_view_dt B drop mm kids srcs R hv]
    exact keysAll_view_dt hB drop e kids (srcStep srcs mm.name) _ hkm.kids (hr.kids ht.2.2.2.1) hk
      (view_dt hB drop kids _ hkm)
theorem keysAll_view_dt {B : DefBlock_dt} (hB : GoodFam_dt B) (drop : Bool) (e : Envs) :
    ∀ (l : List Obj) (srcs R : List Obj), TMKids l → RefetchTree l → KeysAll_dt e l srcs →
      (∀ mo ∈ l, activeNamed mo.name R = gBlock_dt B drop mo srcs) → KeysAll_dt e l R
  | [], srcs, R, _, _, _, _ => by rw [KeysAll_dt]; trivial
  | mo :: rest, srcs, R, ht, hr, hk, hv => by
    rw [TMKids] at ht
    rw [KeysAll_dt] at hk ⊢
    exact ⟨keysAllObj_view_dt hB drop e mo srcs R ht.1 hr.head hk.1 (hv mo List.mem_cons_self),
      keysAll_view_dt hB drop e rest srcs R ht.2 hr.tail hk.2 (fun o ho => hv o (List.mem_cons_of_mem _ ho))⟩
end

/-- the keys stay defined when a tree of blocks is fetched -/
theorem keysAll_gTree_dt {B : DefBlock_dt} (hB : GoodFam_dt B) (drop : Bool) (e : Envs) (mkids srcs : List Obj)
    (hf : TreeMultiMaster mkids) (hr : RefetchTree mkids) (hk : KeysAll_dt e mkids srcs) :
    KeysAll_dt e mkids (gTree_dt B drop mkids srcs) :=
  keysAll_view_dt hB drop e mkids srcs _ hf.kids hr hk (view_dt hB drop mkids srcs hf)

/-- every active object of a tree of blocks belongs to the block of an active master object,
    computed from sources that are active objects of the original sources -/
theorem activeIn_gTree_dt {B : DefBlock_dt} (hB : GoodFam_dt B) (drop : Bool) {x : Obj} {R : List Obj}
    (h : ActiveIn x R) :
    ∀ (mkids srcs : List Obj), R = gTree_dt B drop mkids srcs → TMKids mkids →
      ∃ mo S, ActiveIn mo mkids ∧ (∀ y, ActiveIn y S → ActiveIn y srcs) ∧ x ∈ gBlock_dt B drop mo S := by
  induction h with
  | @here R hm hd =>
    intro mkids srcs hR ht
    rw [hR, gTree_eq_flatMap_dt, List.mem_flatMap] at hm
    obtain ⟨mo, hmo, hx⟩ := hm
    rw [(gBlock_member_dt hB drop mo srcs _ hx).2.1] at hd
    exact ⟨mo, srcs, .here hmo hd, fun y hy => hy, hx⟩
  | @deeper R m kids' hm hd _ ih =>
    intro mkids srcs hR ht
    rw [hR, gTree_eq_flatMap_dt, List.mem_flatMap] at hm
    obtain ⟨mo, hmo, hx⟩ := hm
    have hmem := gBlock_member_dt hB drop mo srcs _ hx
    cases mo with
    | defn mm mws => cases hmem.2.2
    | scope mm mk =>
      rw [gBlock_dt] at hx
      split at hx
      · cases hx
      · rw [List.mem_singleton] at hx
        injection hx with hm1 hk1
        have hto := (tmKids_iff _).mp ht _ hmo
        have hmd : mm.disabled = false := hto.enabled
        obtain ⟨mo', S, ha, hS, hx'⟩ := ih mk (srcStep srcs mm.name) hk1 (TreeMultiMaster.of_scope hto).kids
        exact ⟨mo', S, .deeper hmo hmd ha, fun y hy => activeIn_srcStep (hS y hy), hx'⟩

/-- a tree of blocks is itself a well-formed source tree -/
theorem srcTree_gTree_dt {B : DefBlock_dt} (hB : GoodFam_dt B) (drop : Bool) (mkids srcs : List Obj)
    (hf : TreeMultiMaster mkids) (hr : RefetchTree mkids) (hdol : SrcNoDollar srcs) :
    SrcTree (gTree_dt B drop mkids srcs) := by
  constructor
  · intro x hx hdef
    obtain ⟨mo, S, ha, hS, hxb⟩ := activeIn_gTree_dt hB drop hx mkids srcs rfl hf.kids
    have hmem := gBlock_member_dt hB drop mo S x hxb
    rw [hdef] at hmem
    have hr' := hr mo ha hmem.2.2.symm
    cases mo with
    | scope mm mk => cases hmem.2.2
    | defn mm mws =>
      rw [gBlock_dt] at hxb
      refine hB.srcOK mm mws _ hr'.2.1 hr'.2.2 ?_ x hxb
      intro d hd
      have hd' := mem_defsNamed.mp hd
      exact hdol d (hS d (.here hd'.1 hd'.2.2.1)) hd'.2.1
  · intro m kids hx
    obtain ⟨mo, S, ha, hS, hxb⟩ := activeIn_gTree_dt hB drop hx mkids srcs rfl hf.kids
    have hto := tmObj_of_activeIn ha hf.kids
    have hn := (gBlock_member_dt hB drop mo S _ hxb).1
    have : m.name = mo.name := hn
    rw [this]
    exact hto.name_ne

/-- **the block of a master definition at any depth**, in a tree of blocks: where the master has the
    definition `.defn mm mws` at the path `ps.n`, the enabled objects called `n` the tree has at that
    path are the block computed from the enabled source definitions reached by that path -/
theorem gBlock_at_path_dt {B : DefBlock_dt} (hB : GoodFam_dt B) (drop : Bool) :
    ∀ (ps : List Str) (mkids srcs : List Obj) (n : Str) (mm : Meta) (mws : List Word),
      TreeMultiMaster mkids → defAt mkids ps n = some (.defn mm mws) →
      activeNamed n (srcAt (gTree_dt B drop mkids srcs) ps) = B (.defn mm mws) (defsNamed n (srcAt srcs ps))
  | [], mkids, srcs, n, mm, mws, hf, h => by
    rw [defAt] at h
    cases hfn : findNamedTree mkids n with
    | none => rw [hfn] at h; cases h
    | some mo =>
      rw [hfn] at h
      cases mo with
      | scope m k => cases h
      | defn m ws =>
        simp only [Option.some.injEq] at h
        rw [h] at hfn
        have hn : mm.name = n := findNamed_name hfn
        rw [srcAt, srcAt, ← hn]
        have := view_dt hB drop mkids srcs hf _ (findNamed_mem hfn)
        rw [gBlock_dt] at this
        exact this
  | s :: ps, mkids, srcs, n, mm, mws, hf, h => by
    rw [defAt] at h
    cases hfn : findNamedTree mkids s with
    | none => rw [hfn] at h; cases h
    | some mo =>
      rw [hfn] at h
      cases mo with
      | defn m ws => cases h
      | scope m kids =>
        have hs : m.name = s := findNamed_name hfn
        have hmem := findNamed_mem hfn
        rw [srcAt, srcAt, ← hs,
          srcStep_of_view_dt B drop m kids srcs _ (view_dt hB drop mkids srcs hf _ hmem)]
        exact gBlock_at_path_dt hB drop ps kids (srcStep srcs m.name) n mm mws
          (TreeMultiMaster.of_scope (hf.obj _ hmem)) h

/-! ## 7. the laws of C08 on the specification -/

/-- **the working set has the difference of the sources it was fetched from** -/
theorem treeDiff_working_dt (e : Envs) (mkids srcs : List Obj) (hf : TreeMultiMaster mkids)
    (hr : RefetchTree mkids) :
    treeDiff e mkids (treeMultiResult e mkids srcs) = treeDiff e mkids srcs := by
  rw [treeDiff_eq_gTree_dt, treeDiff_eq_gTree_dt, treeMultiResult_eq_gTree_dt]
  exact gTree_comp_self_dt (goodFam_blockL_dt e 0) true false
    (fun mm mws l ht hv => diffBlockL_blockL e 0 mm mws ht hv l) mkids srcs hf hr

/-- **restoring**: the working set fetched from the difference is `treeRestored` -/
theorem treeMultiResult_treeDiff_dt (e : Envs) (mkids srcs : List Obj) (hf : TreeMultiMaster mkids)
    (hr : RefetchTree mkids) :
    treeMultiResult e mkids (treeDiff e mkids srcs) = treeRestored e mkids srcs := by
  rw [treeMultiResult_eq_gTree_dt, treeDiff_eq_gTree_dt, treeRestored_eq_gTree_dt]
  exact gTree_comp_self_dt (goodFam_diffBlockL_dt e 0) false true
    (fun mm mws l ht hv => blockL_diffBlockL e 0 mm mws ht hv l) mkids srcs hf hr

/-- **the difference of the restored working set is the difference again** -/
theorem treeDiff_treeRestored_dt (e : Envs) (mkids srcs : List Obj) (hf : TreeMultiMaster mkids)
    (hr : RefetchTree mkids) :
    treeDiff e mkids (treeRestored e mkids srcs) = treeDiff e mkids srcs := by
  rw [treeDiff_eq_gTree_dt, treeDiff_eq_gTree_dt, treeRestored_eq_gTree_dt]
  exact gTree_comp_self_dt (goodFam_restoredBlockL_dt e 0) true false
    (fun mm mws l ht hv => diffBlockL_restoredBlockL e 0 mm mws ht hv l) mkids srcs hf hr

/-- the restored working set is a fixed point of the fetch -/
theorem treeMultiResult_treeRestored_dt (e : Envs) (mkids srcs : List Obj) (hf : TreeMultiMaster mkids)
    (hr : RefetchTree mkids) :
    treeMultiResult e mkids (treeRestored e mkids srcs) = treeRestored e mkids srcs := by
  rw [treeMultiResult_eq_gTree_dt, treeRestored_eq_gTree_dt]
  exact gTree_comp_self_dt (goodFam_restoredBlockL_dt e 0) false false
    (fun mm mws l ht hv => blockL_restoredBlockL e 0 mm mws ht hv l) mkids srcs hf hr

/-! ### no sources: empty difference -/

mutual
theorem tdBlock_nil_dt (e : Envs) : ∀ (mo : Obj), tdBlock e mo [] = []
  | .defn mm mws => by
    rw [tdBlock]
    exact diffBlockL_nil e 0 _
  | .scope mm kids => by
    rw [tdBlock]
    have : srcStep [] mm.name = [] := rfl
    rw [this, treeDiff_nil_dt e kids]
    rfl
/-- without sources the difference has no children -/
theorem treeDiff_nil_dt (e : Envs) : ∀ (l : List Obj), treeDiff e l [] = []
  | [] => by rw [treeDiff]
  | mo :: rest => by rw [treeDiff, tdBlock_nil_dt e mo, treeDiff_nil_dt e rest]; rfl
end

mutual
theorem treeUsedObj_nil_dt : ∀ (mo : Obj), treeUsedObj mo [] = []
  | .defn mm mws => by rw [treeUsedObj]; rfl
  | .scope mm kids => by
    rw [treeUsedObj]
    have : srcStep [] mm.name = [] := rfl
    rw [this, treeUsed_nil_dt kids]
theorem treeUsed_nil_dt : ∀ (l : List Obj), treeUsed l [] = []
  | [] => by rw [treeUsed]
  | mo :: rest => by rw [treeUsed, treeUsedObj_nil_dt mo, treeUsed_nil_dt rest]; rfl
end

mutual
theorem noClashObj_nil_dt : ∀ (mo : Obj), noClashObj mo [] = true
  | .defn mm mws => by rw [noClashObj]; rfl
  | .scope mm kids => by
    rw [noClashObj]
    have : srcStep [] mm.name = [] := rfl
    rw [this, noClash_nil_dt kids]
    rfl
theorem noClash_nil_dt : ∀ (l : List Obj), noClash l [] = true
  | [] => by rw [noClash]
  | mo :: rest => by rw [noClash, noClashObj_nil_dt mo, noClash_nil_dt rest]; rfl
end

theorem not_activeIn_nil_dt {x : Obj} (h : ActiveIn x []) : False := by
  cases h with
  | here hm _ => cases hm
  | deeper hm _ _ => cases hm

theorem srcTree_nil_dt : SrcTree [] :=
  ⟨fun x hx _ => (not_activeIn_nil_dt hx).elim, fun m kids hx => (not_activeIn_nil_dt hx).elim⟩

theorem srcNoDollar_nil_dt : SrcNoDollar [] :=
  fun x hx _ => (not_activeIn_nil_dt hx).elim

/-! ### minimality, no empty scopes -/

/-- **minimality**: every definition of a difference, at any depth, is the candidate built from an
    enabled source definition for a master definition `mo` of its name, and its key
    (`mo.extract_format(source=candidate).as_str()`) differs from the key of `mo` -/
theorem treeDiff_minimal_dt (e : Envs) (mkids srcs : List Obj) (hf : TreeMultiMaster mkids) :
    ∀ x, ActiveIn x (treeDiff e mkids srcs) → x.isDefn = true →
      ∃ mo, ActiveIn mo mkids ∧ mo.isDefn = true ∧ (∃ d, ActiveIn d srcs ∧ x = candOfSrc mo d) ∧
        keyOf e 0 mo x ≠ keyOf e 0 mo mo := by
  intro x hx hdef
  rw [treeDiff_eq_gTree_dt] at hx
  obtain ⟨mo, S, ha, hS, hxb⟩ := activeIn_gTree_dt (goodFam_diffBlockL_dt e 0) true hx mkids srcs rfl hf.kids
  have hmem := gBlock_member_dt (goodFam_diffBlockL_dt e 0) true mo S x hxb
  cases mo with
  | scope mm mk => rw [hdef] at hmem; cases hmem.2.2
  | defn mm mws =>
    rw [gBlock_dt] at hxb
    obtain ⟨⟨d, hd, hxd⟩, hk⟩ := mem_diffBlockL hxb
    have hd' := mem_defsNamed.mp hd
    exact ⟨_, ha, rfl, ⟨d, hS d (.here hd'.1 hd'.2.2.1), hxd⟩, hk⟩

/-- **empty scopes are dropped**: every scope of a difference, at any depth, has children -/
theorem treeDiff_no_empty_scope_dt (e : Envs) (mkids srcs : List Obj) (hf : TreeMultiMaster mkids) :
    ∀ m kids, ActiveIn (.scope m kids) (treeDiff e mkids srcs) → kids ≠ [] := by
  intro m kids hx
  rw [treeDiff_eq_gTree_dt] at hx
  obtain ⟨mo, S, ha, hS, hxb⟩ := activeIn_gTree_dt (goodFam_diffBlockL_dt e 0) true hx mkids srcs rfl hf.kids
  have hmem := gBlock_member_dt (goodFam_diffBlockL_dt e 0) true mo S _ hxb
  cases mo with
  | defn mm mws => cases hmem.2.2
  | scope mm mk =>
    rw [gBlock_dt] at hxb
    split at hxb
    · cases hxb
    · rename_i hne
      rw [List.mem_singleton] at hxb
      injection hxb with _ hk
      rw [hk]
      intro h0
      rw [h0] at hne
      exact hne rfl

/-- **the difference at a path**: where the master has the definition `.defn mm mws` at `ps.n`, the
    enabled objects called `n` the difference has at that path are `diffBlockL` of the enabled source
    definitions reached by that path -/
theorem treeDiff_at_path_dt (e : Envs) (mkids srcs : List Obj) (hf : TreeMultiMaster mkids)
    (ps : List Str) (n : Str) (mm : Meta) (mws : List Word) (h : defAt mkids ps n = some (.defn mm mws)) :
    activeNamed n (srcAt (treeDiff e mkids srcs) ps) =
      diffBlockL e 0 (.defn mm mws) (defsNamed n (srcAt srcs ps)) := by
  rw [treeDiff_eq_gTree_dt]
  exact gBlock_at_path_dt (goodFam_diffBlockL_dt e 0) true ps mkids srcs n mm mws hf h

/-- … and the restored working set at a path -/
theorem treeRestored_at_path_dt (e : Envs) (mkids srcs : List Obj) (hf : TreeMultiMaster mkids)
    (ps : List Str) (n : Str) (mm : Meta) (mws : List Word) (h : defAt mkids ps n = some (.defn mm mws)) :
    activeNamed n (srcAt (treeRestored e mkids srcs) ps) =
      restoredBlockL e 0 (.defn mm mws) (defsNamed n (srcAt srcs ps)) := by
  rw [treeRestored_eq_gTree_dt]
  exact gBlock_at_path_dt (goodFam_restoredBlockL_dt e 0) false ps mkids srcs n mm mws hf h

/-! ### the restored working set against the working set -/

mutual
/-- how an object `o'` of the restored working set relates to the object `o` of the working set at
    the same position, both belonging to the master object `mo`: for a definition the relation of
    the flat case (`RestoredAs`: equal, unless `o` is a non-multiple working value with the key of
    `mo` — then `o' = mo`); for a scope both are copies of `mo` whose children are related -/
def RestoredObj_dt (e : Envs) : Obj → Obj → Obj → Prop
  | .defn mm mws, o, o' => RestoredAs e 0 (.defn mm mws) o o'
  | .scope mm kids, o, o' =>
    ∃ K K', o = .scope { mm with tmpl := 0 } K ∧ o' = .scope { mm with tmpl := 0 } K' ∧
      RestoredKids_dt e kids K K'
/-- `W` and `W'` split into consecutive blocks, one per master child in master order, which
    correspond object by object (`RestoredObj_dt`) -/
def RestoredKids_dt (e : Envs) : List Obj → List Obj → List Obj → Prop
  | [], W, W' => W = [] ∧ W' = []
  | mo :: rest, W, W' =>
    ∃ A A' C C', W = A ++ C ∧ W' = A' ++ C' ∧ Forall2 (RestoredObj_dt e mo) A A' ∧
      RestoredKids_dt e rest C C'
end

mutual
theorem restoredObj_blocks_dt (e : Envs) : ∀ (mo : Obj) (srcs : List Obj), TMObj mo → RefetchTree [mo] →
    Forall2 (RestoredObj_dt e mo) (tmBlock e mo srcs) (trBlock e mo srcs)
  | .defn mm mws, srcs, ht, hr => by
    rw [TMObj] at ht
    have hr' := hr (.defn mm mws) (.here (List.mem_singleton.mpr rfl) ht.2.2.2) rfl
    have h := restoredBlockL_restoredAs e 0 mm mws hr'.1 (defsNamed mm.name srcs)
    rw [trBlock, tmBlock_eq_gBlock_dt, gBlock_dt]
    exact h.imp (fun o o' hq => by rw [RestoredObj_dt]; exact hq)
  | .scope mm kids, srcs, ht, hr => by
    have hk := TreeMultiMaster.of_scope ht
    rw [TMObj] at ht
    rw [tmBlock, trBlock]
    refine .cons ?_ .nil
    rw [RestoredObj_dt]
    exact ⟨_, _, rfl, rfl, restoredKids_dt e kids (srcStep srcs mm.name) hk.kids (hr.kids ht.2.2.2.1)⟩
/-- **`W'` against `W`**, as trees -/
theorem restoredKids_dt (e : Envs) : ∀ (l : List Obj) (srcs : List Obj), TMKids l → RefetchTree l →
    RestoredKids_dt e l (treeMultiResult e l srcs) (treeRestored e l srcs)
  | [], srcs, _, _ => by rw [RestoredKids_dt, treeMultiResult, treeRestored]; exact ⟨rfl, rfl⟩
  | mo :: rest, srcs, ht, hr => by
    rw [TMKids] at ht
    rw [RestoredKids_dt, treeMultiResult, treeRestored]
    exact ⟨_, _, _, _, rfl, rfl, restoredObj_blocks_dt e mo srcs ht.1 hr.head,
      restoredKids_dt e rest srcs ht.2 hr.tail⟩
end

mutual
def NoRedundantObj_dt (e : Envs) : Obj → List Obj → Prop
  | .defn mm mws, srcs =>
    isMultiple (.defn mm mws) = false →
      keyOf e 0 (.defn mm mws) (lastWins (.defn mm mws) (defsNamed mm.name srcs)) =
        keyOf e 0 (.defn mm mws) (.defn mm mws) →
      lastWins (.defn mm mws) (defsNamed mm.name srcs) = .defn mm mws
  | .scope mm kids, srcs => NoRedundantTree_dt e kids (srcStep srcs mm.name)
/-- no working value merely re-spells its default, at any depth: a non-multiple working value whose
    key is the key of the master definition IS the master definition -/
def NoRedundantTree_dt (e : Envs) : List Obj → List Obj → Prop
  | [], _ => True
  | mo :: rest, srcs => NoRedundantObj_dt e mo srcs ∧ NoRedundantTree_dt e rest srcs
end

mutual
theorem trBlock_eq_tmBlock_dt (e : Envs) : ∀ (mo : Obj) (srcs : List Obj), NoRedundantObj_dt e mo srcs →
    trBlock e mo srcs = tmBlock e mo srcs
  | .defn mm mws, srcs, h => by
    rw [NoRedundantObj_dt] at h
    rw [trBlock, tmBlock_eq_gBlock_dt, gBlock_dt]
    unfold restoredBlockL
    cases hmult : isMultiple (.defn mm mws) with
    | true => simp
    | false =>
      unfold blockL
      simp only [hmult, Bool.false_eq_true, if_false]
      congr 1
      split
      · rename_i hk
        exact (h hmult (by simpa using hk)).symm
      · rfl
  | .scope mm kids, srcs, h => by
    rw [NoRedundantObj_dt] at h
    rw [trBlock, tmBlock, treeRestored_eq_treeMultiResult_dt e kids _ h]
/-- **exact restoration**: under `NoRedundantTree_dt` the restored working set IS the working set -/
theorem treeRestored_eq_treeMultiResult_dt (e : Envs) : ∀ (l : List Obj) (srcs : List Obj),
    NoRedundantTree_dt e l srcs → treeRestored e l srcs = treeMultiResult e l srcs
  | [], srcs, _ => by rw [treeRestored, treeMultiResult]
  | mo :: rest, srcs, h => by
    rw [NoRedundantTree_dt] at h
    rw [treeRestored, treeMultiResult, trBlock_eq_tmBlock_dt e mo srcs h.1,
      treeRestored_eq_treeMultiResult_dt e rest srcs h.2]
end

mutual
def FaithfulObj_dt (e : Envs) : Obj → List Obj → Prop
  | .defn mm mws, srcs =>
    isMultiple (.defn mm mws) = false →
      keyOf e 0 (.defn mm mws) (lastWins (.defn mm mws) (defsNamed mm.name srcs)) =
        keyOf e 0 (.defn mm mws) (.defn mm mws) →
      extractObj e 1 (lastWins (.defn mm mws) (defsNamed mm.name srcs)) = extractObj e 1 (.defn mm mws)
  | .scope mm kids, srcs => FaithfulTree_dt e kids (srcStep srcs mm.name)
/-- equal keys mean equal values where the difference relies on it, at any depth: a non-multiple
    working value with the key of the master definition extracts to the value of the master
    definition -/
def FaithfulTree_dt (e : Envs) : List Obj → List Obj → Prop
  | [], _ => True
  | mo :: rest, srcs => FaithfulObj_dt e mo srcs ∧ FaithfulTree_dt e rest srcs
end

/-- same meta data, same extracted value with every fuel -/
def SameValue_dt (e : Envs) (o o' : Obj) : Prop :=
  o'.meta = o.meta ∧ ∀ n, extractObj e n o' = extractObj e n o

theorem sameValue_refl_dt (e : Envs) (o : Obj) : SameValue_dt e o o := ⟨rfl, fun _ => rfl⟩

mutual
theorem sameValue_blocks_dt (e : Envs) : ∀ (mo : Obj) (srcs : List Obj), TMObj mo → RefetchTree [mo] →
    FaithfulObj_dt e mo srcs → Forall2 (SameValue_dt e) (tmBlock e mo srcs) (trBlock e mo srcs)
  | .defn mm mws, srcs, ht, hr, hfa => by
    rw [TMObj] at ht
    have hr' := hr (.defn mm mws) (.here (List.mem_singleton.mpr rfl) ht.2.2.2) rfl
    rw [FaithfulObj_dt] at hfa
    rw [trBlock, tmBlock_eq_gBlock_dt, gBlock_dt]
    unfold restoredBlockL
    cases hmult : isMultiple (.defn mm mws) with
    | true =>
      simp only [if_true]
      exact Forall2.of_refl _ (fun a _ => sameValue_refl_dt e a)
    | false =>
      unfold blockL
      simp only [hmult, Bool.false_eq_true, if_false]
      refine .cons ?_ .nil
      split
      · rename_i hk
        have hv := hfa hmult (by simpa using hk)
        refine ⟨(lastWins_meta mm mws hr'.1 _).symm, ?_⟩
        intro n
        cases n with
        | zero => rfl
        | succ n =>
          have hd : ∃ m ws, lastWins (.defn mm mws) (defsNamed mm.name srcs) = .defn m ws := by
            rw [lastWins_eq]
            cases (defsNamed mm.name srcs).getLast? with
            | none => exact ⟨_, _, rfl⟩
            | some d => exact ⟨_, _, rfl⟩
          obtain ⟨m, ws, hd⟩ := hd
          rw [hd] at hv ⊢
          rw [extractObj_defn_fuel e n 0, extractObj_defn_fuel e n 0 m]
          exact hv.symm
      · exact sameValue_refl_dt e _
  | .scope mm kids, srcs, ht, hr, hfa => by
    have hk := TreeMultiMaster.of_scope ht
    rw [TMObj] at ht
    rw [FaithfulObj_dt] at hfa
    rw [tmBlock, trBlock]
    refine .cons ⟨rfl, ?_⟩ .nil
    intro n
    cases n with
    | zero => rfl
    | succ n =>
      apply extractObj_scope_congr
      exact (sameValue_tree_dt e kids (srcStep srcs mm.name) hk.kids (hr.kids ht.2.2.2.1) hfa).imp
        (fun o o' h => ⟨h.1, h.2 n⟩)
theorem sameValue_tree_dt (e : Envs) : ∀ (l : List Obj) (srcs : List Obj), TMKids l → RefetchTree l →
    FaithfulTree_dt e l srcs →
    Forall2 (SameValue_dt e) (treeMultiResult e l srcs) (treeRestored e l srcs)
  | [], srcs, _, _, _ => by rw [treeMultiResult, treeRestored]; exact .nil
  | mo :: rest, srcs, ht, hr, hfa => by
    rw [TMKids] at ht
    rw [FaithfulTree_dt] at hfa
    rw [treeMultiResult, treeRestored]
    exact (sameValue_blocks_dt e mo srcs ht.1 hr.head hfa.1).append
      (sameValue_tree_dt e rest srcs ht.2 hr.tail hfa.2)
end

/-- **values restored**: under `FaithfulTree_dt` the restored working set and the working set extract
    to the same Python values, whatever the enclosing scope and the fuel -/
theorem treeRestored_values_dt (e : Envs) (mkids srcs : List Obj) (hf : TreeMultiMaster mkids)
    (hr : RefetchTree mkids) (hfa : FaithfulTree_dt e mkids srcs) (m : Meta) (n : Nat) :
    extractObj e n (.scope m (treeRestored e mkids srcs)) =
      extractObj e n (.scope m (treeMultiResult e mkids srcs)) := by
  cases n with
  | zero => rfl
  | succ n =>
    apply extractObj_scope_congr
    exact (sameValue_tree_dt e mkids srcs hf.kids hr hfa).imp (fun o o' h => ⟨h.1, h.2 n⟩)

/-! ## 8. the chain `W = fetch(sources)`, `D = fetch_diff(W)`, `W' = fetch(D)`, `D' = fetch_diff(W')` -/

/-- the setting of the laws: a nested master whose definitions may be `.multiple`
    (`TreeMultiMaster`), fit for re-fetching (`RefetchTree`: definitions not template-marked,
    `$`-free defaults); fuel beyond the nesting depth plus one; well-formed `$`-free source trees;
    the keys a difference compares are defined (`KeysAll_dt`) -/
structure DiffTreeSetting (e : Envs) (fuel : Nat) (sm : Meta) (mkids srcs : List Obj) : Prop where
  tree : TreeMultiMaster mkids
  refetch : RefetchTree mkids
  fuel : depthL mkids + 1 < fuel
  enabled : sm.disabled = false
  src : SrcTree srcs
  noDollar : SrcNoDollar srcs
  keys : KeysAll_dt e mkids srcs

section chain
variable {e : Envs} {fuel : Nat} {sm : Meta} {mkids srcs : List Obj}

/-- `master.fetch(sources)` -/
theorem DiffTreeSetting.fetch_sources_total (S : DiffTreeSetting e fuel sm mkids srcs) :
    fetchScope e fuel false sm mkids srcs =
      if noClash mkids srcs then
        .ok (.scope { sm with tmpl := 0 } (treeMultiResult e mkids srcs), treeMultiUsed mkids srcs)
      else .error incompatibleErr :=
  fetch_tree_multi_total e fuel sm mkids srcs S.tree (by have := S.fuel; omega) S.enabled S.src S.keys.toMulti

/-- `master.fetch_diff(sources)` -/
theorem DiffTreeSetting.diff_sources_total (S : DiffTreeSetting e fuel sm mkids srcs) :
    fetchScope e fuel true sm mkids srcs =
      if noClash mkids srcs then
        .ok (.scope { sm with tmpl := 0 } (treeDiff e mkids srcs), treeMultiUsed mkids srcs)
      else .error incompatibleErr :=
  diff_tree_total e fuel sm mkids srcs S.tree S.fuel S.enabled S.src S.keys

/-- non-diff fetch from a tree of blocks: never fails -/
theorem DiffTreeSetting.fetch_gTree (S : DiffTreeSetting e fuel sm mkids srcs) {B : DefBlock_dt}
    (hB : GoodFam_dt B) (drop : Bool) :
    fetchScope e fuel false sm mkids (gTree_dt B drop mkids srcs) =
      .ok (.scope { sm with tmpl := 0 } (treeMultiResult e mkids (gTree_dt B drop mkids srcs)),
           treeMultiUsed mkids (gTree_dt B drop mkids srcs)) := by
  rw [fetch_tree_multi_total e fuel sm mkids _ S.tree (by have := S.fuel; omega) S.enabled
    (srcTree_gTree_dt hB drop mkids srcs S.tree S.refetch S.noDollar)
    (keysAll_gTree_dt hB drop e mkids srcs S.tree S.refetch S.keys).toMulti,
    noClash_gTree_dt hB drop mkids srcs S.tree]
  rfl

/-- diff-mode fetch from a tree of blocks: never fails -/
theorem DiffTreeSetting.diff_gTree (S : DiffTreeSetting e fuel sm mkids srcs) {B : DefBlock_dt}
    (hB : GoodFam_dt B) (drop : Bool) :
    fetchScope e fuel true sm mkids (gTree_dt B drop mkids srcs) =
      .ok (.scope { sm with tmpl := 0 } (treeDiff e mkids (gTree_dt B drop mkids srcs)),
           treeMultiUsed mkids (gTree_dt B drop mkids srcs)) := by
  rw [diff_tree_total e fuel sm mkids _ S.tree S.fuel S.enabled
    (srcTree_gTree_dt hB drop mkids srcs S.tree S.refetch S.noDollar)
    (keysAll_gTree_dt hB drop e mkids srcs S.tree S.refetch S.keys),
    noClash_gTree_dt hB drop mkids srcs S.tree]
  rfl

/-- **the difference of the working set is the difference of the sources**:
    `master.fetch_diff(master.fetch(sources))` has the children of `master.fetch_diff(sources)` -/
theorem DiffTreeSetting.diff_working (S : DiffTreeSetting e fuel sm mkids srcs) :
    fetchScope e fuel true sm mkids (treeMultiResult e mkids srcs) =
      .ok (.scope { sm with tmpl := 0 } (treeDiff e mkids srcs),
           treeMultiUsed mkids (treeMultiResult e mkids srcs)) := by
  have h := S.diff_gTree (goodFam_blockL_dt e 0) false
  rw [← treeMultiResult_eq_gTree_dt] at h
  rw [h, treeDiff_working_dt e mkids srcs S.tree S.refetch]

/-- **restoring**: `master.fetch(D)` in closed form -/
theorem DiffTreeSetting.fetch_diff (S : DiffTreeSetting e fuel sm mkids srcs) :
    fetchScope e fuel false sm mkids (treeDiff e mkids srcs) =
      .ok (.scope { sm with tmpl := 0 } (treeRestored e mkids srcs),
           treeMultiUsed mkids (treeDiff e mkids srcs)) := by
  have h := S.fetch_gTree (goodFam_diffBlockL_dt e 0) true
  rw [← treeDiff_eq_gTree_dt] at h
  rw [h, treeMultiResult_treeDiff_dt e mkids srcs S.tree S.refetch]

/-- **the difference of the restored working set is `D` again** -/
theorem DiffTreeSetting.diff_restored (S : DiffTreeSetting e fuel sm mkids srcs) :
    fetchScope e fuel true sm mkids (treeRestored e mkids srcs) =
      .ok (.scope { sm with tmpl := 0 } (treeDiff e mkids srcs),
           treeMultiUsed mkids (treeRestored e mkids srcs)) := by
  have h := S.diff_gTree (goodFam_restoredBlockL_dt e 0) false
  rw [← treeRestored_eq_gTree_dt] at h
  rw [h, treeDiff_treeRestored_dt e mkids srcs S.tree S.refetch]

/-- the restored working set is a fixed point of the fetch -/
theorem DiffTreeSetting.fetch_restored (S : DiffTreeSetting e fuel sm mkids srcs) :
    fetchScope e fuel false sm mkids (treeRestored e mkids srcs) =
      .ok (.scope { sm with tmpl := 0 } (treeRestored e mkids srcs),
           treeMultiUsed mkids (treeRestored e mkids srcs)) := by
  have h := S.fetch_gTree (goodFam_restoredBlockL_dt e 0) false
  rw [← treeRestored_eq_gTree_dt] at h
  rw [h, treeMultiResult_treeRestored_dt e mkids srcs S.tree S.refetch]

/-- what a successful `master.fetch(sources)` returned -/
theorem DiffTreeSetting.working_inv (S : DiffTreeSetting e fuel sm mkids srcs)
    {rm : Meta} {W : List Obj} {u : List Nat}
    (hW : fetchScope e fuel false sm mkids srcs = .ok (.scope rm W, u)) :
    noClash mkids srcs = true ∧ rm = { sm with tmpl := 0 } ∧ W = treeMultiResult e mkids srcs := by
  rw [S.fetch_sources_total] at hW
  cases hnc : noClash mkids srcs with
  | false => rw [hnc] at hW; cases hW
  | true =>
    rw [hnc] at hW
    simp only [if_true] at hW
    cases hW
    exact ⟨rfl, rfl, rfl⟩

/-- the setting without sources -/
theorem diffTreeSetting_nosrc (e : Envs) (fuel : Nat) (sm : Meta) (mkids : List Obj)
    (hf : TreeMultiMaster mkids) (hr : RefetchTree mkids) (hfuel : depthL mkids + 1 < fuel)
    (hsd : sm.disabled = false) (hk : KeysAll_dt e mkids []) : DiffTreeSetting e fuel sm mkids [] :=
  ⟨hf, hr, hfuel, hsd, srcTree_nil_dt, srcNoDollar_nil_dt, hk⟩

end chain

/-- the fuel `fetchRoot` provides is adequate for the difference of masters nested at most 1000 deep -/
theorem fetchRoot_fuel_dt (master : List Obj) (hd : depthL master ≤ 1000) :
    depthL master + 1 < (master.foldl (fun a k => Nat.max a (depthObj 1000 k)) 0) + 3 := by
  have : depthL master ≤ master.foldl (fun a k => Nat.max a (depthObj 1000 k)) 0 := by
    apply depthL_le_of_forall
    intro k hk
    have h1 := depthT_le_depthL master k hk
    exact Nat.le_trans (depthT_le_depthObj 1000 k (by omega))
      ((foldl_max_ge_tree (depthObj 1000) master 0).2 k hk)
  omega

/-- the fuel `fetchRoot` starts with -/
def rootFuel_dt (master : List Obj) : Nat := (master.foldl (fun a k => Nat.max a (depthObj 1000 k)) 0) + 3

theorem fetchRoot_eq_dt (e : Envs) (diff : Bool) (master : List Obj) (ss : List (List Obj)) :
    fetchRoot e diff master ss =
      fetchScope e (rootFuel_dt master) diff { name := [], id := some 0 } master ss.flatten := rfl

/-- **`master.fetch_diff(sources=…)`** on parsed roots -/
theorem fetchRoot_diff_tree (e : Envs) (master : List Obj) (ss : List (List Obj))
    (hf : TreeMultiMaster master) (hd : depthL master ≤ 1000) (hsrc : SrcTree ss.flatten)
    (hkeys : KeysAll_dt e master ss.flatten) :
    fetchRoot e true master ss =
      if noClash master ss.flatten then
        .ok (.scope { name := [], id := some 0 } (treeDiff e master ss.flatten),
             treeMultiUsed master ss.flatten)
      else .error incompatibleErr :=
  diff_tree_total e _ _ master ss.flatten hf (fetchRoot_fuel_dt master hd) rfl hsrc hkeys

/-- a definition found at a path of such a master is an active object of it -/
theorem defAt_active_dt : ∀ (ps : List Str) (l : List Obj) (n : Str) (o : Obj), TMKids l →
    defAt l ps n = some o → ActiveIn o l
  | [], l, n, o, ht, h => by
    rw [defAt] at h
    cases hfn : findNamedTree l n with
    | none => rw [hfn] at h; cases h
    | some mo =>
      rw [hfn] at h
      cases mo with
      | scope m k => cases h
      | defn m ws =>
        simp only [Option.some.injEq] at h
        subst h
        exact .here (findNamed_mem hfn) ((tmKids_iff l).mp ht _ (findNamed_mem hfn)).enabled
  | s :: ps, l, n, o, ht, h => by
    rw [defAt] at h
    cases hfn : findNamedTree l s with
    | none => rw [hfn] at h; cases h
    | some mo =>
      rw [hfn] at h
      have hto := (tmKids_iff l).mp ht mo (findNamed_mem hfn)
      cases mo with
      | defn mm mws => cases h
      | scope mm kids =>
        exact .deeper (findNamed_mem hfn) hto.enabled
          (defAt_active_dt ps kids n o (TreeMultiMaster.of_scope hto).kids h)

end Phil
