/-
  Attribute round trip with DISABLED DEFINITIONS (C01 / C19): `!name = …` anywhere in the tree, also as
  the leaf of a dotted name (`!a.b = 1`: the scope `a` enabled, the definition `b` disabled), with
  attribute lines and deprecated definitions in any placement.  Continues AttrRoundTrip3.lean.
  All new names end in `_ar3d` or are new definitions.
-/
import Phil.Proofs.AttrRoundTrip3
set_option linter.unusedSimpArgs false
set_option linter.unusedVariables false
namespace Phil

/-- the `!` printed in front of the name of a disabled object -/
def bangOf (m : Meta) : Str := if m.disabled then ['!'] else []

mutual
/-- the tree with the disabled flag of every DEFINITION cleared -/
def Obj.enableD : Obj → Obj
  | .defn m ws => .defn { m with disabled := false } ws
  | .scope m os => .scope m (enableDList os)
def enableDList : List Obj → List Obj
  | [] => []
  | x :: xs => x.enableD :: enableDList xs
end

mutual
/-- `treeTextA` with `!` in front of the (dotted) name of every disabled definition -/
def treeTextB (L w : Int) : Obj → List Str → Str → Str
  | .defn m ws, ms, ind =>
    warnText m ind ++ (ind ++ (bangOf m ++ dottedName ms m.name) ++ [' ', '='] ++
      wrapTail w (ind ++ defIndent (bangOf m ++ dottedName ms m.name)) ws
        (ind ++ defHead (bangOf m ++ dottedName ms m.name)) ++ ['\n']) ++
      attrBlock true ind L w m.attrs
  | .scope m os, ms, ind =>
    if firstMerges os then kidsTextB L w os (ms ++ [m.name]) ind
    else if (shownAttrs false L m.attrs).isEmpty then
      ind ++ dottedName ms m.name ++ [' ', '{', '\n'] ++ kidsTextB L w os [] (deeper ind) ++ ind ++ ['}', '\n']
    else
      ind ++ dottedName ms m.name ++ ['\n'] ++ attrBlock false ind L w m.attrs ++ ind ++ ['{', '\n'] ++
        kidsTextB L w os [] (deeper ind) ++ ind ++ ['}', '\n']
def kidsTextB (L w : Int) : List Obj → List Str → Str → Str
  | [], _, _ => []
  | x :: xs, ms, ind => treeTextB L w x ms ind ++ kidsTextB L w xs ms ind
end

/-- One turn of `collect_objects` for `!name = value…`: a disabled definition. -/
theorem collectObjects_defn_bang_step_ar3d (fuel : Nat) (st : PState) (stop : Option Word) (prevLine : Nat)
    (acc : List Obj) (pending : Option Obj) (lead eq : Word) (nm : Str) (ci1 ci2 ci4 : CI) (ws : List Word)
    (h1 : nextWord structSettings st.ci = .ok (some (lead, ci1)))
    (hlq : lead.quote = none) (hv : lead.value = '!' :: nm)
    (hname : plainDefName nm = true)
    (h2 : nextWord structSettings ci1 = .ok (some (eq, ci2)))
    (heq : eq.quote = none) (heqv : eq.value = ['='])
    (h3 : collectAssigned ci2 { lead with value := nm } = .ok (ws, ci4)) :
    collectObjects (fuel + 1) st stop prevLine acc pending
      = collectObjects fuel { ci := ci4, nextId := st.nextId + 1 } stop (lead.line.getD 0)
          (flush acc pending)
          (some (.defn { name := nm, id := some st.nextId, disabled := true,
                         line := lead.line } ws)) := by
  simp only [plainDefName, Bool.and_eq_true, bne_iff_ne, ne_eq, Bool.not_eq_true'] at hname
  obtain ⟨⟨⟨⟨⟨⟨⟨n1, n2⟩, n3⟩, n4⟩, n5⟩, n6⟩, n7⟩, n8⟩ := hname
  have hsb : stripBang lead = ({ lead with value := nm }, true) := by
    unfold stripBang
    rw [hv]
    first | rfl | simp
  have m1 : ¬ lead.value = ['#', 'p', 'h', 'i', 'l'] := by rw [hv]; simp
  have m2 : ¬ lead.value = ['}'] := by rw [hv]; simp
  have m3 : ¬ lead.value = ['{'] := by rw [hv]; simp
  have n7' : ¬ nm = ['i', 'n', 'c', 'l', 'u', 'd', 'e'] := by simpa using n7
  have e1 := tryPopUnquoted_of_next h1 hlq
  have e2 := pop_of_next h2
  have e3 := popUnquoted_of_next h2 heq
  cases stop <;>
    simp [collectObjects, e1, e2, e3, m1, m2, m3, hsb, n5, n6, n7', n8, heq, heqv, h3]

/-! ### basic facts -/

theorem enableD_mergeNames_ar3d (x : Obj) : x.enableD.meta.mergeNames = x.meta.mergeNames := by
  cases x <;> simp [Obj.enableD, Obj.meta]

theorem firstMerges_enableD_ar3d (os : List Obj) : firstMerges (enableDList os) = firstMerges os := by
  cases os with
  | nil => simp [enableDList]
  | cons x xs => rw [enableDList]; exact enableD_mergeNames_ar3d x

theorem enableDList_mem_ar3d {os : List Obj} {y : Obj} (hy : y ∈ os) : y.enableD ∈ enableDList os := by
  induction os with
  | nil => cases hy
  | cons x xs ih =>
    rw [enableDList]
    rcases List.mem_cons.mp hy with rfl | hy
    · exact List.mem_cons_self
    · exact List.mem_cons_of_mem _ (ih hy)

theorem firstMerges_rt_ar3d (os : List Obj) :
    firstMerges (stripAttrsList (enableDList os)) = firstMerges os := by
  rw [firstMerges_stripAttrsList_ert, firstMerges_enableD_ar3d]

theorem meta_enabled_eq_ar3d (m : Meta) (h : m.disabled = false) : ({ m with disabled := false } : Meta) = m := by
  cases m; simp_all

/-- object data of a definition of the class: name, id, line, `merge_names`, attributes, the flag -/
theorem meta_eq_of_plainD_ar3d {mg : Bool} {m : Meta}
    (h : PlainMetaPP mg ({ m with disabled := false } : Meta).stripAttrs) :
    m = { name := m.name, id := m.id, line := m.line, mergeNames := mg, attrs := m.attrs, disabled := m.disabled } := by
  unfold PlainMetaPP Meta.stripAttrs at h
  cases m
  simp_all

theorem treeTextB_enabled_defn_ar3d (L w : Int) (m : Meta) (ws : List Word) (ms : List Str) (ind : Str)
    (h : m.disabled = false) : treeTextB L w (.defn m ws) ms ind = treeTextA L w (.defn m ws) ms ind := by
  simp [treeTextB, treeTextA, bangOf, h]

/-- the lead word of a printed item: the (dotted) name, with `!` glued in front for a disabled definition -/
theorem leadWord_ar3d (nm : Str) (hn : ItemName nm) (b : Bool) (V : Str) (l : Nat) :
    nextWordAux structSettings false (((if b then ['!'] else []) ++ nm) ++ ([' '] ++ V)) l
      = .ok (some ({ value := (if b then ['!'] else []) ++ nm, quote := none, line := some l }, ⟨[' '] ++ V, l⟩)) := by
  obtain ⟨c, wd, e, hs, hall⟩ := hn.chars
  have hcont := idStart_cont hs
  obtain ⟨_, _, _, _, h5, _, _, h8, _⟩ := idCont_facts hcont
  have hc := idCont_not_ends hcont
  have hcm : structSettings.commentChars.contains c = false := by
    simp [structSettings, Gen.structComment, h5]
  cases b with
  | false =>
    simp only [Bool.false_eq_true, ↓reduceIte, List.nil_append]
    rw [e]
    exact nextWordAux_plain structSettings c wd _ _ hc (idCont_not_quote hcont) hcm
      (startsLong_of_not_ends rfl hc) (fun d hd => idCont_not_ends (hall d (by simp [hd])))
      (ends_of_isSpace _ (space_blank ' ' (by simp)))
  | true =>
    simp only [↓reduceIte, List.singleton_append]
    have hb : endsUnquoted structSettings '!' = false := by decide
    exact nextWordAux_plain structSettings '!' nm _ _ hb (by decide) (by decide)
      (startsLong_of_not_ends rfl hb) (fun d hd => idCont_not_ends (hall d (by rw [← e]; exact hd)))
      (ends_of_isSpace _ (space_blank ' ' (by simp)))

theorem NextOK_lead_ar3d (ind nm rest : Str) (hb : Blank ind) (hn : ItemName nm) (b : Bool) :
    NextOK (ind ++ ((if b then ['!'] else []) ++ nm) ++ rest) := by
  cases b with
  | false => simpa using NextOK_name ind nm rest hb hn
  | true =>
    intro c hc
    simp only [↓reduceIte, List.singleton_append, List.append_assoc, List.cons_append] at hc
    rw [firstNonSpace_skip_nested ind _ hb.isSpace] at hc
    have h0 : isSpace '!' = false := by decide
    simp only [firstNonSpace, h0, Bool.false_eq_true, ↓reduceIte, Option.some.injEq] at hc
    subst hc
    exact ⟨by decide, by decide, by decide⟩

theorem warnNext_lead_ar3d (ind nm V : Str) (hb : Blank ind) (hn : ItemName nm) (b : Bool) :
    WarnNext (ind ++ ("# WARNING: deprecated parameter\n".toList ++
      (ind ++ ((if b then ['!'] else []) ++ nm) ++ ([' '] ++ V)))) := by
  refine ⟨ind, ind ++ ((if b then ['!'] else []) ++ nm) ++ ([' '] ++ V), hb, warnRest_eq_ar3 _ _,
    fun c hc => (NextOK_lead_ar3d ind nm _ hb hn b c hc).1, fun l => ?_⟩
  rw [List.append_assoc, nextWordAux_skip structSettings ind _ hb.isSpace]
  exact ⟨_, leadWord_ar3d nm hn b V _⟩

theorem bangOf_eq_ar3d (m : Meta) : bangOf m = (if m.disabled then ['!'] else []) := rfl

/-! ### what may follow a definition -/

theorem treeTextB_defn_shape_ar3d (L w : Int) (m : Meta) (ws : List Word) (ms : List Str) (ind more : Str) :
    treeTextB L w (.defn m ws) ms ind ++ more
      = warnText m ind ++ (ind ++ ((if m.disabled then ['!'] else []) ++ dottedName ms m.name) ++ ([' '] ++ ('=' ::
          (wrapTail w (ind ++ defIndent (bangOf m ++ dottedName ms m.name)) ws
            (ind ++ defHead (bangOf m ++ dottedName ms m.name)) ++ '\n' :: (attrBlock true ind L w m.attrs ++ more))))) := by
  rw [treeTextB, bangOf_eq_ar3d]
  simp [List.append_assoc]

theorem NextOK_treeB_ar3d (L w : Int) (x : Obj) :
    ∀ (ms : List Str) (ind more : Str), GoodPath ms → Blank ind → RTNode ms x.enableD.stripAttrs →
      x.startsDep = false → NextOK (treeTextB L w x ms ind ++ more) := by
  induction x using Obj.rec
    (motive_2 := fun os => ∀ (ms : List Str) (ind more : Str), GoodPath ms → Blank ind →
      RTOne ms (stripAttrsList (enableDList os)) → startsDepList os = false →
      NextOK (kidsTextB L w os ms ind ++ more)) with
  | defn m ws =>
    intro ms ind more hp hb h hnd
    rw [Obj.enableD, Obj.stripAttrs_defn] at h
    unfold RTNode at h
    obtain ⟨_, hn, hres, _⟩ := h
    have hdep : depSet m = false := by simpa [Obj.startsDep] using hnd
    rw [treeTextB_defn_shape_ar3d, warnText, hdep]
    simp only [Bool.false_eq_true, ↓reduceIte, List.nil_append]
    exact NextOK_lead_ar3d ind _ _ hb (itemName_dotted hp hn hres) m.disabled
  | scope m os ih =>
    intro ms ind more hp hb h hnd
    rw [Obj.enableD, Obj.stripAttrs_scope] at h
    unfold RTNode at h
    obtain ⟨_, hn, hk⟩ := h
    rcases hk with ⟨hres, hk⟩ | hk
    · have hfm : firstMerges os = false := by
        rw [← firstMerges_rt_ar3d]; exact hk.firstMerges
      rw [treeTextB, hfm]
      simp only [Bool.false_eq_true, ↓reduceIte]
      split
      · simp only [List.append_assoc]
        rw [← List.append_assoc]
        exact NextOK_name ind _ _ hb (itemName_dotted hp hn hres)
      · simp only [List.append_assoc]
        rw [← List.append_assoc]
        exact NextOK_name ind _ _ hb (itemName_dotted hp hn hres)
    · have hfm : firstMerges os = true := by
        rw [← firstMerges_rt_ar3d]; exact hk.firstMerges
      rw [treeTextB, hfm]
      simp only [Obj.startsDep, hfm, ↓reduceIte] at hnd
      exact ih (ms ++ [m.name]) ind more (hp.snoc hn) hb hk hnd
  | nil => rename_i ms ind more hp hb h hnd; rw [enableDList, stripAttrsList_nil] at h; unfold RTOne at h; exact h.elim
  | cons x xs ihx ihxs =>
    rename_i ms ind more hp hb h hnd
    rw [enableDList, stripAttrsList_cons] at h
    unfold RTOne at h
    rw [kidsTextB, List.append_assoc]
    exact ihx ms ind _ hp hb h.1 (by simpa [startsDepList] using hnd)

theorem warnNext_treeB_ar3d (L w : Int) (x : Obj) :
    ∀ (ms : List Str) (ind more : Str), GoodPath ms → Blank ind → RTNode ms x.enableD.stripAttrs →
      x.attrsOKAt L w ind = true → x.startsDep = true →
      3 ≤ L ∧ WarnNext (treeTextB L w x ms ind ++ more) := by
  induction x using Obj.rec
    (motive_2 := fun os => ∀ (ms : List Str) (ind more : Str), GoodPath ms → Blank ind →
      RTOne ms (stripAttrsList (enableDList os)) → attrsOKsAt L w os ind = true → startsDepList os = true →
      3 ≤ L ∧ WarnNext (kidsTextB L w os ms ind ++ more)) with
  | defn m ws =>
    intro ms ind more hp hb h hok hd
    rw [Obj.enableD, Obj.stripAttrs_defn] at h
    unfold RTNode at h
    obtain ⟨_, hn, hres, _⟩ := h
    have hdep : depSet m = true := by simpa [Obj.startsDep] using hd
    simp only [Obj.attrsOKAt, Bool.and_eq_true, hdep, Bool.not_true, Bool.false_or, decide_eq_true_eq] at hok
    refine ⟨hok.2, ?_⟩
    rw [treeTextB_defn_shape_ar3d, warnText, if_pos hdep, List.append_assoc]
    exact warnNext_lead_ar3d ind (dottedName ms m.name) _ hb (itemName_dotted hp hn hres) m.disabled
  | scope m os ih =>
    intro ms ind more hp hb h hok hd
    rw [Obj.enableD, Obj.stripAttrs_scope] at h
    unfold RTNode at h
    obtain ⟨_, hn, hk⟩ := h
    rcases hk with ⟨hres, hk⟩ | hk
    · have hfm : firstMerges os = false := by
        rw [← firstMerges_rt_ar3d]; exact hk.firstMerges
      simp [Obj.startsDep, hfm] at hd
    · have hfm : firstMerges os = true := by
        rw [← firstMerges_rt_ar3d]; exact hk.firstMerges
      rw [treeTextB, hfm]
      simp only [Obj.startsDep, hfm, ↓reduceIte] at hd
      simp only [Obj.attrsOKAt, hfm, ↓reduceIte] at hok
      exact ih (ms ++ [m.name]) ind more (hp.snoc hn) hb hk hok hd
  | nil => rename_i ms ind more hp hb h hok hd; simp [startsDepList] at hd
  | cons x xs ihx ihxs =>
    rename_i ms ind more hp hb h hok hd
    rw [enableDList, stripAttrsList_cons] at h
    unfold RTOne at h
    simp only [attrsOKsAt, Bool.and_eq_true] at hok
    rw [kidsTextB, List.append_assoc]
    exact ihx ms ind _ hp hb h.1 hok.1 (by simpa [startsDepList] using hd)

theorem followOK_kidsB_ar3d (L w : Int) (os : List Obj) (ind tail : Str) (hb : Blank ind)
    (h : RTAll (stripAttrsList (enableDList os))) (hok : attrsOKsAt L w os ind = true) (ht : NextOK tail) :
    FollowOK L (kidsTextB L w os [] ind ++ tail) := by
  cases os with
  | nil => rw [kidsTextB]; exact Or.inl ht
  | cons x xs =>
    rw [enableDList, stripAttrsList_cons] at h
    unfold RTAll at h
    simp only [attrsOKsAt, Bool.and_eq_true] at hok
    rw [kidsTextB, List.append_assoc]
    by_cases hd : x.startsDep = true
    · exact Or.inr (warnNext_treeB_ar3d L w x [] ind _ (by intro n hn; simp at hn) hb h.1 hok.1 hd)
    · exact Or.inl (NextOK_treeB_ar3d L w x [] ind _ (by intro n hn; simp at hn) hb h.1 (by simpa using hd))

/-! ### the turns of `collect_objects` -/

def StepAtB (L w : Int) (x : Obj) (ms : List Str) (ind : Str) : Prop :=
  ∀ (fuel : Nat) (pre more : Str) (l i : Nat) (stop : Option Word) (prevLine : Nat) (acc : List Obj)
    (pending : Option Obj),
    (∀ c ∈ pre, isSpace c = true) → x.costA L ≤ fuel → (x.endsVal = true → FollowOK L more) →
    ∃ x' acc' pending' l' prevLine' fuel',
      collectObjects (fuel + 1) { ci := ⟨pre ++ treeTextB L w x ms ind ++ more, l⟩, nextId := i } stop
          prevLine acc pending
        = collectObjects fuel' { ci := ⟨'\n' :: more, l'⟩, nextId := i + x.items } stop prevLine' acc'
            pending' ∧
      fuel + 1 ≤ fuel' + x.costA L ∧
      flush acc' pending' = flush acc pending ++ [x'] ∧
      x'.erase = (nestIn none false ms (x.normA L)).erase ∧
      x'.ids = (List.replicate ms.length i ++ expIds i x).map some

def StepB (L w : Int) (x : Obj) : Prop :=
  ∀ (ms : List Str) (ind : Str), GoodPath ms → Blank ind → RTNode ms x.enableD.stripAttrs →
    x.allDefns NlOnlyLast → x.attrsOKAt L w ind = true → StepAtB L w x ms ind

/-- the turn for a definition — enabled or disabled — and its attribute lines -/
theorem step_defnB_ar3d (L w : Int) (m : Meta) (ws : List Word) : StepB L w (.defn m ws) := by
  intro ms ind hp hb h hnl hok
  cases hdis : m.disabled with
  | false =>
    -- an enabled definition: the turn of AttrRoundTrip3
    have hm0 : ({ m with disabled := false } : Meta) = m := meta_enabled_eq_ar3d m hdis
    rw [Obj.enableD, hm0] at h
    have hst := step_defnW_ar3 L w m ws ms ind hp hb h
      (wrapsOK_of_nlOnlyLast w _ ms ind ((allDefns_stripAttrs_ert NlOnlyLast _).mpr hnl)) hok
    intro fuel pre more l i stop prevLine acc pending hpre hf hnext0
    rw [treeTextB_enabled_defn_ar3d L w m ws ms ind hdis]
    exact hst fuel pre more l i stop prevLine acc pending hpre hf hnext0
  | true =>
    intro fuel pre more l i stop prevLine acc pending hpre hf hnext0
    have hnext : FollowOK L more := hnext0 (by simp [Obj.endsVal])
    rw [Obj.enableD, Obj.stripAttrs_defn] at h
    unfold RTNode at h
    obtain ⟨hm, hn, hres, hne, hgw⟩ := h
    have hname : ({ m with disabled := false } : Meta).stripAttrs.name = m.name := rfl
    rw [hname] at hn hres
    have hm' := meta_eq_of_plainD_ar3d hm
    rw [hdis] at hm'
    simp only [Obj.attrsOKAt, Bool.and_eq_true] at hok
    have hit := itemName_dotted hp hn hres
    obtain ⟨c, wd, e, hs, hall⟩ := hit.chars
    have hcont := idStart_cont hs
    obtain ⟨_, _, _, _, h5, _, _, h8, _⟩ := idCont_facts hcont
    have hpre' : ∀ d ∈ pre ++ ind, isSpace d = true := by
      intro d hd
      rcases List.mem_append.mp hd with h | h
      · exact hpre d h
      · exact hb.isSpace d h
    have hbang : bangOf m = ['!'] := by simp [bangOf, hdis]
    have hindent : ∀ d ∈ ind ++ defIndent ('!' :: dottedName ms m.name), d = ' ' := by
      intro d hd
      rcases List.mem_append.mp hd with h | h
      · exact hb d h
      · exact defIndent_blank _ d h
    have hAB := NextOK_attrBlock_W_ar3 ind hb L w m.attrs more hnext
    -- the lead word `!name`, on some line `L0`
    obtain ⟨L0, hhead⟩ : ∃ L0, ∀ V : Str,
        nextWord structSettings ⟨pre ++ (warnText m ind ++ ind) ++ ('!' :: dottedName ms m.name) ++ ([' '] ++ '=' :: V), l⟩
          = .ok (some ({ value := '!' :: dottedName ms m.name, quote := none, line := some L0 }, ⟨[' '] ++ '=' :: V, L0⟩)) := by
      have hword : ∀ (V : Str) (l1 : Nat),
          nextWordAux structSettings false (('!' :: dottedName ms m.name) ++ ([' '] ++ '=' :: V)) l1
          = .ok (some ({ value := '!' :: dottedName ms m.name, quote := none, line := some l1 }, ⟨[' '] ++ '=' :: V, l1⟩)) := by
        intro V l1
        have := leadWord_ar3d (dottedName ms m.name) hit true ('=' :: V) l1
        simpa using this
      by_cases hd : depSet m = true
      · refine ⟨l + nlCount (pre ++ ind) + 1 + nlCount ind, fun V => ?_⟩
        have ht : pre ++ (warnText m ind ++ ind) ++ ('!' :: dottedName ms m.name) ++ ([' '] ++ '=' :: V)
            = (pre ++ ind) ++ ("# WARNING: deprecated parameter\n".toList ++
                (ind ++ (('!' :: dottedName ms m.name) ++ ([' '] ++ '=' :: V)))) := by
          simp [warnText, hd]
        unfold nextWord
        simp only []
        rw [ht, nextWordAux_skip structSettings (pre ++ ind) _ hpre', warn_skip_art,
          nextWordAux_skip structSettings ind _ hb.isSpace]
        exact hword V _
      · refine ⟨l + nlCount (pre ++ ind), fun V => ?_⟩
        have ht : pre ++ (warnText m ind ++ ind) ++ ('!' :: dottedName ms m.name) ++ ([' '] ++ '=' :: V)
            = (pre ++ ind) ++ (('!' :: dottedName ms m.name) ++ ([' '] ++ '=' :: V)) := by
          simp [warnText, hd]
        unfold nextWord
        simp only []
        rw [ht, nextWordAux_skip structSettings (pre ++ ind) _ hpre']
        exact hword V _
    have hci : (⟨pre ++ treeTextB L w (.defn m ws) ms ind ++ more, l⟩ : CI)
        = ⟨pre ++ (warnText m ind ++ ind) ++ ('!' :: dottedName ms m.name) ++ ([' '] ++ '=' ::
            (wrapTail w (ind ++ defIndent ('!' :: dottedName ms m.name)) ws (ind ++ defHead ('!' :: dottedName ms m.name))
              ++ '\n' :: (attrBlock true ind L w m.attrs ++ more))), l⟩ := by
      rw [treeTextB, hbang]; simp
    have h2 := fun V => nextWord_struct_eq [' '] V L0 space_blank
    have hwr : wrapOK w (ind ++ defIndent ('!' :: dottedName ms m.name)) ws (ind ++ defHead ('!' :: dottedName ms m.name)) true = true := by
      unfold Obj.allDefns at hnl
      exact wrapOK_of_noNl w _ ws _ true (fun _ => rfl) (fun v hv => nlCount_of_not_mem (hnl v hv))
    have h3 := collectAssigned_wrapped w (ind ++ defIndent ('!' :: dottedName ms m.name))
      (ind ++ defHead ('!' :: dottedName ms m.name)) ws (attrBlock true ind L w m.attrs ++ more)
      (L0 + nlCount [' '])
      { value := c :: wd, quote := none, line := some L0 } hindent hne hgw hwr
      (by rw [nlCount_blank]; rfl) (by rw [isUnq_backslash]; simp [h8]) hAB
    obtain ⟨k, hk⟩ : ∃ k, k = (shownAttrs true L m.attrs).length := ⟨_, rfl⟩
    have hcost : (Obj.defn m ws).costA L = 1 + k := by rw [Obj.costA, hk]
    obtain ⟨f0, hf0⟩ : ∃ f0, fuel = f0 + k := ⟨fuel - k, by rw [hcost] at hf; omega⟩
    have hstep := collectObjects_defn_bang_step_ar3d fuel
      { ci := ⟨pre ++ treeTextB L w (.defn m ws) ms ind ++ more, l⟩, nextId := i } stop prevLine acc pending
      { value := '!' :: dottedName ms m.name, quote := none, line := some L0 }
      { value := ['='], quote := none, line := some (L0 + nlCount [' ']) } (c :: wd) _ _ _ _
      (by rw [hci]; exact hhead _) rfl (by rw [e]) (by rw [← e]; exact hit.defName) (h2 _) rfl rfl h3
    obtain ⟨l', prevLine', hblock⟩ := defn_attrs_block2_W_ar3 ind hb L w m.attrs hok.1 f0 more
      (wrapEnd w (ind ++ defIndent ('!' :: dottedName ms m.name)) ws (ind ++ defHead ('!' :: dottedName ms m.name))
        (L0 + nlCount [' '])) (i + 1) stop L0 (flush acc pending)
      (.defn { name := c :: wd, id := some i, disabled := true, line := some L0 }
        (wrapWords w (ind ++ defIndent ('!' :: dottedName ms m.name)) ws (ind ++ defHead ('!' :: dottedName ms m.name))
          (L0 + nlCount [' '])))
      hnext
    rw [← hk] at hblock
    refine ⟨wrapDotted (.defn { name := c :: wd, id := some i, disabled := true, line := some L0, attrs := shownAttrs true L m.attrs }
        (wrapWords w (ind ++ defIndent ('!' :: dottedName ms m.name)) ws (ind ++ defHead ('!' :: dottedName ms m.name))
          (L0 + nlCount [' '])))
      , flush acc pending,
      some (.defn { name := c :: wd, id := some i, disabled := true, line := some L0, attrs := shownAttrs true L m.attrs }
        (wrapWords w (ind ++ defIndent ('!' :: dottedName ms m.name)) ws (ind ++ defHead ('!' :: dottedName ms m.name))
          (L0 + nlCount [' ']))),
      l', prevLine', f0, ?_, by rw [hcost]; omega, by simp [flush, adopt], ?_, ?_⟩
    · rw [hstep]
      simp only [Option.getD_some]
      rw [hf0, hblock]
      simp [withMeta_defn_art, Obj.items]
    · rw [wrapDotted_dotted _ ms m.name (by rw [← e]; rfl)
        (fun n hn' => (hp.snoc hn).noDots n hn') rfl, nestIn_erase, nestIn_erase]
      rw [hm']
      simp only [Obj.withMeta, Obj.normA, Obj.erase_defn, wrapWords_erase]
      rfl
    · rw [wrapDotted_dotted _ ms m.name (by rw [← e]; rfl)
        (fun n hn' => (hp.snoc hn).noDots n hn') rfl, nestIn_ids]
      simp [Obj.withMeta, Obj.ids, expIds, Obj.meta]

/-! ### blocks, scopes, the whole document -/

def BlockAtB (L w : Int) (os : List Obj) (ind : Str) : Prop :=
  ∀ (fuel : Nat) (pre tail after : Str) (l i : Nat) (stop : Option Word) (prevLine : Nat)
    (acc : List Obj) (pending : Option Obj),
    (∀ c ∈ pre, isSpace c = true) → costAList L os + 1 ≤ fuel → Closes stop tail after →
    ∃ objs' st',
      collectObjects fuel { ci := ⟨pre ++ kidsTextB L w os [] ind ++ tail, l⟩, nextId := i } stop prevLine
          acc pending
        = .ok (flush acc pending ++ objs', st') ∧
      st'.nextId = i + itemsList os ∧ (stop.isSome = true → ∃ l', st'.ci = ⟨after, l'⟩) ∧
      eraseList objs' = eraseList (normAList L os) ∧ idsList objs' = (expIdsSeq i os).map some

theorem block_nilB_ar3d (L w : Int) (ind : Str) : BlockAtB L w [] ind := by
  intro fuel pre tail after l i stop prevLine acc pending hpre hf hc
  have := block_nilA_art L w ind fuel pre tail after l i stop prevLine acc pending hpre hf hc
  simpa [kidsTextA, kidsTextB] using this

theorem block_of_stepsB_ar3d (L w : Int) (os : List Obj) (ind : Str) (hb : Blank ind) :
    (∀ x ∈ os, StepAtB L w x [] ind) → RTAll (stripAttrsList (enableDList os)) → attrsOKsAt L w os ind = true →
      BlockAtB L w os ind := by
  induction os with
  | nil => intro _ _ _; exact block_nilB_ar3d L w ind
  | cons x xs ih =>
    intro hs hrt hok fuel pre tail after l i stop prevLine acc pending hpre hf hc
    have hrt' := hrt
    rw [enableDList, stripAttrsList_cons] at hrt'
    unfold RTAll at hrt'
    have hok' := hok
    simp only [attrsOKsAt, Bool.and_eq_true] at hok'
    obtain ⟨f, rfl⟩ : ∃ f, fuel = f + 1 := ⟨fuel - 1, by omega⟩
    have hfx : x.costA L ≤ f := by simp only [costAList] at hf; omega
    obtain ⟨x', acc', pending', l', prevLine', fuel', hstep, hfu, hflush, her, hid⟩ :=
      hs x (by simp) f pre (kidsTextB L w xs [] ind ++ tail) l i stop prevLine acc pending hpre hfx
        (fun _ => followOK_kidsB_ar3d L w xs ind tail hb hrt'.2 hok'.2 hc.nextOK)
    have hfxs : costAList L xs + 1 ≤ fuel' := by
      simp only [costAList] at hf
      omega
    obtain ⟨objs', st', hrest, hnid, hci, her', hid'⟩ :=
      ih (fun y hy => hs y (by simp [hy])) hrt'.2 hok'.2 fuel' ['\n'] tail after l' (i + x.items) stop
        prevLine' acc' pending' space_nl hfxs hc
    refine ⟨x' :: objs', st', ?_, ?_, hci, ?_, ?_⟩
    · have e : pre ++ kidsTextB L w (x :: xs) [] ind ++ tail
          = pre ++ treeTextB L w x [] ind ++ (kidsTextB L w xs [] ind ++ tail) := by
        rw [kidsTextB]; simp
      rw [e, hstep]
      have e2 : '\n' :: (kidsTextB L w xs [] ind ++ tail) = ['\n'] ++ kidsTextB L w xs [] ind ++ tail := rfl
      rw [e2, hrest, hflush]
      simp
    · rw [hnid, itemsList]; omega
    · rw [eraseList_cons, normAList, eraseList_cons, her', her]; rfl
    · rw [idsList, hid, hid', expIdsSeq]; simp

theorem treeTextB_scope_proper_ar3d (L w : Int) (m : Meta) (os : List Obj) (ms : List Str) (ind : Str)
    (hfm : firstMerges os = false) :
    treeTextB L w (.scope m os) ms ind
      = ind ++ dottedName ms m.name ++ headTail ind L w m.attrs
          ('\n' :: (kidsTextB L w os [] (deeper ind) ++ (ind ++ ['}', '\n']))) := by
  rw [treeTextB, hfm]
  simp only [Bool.false_eq_true, ↓reduceIte, headTail]
  split <;> simp [List.append_assoc]

/-- the turn for a proper (enabled) scope, given the recursive call for its body -/
theorem step_scope_properB_ar3d (L w : Int) (m : Meta) (os : List Obj) (ms : List Str) (ind : Str)
    (hp : GoodPath ms) (hb : Blank ind) (hm : PlainMetaPP (!ms.isEmpty) m.stripAttrs)
    (hn : goodName m.name = true) (hres : isReserved (dottedName ms m.name) = false)
    (hfm : firstMerges os = false) (hok : attrsOK false ind L w m.attrs = true)
    (hbody : BlockAtB L w os (deeper ind)) : StepAtB L w (.scope m os) ms ind := by
  intro fuel pre more l i stop prevLine acc pending hpre hf hnext
  have hit := itemName_dotted hp hn hres
  have hm' := meta_eq_of_plain_art hm
  have hpre' : ∀ d ∈ pre ++ ind, isSpace d = true := by
    intro d hd
    rcases List.mem_append.mp hd with h | h
    · exact hpre d h
    · exact hb.isSpace d h
  have htext : pre ++ treeTextB L w (.scope m os) ms ind ++ more
      = (pre ++ ind) ++ dottedName ms m.name ++ headTail ind L w m.attrs
          (['\n'] ++ kidsTextB L w os [] (deeper ind) ++ (ind ++ '}' :: ('\n' :: more))) := by
    rw [treeTextB_scope_proper_ar3d L w m os ms ind hfm]
    unfold headTail
    split <;> simp [List.append_assoc]
  have hcost : (Obj.scope m os).costA L = 1 + costAList L os := by
    rw [Obj.costA, hfm]; simp
  have hfb : costAList L os + 1 ≤ fuel := by rw [hcost] at hf; omega
  obtain ⟨l0, bl, hopen⟩ := collectObjects_open_scopeA_art fuel stop prevLine acc pending (pre ++ ind)
    (dottedName ms m.name)
    (['\n'] ++ kidsTextB L w os [] (deeper ind) ++ (ind ++ '}' :: ('\n' :: more))) ind l i L w m.attrs hpre'
    hit hb hok
  obtain ⟨objs', st', hrun, hnid, hci, her, hid⟩ :=
    hbody fuel ['\n'] (ind ++ '}' :: ('\n' :: more)) ('\n' :: more) l0 (i + 1)
      (some { value := ['{'], quote := none, line := some bl }) 0 [] none
      space_nl hfb (Or.inr ⟨_, ind, rfl, hb, rfl⟩)
  obtain ⟨l', hci'⟩ := hci rfl
  have hitems : (Obj.scope m os).items = 1 + itemsList os := by
    rw [Obj.items, hfm]; simp
  have hst : st' = { ci := ⟨'\n' :: more, l'⟩, nextId := i + (Obj.scope m os).items } := by
    cases st' with
    | mk ci nid =>
      simp only at hci' hnid
      rw [hci', hnid, hitems]
      congr 1
      omega
  refine ⟨wrapDotted (.scope { name := dottedName ms m.name, id := some i, line := some (l + nlCount (pre ++ ind)), attrs := shownAttrs false L m.attrs } objs'),
    _, none, l', l + nlCount (pre ++ ind), fuel, ?_, by rw [hcost]; omega, rfl, ?_, ?_⟩
  · rw [htext, hopen, hrun]
    simp only [flush, List.nil_append, scopeCont, adopt, hst]
  · rw [wrapDotted_dotted _ ms m.name rfl (fun n hn' => (hp.snoc hn).noDots n hn') rfl, nestIn_erase,
      nestIn_erase]
    rw [hm']
    simp only [Obj.withMeta, Obj.normA, hfm, Obj.erase_scope, her, Bool.false_eq_true, ↓reduceIte]
    rfl
  · rw [wrapDotted_dotted _ ms m.name rfl (fun n hn' => (hp.snoc hn).noDots n hn') rfl, nestIn_ids]
    simp [Obj.withMeta, Obj.ids, expIds, Obj.meta, hid, hfm]

/-- the turn for a scope that merges its name into the name of its only child -/
theorem step_scope_chainB_ar3d (L w : Int) (m : Meta) (c : Obj) (ms : List Str) (ind : Str)
    (hm : PlainMetaPP (!ms.isEmpty) m.stripAttrs) (hfm : c.meta.mergeNames = true)
    (hc : StepAtB L w c (ms ++ [m.name]) ind) : StepAtB L w (.scope m [c]) ms ind := by
  intro fuel pre more l i stop prevLine acc pending hpre hf hnext
  have hfm' : firstMerges [c] = true := hfm
  have hm' := meta_eq_of_plain_art hm
  have hcost : (Obj.scope m [c]).costA L = c.costA L := by
    rw [Obj.costA, hfm']; simp [costAList]
  have hfc : c.costA L ≤ fuel := by rw [hcost] at hf; exact hf
  obtain ⟨x', acc', pending', l', prevLine', fuel', hstep, hfu, hflush, her, hid⟩ :=
    hc fuel pre more l i stop prevLine acc pending hpre hfc
      (fun he => hnext (by simp [Obj.endsVal, hfm', endsValList, he]))
  have htext : treeTextB L w (.scope m [c]) ms ind = treeTextB L w c (ms ++ [m.name]) ind := by
    rw [treeTextB, hfm']; simp [kidsTextB]
  have hitems : (Obj.scope m [c]).items = c.items := by
    rw [Obj.items, hfm']; simp [itemsList]
  refine ⟨x', acc', pending', l', prevLine', fuel', by rw [htext, hitems]; exact hstep,
    by rw [hcost]; exact hfu, hflush, ?_, ?_⟩
  · rw [her, nestIn_snoc, nestIn_erase, nestIn_erase]
    rw [hm']
    simp only [Obj.normA, hfm', normAList, Obj.erase_scope, eraseList_cons, eraseList_nil, ↓reduceIte,
      Bool.false_or]
    rfl
  · rw [hid, expIds, hfm']
    simp [expIdsSame, List.replicate_succ']

theorem mem_rt_ar3d {os : List Obj} {y : Obj} (hy : y ∈ os) :
    y.enableD.stripAttrs ∈ stripAttrsList (enableDList os) :=
  mem_stripAttrsList_art (enableDList_mem_ar3d hy)

/-- **every tree of the class — disabled definitions included — is read back by its turns** -/
theorem step_allB_ar3d (L w : Int) (x : Obj) : StepB L w x := by
  induction x using Obj.rec (motive_2 := fun os => ∀ y ∈ os, StepB L w y) with
  | defn m ws => exact step_defnB_ar3d L w m ws
  | scope m os ih =>
    intro ms ind hp hb h hnl hok
    rw [Obj.enableD, Obj.stripAttrs_scope] at h
    unfold RTNode at h
    obtain ⟨hm, hn, hk⟩ := h
    have hname : m.stripAttrs.name = m.name := rfl
    rw [hname] at hn hk
    unfold Obj.allDefns at hnl
    rcases hk with ⟨hres, hk⟩ | hk
    · have hfm' : firstMerges os = false := by rw [← firstMerges_rt_ar3d]; exact hk.firstMerges
      simp only [Obj.attrsOKAt, hfm', Bool.false_eq_true, ↓reduceIte, Bool.and_eq_true] at hok
      have hsteps : ∀ y ∈ os, StepAtB L w y [] (deeper ind) := fun y hy =>
        ih y hy [] (deeper ind) (by intro n hn; simp at hn) hb.deeper
          ((RTAll_iff _).mp hk _ (mem_rt_ar3d hy))
          ((allDefnsList_iff NlOnlyLast os).mp hnl y hy)
          ((attrsOKsAt_iff_art L w os (deeper ind)).mp hok.2 y hy)
      exact step_scope_properB_ar3d L w m os ms ind hp hb hm hn hres hfm' hok.1
        (block_of_stepsB_ar3d L w os (deeper ind) hb.deeper hsteps hk hok.2)
    · have hfm' : firstMerges os = true := by rw [← firstMerges_rt_ar3d]; exact hk.firstMerges
      simp only [Obj.attrsOKAt, hfm', ↓reduceIte] at hok
      cases os with
      | nil => rw [enableDList, stripAttrsList_nil] at hk; unfold RTOne at hk; exact hk.elim
      | cons c cs =>
        rw [enableDList, stripAttrsList_cons] at hk
        unfold RTOne at hk
        obtain ⟨hc, hcs⟩ := hk
        have : cs = [] := by
          cases cs with
          | nil => rfl
          | cons y ys => rw [enableDList, stripAttrsList_cons] at hcs; cases hcs
        subst this
        unfold allDefnsList at hnl
        simp only [attrsOKsAt, Bool.and_true] at hok
        exact step_scope_chainB_ar3d L w m c ms ind hm hfm'
          (ih c (by simp) (ms ++ [m.name]) ind (hp.snoc hn) hb hc hnl.1 hok)
  | nil => rename_i y hy; simp at hy
  | cons x xs ihx ihxs =>
    rename_i y hy
    rcases List.mem_cons.mp hy with rfl | hy
    · exact ihx
    · exact ihxs y hy

theorem costA_le_textB_ar3d (L w : Int) (x : Obj) :
    ∀ (ms : List Str) (ind : Str), x.costA L ≤ (treeTextB L w x ms ind).length := by
  induction x using Obj.rec
    (motive_2 := fun os => ∀ (ms : List Str) (ind : Str),
      costAList L os ≤ (kidsTextB L w os ms ind).length) with
  | defn m ws =>
    intro ms ind
    rw [treeTextB, Obj.costA]
    have : (shownAttrs true L m.attrs).length ≤ (attrBlock true ind L w m.attrs).length := by
      unfold shownAttrs attrBlock
      split
      · simp
      · exact shownCount_le_text_art ind L w m.attrs _
    simp only [List.length_append, List.length_cons, List.length_nil]
    omega
  | scope m os ih =>
    intro ms ind
    rw [treeTextB, Obj.costA]
    split
    · exact ih _ _
    · have := ih [] (deeper ind)
      split <;> (simp only [List.length_append, List.length_cons]; omega)
  | nil => rename_i ms ind; simp [costAList]
  | cons x xs ihx ihxs =>
    rename_i ms ind
    rw [kidsTextB, costAList, List.length_append]
    have := ihx ms ind
    have := ihxs ms ind
    omega

theorem costAList_le_textB_ar3d (L w : Int) (os : List Obj) (ms : List Str) (ind : Str) :
    costAList L os ≤ (kidsTextB L w os ms ind).length := by
  induction os with
  | nil => simp [costAList]
  | cons x xs ih =>
    rw [kidsTextB, costAList, List.length_append]
    have := costA_le_textB_ar3d L w x ms ind
    omega

/-- **`parse` of the printed text of a document of trees with attributes and disabled definitions** -/
theorem parseObjs_treesB_ar3d (L w : Int) (objs : List Obj) (ind : Str) (hb : Blank ind)
    (h : RTAll (stripAttrsList (enableDList objs))) (hnl : allDefnsList NlOnlyLast objs)
    (hok : attrsOKsAt L w objs ind = true) :
    ∃ objs', parseObjs (kidsTextB L w objs [] ind) = .ok objs' ∧
      eraseList objs' = eraseList (normAList L objs) ∧
      idsList objs' = (expIdsSeq 1 objs).map some := by
  have hsteps : ∀ y ∈ objs, StepAtB L w y [] ind := fun y hy =>
    step_allB_ar3d L w y [] ind (by intro n hn; simp at hn) hb
      ((RTAll_iff _).mp h _ (mem_rt_ar3d hy))
      ((allDefnsList_iff NlOnlyLast objs).mp hnl y hy)
      ((attrsOKsAt_iff_art L w objs ind).mp hok y hy)
  obtain ⟨objs', st', hrun, _, _, her, hid⟩ :=
    block_of_stepsB_ar3d L w objs ind hb hsteps h hok ((kidsTextB L w objs [] ind).length + 2) [] [] [] 1 1
      none 0 [] none (by intro c hc; simp at hc)
      (by have := costAList_le_textB_ar3d L w objs [] ind; omega) (Or.inl ⟨rfl, rfl⟩)
  refine ⟨objs', ?_, her, hid⟩
  unfold parseObjs
  simp only [List.nil_append, List.append_nil] at hrun
  rw [hrun]
  simp [flush]

/-! ### the printer -/

theorem showDefn_genB_ar3d (o : ShowOpts) (he : o.expert = none) (m : Meta) (mg : Bool)
    (hm : PlainMetaPP mg ({ m with disabled := false } : Meta).stripAttrs) (ws : List Word) (ms : List Str)
    (ind : Str) (hb : Blank ind) (hinc : m.name ≠ "include".toList)
    (hok : attrsOK true ind o.level o.width m.attrs = true) (hdep : depSet m = true → 3 ≤ o.level) :
    ∃ lines, showDefn o m ws ms ind = .ok lines ∧
      unlines lines = treeTextB o.level o.width (.defn m ws) ms ind := by
  obtain ⟨als, ea, ta, _⟩ := showAttributes_block_art true ind hb o.level o.width m.attrs hok
  have hm' := meta_eq_of_plainD_ar3d hm
  have hline : defnLine m ms ind = ind ++ (bangOf m ++ dottedName ms m.name) ++ [' ', '='] := by
    simp only [defnLine, bangOf, bne_iff_ne, ne_eq, hinc, not_false_eq_true, ↓reduceIte, dottedName]
    simp
  have htmpl : m.tmpl = 0 := by rw [hm']
  have hgate : ((m.attrs.get "deprecated").truthy && decide (o.level < 3)) = false := by
    cases hd : (m.attrs.get "deprecated").truthy with
    | false => rfl
    | true =>
      have := hdep hd
      simp; omega
  have h0 : ¬ ((0 : Int) < 0) := by omega
  have ea' : showAttributes defAttrNames m.attrs ind o.level o.width = .ok als := ea
  refine ⟨(if (m.attrs.get "deprecated").truthy then
      [ind ++ "# WARNING: deprecated parameter".toList] else []) ++
    showWords o.width (ind ++ spaces ((ind ++ (bangOf m ++ dottedName ms m.name) ++ [' ', '=']).length - ind.length)) ws
      (ind ++ (bangOf m ++ dottedName ms m.name) ++ [' ', '=']) [] ++ als, ?_, ?_⟩
  · rw [showDefn_eq, htmpl, hgate, he, expertHidden_none]
    simp only [h0, decide_false, Bool.false_and, Bool.false_eq_true, ↓reduceIte, expertGate_false,
      showDefnBody, hline, ea']
  · rw [unlines_append, unlines_append, unlines_showWords, ta, treeTextB]
    have e : List.length (ind ++ (bangOf m ++ dottedName ms m.name) ++ [' ', '=']) - List.length ind
        = List.length (bangOf m ++ dottedName ms m.name) + 2 := by
      simp only [List.length_append, List.length_cons, List.length_nil]; omega
    rw [e]
    simp only [warnText, depSet]
    by_cases hd : (m.attrs.get "deprecated").truthy = true
    · simp [hd, unlines, defHead, defIndent, List.append_assoc]
    · simp [hd, unlines, defHead, defIndent, List.append_assoc]

theorem showScope_properB_ar3d (o : ShowOpts) (he : o.expert = none) (m : Meta) (mg : Bool)
    (hm : PlainMetaPP mg m.stripAttrs) (os : List Obj) (ms : List Str) (ind : Str) (hb : Blank ind)
    (hne : m.name ≠ [])
    (hfm : firstMerges os = false) (hok : attrsOK false ind o.level o.width m.attrs = true)
    (body : List Str) (hbody : showObjs o os [] (deeper ind) = .ok body)
    (hbt : unlines body = kidsTextB o.level o.width os [] (deeper ind)) :
    ∃ lines, showObj o (.scope m os) ms ind = .ok lines ∧
      unlines lines = treeTextB o.level o.width (.scope m os) ms ind := by
  obtain ⟨als, ea, ta, hemp⟩ := showAttributes_block_art false ind hb o.level o.width m.attrs hok
  have ea' : showAttributes scopeAttrNames m.attrs ind o.level o.width = .ok als := ea
  have hm' := meta_eq_of_plain_art hm
  have htmpl : m.tmpl = 0 := by rw [hm']
  have hdis : m.disabled = false := by rw [hm']
  have h0 : ¬ ((0 : Int) < 0) := by omega
  have hemp' : m.name.isEmpty = false := by
    cases hn : m.name with
    | nil => exact absurd hn hne
    | cons _ _ => rfl
  have hb2 : showObjs o os [] (ind ++ "  ".toList) = .ok body := hbody
  refine ⟨(if als.isEmpty then [ind ++ dottedName ms m.name ++ " {".toList]
            else [ind ++ dottedName ms m.name] ++ als ++ [ind ++ ['{']]) ++ body ++ [ind ++ ['}']], ?_, ?_⟩
  · rw [showObj_scope_eq, hfm, htmpl, he, expertHidden_none]
    simp only [h0, decide_false, Bool.false_and, Bool.false_eq_true, ↓reduceIte, expertGate_false,
      showScopeBody, hemp', ea', hdis, hb2, List.append_nil, dottedName]
  · rw [treeTextB, hfm, ← hemp]
    simp only [Bool.false_eq_true, ↓reduceIte]
    by_cases hae : als.isEmpty = true
    · simp only [hae, ↓reduceIte, unlines_append, hbt]
      simp [unlines, List.append_assoc]
    · simp only [hae, Bool.false_eq_true, ↓reduceIte, unlines_append, hbt, ta]
      simp [unlines, List.append_assoc]

/-- **the printer on the class with disabled definitions**: what `show` prints is `treeTextB` -/
theorem showObj_treeB_ar3d (o : ShowOpts) (he : o.expert = none) (x : Obj) :
    ∀ (ms : List Str) (ind : Str), Blank ind → RTNode ms x.enableD.stripAttrs →
      x.attrsOKAt o.level o.width ind = true →
      ∃ lines, showObj o x ms ind = .ok lines ∧ unlines lines = treeTextB o.level o.width x ms ind := by
  induction x using Obj.rec
    (motive_2 := fun os => ∀ (ms : List Str) (ind : Str), Blank ind →
      ((RTAll (stripAttrsList (enableDList os)) ∧ ms = []) ∨ RTOne ms (stripAttrsList (enableDList os))) →
      attrsOKsAt o.level o.width os ind = true →
      ∃ lines, showObjs o os ms ind = .ok lines ∧ unlines lines = kidsTextB o.level o.width os ms ind) with
  | defn m ws =>
    intro ms ind hbl h hok
    rw [Obj.enableD, Obj.stripAttrs_defn] at h
    unfold RTNode at h
    obtain ⟨hm, hn, _, _⟩ := h
    simp only [Obj.attrsOKAt, Bool.and_eq_true, Bool.or_eq_true, Bool.not_eq_true', decide_eq_true_eq] at hok
    rw [showObj_defn_eq]
    exact showDefn_genB_ar3d o he m _ hm ws ms ind hbl (goodName_not_include hn) hok.1
      (fun hd => by rcases hok.2 with h | h; · rw [hd] at h; cases h
                    · exact h)
  | scope m os ih =>
    intro ms ind hbl h hok
    rw [Obj.enableD, Obj.stripAttrs_scope] at h
    unfold RTNode at h
    obtain ⟨hm, hn, hk⟩ := h
    have hne : m.name ≠ [] := goodName_ne_nil hn
    rcases hk with ⟨_, hk⟩ | hk
    · have hfm : firstMerges os = false := by
        rw [← firstMerges_rt_ar3d]; exact hk.firstMerges
      simp only [Obj.attrsOKAt, hfm, Bool.false_eq_true, ↓reduceIte, Bool.and_eq_true] at hok
      obtain ⟨body, hb, hbt⟩ := ih [] (deeper ind) hbl.deeper (Or.inl ⟨hk, rfl⟩) hok.2
      exact showScope_properB_ar3d o he m _ hm os ms ind hbl hne hfm hok.1 body hb hbt
    · have hfm : firstMerges os = true := by
        rw [← firstMerges_rt_ar3d]; exact hk.firstMerges
      simp only [Obj.attrsOKAt, hfm, ↓reduceIte] at hok
      obtain ⟨lines, hb, hbt⟩ := ih (ms ++ [m.name]) ind hbl (Or.inr hk) hok
      refine ⟨lines, by rw [showScope_mergingA_art o he m _ hm os ms ind hne hfm]; exact hb, ?_⟩
      rw [treeTextB, hfm, hbt]
      rfl
  | nil => exact ⟨[], rfl, rfl⟩
  | cons x xs ihx ihxs =>
    rename_i ms ind hbl h hok
    simp only [attrsOKsAt, Bool.and_eq_true] at hok
    rw [enableDList, stripAttrsList_cons] at h
    have hx : RTNode ms x.enableD.stripAttrs ∧
        ((RTAll (stripAttrsList (enableDList xs)) ∧ ms = []) ∨ xs = []) := by
      rcases h with ⟨h, e⟩ | h
      · unfold RTAll at h; subst e; exact ⟨h.1, Or.inl ⟨h.2, rfl⟩⟩
      · unfold RTOne at h
        refine ⟨h.1, Or.inr ?_⟩
        cases xs with
        | nil => rfl
        | cons y ys => rw [enableDList, stripAttrsList_cons] at h; cases h.2
    obtain ⟨h1, h2⟩ := hx
    obtain ⟨l1, e1, t1⟩ := ihx ms ind hbl h1 hok.1
    obtain ⟨l2, e2, t2⟩ : ∃ lines, showObjs o xs ms ind = .ok lines ∧
        unlines lines = kidsTextB o.level o.width xs ms ind := by
      rcases h2 with h2 | h2
      · exact ihxs ms ind hbl (Or.inl h2) hok.2
      · subst h2; exact ⟨[], rfl, by rw [kidsTextB]; rfl⟩
    refine ⟨l1 ++ l2, by rw [showObjs_cons, e1, e2]; rfl, ?_⟩
    rw [unlines_append, t1, t2, kidsTextB]

/-- printing the root scope of a document of trees with attributes and disabled definitions -/
theorem asStr_treesB_ar3d (o : ShowOpts) (he : o.expert = none) (objs : List Obj) (ind : Str)
    (hbl : Blank ind) (h : RTAll (stripAttrsList (enableDList objs)))
    (hok : attrsOKsAt o.level o.width objs ind = true) :
    asStr o (rootOf objs) ind = .ok (kidsTextB o.level o.width objs [] ind) := by
  have : ∃ lines, showObjs o objs [] ind = .ok lines ∧
      unlines lines = kidsTextB o.level o.width objs [] ind := by
    induction objs with
    | nil => exact ⟨[], rfl, rfl⟩
    | cons x xs ih =>
      rw [enableDList, stripAttrsList_cons] at h
      unfold RTAll at h
      simp only [attrsOKsAt, Bool.and_eq_true] at hok
      obtain ⟨l1, e1, t1⟩ := showObj_treeB_ar3d o he x [] ind hbl h.1 hok.1
      obtain ⟨l2, e2, t2⟩ := ih h.2 hok.2
      refine ⟨l1 ++ l2, by rw [showObjs_cons, e1, e2]; rfl, ?_⟩
      rw [unlines_append, t1, t2, kidsTextB]
  obtain ⟨lines, e, t⟩ := this
  rw [asStr_root_pre_ert, e]
  simp only [Except.map, t]

/-! ### the normalised tree prints as the original -/

theorem normA_textB_ar3d (L w : Int) (x : Obj) :
    ∀ (ind : Str), x.attrsOKAt L w ind = true →
      ∀ ms, treeTextB L w (x.normA L) ms ind = treeTextB L w x ms ind := by
  induction x using Obj.rec
    (motive_2 := fun os => ∀ (ind : Str), attrsOKsAt L w os ind = true →
      ∀ ms, kidsTextB L w (normAList L os) ms ind = kidsTextB L w os ms ind) with
  | defn m ws =>
    intro ind hok ms
    simp only [Obj.attrsOKAt, Bool.and_eq_true, Bool.or_eq_true, Bool.not_eq_true', decide_eq_true_eq] at hok
    have hdepc : depSet m = true → 3 ≤ L := fun hd => by
      rcases hok.2 with h | h
      · rw [hd] at h; cases h
      · exact h
    have hdep := depSet_normA_art L m hdepc
    obtain ⟨n1, n2, n3⟩ := shownAttrs_norm_art true ind L w m.attrs
    rw [Obj.normA_defn_art, treeTextB, treeTextB]
    simp only [warnText, hdep, n2, bangOf]
  | scope m os ih =>
    intro ind hok ms
    rw [Obj.normA_scope_art]
    by_cases hfm : firstMerges os = true
    · simp only [Obj.attrsOKAt, hfm, ↓reduceIte] at hok
      rw [treeTextB, treeTextB, firstMerges_normAList_art, hfm]
      simp only [↓reduceIte]
      exact ih ind hok _
    · have hfm' : firstMerges os = false := by simpa using hfm
      simp only [Obj.attrsOKAt, hfm', Bool.false_eq_true, ↓reduceIte, Bool.and_eq_true] at hok
      have i3 := ih (deeper ind) hok.2
      obtain ⟨n1, n2, n3⟩ := shownAttrs_norm_art false ind L w m.attrs
      rw [treeTextB, treeTextB, firstMerges_normAList_art, hfm']
      simp only [Bool.false_eq_true, ↓reduceIte, n1, n2, i3]
  | nil => rfl
  | cons x xs ihx ihxs =>
    rename_i ind hok ms
    simp only [attrsOKsAt, Bool.and_eq_true] at hok
    rw [normAList_cons_art, kidsTextB, kidsTextB, ihx ind hok.1, ihxs ind hok.2]

theorem normAList_textB_ar3d (L w : Int) (os : List Obj) (ind : Str) (hok : attrsOKsAt L w os ind = true)
    (ms : List Str) : kidsTextB L w (normAList L os) ms ind = kidsTextB L w os ms ind := by
  induction os with
  | nil => rfl
  | cons x xs ih =>
    simp only [attrsOKsAt, Bool.and_eq_true] at hok
    rw [normAList_cons_art, kidsTextB, kidsTextB, normA_textB_ar3d L w x ind hok.1, ih hok.2]

theorem normA_enableD_ar3d (L : Int) (x : Obj) : (x.normA L).enableD.stripAttrs = x.enableD.stripAttrs := by
  induction x using Obj.rec
    (motive_2 := fun os => stripAttrsList (enableDList (normAList L os)) = stripAttrsList (enableDList os)) with
  | defn m ws => rw [Obj.normA_defn_art, Obj.enableD, Obj.enableD, Obj.stripAttrs_defn, Obj.stripAttrs_defn]; rfl
  | scope m os ih =>
    rw [Obj.normA_scope_art, Obj.enableD, Obj.enableD, Obj.stripAttrs_scope, Obj.stripAttrs_scope, ih]; rfl
  | nil => rfl
  | cons x xs ihx ihxs =>
    rw [normAList_cons_art, enableDList, enableDList, stripAttrsList_cons, stripAttrsList_cons, ihx, ihxs]

theorem normAList_enableD_ar3d (L : Int) (os : List Obj) :
    stripAttrsList (enableDList (normAList L os)) = stripAttrsList (enableDList os) := by
  induction os with
  | nil => rfl
  | cons x xs ih =>
    rw [normAList_cons_art, enableDList, enableDList, stripAttrsList_cons, stripAttrsList_cons,
      normA_enableD_ar3d, ih]

/-! ### disabled scopes: the header `!name [.attr = …]* {` -/

/-- One turn of `collect_objects` for a scope header `!name [.attr = …]* {`: a disabled scope. -/
theorem collectObjects_scope_bang_step_ar3d (fuel : Nat) (st : PState) (stop : Option Word) (prevLine : Nat)
    (acc : List Obj) (pending : Option Obj) (lead w brace : Word) (nm : Str) (ci1 ci2 ci3 : CI) (attrs : Attrs)
    (h1 : nextWord structSettings st.ci = .ok (some (lead, ci1)))
    (hlq : lead.quote = none) (hv : lead.value = '!' :: nm)
    (hstd : isStdIdent nm = true) (hres : reservedName false nm = false)
    (h2 : nextWord structSettings ci1 = .ok (some (w, ci2)))
    (hwq : w.quote = none) (hwv : w.value = ['{'] ∨ w.value.take 1 = ['.'])
    (hloop : scopeAttrsLoop (ci2.rest.length + 2) ci2 w [] = .ok (attrs, brace, ci3)) :
    collectObjects (fuel + 1) st stop prevLine acc pending
      = scopeCont fuel stop (lead.line.getD 0) acc pending
          { name := nm, id := some st.nextId, disabled := true, line := lead.line, attrs := attrs }
          (collectObjects fuel { ci := ci3, nextId := st.nextId + 1 } (some brace) 0 [] none) := by
  have hsb : stripBang lead = ({ lead with value := nm }, true) := by
    unfold stripBang
    rw [hv]
    first | rfl | simp
  have m1 : ¬ lead.value = ['#', 'p', 'h', 'i', 'l'] := by rw [hv]; simp
  have m2 : ¬ lead.value = ['}'] := by rw [hv]; simp
  have m3 : ¬ lead.value = ['{'] := by rw [hv]; simp
  have e1 := tryPopUnquoted_of_next h1 hlq
  have e2 := pop_of_next h2
  rcases hwv with hwv | hwv
  · cases stop <;>
      simp [collectObjects, e1, e2, m1, m2, m3, hsb, hstd, hres, hwq, hwv, hloop, scopeCont] <;>
      rfl
  · cases stop <;>
      simp [collectObjects, e1, e2, m1, m2, m3, hsb, hstd, hres, hwq, hwv, hloop, scopeCont] <;>
      rfl

theorem nextWord_struct_bang_name_sp_ar3d (pre nm rest : Str) (d : Char) (l : Nat)
    (hpre : ∀ d ∈ pre, isSpace d = true) (hd : isSpace d = true) (hn : ItemName nm) :
    nextWord structSettings ⟨pre ++ ('!' :: nm) ++ d :: rest, l⟩
      = .ok (some ({ value := '!' :: nm, quote := none, line := some (l + nlCount pre) },
                   ⟨d :: rest, l + nlCount pre⟩)) := by
  obtain ⟨c, w, e, hs, hall⟩ := hn.chars
  have hb : endsUnquoted structSettings '!' = false := by decide
  unfold nextWord
  simp only []
  rw [List.append_assoc, nextWordAux_skip structSettings pre _ hpre]
  exact nextWordAux_plain structSettings '!' nm _ _ hb (by decide) (by decide)
    (startsLong_of_not_ends rfl hb) (fun d hd => idCont_not_ends (hall d (by rw [← e]; exact hd)))
    (ends_of_isSpace _ hd)

/-- One turn of `collect_objects` on a printed header of a DISABLED scope. -/
theorem collectObjects_open_scope_bang_ar3d (fuel : Nat) (stop : Option Word) (prevLine : Nat)
    (acc : List Obj) (pending : Option Obj) (pre nm V ind : Str) (l i : Nat) (L w : Int) (attrs : Attrs)
    (hpre : ∀ d ∈ pre, isSpace d = true) (hn : ItemName nm) (hb : Blank ind)
    (hok : attrsOK false ind L w attrs = true) :
    ∃ l' bl, collectObjects (fuel + 1) { ci := ⟨pre ++ ('!' :: nm) ++ headTail ind L w attrs V, l⟩, nextId := i } stop
        prevLine acc pending
      = scopeCont fuel stop (l + nlCount pre) acc pending
          { name := nm, id := some i, disabled := true, line := some (l + nlCount pre), attrs := shownAttrs false L attrs }
          (collectObjects fuel { ci := ⟨V, l'⟩, nextId := i + 1 }
            (some { value := ['{'], quote := none, line := some bl }) 0 [] none) := by
  have hblank0 : Blank [] := by intro d hd; simp at hd
  obtain ⟨d, sp, ns, pre', hd, hsp, hb', hmem, hokl, htext, hshown⟩ :
      ∃ (d : Char) (sp : Str) (ns : List String) (pre' : Str), isSpace d = true ∧
        (∀ c ∈ d :: sp, isSpace c = true) ∧ Blank pre' ∧
        (∀ n ∈ ns, n ∈ scopeAttrNames) ∧ attrsOKList false ind L w attrs ns = true ∧
        headTail ind L w attrs V = (d :: sp) ++ attrsTextRT ind L w attrs ns ++ pre' ++ '{' :: V ∧
        shownAttrs false L attrs = shownList L attrs ns := by
    unfold headTail
    by_cases hemp : (shownAttrs false L attrs).isEmpty = true
    · refine ⟨' ', [], [], [], rfl, space_blank, hblank0, by simp, rfl, ?_, ?_⟩
      · simp [hemp, attrsTextRT]
      · have : shownAttrs false L attrs = [] := by simpa using hemp
        rw [this]; rfl
    · have hl : ¬ L ≤ 0 := by
        intro hl; apply hemp; simp [shownAttrs, hl]
      refine ⟨'\n', [], attrNamesOf false, ind, rfl, space_nl, hb, fun n hn => hn, ?_, ?_, ?_⟩
      · simpa [attrsOK, hl] using hok
      · simp [hemp, attrBlock, hl]
      · simp [shownAttrs, hl]
  obtain ⟨w0, ci2, l', h2, hq, hv, hbound, hloop⟩ :=
    scope_attrs_block_art ind pre' V hb hb' L w attrs ns hmem hokl (d :: sp) (l + nlCount pre) hsp
  have h1 := nextWord_struct_bang_name_sp_ar3d pre nm (sp ++ attrsTextRT ind L w attrs ns ++ pre' ++ '{' :: V) d l hpre hd hn
  have hci : (⟨pre ++ ('!' :: nm) ++ headTail ind L w attrs V, l⟩ : CI)
      = ⟨pre ++ ('!' :: nm) ++ d :: (sp ++ attrsTextRT ind L w attrs ns ++ pre' ++ '{' :: V), l⟩ := by
    rw [htext]; simp
  have h2' : nextWord structSettings
      ⟨d :: (sp ++ attrsTextRT ind L w attrs ns ++ pre' ++ '{' :: V), l + nlCount pre⟩ = .ok (some (w0, ci2)) := by
    have : d :: (sp ++ attrsTextRT ind L w attrs ns ++ pre' ++ '{' :: V)
        = (d :: sp) ++ attrsTextRT ind L w attrs ns ++ pre' ++ '{' :: V := by simp
    rw [this]; exact h2
  have hl := hloop (ci2.rest.length + 2) [] (by omega)
  refine ⟨l', l', ?_⟩
  have key := collectObjects_scope_bang_step_ar3d fuel
    { ci := ⟨pre ++ ('!' :: nm) ++ headTail ind L w attrs V, l⟩, nextId := i } stop prevLine acc pending
    { value := '!' :: nm, quote := none, line := some (l + nlCount pre) } w0
    { value := ['{'], quote := none, line := some l' } nm _ ci2 ⟨V, l'⟩ (shownList L attrs ns)
    (by rw [hci]; exact h1) rfl rfl hn.stdIdent hn.notReserved h2' hq hv
    (by rw [hl]; simp)
  rw [key, hshown]
  rfl

end Phil
