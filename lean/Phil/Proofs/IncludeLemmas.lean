/-
  Phil.Proofs.IncludeLemmas — lemmas about include processing (Phil/Include.lean) for property C13:
  one-step unfolding of `processIncludes` (`includeHere`, `includeScope`, `selectSub`), refusal of a
  file already being expanded, adequacy of the fuel `(fs.length + 1) * (imports.length + 1) + 1`
  when imported scopes are ranked (`ImportsRanked`; file-only corollaries with the old bound),
  identity on include-free object lists, the diamond, path resolution, soundness/completeness of the
  cycle error with respect to the include graph (files and imported scopes: `ReachFile`, `Includes`,
  `IncWalk`), and the splicing laws of `include scope` (`splice`).
-/
import Phil.Include
set_option linter.unusedVariables false
namespace Phil

/-! ### one-step unfolding -/

/-- the optional sub-path selection of `include scope p q` on the expanded imported scope -/
def selectSub (expanded : List Obj) : Option Str → Option Nat → R (List Obj)
  | none, _ => .ok expanded
  | some q, line =>
    let sel := selectPath expanded q
    if sel.isEmpty then .error (.runtime "include_scope_not_found" line)
    else if sel.any (anyDollar 1000) then .error (.unsupported "variable in included selection")
    else .ok sel

/-- what a well-formed `include scope p [sub]` statement contributes: the imported text is parsed, its
    own includes are processed first (one unit of fuel, reference directory `env.cwd`, the same stack),
    then the optional sub-path is selected -/
def includeScope (env : IncEnv) (fuel : Nat) (stack : List Path) (p : Str) (sub : Option Str)
    (line : Option Nat) : R (List Obj) :=
  match env.imported p with
  | none => .error (.unsupported "python import")
  | some text =>
    match parseObjs text with
    | .error e => .error e
    | .ok src =>
      match fuel with
      | 0 => .error .outOfFuel
      | f + 1 =>
        match processIncludes env f env.cwd stack src with
        | .error e => .error e
        | .ok expanded => selectSub expanded sub line

/-- what a single object contributes to the processed list (the `here` of `processIncludes`) -/
def includeHere (env : IncEnv) (fuel : Nat) (refdir : Path) (stack : List Path) (o : Obj) : R (List Obj) :=
  if o.meta.disabled then .ok [o] else
  match o with
  | .defn m ws =>
    if m.name != "include".toList then .ok [o]
    else if containsDollar ws then .error (.unsupported "variable in include")
    else if ws.length < 2 then .error (.runtime "include_two_arguments" m.line)
    else
      let ty := lower (ws.headD default).value
      if ty == "file".toList then
        if ws.length != 2 then .error (.runtime "include_file_one_argument" m.line)
        else
          match fuel with
          | 0 => .error .outOfFuel
          | f + 1 => expandFile env (f + 1) (resolvePath refdir (ws.getD 1 default).value) stack
      else if ty == "scope".toList then
        if ws.length > 3 then .error (.runtime "include_scope_arguments" m.line)
        else includeScope env fuel stack (ws.getD 1 default).value
              (if ws.length == 2 then none else some (ws.getD 2 default).value) m.line
      else .error (.runtime "unknown_include_type" m.line)
  | .scope m kids =>
    (processIncludes env fuel refdir stack kids).map (fun ks => [Obj.scope { m with tmpl := 0 } ks])

theorem processIncludes_nil (env : IncEnv) (fuel : Nat) (refdir : Path) (stack : List Path) :
    processIncludes env fuel refdir stack [] = .ok [] := by
  rw [processIncludes.eq_def]

theorem processIncludes_cons (env : IncEnv) (fuel : Nat) (refdir : Path) (stack : List Path)
    (o : Obj) (rest : List Obj) :
    processIncludes env fuel refdir stack (o :: rest) =
      match includeHere env fuel refdir stack o with
      | .error e => .error e
      | .ok l => (processIncludes env fuel refdir stack rest).map (fun r => l ++ r) := by
  rw [processIncludes.eq_def]
  cases o with
  | scope m kids => rfl
  | defn m ws =>
    by_cases h2 : (ws.length == 2) = true
    · simp only [includeHere, includeScope, h2, selectSub]
      rfl
    · simp only [includeHere, includeScope, h2, selectSub]
      rfl

theorem expandFile_zero (env : IncEnv) (path : Path) (stack : List Path) :
    expandFile env 0 path stack = .error .outOfFuel := by
  rw [expandFile.eq_def]

theorem expandFile_succ (env : IncEnv) (fuel : Nat) (path : Path) (stack : List Path) :
    expandFile env (fuel + 1) path stack =
      match env.fs.read path with
      | none => .error (.stray "FileNotFoundError" "open")
      | some text =>
        match parseObjs text with
        | .error e => .error e
        | .ok objs =>
          if stack.contains path then .error (.runtime "include_cycle" none)
          else processIncludes env fuel path.dropLast (stack ++ [path]) objs :=
  expandFile.eq_2 env path stack fuel

theorem Except.map_eq_error {ε α β : Type} (f : α → β) (x : Except ε α) (e : ε) :
    Except.map f x = .error e ↔ x = .error e := by
  cases x <;> simp [Except.map]

theorem Except.map_eq_ok {ε α β : Type} (f : α → β) (x : Except ε α) (b : β) :
    Except.map f x = .ok b ↔ ∃ a, x = .ok a ∧ f a = b := by
  cases x <;> simp [Except.map]

/-! ### 1. a file already being expanded is refused -/

theorem cycle_refused (env : IncEnv) (fuel : Nat) (path : Path) (stack : List Path) (text : Str)
    (objs : List Obj) (hin : path ∈ stack) (hread : env.fs.read path = some text)
    (hparse : parseObjs text = .ok objs) :
    expandFile env (fuel + 1) path stack = .error (.runtime "include_cycle" none) := by
  have hc : stack.contains path = true := List.contains_iff_mem.mpr hin
  rw [expandFile_succ]
  simp only [hread, hparse, hc, ↓reduceIte]

/-- a file that is not being expanded is processed with itself pushed on the stack and its own
    directory as reference directory -/
theorem expandFile_fresh (env : IncEnv) (fuel : Nat) (path : Path) (stack : List Path) (text : Str)
    (objs : List Obj) (hin : path ∉ stack) (hread : env.fs.read path = some text)
    (hparse : parseObjs text = .ok objs) :
    expandFile env (fuel + 1) path stack
      = processIncludes env fuel path.dropLast (stack ++ [path]) objs := by
  rw [expandFile_succ]
  simp [hread, hparse, hin]

/-! ### 2. fuel adequacy -/

/-- the file names of a file system -/
def FS.keys (fs : FS) : List Path := fs.map (·.1)

/-- the number of distinct file names -/
def FS.numFiles (fs : FS) : Nat := fs.keys.eraseDups.length

theorem FS.read_some_mem {fs : FS} {p : Path} {t : Str} (h : fs.read p = some t) : (p, t) ∈ fs := by
  unfold FS.read at h
  cases hf : fs.find? (·.1 == p) with
  | none => simp [hf] at h
  | some pt =>
    simp [hf] at h
    have h1 := List.find?_some hf
    have h2 := List.mem_of_find?_eq_some hf
    have : pt.1 = p := by simpa using h1
    have e : pt = (p, t) := by
      cases pt; simp_all
    rw [← e]; exact h2

theorem FS.read_some_key {fs : FS} {p : Path} {t : Str} (h : fs.read p = some t) : p ∈ fs.keys := by
  have := FS.read_some_mem h
  exact List.mem_map.mpr ⟨(p, t), this, rfl⟩

/-- **counting lemma**: a duplicate-free list whose elements all lie in `k` is no longer than `k` -/
theorem nodup_subset_length_le {α : Type} [BEq α] [LawfulBEq α] :
    ∀ (l k : List α), l.Nodup → (∀ x ∈ l, x ∈ k) → l.length ≤ k.length := by
  intro l
  induction l with
  | nil => intro k _ _; simp
  | cons x l ih =>
    intro k hnd hsub
    have hx : x ∈ k := hsub x (by simp)
    have ⟨hxl, hndl⟩ := List.nodup_cons.mp hnd
    have hsub' : ∀ y ∈ l, y ∈ k.erase x := by
      intro y hy
      have hne : y ≠ x := fun e => hxl (e ▸ hy)
      exact (List.mem_erase_of_ne hne).mpr (hsub y (by simp [hy]))
    have := ih (k.erase x) hndl hsub'
    rw [List.length_erase_of_mem hx] at this
    have hpos : 0 < k.length := List.length_pos_of_mem hx
    simp only [List.length_cons]
    omega

/-- a duplicate-free list of file names of `fs` has at most `numFiles` elements -/
theorem stack_length_le_numFiles (fs : FS) (stack : List Path) (hnd : stack.Nodup)
    (hsub : ∀ p ∈ stack, p ∈ fs.keys) : stack.length ≤ fs.numFiles := by
  unfold FS.numFiles
  apply nodup_subset_length_le _ _ hnd
  intro p hp
  exact List.mem_eraseDups.mpr (hsub p hp)

/-- no file of `fs` exhausts the fuel of the *parser* (`parseObjs` uses its own fuel) -/
def ParseFuelOK (fs : FS) : Prop := ∀ pt ∈ fs, parseObjs pt.2 ≠ .error .outOfFuel

/-! #### the statements `processIncludes` follows -/

/-- the file name of a well-formed enabled `include file <name>` statement -/
def includeTarget : Obj → Option Str
  | .defn m [w1, w2] =>
    if !m.disabled && m.name == "include".toList && !containsDollar [w1, w2]
        && lower w1.value == "file".toList then some w2.value else none
  | _ => none

/-- the python path and the optional sub-path of a well-formed enabled
    `include scope <python path> [<phil path>]` statement -/
def scopeTarget : Obj → Option (Str × Option Str)
  | .defn m (w1 :: w2 :: tl) =>
    if !m.disabled && m.name == "include".toList && !containsDollar (w1 :: w2 :: tl)
        && lower w1.value == "scope".toList && tl.length ≤ 1 then
      some (w2.value, tl.head?.map (·.value)) else none
  | _ => none

mutual
/-- the names of the include statements that `processIncludes` follows: well-formed enabled
    `include file` statements at top level or inside enabled scopes -/
def includeTargetsObj : Obj → List Str
  | .defn m ws => (includeTarget (.defn m ws)).toList
  | .scope m kids => if m.disabled then [] else includeTargets kids
def includeTargets : List Obj → List Str
  | [] => []
  | o :: os => includeTargetsObj o ++ includeTargets os
end

mutual
/-- the python paths of the `include scope` statements that `processIncludes` follows (well-formed,
    enabled, at top level or inside enabled scopes) -/
def scopeTargetsObj : Obj → List Str
  | .defn m ws => ((scopeTarget (.defn m ws)).map (·.1)).toList
  | .scope m kids => if m.disabled then [] else scopeTargets kids
def scopeTargets : List Obj → List Str
  | [] => []
  | o :: os => scopeTargetsObj o ++ scopeTargets os
end

/-- **inlining law**: a well-formed include statement contributes exactly the expansion of the
    file its name resolves to (relative to `refdir`), with the same stack -/
theorem includeHere_include (env : IncEnv) (f : Nat) (refdir : Path) (stack : List Path) (o : Obj)
    (name : Str) (h : includeTarget o = some name) :
    includeHere env (f + 1) refdir stack o = expandFile env (f + 1) (resolvePath refdir name) stack := by
  unfold includeTarget at h
  split at h
  · rename_i m w1 w2
    split at h
    · rename_i hc
      simp only [Bool.and_eq_true, Bool.not_eq_true', beq_iff_eq] at hc
      obtain ⟨⟨⟨hd, hn⟩, hdol⟩, hty⟩ := hc
      cases h
      unfold includeHere
      simp [Obj.meta, hd, hn, hdol, hty]
    · cases h
  · cases h

/-- for every fuel: a well-formed include statement contributes the expansion of its target -/
theorem includeHere_include' (env : IncEnv) (fuel : Nat) (refdir : Path) (stack : List Path) (o : Obj)
    (name : Str) (h : includeTarget o = some name) :
    includeHere env fuel refdir stack o = expandFile env fuel (resolvePath refdir name) stack := by
  cases fuel with
  | succ f => exact includeHere_include env f refdir stack o name h
  | zero =>
    rw [expandFile_zero]
    unfold includeTarget at h
    split at h
    · rename_i m w1 w2
      split at h
      · rename_i hc
        simp only [Bool.and_eq_true, Bool.not_eq_true', beq_iff_eq] at hc
        obtain ⟨⟨⟨hd, hn⟩, hdol⟩, hty⟩ := hc
        unfold includeHere
        simp [Obj.meta, hd, hn, hdol, hty]
      · cases h
    · cases h

theorem scope_ne_file : ("scope".toList == "file".toList) = false := by decide

/-- **splicing law, one object**: a well-formed `include scope p [sub]` statement contributes
    `includeScope … p sub` — whatever the reference directory of the including list -/
theorem includeHere_scope (env : IncEnv) (fuel : Nat) (refdir : Path) (stack : List Path) (o : Obj)
    (p : Str) (sub : Option Str) (h : scopeTarget o = some (p, sub)) :
    includeHere env fuel refdir stack o = includeScope env fuel stack p sub o.meta.line := by
  unfold scopeTarget at h
  split at h
  · rename_i m w1 w2 tl
    split at h
    · rename_i hc
      simp only [Bool.and_eq_true, Bool.not_eq_true', beq_iff_eq, decide_eq_true_eq] at hc
      obtain ⟨⟨⟨⟨hd, hn⟩, hdol⟩, hty⟩, hlen⟩ := hc
      cases h
      unfold includeHere
      match tl, hlen, hdol with
      | [], _, hdol => simp [Obj.meta, hd, hn, hdol, hty, scope_ne_file]
      | [w3], _, hdol => simp [Obj.meta, hd, hn, hdol, hty, scope_ne_file]
      | _ :: _ :: _, hlen, _ => simp at hlen
    · cases h
  · cases h

abbrev cycleErr : Err := .runtime "include_cycle" none

/-- a definition that is neither a well-formed `include file` nor a well-formed `include scope`
    statement is kept or refused on the spot: never `outOfFuel`, never the cycle error -/
theorem includeHere_defn_other (env : IncEnv) (fuel : Nat) (refdir : Path) (stack : List Path)
    (m : Meta) (ws : List Word) (h : includeTarget (.defn m ws) = none)
    (hs : scopeTarget (.defn m ws) = none) (e : Err)
    (he : includeHere env fuel refdir stack (.defn m ws) = .error e) :
    e ≠ .outOfFuel ∧ e ≠ cycleErr := by
  unfold includeHere at he
  simp only [Obj.meta] at he
  split at he
  · cases he
  · rename_i hd
    split at he
    · cases he
    · rename_i hn
      split at he
      · cases he; simp [cycleErr]
      · rename_i hdol
        split at he
        · cases he; simp [cycleErr]
        · rename_i hlen2
          split at he
          · rename_i hty
            split at he
            · cases he; simp [cycleErr]
            · rename_i hlen
              exfalso
              match ws, hlen with
              | [], hlen => simp at hlen
              | [_], hlen => simp at hlen
              | _ :: _ :: _ :: _, hlen => simp at hlen
              | [w1, w2], _ =>
                simp only [List.headD_cons] at hty
                have hd' : m.disabled = false := by simpa using hd
                have hn' : (m.name == "include".toList) = true := by simpa using hn
                have hdol' : containsDollar [w1, w2] = false := by simpa using hdol
                simp only [includeTarget, hd', hn', hdol', hty] at h
                simp at h
          · split at he
            · rename_i hty
              split at he
              · cases he; simp [cycleErr]
              · rename_i hlen
                exfalso
                match ws, hlen, hlen2 with
                | [], _, hlen2 => simp at hlen2
                | [_], _, hlen2 => simp at hlen2
                | w1 :: w2 :: tl, hlen, _ =>
                  simp only [List.headD_cons] at hty
                  have hd' : m.disabled = false := by simpa using hd
                  have hn' : (m.name == "include".toList) = true := by simpa using hn
                  have hdol' : containsDollar (w1 :: w2 :: tl) = false := by simpa using hdol
                  have hl : decide (tl.length ≤ 1) = true := by
                    simp only [List.length_cons] at hlen; simp; omega
                  simp only [scopeTarget, hd', hn', hdol', hty, hl] at hs
                  simp at hs
            · cases he; simp [cycleErr]

/-! #### fuel -/

theorem IncEnv.imported_some_mem {env : IncEnv} {p : Str} {t : Str} (h : env.imported p = some t) :
    (p, t) ∈ env.imports := by
  unfold IncEnv.imported at h
  cases hf : env.imports.find? (·.1 == p) with
  | none => simp [hf] at h
  | some pt =>
    simp [hf] at h
    have h1 := List.find?_some hf
    have h2 := List.mem_of_find?_eq_some hf
    have : pt.1 = p := by simpa using h1
    have e : pt = (p, t) := by
      cases pt; simp_all
    rw [← e]; exact h2

/-- no imported scope exhausts the fuel of the *parser* -/
def ImportsParseFuelOK (imports : List (Str × Str)) : Prop :=
  ∀ pt ∈ imports, parseObjs pt.2 ≠ .error .outOfFuel

/-- **imported scopes are ranked**: there is a ranking of the python paths, bounded by the number of
    imports, that strictly increases along every followed `include scope` statement of an imported
    scope's text (statements naming an unknown import are not constrained: they end the expansion
    with `unsupported`).  Without such a ranking imported scopes include each other cyclically and
    Python itself recurses without bound (there is no cycle detection for scopes).
    Any strict ranking of the (at most `imports.length`) known names can be compressed below
    `imports.length`; the position in `env.imports` is one such ranking, see `importsRankedB`. -/
def ImportsRanked (env : IncEnv) : Prop :=
  ∃ rank : Str → Nat,
    (∀ p text, env.imported p = some text → rank p < env.imports.length) ∧
    (∀ p text src, env.imported p = some text → parseObjs text = .ok src →
      ∀ q ∈ scopeTargets src, ∀ text', env.imported q = some text' → rank p < rank q)

/-- decidable sufficient condition: every followed `include scope q` in the text of an import names
    an unknown import or one whose (first) position in `env.imports` is larger -/
def importsRankedB (env : IncEnv) : Bool :=
  env.imports.all fun pt =>
    match parseObjs pt.2 with
    | .error _ => true
    | .ok src => (scopeTargets src).all fun q =>
        !(env.imports.any (·.1 == q)) ||
          decide (env.imports.findIdx (·.1 == pt.1) < env.imports.findIdx (·.1 == q))

theorem IncEnv.imported_some_any {env : IncEnv} {p : Str} {t : Str} (h : env.imported p = some t) :
    env.imports.any (·.1 == p) = true := by
  have := IncEnv.imported_some_mem h
  exact List.any_eq_true.mpr ⟨(p, t), this, by simp⟩

theorem importsRanked_of_B (env : IncEnv) (h : importsRankedB env = true) : ImportsRanked env := by
  refine ⟨fun p => env.imports.findIdx (·.1 == p), ?_, ?_⟩
  · intro p text hp
    have := IncEnv.imported_some_any hp
    exact List.findIdx_lt_length_of_exists (by simpa using this)
  · intro p text src hp hsrc q hq text' hq'
    unfold importsRankedB at h
    have h1 := List.all_eq_true.mp h (p, text) (IncEnv.imported_some_mem hp)
    simp only [hsrc] at h1
    have h2 := List.all_eq_true.mp h1 q hq
    have h3 := IncEnv.imported_some_any hq'
    simp only [h3, Bool.not_true, Bool.false_or, decide_eq_true_eq] at h2
    exact h2

theorem importsRanked_nil (env : IncEnv) (h : env.imports = []) : ImportsRanked env := by
  refine ⟨fun _ => 0, ?_, ?_⟩
  · intro p text hp
    have := IncEnv.imported_some_mem hp
    rw [h] at this; cases this
  · intro p text src hp
    have := IncEnv.imported_some_mem hp
    rw [h] at this; cases this

theorem selectSub_ne_outOfFuel (expanded : List Obj) (sub : Option Str) (line : Option Nat) :
    selectSub expanded sub line ≠ .error .outOfFuel := by
  cases sub with
  | none => simp [selectSub]
  | some q =>
    simp only [selectSub]
    split
    · simp
    · split <;> simp

theorem selectSub_ne_cycleErr (expanded : List Obj) (sub : Option Str) (line : Option Nat) :
    selectSub expanded sub line ≠ .error cycleErr := by
  cases sub with
  | none => simp [selectSub]
  | some q =>
    simp only [selectSub]
    split
    · simp [cycleErr]
    · split <;> simp [cycleErr]

/-- one level of the fuel argument: if `expandFile` cannot run out of fuel at this fuel and stack,
    and the imported scopes named by the followed `include scope` statements (all of which satisfy
    `A`) cannot either with one unit less, then `processIncludes` cannot -/
theorem processIncludes_fuel_step (env : IncEnv) (hpi : ImportsParseFuelOK env.imports) (fuel : Nat)
    (refdir : Path) (stack : List Path) (A : Str → Prop)
    (hE : ∀ path, expandFile env fuel path stack ≠ .error .outOfFuel)
    (hS : ∀ p text src f, A p → env.imported p = some text → parseObjs text = .ok src → fuel = f + 1 →
      processIncludes env f env.cwd stack src ≠ .error .outOfFuel)
    (objs : List Obj) :
    (∀ p ∈ scopeTargets objs, A p) →
    processIncludes env fuel refdir stack objs ≠ .error .outOfFuel := by
  have hfuel : fuel ≠ 0 := by
    intro h; subst h; exact hE [] (expandFile_zero _ _ _)
  induction objs using Obj.rec_1
    (motive_1 := fun o => (∀ p ∈ scopeTargetsObj o, A p) →
      includeHere env fuel refdir stack o ≠ .error .outOfFuel) with
  | defn m ws =>
    rename_i hA
    cases ht : includeTarget (.defn m ws) with
    | some n =>
      rw [includeHere_include' env fuel refdir stack _ n ht]
      exact hE _
    | none =>
      cases hst : scopeTarget (.defn m ws) with
      | none =>
        intro he
        exact (includeHere_defn_other env fuel refdir stack m ws ht hst _ he).1 rfl
      | some ps =>
        obtain ⟨p, sub⟩ := ps
        rw [includeHere_scope env fuel refdir stack _ p sub hst]
        have hAp : A p := hA p (by simp [scopeTargetsObj, hst])
        unfold includeScope
        cases hi : env.imported p with
        | none => simp
        | some text =>
          simp only
          cases hp : parseObjs text with
          | error e =>
            simp only
            intro h
            have := hpi _ (IncEnv.imported_some_mem hi)
            simp only at this
            rw [hp] at this
            exact this h
          | ok src =>
            simp only
            cases fuel with
            | zero => exact absurd rfl hfuel
            | succ f =>
              simp only
              have := hS p text src f hAp hi hp rfl
              cases hx : processIncludes env f env.cwd stack src with
              | error e =>
                simp only
                rw [hx] at this
                exact this
              | ok expanded =>
                simp only
                exact selectSub_ne_outOfFuel _ _ _
  | scope m kids ih =>
    rename_i hA
    unfold includeHere
    split
    · simp
    · rename_i hd
      simp only [Obj.meta] at hd
      simp only
      intro h
      refine ih ?_ ((Except.map_eq_error _ _ _).mp h)
      intro p hp
      exact hA p (by simp [scopeTargetsObj, hd, hp])
  | nil => intro _; rw [processIncludes_nil]; simp
  | cons o rest iho ihr =>
    intro hA
    rw [processIncludes_cons]
    have hA1 : ∀ p ∈ scopeTargetsObj o, A p := fun p hp => hA p (by simp [scopeTargets, hp])
    have hA2 : ∀ p ∈ scopeTargets rest, A p := fun p hp => hA p (by simp [scopeTargets, hp])
    cases hh : includeHere env fuel refdir stack o with
    | error e =>
      simp only
      intro h
      have := iho hA1
      rw [hh] at this
      exact this h
    | ok l =>
      simp only
      intro h
      exact ihr hA2 ((Except.map_eq_error _ _ _).mp h)

/-- **fuel adequacy**, both functions at once.  `M = imports.length + 1`; entering a file costs one
    unit of fuel, pushes one file on the (duplicate-free) stack and resets the rank bound `k` to 0;
    entering an imported scope of rank `r ≥ k` costs one unit and raises the bound to `r + 1`; so
    `fuel + |stack| * M + k` never decreases, and at fuel 0 it would exceed its maximum. -/
theorem fuel_adequate (env : IncEnv) (hpf : ParseFuelOK env.fs) (hpi : ImportsParseFuelOK env.imports)
    (rank : Str → Nat)
    (hr1 : ∀ p text, env.imported p = some text → rank p < env.imports.length)
    (hr2 : ∀ p text src, env.imported p = some text → parseObjs text = .ok src →
      ∀ q ∈ scopeTargets src, ∀ text', env.imported q = some text' → rank p < rank q) :
    ∀ (fuel : Nat),
      (∀ (path : Path) (stack : List Path), stack.Nodup → (∀ p ∈ stack, p ∈ env.fs.keys) →
        env.fs.numFiles * (env.imports.length + 1) + 1 ≤ fuel + stack.length * (env.imports.length + 1) →
        expandFile env fuel path stack ≠ .error .outOfFuel) ∧
      (∀ (refdir : Path) (stack : List Path) (objs : List Obj) (k : Nat), stack.Nodup →
        (∀ p ∈ stack, p ∈ env.fs.keys) → k ≤ env.imports.length →
        (∀ p ∈ scopeTargets objs, ∀ text, env.imported p = some text → k ≤ rank p) →
        env.fs.numFiles * (env.imports.length + 1) + env.imports.length + 1
          ≤ fuel + stack.length * (env.imports.length + 1) + k →
        processIncludes env fuel refdir stack objs ≠ .error .outOfFuel) := by
  intro fuel
  induction fuel with
  | zero =>
    constructor
    · intro path stack hnd hsub hb
      have h1 := stack_length_le_numFiles env.fs stack hnd hsub
      have h2 := Nat.mul_le_mul_right (env.imports.length + 1) h1
      omega
    · intro refdir stack objs k hnd hsub hk hA hb
      have h1 := stack_length_le_numFiles env.fs stack hnd hsub
      have h2 := Nat.mul_le_mul_right (env.imports.length + 1) h1
      omega
  | succ f ih =>
    have hE : ∀ (path : Path) (stack : List Path), stack.Nodup → (∀ p ∈ stack, p ∈ env.fs.keys) →
        env.fs.numFiles * (env.imports.length + 1) + 1
          ≤ f + 1 + stack.length * (env.imports.length + 1) →
        expandFile env (f + 1) path stack ≠ .error .outOfFuel := by
      intro path stack hnd hsub hb
      rw [expandFile_succ]
      cases hr : env.fs.read path with
      | none => simp
      | some text =>
        simp only
        cases hp : parseObjs text with
        | error e =>
          simp only
          intro h
          have := hpf _ (FS.read_some_mem hr)
          simp only at this
          rw [hp] at this
          exact this h
        | ok objs =>
          simp only
          cases hc : stack.contains path with
          | true => simp
          | false =>
            simp only [Bool.false_eq_true, ↓reduceIte]
            have hnin : path ∉ stack := fun h => by
              have := List.contains_iff_mem.mpr h
              rw [hc] at this; cases this
            apply ih.2 _ _ _ 0
            · rw [List.nodup_append]
              refine ⟨hnd, by simp, ?_⟩
              intro a ha b hb' e
              simp at hb'
              subst hb'
              exact hnin (e ▸ ha)
            · intro q hq
              rcases List.mem_append.mp hq with h | h
              · exact hsub q h
              · simp at h; subst h; exact FS.read_some_key hr
            · omega
            · intro p _ text _; omega
            · simp only [List.length_append, List.length_cons, List.length_nil, Nat.add_mul]
              omega
    refine ⟨hE, ?_⟩
    intro refdir stack objs k hnd hsub hk hA hb
    apply processIncludes_fuel_step env hpi (f + 1) refdir stack
      (fun p => ∀ text, env.imported p = some text → k ≤ rank p)
    · intro path
      exact hE path stack hnd hsub (by omega)
    · intro p text src f' hAp hi hp hf
      have hf' : f' = f := by omega
      subst hf'
      have hkp := hAp text hi
      have hrp := hr1 p text hi
      apply ih.2 env.cwd stack src (rank p + 1) hnd hsub (by omega)
      · intro q hq text' hq'
        have := hr2 p text src hi hp q hq text' hq'
        omega
      · omega
    · exact hA



theorem length_eraseDups_le {α : Type} [BEq α] [LawfulBEq α] (l : List α) :
    l.eraseDups.length ≤ l.length := by
  suffices h : ∀ n (l : List α), l.length ≤ n → l.eraseDups.length ≤ l.length from h _ l (Nat.le_refl _)
  intro n
  induction n with
  | zero =>
    intro l hl
    have : l = [] := List.eq_nil_of_length_eq_zero (by omega)
    subst this; simp
  | succ n ih =>
    intro l hl
    cases l with
    | nil => simp
    | cons a as =>
      rw [List.eraseDups_cons]
      have h1 := List.length_filter_le (fun b => !b == a) as
      simp only [List.length_cons] at hl ⊢
      have := ih (as.filter (fun b => !b == a)) (by omega)
      omega

theorem FS.numFiles_le_length (fs : FS) : fs.numFiles ≤ fs.length := by
  unfold FS.numFiles FS.keys
  have := length_eraseDups_le (fs.map (·.1))
  simpa using this

/-- **fuel adequacy for `expandFile`** -/
theorem expandFile_ne_outOfFuel (env : IncEnv) (hpf : ParseFuelOK env.fs)
    (hpi : ImportsParseFuelOK env.imports) (hrk : ImportsRanked env)
    (fuel : Nat) (path : Path) (stack : List Path) (hnd : stack.Nodup)
    (hsub : ∀ p ∈ stack, p ∈ env.fs.keys)
    (hb : env.fs.numFiles * (env.imports.length + 1) + 1
            ≤ fuel + stack.length * (env.imports.length + 1)) :
    expandFile env fuel path stack ≠ .error .outOfFuel := by
  obtain ⟨rank, hr1, hr2⟩ := hrk
  exact (fuel_adequate env hpf hpi rank hr1 hr2 fuel).1 path stack hnd hsub hb

/-- **fuel adequacy for `processIncludes`** on a list all of whose followed `include scope`
    statements name imports of rank ≥ `k` (`k = 0`: no condition — e.g. the objects of a file) -/
theorem processIncludes_ne_outOfFuel (env : IncEnv) (hpf : ParseFuelOK env.fs)
    (hpi : ImportsParseFuelOK env.imports) (rank : Str → Nat)
    (hr1 : ∀ p text, env.imported p = some text → rank p < env.imports.length)
    (hr2 : ∀ p text src, env.imported p = some text → parseObjs text = .ok src →
      ∀ q ∈ scopeTargets src, ∀ text', env.imported q = some text' → rank p < rank q)
    (fuel : Nat) (refdir : Path) (stack : List Path) (objs : List Obj) (k : Nat) (hnd : stack.Nodup)
    (hsub : ∀ p ∈ stack, p ∈ env.fs.keys) (hk : k ≤ env.imports.length)
    (hA : ∀ p ∈ scopeTargets objs, ∀ text, env.imported p = some text → k ≤ rank p)
    (hb : env.fs.numFiles * (env.imports.length + 1) + env.imports.length + 1
            ≤ fuel + stack.length * (env.imports.length + 1) + k) :
    processIncludes env fuel refdir stack objs ≠ .error .outOfFuel :=
  (fuel_adequate env hpf hpi rank hr1 hr2 fuel).2 refdir stack objs k hnd hsub hk hA hb

/-- `expand` never runs out of include fuel -/
theorem expand_ne_outOfFuel (env : IncEnv) (hpf : ParseFuelOK env.fs)
    (hpi : ImportsParseFuelOK env.imports) (hrk : ImportsRanked env) (root : Path) :
    expand env root ≠ .error .outOfFuel := by
  unfold expand
  apply expandFile_ne_outOfFuel env hpf hpi hrk
  · exact List.nodup_nil
  · intro p hp; cases hp
  · have h1 := FS.numFiles_le_length env.fs
    have h2 := Nat.mul_le_mul_right (env.imports.length + 1) h1
    simp only [List.length_nil, Nat.add_mul]
    omega

/-! #### the file-only case (`env.imports = []`): the statements before imported scopes existed -/

theorem importsParseFuelOK_nil : ImportsParseFuelOK [] := by
  intro pt h; cases h

theorem expandFile_ne_outOfFuel_files (env : IncEnv) (hi : env.imports = []) (hpf : ParseFuelOK env.fs)
    (fuel : Nat) (path : Path) (stack : List Path) (hnd : stack.Nodup)
    (hsub : ∀ p ∈ stack, p ∈ env.fs.keys) (hb : env.fs.numFiles + 1 ≤ fuel + stack.length) :
    expandFile env fuel path stack ≠ .error .outOfFuel := by
  apply expandFile_ne_outOfFuel env hpf (hi ▸ importsParseFuelOK_nil) (importsRanked_nil env hi)
    fuel path stack hnd hsub
  rw [hi]
  simp only [List.length_nil, Nat.zero_add, Nat.mul_one]
  exact hb

theorem processIncludes_ne_outOfFuel_files (env : IncEnv) (hi : env.imports = [])
    (hpf : ParseFuelOK env.fs) (fuel : Nat) (refdir : Path)
    (stack : List Path) (objs : List Obj) (hnd : stack.Nodup) (hsub : ∀ p ∈ stack, p ∈ env.fs.keys)
    (hb : env.fs.numFiles + 1 ≤ fuel + stack.length) :
    processIncludes env fuel refdir stack objs ≠ .error .outOfFuel := by
  have hnone : ∀ p text, env.imported p = some text → False := by
    intro p text hp
    have := IncEnv.imported_some_mem hp
    rw [hi] at this; cases this
  apply processIncludes_ne_outOfFuel env hpf (hi ▸ importsParseFuelOK_nil) (fun _ => 0)
    (fun p text hp => (hnone p text hp).elim) (fun p text src hp => (hnone p text hp).elim)
    fuel refdir stack objs 0 hnd hsub (Nat.zero_le _) (fun _ _ _ _ => Nat.le_refl _)
  rw [hi]
  simp only [List.length_nil, Nat.zero_add, Nat.mul_one, Nat.add_zero]
  exact hb

theorem expand_ne_outOfFuel_files (env : IncEnv) (hi : env.imports = []) (hpf : ParseFuelOK env.fs)
    (root : Path) : expand env root ≠ .error .outOfFuel :=
  expand_ne_outOfFuel env hpf (hi ▸ importsParseFuelOK_nil) (importsRanked_nil env hi) root

/-! ### 3. include-free object lists are kept (up to `tmpl` of enabled scopes) -/

mutual
/-- the object is not an enabled definition named `include` and contains none inside enabled
    scopes (a disabled object is kept verbatim by `processIncludes`, so it counts as include-free) -/
def NoIncludeObj : Obj → Bool
  | .defn m _ => m.disabled || m.name != "include".toList
  | .scope m kids => m.disabled || NoInclude kids
def NoInclude : List Obj → Bool
  | [] => true
  | o :: os => NoIncludeObj o && NoInclude os
end

mutual
/-- what `processIncludes` does to an include-free object: every enabled scope is rebuilt with
    `tmpl = 0` (Python: `self.customized_copy(objects=…)` resets `is_template`), disabled objects
    and definitions are kept verbatim -/
def resetTmplObj : Obj → Obj
  | .defn m ws => .defn m ws
  | .scope m kids => if m.disabled then .scope m kids else .scope { m with tmpl := 0 } (resetTmpl kids)
def resetTmpl : List Obj → List Obj
  | [] => []
  | o :: os => resetTmplObj o :: resetTmpl os
end

mutual
/-- every enabled scope reachable through enabled scopes has `tmpl = 0` (true of parser output) -/
def TmplZeroObj : Obj → Bool
  | .defn _ _ => true
  | .scope m kids => m.disabled || (m.tmpl == 0 && AllTmplZero kids)
def AllTmplZero : List Obj → Bool
  | [] => true
  | o :: os => TmplZeroObj o && AllTmplZero os
end

theorem resetTmpl_id (objs : List Obj) : AllTmplZero objs = true → resetTmpl objs = objs := by
  induction objs using Obj.rec_1
    (motive_1 := fun o => TmplZeroObj o = true → resetTmplObj o = o) with
  | defn m ws => simp [resetTmplObj]
  | scope m kids ih =>
    rename_i h
    simp only [TmplZeroObj, Bool.or_eq_true, Bool.and_eq_true, beq_iff_eq] at h
    simp only [resetTmplObj]
    split
    · rfl
    · rename_i hd
      rcases h with h | ⟨h0, hk⟩
      · exact absurd h hd
      · rw [ih hk]
        cases m
        simp_all
  | nil => intro _; simp [resetTmpl]
  | cons o rest iho ihr =>
    intro h
    simp only [AllTmplZero, Bool.and_eq_true] at h
    simp [resetTmpl, iho h.1, ihr h.2]

theorem no_include_identity (env : IncEnv) (fuel : Nat) (refdir : Path) (stack : List Path)
    (objs : List Obj) :
    NoInclude objs = true → processIncludes env fuel refdir stack objs = .ok (resetTmpl objs) := by
  induction objs using Obj.rec_1
    (motive_1 := fun o => NoIncludeObj o = true →
      includeHere env fuel refdir stack o = .ok [resetTmplObj o]) with
  | defn m ws =>
    rename_i h
    simp only [NoIncludeObj, Bool.or_eq_true] at h
    unfold includeHere
    simp only [Obj.meta, resetTmplObj]
    rcases h with h | h
    · simp [h]
    · simp only [h, ↓reduceIte, ite_self]
  | scope m kids ih =>
    rename_i h
    simp only [NoIncludeObj, Bool.or_eq_true] at h
    unfold includeHere
    simp only [Obj.meta, resetTmplObj]
    by_cases hd : m.disabled = true
    · simp only [hd, ↓reduceIte]
    · simp only [hd]
      rcases h with h | h
      · exact absurd h hd
      · rw [ih h]; rfl
  | nil => intro _; rw [processIncludes_nil]; rfl
  | cons o rest iho ihr =>
    intro h
    simp only [NoInclude, Bool.and_eq_true] at h
    rw [processIncludes_cons, iho h.1, ihr h.2]
    rfl

theorem no_include_identity' (env : IncEnv) (fuel : Nat) (refdir : Path) (stack : List Path)
    (objs : List Obj) (hn : NoInclude objs = true) (hz : AllTmplZero objs = true) :
    processIncludes env fuel refdir stack objs = .ok objs := by
  rw [no_include_identity env fuel refdir stack objs hn, resetTmpl_id objs hz]

/-- processing distributes over concatenation: textual inlining is compositional -/
theorem processIncludes_append (env : IncEnv) (fuel : Nat) (refdir : Path) (stack : List Path)
    (a b : List Obj) :
    processIncludes env fuel refdir stack (a ++ b) =
      match processIncludes env fuel refdir stack a with
      | .error e => .error e
      | .ok l => (processIncludes env fuel refdir stack b).map (fun r => l ++ r) := by
  induction a with
  | nil =>
    rw [processIncludes_nil]
    simp only [List.nil_append]
    cases processIncludes env fuel refdir stack b <;> simp [Except.map]
  | cons o rest ih =>
    simp only [List.cons_append]
    rw [processIncludes_cons, processIncludes_cons, ih]
    cases includeHere env fuel refdir stack o with
    | error e => rfl
    | ok l =>
      simp only
      cases processIncludes env fuel refdir stack rest with
      | error e => rfl
      | ok l2 =>
        cases processIncludes env fuel refdir stack b with
        | error e => rfl
        | ok l3 => simp [Except.map]

/-! ### the include statement -/

theorem processIncludes_include_cons (env : IncEnv) (f : Nat) (refdir : Path) (stack : List Path) (o : Obj)
    (rest : List Obj) (name : Str) (h : includeTarget o = some name) :
    processIncludes env (f + 1) refdir stack (o :: rest) =
      match expandFile env (f + 1) (resolvePath refdir name) stack with
      | .error e => .error e
      | .ok l => (processIncludes env (f + 1) refdir stack rest).map (fun r => l ++ r) := by
  rw [processIncludes_cons, includeHere_include env f refdir stack o name h]

/-! ### 4. the diamond -/

theorem diamond_ok (env : IncEnv) (r l : Path) (tr tl : Str) (i1 i2 : Obj) (n1 n2 : Str)
    (objsL : List Obj)
    (hr : env.fs.read r = some tr) (hpr : parseObjs tr = .ok [i1, i2])
    (h1 : includeTarget i1 = some n1) (h2 : includeTarget i2 = some n2)
    (hn1 : resolvePath r.dropLast n1 = l) (hn2 : resolvePath r.dropLast n2 = l)
    (hl : env.fs.read l = some tl) (hpl : parseObjs tl = .ok objsL)
    (hni : NoInclude objsL = true) (hne : l ≠ r) :
    expand env r = .ok (resetTmpl objsL ++ resetTmpl objsL) := by
  unfold expand
  have hpos : 0 < (env.fs.length + 1) * (env.imports.length + 1) :=
    Nat.mul_pos (Nat.succ_pos _) (Nat.succ_pos _)
  obtain ⟨f, hf⟩ : ∃ f, (env.fs.length + 1) * (env.imports.length + 1) + 1 = f + 1 + 1 :=
    ⟨(env.fs.length + 1) * (env.imports.length + 1) - 1, by omega⟩
  rw [hf, expandFile_fresh env (f + 1) r [] tr [i1, i2] (by simp) hr hpr]
  have hleaf : expandFile env (f + 1) l ([] ++ [r]) = .ok (resetTmpl objsL) := by
    rw [expandFile_fresh env f l ([] ++ [r]) tl objsL (by simpa using hne) hl hpl]
    exact no_include_identity env f _ _ objsL hni
  rw [processIncludes_include_cons env f _ _ i1 [i2] n1 h1, hn1, hleaf]
  simp only
  rw [processIncludes_include_cons env f _ _ i2 [] n2 h2, hn2, hleaf]
  simp only
  rw [processIncludes_nil]
  simp [Except.map]

/-! ### 5. path resolution -/

theorem normComponents_dotdot (cs : List Str) (acc : Path) :
    normComponents ("..".toList :: cs) acc = normComponents cs acc.dropLast := by
  have : "..".toList = ['.', '.'] := rfl
  rw [this]
  simp [normComponents]

theorem normComponents_dot (cs : List Str) (acc : Path) :
    normComponents (".".toList :: cs) acc = normComponents cs acc := by
  have : ".".toList = ['.'] := rfl
  rw [this]
  simp [normComponents]

theorem normComponents_empty (cs : List Str) (acc : Path) :
    normComponents ([] :: cs) acc = normComponents cs acc := by
  simp [normComponents]

theorem normComponents_append (a b : List Str) (acc : Path) :
    normComponents (a ++ b) acc = normComponents b (normComponents a acc) := by
  induction a generalizing acc with
  | nil => rfl
  | cons c cs ih =>
    simp only [List.cons_append, normComponents]
    split
    · exact ih _
    · split
      · exact ih _
      · exact ih _

/-- an ordinary path component: not empty, not `.`, not `..` -/
def plainComp (c : Str) : Bool := !c.isEmpty && c != ['.'] && c != ['.', '.']

theorem normComponents_plain (cs : List Str) (acc : Path) (h : cs.all plainComp = true) :
    normComponents cs acc = acc ++ cs := by
  induction cs generalizing acc with
  | nil => simp [normComponents]
  | cons c cs ih =>
    simp only [List.all_cons, Bool.and_eq_true] at h
    obtain ⟨hc, hcs⟩ := h
    simp only [plainComp, Bool.and_eq_true, Bool.not_eq_true', bne_iff_ne, ne_eq] at hc
    obtain ⟨⟨h1, h2⟩, h3⟩ := hc
    simp only [normComponents, h1, Bool.false_or]
    have e2 : (c == ['.']) = false := by simpa using h2
    have e3 : (c == ['.', '.']) = false := by simpa using h3
    simp only [e2, e3, Bool.false_eq_true, ↓reduceIte]
    rw [ih _ hcs]
    simp

theorem splitOn_cons_sep (sep : Char) (cs : Str) : splitOn sep (sep :: cs) = [] :: splitOn sep cs := by
  rw [splitOn]
  cases h : splitOn sep cs with
  | nil =>
    exfalso
    revert h
    cases cs with
    | nil => simp [splitOn]
    | cons d ds =>
      rw [splitOn]
      split <;> (try split) <;> simp
  | cons p ps => simp

theorem splitOn_no_sep (sep : Char) (s : Str) (h : sep ∉ s) : splitOn sep s = [s] := by
  induction s with
  | nil => rfl
  | cons c cs ih =>
    have hc : c ≠ sep := fun e => h (by simp [e])
    have hcs : sep ∉ cs := fun e => h (by simp [e])
    rw [splitOn, ih hcs]
    simp [hc]

/-- **relative names are resolved against the reference directory** (general form): if every
    `/`-separated component of `name` is ordinary, the result is `refdir` followed by them -/
theorem resolvePath_relative_gen (refdir : Path) (name : Str)
    (h : (splitOn '/' name).all plainComp = true) :
    resolvePath refdir name = refdir ++ splitOn '/' name := by
  unfold resolvePath
  have hrel : (name.take 1 == ['/']) = false := by
    cases name with
    | nil => rfl
    | cons c cs =>
      cases hc : (c == '/') with
      | false =>
        have : c ≠ '/' := by simpa using hc
        simp [this]
      | true =>
        have : c = '/' := by simpa using hc
        subst this
        rw [splitOn_cons_sep] at h
        simp [plainComp] at h
  simp only [hrel, Bool.false_eq_true, ↓reduceIte]
  exact normComponents_plain _ _ h

/-- single ordinary component -/
theorem resolvePath_relative (refdir : Path) (c : Str) (hslash : '/' ∉ c) (h0 : c ≠ [])
    (h1 : c ≠ ".".toList) (h2 : c ≠ "..".toList) :
    resolvePath refdir c = refdir ++ [c] := by
  have hs := splitOn_no_sep '/' c hslash
  have := resolvePath_relative_gen refdir c (by
    rw [hs]
    have e1 : ".".toList = ['.'] := rfl
    have e2 : "..".toList = ['.', '.'] := rfl
    rw [e1] at h1; rw [e2] at h2
    simp [plainComp, h0, h1, h2])
  rw [this, hs]

/-- **a name starting with `/` ignores the reference directory** -/
theorem resolvePath_absolute (refdir : Path) (rest : Str) :
    resolvePath refdir ('/' :: rest) = normComponents (splitOn '/' rest) [] := by
  unfold resolvePath
  simp only [List.take_succ_cons, List.take_zero, BEq.rfl, ↓reduceIte]
  rw [splitOn_cons_sep, normComponents_empty]

theorem resolvePath_absolute_indep (refdir refdir' : Path) (rest : Str) :
    resolvePath refdir ('/' :: rest) = resolvePath refdir' ('/' :: rest) := by
  rw [resolvePath_absolute, resolvePath_absolute]

/-- a relative name: the components are normalised starting from the reference directory -/
theorem resolvePath_rel_norm (refdir : Path) (name : Str) (h : name.take 1 ≠ ['/']) :
    resolvePath refdir name = normComponents (splitOn '/' name) refdir := by
  unfold resolvePath
  have : (name.take 1 == ['/']) = false := by simpa using h
  simp [this]

/-! ### 6. the cycle error and the include graph -/

/-- the imported scope `q` is where a cycle error comes from: its text fails to parse with that very
    error, or processing its includes (one unit of fuel less, reference directory `env.cwd`, the same
    stack) ends with it -/
def ScopeCycleSrc (env : IncEnv) (fuel : Nat) (stack : List Path) (q : Str) : Prop :=
  ∃ text, env.imported q = some text ∧
    (parseObjs text = .error cycleErr ∨
      ∃ src f, parseObjs text = .ok src ∧ fuel = f + 1 ∧
        processIncludes env f env.cwd stack src = .error cycleErr)

theorem includeScope_cycle (env : IncEnv) (fuel : Nat) (stack : List Path) (p : Str) (sub : Option Str)
    (line : Option Nat) (h : includeScope env fuel stack p sub line = .error cycleErr) :
    ScopeCycleSrc env fuel stack p := by
  unfold includeScope at h
  cases hi : env.imported p with
  | none => rw [hi] at h; cases h
  | some text =>
    rw [hi] at h
    simp only at h
    cases hp : parseObjs text with
    | error e =>
      rw [hp] at h
      simp only at h
      cases h
      exact ⟨text, hi, .inl hp⟩
    | ok src =>
      rw [hp] at h
      simp only at h
      cases fuel with
      | zero => cases h
      | succ f =>
        simp only at h
        cases hx : processIncludes env f env.cwd stack src with
        | error e =>
          rw [hx] at h
          simp only at h
          cases h
          exact ⟨text, hi, .inr ⟨src, f, hp, rfl, hx⟩⟩
        | ok expanded =>
          rw [hx] at h
          simp only at h
          exact absurd h (selectSub_ne_cycleErr _ _ _)

/-- a successful `include scope p [sub]`: the import is known, its text parses, there is fuel, its own
    includes are processed successfully, and the result is the selection from that expansion -/
theorem includeScope_ok (env : IncEnv) (fuel : Nat) (stack : List Path) (p : Str) (sub : Option Str)
    (line : Option Nat) (res : List Obj) (h : includeScope env fuel stack p sub line = .ok res) :
    ∃ text src f expanded, env.imported p = some text ∧ parseObjs text = .ok src ∧ fuel = f + 1 ∧
      processIncludes env f env.cwd stack src = .ok expanded ∧ selectSub expanded sub line = .ok res := by
  unfold includeScope at h
  cases hi : env.imported p with
  | none => rw [hi] at h; cases h
  | some text =>
    rw [hi] at h
    simp only at h
    cases hp : parseObjs text with
    | error e => rw [hp] at h; cases h
    | ok src =>
      rw [hp] at h
      simp only at h
      cases fuel with
      | zero => cases h
      | succ f =>
        simp only at h
        cases hx : processIncludes env f env.cwd stack src with
        | error e => rw [hx] at h; cases h
        | ok expanded =>
          rw [hx] at h
          simp only at h
          exact ⟨text, src, f, expanded, rfl, hp, rfl, hx, h⟩

/-- the cycle error of a processed list comes from one of the followed include statements: an
    `include file` whose expansion ends with it, or an `include scope` (see `ScopeCycleSrc`) -/
theorem processIncludes_cycle_source (env : IncEnv) (fuel : Nat) (refdir : Path) (stack : List Path)
    (objs : List Obj) :
    processIncludes env fuel refdir stack objs = .error cycleErr →
      (∃ n ∈ includeTargets objs, expandFile env fuel (resolvePath refdir n) stack = .error cycleErr) ∨
      (∃ q ∈ scopeTargets objs, ScopeCycleSrc env fuel stack q) := by
  induction objs using Obj.rec_1
    (motive_1 := fun o => includeHere env fuel refdir stack o = .error cycleErr →
      (∃ n ∈ includeTargetsObj o, expandFile env fuel (resolvePath refdir n) stack = .error cycleErr) ∨
      (∃ q ∈ scopeTargetsObj o, ScopeCycleSrc env fuel stack q)) with
  | defn m ws =>
    rename_i h
    cases ht : includeTarget (.defn m ws) with
    | some n =>
      rw [includeHere_include' env fuel refdir stack _ n ht] at h
      exact .inl ⟨n, by simp [includeTargetsObj, ht], h⟩
    | none =>
      cases hst : scopeTarget (.defn m ws) with
      | none => exact absurd rfl (includeHere_defn_other env fuel refdir stack m ws ht hst _ h).2
      | some ps =>
        obtain ⟨p, sub⟩ := ps
        rw [includeHere_scope env fuel refdir stack _ p sub hst] at h
        exact .inr ⟨p, by simp [scopeTargetsObj, hst], includeScope_cycle _ _ _ _ _ _ h⟩
  | scope m kids ih =>
    rename_i h
    unfold includeHere at h
    simp only [Obj.meta] at h
    by_cases hd : m.disabled = true
    · simp [hd] at h
    · simp only [hd] at h
      have := ih ((Except.map_eq_error _ _ _).mp h)
      simpa [includeTargetsObj, scopeTargetsObj, hd] using this
  | nil => intro h; rw [processIncludes_nil] at h; cases h
  | cons o rest iho ihr =>
    intro h
    rw [processIncludes_cons] at h
    cases hh : includeHere env fuel refdir stack o with
    | error e =>
      rw [hh] at h
      simp only at h
      cases h
      rcases iho hh with ⟨n, hn, he⟩ | ⟨q, hq, he⟩
      · exact .inl ⟨n, by simp [includeTargets, hn], he⟩
      · exact .inr ⟨q, by simp [scopeTargets, hq], he⟩
    | ok l =>
      rw [hh] at h
      simp only at h
      rcases ihr ((Except.map_eq_error _ _ _).mp h) with ⟨n, hn, he⟩ | ⟨q, hq, he⟩
      · exact .inl ⟨n, by simp [includeTargets, hn], he⟩
      · exact .inr ⟨q, by simp [scopeTargets, hq], he⟩

/-- if a list is processed successfully, every followed include statement was expanded successfully -/
theorem processIncludes_ok_targets (env : IncEnv) (fuel : Nat) (refdir : Path) (stack : List Path)
    (objs : List Obj) :
    ∀ res, processIncludes env fuel refdir stack objs = .ok res →
      ∀ n ∈ includeTargets objs, ∃ res', expandFile env fuel (resolvePath refdir n) stack = .ok res' := by
  induction objs using Obj.rec_1
    (motive_1 := fun o => ∀ res, includeHere env fuel refdir stack o = .ok res →
      ∀ n ∈ includeTargetsObj o, ∃ res', expandFile env fuel (resolvePath refdir n) stack = .ok res') with
  | defn m ws =>
    rename_i res h n hn
    cases ht : includeTarget (.defn m ws) with
    | none => simp [includeTargetsObj, ht] at hn
    | some n' =>
      simp [includeTargetsObj, ht] at hn
      subst hn
      rw [includeHere_include' env fuel refdir stack _ n ht] at h
      exact ⟨res, h⟩
  | scope m kids ih =>
    rename_i res h n hn
    unfold includeHere at h
    simp only [Obj.meta] at h
    by_cases hd : m.disabled = true
    · simp [includeTargetsObj, hd] at hn
    · simp only [hd] at h
      simp only [includeTargetsObj, hd] at hn
      obtain ⟨ks, hks, _⟩ := (Except.map_eq_ok _ _ _).mp h
      exact ih ks hks n hn
  | nil => intro res h n hn; simp [includeTargets] at hn
  | cons o rest iho ihr =>
    intro res h n hn
    rw [processIncludes_cons] at h
    cases hh : includeHere env fuel refdir stack o with
    | error e => rw [hh] at h; cases h
    | ok l =>
      rw [hh] at h
      simp only at h
      obtain ⟨r, hr, _⟩ := (Except.map_eq_ok _ _ _).mp h
      simp only [includeTargets, List.mem_append] at hn
      rcases hn with hn | hn
      · exact iho l hh n hn
      · exact ihr r hr n hn

/-- if a list is processed successfully, every followed `include scope` statement names a known import
    whose text parses and whose own includes were processed successfully -/
theorem processIncludes_ok_scopeTargets (env : IncEnv) (fuel : Nat) (refdir : Path) (stack : List Path)
    (objs : List Obj) :
    ∀ res, processIncludes env fuel refdir stack objs = .ok res →
      ∀ q ∈ scopeTargets objs, ∃ text src f expanded, env.imported q = some text ∧
        parseObjs text = .ok src ∧ fuel = f + 1 ∧
        processIncludes env f env.cwd stack src = .ok expanded := by
  induction objs using Obj.rec_1
    (motive_1 := fun o => ∀ res, includeHere env fuel refdir stack o = .ok res →
      ∀ q ∈ scopeTargetsObj o, ∃ text src f expanded, env.imported q = some text ∧
        parseObjs text = .ok src ∧ fuel = f + 1 ∧
        processIncludes env f env.cwd stack src = .ok expanded) with
  | defn m ws =>
    rename_i res h q hq
    cases hst : scopeTarget (.defn m ws) with
    | none => simp [scopeTargetsObj, hst] at hq
    | some ps =>
      obtain ⟨p, sub⟩ := ps
      simp [scopeTargetsObj, hst] at hq
      subst hq
      rw [includeHere_scope env fuel refdir stack _ q sub hst] at h
      obtain ⟨text, src, f, expanded, h1, h2, h3, h4, _⟩ := includeScope_ok _ _ _ _ _ _ _ h
      exact ⟨text, src, f, expanded, h1, h2, h3, h4⟩
  | scope m kids ih =>
    rename_i res h q hq
    unfold includeHere at h
    simp only [Obj.meta] at h
    by_cases hd : m.disabled = true
    · simp [scopeTargetsObj, hd] at hq
    · simp only [hd] at h
      simp only [scopeTargetsObj, hd] at hq
      obtain ⟨ks, hks, _⟩ := (Except.map_eq_ok _ _ _).mp h
      exact ih ks hks q hq
  | nil => intro res h q hq; simp [scopeTargets] at hq
  | cons o rest iho ihr =>
    intro res h q hq
    rw [processIncludes_cons] at h
    cases hh : includeHere env fuel refdir stack o with
    | error e => rw [hh] at h; cases h
    | ok l =>
      rw [hh] at h
      simp only at h
      obtain ⟨r, hr, _⟩ := (Except.map_eq_ok _ _ _).mp h
      simp only [scopeTargets, List.mem_append] at hq
      rcases hq with hq | hq
      · exact iho l hh q hq
      · exact ihr r hr q hq

/-- `ReachFile env refdir objs b`: processing `objs` with reference directory `refdir` leads to the
    expansion of the file `b` without entering another file first — through a followed `include file`
    statement of `objs`, or through a chain of followed `include scope` statements ending in an
    `include file` statement, whose name is resolved against `env.cwd` -/
inductive ReachFile (env : IncEnv) : Path → List Obj → Path → Prop
  | file {refdir : Path} {objs : List Obj} {b : Path} (n : Str) :
      n ∈ includeTargets objs → resolvePath refdir n = b → ReachFile env refdir objs b
  | scope {refdir : Path} {objs : List Obj} {b : Path} (q : Str) (text : Str) (src : List Obj) :
      q ∈ scopeTargets objs → env.imported q = some text → parseObjs text = .ok src →
      ReachFile env env.cwd src b → ReachFile env refdir objs b

/-- `a` includes `b`: the text of `a` parses, and its objects lead to the expansion of `b`
    (`ReachFile`, relative to the directory of `a`) -/
def Includes (env : IncEnv) (a b : Path) : Prop :=
  ∃ t objs, env.fs.read a = some t ∧ parseObjs t = .ok objs ∧ ReachFile env a.dropLast objs b

/-- the direct case: an `include file` statement of `a` whose name resolves to `b` -/
theorem Includes.direct {env : IncEnv} {a b : Path} (t : Str) (objs : List Obj) (n : Str)
    (hr : env.fs.read a = some t) (hp : parseObjs t = .ok objs) (hn : n ∈ includeTargets objs)
    (hres : resolvePath a.dropLast n = b) : Includes env a b :=
  ⟨t, objs, hr, hp, .file n hn hres⟩

/-- `IncWalk env a st p st'`: starting the expansion of `a` with stack `st`, a chain of include
    statements leads to the expansion of `p` with stack `st'` (= `st` followed by the files of the
    chain before `p`; imported scopes are not pushed) -/
inductive IncWalk (env : IncEnv) : Path → List Path → Path → List Path → Prop
  | here (p : Path) (st : List Path) : IncWalk env p st p st
  | step {a b : Path} {st : List Path} {p : Path} {st' : List Path} :
      Includes env a b → IncWalk env b (st ++ [a]) p st' → IncWalk env a st p st'

theorem IncWalk.prefix {env : IncEnv} {a : Path} {st : List Path} {p : Path} {st' : List Path}
    (h : IncWalk env a st p st') : st <+: st' := by
  induction h with
  | here p st => exact List.prefix_refl _
  | step _ _ ih => exact List.IsPrefix.trans (List.prefix_append _ _) ih

/-- no file's *parser* outcome is the include-cycle error (the parser has no such error site) -/
def ParseNoCycleErr (fs : FS) : Prop := ∀ pt ∈ fs, parseObjs pt.2 ≠ .error cycleErr

/-- … and no imported scope's -/
def ImportsParseNoCycleErr (imports : List (Str × Str)) : Prop :=
  ∀ pt ∈ imports, parseObjs pt.2 ≠ .error cycleErr

/-- where a cycle error can come from: a chain of include statements from `path` reaches a file `p`
    that is on its own stack, or a file whose parser outcome is the cycle error -/
def CycleWitness (env : IncEnv) (path : Path) (stack : List Path) : Prop :=
  ∃ p st, IncWalk env path stack p st ∧
    (p ∈ st ∨ ∃ t, env.fs.read p = some t ∧ parseObjs t = .error cycleErr)

/-- **soundness of the cycle error**, both functions at once -/
theorem cycle_error_sound_both (env : IncEnv) :
    ∀ (fuel : Nat),
      (∀ (path : Path) (stack : List Path), expandFile env fuel path stack = .error cycleErr →
        (∃ pt ∈ env.imports, parseObjs pt.2 = .error cycleErr) ∨ CycleWitness env path stack) ∧
      (∀ (refdir : Path) (stack : List Path) (objs : List Obj),
        processIncludes env fuel refdir stack objs = .error cycleErr →
        (∃ pt ∈ env.imports, parseObjs pt.2 = .error cycleErr) ∨
        ∃ b, ReachFile env refdir objs b ∧ CycleWitness env b stack) := by
  intro fuel
  induction fuel with
  | zero =>
    have hE : ∀ (path : Path) (stack : List Path), expandFile env 0 path stack = .error cycleErr →
        (∃ pt ∈ env.imports, parseObjs pt.2 = .error cycleErr) ∨ CycleWitness env path stack := by
      intro path stack h; rw [expandFile_zero] at h; cases h
    refine ⟨hE, ?_⟩
    intro refdir stack objs h
    rcases processIncludes_cycle_source env 0 refdir stack objs h with ⟨n, hn, he⟩ | ⟨q, hq, text, hi, hc⟩
    · rw [expandFile_zero] at he; cases he
    · rcases hc with hc | ⟨src, f, _, hf, _⟩
      · exact .inl ⟨(q, text), IncEnv.imported_some_mem hi, hc⟩
      · cases hf
  | succ f ih =>
    have hE : ∀ (path : Path) (stack : List Path), expandFile env (f + 1) path stack = .error cycleErr →
        (∃ pt ∈ env.imports, parseObjs pt.2 = .error cycleErr) ∨ CycleWitness env path stack := by
      intro path stack h
      rw [expandFile_succ] at h
      cases hr : env.fs.read path with
      | none => rw [hr] at h; cases h
      | some text =>
        rw [hr] at h
        simp only at h
        cases hp : parseObjs text with
        | error e =>
          rw [hp] at h
          simp only at h
          cases h
          exact .inr ⟨path, stack, .here _ _, .inr ⟨text, hr, hp⟩⟩
        | ok objs =>
          rw [hp] at h
          simp only at h
          by_cases hc : stack.contains path = true
          · exact .inr ⟨path, stack, .here _ _, .inl (List.contains_iff_mem.mp hc)⟩
          · simp only [hc] at h
            rcases ih.2 _ _ objs h with hx | ⟨b, hb, p, st, hw, hm⟩
            · exact .inl hx
            · exact .inr ⟨p, st, .step ⟨text, objs, hr, hp, hb⟩ hw, hm⟩
    refine ⟨hE, ?_⟩
    intro refdir stack objs h
    rcases processIncludes_cycle_source env (f + 1) refdir stack objs h with
      ⟨n, hn, he⟩ | ⟨q, hq, text, hi, hc⟩
    · rcases hE _ _ he with hx | hw
      · exact .inl hx
      · exact .inr ⟨_, .file n hn rfl, hw⟩
    · rcases hc with hc | ⟨src, f', hp, hf, hx⟩
      · exact .inl ⟨(q, text), IncEnv.imported_some_mem hi, hc⟩
      · have hf' : f' = f := by omega
        subst hf'
        rcases ih.2 _ _ src hx with hx | ⟨b, hb, hw⟩
        · exact .inl hx
        · exact .inr ⟨b, .scope q text src hq hi hp hb, hw⟩

/-- **soundness of the cycle error**, hypothesis-free form: it is only raised when a chain of
    include statements (through files and imported scopes) leads to a file that is on its own stack
    — or the *parser* outcome of a file of the chain or of an imported scope is that very error
    (which the parser never produces, see `ParseNoCycleErr`) -/
theorem cycle_error_sound_gen (env : IncEnv) (fuel : Nat) (path : Path) (stack : List Path)
    (h : expandFile env fuel path stack = .error cycleErr) :
    (∃ pt ∈ env.imports, parseObjs pt.2 = .error cycleErr) ∨
    ∃ p st, IncWalk env path stack p st ∧
      (p ∈ st ∨ ∃ t, env.fs.read p = some t ∧ parseObjs t = .error cycleErr) :=
  (cycle_error_sound_both env fuel).1 path stack h

theorem cycle_error_sound (env : IncEnv) (hpc : ParseNoCycleErr env.fs)
    (hpi : ImportsParseNoCycleErr env.imports) (fuel : Nat) (path : Path)
    (stack : List Path) (h : expandFile env fuel path stack = .error cycleErr) :
    ∃ p st, IncWalk env path stack p st ∧ p ∈ st := by
  rcases cycle_error_sound_gen env fuel path stack h with ⟨pt, hm, hp⟩ | ⟨p, st, hw, hm⟩
  · exact absurd hp (hpi pt hm)
  · rcases hm with hm | ⟨t, hr, hp⟩
    · exact ⟨p, st, hw, hm⟩
    · exact absurd hp (hpc _ (FS.read_some_mem hr))

/-- if a list is processed successfully, every file it leads to (`ReachFile`) was expanded
    successfully with the same stack -/
theorem reachFile_ok (env : IncEnv) (stack : List Path) {refdir : Path} {objs : List Obj} {b : Path}
    (hreach : ReachFile env refdir objs b) :
    ∀ (fuel : Nat) (res : List Obj), processIncludes env fuel refdir stack objs = .ok res →
      ∃ fuel' res', expandFile env fuel' b stack = .ok res' := by
  induction hreach with
  | file n hn hres =>
    intro fuel res h
    obtain ⟨res', hres'⟩ := processIncludes_ok_targets env fuel _ _ _ res h n hn
    rw [hres] at hres'
    exact ⟨fuel, res', hres'⟩
  | scope q text src hq hi hp _ ih =>
    intro fuel res h
    obtain ⟨text', src', f, expanded, h1, h2, h3, h4⟩ :=
      processIncludes_ok_scopeTargets env fuel _ _ _ res h q hq
    rw [hi] at h1
    cases h1
    rw [hp] at h2
    cases h2
    exact ih f expanded h4

/-- **every cycle is detected**: if the expansion succeeds, no chain of include statements
    starting from it leads to a file that is on its own stack -/
theorem ok_no_cycle (env : IncEnv) {a : Path} {st : List Path} {p : Path} {st' : List Path}
    (hw : IncWalk env a st p st') :
    ∀ (fuel : Nat) (res : List Obj), expandFile env fuel a st = .ok res → p ∉ st' := by
  induction hw with
  | here p st =>
    intro fuel res h hin
    cases fuel with
    | zero => rw [expandFile_zero] at h; cases h
    | succ f =>
      rw [expandFile_succ] at h
      have hc : st.contains p = true := List.contains_iff_mem.mpr hin
      cases hr : env.fs.read p with
      | none => rw [hr] at h; cases h
      | some text =>
        rw [hr] at h
        simp only at h
        cases hp : parseObjs text with
        | error e => rw [hp] at h; cases h
        | ok objs => rw [hp] at h; simp [hin] at h
  | @step a b st p st' hinc _ ih =>
    intro fuel res h
    obtain ⟨t, objs, hr, hp, hreach⟩ := hinc
    cases fuel with
    | zero => rw [expandFile_zero] at h; cases h
    | succ f =>
      rw [expandFile_succ] at h
      simp only [hr, hp] at h
      by_cases hc : st.contains a = true
      · simp only [hc, ↓reduceIte] at h; cases h
      · simp only [hc] at h
        obtain ⟨fuel', res', hres'⟩ := reachFile_ok env _ hreach f res h
        exact ih fuel' res' hres'

/-! ### textual inlining -/

theorem includeHere_noInclude (env : IncEnv) (fuel : Nat) (refdir : Path) (stack : List Path) (o : Obj)
    (h : NoIncludeObj o = true) : includeHere env fuel refdir stack o = .ok [resetTmplObj o] := by
  have := no_include_identity env fuel refdir stack [o] (by simp [NoInclude, h])
  rw [processIncludes_cons, processIncludes_nil] at this
  cases hh : includeHere env fuel refdir stack o with
  | error e => rw [hh] at this; cases this
  | ok l =>
    rw [hh] at this
    simp [Except.map, resetTmpl] at this
    rw [this]

/-- **inlining law for a list**: include-free objects, then an include statement, then anything:
    the statement is replaced by the expansion of the file its name resolves to -/
theorem processIncludes_split (env : IncEnv) (fuel : Nat) (refdir : Path) (stack : List Path)
    (pre post : List Obj) (i : Obj) (n : Str) (hpre : NoInclude pre = true)
    (hi : includeTarget i = some n) :
    processIncludes env fuel refdir stack (pre ++ i :: post) =
      match expandFile env fuel (resolvePath refdir n) stack with
      | .error e => .error e
      | .ok l => (processIncludes env fuel refdir stack post).map (fun r => resetTmpl pre ++ (l ++ r)) := by
  rw [processIncludes_append, no_include_identity env fuel refdir stack pre hpre]
  simp only
  rw [processIncludes_cons, includeHere_include' env fuel refdir stack i n hi]
  cases expandFile env fuel (resolvePath refdir n) stack with
  | error e => rfl
  | ok l =>
    simp only
    cases processIncludes env fuel refdir stack post with
    | error e => rfl
    | ok r => rfl

/-- **inlining law for a file**: the names of a file's include statements are resolved against the
    directory of that file, and the expansion happens with the file pushed on the stack -/
theorem expandFile_split (env : IncEnv) (f : Nat) (a : Path) (stack : List Path) (t : Str)
    (pre post : List Obj) (i : Obj) (n : Str)
    (hr : env.fs.read a = some t) (hp : parseObjs t = .ok (pre ++ i :: post)) (ha : a ∉ stack)
    (hpre : NoInclude pre = true) (hi : includeTarget i = some n) :
    expandFile env (f + 1) a stack =
      match expandFile env f (resolvePath a.dropLast n) (stack ++ [a]) with
      | .error e => .error e
      | .ok l => (processIncludes env f a.dropLast (stack ++ [a]) post).map
                    (fun r => resetTmpl pre ++ (l ++ r)) := by
  rw [expandFile_fresh env f a stack t _ ha hr hp]
  exact processIncludes_split env f _ _ pre post i n hpre hi

/-- an include statement that leads back to a file being expanded (the including file itself or one
    further up the stack) makes the expansion fail with the cycle error -/
theorem expandFile_back_edge (env : IncEnv) (f : Nat) (a q : Path) (stack : List Path) (t tq : Str)
    (pre post oq : List Obj) (i : Obj) (n : Str)
    (hr : env.fs.read a = some t) (hp : parseObjs t = .ok (pre ++ i :: post)) (ha : a ∉ stack)
    (hpre : NoInclude pre = true) (hi : includeTarget i = some n)
    (hq : resolvePath a.dropLast n = q) (hmem : q ∈ stack ++ [a])
    (hrq : env.fs.read q = some tq) (hpq : parseObjs tq = .ok oq) :
    expandFile env (f + 2) a stack = .error cycleErr := by
  rw [expandFile_split env (f + 1) a stack t pre post i n hr hp ha hpre hi, hq,
    cycle_refused env f q (stack ++ [a]) tq oq hmem hrq hpq]

/-- a reachable include cycle is always reported as an error (never an endless recursion, and — if
    the parser's own fuel suffices — never the model's `outOfFuel`) -/
theorem cycle_detected (env : IncEnv) (root p : Path) (st : List Path) (hw : IncWalk env root [] p st)
    (hp : p ∈ st) : ∃ e, expand env root = .error e := by
  cases h : expand env root with
  | error e => exact ⟨e, rfl⟩
  | ok res => exact absurd hp (ok_no_cycle env hw _ res h)

/-! ### 7. `include scope`: splicing an imported scope -/

/-- splice two processed parts: the first error wins, otherwise the lists are concatenated -/
def splice (a b : R (List Obj)) : R (List Obj) :=
  match a with
  | .error e => .error e
  | .ok l => b.map (fun r => l ++ r)

@[simp] theorem splice_ok_ok (l r : List Obj) : splice (.ok l) (.ok r) = .ok (l ++ r) := rfl
@[simp] theorem splice_error (e : Err) (b : R (List Obj)) : splice (.error e) b = .error e := rfl
@[simp] theorem splice_ok_error (l : List Obj) (e : Err) : splice (.ok l) (.error e) = .error e := rfl

/-- the spliced result is `l ++ r` exactly when both parts succeed -/
theorem splice_eq_ok_iff (a b : R (List Obj)) (res : List Obj) :
    splice a b = .ok res ↔ ∃ l r, a = .ok l ∧ b = .ok r ∧ res = l ++ r := by
  cases a with
  | error e => simp
  | ok l =>
    cases b with
    | error e => simp
    | ok r =>
      simp only [splice_ok_ok, Except.ok.injEq]
      constructor
      · intro h; exact ⟨l, r, rfl, rfl, h.symm⟩
      · rintro ⟨l', r', hl, hr, h⟩; cases hl; cases hr; exact h.symm

/-- … and otherwise the error of the first failing part -/
theorem splice_eq_error_iff (a b : R (List Obj)) (e : Err) :
    splice a b = .error e ↔ a = .error e ∨ ∃ l, a = .ok l ∧ b = .error e := by
  cases a with
  | error e' => simp
  | ok l =>
    cases b with
    | error e' => simp
    | ok r => simp

theorem processIncludes_cons_splice (env : IncEnv) (fuel : Nat) (refdir : Path) (stack : List Path)
    (o : Obj) (rest : List Obj) :
    processIncludes env fuel refdir stack (o :: rest) =
      splice (includeHere env fuel refdir stack o) (processIncludes env fuel refdir stack rest) := by
  rw [processIncludes_cons]; rfl

theorem processIncludes_append_splice (env : IncEnv) (fuel : Nat) (refdir : Path) (stack : List Path)
    (a b : List Obj) :
    processIncludes env fuel refdir stack (a ++ b) =
      splice (processIncludes env fuel refdir stack a) (processIncludes env fuel refdir stack b) := by
  rw [processIncludes_append]; rfl

/-- a well-formed `include scope` statement at the head of a list -/
theorem processIncludes_scope_cons (env : IncEnv) (fuel : Nat) (refdir : Path) (stack : List Path)
    (o : Obj) (rest : List Obj) (p : Str) (sub : Option Str) (h : scopeTarget o = some (p, sub)) :
    processIncludes env fuel refdir stack (o :: rest) =
      splice (includeScope env fuel stack p sub o.meta.line)
        (processIncludes env fuel refdir stack rest) := by
  rw [processIncludes_cons_splice, includeHere_scope env fuel refdir stack o p sub h]

/-- a known import whose text parses: its own includes are processed first (fuel `f`, reference
    directory `env.cwd`, the same stack), then the sub-path is selected from the *expanded* objects -/
theorem includeScope_known (env : IncEnv) (f : Nat) (stack : List Path) (p : Str) (sub : Option Str)
    (line : Option Nat) (text : Str) (src : List Obj) (hi : env.imported p = some text)
    (hp : parseObjs text = .ok src) :
    includeScope env (f + 1) stack p sub line =
      (processIncludes env f env.cwd stack src).bind (fun expanded => selectSub expanded sub line) := by
  unfold includeScope
  simp only [hi, hp]
  cases processIncludes env f env.cwd stack src <;> rfl

/-- the contribution of an `include scope` statement does not depend on the reference directory -/
theorem includeHere_scope_refdir_indep (env : IncEnv) (fuel : Nat) (refdir refdir' : Path)
    (stack : List Path) (o : Obj) (p : Str) (sub : Option Str) (h : scopeTarget o = some (p, sub)) :
    includeHere env fuel refdir stack o = includeHere env fuel refdir' stack o := by
  rw [includeHere_scope env fuel refdir stack o p sub h, includeHere_scope env fuel refdir' stack o p sub h]

/-- include-free objects, then an `include file` statement, then anything (`splice` form) -/
theorem processIncludes_split_splice (env : IncEnv) (fuel : Nat) (refdir : Path) (stack : List Path)
    (pre post : List Obj) (i : Obj) (n : Str) (hpre : NoInclude pre = true)
    (hi : includeTarget i = some n) :
    processIncludes env fuel refdir stack (pre ++ i :: post) =
      splice (.ok (resetTmpl pre))
        (splice (expandFile env fuel (resolvePath refdir n) stack)
          (processIncludes env fuel refdir stack post)) := by
  rw [processIncludes_append_splice, no_include_identity env fuel refdir stack pre hpre,
    processIncludes_cons_splice, includeHere_include' env fuel refdir stack i n hi]

/-- include-free objects, then an `include scope` statement, then anything -/
theorem processIncludes_split_scope (env : IncEnv) (fuel : Nat) (refdir : Path) (stack : List Path)
    (pre post : List Obj) (o : Obj) (p : Str) (sub : Option Str) (hpre : NoInclude pre = true)
    (h : scopeTarget o = some (p, sub)) :
    processIncludes env fuel refdir stack (pre ++ o :: post) =
      splice (.ok (resetTmpl pre))
        (splice (includeScope env fuel stack p sub o.meta.line)
          (processIncludes env fuel refdir stack post)) := by
  rw [processIncludes_append_splice, no_include_identity env fuel refdir stack pre hpre,
    processIncludes_scope_cons env fuel refdir stack o post p sub h]

/-- a file includes a scope whose text includes a file that is being expanded (the including file
    itself or one further up the stack): the cycle error -/
theorem expandFile_back_edge_through_scope (env : IncEnv) (f : Nat) (a q : Path) (stack : List Path)
    (t ts tq : Str) (pre post pre' post' oq : List Obj) (o i : Obj) (p : Str) (sub : Option Str) (n : Str)
    (hr : env.fs.read a = some t) (hp : parseObjs t = .ok (pre ++ o :: post)) (ha : a ∉ stack)
    (hpre : NoInclude pre = true) (ho : scopeTarget o = some (p, sub))
    (his : env.imported p = some ts) (hps : parseObjs ts = .ok (pre' ++ i :: post'))
    (hpre' : NoInclude pre' = true) (hi : includeTarget i = some n)
    (hq : resolvePath env.cwd n = q) (hmem : q ∈ stack ++ [a])
    (hrq : env.fs.read q = some tq) (hpq : parseObjs tq = .ok oq) :
    expandFile env (f + 3) a stack = .error cycleErr := by
  rw [expandFile_fresh env (f + 2) a stack t _ ha hr hp,
    processIncludes_split_scope env (f + 2) _ _ pre post o p sub hpre ho,
    includeScope_known env (f + 1) _ p sub _ ts _ his hps,
    processIncludes_split_splice env (f + 1) _ _ pre' post' i n hpre' hi, hq,
    cycle_refused env f q (stack ++ [a]) tq oq hmem hrq hpq]
  rfl

end Phil
